//go:build verif

// Harness for the dispatcher half of C05: every decodable packet handed to the real
// SessionManager.HandlePacket on a FRESH (unauthenticated) connection of a complete server stack
// (memory storage, built-in cloud control, real auth / tunnel / command handlers) must return an
// error or a reply — never panic, never hang.
//
//	disp <type byte> p <hex payload>                 payload-carrying packet
//	disp <type byte> c <cmdtype> <hex CommandBody>   command packet
//	## res handled | res unhandled | panic … | timeout
package main

import (
	"context"
	"encoding/binary"
	"encoding/json"
	"flag"
	"fmt"
	"io"
	"net"
	"os"
	"runtime"
	"strconv"
	"strings"
	"sync"
	"sync/atomic"
	"time"

	"tunnox-core/internal/app/server"
	"tunnox-core/internal/cloud/factories"
	"tunnox-core/internal/cloud/managers"
	"tunnox-core/internal/cloud/repos"
	"tunnox-core/internal/cloud/services"
	"tunnox-core/internal/command"
	"tunnox-core/internal/core/idgen"
	"tunnox-core/internal/core/storage"
	"tunnox-core/internal/core/types"
	"tunnox-core/internal/packet"
	"tunnox-core/internal/protocol/adapter"
	"tunnox-core/internal/protocol/session"
	"tunnox-core/internal/security"
	vc "tunnox-core/internal/verifharness/common"
)

type fconn struct {
	mu   sync.Mutex
	n    int
	addr net.Addr
}

func (c *fconn) Read(p []byte) (int, error) { return 0, io.EOF }
func (c *fconn) Write(p []byte) (int, error) {
	c.mu.Lock()
	c.n += len(p)
	c.mu.Unlock()
	return len(p), nil
}
func (c *fconn) Close() error                       { return nil }
func (c *fconn) LocalAddr() net.Addr                { return &net.TCPAddr{IP: net.IPv4(127, 0, 0, 1), Port: 7000} }
func (c *fconn) RemoteAddr() net.Addr               { return c.addr }
func (c *fconn) SetDeadline(t time.Time) error      { return nil }
func (c *fconn) SetReadDeadline(t time.Time) error  { return nil }
func (c *fconn) SetWriteDeadline(t time.Time) error { return nil }

type stack struct {
	ctx    context.Context
	cancel context.CancelFunc
	sm     *session.SessionManager
	seq    int
}

func newStack() *stack {
	ctx, cancel := context.WithCancel(context.Background())
	st := &stack{ctx: ctx, cancel: cancel}
	stor := storage.NewMemoryStorage(ctx)
	repo := repos.NewRepository(stor)
	cc := factories.NewBuiltinCloudControlWithRepo(ctx, managers.DefaultConfig(), stor, repo)
	sm := session.NewSessionManager(idgen.NewIDManager(stor, ctx), ctx)
	st.sm = sm
	sm.SetCloudControl(session.NewCloudControlAdapter(cc))
	sm.SetNodeID("verif-node")
	pmRepo := repos.NewPortMappingRepo(repo)
	ccRepo := repos.NewConnectionCodeRepository(repo)
	domRepo := repos.NewHTTPDomainMappingRepository(repo, []string{"tunnox.net"})
	ccs := services.NewConnectionCodeService(ccRepo, cc.GetPortMappingService(), pmRepo, nil, ctx)
	bfp := security.NewBruteForceProtector(nil, ctx)
	ipm := security.NewIPManager(stor, ctx)
	rl := security.NewRateLimiter(&security.RateLimitConfig{Rate: 1000000, Burst: 1000000, TTL: time.Hour}, nil, ctx)
	auth := server.NewServerAuthHandler(cc, sm, bfp, ipm, rl, nil)
	sm.SetAuthHandler(auth)
	sm.SetTunnelHandler(server.NewServerTunnelHandler(cc, ccs))
	sm.SetTunnelRoutingTable(session.NewTunnelRoutingTable(stor, 30*time.Second))
	registry := command.NewCommandRegistry(ctx)
	command.RegisterDefaultHandlers(registry)
	_ = server.NewConnectionCodeCommandHandlers(ccs, sm).RegisterHandlers(registry)
	_ = server.NewConfigCommandHandlers(auth, sm).RegisterHandlers(registry)
	_ = server.NewMappingCommandHandlers(ccs, sm).RegisterHandlers(registry)
	_ = server.NewHTTPDomainCommandHandlers(sm, domRepo).RegisterHandlers(registry)
	_ = registry.Register(command.NewNotifyClientAckHandler())
	ex := command.NewCommandExecutor(registry, ctx)
	ex.SetSession(sm)
	_ = sm.SetCommandExecutor(ex)
	return st
}

// dispatch hands one packet to HandlePacket on a fresh connection.
func (st *stack) dispatch(pkt *packet.TransferPacket) (obs string) {
	st.seq++
	fc := &fconn{addr: &net.TCPAddr{IP: net.IPv4(10, 9, byte(st.seq>>8), byte(st.seq)), Port: 40000 + st.seq%20000}}
	conn, err := st.sm.CreateConnection(fc, fc)
	if err != nil {
		return "setup-failed " + strings.ReplaceAll(err.Error(), " ", "_")
	}
	done := make(chan string, 1)
	go func() {
		defer func() {
			if r := recover(); r != nil {
				done <- "panic " + strings.ReplaceAll(fmt.Sprint(r), " ", "_")
			}
		}()
		err := st.sm.HandlePacket(&types.StreamPacket{ConnectionID: conn.ID, Packet: pkt})
		if err != nil && strings.Contains(err.Error(), "unhandled packet type") {
			done <- "res unhandled"
			return
		}
		done <- "res handled"
	}()
	select {
	case obs = <-done:
	case <-time.After(10 * time.Second):
		obs = "timeout"
	}
	_ = st.sm.CloseConnection(conn.ID)
	return obs
}

// ---- the per-connection read loop (adapter.BaseAdapter.handleConnection) fed with a finite byte stream
//
//	loop <hex stream> ch <k> <size>*k
//	## loop pk <packets handed to HandlePacket> ret <b> closed <b> conns <sessions left over>

type lconn struct {
	fconn
	cr     *vc.ChunkReader
	closed bool
}

func (c *lconn) Read(p []byte) (int, error) {
	c.mu.Lock()
	defer c.mu.Unlock()
	if c.closed {
		return 0, io.ErrClosedPipe
	}
	return c.cr.Read(p)
}
func (c *lconn) Close() error {
	c.mu.Lock()
	c.closed = true
	c.mu.Unlock()
	return nil
}

// countSession counts the packets the read loop hands to the dispatcher.
type countSession struct {
	types.Session
	n atomic.Int64
}

func (s *countSession) HandlePacket(p *types.StreamPacket) error {
	s.n.Add(1)
	return s.Session.HandlePacket(p)
}

func (st *stack) runLoop(data []byte, sizes []int) string {
	st.seq++
	c := &lconn{cr: vc.NewChunkReader(data, sizes, false)}
	c.addr = &net.TCPAddr{IP: net.IPv4(10, 8, byte(st.seq>>8), byte(st.seq)), Port: 30000 + st.seq%20000}
	before := len(st.sm.ListConnections())
	cs := &countSession{Session: st.sm}
	done := make(chan string, 1)
	go func() {
		defer func() {
			if r := recover(); r != nil {
				done <- "panic " + strings.ReplaceAll(fmt.Sprint(r), " ", "_")
			}
		}()
		adapter.VerifHandleConnection(st.ctx, cs, c)
		done <- "ret"
	}()
	select {
	case o := <-done:
		if o != "ret" {
			return o
		}
	case <-time.After(10 * time.Second):
		return "timeout"
	}
	c.mu.Lock()
	closed := c.closed
	c.mu.Unlock()
	b := "0"
	if closed {
		b = "1"
	}
	return fmt.Sprintf("loop pk %d ret 1 closed %s conns %d", cs.n.Load(), b, len(st.sm.ListConnections())-before)
}

func execLoop(st *stack, out *vc.Out, caseStr string) {
	toks := strings.Fields(caseStr)
	data := vc.UnHex(toks[1])
	var sizes []int
	if len(toks) > 3 {
		for _, t := range toks[4:] {
			n, _ := strconv.Atoi(t)
			sizes = append(sizes, n)
		}
	}
	obs := st.runLoop(data, sizes)
	key := caseStr
	if len(key) > 160 {
		key = key[:160] + strconv.Itoa(len(caseStr))
	}
	out.Case(caseStr, obs, key)
	out.Count("loop:" + strings.Fields(obs)[0])
}

func fmtLoop(data []byte, sizes []int) string {
	var sb strings.Builder
	fmt.Fprintf(&sb, "loop %s ch %d", vc.Hex(data), len(sizes))
	for _, n := range sizes {
		fmt.Fprintf(&sb, " %d", n)
	}
	return sb.String()
}

func frame(t int, body []byte) []byte {
	b := []byte{byte(t), 0, 0, 0, 0}
	binary.BigEndian.PutUint32(b[1:], uint32(len(body)))
	return append(b, body...)
}

func genRetain(st *stack, out *vc.Out, r *vc.Rand, thorough bool) {
	n := 1500
	if thorough {
		n = 6000
	}
	var tmpl []string
	for _, h := range handshakeSamples {
		// first-connection handshakes (client_id 0) are not refused: each one registers a new anonymous
		// identity by design (bounded in production by the per-address rate limiter), so they are left out
		if !strings.Contains(h, `"client_id":0`) {
			tmpl = append(tmpl, "disp 1 p "+vc.Hex([]byte(h)))
		}
	}
	for _, t := range tunnelOpenSamples {
		tmpl = append(tmpl, "disp 32 p "+vc.Hex([]byte(t)))
	}
	// every registered command family with a body its handler rejects or accepts, both command packet types
	for ct := 0; ct < 130; ct++ {
		if thorough || ct%3 == int(r.Intn(3)) {
			tmpl = append(tmpl, fmt.Sprintf("disp %d c %d %s", 0x10+ct%2, ct, vc.Hex([]byte(vc.Pick(r, cmdBodySamples)))))
		}
	}
	tmpl = append(tmpl, "disp 3 n", "disp 34 p "+vc.Hex([]byte("data")), "disp 33 n")
	for _, t := range tmpl {
		execCase(st, out, fmt.Sprintf("retain %d %s", n, t))
	}
}

func genLoop(st *stack, out *vc.Out, r *vc.Rand, thorough bool) {
	sizesOf := func(n int) []int {
		var s []int
		for n > 0 {
			k := 1 + r.Intn(n)
			if r.Intn(3) == 0 {
				k = 1
			}
			s = append(s, k)
			n -= k
		}
		return s
	}
	valid := func() []byte {
		var s []byte
		for i, np := 0, 1+r.Intn(4); i < np; i++ {
			switch r.Intn(6) {
			case 0:
				s = append(s, 0x03)
			case 1:
				s = append(s, frame(0x01, []byte(vc.Pick(r, handshakeSamples)))...)
			case 2:
				s = append(s, frame(0x20, []byte(vc.Pick(r, tunnelOpenSamples)))...)
			case 3:
				cp, _ := json.Marshal(&packet.CommandPacket{CommandType: packet.CommandType(r.Intn(130)), CommandId: "c", CommandBody: vc.Pick(r, cmdBodySamples)})
				s = append(s, frame(0x10+r.Intn(2), cp)...)
			case 4:
				s = append(s, frame(r.Intn(256), r.Bytes(r.Intn(30)))...)
			default:
				s = append(s, frame(0x22, r.Bytes(r.Intn(100)))...)
			}
		}
		return s
	}
	// every type byte alone and with a small body
	for t := 0; t < 256; t++ {
		execLoop(st, out, fmtLoop([]byte{byte(t)}, nil))
		execLoop(st, out, fmtLoop(frame(t, []byte("{}")), []int{1, 2}))
	}
	rounds := 400
	if thorough {
		rounds = 8000
	}
	for i := 0; i < rounds; i++ {
		s := valid()
		switch r.Intn(4) {
		case 0: // truncated
			s = s[:r.Intn(len(s)+1)]
		case 1: // mutated
			for m, k := 0, 1+r.Intn(3); m < k && len(s) > 0; m++ {
				s[r.Intn(len(s))] = byte(r.Uint64())
			}
		case 2: // junk
			s = r.Bytes(r.Intn(60))
		}
		execLoop(st, out, fmtLoop(s, sizesOf(len(s))))
		if i%300 == 299 {
			st.cancel()
			*st = *newStack()
		}
	}
}

// ---- retained memory: the same refused packet again and again from one address
//
//	retain <n> <disp case tokens…>
//	## retain perop <bytes of live heap growth per packet, after a warm-up of n packets>
//
// "never allocates or RETAINS memory beyond a fixed bound": what a refused pre-authentication packet
// leaves behind must not grow with the number of packets.  Live heap is measured after two GC cycles,
// before and after the second batch of n packets (the first batch fills caches, pools and lazily
// created per-address tables).

func buildPacket(toks []string) *packet.TransferPacket {
	ty, _ := strconv.Atoi(toks[1])
	pkt := &packet.TransferPacket{PacketType: packet.Type(ty)}
	switch toks[2] {
	case "p":
		pkt.Payload = vc.UnHex(toks[3])
		if ty&0x3F == 0x10 || ty&0x3F == 0x11 {
			var cp packet.CommandPacket
			if err := json.Unmarshal(pkt.Payload, &cp); err != nil {
				return nil
			}
			pkt.CommandPacket = &cp
			pkt.Payload = nil
		}
	case "c":
		ct, _ := strconv.Atoi(toks[3])
		pkt.CommandPacket = &packet.CommandPacket{CommandType: packet.CommandType(ct), CommandId: "verif-cmd",
			CommandBody: string(vc.UnHex(toks[4]))}
	}
	return pkt
}

func liveHeap() uint64 {
	runtime.GC()
	runtime.GC()
	var m runtime.MemStats
	runtime.ReadMemStats(&m)
	return m.HeapAlloc
}

func runRetain(n int, dispToks []string) string {
	st := newStack()
	defer st.cancel()
	addr := &net.TCPAddr{IP: net.IPv4(10, 7, 7, 7), Port: 45000}
	one := func() string {
		pkt := buildPacket(dispToks)
		if pkt == nil {
			return "skip"
		}
		fc := &fconn{addr: addr}
		conn, err := st.sm.CreateConnection(fc, fc)
		if err != nil {
			return "setup-failed"
		}
		res := "ok"
		func() {
			defer func() {
				if r := recover(); r != nil {
					res = "panic " + strings.ReplaceAll(fmt.Sprint(r), " ", "_")
				}
			}()
			_ = st.sm.HandlePacket(&types.StreamPacket{ConnectionID: conn.ID, Packet: pkt})
		}()
		_ = st.sm.CloseConnection(conn.ID)
		return res
	}
	for i := 0; i < n; i++ {
		if r := one(); r != "ok" {
			return r
		}
	}
	// three measured batches; a leak shows in every batch, allocator noise does not: report the minimum
	per := int64(-1)
	h1 := liveHeap()
	for b := 0; b < 3; b++ {
		for i := 0; i < n; i++ {
			if r := one(); r != "ok" {
				return r
			}
		}
		h2 := liveHeap()
		d := int64(0)
		if h2 > h1 {
			d = int64(h2-h1) / int64(n)
		}
		if per < 0 || d < per {
			per = d
		}
		h1 = h2
	}
	return fmt.Sprintf("retain perop %d", per)
}

func execCase(st *stack, out *vc.Out, caseStr string) {
	fmt.Fprintln(os.Stderr, "BEGIN", caseStr[:min(len(caseStr), 300)])
	toks := strings.Fields(caseStr)
	if toks[0] == "retain" {
		n, _ := strconv.Atoi(toks[1])
		obs := runRetain(n, toks[2:])
		if obs == "skip" {
			return
		}
		out.Case(caseStr, obs, caseStr[:min(len(caseStr), 120)])
		out.Count("retain")
		return
	}
	if toks[0] == "loop" {
		execLoop(st, out, caseStr)
		return
	}
	ty, _ := strconv.Atoi(toks[1])
	pkt := &packet.TransferPacket{PacketType: packet.Type(ty)}
	key := ""
	isCmd := ty&0x3F == 0x10 || ty&0x3F == 0x11
	switch toks[2] {
	case "p":
		pkt.Payload = vc.UnHex(toks[3])
		key = fmt.Sprintf("%d/p/%s", ty, toks[3][:min(len(toks[3]), 80)])
		if isCmd {
			// build the packet the way ReadPacket does: a command-typed body is JSON-decoded into a
			// CommandPacket; a body that does not decode never reaches the dispatcher
			var cp packet.CommandPacket
			if err := json.Unmarshal(pkt.Payload, &cp); err != nil {
				out.Count("skipped:undecodable-command-body")
				return
			}
			pkt.CommandPacket = &cp
			pkt.Payload = nil
		}
	case "c":
		ct, _ := strconv.Atoi(toks[3])
		pkt.CommandPacket = &packet.CommandPacket{CommandType: packet.CommandType(ct), CommandId: "verif-cmd",
			CommandBody: string(vc.UnHex(toks[4]))}
		key = fmt.Sprintf("%d/c/%d/%s", ty, ct, toks[4][:min(len(toks[4]), 80)])
	case "n": // no body at all (ReadPacket: empty payload; for command types an empty body is not valid JSON)
		key = fmt.Sprintf("%d/n", ty)
		if isCmd {
			out.Count("skipped:undecodable-command-body")
			return
		}
	}
	obs := st.dispatch(pkt)
	out.Case(caseStr, obs, key)
	out.Count("obs:" + strings.Fields(obs)[0] + "_" + func() string {
		f := strings.Fields(obs)
		if len(f) > 1 && f[0] == "res" {
			return f[1]
		}
		return ""
	}())
}

// ---- generators

var handshakeSamples = []string{
	`{"client_id":0,"token":"new-client","version":"3","protocol":"tcp"}`,
	`{"client_id":0,"token":"anonymous:abc","version":"3","protocol":"tcp","connection_type":"control"}`,
	`{"client_id":12345678,"version":"3","protocol":"tcp"}`,
	`{"client_id":12345678,"version":"3","protocol":"websocket","challenge_response":"00ff"}`,
	`{"client_id":12345678,"version":"3","protocol":"quic","connection_type":"tunnel"}`,
}
var tunnelOpenSamples = []string{
	`{"mapping_id":"pm_x","tunnel_id":"tcp-tunnel-1-1","secret_key":"k"}`,
	`{"mapping_id":"","tunnel_id":"t","secret_key":""}`,
	`{"mapping_id":"pm_x","tunnel_id":"t","resume_token":"r"}`,
	`{"tunnel_id":"t"}`,
}
var cmdBodySamples = []string{
	`{}`, ``, `null`, `[]`, `"x"`, `0`, `{"mapping_id":"pm_x"}`, `{"code":"abc-def-ghi"}`, `{"target_client_id":5,"domain":"a.b"}`,
	`{"mapping_id":"pm_x","bytes_sent":1,"bytes_received":2}`, `{"subdomain":"x","base_domain":"tunnox.net","target_host":"h","target_port":80}`,
	`{"client_id":7,"title":"t","message":"m"}`, `{"target_address":"tcp://1.2.3.4:5","description":"d","activation_ttl":60,"mapping_ttl":60}`,
}

func mutateJSON(r *vc.Rand, s string) string {
	vals := []string{`null`, `0`, `-1`, `9223372036854775807`, `1e400`, `"x"`, `""`, `[]`, `{}`, `[[[[[[[[]]]]]]]]`, `true`,
		`"` + strings.Repeat("A", 5000) + `"`, `{"a":{"a":{"a":{"a":{}}}}}`, `"\u0000\ud800"`, `18446744073709551616`}
	switch r.Intn(6) {
	case 0: // replace one value
		var m map[string]json.RawMessage
		if json.Unmarshal([]byte(s), &m) == nil && len(m) > 0 {
			i := r.Intn(len(m))
			for k := range m {
				if i == 0 {
					m[k] = json.RawMessage(vc.Pick(r, vals))
					break
				}
				i--
			}
			b, err := json.Marshal(m)
			if err == nil {
				return string(b)
			}
		}
		return vc.Pick(r, vals)
	case 1:
		return s[:r.Intn(len(s)+1)]
	case 2:
		b := []byte(s)
		if len(b) > 0 {
			b[r.Intn(len(b))] = byte(r.Uint64())
		}
		return string(b)
	case 3:
		return vc.Pick(r, vals)
	case 4:
		return s + s
	}
	return s
}

func gen(st *stack, out *vc.Out, r *vc.Rand, thorough bool) {
	// every type byte x {no body, junk payload, a handshake-shaped and a tunnel-open-shaped payload, a command packet}
	for t := 0; t < 256; t++ {
		execCase(st, out, fmt.Sprintf("disp %d n", t))
		execCase(st, out, fmt.Sprintf("disp %d p %s", t, vc.Hex(r.Bytes(1+r.Intn(20)))))
		execCase(st, out, fmt.Sprintf("disp %d p %s", t, vc.Hex([]byte(handshakeSamples[t%len(handshakeSamples)]))))
		execCase(st, out, fmt.Sprintf("disp %d p %s", t, vc.Hex([]byte(tunnelOpenSamples[t%len(tunnelOpenSamples)]))))
		execCase(st, out, fmt.Sprintf("disp %d c %d %s", t, t, vc.Hex([]byte(`{}`))))
	}
	// every command type x every sample body, under both command packet types
	for ct := 0; ct < 256; ct++ {
		for i, b := range cmdBodySamples {
			ty := 0x10
			if (ct+i)%5 == 0 {
				ty = 0x11
			}
			execCase(st, out, fmt.Sprintf("disp %d c %d %s", ty, ct, vc.Hex([]byte(b))))
		}
	}
	rounds := 1500
	if thorough {
		rounds = 40000
	}
	for i := 0; i < rounds; i++ {
		switch r.Intn(3) {
		case 0:
			execCase(st, out, fmt.Sprintf("disp 1 p %s", vc.Hex([]byte(mutateJSON(r, vc.Pick(r, handshakeSamples))))))
		case 1:
			execCase(st, out, fmt.Sprintf("disp 32 p %s", vc.Hex([]byte(mutateJSON(r, vc.Pick(r, tunnelOpenSamples))))))
		default:
			ct := r.Intn(130)
			execCase(st, out, fmt.Sprintf("disp %d c %d %s", 0x10+r.Intn(2), ct, vc.Hex([]byte(mutateJSON(r, vc.Pick(r, cmdBodySamples))))))
		}
		if i%500 == 499 { // fresh stack now and then: state accumulated by earlier packets must not matter, but keep it bounded
			st.cancel()
			*st = *newStack()
		}
	}
}

func main() {
	tier := flag.String("tier", "quick", "")
	seed := flag.Uint64("seed", 1, "")
	stats := flag.String("stats", "", "")
	noGen := flag.Bool("nogen", false, "")
	flag.Parse()
	out := vc.NewOut()
	st := newStack()
	for _, f := range flag.Args() {
		data, err := os.ReadFile(f)
		if err != nil {
			fmt.Fprintln(os.Stderr, err)
			os.Exit(3)
		}
		for _, line := range strings.Split(string(data), "\n") {
			line = strings.TrimSpace(line)
			if line == "" || strings.HasPrefix(line, "#") {
				continue
			}
			if i := strings.Index(line, " ## "); i >= 0 {
				line = line[:i]
			}
			if strings.HasPrefix(line, "disp ") || strings.HasPrefix(line, "loop ") || strings.HasPrefix(line, "retain ") {
				execCase(st, out, line)
			}
		}
	}
	if !*noGen {
		gen(st, out, vc.NewRand(*seed), *tier == "thorough")
		genRetain(st, out, vc.NewRand(*seed+17), *tier == "thorough")
		genLoop(st, out, vc.NewRand(*seed+31), *tier == "thorough")
	}
	out.Finish(*stats, nil)
}
