//go:build verif

// Harness for the dispatcher half of C05: every decodable packet handed to the real
// SessionManager.HandlePacket on a FRESH (unauthenticated) connection of a complete server stack
// (memory storage, built-in cloud control, real auth / tunnel / command handlers) must return an
// error or a reply — never panic, never hang.
//
//	disp <type byte> p <hex payload>                 payload-carrying packet
//	disp <type byte> c <cmdtype> <hex CommandBody>   command packet
//	## res handled | res unhandled | panic … | timeout
package main

import (
	"context"
	"encoding/json"
	"flag"
	"fmt"
	"io"
	"net"
	"os"
	"strconv"
	"strings"
	"sync"
	"time"

	"tunnox-core/internal/app/server"
	"tunnox-core/internal/cloud/factories"
	"tunnox-core/internal/cloud/managers"
	"tunnox-core/internal/cloud/repos"
	"tunnox-core/internal/cloud/services"
	"tunnox-core/internal/command"
	"tunnox-core/internal/core/idgen"
	"tunnox-core/internal/core/storage"
	"tunnox-core/internal/core/types"
	"tunnox-core/internal/packet"
	"tunnox-core/internal/protocol/session"
	"tunnox-core/internal/security"
	vc "tunnox-core/internal/verifharness/common"
)

type fconn struct {
	mu   sync.Mutex
	n    int
	addr net.Addr
}

func (c *fconn) Read(p []byte) (int, error) { return 0, io.EOF }
func (c *fconn) Write(p []byte) (int, error) {
	c.mu.Lock()
	c.n += len(p)
	c.mu.Unlock()
	return len(p), nil
}
func (c *fconn) Close() error                       { return nil }
func (c *fconn) LocalAddr() net.Addr                { return &net.TCPAddr{IP: net.IPv4(127, 0, 0, 1), Port: 7000} }
func (c *fconn) RemoteAddr() net.Addr               { return c.addr }
func (c *fconn) SetDeadline(t time.Time) error      { return nil }
func (c *fconn) SetReadDeadline(t time.Time) error  { return nil }
func (c *fconn) SetWriteDeadline(t time.Time) error { return nil }

type stack struct {
	cancel context.CancelFunc
	sm     *session.SessionManager
	seq    int
}

func newStack() *stack {
	ctx, cancel := context.WithCancel(context.Background())
	st := &stack{cancel: cancel}
	stor := storage.NewMemoryStorage(ctx)
	repo := repos.NewRepository(stor)
	cc := factories.NewBuiltinCloudControlWithRepo(ctx, managers.DefaultConfig(), stor, repo)
	sm := session.NewSessionManager(idgen.NewIDManager(stor, ctx), ctx)
	st.sm = sm
	sm.SetCloudControl(session.NewCloudControlAdapter(cc))
	sm.SetNodeID("verif-node")
	pmRepo := repos.NewPortMappingRepo(repo)
	ccRepo := repos.NewConnectionCodeRepository(repo)
	domRepo := repos.NewHTTPDomainMappingRepository(repo, []string{"tunnox.net"})
	ccs := services.NewConnectionCodeService(ccRepo, cc.GetPortMappingService(), pmRepo, nil, ctx)
	bfp := security.NewBruteForceProtector(nil, ctx)
	ipm := security.NewIPManager(stor, ctx)
	rl := security.NewRateLimiter(&security.RateLimitConfig{Rate: 1000000, Burst: 1000000, TTL: time.Hour}, nil, ctx)
	auth := server.NewServerAuthHandler(cc, sm, bfp, ipm, rl, nil)
	sm.SetAuthHandler(auth)
	sm.SetTunnelHandler(server.NewServerTunnelHandler(cc, ccs))
	sm.SetTunnelRoutingTable(session.NewTunnelRoutingTable(stor, 30*time.Second))
	registry := command.NewCommandRegistry(ctx)
	command.RegisterDefaultHandlers(registry)
	_ = server.NewConnectionCodeCommandHandlers(ccs, sm).RegisterHandlers(registry)
	_ = server.NewConfigCommandHandlers(auth, sm).RegisterHandlers(registry)
	_ = server.NewMappingCommandHandlers(ccs, sm).RegisterHandlers(registry)
	_ = server.NewHTTPDomainCommandHandlers(sm, domRepo).RegisterHandlers(registry)
	_ = registry.Register(command.NewNotifyClientAckHandler())
	ex := command.NewCommandExecutor(registry, ctx)
	ex.SetSession(sm)
	_ = sm.SetCommandExecutor(ex)
	return st
}

// dispatch hands one packet to HandlePacket on a fresh connection.
func (st *stack) dispatch(pkt *packet.TransferPacket) (obs string) {
	st.seq++
	fc := &fconn{addr: &net.TCPAddr{IP: net.IPv4(10, 9, byte(st.seq>>8), byte(st.seq)), Port: 40000 + st.seq%20000}}
	conn, err := st.sm.CreateConnection(fc, fc)
	if err != nil {
		return "setup-failed " + strings.ReplaceAll(err.Error(), " ", "_")
	}
	done := make(chan string, 1)
	go func() {
		defer func() {
			if r := recover(); r != nil {
				done <- "panic " + strings.ReplaceAll(fmt.Sprint(r), " ", "_")
			}
		}()
		err := st.sm.HandlePacket(&types.StreamPacket{ConnectionID: conn.ID, Packet: pkt})
		if err != nil && strings.Contains(err.Error(), "unhandled packet type") {
			done <- "res unhandled"
			return
		}
		done <- "res handled"
	}()
	select {
	case obs = <-done:
	case <-time.After(10 * time.Second):
		obs = "timeout"
	}
	_ = st.sm.CloseConnection(conn.ID)
	return obs
}

func execCase(st *stack, out *vc.Out, caseStr string) {
	fmt.Fprintln(os.Stderr, "BEGIN", caseStr[:min(len(caseStr), 300)])
	toks := strings.Fields(caseStr)
	ty, _ := strconv.Atoi(toks[1])
	pkt := &packet.TransferPacket{PacketType: packet.Type(ty)}
	key := ""
	isCmd := ty&0x3F == 0x10 || ty&0x3F == 0x11
	switch toks[2] {
	case "p":
		pkt.Payload = vc.UnHex(toks[3])
		key = fmt.Sprintf("%d/p/%s", ty, toks[3][:min(len(toks[3]), 80)])
		if isCmd {
			// build the packet the way ReadPacket does: a command-typed body is JSON-decoded into a
			// CommandPacket; a body that does not decode never reaches the dispatcher
			var cp packet.CommandPacket
			if err := json.Unmarshal(pkt.Payload, &cp); err != nil {
				out.Count("skipped:undecodable-command-body")
				return
			}
			pkt.CommandPacket = &cp
			pkt.Payload = nil
		}
	case "c":
		ct, _ := strconv.Atoi(toks[3])
		pkt.CommandPacket = &packet.CommandPacket{CommandType: packet.CommandType(ct), CommandId: "verif-cmd",
			CommandBody: string(vc.UnHex(toks[4]))}
		key = fmt.Sprintf("%d/c/%d/%s", ty, ct, toks[4][:min(len(toks[4]), 80)])
	case "n": // no body at all (ReadPacket: empty payload; for command types an empty body is not valid JSON)
		key = fmt.Sprintf("%d/n", ty)
		if isCmd {
			out.Count("skipped:undecodable-command-body")
			return
		}
	}
	obs := st.dispatch(pkt)
	out.Case(caseStr, obs, key)
	out.Count("obs:" + strings.Fields(obs)[0] + "_" + func() string {
		f := strings.Fields(obs)
		if len(f) > 1 && f[0] == "res" {
			return f[1]
		}
		return ""
	}())
}

// ---- generators

var handshakeSamples = []string{
	`{"client_id":0,"token":"new-client","version":"3","protocol":"tcp"}`,
	`{"client_id":0,"token":"anonymous:abc","version":"3","protocol":"tcp","connection_type":"control"}`,
	`{"client_id":12345678,"version":"3","protocol":"tcp"}`,
	`{"client_id":12345678,"version":"3","protocol":"websocket","challenge_response":"00ff"}`,
	`{"client_id":12345678,"version":"3","protocol":"quic","connection_type":"tunnel"}`,
}
var tunnelOpenSamples = []string{
	`{"mapping_id":"pm_x","tunnel_id":"tcp-tunnel-1-1","secret_key":"k"}`,
	`{"mapping_id":"","tunnel_id":"t","secret_key":""}`,
	`{"mapping_id":"pm_x","tunnel_id":"t","resume_token":"r"}`,
	`{"tunnel_id":"t"}`,
}
var cmdBodySamples = []string{
	`{}`, ``, `null`, `[]`, `"x"`, `0`, `{"mapping_id":"pm_x"}`, `{"code":"abc-def-ghi"}`, `{"target_client_id":5,"domain":"a.b"}`,
	`{"mapping_id":"pm_x","bytes_sent":1,"bytes_received":2}`, `{"subdomain":"x","base_domain":"tunnox.net","target_host":"h","target_port":80}`,
	`{"client_id":7,"title":"t","message":"m"}`, `{"target_address":"tcp://1.2.3.4:5","description":"d","activation_ttl":60,"mapping_ttl":60}`,
}

func mutateJSON(r *vc.Rand, s string) string {
	vals := []string{`null`, `0`, `-1`, `9223372036854775807`, `1e400`, `"x"`, `""`, `[]`, `{}`, `[[[[[[[[]]]]]]]]`, `true`,
		`"` + strings.Repeat("A", 5000) + `"`, `{"a":{"a":{"a":{"a":{}}}}}`, `"\u0000\ud800"`, `18446744073709551616`}
	switch r.Intn(6) {
	case 0: // replace one value
		var m map[string]json.RawMessage
		if json.Unmarshal([]byte(s), &m) == nil && len(m) > 0 {
			i := r.Intn(len(m))
			for k := range m {
				if i == 0 {
					m[k] = json.RawMessage(vc.Pick(r, vals))
					break
				}
				i--
			}
			b, err := json.Marshal(m)
			if err == nil {
				return string(b)
			}
		}
		return vc.Pick(r, vals)
	case 1:
		return s[:r.Intn(len(s)+1)]
	case 2:
		b := []byte(s)
		if len(b) > 0 {
			b[r.Intn(len(b))] = byte(r.Uint64())
		}
		return string(b)
	case 3:
		return vc.Pick(r, vals)
	case 4:
		return s + s
	}
	return s
}

func gen(st *stack, out *vc.Out, r *vc.Rand, thorough bool) {
	// every type byte x {no body, junk payload, a handshake-shaped and a tunnel-open-shaped payload, a command packet}
	for t := 0; t < 256; t++ {
		execCase(st, out, fmt.Sprintf("disp %d n", t))
		execCase(st, out, fmt.Sprintf("disp %d p %s", t, vc.Hex(r.Bytes(1+r.Intn(20)))))
		execCase(st, out, fmt.Sprintf("disp %d p %s", t, vc.Hex([]byte(handshakeSamples[t%len(handshakeSamples)]))))
		execCase(st, out, fmt.Sprintf("disp %d p %s", t, vc.Hex([]byte(tunnelOpenSamples[t%len(tunnelOpenSamples)]))))
		execCase(st, out, fmt.Sprintf("disp %d c %d %s", t, t, vc.Hex([]byte(`{}`))))
	}
	// every command type x every sample body, under both command packet types
	for ct := 0; ct < 256; ct++ {
		for i, b := range cmdBodySamples {
			ty := 0x10
			if (ct+i)%5 == 0 {
				ty = 0x11
			}
			execCase(st, out, fmt.Sprintf("disp %d c %d %s", ty, ct, vc.Hex([]byte(b))))
		}
	}
	rounds := 1500
	if thorough {
		rounds = 40000
	}
	for i := 0; i < rounds; i++ {
		switch r.Intn(3) {
		case 0:
			execCase(st, out, fmt.Sprintf("disp 1 p %s", vc.Hex([]byte(mutateJSON(r, vc.Pick(r, handshakeSamples))))))
		case 1:
			execCase(st, out, fmt.Sprintf("disp 32 p %s", vc.Hex([]byte(mutateJSON(r, vc.Pick(r, tunnelOpenSamples))))))
		default:
			ct := r.Intn(130)
			execCase(st, out, fmt.Sprintf("disp %d c %d %s", 0x10+r.Intn(2), ct, vc.Hex([]byte(mutateJSON(r, vc.Pick(r, cmdBodySamples))))))
		}
		if i%500 == 499 { // fresh stack now and then: state accumulated by earlier packets must not matter, but keep it bounded
			st.cancel()
			*st = *newStack()
		}
	}
}

func main() {
	tier := flag.String("tier", "quick", "")
	seed := flag.Uint64("seed", 1, "")
	stats := flag.String("stats", "", "")
	noGen := flag.Bool("nogen", false, "")
	flag.Parse()
	out := vc.NewOut()
	st := newStack()
	for _, f := range flag.Args() {
		data, err := os.ReadFile(f)
		if err != nil {
			fmt.Fprintln(os.Stderr, err)
			os.Exit(3)
		}
		for _, line := range strings.Split(string(data), "\n") {
			line = strings.TrimSpace(line)
			if line == "" || strings.HasPrefix(line, "#") {
				continue
			}
			if i := strings.Index(line, " ## "); i >= 0 {
				line = line[:i]
			}
			if strings.HasPrefix(line, "disp ") {
				execCase(st, out, line)
			}
		}
	}
	if !*noGen {
		gen(st, out, vc.NewRand(*seed), *tier == "thorough")
	}
	out.Finish(*stats, nil)
}
