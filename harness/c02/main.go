//go:build verif

// Harness for C02: the real tunnel.Bridge copy loop and the real bridge lifecycle
// (SessionManager.runBridgeLifecycle) between scripted endpoints.
//
// copy   lim <L|-> rd <n> (<hex> <n|t|f> <canc>)* wr <m> (<accept> <err>)*
//
//	## del <hex> total <n> counter <n>
//
// bridge lim <L|-> src <n> (<hex> <n|t|f> <after>)* tgt <n> (…)* sw <m> (<accept> <err>)* tw <m> (…)*
//
//	## tt <hex> ts <hex> s2teof <b> t2seof <b> ret <b> sc <b> tc <b> rem <b> sent <n> recv <n>
package main

import (
	"bytes"
	"context"
	"errors"
	"flag"
	"fmt"
	"io"
	"net"
	"os"
	"strconv"
	"strings"
	"sync"
	"sync/atomic"
	"time"

	"tunnox-core/internal/cloud/models"
	"tunnox-core/internal/cloud/stats"
	"tunnox-core/internal/core/idgen"
	"tunnox-core/internal/core/storage"
	"tunnox-core/internal/packet"
	"tunnox-core/internal/protocol/session"
	"tunnox-core/internal/protocol/session/tunnel"
	"tunnox-core/internal/stream"
	vc "tunnox-core/internal/verifharness/common"
)

type readEv struct {
	data  []byte
	err   string // n | t | f
	canc  bool
	after int
}
type writeEv struct {
	accept int
	err    bool
	block  bool // the peer is not reading: Write blocks until the connection is closed
}

type timeoutErr struct{}

func (timeoutErr) Error() string   { return "i/o timeout (scripted)" }
func (timeoutErr) Timeout() bool   { return true }
func (timeoutErr) Temporary() bool { return true }

var errFatal = errors.New("scripted fatal read error")
var errWrite = errors.New("scripted write error")

// ---- single-direction scripted endpoints

type scriptReader struct {
	evs    []readEv
	i      int
	cancel func()
}

func (r *scriptReader) Read(p []byte) (int, error) {
	if r.i >= len(r.evs) {
		return 0, io.EOF
	}
	ev := r.evs[r.i]
	r.i++
	if ev.canc && r.cancel != nil {
		r.cancel()
	}
	n := copy(p, ev.data)
	switch ev.err {
	case "t":
		return n, timeoutErr{}
	case "f":
		return n, errFatal
	}
	return n, nil
}

type scriptWriter struct {
	evs []writeEv
	i   int
	buf bytes.Buffer
}

func (w *scriptWriter) Write(p []byte) (int, error) {
	ev := writeEv{accept: len(p)}
	if w.i < len(w.evs) {
		ev = w.evs[w.i]
		w.i++
	}
	n := ev.accept
	if n > len(p) {
		n = len(p)
	}
	w.buf.Write(p[:n])
	if ev.err {
		return n, errWrite
	}
	return n, nil
}

func limitOf(s string) int64 {
	if s == "-" {
		return 0
	}
	v, _ := strconv.ParseInt(s, 10, 64)
	return v
}

func runCopy(lim string, rd []readEv, wr []writeEv) string {
	res := make(chan string, 1)
	go func() {
		defer func() {
			if r := recover(); r != nil {
				res <- "panic " + strings.ReplaceAll(fmt.Sprint(r), " ", "_")
			}
		}()
		ctx, cancel := context.WithCancel(context.Background())
		defer cancel()
		b := tunnel.NewBridge(ctx, &tunnel.BridgeConfig{TunnelID: "verif-copy", BandwidthLimit: limitOf(lim)})
		defer b.Close()
		src := &scriptReader{evs: rd, cancel: cancel}
		dst := &scriptWriter{evs: wr}
		var counter atomic.Int64
		total := b.CopyWithControl(dst, src, "source->target", &counter)
		res <- fmt.Sprintf("del %s total %d counter %d", vc.Hex(dst.buf.Bytes()), total, counter.Load())
	}()
	select {
	case s := <-res:
		return s
	case <-time.After(30 * time.Second):
		return "timeout"
	}
}

// ---- two-direction scripted connection (net.Conn)

type scriptConn struct {
	mu          sync.Mutex
	cond        *sync.Cond
	reads       []readEv
	ri          int
	writes      []writeEv
	wi          int
	recv        bytes.Buffer
	closed      bool
	eofReturned bool
	name        string
	// re-attachment runs: the Read that would serve event `pauseAt` (or the end of the script)
	// waits until the harness releases it; `holdAtEnd`: the end of the script never arrives
	pauseAt   int
	atPause   bool
	released  bool
	holdAtEnd bool
}

func newScriptConn(name string, reads []readEv, writes []writeEv) *scriptConn {
	c := &scriptConn{reads: reads, writes: writes, name: name, pauseAt: -1}
	c.cond = sync.NewCond(&c.mu)
	return c
}

func (c *scriptConn) Read(p []byte) (int, error) {
	c.mu.Lock()
	defer c.mu.Unlock()
	for {
		if c.closed {
			return 0, net.ErrClosed
		}
		if c.ri == c.pauseAt && !c.released {
			c.atPause = true
			c.cond.Broadcast()
			c.cond.Wait()
			continue
		}
		if c.ri >= len(c.reads) {
			if c.holdAtEnd {
				c.cond.Wait()
				continue
			}
			c.eofReturned = true
			return 0, io.EOF
		}
		ev := c.reads[c.ri]
		if ev.after > c.recv.Len() {
			c.cond.Wait()
			continue
		}
		c.ri++
		n := copy(p, ev.data)
		switch ev.err {
		case "t":
			return n, timeoutErr{}
		case "f":
			return n, errFatal
		}
		return n, nil
	}
}

// ready: a Read would return at once (used by the polling stream double: ReadAvailable must never block
// for long — the real long-polling / WebSocket server streams return "nothing yet" after their poll period).
func (c *scriptConn) ready() bool {
	c.mu.Lock()
	defer c.mu.Unlock()
	if c.closed {
		return true
	}
	if c.ri == c.pauseAt && !c.released {
		return false
	}
	if c.ri >= len(c.reads) {
		return !c.holdAtEnd
	}
	return c.reads[c.ri].after <= c.recv.Len()
}

func (c *scriptConn) Write(p []byte) (int, error) {
	c.mu.Lock()
	defer c.mu.Unlock()
	if c.closed {
		return 0, net.ErrClosed
	}
	ev := writeEv{accept: len(p)}
	if c.wi < len(c.writes) {
		ev = c.writes[c.wi]
		c.wi++
	}
	if ev.block {
		for !c.closed {
			c.cond.Wait()
		}
		return 0, net.ErrClosed
	}
	n := ev.accept
	if n > len(p) {
		n = len(p)
	}
	c.recv.Write(p[:n])
	c.cond.Broadcast()
	if ev.err {
		return n, errWrite
	}
	return n, nil
}

func (c *scriptConn) Close() error {
	c.mu.Lock()
	c.closed = true
	c.cond.Broadcast()
	c.mu.Unlock()
	return nil
}

type addr string

func (a addr) Network() string { return "verif" }
func (a addr) String() string  { return string(a) }

func (c *scriptConn) LocalAddr() net.Addr                { return addr("local-" + c.name) }
func (c *scriptConn) RemoteAddr() net.Addr               { return addr("remote-" + c.name) }
func (c *scriptConn) SetDeadline(t time.Time) error      { return nil }
func (c *scriptConn) SetReadDeadline(t time.Time) error  { return nil }
func (c *scriptConn) SetWriteDeadline(t time.Time) error { return nil }

type tconn struct {
	c      *scriptConn
	closed atomic.Bool
	sp     stream.PackageStreamer // set in the `bridgereal` cases: the forwarder is built from the stream's reader/writer
}

// realCC is the cloud control of the `bridgereal` cases: one mapping with the case's bandwidth limit.
type realCC struct{ limit int64 }

func (c *realCC) GetPortMapping(id string) (*models.PortMapping, error) {
	m := &models.PortMapping{ID: id, ListenClientID: 1, TargetClientID: 2}
	m.Config.BandwidthLimit = c.limit
	return m, nil
}
func (c *realCC) UpdatePortMappingStats(string, *stats.TrafficStats) error { return nil }
func (c *realCC) GetClientPortMappings(int64) ([]*models.PortMapping, error) {
	return nil, nil
}
func (c *realCC) TouchClient(int64)            {}
func (c *realCC) DisconnectClient(int64) error { return nil }
func (c *realCC) DisconnectClientIfMatch(int64, string, string) (bool, error) {
	return false, nil
}
func (c *realCC) EnsureClientOnline(int64, string, string, string, string, string) error {
	return nil
}

func (t *tconn) GetConnectionID() string { return "verif-target" }
func (t *tconn) GetClientID() int64      { return 2 }
func (t *tconn) GetMappingID() string    { return "m" }
func (t *tconn) GetTunnelID() string     { return "t" }
func (t *tconn) GetStream() stream.PackageStreamer {
	if t.sp != nil {
		return t.sp
	}
	return nil
}
func (t *tconn) GetNetConn() net.Conn { return t.c }
func (t *tconn) Close() error         { t.closed.Store(true); return t.c.Close() }
func (t *tconn) IsClosed() bool       { return t.closed.Load() }

var bridgeSeq atomic.Int64

func b2s(b bool) string {
	if b {
		return "1"
	}
	return "0"
}

// adpMode: the current case is a `bridgeadp` case (set by execCase; cases run one at a time)
var adpMode bool

// adpStream is a PackageStreamer without raw reader/writer that implements tunnel.StreamDataForwarder over a
// scripted connection; every second ReadAvailable is an idle poll that returns no data and no error.
type adpStream struct {
	c    *scriptConn
	tick int
}

func (a *adpStream) GetReader() io.Reader { return nil }
func (a *adpStream) GetWriter() io.Writer { return nil }
func (a *adpStream) ReadPacket() (*packet.TransferPacket, int, error) {
	return nil, 0, fmt.Errorf("adpStream: no packets")
}
func (a *adpStream) WritePacket(*packet.TransferPacket, bool, int64) (int, error) {
	return 0, fmt.Errorf("adpStream: no packets")
}
func (a *adpStream) ReadExact(n int) ([]byte, error) {
	b := make([]byte, n)
	_, err := io.ReadFull(a.c, b)
	return b, err
}
func (a *adpStream) ReadAvailable(max int) ([]byte, error) {
	a.tick++
	if a.tick%2 == 1 {
		return nil, nil // idle poll
	}
	if !a.c.ready() {
		// nothing to deliver yet: the poll period passes and the stream reports "no data" (it must not block:
		// the adapter holds its buffer lock across this call, and Close needs that lock)
		time.Sleep(time.Millisecond)
		return nil, nil
	}
	b := make([]byte, max)
	n, err := a.c.Read(b)
	return b[:n], err
}
func (a *adpStream) WriteExact(d []byte) error {
	for len(d) > 0 {
		n, err := a.c.Write(d)
		if err != nil {
			return err
		}
		d = d[n:]
	}
	return nil
}
func (a *adpStream) Close()                  { a.c.Close() }
func (a *adpStream) GetConnectionID() string { return "adp" }

func runBridge(lim string, src, tgt []readEv, sw, tw []writeEv, stall, realPath, dup bool) string {
	res := make(chan string, 1)
	go func() {
		defer func() {
			if r := recover(); r != nil {
				res <- "panic " + strings.ReplaceAll(fmt.Sprint(r), " ", "_")
			}
		}()
		ctx, cancel := context.WithCancel(context.Background())
		defer cancel()
		st := storage.NewMemoryStorage(ctx)
		idm := idgen.NewIDManager(st, ctx)
		sm := session.NewSessionManager(idm, ctx)
		defer sm.Close()
		// source end receives what the target sends: its write script is sw
		sc := newScriptConn("src", src, sw)
		tc := newScriptConn("tgt", tgt, tw)
		id := fmt.Sprintf("verif-tunnel-%d", bridgeSeq.Add(1))
		var br *session.TunnelBridge
		var cc *stallCC
		var tsp stream.PackageStreamer
		if realPath {
			// the production path: SessionManager.startSourceBridge with a cloud control, both ends attached
			// through real StreamProcessors (forwarders built from the streams' reader/writer)
			sm.SetCloudControl(&realCC{limit: limitOf(lim)})
			var ssp stream.PackageStreamer = stream.NewStreamProcessor(sc, sc, ctx)
			if adpMode {
				// the source end is a stream WITHOUT a raw reader/writer (HTTP long polling, WebSocket server
				// connection): the bridge serves it through streamDataForwarderAdapter, whose ReadAvailable polls
				// come back empty while the end is idle
				ssp = &adpStream{c: sc}
			}
			tsp = stream.NewStreamProcessor(tc, tc, ctx)
			if err := sm.VerifStartSourceBridgeStream(id, "verif-mapping", sc, ssp); err != nil {
				res <- "start-failed " + strings.ReplaceAll(err.Error(), " ", "_")
				return
			}
			br = sm.VerifGetBridge(id)
		} else if stall {
			cc = &stallCC{release: make(chan struct{})}
			br = sm.VerifStartBridgeCC(id, "verif-mapping", sc, limitOf(lim), cc)
		} else {
			br = sm.VerifStartBridge(id, "", sc, limitOf(lim))
		}
		if dup {
			sc.holdAtEnd, tc.holdAtEnd = true, true
		}
		br.SetTargetConnection(&tconn{c: tc, sp: tsp})
		var tc2 *scriptConn
		if dup {
			// a duplicate / retried TunnelOpen of the target end attaches a second connection to the live
			// bridge: both ends' scripts are held at their end until everything scripted has been exchanged,
			// then the second connection is attached and the source's end-of-stream is released
			for d := time.Now().Add(10 * time.Second); time.Now().Before(d); time.Sleep(100 * time.Microsecond) {
				sc.mu.Lock()
				a := sc.ri >= len(sc.reads) || sc.reads[sc.ri].after > sc.recv.Len()
				sc.mu.Unlock()
				tc.mu.Lock()
				b := tc.ri >= len(tc.reads) || tc.reads[tc.ri].after > tc.recv.Len()
				tc.mu.Unlock()
				if (a && b) || !sm.VerifHasBridge(id) {
					break
				}
			}
			tc2 = newScriptConn("tgt2", nil, nil)
			tc2.holdAtEnd = true
			br.SetTargetConnection(&tconn{c: tc2})
			// the source end now reaches its end-of-stream (events still gated never happen)
			sc.mu.Lock()
			sc.holdAtEnd = false
			sc.cond.Broadcast()
			sc.mu.Unlock()
		}
		cds, stalled := "1", "0"
		if stall {
			// wait until the final traffic report is inside the (stalled) backend, or the bridge is gone
			// without a report (no bytes moved)
			for d := time.Now().Add(20 * time.Second); time.Now().Before(d) && cc.entered.Load() == 0 && sm.VerifHasBridge(id); {
				time.Sleep(200 * time.Microsecond)
			}
			if cc.entered.Load() > 0 {
				stalled = "1"
				cds = "0"
				for d := time.Now().Add(3 * time.Second); time.Now().Before(d); time.Sleep(200 * time.Microsecond) {
					sc.mu.Lock()
					a := sc.closed
					sc.mu.Unlock()
					tc.mu.Lock()
					b := tc.closed
					tc.mu.Unlock()
					if a && b {
						cds = "1"
						break
					}
				}
			}
			close(cc.release)
		}
		deadline := time.Now().Add(20 * time.Second)
		returned := false
		for time.Now().Before(deadline) {
			if !sm.VerifHasBridge(id) {
				returned = true
				break
			}
			time.Sleep(200 * time.Microsecond)
		}
		sc.mu.Lock()
		tc.mu.Lock()
		o := fmt.Sprintf("tt %s ts %s s2teof %s t2seof %s ret %s sc %s tc %s rem %s sent %d recv %d",
			vc.Hex(tc.recv.Bytes()), vc.Hex(sc.recv.Bytes()), b2s(sc.eofReturned), b2s(tc.eofReturned),
			b2s(returned), b2s(sc.closed), b2s(tc.closed), b2s(!sm.VerifHasBridge(id)),
			br.GetBytesSent(), br.GetBytesReceived())
		tc.mu.Unlock()
		sc.mu.Unlock()
		if stall {
			o += " cds " + cds + " stalled " + stalled
		}
		if dup {
			tc2.mu.Lock()
			o += " t2c " + b2s(tc2.closed) + " t2n " + strconv.Itoa(tc2.recv.Len())
			tc2.mu.Unlock()
		}
		res <- o
	}()
	select {
	case s := <-res:
		return s
	case <-time.After(40 * time.Second):
		return "timeout"
	}
}

// stallCC is a statistics backend that does not answer until released.
type stallCC struct {
	entered atomic.Int64
	release chan struct{}
}

func (c *stallCC) GetPortMapping(string) (*models.PortMapping, error) {
	c.entered.Add(1)
	<-c.release
	return &models.PortMapping{}, nil
}
func (c *stallCC) UpdatePortMappingStats(string, *stats.TrafficStats) error { return nil }
func (c *stallCC) GetClientPortMappings(int64) ([]*models.PortMapping, error) {
	return nil, nil
}

// ---- case strings

func fmtReads(tag string, evs []readEv, bridge bool) string {
	var sb strings.Builder
	fmt.Fprintf(&sb, "%s %d", tag, len(evs))
	for _, e := range evs {
		third := "0"
		if bridge {
			third = strconv.Itoa(e.after)
		} else if e.canc {
			third = "1"
		}
		fmt.Fprintf(&sb, " %s %s %s", vc.Hex(e.data), e.err, third)
	}
	return sb.String()
}

func fmtWrites(tag string, evs []writeEv) string {
	var sb strings.Builder
	fmt.Fprintf(&sb, "%s %d", tag, len(evs))
	for _, e := range evs {
		if e.block {
			sb.WriteString(" b 0")
			continue
		}
		fmt.Fprintf(&sb, " %d %s", e.accept, b2s(e.err))
	}
	return sb.String()
}

func parseReads(toks []string, i int, bridge bool) ([]readEv, int) {
	n, _ := strconv.Atoi(toks[i+1])
	i += 2
	var evs []readEv
	for j := 0; j < n; j++ {
		e := readEv{data: vc.UnHex(toks[i]), err: toks[i+1]}
		if bridge {
			e.after, _ = strconv.Atoi(toks[i+2])
		} else {
			e.canc = toks[i+2] == "1"
		}
		evs = append(evs, e)
		i += 3
	}
	return evs, i
}

func parseWrites(toks []string, i int) ([]writeEv, int) {
	n, _ := strconv.Atoi(toks[i+1])
	i += 2
	var evs []writeEv
	for j := 0; j < n; j++ {
		if toks[i] == "b" {
			evs = append(evs, writeEv{block: true})
		} else {
			a, _ := strconv.Atoi(toks[i])
			evs = append(evs, writeEv{accept: a, err: toks[i+1] == "1"})
		}
		i += 2
	}
	return evs, i
}

func execCase(out *vc.Out, caseStr string) {
	toks := strings.Fields(caseStr)
	switch toks[0] {
	case "copy":
		rd, i := parseReads(toks, 3, false)
		wr, _ := parseWrites(toks, i)
		obs := runCopy(toks[2], rd, wr)
		key := ""
		if len(rd) > 1 {
			key = caseStr
			if len(key) > 200 {
				key = key[:200] + strconv.Itoa(len(caseStr))
			}
		}
		out.Case(caseStr, obs, key)
	case "closerace":
		k, _ := strconv.Atoi(toks[1])
		out.Case(caseStr, runCloseRace(k), caseStr)
	case "reattach", "reattachfree":
		execReattach(out, caseStr, toks)
	case "xnode":
		execXnode(out, caseStr, toks)
	case "bridge", "bridgestall", "bridgereal", "bridgedup", "bridgeadp":
		src, i := parseReads(toks, 3, true)
		tgt, i := parseReads(toks, i, true)
		sw, i := parseWrites(toks, i)
		tw, _ := parseWrites(toks, i)
		adpMode = toks[0] == "bridgeadp"
		obs := runBridge(toks[2], src, tgt, sw, tw, toks[0] == "bridgestall", toks[0] == "bridgereal" || toks[0] == "bridgeadp", toks[0] == "bridgedup")
		key := caseStr
		if len(key) > 200 {
			key = key[:200] + strconv.Itoa(len(caseStr))
		}
		out.Case(caseStr, obs, key)
	}
}

// ---- generators

func genData(r *vc.Rand, n int) []byte {
	b := make([]byte, n)
	x := byte(r.Intn(256))
	for i := range b {
		b[i] = x + byte(i)
	}
	return b
}

func genReads(r *vc.Rand, out *vc.Out, n int, sizes []int, faults bool) []readEv {
	var evs []readEv
	for i := 0; i < n; i++ {
		e := readEv{data: genData(r, vc.Pick(r, sizes)), err: "n"}
		if faults {
			switch r.Intn(12) {
			case 0:
				e.err = "t"
				out.Count("read:timeout")
			case 1:
				e.err = "f"
				out.Count("read:fatal")
			case 2:
				e.data = nil
				e.err = "t"
				out.Count("read:empty-timeout")
			case 3:
				e.data = nil
				out.Count("read:empty")
			}
		}
		evs = append(evs, e)
	}
	return evs
}

func genWrites(r *vc.Rand, out *vc.Out, n int, faults bool) []writeEv {
	var evs []writeEv
	if !faults {
		return evs
	}
	for i := 0; i < n; i++ {
		e := writeEv{accept: 1 << 20}
		switch r.Intn(14) {
		case 0:
			e.accept = r.Intn(40)
			out.Count("write:short")
		case 1:
			e.err = true
			e.accept = r.Intn(3) * 1000
			out.Count("write:err")
		}
		evs = append(evs, e)
	}
	return evs
}

func gen(out *vc.Out, r *vc.Rand, thorough bool) {
	small := []int{1, 2, 3, 10, 100, 1000}
	edge := []int{32767, 32768, 1, 4096, 32768, 32768}
	// --- copy: clean scripts around the buffer size and the batch threshold (1 MiB = 32 full reads)
	for _, n := range []int{1, 2, 31, 32, 33, 65} {
		rd := genReads(r, out, n, []int{32768}, false)
		execCase(out, "copy lim - "+fmtReads("rd", rd, false)+" "+fmtWrites("wr", nil))
		out.Count("copy:clean-full-buffers")
	}
	rounds := 400
	if thorough {
		rounds = 6000
	}
	for i := 0; i < rounds; i++ {
		n := 1 + r.Intn(12)
		sizes := small
		if r.Intn(6) == 0 {
			sizes = edge
		}
		faults := r.Intn(3) != 0
		rd := genReads(r, out, n, sizes, faults)
		wr := genWrites(r, out, n, faults && r.Bool())
		execCase(out, "copy lim - "+fmtReads("rd", rd, false)+" "+fmtWrites("wr", wr))
		out.Count("copy:random")
	}
	// --- copy with a bandwidth limit: reads larger than the burst must still be delivered
	for _, lim := range []int{16000, 9000, 1 << 20, 40000} {
		rd := []readEv{{data: genData(r, 32768), err: "n"}, {data: genData(r, 100), err: "n"}}
		execCase(out, fmt.Sprintf("copy lim %d ", lim)+fmtReads("rd", rd, false)+" "+fmtWrites("wr", nil))
		out.Count("copy:limited")
	}
	// cancellation while waiting for the limiter
	{
		rd := []readEv{{data: genData(r, 10), err: "n"}, {data: genData(r, 10), err: "n", canc: true}, {data: genData(r, 5), err: "n"}}
		execCase(out, "copy lim 100000 "+fmtReads("rd", rd, false)+" "+fmtWrites("wr", nil))
		execCase(out, "copy lim - "+fmtReads("rd", rd, false)+" "+fmtWrites("wr", nil))
		out.Count("copy:cancel")
	}
	// the periodic context check (every ContextCheckInterval = 10000 iterations): the context is cancelled while
	// data still flows and nothing closes the endpoints; the loop must leave through the check, counting once
	for _, spec := range [][2]int{{10005, 5000}, {10005, 0}, {10002, 9998}, {20010, 15000}, {9999, 10}} {
		n, at := spec[0], spec[1]
		rd := make([]readEv, n)
		for i := range rd {
			rd[i] = readEv{data: genData(r, 1+i%3), err: "n", canc: i == at}
		}
		execCase(out, "copy lim - "+fmtReads("rd", rd, false)+" "+fmtWrites("wr", nil))
		out.Count("copy:ctx-check")
	}
	// --- bridge under back-pressure: one end is alive but not reading (its Write blocks) while the other direction
	// fails or finishes; closing the bridge must still go through, Start must return, the tunnel must be forgotten
	for i := 0; i < 6; i++ {
		d1, d2, d3 := genData(r, 10+i), genData(r, 20), genData(r, 30)
		blk := []writeEv{{block: true}}
		hold := readEv{data: nil, err: "n", after: 1 << 40}
		switch i % 3 {
		case 0: // target->source blocked on the source; the target then refuses a write of the source->target direction
			execCase(out, "bridge lim - "+fmtReads("src", []readEv{{data: d1, err: "n"}, {data: d2, err: "n", after: 0}, hold}, true)+" "+
				fmtReads("tgt", []readEv{{data: d3, err: "n"}, hold}, true)+" "+fmtWrites("sw", blk)+" "+fmtWrites("tw", []writeEv{{accept: 1 << 20}, {accept: 0, err: true}}))
		case 1: // source->target blocked on the target; the source then ends
			execCase(out, "bridge lim - "+fmtReads("src", []readEv{{data: d1, err: "n"}, hold}, true)+" "+
				fmtReads("tgt", []readEv{{data: d3, err: "f"}}, true)+" "+fmtWrites("sw", nil)+" "+fmtWrites("tw", blk))
		default: // both directions blocked on write... nothing can close the bridge: only the prefix property is asked; skipped
			execCase(out, "bridge lim - "+fmtReads("src", []readEv{{data: d1, err: "n"}, {data: d2, err: "f"}}, true)+" "+
				fmtReads("tgt", []readEv{{data: d3, err: "n"}, hold}, true)+" "+fmtWrites("sw", blk)+" "+fmtWrites("tw", nil))
		}
		out.Count("bridge:back-pressure")
	}
	// --- bridge with a LOW bandwidth limit and traffic in both directions at once: the two copy goroutines share
	// one limiter, so a slice of one direction queues behind the other direction's reservation (several seconds of
	// real waiting); nothing may be dropped and nobody may be closed because of the limit
	{
		big := func() []byte { return genData(r, 32768) }
		src := []readEv{{data: big(), err: "n"}, {data: big(), err: "n"}, {data: nil, err: "n", after: 65536}}
		tgt := []readEv{{data: big(), err: "n"}, {data: big(), err: "n"}, {data: nil, err: "n", after: 1 << 40}}
		execCase(out, "bridge lim 16000 "+fmtReads("src", src, true)+" "+fmtReads("tgt", tgt, true)+" "+fmtWrites("sw", nil)+" "+fmtWrites("tw", nil))
		out.Count("bridge:low-limit-both-directions")
	}
	// --- bridge: both directions concurrently, real lifecycle
	brounds := 60
	if thorough {
		brounds = 1200
	}
	for i := 0; i < brounds; i++ {
		ns, nt := 1+r.Intn(6), 1+r.Intn(6)
		faults := r.Intn(3) == 0
		src := genReads(r, out, ns, small, faults)
		tgt := genReads(r, out, nt, small, faults)
		switch r.Intn(4) {
		case 0: // ping-pong: the source ends only after it received everything the target sends; the target then stays open
			total := 0
			clean := true
			for _, e := range tgt {
				total += len(e.data)
				if e.err == "f" {
					clean = false
				}
			}
			if clean {
				src = append(src, readEv{data: nil, err: "n", after: total})
				tgt = append(tgt, readEv{data: nil, err: "n", after: 1 << 40})
				out.Count("bridge:pingpong")
				break
			}
			fallthrough
		case 1: // the target stays open until the bridge closes it
			tgt = append(tgt, readEv{data: nil, err: "n", after: 1 << 40})
			out.Count("bridge:source-ends")
		case 2: // the target ends first; the source stays open until the bridge closes it
			src = append(src, readEv{data: nil, err: "n", after: 1 << 40})
			out.Count("bridge:target-ends")
		default: // both ends race to EOF
			out.Count("bridge:race")
		}
		lim := "-"
		if r.Intn(8) == 0 {
			lim = "1000000"
		}
		var sw, tw []writeEv
		if faults {
			sw = genWrites(r, out, nt, true)
			tw = genWrites(r, out, ns, true)
		}
		kind := "bridge"
		switch r.Intn(6) {
		case 0: // the statistics backend stalls during the final traffic report
			kind = "bridgestall"
			out.Count("bridge:stats-backend-stalled")
		case 1, 2: // the production path: real startSourceBridge, stream-backed forwarders
			kind = "bridgereal"
			out.Count("bridge:real-start-path")
		case 3: // the same with a source end served through streamDataForwarderAdapter (idle polls in between)
			if !faults {
				kind = "bridgeadp"
				out.Count("bridge:adapter-served-source")
			}
		}
		execCase(out, kind+" lim "+lim+" "+fmtReads("src", src, true)+" "+fmtReads("tgt", tgt, true)+" "+fmtWrites("sw", sw)+" "+fmtWrites("tw", tw))
	}
	// a second target connection is attached to the live bridge (duplicate / retried TunnelOpen): both
	// directions free-running, ends held until everything scripted has been exchanged
	ndup := 8
	if thorough {
		ndup = 120
	}
	for i := 0; i < ndup; i++ {
		src := genReads(r, out, 1+r.Intn(4), small, false)
		tgt := genReads(r, out, r.Intn(4), small, false)
		out.Count("bridge:duplicate-target-attach")
		execCase(out, "bridgedup lim - "+fmtReads("src", src, true)+" "+fmtReads("tgt", tgt, true)+" "+fmtWrites("sw", nil)+" "+fmtWrites("tw", nil))
	}
}

func main() {
	tier := flag.String("tier", "quick", "")
	seed := flag.Uint64("seed", 1, "")
	stats := flag.String("stats", "", "")
	noGen := flag.Bool("nogen", false, "")
	only := flag.String("only", "", "reattach: generate re-attachment runs only")
	flag.Parse()
	out := vc.NewOut()
	for _, f := range flag.Args() {
		data, err := os.ReadFile(f)
		if err != nil {
			fmt.Fprintln(os.Stderr, err)
			os.Exit(3)
		}
		for _, line := range strings.Split(string(data), "\n") {
			line = strings.TrimSpace(line)
			if line == "" || strings.HasPrefix(line, "#") {
				continue
			}
			if i := strings.Index(line, " ## "); i >= 0 {
				line = line[:i]
			}
			execCase(out, line)
			out.Count("corpus")
		}
	}
	if !*noGen {
		if *only == "" {
			gen(out, vc.NewRand(*seed), *tier == "thorough")
			genXnode(out, vc.NewRand(*seed+99), *tier == "thorough")
		}
		genReattach(out, vc.NewRand(*seed+77), *tier == "thorough")
	}
	out.Finish(*stats, nil)
}
