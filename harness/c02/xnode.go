//go:build verif

package main

// xnode: a tunnel whose target end is attached on ANOTHER node.  Both hops are the repository's code:
//
//	source app <-> [source node: Bridge + CrossNodeListener.handleConnection/runBridgeForward]
//	           <-> loopback TCP (the dedicated cross-node connection)
//	           <-> [target node: forwardToSourceNode + runCrossNodeDataForwardDedicated] <-> target app
//
// The attach context of forwardToSourceNode has deadline `dl` ms; both ends keep writing at `gap` ms
// intervals well beyond it and neither closes before it has written everything ("for any write sizes and
// timing … all of it if neither end closed early").
//
//	xnode dl <ms> via <m|p|M|P> gap <ms> down <k> <hex>*k up <l> <hex>*l
//	  down = writes of the source end (delivered to the target end), up = writes of the target end
//	obs: tt <hex> ts <hex> teof <b> seof <b>
//	  tt/ts = bytes the target/source end received, teof/seof = it then saw a clean end of stream

import (
	"context"
	"fmt"
	"io"
	"net"
	"strconv"
	"strings"
	"sync"
	"time"

	"tunnox-core/internal/core/storage"
	"tunnox-core/internal/core/types"
	"tunnox-core/internal/protocol/session"
	vc "tunnox-core/internal/verifharness/common"
)

type xnodeCase struct {
	dl, gap  int
	via      string
	down, up [][]byte
}

func parseXnode(toks []string) (c xnodeCase, ok bool) {
	if len(toks) < 9 || toks[1] != "dl" || toks[3] != "via" || toks[5] != "gap" || toks[7] != "down" {
		return c, false
	}
	c.dl, _ = strconv.Atoi(toks[2])
	c.via = toks[4]
	c.gap, _ = strconv.Atoi(toks[6])
	k, _ := strconv.Atoi(toks[8])
	i := 9
	for j := 0; j < k && i < len(toks); j, i = j+1, i+1 {
		c.down = append(c.down, vc.UnHex(toks[i]))
	}
	if i+1 >= len(toks) || toks[i] != "up" {
		return c, false
	}
	l, _ := strconv.Atoi(toks[i+1])
	i += 2
	for j := 0; j < l && i < len(toks); j, i = j+1, i+1 {
		c.up = append(c.up, vc.UnHex(toks[i]))
	}
	return c, true
}

func fmtXnode(c xnodeCase) string {
	var sb strings.Builder
	fmt.Fprintf(&sb, "xnode dl %d via %s gap %d down %d", c.dl, c.via, c.gap, len(c.down))
	for _, d := range c.down {
		sb.WriteString(" " + vc.Hex(d))
	}
	fmt.Fprintf(&sb, " up %d", len(c.up))
	for _, d := range c.up {
		sb.WriteString(" " + vc.Hex(d))
	}
	return sb.String()
}

func xTCPPair() (*net.TCPConn, *net.TCPConn) {
	ln, err := net.ListenTCP("tcp4", &net.TCPAddr{IP: net.IPv4(127, 0, 0, 1)})
	if err != nil {
		panic(err)
	}
	defer ln.Close()
	ch := make(chan *net.TCPConn, 1)
	go func() {
		c, err := ln.AcceptTCP()
		if err != nil {
			ch <- nil
			return
		}
		ch <- c
	}()
	a, err := net.DialTCP("tcp4", nil, ln.Addr().(*net.TCPAddr))
	if err != nil {
		panic(err)
	}
	b := <-ch
	if b == nil {
		panic("xnode: accept failed")
	}
	return a, b
}

// runXnode repeats a run whose attach did not complete inside its deadline (void, see runXnodeOnce).
func runXnode(c xnodeCase) string {
	for i := 0; i < 4; i++ {
		if o := runXnodeOnce(c); o != "attach-void" {
			return o
		}
		time.Sleep(50 * time.Millisecond)
	}
	return "attach-failed-4-times"
}

func runXnodeOnce(c xnodeCase) (obs string) {
	defer func() {
		if r := recover(); r != nil {
			obs = "panic " + strings.ReplaceAll(fmt.Sprint(r), " ", "_")
		}
	}()
	root, cancel := context.WithCancel(context.Background())
	defer cancel()
	const tunnelID = "tcp-tunnel-1759012345678901234-8080"
	// ---- source node
	srcApp, srcConn := xTCPPair()
	defer srcApp.Close()
	defer srcConn.Close()
	// via M / P: the source end is a transport WITHOUT half-close (WebSocket, KCP, QUIC wrappers): the bridge
	// sees a plain net.Conn; when the target's direction ends first the rest of the source's data must still
	// be delivered
	var srcEnd net.Conn = srcConn
	if c.via == "M" || c.via == "P" {
		srcEnd = struct{ net.Conn }{srcConn}
	}
	var rig *session.VerifListenerRig
	if c.via == "M" || c.via == "P" {
		rig = session.VerifNewListenerRigStream(root, tunnelID, srcEnd) // production shape: forwarder over the StreamProcessor
	} else {
		rig = session.VerifNewListenerRig(root, tunnelID, srcEnd)
	}
	ln, err := net.ListenTCP("tcp4", &net.TCPAddr{IP: net.IPv4(127, 0, 0, 1)})
	if err != nil {
		panic(err)
	}
	defer ln.Close()
	go func() {
		for {
			x, err := ln.AcceptTCP()
			if err != nil {
				return
			}
			go func() {
				defer func() { recover() }()
				rig.HandleConnection(root, x)
			}()
		}
	}()
	// ---- target node
	var tgtNode *session.SessionManager
	if c.via == "m" || c.via == "M" {
		mgr := session.NewTunnelConnectionManager(func(string) (string, error) { return ln.Addr().String(), nil },
			session.DefaultTunnelConnectionManagerConfig())
		defer mgr.Close()
		tgtNode = session.VerifNewXnodeTarget("node-T", mgr, nil)
	} else {
		stor := storage.NewMemoryStorage(root)
		if err := stor.Set("tunnox:node:node-S:addr", ln.Addr().String(), time.Hour); err != nil {
			panic(err)
		}
		pool := session.NewCrossNodePool(root, stor, "node-T", session.DefaultCrossNodePoolConfig())
		defer pool.Close()
		tgtNode = session.VerifNewXnodeTarget("node-T", nil, pool)
	}
	tgtApp, tgtConn := xTCPPair()
	defer tgtApp.Close()
	defer tgtConn.Close()
	actx, acancel := context.WithTimeout(root, time.Duration(c.dl)*time.Millisecond)
	defer acancel()
	// success is reported by the mode-switch sentinel error.  The attach itself may legitimately fail when its
	// (short) deadline passes before the dial and the ready frame are through — on a loaded machine that is no
	// statement about the pipe, so such a run is void and the caller repeats it
	aerr := tgtNode.VerifForwardToSourceNode(actx, tunnelID, "node-S", &types.Connection{ID: "conn-xnode"}, tgtConn)
	if aerr == nil || !strings.Contains(aerr.Error(), "stream mode") {
		return "attach-void"
	}

	write := func(w *net.TCPConn, chunks [][]byte) {
		for i, d := range chunks {
			if i > 0 {
				time.Sleep(time.Duration(c.gap) * time.Millisecond)
			}
			if _, err := w.Write(d); err != nil {
				return
			}
		}
		w.CloseWrite()
	}
	type rd struct {
		b   []byte
		eof bool
	}
	read := func(r *net.TCPConn, ch chan rd) {
		r.SetReadDeadline(time.Now().Add(20 * time.Second))
		b, err := io.ReadAll(r)
		ch <- rd{b, err == nil}
	}
	tch, sch := make(chan rd, 1), make(chan rd, 1)
	go read(tgtApp, tch)
	go read(srcApp, sch)
	var wg sync.WaitGroup
	wg.Add(2)
	go func() { defer wg.Done(); write(srcApp, c.down) }()
	go func() { defer wg.Done(); write(tgtApp, c.up) }()
	t, s := <-tch, <-sch
	wg.Wait()
	b := func(x bool) string {
		if x {
			return "1"
		}
		return "0"
	}
	return fmt.Sprintf("tt %s ts %s teof %s seof %s", vc.Hex(t.b), vc.Hex(s.b), b(t.eof), b(s.eof))
}

func execXnode(out *vc.Out, caseStr string, toks []string) {
	c, ok := parseXnode(toks)
	if !ok {
		out.Case(caseStr, "bad-case", "")
		return
	}
	out.Case(caseStr, runXnode(c), fmt.Sprintf("xnode/%d/%s/%d/%d/%d", c.dl, c.via, c.gap, len(c.down), len(c.up)))
}

// genXnode: traffic that goes on for several multiples of the attach deadline, in both directions, one
// direction only, few large and many small writes; the cases run concurrently (each has its own two nodes).
func genXnode(out *vc.Out, r *vc.Rand, thorough bool) {
	n := 16
	if thorough {
		n = 60
	}
	var cases []xnodeCase
	for i := 0; i < n; i++ {
		c := xnodeCase{dl: []int{150, 300, 600}[i%3], via: []string{"m", "p", "M", "P"}[(i/2+i)%4]}
		c.gap = c.dl / 5
		writes := 12 + r.Intn(8) // ≥ 3 × dl of traffic
		size := []int{1, 100, 1000, 4096, 33000}[r.Intn(5)]
		mk := func(k int) [][]byte {
			var o [][]byte
			for j := 0; j < k; j++ {
				o = append(o, genData(r, 1+r.Intn(size)))
			}
			return o
		}
		switch i % 4 {
		case 0, 1:
			c.down, c.up = mk(writes), mk(writes)
		case 2:
			c.down, c.up = mk(1), mk(writes) // the source end is silent after its first bytes
		default:
			c.down, c.up = mk(writes), mk(1)
		}
		cases = append(cases, c)
	}
	obs := make([]string, len(cases))
	var wg sync.WaitGroup
	for i := range cases {
		wg.Add(1)
		go func(i int) { defer wg.Done(); obs[i] = runXnode(cases[i]) }(i)
	}
	wg.Wait()
	for i, c := range cases {
		out.Case(fmtXnode(c), obs[i], fmt.Sprintf("xnode/%d/%s/%d/%d/%d/%d", c.dl, c.via, c.gap, len(c.down), len(c.up), i))
		out.Count("xnode:via-" + c.via)
	}
}
