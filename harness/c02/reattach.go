//go:build verif

package main

import (
	"context"
	"fmt"
	"runtime"
	"strconv"
	"strings"
	"time"

	"tunnox-core/internal/core/idgen"
	"tunnox-core/internal/core/storage"
	"tunnox-core/internal/protocol/session"
	vc "tunnox-core/internal/verifharness/common"
)

// Runs in which the source end of a running tunnel re-attaches (handleExistingBridge →
// Bridge.SetSourceConnection).  Case:
//   reattach lim <L|-> gens <g> (at <a> src <n> (<hex> <n|t|f> 0)*n)*g tgt <m> (<hex> <n|t> <after>)*m
// Source connection i serves its script; the Read that would serve event `a` (or the end of the
// script) waits; the harness then lets the target->source direction come to rest, installs
// connection i+1 and releases connection i.  The target's script never ends by itself.
// `reattachfree`: the same without waiting for the target->source direction to come to rest: the
// target streams while the source connections are replaced under it (which connection gets which
// byte is then not determined; their concatenation in attach order still is).
// Observation:
//   tt <hex> ret <b> sc <b> tc <b> rem <b> sent <n> | ps <g> <hex>*g recv <n>

type srcGen struct {
	at    int
	reads []readEv
}

func (c *scriptConn) waitPause(gone func() bool) bool {
	deadline := time.Now().Add(10 * time.Second)
	for time.Now().Before(deadline) {
		c.mu.Lock()
		p := c.atPause
		c.mu.Unlock()
		if p {
			return true
		}
		if gone() {
			return false
		}
		time.Sleep(100 * time.Microsecond)
	}
	return false
}

func (c *scriptConn) release() {
	c.mu.Lock()
	c.released = true
	c.cond.Broadcast()
	c.mu.Unlock()
}

func runReattach(lim string, gens []srcGen, tgt []readEv, free bool) string {
	res := make(chan string, 1)
	go func() {
		defer func() {
			if r := recover(); r != nil {
				res <- "panic " + strings.ReplaceAll(fmt.Sprint(r), " ", "_")
			}
		}()
		ctx, cancel := context.WithCancel(context.Background())
		defer cancel()
		st := storage.NewMemoryStorage(ctx)
		idm := idgen.NewIDManager(st, ctx)
		sm := session.NewSessionManager(idm, ctx)
		defer sm.Close()
		conns := make([]*scriptConn, len(gens))
		for i, g := range gens {
			conns[i] = newScriptConn("src"+strconv.Itoa(i), g.reads, nil)
			conns[i].pauseAt = g.at
		}
		tc := newScriptConn("tgt", tgt, nil)
		tc.holdAtEnd = true
		id := fmt.Sprintf("verif-tunnel-%d", bridgeSeq.Add(1))
		br := sm.VerifStartBridge(id, "", conns[0], limitOf(lim))
		br.SetTargetConnection(&tconn{c: tc})
		gone := func() bool { return !sm.VerifHasBridge(id) }
		// the target->source direction is at rest when the target's next event is gated and every
		// byte of the events served so far has been written to some source connection
		quiet := func() bool {
			tc.mu.Lock()
			ri, got := tc.ri, tc.recv.Len()
			blocked := ri >= len(tc.reads) || tc.reads[ri].after > got
			want := 0
			for _, e := range tc.reads[:ri] {
				want += len(e.data)
			}
			tc.mu.Unlock()
			have := 0
			for _, c := range conns {
				c.mu.Lock()
				have += c.recv.Len()
				c.mu.Unlock()
			}
			return blocked && have == want
		}
		attached := 0
		for i := range gens {
			if !conns[i].waitPause(gone) {
				break
			}
			for d := time.Now().Add(5 * time.Second); !free && time.Now().Before(d) && !quiet(); {
				time.Sleep(100 * time.Microsecond)
			}
			if i+1 < len(gens) {
				br.SetSourceConnection(&tconn{c: conns[i+1]})
				attached = i + 1
			}
			conns[i].release()
		}
		deadline := time.Now().Add(20 * time.Second)
		returned := false
		for time.Now().Before(deadline) {
			if gone() {
				returned = true
				break
			}
			time.Sleep(200 * time.Microsecond)
		}
		tc.mu.Lock()
		tt, tcClosed := vc.Hex(tc.recv.Bytes()), tc.closed
		tc.mu.Unlock()
		ps := make([]string, len(conns))
		recv := 0
		for i, c := range conns {
			c.mu.Lock()
			ps[i] = vc.Hex(c.recv.Bytes())
			recv += c.recv.Len()
			c.mu.Unlock()
		}
		_ = recv
		cur := conns[attached]
		cur.mu.Lock()
		sc := cur.closed
		cur.mu.Unlock()
		res <- fmt.Sprintf("tt %s ret %s sc %s tc %s rem %s sent %d | ps %d %s recv %d",
			tt, b2s(returned), b2s(sc), b2s(tcClosed), b2s(!sm.VerifHasBridge(id)), br.GetBytesSent(),
			len(ps), strings.Join(ps, " "), br.GetBytesReceived())
		// let goroutines parked on never-released connections go
		for _, c := range conns {
			c.Close()
		}
		tc.Close()
	}()
	select {
	case s := <-res:
		return s
	case <-time.After(60 * time.Second):
		return "timeout"
	}
}

// closerace <k>: the bridge is closed from outside at (nearly) the instant its target attaches: Start
// leaves its wait on `ready` and sets up its forwarders while Close tears the same fields down.
// Observation: ret <b> rem <b>   (the bridge must end and be forgotten; under the race-detector
// build an unordered access to the bridge's fields is reported as `data-race`).
func runCloseRace(k int) string {
	res := make(chan string, 1)
	go func() {
		defer func() {
			if r := recover(); r != nil {
				res <- "panic " + strings.ReplaceAll(fmt.Sprint(r), " ", "_")
			}
		}()
		ctx, cancel := context.WithCancel(context.Background())
		defer cancel()
		st := storage.NewMemoryStorage(ctx)
		sm := session.NewSessionManager(idgen.NewIDManager(st, ctx), ctx)
		defer sm.Close()
		sc := newScriptConn("src", nil, nil)
		sc.holdAtEnd = true
		tc := newScriptConn("tgt", nil, nil)
		tc.holdAtEnd = true
		id := fmt.Sprintf("verif-tunnel-%d", bridgeSeq.Add(1))
		br := sm.VerifStartBridge(id, "", sc, 0)
		start := make(chan struct{})
		done := make(chan struct{}, 2)
		go func() {
			<-start
			for i := 0; i < k%7; i++ {
				runtime.Gosched()
			}
			br.SetTargetConnection(&tconn{c: tc})
			done <- struct{}{}
		}()
		go func() {
			<-start
			for i := 0; i < k/7%7; i++ {
				runtime.Gosched()
			}
			br.Close()
			done <- struct{}{}
		}()
		close(start)
		<-done
		<-done
		returned := false
		for d := time.Now().Add(20 * time.Second); time.Now().Before(d); time.Sleep(200 * time.Microsecond) {
			if !sm.VerifHasBridge(id) {
				returned = true
				break
			}
		}
		res <- fmt.Sprintf("ret %s rem %s", b2s(returned), b2s(!sm.VerifHasBridge(id)))
	}()
	select {
	case s := <-res:
		return s
	case <-time.After(60 * time.Second):
		return "timeout"
	}
}

func fmtReattach(kind, lim string, gens []srcGen, tgt []readEv) string {
	var sb strings.Builder
	fmt.Fprintf(&sb, "%s lim %s gens %d", kind, lim, len(gens))
	for _, g := range gens {
		fmt.Fprintf(&sb, " at %d %s", g.at, fmtReads("src", g.reads, true))
	}
	sb.WriteString(" " + fmtReads("tgt", tgt, true))
	return sb.String()
}

func execReattach(out *vc.Out, caseStr string, toks []string) {
	n, _ := strconv.Atoi(toks[4])
	i := 5
	var gens []srcGen
	for k := 0; k < n; k++ {
		at, _ := strconv.Atoi(toks[i+1])
		var rd []readEv
		rd, i = parseReads(toks, i+2, true)
		gens = append(gens, srcGen{at: at, reads: rd})
	}
	tgt, _ := parseReads(toks, i, true)
	obs := runReattach(toks[2], gens, tgt, toks[0] == "reattachfree")
	key := caseStr
	if len(key) > 200 {
		key = key[:200] + strconv.Itoa(len(caseStr))
	}
	out.Case(caseStr, obs, key)
}

func genReattach(out *vc.Out, r *vc.Rand, thorough bool) {
	rounds := 60
	if thorough {
		rounds = 600
	}
	sizes := []int{1, 2, 3, 10, 50, 120}
	for it := 0; it < rounds; it++ {
		ng := 2 + r.Intn(3)
		faults := r.Intn(3) == 0
		var gens []srcGen
		var thresholds []int
		sum := 0
		for k := 0; k < ng; k++ {
			rd := genReads(r, out, 1+r.Intn(4), sizes, faults)
			at := len(rd)
			switch r.Intn(5) {
			case 0: // replaced while the old connection still has data to deliver
				at = r.Intn(len(rd) + 1)
				out.Count("reattach:mid-script")
			case 1:
				if faults { // never replaced in time
					at = len(rd) + 1
					out.Count("reattach:too-late")
				}
			}
			for j, e := range rd {
				if j < at {
					sum += len(e.data)
				}
			}
			thresholds = append(thresholds, sum)
			for j := at; j < len(rd); j++ {
				sum += len(rd[j].data)
			}
			gens = append(gens, srcGen{at: at, reads: rd})
		}
		// target events fire at the pauses only (so the connection they are written to is determined)
		var tgt []readEv
		last := 0
		for k, nt := 0, r.Intn(6); k < nt; k++ {
			e := readEv{data: genData(r, vc.Pick(r, sizes)), err: "n"}
			if r.Intn(8) == 0 {
				e.err = "t"
			}
			th := 0
			if r.Intn(4) != 0 {
				th = thresholds[r.Intn(len(thresholds))]
			}
			if th < last {
				th = last
			}
			last = th
			e.after = th
			tgt = append(tgt, e)
		}
		lim := "-"
		if r.Intn(5) == 0 {
			lim = vc.Pick(r, []string{"2000", "1000000"})
			out.Count("reattach:limited")
		}
		out.Count(fmt.Sprintf("reattach:gens=%d", ng))
		if faults {
			out.Count("reattach:faults")
		}
		execCase(out, fmtReattach("reattach", lim, gens, tgt))
	}
	ncr := 49
	if thorough {
		ncr = 490
	}
	for k := 0; k < ncr; k++ {
		out.Count("closerace")
		execCase(out, fmt.Sprintf("closerace %d", k))
	}
	// free-running: the target streams many small writes while the source connections are replaced
	nfree := 6
	if thorough {
		nfree = 40
	}
	for it := 0; it < nfree; it++ {
		ng := 2 + r.Intn(3)
		var gens []srcGen
		for k := 0; k < ng; k++ {
			rd := genReads(r, out, 1+r.Intn(4), sizes, false)
			gens = append(gens, srcGen{at: r.Intn(len(rd) + 1), reads: rd})
		}
		var tgt []readEv
		for k, nt := 0, 500+r.Intn(1500); k < nt; k++ {
			tgt = append(tgt, readEv{data: genData(r, 1+r.Intn(3)), err: "n"})
		}
		out.Count("reattach:free-running")
		execCase(out, fmtReattach("reattachfree", "-", gens, tgt))
	}
}
