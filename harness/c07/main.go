//go:build verif

// Harness for C07: histories of registry/session operations on the REAL SessionManager
// (ClientRegistry, TunnelRegistry, SessionManager.connMap) with fake transports.
//
// case  := (seq|strict) n <N> m <M> cap <C> ops <op>*            one history, one snapshot at the end
//
//	| par n <N> m <M> cap <C> ops <op>* (th <op>*)+          prefix, then the th-blocks run concurrently
//	| race n <N> m <M> cap <C> ops <op>* th <op>* th <op>*   prefix; block 1 runs until it is inside UpdateAuth
//	             (gated logger), then block 2 runs; the outcome must be one of the two orders
//
// op    := A c        AcceptConnection with transport c; an id in use is refused (real call), an id whose
//
//	                    connection was torn down comes back as a new incarnation on a new transport
//
//		| H c x t    Handshake packet on c up to and including the auth handler (x=0: handler refuses;
//		             x>0: handler authenticates as client x = SetClientID+SetAuthenticated), t = c|t
//		             (connection_type control|tunnel); the real handleHandshake then WAITS at the gate
//		| Q c t      same, handler answers "challenge sent" (no field writes)
//		| F c        release the gate of c: response is written, index updated
//		| HS c x t / QS c t   = H/Q immediately followed by F
//		| K x c      KickOldControlConnection(x, newConnID=c)      | S    cleanupStaleConnections()
//		| O c        the control connection of c becomes older than the heartbeat timeout
//		| B c        Heartbeat packet on c                         | X c  CloseConnection(c)
//		| R c        RemoveControlConnection(c)                    | U c  clientRegistry.Unregister(c)
//		| G c x      RegisterControlConnection(new ControlConnection of c): x=0 unauthenticated (limit eviction and/or
//		             replacement of the registered entry of c), x>0 pre-authenticated temporary connection
//		| T c        RegisterTunnelConnection for c                | P c  peer breaks transport c (writes fail)
//		| XF c / RF c / SF / BF c   = X / R / S / B while the cloud-control store is failing (DisconnectClientIfMatch,
//		             DisconnectClient, EnsureClientOnline return an error); a cloud control is always configured
//
// obs   := cl (<conn> <clientID> <auth> <same> | - - - -){M}  cn (<clientID> <auth> | - -) <inS> <inT> <closed>){N}
//
//	la <k> <conn>{k}  ct <Count> <Total> <Control> <Tunnel> <Active>
package main

import (
	"context"
	"encoding/binary"
	"encoding/json"
	"errors"
	"flag"
	"fmt"
	"io"
	"net"
	"os"
	"runtime"
	"runtime/debug"
	"sort"
	"strconv"
	"strings"
	"sync"
	"sync/atomic"
	"time"

	"tunnox-core/internal/cloud/models"
	"tunnox-core/internal/cloud/stats"
	"tunnox-core/internal/core/idgen"
	corelog "tunnox-core/internal/core/log"
	"tunnox-core/internal/core/storage"
	"tunnox-core/internal/core/types"
	"tunnox-core/internal/packet"
	"tunnox-core/internal/protocol/adapter"
	"tunnox-core/internal/protocol/session"
	vc "tunnox-core/internal/verifharness/common"
)

// ---- fake transport

type fconn struct {
	id     string
	closed atomic.Bool
	broken atomic.Bool
	// adapter mode: the read side is a queue fed by the harness; Read blocks while it is empty
	adp  bool
	mu   sync.Mutex
	cond *sync.Cond
	q    []byte
	idle chan struct{} // signalled (capacity 1) whenever the reader is about to block on an empty queue
}

func newFconn(id string, adp bool) *fconn {
	f := &fconn{id: id, adp: adp, idle: make(chan struct{}, 1)}
	f.cond = sync.NewCond(&f.mu)
	return f
}

var errClosed = errors.New("verif: transport closed")

func (f *fconn) Read(p []byte) (int, error) {
	if !f.adp {
		return 0, io.EOF
	}
	f.mu.Lock()
	defer f.mu.Unlock()
	for len(f.q) == 0 && !f.closed.Load() && !f.broken.Load() {
		select {
		case f.idle <- struct{}{}:
		default:
		}
		f.cond.Wait()
	}
	if f.closed.Load() || f.broken.Load() {
		return 0, errClosed
	}
	n := copy(p, f.q)
	f.q = f.q[n:]
	return n, nil
}

func (f *fconn) feed(b []byte) {
	f.mu.Lock()
	f.q = append(f.q, b...)
	f.cond.Broadcast()
	f.mu.Unlock()
}

func (f *fconn) wake() {
	f.mu.Lock()
	f.cond.Broadcast()
	f.mu.Unlock()
}

func (f *fconn) Write(p []byte) (int, error) {
	if f.closed.Load() || f.broken.Load() {
		return 0, errClosed
	}
	return len(p), nil
}
func (f *fconn) Close() error {
	f.closed.Store(true)
	f.wake()
	return nil
}
func (f *fconn) GetConnectionID() string            { return f.id }
func (f *fconn) LocalAddr() net.Addr                { return addr("local") }
func (f *fconn) RemoteAddr() net.Addr               { return addr("10.0.0.1:1") }
func (f *fconn) SetDeadline(t time.Time) error      { return nil }
func (f *fconn) SetReadDeadline(t time.Time) error  { return nil }
func (f *fconn) SetWriteDeadline(t time.Time) error { return nil }

type addr string

func (a addr) Network() string { return "tcp" }
func (a addr) String() string  { return string(a) }

// ---- gated auth handler (the double for app/server ServerAuthHandler: on success it does exactly
// the two field writes SetClientID / SetAuthenticated(true), outside any registry lock)

type gate struct {
	reached chan struct{}
	release chan struct{}
	done    chan struct{}
}

type world struct {
	n, m, capc  int
	sm          *session.SessionManager
	cancel      context.CancelFunc
	tr          []*fconn
	accepted    []bool
	mu          sync.Mutex
	gates       map[string]*gate
	inflight    []*gate
	kicks       map[int]chan struct{} // fine cases: kicked connection -> done channel of the KickOld goroutine
	kickRelease map[int]chan struct{}
	panicMsg    atomic.Value
	timedOut    atomic.Bool
	streamRace  atomic.Bool // a panic inside StreamProcessor (Close racing WritePacket): not a registry fact
	cc          *cloudCtl
	lg          *gateLogger
	adp         bool // adapter mode: packets and teardown go through the real read loop
	ctx         context.Context
	loops       []chan struct{} // adapter mode: done channel of connection c's handleConnection goroutine
}

type authH struct{ w *world }

// ---- cloud-control double: every SessionManager in the harness has a cloud control configured;
// while `fail` is positive its store is "down": DisconnectClientIfMatch / DisconnectClient /
// EnsureClientOnline return an error (ops XF, RF, SF, BF = X, R, S, B under that fault).

type cloudCtl struct{ fail atomic.Int64 }

var errCloud = errors.New("verif: cloud control store unavailable")

func (c *cloudCtl) GetPortMapping(string) (*models.PortMapping, error) { return nil, errCloud }
func (c *cloudCtl) UpdatePortMappingStats(string, *stats.TrafficStats) error {
	return nil
}
func (c *cloudCtl) GetClientPortMappings(int64) ([]*models.PortMapping, error) { return nil, nil }
func (c *cloudCtl) TouchClient(int64)                                          {}
func (c *cloudCtl) DisconnectClient(int64) error {
	if c.fail.Load() > 0 {
		return errCloud
	}
	return nil
}
func (c *cloudCtl) DisconnectClientIfMatch(int64, string, string) (bool, error) {
	if c.fail.Load() > 0 {
		return false, errCloud
	}
	return true, nil
}
func (c *cloudCtl) EnsureClientOnline(int64, string, string, string, string, string) error {
	if c.fail.Load() > 0 {
		return errCloud
	}
	return nil
}

func (a *authH) HandleHandshake(conn session.ControlConnectionInterface, req *packet.HandshakeRequest) (*packet.HandshakeResponse, error) {
	if req.Token == "fail" {
		return &packet.HandshakeResponse{Success: false, Error: "denied"}, errors.New("denied")
	}
	if req.Token == "ok" {
		conn.SetClientID(req.ClientID)
		conn.SetAuthenticated(true)
	}
	a.w.mu.Lock()
	g := a.w.gates[conn.GetConnID()]
	a.w.mu.Unlock()
	if g != nil {
		close(g.reached)
		<-g.release
	}
	if req.Token == "ok" {
		return &packet.HandshakeResponse{Success: true, Message: "ok"}, nil
	}
	return &packet.HandshakeResponse{Success: false, NeedResponse: true, Challenge: "c"}, nil
}

func (a *authH) GetClientConfig(conn session.ControlConnectionInterface) (string, error) {
	return "", nil
}

func cid(c int) string { return "c" + strconv.Itoa(c) }

// ---- gated logger: ClientRegistry takes its logger from corelog.Default() when the SessionManager is
// built.  UpdateAuth's "connection authenticated" line is the one injectable call inside UpdateAuth; when armed,
// the first such line signals `reached` and waits for `release` (race cases).

type gateLogger struct {
	corelog.NopLogger
	armed   atomic.Bool
	reached chan struct{}
	release chan struct{}
}

func (l *gateLogger) Infof(format string, args ...interface{}) {
	if strings.HasPrefix(format, "ClientRegistry: connection authenticated") && l.armed.CompareAndSwap(true, false) {
		close(l.reached)
		<-l.release
	}
}

var newWorldMu sync.Mutex

func newWorld(n, m, capc int, adp bool) *world {
	ctx, cancel := context.WithCancel(context.Background())
	st := storage.NewMemoryStorage(ctx)
	idm := idgen.NewIDManager(st, ctx)
	lg := &gateLogger{reached: make(chan struct{}), release: make(chan struct{})}
	newWorldMu.Lock()
	corelog.SetDefault(lg)
	defer func() {
		corelog.SetDefault(corelog.NewNopLogger())
		newWorldMu.Unlock()
	}()
	sm := session.NewSessionManagerWithConfig(idm, ctx, &session.SessionConfig{
		HeartbeatTimeout:      time.Hour,
		CleanupInterval:       time.Hour,
		MaxConnections:        0,
		MaxControlConnections: capc,
	})
	w := &world{n: n, m: m, capc: capc, sm: sm, cancel: cancel, gates: map[string]*gate{}, kicks: map[int]chan struct{}{}, kickRelease: map[int]chan struct{}{}}
	w.tr = make([]*fconn, n)
	w.accepted = make([]bool, n)
	w.inflight = make([]*gate, n)
	for i := range w.tr {
		w.tr[i] = newFconn(cid(i), adp)
	}
	sm.SetAuthHandler(&authH{w})
	w.cc = &cloudCtl{}
	sm.SetCloudControl(w.cc)
	w.adp = adp
	w.ctx = ctx
	w.loops = make([]chan struct{}, n)
	w.lg = lg
	return w
}

func (w *world) close() {
	for _, g := range w.inflight {
		if g != nil {
			close(g.release)
			select {
			case <-g.done:
			case <-time.After(5 * time.Second):
			}
		}
	}
	for c := range w.kicks {
		w.kickEnd(c)
	}
	for c, l := range w.loops {
		if l != nil {
			w.tr[c].broken.Store(true)
			w.tr[c].wake()
			select {
			case <-l:
			case <-time.After(5 * time.Second):
			}
		}
	}
	w.sm.Close()
	w.cancel()
}

// ---- adapter mode: connection c is served by the real BaseAdapter.handleConnection (accept,
// connectionReadLoop, deferred cleanupConnection) on its own goroutine, as the accept loop starts it.

func (w *world) loopAlive(c int) bool {
	if c >= w.n || w.loops[c] == nil {
		return false
	}
	select {
	case <-w.loops[c]:
		return false
	default:
		return true
	}
}

func (w *world) startLoop(c int) {
	done := make(chan struct{})
	w.loops[c] = done
	go func() {
		defer close(done)
		defer w.guard()
		adapter.VerifHandleConnection(w.ctx, w.sm, w.tr[c])
	}()
	w.await(c, nil)
}

// await: until the read loop of c blocks on an empty queue, ends, or (g != nil) reaches the auth gate
func (w *world) await(c int, g *gate) bool {
	var reached chan struct{}
	if g != nil {
		reached = g.reached
	}
	select {
	case <-reached:
		return true
	case <-w.tr[c].idle:
	case <-w.loops[c]:
	case <-time.After(10 * time.Second):
		w.timedOut.Store(true)
	}
	return false
}

func (w *world) feed(c int, b []byte) {
	select {
	case <-w.tr[c].idle:
	default:
	}
	w.tr[c].feed(b)
}

// settleLoops: every read loop whose transport is closed or broken (and that is not inside a
// handshake) ends and runs its cleanupConnection
func (w *world) settleLoops() {
	for c := 0; c < w.n; c++ {
		if w.loopAlive(c) && w.inflight[c] == nil && (w.tr[c].closed.Load() || w.tr[c].broken.Load()) {
			w.tr[c].wake()
			select {
			case <-w.loops[c]:
			case <-time.After(10 * time.Second):
				w.timedOut.Store(true)
			}
		}
	}
}

func encodePacket(t packet.Type, body []byte) []byte {
	if t == packet.Heartbeat {
		return []byte{byte(t)}
	}
	b := make([]byte, 5, 5+len(body))
	b[0] = byte(t)
	binary.BigEndian.PutUint32(b[1:5], uint32(len(body)))
	return append(b, body...)
}

// kickBegin runs KickOldControlConnection(x, newConnID) up to the point where KickOldConnection has
// released the registry lock (hook in front of the kick command; VerifKickWithHook).
func (w *world) kickBegin(x, newc int) {
	old := w.sm.GetControlConnectionByClientID(int64(x))
	c := -1
	if old != nil {
		c, _ = strconv.Atoi(connIdx(old.ConnID))
		if c >= w.n || w.kicks[c] != nil {
			return
		}
	}
	reached := make(chan struct{})
	release := make(chan struct{})
	done := make(chan struct{})
	go func() {
		defer close(done)
		defer w.guard()
		w.sm.VerifKickWithHook(int64(x), cid(newc), func() {
			close(reached)
			<-release
		})
	}()
	select {
	case <-reached:
		w.kicks[c] = done
		w.kickRelease[c] = release
	case <-done:
	case <-time.After(10 * time.Second):
		w.timedOut.Store(true)
	}
}

func (w *world) kickEnd(c int) {
	done := w.kicks[c]
	if done == nil {
		return
	}
	close(w.kickRelease[c])
	delete(w.kicks, c)
	delete(w.kickRelease, c)
	select {
	case <-done:
	case <-time.After(10 * time.Second):
		w.timedOut.Store(true)
	}
}

func (w *world) guard() {
	if r := recover(); r != nil {
		w.panicMsg.Store(strings.ReplaceAll(fmt.Sprint(r), " ", "_"))
		if strings.Contains(string(debug.Stack()), "stream.(*StreamProcessor)") {
			w.streamRace.Store(true)
		}
		if os.Getenv("VERIF_DEBUG") != "" {
			fmt.Fprintf(os.Stderr, "panic: %v\n%s\n", r, debug.Stack())
		}
	}
}

type op struct {
	k    string
	a, b int
	t    string
}

func (o op) String() string {
	switch o.k {
	case "S", "SF":
		return o.k
	case "H", "HS":
		return fmt.Sprintf("%s %d %d %s", o.k, o.a, o.b, o.t)
	case "Q", "QS":
		return fmt.Sprintf("%s %d %s", o.k, o.a, o.t)
	case "K", "Kb", "G":
		return fmt.Sprintf("%s %d %d", o.k, o.a, o.b)
	}
	return fmt.Sprintf("%s %d", o.k, o.a)
}

func opsStr(ops []op) string {
	s := make([]string, len(ops))
	for i, o := range ops {
		s[i] = o.String()
	}
	return strings.Join(s, " ")
}

// the creation order of control connections is their CreatedAt order: make sure the clock moved
func tick() {
	t0 := time.Now()
	for !time.Now().After(t0) {
	}
}

func (w *world) handshakeStart(c, x int, t string, tok string, gated bool) {
	if c >= w.n || w.inflight[c] != nil {
		return
	}
	ct := "control"
	if t == "t" {
		ct = "tunnel"
	}
	body, _ := json.Marshal(&packet.HandshakeRequest{ClientID: int64(x), Token: tok, Version: "3", Protocol: "tcp", ConnectionType: ct})
	pkt := &types.StreamPacket{ConnectionID: cid(c), Packet: &packet.TransferPacket{PacketType: packet.Handshake, Payload: body}, Timestamp: time.Now()}
	if w.adp {
		if !w.loopAlive(c) {
			return // no read loop: the packet cannot arrive (model: connection not found)
		}
		g := &gate{reached: make(chan struct{}), release: make(chan struct{}), done: make(chan struct{})}
		w.mu.Lock()
		w.gates[cid(c)] = g
		w.mu.Unlock()
		w.feed(c, encodePacket(packet.Handshake, body))
		if w.await(c, g) {
			w.inflight[c] = g
		} else {
			w.mu.Lock()
			delete(w.gates, cid(c))
			w.mu.Unlock()
		}
		tick()
		return
	}
	if !gated {
		func() {
			defer w.guard()
			_ = w.sm.HandlePacket(pkt)
		}()
		tick()
		return
	}
	g := &gate{reached: make(chan struct{}), release: make(chan struct{}), done: make(chan struct{})}
	w.mu.Lock()
	w.gates[cid(c)] = g
	w.mu.Unlock()
	go func() {
		defer close(g.done)
		defer w.guard()
		_ = w.sm.HandlePacket(pkt)
	}()
	select {
	case <-g.reached:
		w.inflight[c] = g
	case <-g.done:
		w.mu.Lock()
		delete(w.gates, cid(c))
		w.mu.Unlock()
	case <-time.After(10 * time.Second):
		w.timedOut.Store(true)
	}
	tick()
}

func (w *world) handshakeFinish(c int) {
	if c >= w.n || w.inflight[c] == nil {
		return
	}
	g := w.inflight[c]
	w.inflight[c] = nil
	w.mu.Lock()
	delete(w.gates, cid(c))
	w.mu.Unlock()
	close(g.release)
	if w.adp {
		w.await(c, nil)
		return
	}
	select {
	case <-g.done:
	case <-time.After(10 * time.Second):
		w.timedOut.Store(true)
	}
}

// exec runs one op on the real code. gated=false is used inside concurrent blocks.
func (w *world) exec(o op, gated bool) {
	defer w.guard()
	c := o.a
	switch o.k {
	case "A":
		if c >= w.n {
			return
		}
		if w.accepted[c] {
			_, tracked := w.sm.GetConnection(cid(c))
			if tracked || w.inflight[c] != nil || w.loopAlive(c) {
				// the id is in use (or a packet of its previous incarnation is still being handled, which the
				// harness does not combine with a comeback): the real call must refuse and change nothing
				if !w.adp && tracked {
					_, _ = w.sm.AcceptConnection(w.tr[c], w.tr[c])
				}
				return
			}
			// the id comes back after its connection was torn down: a new incarnation on a new transport
			w.tr[c] = newFconn(cid(c), w.adp)
		}
		w.accepted[c] = true
		if w.adp {
			w.startLoop(c)
			return
		}
		_, _ = w.sm.AcceptConnection(w.tr[c], w.tr[c])
	case "H":
		tok := "ok"
		if o.b == 0 {
			tok = "fail"
		}
		w.handshakeStart(c, o.b, o.t, tok, gated)
	case "Q":
		w.handshakeStart(c, 0, o.t, "chal", gated)
	case "F":
		w.handshakeFinish(c)
	case "HS":
		tok := "ok"
		if o.b == 0 {
			tok = "fail"
		}
		w.handshakeStart(c, o.b, o.t, tok, gated)
		w.handshakeFinish(c)
	case "QS":
		w.handshakeStart(c, 0, o.t, "chal", gated)
		w.handshakeFinish(c)
	case "K":
		w.sm.KickOldControlConnection(int64(o.a), cid(o.b))
	case "Kb":
		w.kickBegin(o.a, o.b)
	case "Ke":
		if c < w.n {
			w.kickEnd(c)
		}
	case "XF", "RF", "SF", "BF", "PF":
		// the same operation (in adapter mode: and the teardowns it triggers) while the cloud-control store is failing
		w.cc.fail.Add(1)
		defer w.cc.fail.Add(-1)
		w.exec(op{k: o.k[:1], a: o.a}, gated)
		if w.adp {
			w.settleLoops()
		}
	case "S":
		w.sm.VerifCleanupStale()
	case "O":
		if cc := w.sm.GetControlConnection(cid(c)); cc != nil {
			cc.LastActiveAt = time.Now().Add(-2 * time.Hour)
		}
	case "B":
		if w.adp && w.loopAlive(c) && w.inflight[c] == nil {
			w.feed(c, encodePacket(packet.Heartbeat, nil))
			w.await(c, nil)
			return
		}
		_ = w.sm.HandlePacket(&types.StreamPacket{ConnectionID: cid(c), Packet: &packet.TransferPacket{PacketType: packet.Heartbeat}, Timestamp: time.Now()})
	case "X":
		_ = w.sm.CloseConnection(cid(c))
	case "R":
		w.sm.RemoveControlConnection(cid(c))
	case "U":
		w.sm.VerifUnregister(cid(c))
	case "G":
		// RegisterControlConnection of a new ControlConnection object built from SessionManager's entry of c, as
		// handleHandshake (x = 0) and notifyTargetClientToOpenTunnel (x > 0: temporary, pre-authenticated) build it
		conn, ok := w.sm.GetConnection(cid(c))
		if !ok {
			return
		}
		x := int64(o.b)
		if x > 0 && (w.sm.GetControlConnectionByClientID(x) != nil || w.sm.GetControlConnection(cid(c)) != nil || w.tr[c].closed.Load()) {
			return // not the situation the temporary connection is built in
		}
		var ra net.Addr
		if conn.RawConn != nil {
			ra = conn.RawConn.RemoteAddr()
		}
		cc := session.NewControlConnection(conn.ID, conn.Stream, ra, "tcp")
		if x > 0 {
			cc.SetClientID(x)
			cc.SetAuthenticated(true)
		}
		w.sm.RegisterControlConnection(cc)
		tick()
	case "T":
		if conn, ok := w.sm.GetConnection(cid(c)); ok {
			w.sm.RegisterTunnelConnection(session.NewTunnelConnection(conn.ID, conn.Stream, nil, "tcp"))
		}
	case "P":
		if c < w.n {
			w.tr[c].broken.Store(true)
			w.tr[c].wake()
		}
	}
}

func b2s(b bool) string {
	if b {
		return "1"
	}
	return "0"
}

func connIdx(id string) string {
	return strings.TrimPrefix(id, "c")
}

func (w *world) snapshot() string {
	if p := w.panicMsg.Load(); p != nil {
		if w.streamRace.Load() {
			return "panic-in-stream-layer " + p.(string)
		}
		return "panic " + p.(string)
	}
	if w.timedOut.Load() {
		return "timeout"
	}
	var sb strings.Builder
	sb.WriteString("cl")
	for x := 1; x <= w.m; x++ {
		cc := w.sm.GetControlConnectionByClientID(int64(x))
		if cc == nil {
			sb.WriteString(" - - - -")
			continue
		}
		same := w.sm.GetControlConnection(cc.ConnID) == cc
		fmt.Fprintf(&sb, " %s %d %s %s", connIdx(cc.ConnID), cc.ClientID, b2s(cc.Authenticated), b2s(same))
	}
	sb.WriteString(" cn")
	for c := 0; c < w.n; c++ {
		cc := w.sm.GetControlConnection(cid(c))
		if cc == nil {
			sb.WriteString(" - -")
		} else {
			fmt.Fprintf(&sb, " %d %s", cc.ClientID, b2s(cc.Authenticated))
		}
		_, inS := w.sm.GetConnection(cid(c))
		fmt.Fprintf(&sb, " %s %s %s", b2s(inS), b2s(w.sm.VerifHasTunnelConn(cid(c))), b2s(w.tr[c].closed.Load()))
	}
	la := w.sm.VerifListAuthenticated()
	ids := make([]int, 0, len(la))
	for _, cc := range la {
		i, _ := strconv.Atoi(connIdx(cc.ConnID))
		ids = append(ids, i)
	}
	sort.Ints(ids)
	fmt.Fprintf(&sb, " la %d", len(ids))
	for _, i := range ids {
		fmt.Fprintf(&sb, " %d", i)
	}
	st := w.sm.GetConnectionStats()
	fmt.Fprintf(&sb, " ct %d %d %d %d %d", w.sm.VerifControlCount(), st.TotalConnections, st.ControlConnections, st.TunnelConnections, w.sm.GetActiveChannels())
	// the other spellings of the same lookups and counters
	fmt.Fprintf(&sb, " alt %d %d %d", w.sm.VerifControlListLen(), len(w.sm.ListConnections()), w.sm.GetActiveConnections())
	for x := 1; x <= w.m; x++ {
		if ci := w.sm.GetControlConnectionInterface(int64(x)); ci != nil {
			fmt.Fprintf(&sb, " %s", connIdx(ci.GetConnID()))
		} else {
			sb.WriteString(" -")
		}
	}
	for c := 0; c < w.n; c++ {
		fmt.Fprintf(&sb, " %d", w.sm.GetClientIDByConnectionID(cid(c)))
	}
	return sb.String()
}

// ---- case strings

type tcase struct {
	kind       string
	n, m, capc int
	pre        []op
	threads    [][]op
}

func (t *tcase) String() string {
	s := fmt.Sprintf("%s n %d m %d cap %d ops", t.kind, t.n, t.m, t.capc)
	if len(t.pre) > 0 {
		s += " " + opsStr(t.pre)
	}
	for _, th := range t.threads {
		s += " th"
		if len(th) > 0 {
			s += " " + opsStr(th)
		}
	}
	return s
}

func atoi(s string) int {
	v, err := strconv.Atoi(s)
	if err != nil || v < 0 {
		panic("bad number " + s)
	}
	return v
}

func parseOps(toks []string) ([]op, []string) {
	var ops []op
	for len(toks) > 0 {
		switch k := toks[0]; k {
		case "S", "SF":
			ops = append(ops, op{k: k})
			toks = toks[1:]
		case "H", "HS":
			ops = append(ops, op{k: k, a: atoi(toks[1]), b: atoi(toks[2]), t: toks[3]})
			toks = toks[4:]
		case "Q", "QS":
			ops = append(ops, op{k: k, a: atoi(toks[1]), t: toks[2]})
			toks = toks[3:]
		case "K", "Kb", "G":
			ops = append(ops, op{k: k, a: atoi(toks[1]), b: atoi(toks[2])})
			toks = toks[3:]
		case "Ke", "A", "F", "O", "B", "X", "R", "U", "T", "P", "XF", "RF", "BF", "PF":
			ops = append(ops, op{k: k, a: atoi(toks[1])})
			toks = toks[2:]
		default:
			return ops, toks
		}
	}
	return ops, toks
}

func parseCase(s string) (tc *tcase, err error) {
	defer func() {
		if r := recover(); r != nil {
			err = fmt.Errorf("bad case: %v", r)
		}
	}()
	toks := strings.Fields(s)
	if len(toks) < 8 || toks[1] != "n" || toks[3] != "m" || toks[5] != "cap" || toks[7] != "ops" {
		return nil, errors.New("bad case header")
	}
	tc = &tcase{kind: toks[0], n: atoi(toks[2]), m: atoi(toks[4]), capc: atoi(toks[6])}
	if tc.n > 16 || tc.m > 16 {
		return nil, errors.New("universe too large")
	}
	rest := toks[8:]
	tc.pre, rest = parseOps(rest)
	for len(rest) > 0 {
		if rest[0] != "th" {
			return nil, errors.New("bad token " + rest[0])
		}
		var th []op
		th, rest = parseOps(rest[1:])
		tc.threads = append(tc.threads, th)
	}
	return tc, nil
}

func inUniverse(tc *tcase) bool {
	ok := true
	chk := func(ops []op) {
		for _, o := range ops {
			switch o.k {
			case "S", "SF":
			case "K", "Kb":
				if o.a < 1 || o.a > tc.m { // the new connection id of a kick may be unknown (== n)
					ok = false
				}
				if o.b > tc.n {
					ok = false
				}
			case "G":
				if o.a >= tc.n || o.b > tc.m {
					ok = false
				}
			case "H", "HS":
				if o.a >= tc.n || o.b > tc.m || (o.t != "c" && o.t != "t") {
					ok = false
				}
			case "Q", "QS":
				if o.a >= tc.n || (o.t != "c" && o.t != "t") {
					ok = false
				}
			default:
				if o.a >= tc.n {
					ok = false
				}
			}
		}
	}
	chk(tc.pre)
	for _, th := range tc.threads {
		chk(th)
	}
	return ok
}

var streamRacePanics atomic.Int64

// runCase runs one case.  Concurrent blocks can hit a defect of the stream layer that is not a
// registry fact (StreamProcessor.onClose clears ps.writer without the write lock, a concurrent
// WritePacket dereferences nil).  Such a run says nothing about C07: it is counted and repeated.
func runCase(tc *tcase) string {
	for try := 0; ; try++ {
		obs, race := runCaseOnce(tc)
		if race && len(tc.threads) > 0 && try < 50 {
			streamRacePanics.Add(1)
			continue
		}
		return obs
	}
}

func runCaseOnce(tc *tcase) (string, bool) {
	res := make(chan string, 1)
	go func() {
		w := newWorld(tc.n, tc.m, tc.capc, tc.kind == "adp")
		defer w.close()
		for _, o := range tc.pre {
			w.exec(o, true)
			if w.adp {
				w.settleLoops()
			}
		}
		if tc.kind == "race" && len(tc.threads) == 2 {
			w.race(tc.threads[0], tc.threads[1])
		} else if len(tc.threads) > 0 {
			var wg sync.WaitGroup
			start := make(chan struct{})
			for _, th := range tc.threads {
				wg.Add(1)
				go func(th []op) {
					defer wg.Done()
					<-start
					for _, o := range th {
						w.exec(o, false)
						runtime.Gosched()
					}
				}(th)
			}
			close(start)
			wg.Wait()
		}
		res <- w.snapshot()
	}()
	select {
	case s := <-res:
		return s, strings.HasPrefix(s, "panic-in-stream-layer")
	case <-time.After(30 * time.Second):
		return "timeout", false
	}
}

// race: block a runs until its first UpdateAuth reaches the "connection authenticated" log line (on the current
// tree: inside the write-locked section, after the index was written); then block b runs on another goroutine.
// If b cannot finish while a is parked (it needs the registry lock a holds) the gate is released after a short wait,
// so on a tree where UpdateAuth is atomic the outcome is the order a;b. If the lookup and the indexing of UpdateAuth
// were ever separated, b lands between them.
func (w *world) race(a, b []op) {
	w.lg.armed.Store(true)
	aDone := make(chan struct{})
	go func() {
		defer close(aDone)
		for _, o := range a {
			w.exec(o, false)
		}
	}()
	select {
	case <-w.lg.reached:
	case <-aDone:
	case <-time.After(10 * time.Second):
		w.timedOut.Store(true)
	}
	bDone := make(chan struct{})
	go func() {
		defer close(bDone)
		for _, o := range b {
			w.exec(o, false)
		}
	}()
	select {
	case <-bDone:
	case <-time.After(25 * time.Millisecond):
	}
	if !w.lg.armed.CompareAndSwap(true, false) {
		close(w.lg.release) // a is (or was) parked at the line
	}
	for _, ch := range []chan struct{}{aDone, bDone} {
		select {
		case <-ch:
		case <-time.After(10 * time.Second):
			w.timedOut.Store(true)
		}
	}
}

type job struct {
	key     string // K: tag
	caseStr string
	obs     string
	tc      *tcase
}

// runAll executes the cases on a worker pool and emits them in generation order.
func runAll(out *vc.Out, jobs []*job) {
	workers := runtime.NumCPU()
	if workers > 8 {
		workers = 8
	}
	var wg sync.WaitGroup
	next := atomic.Int64{}
	for i := 0; i < workers; i++ {
		wg.Add(1)
		go func() {
			defer wg.Done()
			for {
				j := int(next.Add(1)) - 1
				if j >= len(jobs) {
					return
				}
				jobs[j].obs = runCase(jobs[j].tc)
			}
		}()
	}
	wg.Wait()
	for _, j := range jobs {
		emit(out, j)
	}
}

func emit(out *vc.Out, j *job) {
	key := ""
	nhs, nother := 0, 0
	all := append([][]op{j.tc.pre}, j.tc.threads...)
	for _, ops := range all {
		for _, o := range ops {
			switch o.k {
			case "H", "HS", "Q", "QS":
				nhs++
			case "A":
			default:
				nother++
			}
			out.Count("op_" + o.k)
		}
	}
	if nhs > 0 && nhs+nother >= 2 {
		key = j.caseStr
	}
	out.Count("kind_" + j.tc.kind)
	if strings.Contains(j.obs, " 0 ") || true {
		// distribution of what the lookups returned
		f := strings.Fields(j.obs)
		if len(f) > 0 && f[0] == "cl" {
			found := 0
			for i := 0; i < j.tc.m && 1+4*i < len(f); i++ {
				if f[1+4*i] != "-" {
					found++
				}
			}
			out.Count(fmt.Sprintf("clients_found_%d", found))
		} else {
			out.Count("obs_" + f[0])
		}
	}
	if j.key == "" && j.tc.kind == "par" && closedAnswer(j.tc, j.obs) {
		// signature of the recorded finding evict-close-window (see KNOWN_FINDINGS): some lookup by client id
		// answered a connection whose transport the server has closed
		j.key = "evict-close-window"
	}
	cs := j.caseStr
	if j.key != "" {
		cs = "K:" + j.key + " " + cs
	}
	out.Case(cs, j.obs, key)
}

// closedAnswer: does some `cl` answer name a connection whose `closed` flag is set?
func closedAnswer(tc *tcase, obs string) bool {
	f := strings.Fields(obs)
	if len(f) < 1+4*tc.m+1+5*tc.n || f[0] != "cl" || f[1+4*tc.m] != "cn" {
		return false
	}
	for x := 0; x < tc.m; x++ {
		if f[1+4*x] == "-" {
			continue
		}
		c, err := strconv.Atoi(f[1+4*x])
		if err != nil || c >= tc.n {
			continue
		}
		if f[1+4*tc.m+1+5*c+4] == "1" {
			return true
		}
	}
	return false
}

func mkJob(tc *tcase, key string) *job {
	return &job{key: key, caseStr: tc.String(), tc: tc}
}

// ---- generators

// alphabet of the exhaustive part (all connections accepted up front)
func alphabet(n, m int, full bool) []op {
	var al []op
	for c := 0; c < n; c++ {
		for x := 1; x <= m; x++ {
			al = append(al, op{k: "HS", a: c, b: x, t: "c"})
			al = append(al, op{k: "H", a: c, b: x, t: "c"})
			al = append(al, op{k: "HS", a: c, b: x, t: "t"})
		}
		al = append(al, op{k: "F", a: c}, op{k: "X", a: c}, op{k: "R", a: c}, op{k: "U", a: c}, op{k: "O", a: c}, op{k: "P", a: c})
		al = append(al, op{k: "XF", a: c}, op{k: "G", a: c, b: 0})
		if full {
			al = append(al, op{k: "HS", a: c, b: 0, t: "c"}, op{k: "QS", a: c, t: "c"}, op{k: "B", a: c}, op{k: "T", a: c})
			al = append(al, op{k: "RF", a: c}, op{k: "A", a: c})
			for x := 1; x <= m; x++ {
				al = append(al, op{k: "G", a: c, b: x})
			}
		}
	}
	for x := 1; x <= m; x++ {
		al = append(al, op{k: "K", a: x, b: 0}, op{k: "K", a: x, b: n})
	}
	al = append(al, op{k: "S"})
	if full {
		al = append(al, op{k: "SF"})
	}
	return al
}

// canonical: connections and clients appear in order of first use (symmetry reduction)
func canonical(seq []op, n int) bool {
	nc, nx := 0, 1
	for _, o := range seq {
		c, x := -1, -1
		switch o.k {
		case "S", "SF":
		case "K", "Kb":
			x = o.a
			if o.b < n {
				c = o.b
			}
		case "H", "HS", "G":
			c = o.a
			if o.b > 0 {
				x = o.b
			}
		default:
			c = o.a
		}
		if x > 0 {
			if x > nx {
				return false
			}
			if x == nx {
				nx++
			}
		}
		if c >= 0 {
			if c > nc {
				return false
			}
			if c == nc {
				nc++
			}
		}
	}
	return true
}

func genExhaustive(jobs *[]*job, kind string, n, m, capc, depth int, full bool) {
	al := alphabet(n, m, full)
	if kind == "adp" {
		for c := 0; c < n; c++ {
			al = append(al, op{k: "PF", a: c})
		}
	}
	var pre []op
	for c := 0; c < n; c++ {
		pre = append(pre, op{k: "A", a: c})
	}
	var rec func(seq []op)
	rec = func(seq []op) {
		if len(seq) > 0 {
			tc := &tcase{kind: kind, n: n, m: m, capc: capc, pre: append(append([]op{}, pre...), seq...)}
			*jobs = append(*jobs, mkJob(tc, ""))
		}
		if len(seq) == depth {
			return
		}
		for _, o := range al {
			next := append(append([]op{}, seq...), o)
			if canonical(next, n) {
				rec(next)
			}
		}
	}
	rec(nil)
}

func randOp(r *vc.Rand, n, m int, accepted []bool) op {
	c := r.Intn(n)
	x := 1 + r.Intn(m)
	t := "c"
	if r.Intn(6) == 0 {
		t = "t"
	}
	// mostly-valid: prefer accepted connections
	for tries := 0; tries < 3 && !accepted[c]; tries++ {
		c = r.Intn(n)
	}
	switch p := r.Intn(100); {
	case p < 12:
		for i := 0; i < n; i++ {
			if !accepted[i] {
				return op{k: "A", a: i}
			}
		}
		return op{k: "A", a: c}
	case p < 36:
		return op{k: "HS", a: c, b: x, t: t}
	case p < 44:
		return op{k: "H", a: c, b: x, t: t}
	case p < 52:
		return op{k: "F", a: c}
	case p < 55:
		return op{k: "HS", a: c, b: 0, t: t}
	case p < 58:
		return op{k: vc.Pick(r, []string{"Q", "QS"}), a: c, t: t}
	case p < 64:
		return op{k: "K", a: x, b: r.Intn(n + 1)}
	case p < 69:
		return op{k: vc.Pick(r, []string{"S", "S", "SF"})}
	case p < 75:
		return op{k: "O", a: c}
	case p < 79:
		return op{k: vc.Pick(r, []string{"B", "B", "BF"}), a: c}
	case p < 87:
		return op{k: vc.Pick(r, []string{"X", "X", "XF"}), a: c}
	case p < 91:
		return op{k: vc.Pick(r, []string{"R", "R", "RF"}), a: c}
	case p < 94:
		return op{k: "U", a: c}
	case p < 96:
		return op{k: "T", a: c}
	case p < 98:
		return op{k: "G", a: c, b: vc.Pick(r, []int{0, 0, x})}
	default:
		return op{k: vc.Pick(r, []string{"P", "P", "PF"}), a: c}
	}
}

func genRandom(jobs *[]*job, kind string, r *vc.Rand, count int) {
	for i := 0; i < count; i++ {
		n := 2 + r.Intn(3)
		m := 1 + r.Intn(3)
		capc := vc.Pick(r, []int{0, 0, 0, 2, 3, 1})
		l := 4 + r.Intn(12)
		accepted := make([]bool, n)
		var ops []op
		// usually open a few connections first
		k := r.Intn(n + 1)
		for c := 0; c < k; c++ {
			ops = append(ops, op{k: "A", a: c})
			accepted[c] = true
		}
		for len(ops) < l {
			o := randOp(r, n, m, accepted)
			if o.k == "A" {
				accepted[o.a] = true
			}
			ops = append(ops, o)
		}
		*jobs = append(*jobs, mkJob(&tcase{kind: kind, n: n, m: m, capc: capc, pre: ops}, ""))
	}
}

// concurrent blocks: handshakes of one connection stay in one thread (one read loop per connection)
func genPar(jobs *[]*job, r *vc.Rand, count int) {
	for i := 0; i < count; i++ {
		n := 2 + r.Intn(3)
		m := 1 + r.Intn(2)
		capc := vc.Pick(r, []int{0, 0, 0, 2})
		var pre []op
		for c := 0; c < n; c++ {
			pre = append(pre, op{k: "A", a: c})
		}
		for c := 0; c < n; c++ {
			if r.Intn(3) > 0 {
				pre = append(pre, op{k: "HS", a: c, b: 1 + r.Intn(m), t: "c"})
			}
			if r.Intn(5) == 0 {
				pre = append(pre, op{k: "O", a: c})
			}
		}
		nth := 2 + r.Intn(2)
		threads := make([][]op, nth)
		for t := range threads {
			l := 1 + r.Intn(4)
			for j := 0; j < l; j++ {
				c := r.Intn(n)
				x := 1 + r.Intn(m)
				switch p := r.Intn(100); {
				case p < 40:
					// handshakes of connection c only in thread c % nth
					threads[c%nth] = append(threads[c%nth], op{k: "HS", a: c, b: x, t: vc.Pick(r, []string{"c", "c", "c", "t"})})
				case p < 55:
					// teardown is what the connection's own read loop does when it ends
					threads[c%nth] = append(threads[c%nth], op{k: vc.Pick(r, []string{"X", "X", "XF"}), a: c})
				case p < 65:
					threads[t] = append(threads[t], op{k: "K", a: x, b: r.Intn(n + 1)})
				case p < 75:
					threads[t] = append(threads[t], op{k: vc.Pick(r, []string{"S", "S", "SF"})})
				case p < 83:
					threads[t] = append(threads[t], op{k: vc.Pick(r, []string{"R", "R", "RF"}), a: c})
				case p < 90:
					threads[t] = append(threads[t], op{k: "U", a: c})
				default:
					threads[t] = append(threads[t], op{k: "B", a: c})
				}
			}
		}
		*jobs = append(*jobs, mkJob(&tcase{kind: "par", n: n, m: m, capc: capc, pre: pre, threads: threads}, ""))
	}
}

// the recorded window: a snapshot taken between the auth handler's field writes and the index update
func genWindow(jobs *[]*job) {
	for _, s := range []string{
		"strict n 2 m 2 cap 0 ops A 0 HS 0 1 c H 0 2 c",
		"strict n 2 m 2 cap 0 ops A 0 A 1 HS 0 1 c HS 1 2 c H 0 2 c",
	} {
		tc, err := parseCase(s)
		if err != nil {
			panic(err)
		}
		*jobs = append(*jobs, mkJob(tc, "reauth-window"))
	}
	// the other recorded window: KickOldConnection closes the stream after it released the lock; a
	// handshake packet of the kicked connection handled in between re-registers and re-indexes it
	for _, s := range []string{
		"fine n 2 m 1 cap 0 ops A 0 HS 0 1 c Kb 1 1 HS 0 1 c Ke 0",
		"fine n 3 m 2 cap 0 ops A 0 A 1 HS 0 1 c HS 1 2 c Kb 2 2 HS 1 2 c Ke 1",
	} {
		tc, err := parseCase(s)
		if err != nil {
			panic(err)
		}
		*jobs = append(*jobs, mkJob(tc, "evict-close-window"))
	}
	// the same steps where nothing slips into the window: no finding
	for _, s := range []string{
		"fine n 2 m 1 cap 0 ops A 0 HS 0 1 c Kb 1 1 Ke 0 HS 0 1 c",
		"fine n 2 m 2 cap 0 ops A 0 A 1 HS 0 1 c Kb 1 1 HS 1 2 c Ke 0",
	} {
		tc, err := parseCase(s)
		if err != nil {
			panic(err)
		}
		*jobs = append(*jobs, mkJob(tc, ""))
	}
}

// race cases: a handshake of connection 0 parked inside UpdateAuth against one registry operation that
// evicts, removes or closes that same connection (or re-registers at the limit), after every short prefix
func genRace(jobs *[]*job, thorough bool) {
	preAl := []op{{k: "HS", a: 0, b: 1, t: "c"}, {k: "HS", a: 1, b: 1, t: "c"}, {k: "HS", a: 1, b: 2, t: "c"}, {k: "O", a: 0}}
	var pres [][]op
	pres = append(pres, nil)
	for _, p := range preAl {
		pres = append(pres, []op{p})
		if thorough {
			for _, q := range preAl {
				pres = append(pres, []op{p, q})
			}
		}
	}
	bs := []op{{k: "R", a: 0}, {k: "X", a: 0}, {k: "U", a: 0}, {k: "S"}, {k: "K", a: 1, b: 2}, {k: "K", a: 2, b: 2},
		{k: "G", a: 1, b: 0}, {k: "HS", a: 1, b: 1, t: "c"}, {k: "HS", a: 1, b: 2, t: "c"}, {k: "XF", a: 0}}
	for _, capc := range []int{0, 1} {
		for _, pre := range pres {
			for x := 1; x <= 2; x++ {
				for _, b := range bs {
					p := append([]op{{k: "A", a: 0}, {k: "A", a: 1}}, pre...)
					tc := &tcase{kind: "race", n: 2, m: 2, capc: capc, pre: p,
						threads: [][]op{{{k: "HS", a: 0, b: x, t: "c"}}, {b}}}
					*jobs = append(*jobs, mkJob(tc, ""))
				}
			}
		}
	}
}

func gen(out *vc.Out, r *vc.Rand, thorough bool) {
	var jobs []*job
	genWindow(&jobs)
	genRace(&jobs, thorough)
	if thorough {
		genExhaustive(&jobs, "seq", 3, 2, 0, 4, true)
		genExhaustive(&jobs, "seq", 3, 2, 2, 3, true)
		genExhaustive(&jobs, "seq", 2, 2, 1, 4, false)
		genRandom(&jobs, "seq", r.Fork(), 400000)
		genPar(&jobs, r.Fork(), 60000)
		genExhaustive(&jobs, "adp", 3, 2, 0, 3, true)
		genExhaustive(&jobs, "adp", 3, 2, 2, 3, false)
		genRandom(&jobs, "adp", r.Fork(), 150000)
	} else {
		genExhaustive(&jobs, "seq", 3, 2, 0, 3, true)
		genExhaustive(&jobs, "seq", 3, 2, 2, 2, true)
		genExhaustive(&jobs, "seq", 3, 1, 2, 3, false)
		genRandom(&jobs, "seq", r.Fork(), 20000)
		genPar(&jobs, r.Fork(), 2000)
		genExhaustive(&jobs, "adp", 3, 2, 0, 2, true)
		genExhaustive(&jobs, "adp", 2, 2, 1, 3, false)
		genRandom(&jobs, "adp", r.Fork(), 8000)
	}
	runAll(out, jobs)
}

func main() {
	tier := flag.String("tier", "quick", "")
	seed := flag.Uint64("seed", 1, "")
	stats := flag.String("stats", "", "")
	noGen := flag.Bool("nogen", false, "")
	flag.Parse()
	corelog.SetDefault(corelog.NewNopLogger())
	out := vc.NewOut()
	var jobs []*job
	for _, f := range flag.Args() {
		data, err := os.ReadFile(f)
		if err != nil {
			fmt.Fprintln(os.Stderr, err)
			os.Exit(3)
		}
		for _, line := range strings.Split(string(data), "\n") {
			line = strings.TrimSpace(line)
			if line == "" || strings.HasPrefix(line, "#") {
				continue
			}
			if i := strings.Index(line, " ## "); i >= 0 {
				line = line[:i]
			}
			key := ""
			if strings.HasPrefix(line, "K:") {
				k, rest, _ := strings.Cut(line, " ")
				key, line = k[2:], rest
			}
			tc, err := parseCase(line)
			if err != nil || !inUniverse(tc) {
				fmt.Fprintln(os.Stderr, "skipping unparsable corpus line:", line)
				continue
			}
			jobs = append(jobs, &job{key: key, caseStr: tc.String(), tc: tc})
			out.Count("corpus")
		}
	}
	runAll(out, jobs)
	if !*noGen {
		gen(out, vc.NewRand(*seed), *tier == "thorough")
	}
	out.Finish(*stats, map[string]any{"stream_close_race_panics_retried": streamRacePanics.Load()})
}
