//go:build verif

package main

import (
	"fmt"
	"net"
	"strings"

	vc "tunnox-core/internal/verifharness/common"
)

// neg is a structured negotiation: greeting, optional RFC 1929 sub-negotiation, request, trailing bytes.
type neg struct {
	gver     byte
	nm       int // declared NMETHODS; -1 = len(methods)
	methods  []byte
	auth     []byte // raw sub-negotiation (adapter with authentication only)
	rver     byte
	cmd      byte
	rsv      byte
	atyp     byte
	addr     []byte // raw address field (domain: length octet included)
	port     uint16
	trailing []byte
}

func (n neg) greetingLen() int { return 2 + len(n.methods) }

func (n neg) bytes() []byte {
	nm := n.nm
	if nm < 0 {
		nm = len(n.methods)
	}
	b := []byte{n.gver, byte(nm)}
	b = append(b, n.methods...)
	b = append(b, n.auth...)
	b = append(b, n.rver, n.cmd, n.rsv, n.atyp)
	b = append(b, n.addr...)
	b = append(b, byte(n.port>>8), byte(n.port))
	return append(b, n.trailing...)
}

// boundaries lists the offsets where one field ends and the next begins.
func (n neg) boundaries() []int {
	g := n.greetingLen() + len(n.auth)
	bs := []int{0, 1, 2, n.greetingLen(), g, g + 1, g + 2, g + 3, g + 4}
	if n.atyp == 3 && len(n.addr) > 0 {
		bs = append(bs, g+5)
	}
	bs = append(bs, g+4+len(n.addr), g+4+len(n.addr)+1, g+4+len(n.addr)+2)
	return bs
}

var ip4Pool = [][]byte{{0, 0, 0, 0}, {127, 0, 0, 1}, {10, 0, 0, 1}, {255, 255, 255, 255}, {192, 168, 1, 200}, {8, 8, 8, 8}, {1, 20, 100, 0}}

var ip6Pool = []string{"::", "::1", "2001:db8::1", "2001:4860:4860::8888", "fe80::1:2:3:4", "1:0:0:2:0:0:0:3", "1:0:0:0:2:0:0:3",
	"::ffff:1.2.3.4", "::ffff:0:0", "0:0:0:0:0:ffff::", "::fffe:1.2.3.4", "1::", "0:1::", "1:2:3:4:5:6:7:8", "1:2:3:4:5:6:7::",
	"ff02::fb", "64:ff9b::808:808", "0:0:1::", "::2:0:0:0", "a:0:0:b:0:0:0:0"}

func randIP4(r *vc.Rand) []byte {
	if r.Intn(2) == 0 {
		return append([]byte{}, vc.Pick(r, ip4Pool)...)
	}
	return r.Bytes(4)
}

func randIP6(r *vc.Rand) []byte {
	switch r.Intn(4) {
	case 0:
		return append([]byte{}, net.ParseIP(vc.Pick(r, ip6Pool)).To16()...)
	case 1: // sparse: zero runs exercise the text compression
		b := make([]byte, 16)
		for i := 0; i < 8; i++ {
			if r.Intn(3) == 0 {
				b[2*i] = byte(r.Intn(3)) * byte(r.Intn(256))
				b[2*i+1] = byte(r.Intn(256))
			}
		}
		return b
	case 2: // near IPv4-mapped
		b := make([]byte, 16)
		b[10], b[11] = 0xff, 0xff
		copy(b[12:], r.Bytes(4))
		if r.Intn(2) == 0 {
			b[r.Intn(12)] ^= byte(1 << r.Intn(8))
		}
		return b
	}
	return r.Bytes(16)
}

var nameAlpha = []byte("abcdefghijklmnopqrstuvwxyz0123456789-.")

var oddNames = []string{"", "a", "ab", "localhost", "example.com", "1.2.3.4", "::1", "0:0:0:0:0:0:0:1", "::ffff:1.2.3.4", "010.1.1.1",
	"1.2.3", "2001:DB8::1", "[::1]", "fe80::1%eth0", "a b", "\x00", "\xff\xfe", "xn--bcher-kva.example", "10.0.0.1", "256.1.1.1", "0x7f.1"}

func randName(r *vc.Rand, n int) []byte {
	b := make([]byte, n)
	switch r.Intn(6) {
	case 0:
		copy(b, r.Bytes(n)) // arbitrary octets, not UTF-8
	default:
		for i := range b {
			b[i] = nameAlpha[r.Intn(len(nameAlpha))]
		}
	}
	return b
}

func domAddr(name []byte) []byte { return append([]byte{byte(len(name))}, name...) }

func randAddr(r *vc.Rand) (byte, []byte) {
	switch r.Intn(6) {
	case 0, 1:
		return 1, randIP4(r)
	case 2:
		return 4, randIP6(r)
	case 3:
		return 3, domAddr([]byte(vc.Pick(r, oddNames)))
	default:
		n := vc.Pick(r, []int{0, 1, 2, 3, 9, 11, 15, 63, 64, 100, 253, 254, 255})
		if r.Intn(3) == 0 {
			n = r.Intn(256)
		}
		return 3, domAddr(randName(r, n))
	}
}

func ones(n int) []int {
	s := make([]int, n)
	for i := range s {
		s[i] = 1
	}
	return s
}

func randSizes(r *vc.Rand, total int) []int {
	var out []int
	for total > 0 {
		var n int
		switch r.Intn(4) {
		case 0:
			n = 1
		case 1:
			n = 1 + r.Intn(4)
		case 2:
			n = 1 + r.Intn(40)
		default:
			n = 1 + r.Intn(total)
		}
		if n > total {
			n = total
		}
		out = append(out, n)
		total -= n
	}
	return out
}

// fieldSizes cuts the stream exactly at the field boundaries.
func fieldSizes(n neg, total int) []int {
	var out []int
	prev := 0
	for _, b := range n.boundaries() {
		if b > prev && b <= total {
			out = append(out, b-prev)
			prev = b
		}
	}
	return out
}

func randChunking(r *vc.Rand, n neg, total int) ([]int, string) {
	switch r.Intn(6) {
	case 0:
		return nil, "whole"
	case 1:
		return ones(total), "one-byte"
	case 2:
		return fieldSizes(n, total), "fields"
	case 3:
		if total > 1 {
			c := 1 + r.Intn(total-1)
			return []int{c, total - c}, "single-cut"
		}
		return nil, "whole"
	}
	return randSizes(r, total), "random"
}

func validNeg(r *vc.Rand) neg {
	n := neg{gver: 5, nm: -1, rver: 5, cmd: 1, port: uint16(r.Intn(65536))}
	switch r.Intn(4) {
	case 0:
		n.methods = []byte{0}
	case 1:
		n.methods = []byte{0, 2}
	case 2:
		n.methods = []byte{2, 1, 0}
	default:
		n.methods = r.Bytes(1 + r.Intn(6))
		n.methods[r.Intn(len(n.methods))] = 0
	}
	if r.Intn(3) == 0 {
		n.cmd = 3
	}
	if r.Intn(8) == 0 {
		n.rsv = byte(r.Intn(256))
	}
	if r.Intn(6) == 0 {
		n.port = vc.Pick(r, []uint16{0, 1, 53, 80, 255, 256, 443, 853, 65535})
	}
	n.atyp, n.addr = randAddr(r)
	n.trailing = r.Bytes(r.Intn(4))
	return n
}

func truncPoints(r *vc.Rand, n neg, total int, all bool) []int {
	if all {
		p := make([]int, total)
		for i := range p {
			p[i] = i
		}
		return p
	}
	seen := map[int]bool{}
	var p []int
	add := func(k int) {
		if k >= 0 && k < total && !seen[k] {
			seen[k] = true
			p = append(p, k)
		}
	}
	for _, b := range n.boundaries() {
		add(b - 1)
		add(b)
	}
	add(r.Intn(total))
	add(r.Intn(total))
	return p
}

func genStreams(e *emitter, r *vc.Rand, thorough bool) {
	// (1) product of the small fields, one field at a time invalid and in pairs
	methodLists := [][]byte{{0}, {2}, {1, 0}, {2, 1}, {0, 0, 0}, {255}, {1, 2, 3, 0}}
	for _, gver := range []byte{5, 4, 0, 6, 255} {
		for _, ms := range methodLists {
			for _, rver := range []byte{5, 4, 0} {
				for _, cmd := range []byte{0, 1, 2, 3, 4, 255} {
					for _, atyp := range []byte{0, 1, 2, 3, 4, 5, 255} {
						if gver != 5 && (rver != 5 || (cmd != 1 && atyp != 1)) {
							continue // the rest of the stream is never looked at
						}
						n := neg{gver: gver, nm: -1, methods: ms, rver: rver, cmd: cmd, rsv: byte(r.Intn(2) * r.Intn(256)), atyp: atyp,
							port: uint16(r.Intn(65536)), trailing: r.Bytes(r.Intn(3))}
						switch atyp {
						case 3:
							n.addr = domAddr(randName(r, r.Intn(6)))
						case 4:
							n.addr = randIP6(r)
						default:
							n.addr = randIP4(r)
						}
						st := n.bytes()
						sz, kind := randChunking(r, n, len(st))
						e.both(st, sz, r.Intn(4) == 0, "fields/"+kind)
					}
				}
			}
		}
	}
	// (2) every domain length 0..255, every (quick: boundary) truncation point
	for l := 0; l <= 255; l++ {
		for _, cmd := range []byte{1, 3} {
			n := neg{gver: 5, nm: -1, methods: []byte{0}, rver: 5, cmd: cmd, atyp: 3, addr: domAddr(randName(r, l)),
				port: uint16(r.Intn(65536)), trailing: []byte{0xEE}}
			st := n.bytes()
			e.hs(st, nil, false, "domlen/whole")
			if cmd == 1 {
				e.ad(false, "", "", st, fieldSizes(n, len(st)), false, "domlen/fields")
			}
			sz, kind := randChunking(r, n, len(st))
			e.both(st, sz, r.Bool(), "domlen/"+kind)
			for _, k := range truncPoints(r, n, len(st)-1, thorough && cmd == 1) {
				sz, kind := randChunking(r, n, k)
				if cmd == 1 && k%2 == 0 {
					e.ad(false, "", "", st[:k], sz, r.Bool(), "domlen-trunc/"+kind)
				} else {
					e.hs(st[:k], sz, r.Bool(), "domlen-trunc/"+kind)
				}
			}
		}
	}
	// (3) short requests of each address type: every truncation point and every single cut
	for _, cmd := range []byte{1, 3} {
		for _, a := range []struct {
			atyp byte
			addr []byte
		}{{1, randIP4(r)}, {4, randIP6(r)}, {4, net.ParseIP("::ffff:9.8.7.6").To16()}, {3, domAddr(nil)}, {3, domAddr([]byte("a"))},
			{3, domAddr([]byte("ab"))}, {3, domAddr([]byte("host.example"))}} {
			for _, ms := range [][]byte{{0}, {2, 0}} {
				n := neg{gver: 5, nm: -1, methods: ms, rver: 5, cmd: cmd, atyp: a.atyp, addr: a.addr, port: uint16(r.Intn(65536)), trailing: []byte{1, 2}}
				st := n.bytes()
				msg := len(st) - 2
				for k := 0; k <= len(st); k++ {
					e.both(st[:k], nil, k%2 == 0, "trunc/whole")
					e.both(st[:k], ones(k), k%2 == 1, "trunc/one-byte")
				}
				for c := 1; c < len(st); c++ {
					e.both(st, []int{c, len(st) - c}, false, "cut/single-cut")
				}
				e.both(st[:msg], fieldSizes(n, msg), false, "exact/fields")
			}
		}
	}
	// (4) every NMETHODS 0..255; the no-auth method absent, first, last, somewhere; list cut short
	for nm := 0; nm <= 255; nm++ {
		for variant := 0; variant < 4; variant++ {
			ms := make([]byte, nm)
			for i := range ms {
				ms[i] = byte(1 + r.Intn(254))
			}
			if nm > 0 {
				switch variant {
				case 1:
					ms[0] = 0
				case 2:
					ms[nm-1] = 0
				case 3:
					ms[r.Intn(nm)] = 0
				}
			}
			n := validNeg(r)
			n.methods = ms
			st := n.bytes()
			sz, kind := randChunking(r, n, len(st))
			e.both(st, sz, false, "nmethods/"+kind)
			if nm > 0 && variant == 3 {
				k := 2 + r.Intn(nm)
				e.both(st[:k], nil, r.Bool(), "nmethods-trunc/whole")
			}
		}
	}
	// (5) mostly valid negotiations, mutated
	rounds := 2500
	if thorough {
		rounds = 60000
	}
	for i := 0; i < rounds; i++ {
		n := validNeg(r)
		st := n.bytes()
		kindm := "valid"
		switch r.Intn(8) {
		case 0: // flip one octet of the fixed parts
			j := r.Intn(min(len(st), n.greetingLen()+5))
			st[j] = byte(r.Intn(256))
			kindm = "mutated"
		case 1:
			st = st[:r.Intn(len(st)+1)]
			kindm = "truncated"
		case 2:
			n.nm = r.Intn(256)
			st = n.bytes()
			kindm = "nm-mismatch"
		case 3: // pipelined: application data follows immediately
			st = append(st, r.Bytes(1+r.Intn(300))...)
			kindm = "pipelined"
		}
		sz, kind := randChunking(r, n, len(st))
		e.both(st, sz, r.Intn(3) == 0, "random-"+kindm+"/"+kind)
	}
	// (6) arbitrary octets
	rounds = 600
	if thorough {
		rounds = 20000
	}
	for i := 0; i < rounds; i++ {
		st := r.Bytes(r.Intn(48))
		for j := range st {
			if r.Intn(3) == 0 {
				st[j] = byte(r.Intn(6))
			}
		}
		e.both(st, randSizes(r, len(st)), r.Bool(), "noise/random")
	}
}

// ---- adapter with user/password authentication (RFC 1929 between greeting and request)

func authMsg(ver byte, user, pass []byte) []byte {
	b := []byte{ver, byte(len(user))}
	b = append(b, user...)
	b = append(b, byte(len(pass)))
	return append(b, pass...)
}

func genAuth(e *emitter, r *vc.Rand, thorough bool) {
	creds := [][2]string{{"u", "p"}, {"testuser", "testpass"}, {"admin", "\x00\xff"}, {strings.Repeat("x", 255), strings.Repeat("y", 255)}}
	for _, c := range creds {
		user, pass := c[0], c[1]
		tries := []struct {
			name string
			msg  []byte
		}{
			{"right", authMsg(1, []byte(user), []byte(pass))},
			{"wrong-pass", authMsg(1, []byte(user), []byte(pass+"x")[1:])},
			{"wrong-user", authMsg(1, []byte("nobody"), []byte(pass))},
			{"swapped", authMsg(1, []byte(pass), []byte(user))},
			{"empty", authMsg(1, nil, nil)},
			{"bad-version", authMsg(5, []byte(user), []byte(pass))},
			{"bad-version0", authMsg(0, []byte(user), []byte(pass))},
			{"prefix-user", authMsg(1, []byte(user)[:len(user)-1], []byte(pass))},
		}
		for _, t := range tries {
			for _, ms := range [][]byte{{2}, {0, 2}, {0}, {1, 3}} {
				n := validNeg(r)
				n.methods, n.auth, n.cmd = ms, t.msg, 1
				st := n.bytes()
				sz, kind := randChunking(r, n, len(st))
				e.ad(true, user, pass, st, sz, false, "auth-"+t.name+"/"+kind)
				if len(st) < 80 {
					for k := 0; k < len(st); k++ {
						e.ad(true, user, pass, st[:k], nil, k%2 == 0, "auth-trunc/whole")
					}
					e.ad(true, user, pass, st, ones(len(st)), false, "auth-"+t.name+"/one-byte")
				} else {
					for _, k := range truncPoints(r, n, len(st), false) {
						e.ad(true, user, pass, st[:k], nil, r.Bool(), "auth-trunc/whole")
					}
				}
			}
		}
	}
	rounds := 400
	if thorough {
		rounds = 10000
	}
	for i := 0; i < rounds; i++ {
		c := vc.Pick(r, creds[:3])
		n := validNeg(r)
		n.methods, n.cmd = []byte{2}, byte(vc.Pick(r, []int{1, 1, 1, 2, 3}))
		u, p := []byte(c[0]), []byte(c[1])
		if r.Intn(4) == 0 {
			u = randName(r, r.Intn(256))
		}
		if r.Intn(4) == 0 {
			p = randName(r, r.Intn(256))
		}
		n.auth = authMsg(1, u, p)
		st := n.bytes()
		if r.Intn(6) == 0 {
			st = st[:r.Intn(len(st)+1)]
		}
		sz, kind := randChunking(r, n, len(st))
		e.ad(true, c[0], c[1], st, sz, r.Intn(3) == 0, "auth-random/"+kind)
	}
}

// ---- UDP datagram headers

type dgram struct {
	rsv     [2]byte
	frag    byte
	atyp    byte
	addr    []byte
	port    uint16
	payload []byte
}

func (d dgram) bytes() []byte {
	b := []byte{d.rsv[0], d.rsv[1], d.frag, d.atyp}
	b = append(b, d.addr...)
	b = append(b, byte(d.port>>8), byte(d.port))
	return append(b, d.payload...)
}

func genUDP(e *emitter, r *vc.Rand, thorough bool) {
	// (1) every ATYP octet x FRAG x RSV
	for atyp := 0; atyp < 256; atyp++ {
		for _, frag := range []byte{0, 1, 255} {
			for _, rsv := range [][2]byte{{0, 0}, {1, 0}, {255, 255}} {
				d := dgram{rsv: rsv, frag: frag, atyp: byte(atyp), port: uint16(r.Intn(65536)), payload: r.Bytes(r.Intn(5))}
				switch atyp {
				case 3:
					d.addr = domAddr(randName(r, r.Intn(5)))
				case 4:
					d.addr = randIP6(r)
				default:
					d.addr = randIP4(r)
				}
				e.udp(d.bytes(), "udp-fields")
			}
		}
	}
	// (2) every domain length x payload sizes x truncation points
	for l := 0; l <= 255; l++ {
		for _, pl := range []int{0, 1, 2, 9} {
			name := randName(r, l)
			if l > 0 && pl == 9 && r.Intn(4) == 0 && l <= 20 {
				name = []byte(vc.Pick(r, oddNames))
			}
			d := dgram{atyp: 3, addr: domAddr(name), port: uint16(r.Intn(65536)), payload: r.Bytes(pl)}
			b := d.bytes()
			e.udp(b, "udp-domlen")
			if thorough && pl <= 1 {
				for k := 0; k < len(b); k++ {
					e.udp(b[:k], "udp-domlen-trunc")
				}
			} else {
				h := len(b) - pl
				for _, k := range []int{h - 3, h - 2, h - 1, h, 5, 5 + r.Intn(l+1)} {
					if k >= 0 && k < len(b) {
						e.udp(b[:k], "udp-domlen-trunc")
					}
				}
			}
		}
	}
	for _, nm := range oddNames {
		d := dgram{atyp: 3, addr: domAddr([]byte(nm)), port: uint16(r.Intn(65536)), payload: r.Bytes(r.Intn(4))}
		e.udp(d.bytes(), "udp-oddname")
	}
	// (3) IPv4 / IPv6: every truncation point, several payload sizes, special addresses
	for _, a4 := range ip4Pool {
		for _, pl := range []int{0, 1, 3, 1400} {
			d := dgram{atyp: 1, addr: a4, port: uint16(r.Intn(65536)), payload: r.Bytes(pl)}
			b := d.bytes()
			e.udp(b, "udp-ip4")
			for k := 0; k < len(b) && k < 14; k++ {
				e.udp(b[:k], "udp-ip4-trunc")
			}
		}
	}
	for _, s := range ip6Pool {
		for _, pl := range []int{0, 1, 3} {
			d := dgram{atyp: 4, addr: net.ParseIP(s).To16(), port: uint16(r.Intn(65536)), payload: r.Bytes(pl)}
			b := d.bytes()
			e.udp(b, "udp-ip6")
			for k := 0; k < len(b) && pl == 1; k++ {
				e.udp(b[:k], "udp-ip6-trunc")
			}
		}
	}
	// (4) random datagrams, some mutated
	rounds := 3000
	if thorough {
		rounds = 80000
	}
	for i := 0; i < rounds; i++ {
		d := dgram{port: uint16(r.Intn(65536)), payload: r.Bytes(vc.Pick(r, []int{0, 1, 2, 5, 32, 512}))}
		d.atyp, d.addr = randAddr(r)
		if r.Intn(10) == 0 {
			d.rsv = [2]byte{byte(r.Intn(256)), byte(r.Intn(256))}
		}
		b := d.bytes()
		kind := "udp-random-valid"
		switch r.Intn(8) {
		case 0:
			b[r.Intn(min(len(b), 6))] = byte(r.Intn(256))
			kind = "udp-random-mutated"
		case 1:
			b = b[:r.Intn(len(b)+1)]
			kind = "udp-random-truncated"
		}
		e.udp(b, kind)
	}
	for i := 0; i < rounds/5; i++ {
		b := r.Bytes(r.Intn(30))
		for j := range b {
			if r.Intn(2) == 0 {
				b[j] = byte(r.Intn(5))
			}
		}
		e.udp(b, "udp-noise")
	}
}

// ---- buildUDPHeader then parseUDPHeader

func genBuild(e *emitter, r *vc.Rand, thorough bool) {
	ports := []int{0, 1, 53, 80, 255, 256, 443, 65535}
	var hosts []string
	hosts = append(hosts, oddNames...)
	hosts = append(hosts, ip6Pool...)
	for _, a := range ip4Pool {
		hosts = append(hosts, net.IP(a).String())
	}
	hosts = append(hosts, "0:0:0:0:0:0:0:0", "::FFFF:10.0.0.1", "2001:0db8:0000:0000:0000:0000:0000:0001", "1:2:3:4:5:6:1.2.3.4", "01.2.3.4", "1.2.3.4.", ".", "..", "a.")
	for _, h := range hosts {
		for _, p := range ports {
			e.ubp(h, p, r.Bytes(vc.Pick(r, []int{0, 1, 7})), "ubp-pool")
		}
	}
	// every name length 0..255 (and a few beyond the length octet: outside BuildWF, still compared with the model)
	for l := 0; l <= 300; l++ {
		if l > 255 && l%9 != 0 {
			continue
		}
		e.ubp(string(randName(r, l)), vc.Pick(r, ports), r.Bytes(r.Intn(4)), "ubp-namelen")
	}
	for _, p := range []int{65536, 65537, 70000, 1 << 20} {
		e.ubp("example.com", p, []byte{1}, "ubp-port-overflow")
	}
	rounds := 1500
	if thorough {
		rounds = 40000
	}
	for i := 0; i < rounds; i++ {
		var h string
		switch r.Intn(5) {
		case 0:
			h = net.IP(randIP4(r)).String()
		case 1:
			h = net.IP(randIP6(r)).String()
		case 2: // non-canonical IPv6 spelling
			b := randIP6(r)
			var parts []string
			for j := 0; j < 8; j++ {
				parts = append(parts, fmt.Sprintf(vc.Pick(r, []string{"%x", "%04x", "%X"}), int(b[2*j])<<8|int(b[2*j+1])))
			}
			h = strings.Join(parts, ":")
		default:
			h = string(randName(r, vc.Pick(r, []int{1, 3, 11, 64, 255, r.Intn(256)})))
		}
		e.ubp(h, r.Intn(65536), r.Bytes(vc.Pick(r, []int{0, 1, 16, 600})), "ubp-random")
	}
}
