//go:build verif

package main

import (
	"context"
	"errors"
	"fmt"
	"net"
	"runtime"
	"sort"
	"strconv"
	"strings"
	"sync"
	"time"

	"tunnox-core/internal/client/socks5"
	vc "tunnox-core/internal/verifharness/common"
)

// Relay cases: datagrams sent to the UDP socket of a real UDPRelay (readLoop + one handlePacket
// goroutine per datagram); the observation is every SendPacket the tunnel doubles received.
//
//	relay <paced|burst|gated> <dns 0|1> T ds <n> <datagram>*n
//	  ##  fw <m> (<host> <port> <payload>)*m dq <k> (<server> <query>)*k rx <j> <datagram>*j      (each list sorted)
//
// fw: SendPacket calls of the tunnel doubles; dq: QueryDNS calls of the DNS-handler double (installed
// when dns=1); rx: datagrams the application socket received back. The doubles answer every packet:
// a tunnel with A5 ++ payload (through ReceivePacket -> receiveLoop), the DNS handler with D5 ++ query.
//
// paced: each datagram is delivered to its tunnel before the next one is sent.
// burst: GOMAXPROCS(1) and all datagrams written before the harness yields, so readLoop drains the
//        socket before any goroutine it started has executed a single instruction.
// gated: the tunnel doubles block in SendPacket until every distinct destination has arrived (the
//        reader has then consumed the burst while the handlers sit between parse and send); the
//        bytes are taken when the gate opens, as a tunnel that uses its argument during the call.

type relayCreator struct {
	mu      sync.Mutex
	recv    []string
	dq      []string
	want    int // packets expected (valid datagrams)
	full    chan struct{}
	gate    chan struct{} // nil = no gate
	gateN   int           // blocked arrivals needed to open the gate
	blocked int
	opened  bool
}

type relayTunnel struct {
	c    *relayCreator
	host string
	port int
	resp chan []byte
	done chan struct{}
	once sync.Once
}

func (c *relayCreator) CreateUDPTunnel(mappingID string, targetClientID int64, host string, port int, secret string) (socks5.UDPTunnelConn, error) {
	return &relayTunnel{c: c, host: host, port: port, resp: make(chan []byte, 64), done: make(chan struct{})}, nil
}

// QueryDNS: the DNS-handler double (control channel).
func (c *relayCreator) QueryDNS(targetClientID int64, dnsServer string, rawQuery []byte) ([]byte, error) {
	q := append([]byte(nil), rawQuery...)
	c.mu.Lock()
	c.dq = append(c.dq, vc.Hex([]byte(dnsServer))+" "+vc.Hex(q))
	if len(c.recv)+len(c.dq) == c.want {
		close(c.full)
	}
	c.mu.Unlock()
	return append([]byte{0xD5}, q...), nil
}

func (c *relayCreator) open() {
	if c.gate != nil && !c.opened {
		c.opened = true
		close(c.gate)
	}
}

func (t *relayTunnel) SendPacket(data []byte) error {
	c := t.c
	if c.gate != nil {
		c.mu.Lock()
		c.blocked++
		if c.blocked >= c.gateN {
			c.open()
		}
		c.mu.Unlock()
		<-c.gate
	}
	rec := fmt.Sprintf("%s %d %s", vc.Hex([]byte(t.host)), t.port, vc.Hex(data))
	c.mu.Lock()
	c.recv = append(c.recv, rec)
	if len(c.recv)+len(c.dq) == c.want {
		close(c.full)
	}
	c.mu.Unlock()
	select {
	case t.resp <- append([]byte{0xA5}, data...):
	default:
	}
	return nil
}
func (t *relayTunnel) ReceivePacket() ([]byte, error) {
	select {
	case r := <-t.resp:
		return r, nil
	case <-t.done:
		return nil, net.ErrClosed
	}
}
func (t *relayTunnel) Close() error                   { t.once.Do(func() { close(t.done) }); return nil }

func (c *relayCreator) count() int {
	c.mu.Lock()
	defer c.mu.Unlock()
	return len(c.recv) + len(c.dq)
}

func sortedList(hdr string, xs []string) string {
	sort.Strings(xs)
	o := hdr + " " + strconv.Itoa(len(xs))
	if len(xs) > 0 {
		o += " " + strings.Join(xs, " ")
	}
	return o
}

func execRelay(mode string, dns bool, ds [][]byte) (string, string) {
	tb := newTables()
	hexes := make([]string, len(ds))
	valid := make([]bool, len(ds))
	dests := map[string]bool{}
	nvalid := 0
	for i, d := range ds {
		tb.scan(d)
		hexes[i] = vc.Hex(d)
		if h, p, _, err := socks5.VerifParseUDPHeader(d); err == nil {
			valid[i] = true
			nvalid++
			tb.host(h)
			if !(dns && p == 53) {
				dests[fmt.Sprintf("%s:%d", h, p)] = true
			}
		}
	}
	obs := guarded(func() string {
		if mode == "burst" {
			old := runtime.GOMAXPROCS(1)
			defer runtime.GOMAXPROCS(old)
		}
		cr := &relayCreator{want: nvalid, full: make(chan struct{})}
		if nvalid == 0 {
			close(cr.full)
		}
		if mode == "gated" && len(dests) > 0 {
			cr.gate = make(chan struct{})
			cr.gateN = len(dests)
		}
		ctx, cancel := context.WithCancel(context.Background())
		defer cancel()
		tcpA, tcpB := net.Pipe()
		defer tcpA.Close()
		defer tcpB.Close()
		relay, err := socks5.NewUDPRelay(ctx, tcpA, &socks5.UDPRelayConfig{MappingID: "m", TargetClientID: 7, BindAddr: "127.0.0.1:0"}, cr)
		if err != nil {
			return "relay-error " + strings.ReplaceAll(err.Error(), " ", "_")
		}
		defer relay.Close()
		if dns {
			relay.SetDNSHandler(cr)
		}
		app, err := net.DialUDP("udp", nil, relay.GetBindAddr())
		if err != nil {
			return "dial-error " + strings.ReplaceAll(err.Error(), " ", "_")
		}
		defer app.Close()
		sent := 0
		for i, d := range ds {
			if _, err := app.Write(d); err != nil {
				return "write-error " + strings.ReplaceAll(err.Error(), " ", "_")
			}
			if mode == "paced" && valid[i] {
				sent++
				deadline := time.Now().Add(3 * time.Second)
				for cr.count() < sent && time.Now().Before(deadline) {
					runtime.Gosched()
					if cr.count() < sent {
						time.Sleep(50 * time.Microsecond)
					}
				}
			}
		}
		t := time.NewTimer(3 * time.Second)
		select {
		case <-cr.full:
		case <-t.C:
			cr.mu.Lock()
			cr.open() // never leave goroutines blocked behind the gate
			cr.mu.Unlock()
			time.Sleep(20 * time.Millisecond)
		}
		t.Stop()
		// what comes back to the application: one datagram per answer
		var rx []string
		buf := make([]byte, 65536)
		app.SetReadDeadline(time.Now().Add(3 * time.Second))
		for len(rx) < nvalid {
			n, err := app.Read(buf)
			if err != nil {
				break
			}
			rx = append(rx, vc.Hex(buf[:n]))
			tb.scan(buf[:n]) // answers to names that spell an IPv6 literal come back under the address
		}
		cr.mu.Lock()
		got := append([]string(nil), cr.recv...)
		dq := append([]string(nil), cr.dq...)
		cr.open()
		cr.mu.Unlock()
		return sortedList("fw", got) + " " + sortedList("dq", dq) + " " + sortedList("rx", rx)
	})
	cs := vc.Join("relay", mode, b01(dns), tb.String(), "ds", strconv.Itoa(len(ds)))
	if len(ds) > 0 {
		cs += " " + strings.Join(hexes, " ")
	}
	return cs, obs
}

func (e *emitter) relay(mode string, dns bool, ds [][]byte, kind string) {
	cs, obs := execRelay(mode, dns, ds)
	e.emit("", "relay-"+mode, cs, obs, kind)
}

// parseRelayToks: relay <mode> <dns> ds <n> <hex>*n (tables already stripped).
func parseRelayToks(toks []string) (string, bool, [][]byte, error) {
	if len(toks) < 5 || toks[3] != "ds" {
		return "", false, nil, errors.New("relay <mode> <dns> ds <n> <hex>… expected")
	}
	n, err := strconv.Atoi(toks[4])
	if err != nil || len(toks) != 5+n {
		return "", false, nil, errors.New("bad datagram count")
	}
	switch toks[1] {
	case "paced", "burst", "gated":
	default:
		return "", false, nil, errors.New("unknown relay mode " + toks[1])
	}
	var ds [][]byte
	for _, h := range toks[5:] {
		ds = append(ds, vc.UnHex(h))
	}
	return toks[1], toks[2] == "1", ds, nil
}

// ---- generator

func relayDatagram(r *vc.Rand, i int) []byte {
	d := dgram{port: uint16(1 + r.Intn(65535)), payload: r.Bytes(vc.Pick(r, []int{0, 1, 2, 5, 17, 100, 700, 1400}))}
	switch r.Intn(6) {
	case 0: // few destinations: several datagrams share a session (and its sendMu)
		d.atyp, d.addr, d.port = 1, []byte{10, 0, 0, byte(1 + r.Intn(2))}, uint16(8000+r.Intn(2))
	case 1:
		d.atyp, d.addr = 3, domAddr([]byte(fmt.Sprintf("h%d.example", i)))
	case 2:
		d.atyp, d.addr = 4, randIP6(r)
	case 3: // DNS port: to the DNS handler when one is installed, else to the tunnel; sometimes the virtual DNS address
		d.atyp, d.addr, d.port = 1, randIP4(r), 53
		if r.Intn(2) == 0 {
			d.addr = []byte{10, 0, 0, 1}
		}
	default:
		d.atyp, d.addr = randAddr(r)
	}
	b := d.bytes()
	switch r.Intn(12) {
	case 0:
		b[2] = byte(1 + r.Intn(255)) // fragment: dropped
	case 1:
		b = b[:r.Intn(len(b))] // truncated somewhere
	case 2:
		b[3] = vc.Pick(r, []byte{0, 2, 5, 255}) // unknown ATYP
	}
	return b
}

func genRelay(e *emitter, r *vc.Rand, thorough bool) {
	// the two-datagram shapes first: equal/shorter/longer second datagram, same and different destination
	hdrA := []byte{0, 0, 0, 1, 10, 1, 2, 3, 0x23, 0x28}
	hdrB := []byte{0, 0, 0, 3, 4, 'p', 'e', 'e', 'r', 0, 53}
	for _, mode := range []string{"paced", "burst", "gated"} {
		for _, la := range []int{0, 1, 8, 300} {
			for _, lb := range []int{0, 1, 8, 300} {
				pa, pb := r.Bytes(la), r.Bytes(lb)
				e.relay(mode, lb%2 == 1, [][]byte{append(append([]byte{}, hdrA...), pa...), append(append([]byte{}, hdrB...), pb...)}, "relay-pair")
				e.relay(mode, false, [][]byte{append(append([]byte{}, hdrA...), pa...), append(append([]byte{}, hdrA...), pb...)}, "relay-pair-same-dest")
			}
		}
		e.relay(mode, false, nil, "relay-empty")
		e.relay(mode, true, [][]byte{{0, 0, 1, 1}}, "relay-only-invalid")
		dup := append(append([]byte{}, hdrA...), 9, 9, 9)
		e.relay(mode, false, [][]byte{dup, dup, dup}, "relay-duplicates")
		// names that spell IP literals: the answer comes back under the canonical address
		for _, nm := range []string{"0:0:0:0:0:0:0:1", "::ffff:1.2.3.4", "1.2.3.4", "2001:DB8::1", "010.1.1.1"} {
			d := dgram{atyp: 3, addr: domAddr([]byte(nm)), port: 4000, payload: []byte{1, 2}}
			e.relay(mode, false, [][]byte{d.bytes()}, "relay-literal-name")
		}
	}
	// the largest datagram whose answer (one octet longer) still fits a UDP datagram; the read buffer is 65535
	big := dgram{atyp: 1, addr: []byte{10, 7, 7, 7}, port: 7, payload: r.Bytes(65506 - 10)}
	e.relay("paced", false, [][]byte{big.bytes(), append(append([]byte{}, hdrA...), 1)}, "relay-max-datagram")
	e.relay("burst", false, [][]byte{append(append([]byte{}, hdrA...), 1), big.bytes(), append(append([]byte{}, hdrB...), 2)}, "relay-max-datagram")
	rounds := 60
	if thorough {
		rounds = 900
	}
	for i := 0; i < rounds; i++ {
		for _, mode := range []string{"paced", "burst", "gated"} {
			k := vc.Pick(r, []int{2, 3, 4, 6, 9, 16})
			if mode == "paced" && k > 6 {
				k = 6
			}
			var ds [][]byte
			for j := 0; j < k; j++ {
				ds = append(ds, relayDatagram(r, j))
			}
			if mode == "gated" {
				// last datagram: valid, with a destination of its own, so that its arrival at the
				// gate tells that the reader has consumed the whole burst
				ds = append(ds, append([]byte{0, 0, 0, 1, 127, 9, 9, 9, 0, 9}, r.Bytes(3)...))
			}
			e.relay(mode, r.Intn(3) == 0, ds, "relay-random")
		}
	}
}
