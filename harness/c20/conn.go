//go:build verif

package main

import (
	"context"
	"errors"
	"fmt"
	"io"
	"net"
	"strconv"
	"strings"
	"sync"
	"time"

	"tunnox-core/internal/client/socks5"
	"tunnox-core/internal/cloud/models"
	vc "tunnox-core/internal/verifharness/common"
)

// conn / live cases: the real Listener.handleConnection with creator doubles.
//
//	conn <tail> cfg <mapping> <target> <secret> <hasTunnel> <tunnelOk> <hasRelay> <relayOk> <bindIP> <bindPort> T st <stream> ch <n> <size>*n
//	live …same…   the listener is created and started by a real socks5.Manager (AddMapping), the stream is
//	              sent over loopback TCP in the given pieces, then the write side is closed
//	## ev <k> (tunnel <mapping> <target> <host> <port> <secret> <data> | relay <mapping> <target> <secret>)*k w <written> closed <0|1>

type connCfg struct {
	mapping            string
	target             int64
	secret             string
	hasTunnel, tunnelOk bool
	hasRelay, relayOk   bool
	bindIP             []byte
	bindPort           int
}

func b01(b bool) string {
	if b {
		return "1"
	}
	return "0"
}

func (c connCfg) String() string {
	return vc.Join("cfg", vc.Hex([]byte(c.mapping)), strconv.FormatInt(c.target, 10), vc.Hex([]byte(c.secret)),
		b01(c.hasTunnel), b01(c.tunnelOk), b01(c.hasRelay), b01(c.relayOk), vc.Hex(c.bindIP), strconv.Itoa(c.bindPort))
}

var errDouble = errors.New("verif: creator double refuses")

const liveMarker = "\x00TUNNEL-OWNS-THE-CONNECTION\x00"

type connDoubles struct {
	mu   sync.Mutex
	cfg  connCfg
	live bool
	evs  []string
}

func (d *connDoubles) add(s string) { d.mu.Lock(); d.evs = append(d.evs, s); d.mu.Unlock() }

// CreateSOCKS5Tunnel: the tunnel owns userConn from here: everything still unread is its payload.
func (d *connDoubles) CreateSOCKS5Tunnel(userConn net.Conn, mappingID string, targetClientID int64, targetHost string, targetPort int, secretKey string, onSuccess func()) error {
	userConn.SetReadDeadline(time.Now().Add(5 * time.Second))
	data, _ := io.ReadAll(userConn)
	d.add(fmt.Sprintf("tunnel %s %d %s %d %s %s", vc.Hex([]byte(mappingID)), targetClientID, vc.Hex([]byte(targetHost)), targetPort, vc.Hex([]byte(secretKey)), vc.Hex(data)))
	if !d.cfg.tunnelOk {
		return errDouble
	}
	onSuccess()
	if d.live {
		userConn.Write([]byte(liveMarker)) // tells the client that the listener left the connection open
		userConn.Close()
	}
	return nil
}

func (d *connDoubles) CreateUDPRelay(tcpConn net.Conn, mappingID string, targetClientID int64, secretKey string) (*net.UDPAddr, error) {
	d.add(fmt.Sprintf("relay %s %d %s", vc.Hex([]byte(mappingID)), targetClientID, vc.Hex([]byte(secretKey))))
	if !d.cfg.relayOk {
		return nil, errDouble
	}
	return &net.UDPAddr{IP: net.IP(d.cfg.bindIP), Port: d.cfg.bindPort}, nil
}

type closeConn struct {
	fakeConn
	closed bool
}

func (c *closeConn) Close() error { c.closed = true; return nil }

func (d *connDoubles) obs(written []byte, closed bool) string {
	d.mu.Lock()
	defer d.mu.Unlock()
	s := "ev " + strconv.Itoa(len(d.evs))
	if len(d.evs) > 0 {
		s += " " + strings.Join(d.evs, " ")
	}
	return s + " w " + vc.Hex(written) + " closed " + b01(closed)
}

func execConn(cfg connCfg, stream []byte, sizes []int, tailErr bool) (string, string) {
	tb := newTables()
	tb.scan(stream)
	cs := vc.Join("conn", tailStr(tailErr), cfg.String(), tb.String(), "st", vc.Hex(stream), sizesStr(sizes))
	obs := guarded(func() string {
		d := &connDoubles{cfg: cfg}
		var tc socks5.TunnelCreator
		if cfg.hasTunnel {
			tc = d
		}
		l := socks5.NewListener(context.Background(), &socks5.ListenerConfig{ListenAddr: "127.0.0.1:0", MappingID: cfg.mapping,
			TargetClientID: cfg.target, SecretKey: cfg.secret}, tc)
		if cfg.hasRelay {
			l.SetUDPRelayCreator(d)
		}
		conn := &closeConn{fakeConn: fakeConn{r: vc.NewChunkReader(stream, sizes, tailErr)}}
		l.VerifHandleConnection(conn)
		return d.obs(conn.w.Bytes(), conn.closed)
	})
	return cs, obs
}

// execLive: Manager.AddMapping starts the listener; a real TCP client plays the application.
func execLive(cfg connCfg, stream []byte, sizes []int) (string, string) {
	tb := newTables()
	tb.scan(stream)
	cs := vc.Join("live", "eof", cfg.String(), tb.String(), "st", vc.Hex(stream), sizesStr(sizes))
	obs := guarded(func() string {
		d := &connDoubles{cfg: cfg, live: true}
		var tc socks5.TunnelCreator
		if cfg.hasTunnel {
			tc = d
		}
		ctx, cancel := context.WithCancel(context.Background())
		defer cancel()
		m := socks5.NewManager(ctx, 7, tc)
		if cfg.hasRelay {
			m.SetUDPRelayCreator(d)
		}
		pm := &models.PortMapping{ID: cfg.mapping, Protocol: models.ProtocolSOCKS, ListenClientID: 7,
			TargetClientID: cfg.target, SourcePort: 0, SecretKey: cfg.secret}
		if err := m.AddMapping(pm); err != nil {
			return "addmapping-error " + strings.ReplaceAll(err.Error(), " ", "_")
		}
		defer m.RemoveMapping(cfg.mapping)
		l, ok := m.GetMapping(cfg.mapping)
		if !ok || len(m.ListMappings()) != 1 {
			return "mapping-not-registered"
		}
		_, port, err := net.SplitHostPort(l.GetListenAddr())
		if err != nil {
			return "listen-addr-error " + l.GetListenAddr()
		}
		c, err := net.Dial("tcp", net.JoinHostPort("127.0.0.1", port))
		if err != nil {
			return "dial-error " + strings.ReplaceAll(err.Error(), " ", "_")
		}
		defer c.Close()
		c.(*net.TCPConn).SetNoDelay(true)
		rest := stream
		for _, n := range sizes {
			if n > len(rest) {
				n = len(rest)
			}
			if n > 0 {
				c.Write(rest[:n])
				rest = rest[n:]
			}
		}
		if len(rest) > 0 {
			c.Write(rest)
		}
		c.(*net.TCPConn).CloseWrite()
		c.SetReadDeadline(time.Now().Add(5 * time.Second))
		got, rerr := io.ReadAll(c)
		closed := true // EOF or reset (closed with our trailing bytes unread): somebody closed
		var ne net.Error
		if errors.As(rerr, &ne) && ne.Timeout() {
			closed = false // deadline: still open
		}
		if strings.HasSuffix(string(got), liveMarker) {
			got = got[:len(got)-len(liveMarker)]
			closed = false // closed by the tunnel double, not by the listener
		}
		return d.obs(got, closed)
	})
	return cs, obs
}

func (e *emitter) conn(cfg connCfg, stream []byte, sizes []int, tailErr bool, kind string) {
	cs, obs := execConn(cfg, stream, sizes, tailErr)
	e.emit("", "conn", cs, obs, kind)
}

func (e *emitter) live(cfg connCfg, stream []byte, sizes []int, kind string) {
	cs, obs := execLive(cfg, stream, sizes)
	e.emit("", "live", cs, obs, kind)
}

// parseConnToks: (conn|live) <tail> cfg … st <hex> ch … (tables already stripped).
func parseConnToks(toks []string) (connCfg, []byte, []int, bool, error) {
	var cfg connCfg
	if len(toks) < 13 || toks[2] != "cfg" {
		return cfg, nil, nil, false, errors.New("conn <tail> cfg <9 fields> st … expected")
	}
	t, err := strconv.ParseInt(toks[4], 10, 64)
	if err != nil {
		return cfg, nil, nil, false, err
	}
	bp, err := strconv.Atoi(toks[11])
	if err != nil {
		return cfg, nil, nil, false, err
	}
	cfg = connCfg{mapping: string(vc.UnHex(toks[3])), target: t, secret: string(vc.UnHex(toks[5])), hasTunnel: toks[6] == "1",
		tunnelOk: toks[7] == "1", hasRelay: toks[8] == "1", relayOk: toks[9] == "1", bindIP: vc.UnHex(toks[10]), bindPort: bp}
	st, sizes, err := parseStreamToks(toks[12:])
	return cfg, st, sizes, toks[1] == "err", err
}

// ---- generator

func randCfg(r *vc.Rand) connCfg {
	cfg := connCfg{mapping: vc.Pick(r, []string{"m", "pm_8f3a21", "mapping with space", "映射"}), target: int64(1 + r.Intn(1<<30)),
		secret: vc.Pick(r, []string{"", "s3cr3t", "k\x00\xff"}), hasTunnel: r.Intn(8) != 0, tunnelOk: r.Intn(4) != 0,
		hasRelay: r.Intn(5) != 0, relayOk: r.Intn(4) != 0, bindPort: vc.Pick(r, []int{0, 1, 255, 256, 1080, 40000, 65535})}
	switch r.Intn(5) {
	case 0:
		cfg.bindIP = net.ParseIP("::ffff:10.9.8.7").To16()
	case 1:
		cfg.bindIP = net.ParseIP(vc.Pick(r, []string{"::1", "2001:db8::5", "::"})).To16()
	default:
		cfg.bindIP = randIP4(r)
	}
	return cfg
}

func genConn(e *emitter, r *vc.Rand, thorough bool) {
	// every combination of creator behaviour x command x address type, data pipelined behind the request
	for hm := 0; hm < 16; hm++ {
		for _, cmd := range []byte{1, 3} {
			for _, at := range []byte{1, 3, 4} {
				cfg := randCfg(r)
				cfg.hasTunnel, cfg.tunnelOk, cfg.hasRelay, cfg.relayOk = hm&1 != 0, hm&2 != 0, hm&4 != 0, hm&8 != 0
				n := validNeg(r)
				n.cmd, n.atyp = cmd, at
				switch at {
				case 1:
					n.addr = randIP4(r)
				case 3:
					n.addr = domAddr(randName(r, 1+r.Intn(20)))
				default:
					n.addr = randIP6(r)
				}
				n.trailing = r.Bytes(vc.Pick(r, []int{0, 1, 5, 300}))
				st := n.bytes()
				sz, kind := randChunking(r, n, len(st))
				e.conn(cfg, st, sz, r.Intn(3) == 0, "conn-matrix/"+kind)
			}
		}
	}
	// the listener's DoT interception and its neighbours
	for _, host := range [][]byte{{10, 0, 0, 1}, {10, 0, 0, 2}} {
		for _, port := range []uint16{853, 852, 53} {
			cfg := randCfg(r)
			cfg.hasTunnel, cfg.tunnelOk = true, true
			n := neg{gver: 5, nm: -1, methods: []byte{0}, rver: 5, cmd: 1, atyp: 1, addr: host, port: port, trailing: []byte{1, 2, 3}}
			e.conn(cfg, n.bytes(), nil, false, "conn-dot")
			n.atyp, n.addr = 3, domAddr([]byte(net.IP(host).String())) // same text as a domain name
			e.conn(cfg, n.bytes(), ones(len(n.bytes())), false, "conn-dot")
			n.atyp, n.addr = 4, net.IP(host).To16() // IPv4-mapped: same text again
			e.conn(cfg, n.bytes(), nil, false, "conn-dot")
		}
	}
	rounds := 1200
	if thorough {
		rounds = 25000
	}
	for i := 0; i < rounds; i++ {
		cfg := randCfg(r)
		n := validNeg(r)
		st := n.bytes()
		kindm := "valid"
		switch r.Intn(8) {
		case 0:
			j := r.Intn(min(len(st), n.greetingLen()+5))
			st[j] = byte(r.Intn(256))
			kindm = "mutated"
		case 1:
			st = st[:r.Intn(len(st)+1)]
			kindm = "truncated"
		case 2:
			st = append(st, r.Bytes(1+r.Intn(2000))...)
			kindm = "pipelined"
		}
		sz, kind := randChunking(r, n, len(st))
		e.conn(cfg, st, sz, r.Intn(3) == 0, "conn-"+kindm+"/"+kind)
	}
	// the same through Manager.AddMapping -> Listener.Start -> acceptLoop over loopback TCP
	lives := 12
	if thorough {
		lives = 80
	}
	for i := 0; i < lives; i++ {
		cfg := randCfg(r)
		cfg.mapping = fmt.Sprintf("live-%d", i)
		n := validNeg(r)
		if i%4 == 3 {
			n.cmd = 3
			cfg.relayOk = cfg.relayOk && i%8 == 3 // an open UDP association keeps the TCP connection: one slow case in eight
		} else {
			n.cmd = 1
		}
		n.trailing = nil
		if n.cmd == 1 && cfg.hasTunnel {
			// only where the tunnel double drains the connection: a close with unread bytes is a TCP reset,
			// which may overtake the replies on their way to the client
			n.trailing = r.Bytes(vc.Pick(r, []int{0, 3, 700}))
		}
		st := n.bytes()
		if i%6 == 5 {
			st = st[:r.Intn(len(st))]
		}
		e.live(cfg, st, fieldSizes(n, len(st)), "live")
	}
}
