//go:build verif

// Harness for C20 (SOCKS5 parsing per RFC 1928).
//
//	c20 -tier quick|thorough -seed N [-stats file] [-nogen] [corpus files…]
//
// Drives the real Listener.Handshake, SocksAdapter.handleHandshake+handleRequest,
// UDPRelay.parseUDPHeader and buildUDPHeader.  One line per case:
//
//	[K:key ]<case tokens> ## <observation tokens>
//
// Case formats (T = "t6 <k> (<addr16> <text>)*k pt <m> (<host> <parsed|!>)*m", the values of
// net.IP.String / net.ParseIP measured for the case; recomputed on replay):
//
//	hs <tail> T st <stream> ch <n> <size>*n
//	ad <0|1> <user> <pass> <tail> T st <stream> ch <n> <size>*n
//	udp T d <datagram>
//	ubp T h <host> p <port> pl <payload>
//	relay <paced|burst|gated> T ds <n> <datagram>*n     (see relay.go)
package main

import (
	"bytes"
	"context"
	"errors"
	"flag"
	"fmt"
	"net"
	"os"
	"strconv"
	"strings"
	"time"

	"tunnox-core/internal/client/socks5"
	coreerrors "tunnox-core/internal/core/errors"
	"tunnox-core/internal/protocol/adapter"
	vc "tunnox-core/internal/verifharness/common"
)

// ---- fake application connection

type fakeConn struct {
	r *vc.ChunkReader
	w bytes.Buffer
}

func (c *fakeConn) Read(p []byte) (int, error)         { return c.r.Read(p) }
func (c *fakeConn) Write(p []byte) (int, error)        { return c.w.Write(p) }
func (c *fakeConn) Close() error                       { return nil }
func (c *fakeConn) LocalAddr() net.Addr                { return &net.TCPAddr{IP: net.IPv4(127, 0, 0, 1), Port: 1080} }
func (c *fakeConn) RemoteAddr() net.Addr               { return &net.TCPAddr{IP: net.IPv4(127, 0, 0, 1), Port: 40000} }
func (c *fakeConn) SetDeadline(t time.Time) error      { return nil }
func (c *fakeConn) SetReadDeadline(t time.Time) error  { return nil }
func (c *fakeConn) SetWriteDeadline(t time.Time) error { return nil }

// guarded runs f under recover and a watchdog.
func guarded(f func() string) (obs string) {
	done := make(chan string, 1)
	go func() {
		defer func() {
			if r := recover(); r != nil {
				done <- "panic " + strings.ReplaceAll(fmt.Sprint(r), " ", "_")
			}
		}()
		done <- f()
	}()
	t := time.NewTimer(20 * time.Second)
	defer t.Stop()
	select {
	case o := <-done:
		return o
	case <-t.C:
		return "timeout"
	}
}

func errMsg(err error) string {
	var e *coreerrors.Error
	if errors.As(err, &e) {
		return e.Message
	}
	return err.Error()
}

// ---- library tables (the model's IPText parameter, measured from the real net package)

type tables struct {
	t6   []string // addr16hex, texthex
	seen map[string]bool
	pt   []string // hosthex, parsedhex|!
}

func newTables() *tables { return &tables{seen: map[string]bool{}} }

// scan adds net.IP.String() of every 16-byte window that follows an octet 0x04 (candidate ATYP).
func (t *tables) scan(b []byte) {
	for i := 0; i+17 <= len(b); i++ {
		if b[i] != 4 {
			continue
		}
		a := b[i+1 : i+17]
		k := "6:" + string(a)
		if t.seen[k] {
			continue
		}
		t.seen[k] = true
		t.t6 = append(t.t6, vc.Hex(a), vc.Hex([]byte(net.IP(a).String())))
	}
}

// host adds net.ParseIP(h) reduced the way buildUDPHeader does (To4, else To16, else not an IP).
func (t *tables) host(h string) {
	k := "h:" + h
	if t.seen[k] {
		return
	}
	t.seen[k] = true
	ip := net.ParseIP(h)
	v := "!"
	if ip4 := ip.To4(); ip4 != nil {
		v = vc.Hex(ip4)
	} else if ip16 := ip.To16(); ip16 != nil {
		v = vc.Hex(ip16)
	}
	t.pt = append(t.pt, vc.Hex([]byte(h)), v)
}

func (t *tables) String() string {
	s := "t6 " + strconv.Itoa(len(t.t6)/2)
	if len(t.t6) > 0 {
		s += " " + strings.Join(t.t6, " ")
	}
	s += " pt " + strconv.Itoa(len(t.pt)/2)
	if len(t.pt) > 0 {
		s += " " + strings.Join(t.pt, " ")
	}
	return s
}

// ---- executors (real code)

var theListener = socks5.NewListener(context.Background(), &socks5.ListenerConfig{ListenAddr: "127.0.0.1:0", MappingID: "m"}, nil)

var hsStages = []struct{ msg, st string }{
	{"failed to read version", "rdver"}, {"unsupported SOCKS version", "badver"},
	{"no authentication methods provided", "nomethods"}, {"failed to read methods", "rdmethods"},
	{"failed to write auth method", "wrauth"}, {"no acceptable authentication method", "noaccept"},
	{"failed to read request", "rdreq"}, {"invalid version in request", "badreqver"},
	{"unsupported command", "badcmd"}, {"failed to read IPv4 address", "rdip4"},
	{"failed to read domain length", "rddomlen"}, {"failed to read domain", "rddom"},
	{"failed to read IPv6 address", "rdip6"}, {"unsupported address type", "badatyp"},
	{"failed to read port", "rdport"},
}

func stageIn(tbl []struct{ msg, st string }, msg string) string {
	for _, e := range tbl {
		if strings.HasPrefix(msg, e.msg) {
			return e.st
		}
	}
	return "other:" + strings.ReplaceAll(msg, " ", "_")
}

func sizesStr(sizes []int) string {
	s := "ch " + strconv.Itoa(len(sizes))
	for _, n := range sizes {
		s += " " + strconv.Itoa(n)
	}
	return s
}

func tailStr(tailErr bool) string {
	if tailErr {
		return "err"
	}
	return "eof"
}

func execHS(stream []byte, sizes []int, tailErr bool) (string, string) {
	tb := newTables()
	tb.scan(stream)
	cs := vc.Join("hs", tailStr(tailErr), tb.String(), "st", vc.Hex(stream), sizesStr(sizes))
	obs := guarded(func() string {
		conn := &fakeConn{r: vc.NewChunkReader(stream, sizes, tailErr)}
		res, err := theListener.Handshake(conn)
		tailS := " w " + vc.Hex(conn.w.Bytes()) + " left " + strconv.Itoa(conn.r.Remaining())
		if err != nil {
			return "err " + stageIn(hsStages, errMsg(err)) + tailS
		}
		return fmt.Sprintf("ok %d %s %d", res.Command, vc.Hex([]byte(res.TargetHost)), res.TargetPort) + tailS
	})
	return cs, obs
}

var adapters = map[string]*adapter.SocksAdapter{}

func adapterFor(auth bool, user, pass string) *adapter.SocksAdapter {
	k := fmt.Sprintf("%v\x00%s\x00%s", auth, user, pass)
	if a, ok := adapters[k]; ok {
		return a
	}
	var cfg *adapter.SocksConfig
	if auth {
		cfg = &adapter.SocksConfig{Username: user, Password: pass}
	}
	a := adapter.NewSocksAdapter(context.Background(), nil, cfg)
	adapters[k] = a
	return a
}

var adHandshakeStages = []struct{ msg, st string }{
	{"read handshake failed", "rdhs"}, {"unsupported SOCKS version", "badver"},
	{"read methods failed", "rdmethods"}, {"no acceptable authentication method", "noaccept"},
	{"write method selection failed", "wrsel"},
}
var adAuthStages = []struct{ msg, st string }{
	{"read auth header failed", "rdauth"}, {"unsupported auth version", "badauthver"},
	{"read username failed", "rduser"}, {"read password length failed", "rdplen"},
	{"read password failed", "rdpass"}, {"invalid credentials", "badcreds"},
	{"write auth response failed", "wrauth"},
}
var adRequestStages = []struct{ msg, st string }{
	{"read request header failed", "rdreq"}, {"unsupported SOCKS version", "badreqver"},
	{"unsupported command", "badcmd"}, {"read IPv4 address failed", "rdip4"},
	{"read domain length failed", "rddomlen"}, {"read domain failed", "rddom"},
	{"read IPv6 address failed", "rdip6"}, {"unsupported address type", "badatyp"},
	{"read port failed", "rdport"},
}

func adStage(phase string, err error) string {
	var e *coreerrors.Error
	if !errors.As(err, &e) {
		return "other:" + strings.ReplaceAll(err.Error(), " ", "_")
	}
	if phase == "request" {
		return stageIn(adRequestStages, e.Message)
	}
	if e.Message == "authentication failed" && e.Cause != nil {
		return stageIn(adAuthStages, errMsg(e.Cause))
	}
	return stageIn(adHandshakeStages, e.Message)
}

func execAD(auth bool, user, pass string, stream []byte, sizes []int, tailErr bool) (string, string) {
	tb := newTables()
	tb.scan(stream)
	a := "0"
	if auth {
		a = "1"
	}
	cs := vc.Join("ad", a, vc.Hex([]byte(user)), vc.Hex([]byte(pass)), tailStr(tailErr), tb.String(), "st", vc.Hex(stream), sizesStr(sizes))
	if auth && (user == "" || pass == "") {
		return cs, "bad-config" // NewSocksAdapter silently disables authentication: not a case of this harness
	}
	obs := guarded(func() string {
		conn := &fakeConn{r: vc.NewChunkReader(stream, sizes, tailErr)}
		target, phase, err := adapterFor(auth, user, pass).VerifNegotiate(conn)
		tailS := " w " + vc.Hex(conn.w.Bytes()) + " left " + strconv.Itoa(conn.r.Remaining())
		if err != nil {
			return "err " + adStage(phase, err) + tailS
		}
		return "ok " + vc.Hex([]byte(target)) + tailS
	})
	return cs, obs
}

// execADC: the whole handleSocksConnection (the adapter of the harness has no session attached).
func execADC(auth bool, user, pass string, stream []byte, sizes []int, tailErr bool) (string, string) {
	tb := newTables()
	tb.scan(stream)
	a := "0"
	if auth {
		a = "1"
	}
	cs := vc.Join("adc", a, vc.Hex([]byte(user)), vc.Hex([]byte(pass)), tailStr(tailErr), tb.String(), "st", vc.Hex(stream), sizesStr(sizes))
	if auth && (user == "" || pass == "") {
		return cs, "bad-config"
	}
	obs := guarded(func() string {
		conn := &closeConn{fakeConn: fakeConn{r: vc.NewChunkReader(stream, sizes, tailErr)}}
		adapterFor(auth, user, pass).VerifHandleSocksConnection(conn)
		return "w " + vc.Hex(conn.w.Bytes()) + " left " + strconv.Itoa(conn.r.Remaining()) + " closed " + b01(conn.closed)
	})
	return cs, obs
}

var udpStages = []struct{ msg, st string }{
	{"packet too short for IPv4", "short4"}, {"packet too short for domain name", "shortname"},
	{"packet too short for domain", "shortdom"}, {"packet too short for IPv6", "short6"},
	{"packet too short", "short"}, {"fragmentation not supported", "frag"},
	{"unsupported address type", "badatyp"},
}

func parseObs(tb *tables, data []byte) (string, string, int, []byte, bool) {
	h, p, pl, err := socks5.VerifParseUDPHeader(data)
	if err != nil {
		return "err " + stageIn(udpStages, errMsg(err)), "", 0, nil, false
	}
	tb.host(h)
	return fmt.Sprintf("ok %s %d %s", vc.Hex([]byte(h)), p, vc.Hex(pl)), h, p, pl, true
}

func execUDP(data []byte) (string, string) {
	tb := newTables()
	tb.scan(data)
	obs := guarded(func() string {
		o1, h, p, pl, ok := parseObs(tb, data)
		if !ok {
			return o1
		}
		b2 := socks5.VerifBuildUDPHeader(h, p, pl)
		tb.scan(b2)
		o2, _, _, _, _ := parseObs(tb, b2)
		return o1 + " rb " + vc.Hex(b2) + " " + o2
	})
	return vc.Join("udp", tb.String(), "d", vc.Hex(data)), obs
}

func execUBP(host string, port int, payload []byte) (string, string) {
	tb := newTables()
	tb.host(host)
	obs := guarded(func() string {
		b := socks5.VerifBuildUDPHeader(host, port, payload)
		tb.scan(b)
		o, _, _, _, _ := parseObs(tb, b)
		return "b " + vc.Hex(b) + " " + o
	})
	return vc.Join("ubp", tb.String(), "h", vc.Hex([]byte(host)), "p", strconv.Itoa(port), "pl", vc.Hex(payload)), obs
}

// ---- one executor for case strings (generators and corpus both end here)

type emitter struct {
	out  *vc.Out
	adcN int
}

func obsClass(obs string) string {
	f := strings.Fields(obs)
	if len(f) == 0 {
		return "empty"
	}
	if f[0] == "err" && len(f) > 1 {
		return "err:" + f[1]
	}
	if f[0] == "b" && len(f) > 2 {
		if f[2] == "err" && len(f) > 3 {
			return "err:" + f[3]
		}
		return f[2]
	}
	return f[0]
}

func (e *emitter) emit(prefix, mode, cs, obs, kind string) {
	key := cs
	if i := strings.Index(cs, " st "); i >= 0 {
		key = mode + cs[i:]
	}
	e.out.Case(prefix+cs, obs, key)
	e.out.Count("mode:" + mode)
	e.out.Count(mode + ":" + obsClass(obs))
	if kind != "" {
		e.out.Count("gen:" + kind)
	}
}

func (e *emitter) hs(stream []byte, sizes []int, tailErr bool, kind string) {
	cs, obs := execHS(stream, sizes, tailErr)
	e.emit("", "hs", cs, obs, kind)
}
func (e *emitter) ad(auth bool, user, pass string, stream []byte, sizes []int, tailErr bool, kind string) {
	cs, obs := execAD(auth, user, pass, stream, sizes, tailErr)
	m := "ad0"
	if auth {
		m = "ad1"
	}
	e.emit("", m, cs, obs, kind)
	e.adcN++
	if e.adcN%5 == 0 { // every fifth stream also through the real per-connection function
		cs, obs := execADC(auth, user, pass, stream, sizes, tailErr)
		e.emit("", "adc", cs, obs, kind)
	}
}
func (e *emitter) udp(data []byte, kind string) {
	cs, obs := execUDP(data)
	e.emit("", "udp", cs, obs, kind)
}
func (e *emitter) ubp(host string, port int, payload []byte, kind string) {
	cs, obs := execUBP(host, port, payload)
	e.emit("", "ubp", cs, obs, kind)
}

// both: the same stream against the listener and the (no-auth) adapter.
func (e *emitter) both(stream []byte, sizes []int, tailErr bool, kind string) {
	e.hs(stream, sizes, tailErr, kind)
	e.ad(false, "", "", stream, sizes, tailErr, kind)
}

// stripTables removes the "t6 … pt …" section of a case line.
func stripTables(toks []string) ([]string, error) {
	for i, t := range toks {
		if t == "t6" {
			if i+1 >= len(toks) {
				break
			}
			k, err := strconv.Atoi(toks[i+1])
			if err != nil {
				return nil, err
			}
			j := i + 2 + 2*k
			if j+1 >= len(toks) || toks[j] != "pt" {
				return nil, errors.New("pt expected")
			}
			m, err := strconv.Atoi(toks[j+1])
			if err != nil {
				return nil, err
			}
			end := j + 2 + 2*m
			if end > len(toks) {
				return nil, errors.New("short pt table")
			}
			return append(append([]string{}, toks[:i]...), toks[end:]...), nil
		}
	}
	return toks, nil // tables are optional in hand-written corpus lines
}

func parseStreamToks(toks []string) ([]byte, []int, error) {
	if len(toks) < 4 || toks[0] != "st" || toks[2] != "ch" {
		return nil, nil, errors.New("st <hex> ch <n> … expected")
	}
	n, err := strconv.Atoi(toks[3])
	if err != nil || len(toks) < 4+n {
		return nil, nil, errors.New("bad chunk list")
	}
	var sizes []int
	for _, s := range toks[4 : 4+n] {
		v, err := strconv.Atoi(s)
		if err != nil {
			return nil, nil, err
		}
		sizes = append(sizes, v)
	}
	return vc.UnHex(toks[1]), sizes, nil
}

// execLine runs one case line (with or without tables / observation / K: prefix).
func (e *emitter) execLine(line string) error {
	if i := strings.Index(line, " ## "); i >= 0 {
		line = line[:i]
	}
	toks := strings.Fields(line)
	prefix := ""
	if len(toks) > 0 && strings.HasPrefix(toks[0], "K:") {
		prefix = toks[0] + " "
		toks = toks[1:]
	}
	toks, err := stripTables(toks)
	if err != nil {
		return err
	}
	if len(toks) == 0 {
		return errors.New("empty case")
	}
	switch toks[0] {
	case "hs":
		if len(toks) < 2 {
			return errors.New("short hs case")
		}
		st, sizes, err := parseStreamToks(toks[2:])
		if err != nil {
			return err
		}
		cs, obs := execHS(st, sizes, toks[1] == "err")
		e.emit(prefix, "hs", cs, obs, "corpus")
	case "ad":
		if len(toks) < 5 {
			return errors.New("short ad case")
		}
		st, sizes, err := parseStreamToks(toks[5:])
		if err != nil {
			return err
		}
		cs, obs := execAD(toks[1] == "1", string(vc.UnHex(toks[2])), string(vc.UnHex(toks[3])), st, sizes, toks[4] == "err")
		e.emit(prefix, "ad"+toks[1], cs, obs, "corpus")
	case "adc":
		if len(toks) < 5 {
			return errors.New("short adc case")
		}
		st, sizes, err := parseStreamToks(toks[5:])
		if err != nil {
			return err
		}
		cs, obs := execADC(toks[1] == "1", string(vc.UnHex(toks[2])), string(vc.UnHex(toks[3])), st, sizes, toks[4] == "err")
		e.emit(prefix, "adc", cs, obs, "corpus")
	case "udp":
		if len(toks) != 3 || toks[1] != "d" {
			return errors.New("udp d <hex> expected")
		}
		cs, obs := execUDP(vc.UnHex(toks[2]))
		e.emit(prefix, "udp", cs, obs, "corpus")
	case "ubp":
		if len(toks) != 7 || toks[1] != "h" || toks[3] != "p" || toks[5] != "pl" {
			return errors.New("ubp h <hex> p <n> pl <hex> expected")
		}
		p, err := strconv.Atoi(toks[4])
		if err != nil {
			return err
		}
		cs, obs := execUBP(string(vc.UnHex(toks[2])), p, vc.UnHex(toks[6]))
		e.emit(prefix, "ubp", cs, obs, "corpus")
	case "conn", "live":
		cfg, st, sizes, tailErr, err := parseConnToks(toks)
		if err != nil {
			return err
		}
		if toks[0] == "live" {
			cs, obs := execLive(cfg, st, sizes)
			e.emit(prefix, "live", cs, obs, "corpus")
		} else {
			cs, obs := execConn(cfg, st, sizes, tailErr)
			e.emit(prefix, "conn", cs, obs, "corpus")
		}
	case "relay":
		mode, dns, ds, err := parseRelayToks(toks)
		if err != nil {
			return err
		}
		cs, obs := execRelay(mode, dns, ds)
		e.emit(prefix, "relay-"+mode, cs, obs, "corpus")
	default:
		return errors.New("unknown mode " + toks[0])
	}
	return nil
}

func replayFile(e *emitter, path string) {
	data, err := os.ReadFile(path)
	if err != nil {
		fmt.Fprintln(os.Stderr, err)
		os.Exit(3)
	}
	for _, line := range strings.Split(string(data), "\n") {
		line = strings.TrimSpace(line)
		if line == "" || strings.HasPrefix(line, "#") {
			continue
		}
		if err := e.execLine(line); err != nil {
			fmt.Fprintln(os.Stderr, "bad corpus line:", err, ":", line)
			os.Exit(3)
		}
	}
}

func main() {
	tier := flag.String("tier", "quick", "quick | thorough")
	seed := flag.Uint64("seed", 1, "seed")
	stats := flag.String("stats", "", "stats file")
	noGen := flag.Bool("nogen", false, "only replay the corpus files")
	flag.Parse()
	e := &emitter{out: vc.NewOut()}
	for _, f := range flag.Args() {
		replayFile(e, f)
	}
	if !*noGen {
		r := vc.NewRand(*seed)
		thorough := *tier == "thorough"
		genStreams(e, r.Fork(), thorough)
		genAuth(e, r.Fork(), thorough)
		genUDP(e, r.Fork(), thorough)
		genBuild(e, r.Fork(), thorough)
		genRelay(e, r.Fork(), thorough)
		genConn(e, r.Fork(), thorough)
	}
	e.out.Finish(*stats, nil)
}
