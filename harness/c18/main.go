//go:build verif

// Harness for C18: drives the real BruteForceProtector, IPManager, RateLimiter and
// ServerAuthHandler.HandleHandshake over scripted time lines on the real clock.
//
// A case is a time line in nominal milliseconds.  Events sit on a 20 ms grid, every configured
// duration is ≡ 10 (mod 20), so every expiry/window comparison is decided by at least 10 ms; an
// event must start at or after its instant and be finished at most 7 ms later, otherwise the whole
// case is run again (with the time line stretched ×2, ×4).  The goroutines that IsBanned/IsAllowed
// spawn run whenever the Go scheduler runs them; in addition the event `u`/`ar` executes the same
// step (unbanIfExpired / removeExpiredFromBlacklist) at a chosen later instant, which stands for a
// spawned goroutine that was delayed until then.
package main

import (
	"context"
	"encoding/base64"
	"errors"
	"flag"
	"fmt"
	"net"
	"os"
	"strconv"
	"strings"
	"sync"
	"time"

	"github.com/alicebob/miniredis/v2"

	"tunnox-core/internal/app/server"
	"tunnox-core/internal/cloud/managers"
	"tunnox-core/internal/cloud/models"
	corelog "tunnox-core/internal/core/log"
	"tunnox-core/internal/core/storage"
	"tunnox-core/internal/packet"
	"tunnox-core/internal/protocol/session"
	"tunnox-core/internal/security"
	"tunnox-core/internal/verifharness/common"
)

const (
	tick     = 20 // nominal ms between grid points
	marginMs = 7  // an event must complete within this many (scaled) ms after its instant
)

var errUnstable = errors.New("timing unstable")

// ---------------------------------------------------------------- time line runner

type timeline struct {
	t0    time.Time
	scale int
}

func (tl *timeline) at(t int) error {
	target := tl.t0.Add(time.Duration(t*tl.scale) * time.Millisecond)
	if d := time.Until(target); d > 0 {
		time.Sleep(d)
	}
	if time.Since(target) > time.Duration(marginMs*tl.scale)*time.Millisecond/2 {
		return errUnstable // woke up too late to start
	}
	return nil
}

func (tl *timeline) done(t int) error {
	target := tl.t0.Add(time.Duration(t*tl.scale) * time.Millisecond)
	if time.Since(target) > time.Duration(marginMs*tl.scale)*time.Millisecond {
		return errUnstable
	}
	return nil
}

func (tl *timeline) dur(ms int) time.Duration {
	return time.Duration(ms*tl.scale) * time.Millisecond
}

func ipStr(a int) string {
	return fmt.Sprintf("%d.%d.%d.%d", (a>>24)&255, (a>>16)&255, (a>>8)&255, a&255)
}

func keyStr(k string) (string, error) {
	p := strings.Split(k, "/")
	if len(p) != 2 {
		return "", fmt.Errorf("bad key %q", k)
	}
	a, err := strconv.Atoi(p[0])
	if err != nil {
		return "", err
	}
	if p[1] == "x" {
		return ipStr(a), nil
	}
	return ipStr(a) + "/" + p[1], nil
}

func b2s(b bool) string {
	if b {
		return "1"
	}
	return "0"
}

type event struct {
	t  int
	ps []string
}

func parseEvents(toks []string) ([]event, error) {
	evs := make([]event, 0, len(toks))
	last := 0
	for _, tok := range toks {
		ps := strings.Split(tok, ":")
		t, err := strconv.Atoi(ps[0])
		if err != nil || len(ps) < 2 {
			return nil, fmt.Errorf("bad event %q", tok)
		}
		if t < last {
			return nil, fmt.Errorf("time goes backwards at %q", tok)
		}
		last = t
		evs = append(evs, event{t, ps[1:]})
	}
	return evs, nil
}

func atoi(s string) int {
	n, err := strconv.Atoi(s)
	if err != nil {
		panic("bad number " + s)
	}
	return n
}

// ---------------------------------------------------------------- executors (one attempt)

type secEnv struct {
	bf     *security.BruteForceProtector
	ipm    *security.IPManager
	rl     *security.RateLimiter
	cancel context.CancelFunc
}

func bfOp(p *security.BruteForceProtector, ps []string) string {
	switch ps[0] {
	case "f":
		return b2s(p.RecordFailure(ipStr(atoi(ps[1]))))
	case "s":
		p.RecordSuccess(ipStr(atoi(ps[1])))
	case "q":
		b, _ := p.IsBanned(ipStr(atoi(ps[1])))
		return b2s(b)
	case "u":
		p.VerifUnbanIfExpired(ipStr(atoi(ps[1])))
	case "c":
		p.VerifCleanup()
	default:
		panic("unsupported protector event " + ps[0] + " (failRec/failBan exist in the model only)")
	}
	return "-"
}

// ipmBox: the IPManager that currently answers, the storage it persists to, and what has to be
// rebuilt when a new manager takes over (`rs`: NewIPManager over the same storage → loadFromStorage).
type ipmBox struct {
	m         *security.IPManager
	st        storage.Storage
	ctx       context.Context
	onRestart func(*security.IPManager)
	close     func()
}

// caseBackend picks the storage backend of a case from the case itself (so a replay uses the same):
// memory, Redis (miniredis), or the hybrid storage over Redis — the backends a deployment shares
// between nodes.  miniredis' clock does not advance: persisted temporary entries never TTL out of it,
// which is harmless (an expired record is inert) and is exactly what the model assumes.
func caseBackend(toks []string) string {
	h := uint32(2166136261)
	for _, t := range toks {
		for i := 0; i < len(t); i++ {
			h = (h ^ uint32(t[i])) * 16777619
		}
	}
	switch h % 5 {
	case 0:
		return "redis"
	case 1:
		return "hybrid-redis"
	}
	return "memory"
}

func newIpmBox(ctx context.Context, backend string) *ipmBox {
	b := &ipmBox{ctx: ctx, close: func() {}}
	switch backend {
	case "redis", "hybrid-redis":
		mr, err := miniredis.Run()
		if err != nil {
			panic(err)
		}
		b.close = mr.Close
		rs, err := storage.NewRedisStorage(ctx, &storage.RedisConfig{Addr: mr.Addr()})
		if err != nil {
			panic(err)
		}
		b.st = rs
		if backend == "hybrid-redis" {
			b.st = storage.NewHybridStorage(ctx, rs, nil, nil)
		}
	default:
		b.st = storage.NewMemoryStorage(ctx)
	}
	b.m = security.NewIPManager(b.st, ctx)
	return b
}

func ipmOp(box *ipmBox, tl *timeline, ps []string) string {
	m := box.m
	switch ps[0] {
	case "rs":
		box.m = security.NewIPManager(box.st, box.ctx)
		if box.onRestart != nil {
			box.onRestart(box.m)
		}
	case "ab":
		k, err := keyStr(ps[1])
		if err != nil {
			panic(err)
		}
		if err := m.AddToBlacklist(k, tl.dur(atoi(ps[2])), "r", "verif"); err != nil {
			panic(err)
		}
	case "rb":
		k, _ := keyStr(ps[1])
		m.RemoveFromBlacklist(k)
	case "aw":
		k, _ := keyStr(ps[1])
		if err := m.AddToWhitelist(k, "r", "verif"); err != nil {
			panic(err)
		}
	case "rw":
		k, _ := keyStr(ps[1])
		m.RemoveFromWhitelist(k)
	case "al":
		a, _ := m.IsAllowed(ipStr(atoi(ps[1])))
		return b2s(a)
	case "ar":
		m.VerifRemoveExpiredFromBlacklist(ipStr(atoi(ps[1])))
	case "c":
		m.VerifCleanup()
	default:
		panic("unsupported ip-manager event " + ps[0])
	}
	return "-"
}

func runTimeline(evs []event, scale int, op func(tl *timeline, e event) string) (string, error) {
	tl := &timeline{t0: time.Now().Add(3 * time.Millisecond), scale: scale}
	// nominal instants start at `tick`, so t0 is before every event
	obs := make([]string, 0, len(evs))
	for _, e := range evs {
		if err := tl.at(e.t); err != nil {
			return "", err
		}
		obs = append(obs, op(tl, e))
		if err := tl.done(e.t); err != nil {
			return "", err
		}
	}
	return strings.Join(obs, " "), nil
}

func runBF(toks []string, scale int) (string, error) {
	evs, err := parseEvents(toks[4:])
	if err != nil {
		return "", err
	}
	ctx, cancel := context.WithCancel(context.Background())
	defer cancel()
	var p *security.BruteForceProtector
	return runTimeline(evs, scale, func(tl *timeline, e event) string {
		if p == nil && toks[0] == "default" {
			p = security.NewBruteForceProtector(nil, ctx)
		}
		if p == nil {
			p = security.NewBruteForceProtector(&security.BruteForceConfig{
				MaxFailures: atoi(toks[0]), TimeWindow: tl.dur(atoi(toks[1])), BanDuration: tl.dur(atoi(toks[2])),
				PermanentBanAt: atoi(toks[3]), CleanupInterval: time.Hour}, ctx)
		}
		return bfOp(p, e.ps)
	})
}

func runIP(toks []string, scale int) (string, error) {
	evs, err := parseEvents(toks)
	if err != nil {
		return "", err
	}
	ctx, cancel := context.WithCancel(context.Background())
	defer cancel()
	box := newIpmBox(ctx, caseBackend(toks))
	defer box.close()
	return runTimeline(evs, scale, func(tl *timeline, e event) string { return ipmOp(box, tl, e.ps) })
}

func runRL(toks []string, scale int) (string, error) {
	evs, err := parseEvents(toks[4:])
	if err != nil {
		return "", err
	}
	if atoi(toks[3]) != 1000 {
		return "", fmt.Errorf("harness runs time lines in milliseconds only (U=1000)")
	}
	ctx, cancel := context.WithCancel(context.Background())
	defer cancel()
	var r *security.RateLimiter
	held := map[string][]*security.TokenBucket{}
	return runTimeline(evs, scale, func(tl *timeline, e event) string {
		if r == nil && toks[0] == "default" {
			r = security.NewRateLimiter(nil, nil, ctx)
		}
		if r == nil {
			// the rate is per real second: stretching the time line by `scale` divides it
			r = newLimiter(atoi(toks[0]), atoi(toks[1]), tl.dur(atoi(toks[2])), scale, ctx)
		}
		switch e.ps[0] {
		case "a":
			return b2s(r.AllowIP(ipStr(atoi(e.ps[1]))))
		case "c":
			r.VerifCleanup()
		case "lk":
			// first section of allow(): the lookup under the table's read lock (hit only — the create
			// section cannot be run by itself; overlapping first contacts are the race2 cases)
			b := r.VerifBucket(ipStr(atoi(e.ps[1])))
			if b == nil {
				panic("lk on an address without a bucket")
			}
			held[e.ps[1]] = append(held[e.ps[1]], b)
		case "tk":
			// last section of allow(): Take on the bucket the call is holding
			hs, i := held[e.ps[1]], atoi(e.ps[2])
			if i >= len(hs) {
				panic("tk without a call in flight")
			}
			b := hs[i]
			held[e.ps[1]] = append(append([]*security.TokenBucket{}, hs[:i]...), hs[i+1:]...)
			return b2s(b.Take(1))
		default:
			panic("unsupported limiter event " + e.ps[0])
		}
		return "-"
	})
}

// newLimiter: Rate must be an integer per real second; a time line stretched by `scale` needs
// rate/scale, so only rates divisible by the scale are run stretched (others report unstable).
func newLimiter(rate, burst int, ttl time.Duration, scale int, ctx context.Context) *security.RateLimiter {
	if rate%scale != 0 {
		panic(errUnstable)
	}
	return security.NewRateLimiter(&security.RateLimitConfig{Rate: rate / scale, Burst: burst, TTL: ttl}, nil, ctx)
}

// ---- handshake doubles

type fakeCC struct {
	managers.CloudControlAPI // nil: any other call panics (and is reported)
	mu                       sync.Mutex
	nextID                   int64
	anonFail                 bool
	known                    map[int64]*models.ClientConfig
}

func (c *fakeCC) GetClientConfig(id int64) (*models.ClientConfig, error) {
	if cfg, ok := c.known[id]; ok {
		return cfg, nil
	}
	return nil, errors.New("not found")
}

func (c *fakeCC) GenerateAnonymousCredentials() (*models.Client, error) {
	c.mu.Lock()
	defer c.mu.Unlock()
	if c.anonFail {
		return nil, errors.New("cannot generate credentials")
	}
	c.nextID++
	return &models.Client{ID: 1000 + c.nextID, SecretKeyPlaintext: "k"}, nil
}

func (c *fakeCC) ConnectClient(clientID int64, nodeID, connID, ipAddress, protocol, version string) error {
	return nil
}

type fakeConn struct {
	session.ControlConnectionInterface // nil
	addr                               net.Addr
	challenge                          string
	clientID                           int64
	authed                             bool
}

func (c *fakeConn) GetRemoteAddr() net.Addr      { return c.addr }
func (c *fakeConn) GetConnID() string            { return "conn" }
func (c *fakeConn) GetProtocol() string          { return "tcp" }
func (c *fakeConn) GetClientID() int64           { return c.clientID }
func (c *fakeConn) SetClientID(id int64)         { c.clientID = id }
func (c *fakeConn) SetAuthenticated(b bool)      { c.authed = b }
func (c *fakeConn) IsAuthenticated() bool        { return c.authed }
func (c *fakeConn) SetPendingChallenge(s string) { c.challenge = s }
func (c *fakeConn) GetPendingChallenge() string  { return c.challenge }
func (c *fakeConn) ClearPendingChallenge()       { c.challenge = "" }
func (c *fakeConn) UpdateActivity()              {}
func (c *fakeConn) SetUserID(string)             {}
func (c *fakeConn) GetUserID() string            { return "" }

func classify(r *packet.HandshakeResponse, conn *fakeConn) string {
	switch {
	case r == nil:
		return "nil-response"
	case r.Success:
		if !conn.authed {
			return "ok-but-not-authenticated"
		}
		return "ok"
	case r.NeedResponse:
		return "chal"
	case r.Error == "Access denied":
		return "blk"
	case r.Error == "Access denied: too many failed attempts":
		return "ban"
	case strings.HasPrefix(r.Error, "Rate limit exceeded"):
		return "rate"
	}
	if conn.authed {
		return "refused-but-authenticated"
	}
	return "fail"
}

const knownClient = 7
const expiredClient = 8

type strAddr string

func (s strAddr) Network() string { return "verif" }
func (s strAddr) String() string  { return string(s) }

func runHS(toks []string, scale int, defaults bool) (string, error) {
	evs, err := parseEvents(toks[8:])
	if err != nil {
		return "", err
	}
	if atoi(toks[7]) != 1000 {
		return "", fmt.Errorf("U must be 1000")
	}
	ctx, cancel := context.WithCancel(context.Background())
	defer cancel()
	mk := base64.StdEncoding.EncodeToString([]byte("0123456789abcdef0123456789abcdef"))
	skm, err := security.NewSecretKeyManager(&security.SecretKeyConfig{MasterKey: mk})
	if err != nil {
		return "", err
	}
	plain, enc, err := skm.GenerateCredentials()
	if err != nil {
		return "", err
	}
	longAgo := time.Now().Add(-time.Hour)
	cc := &fakeCC{known: map[int64]*models.ClientConfig{knownClient: {SecretKeyEncrypted: enc},
		expiredClient: {SecretKeyEncrypted: enc, ExpiresAt: &longAgo}}}
	var env *secEnv
	var box *ipmBox
	var h *server.ServerAuthHandler
	defer0 := func() {}
	defer func() { defer0() }()
	return runTimeline(evs, scale, func(tl *timeline, e event) string {
		if env == nil {
			env = &secEnv{}
			if defaults {
				env.bf = security.NewBruteForceProtector(nil, ctx)
				env.rl = security.NewRateLimiter(nil, nil, ctx)
			} else {
				env.bf = security.NewBruteForceProtector(&security.BruteForceConfig{
					MaxFailures: atoi(toks[0]), TimeWindow: tl.dur(atoi(toks[1])), BanDuration: tl.dur(atoi(toks[2])),
					PermanentBanAt: atoi(toks[3]), CleanupInterval: time.Hour}, ctx)
				env.rl = newLimiter(atoi(toks[4]), atoi(toks[5]), tl.dur(atoi(toks[6])), scale, ctx)
			}
			box = newIpmBox(ctx, caseBackend(toks))
			defer0 = box.close
			env.ipm = box.m
			box.onRestart = func(m *security.IPManager) {
				env.ipm = m
				h = server.NewServerAuthHandler(cc, &session.SessionManager{}, env.bf, env.ipm, env.rl, skm)
			}
			h = server.NewServerAuthHandler(cc, &session.SessionManager{}, env.bf, env.ipm, env.rl, skm)
		}
		switch e.ps[0] {
		case "i":
			ipmOp(box, tl, e.ps[1:])
			return "-"
		case "p":
			bfOp(env.bf, e.ps[1:])
			return "-"
		case "rc":
			env.rl.VerifCleanup()
			return "-"
		case "h":
		default:
			panic("unsupported handshake event " + e.ps[0])
		}
		a := atoi(e.ps[1])
		variant := ""
		if len(e.ps) > 3 {
			variant = e.ps[3]
		}
		ip4 := net.IPv4(byte(a>>24), byte(a>>16), byte(a>>8), byte(a))
		var addr net.Addr
		switch {
		case strings.HasPrefix(variant, "tcp4"): // 4-byte form
			addr = &net.TCPAddr{IP: ip4.To4(), Port: 40000}
		case strings.HasPrefix(variant, "udp"): // QUIC / KCP connections
			addr = &net.UDPAddr{IP: ip4.To4(), Port: 40000}
		case strings.HasPrefix(variant, "str"): // any other net.Addr: "host:port" text
			addr = strAddr(ipStr(a) + ":40000")
		default: // 16-byte IPv4-in-IPv6 form, what a dual-stack listener reports
			addr = &net.TCPAddr{IP: ip4, Port: 40000}
		}
		conn := &fakeConn{addr: addr}
		call := func(req *packet.HandshakeRequest) string {
			r, _ := h.HandleHandshake(conn, req)
			return classify(r, conn)
		}
		anonToken := "new-client"
		if strings.HasSuffix(variant, ".anon") {
			anonToken = "anonymous:device-1"
		}
		switch e.ps[2] {
		case "anonOk":
			cc.anonFail = false
			return call(&packet.HandshakeRequest{ClientID: 0, Token: anonToken, Version: "3", Protocol: "tcp"})
		case "anonFail":
			if strings.HasSuffix(variant, ".tok") {
				// ClientID 0 with a token that is no registration request: rate-limited like a
				// registration, then "client 0 not found" → failure recorded
				return call(&packet.HandshakeRequest{ClientID: 0, Token: "jwt-from-an-old-client", Version: "3", Protocol: "tcp"})
			}
			cc.anonFail = true
			return call(&packet.HandshakeRequest{ClientID: 0, Token: anonToken, Version: "3", Protocol: "tcp"})
		case "expired":
			return call(&packet.HandshakeRequest{ClientID: expiredClient, Version: "3"})
		case "unknown":
			return call(&packet.HandshakeRequest{ClientID: 999, Version: "3"})
		case "noChallenge":
			return call(&packet.HandshakeRequest{ClientID: knownClient, Version: "3", ChallengeResponse: "00"})
		case "phase1":
			return call(&packet.HandshakeRequest{ClientID: knownClient, Version: "3"})
		case "badResp", "good":
			c1 := call(&packet.HandshakeRequest{ClientID: knownClient, Version: "3"})
			if c1 != "chal" {
				return c1
			}
			resp := skm.ComputeResponse(plain, conn.challenge)
			if e.ps[2] == "badResp" {
				resp = skm.ComputeResponse("not-the-key", conn.challenge)
			}
			return call(&packet.HandshakeRequest{ClientID: knownClient, Version: "3", ChallengeResponse: resp})
		}
		panic("unknown handshake kind " + e.ps[2])
	})
}

// ---------------------------------------------------------------- executor with retries

type result struct {
	obs     string
	dropped bool
}

func attempt(caseStr string, scale int) (obs string, err error) {
	defer func() {
		if r := recover(); r != nil {
			if e, ok := r.(error); ok && errors.Is(e, errUnstable) {
				err = errUnstable
				return
			}
			obs, err = "panic "+strings.ReplaceAll(fmt.Sprint(r), "\n", " "), nil
		}
	}()
	toks := strings.Fields(caseStr)
	if len(toks) == 0 {
		return "bad-case", nil
	}
	switch toks[0] {
	case "bf":
		return runBF(toks[1:], scale)
	case "ip":
		return runIP(toks[1:], scale)
	case "rl":
		return runRL(toks[1:], scale)
	case "hs":
		return runHS(toks[1:], scale, false)
	// the shipped defaults: components built with a nil config, exactly as components_session.go does.
	// Their durations are real minutes, so these time lines are never stretched.
	case "bfd":
		return runBF(append([]string{"default", "0", "0", "0"}, toks[1:]...), 1)
	case "rld":
		return runRL(append([]string{"default", "0", "0", "1000"}, toks[1:]...), 1)
	case "hsd":
		return runHS(append([]string{"0", "0", "0", "0", "0", "0", "0", "1000"}, toks[1:]...), 1, true)
	}
	return "bad-case", nil
}

func execCase(caseStr string) result {
	for i, scale := range []int{1, 1, 2, 2, 4, 5, 8, 10} {
		if i > 1 {
			time.Sleep(time.Duration(150*i) * time.Millisecond) // let a load burst pass
		}
		type ar struct {
			obs string
			err error
		}
		ch := make(chan ar, 1)
		go func() {
			o, e := attempt(caseStr, scale)
			ch <- ar{o, e}
		}()
		select {
		case r := <-ch:
			if r.err == nil {
				return result{obs: r.obs}
			}
			if !errors.Is(r.err, errUnstable) {
				return result{obs: "error " + strings.ReplaceAll(r.err.Error(), "\n", " ")}
			}
		case <-time.After(60 * time.Second):
			return result{obs: "timeout"}
		}
	}
	return result{dropped: true}
}

// ---------------------------------------------------------------- main

func stripCaseLine(l string) (key, c string) {
	l = strings.TrimSpace(l)
	if i := strings.Index(l, " ## "); i >= 0 {
		l = l[:i]
	}
	if strings.HasPrefix(l, "K:") {
		p := strings.SplitN(l, " ", 2)
		if len(p) == 2 {
			return p[0] + " ", p[1]
		}
	}
	return "", l
}

type job struct {
	key, c, kind string
}

func main() {
	tier := flag.String("tier", "quick", "")
	seed := flag.Uint64("seed", 1, "")
	stats := flag.String("stats", "", "")
	nogen := flag.String("nogen", "", "only replay the cases of this file")
	par := flag.Int("par", 0, "concurrent cases")
	mode := flag.String("mode", "timeline", "timeline | race")
	flag.Parse()
	corelog.SetDefault(corelog.NewNopLogger())

	var jobs []job
	readFile := func(path string) {
		b, err := os.ReadFile(path)
		if err != nil {
			fmt.Fprintln(os.Stderr, err)
			os.Exit(2)
		}
		for _, l := range strings.Split(string(b), "\n") {
			if strings.TrimSpace(l) == "" || strings.HasPrefix(l, "#") {
				continue
			}
			k, c := stripCaseLine(l)
			jobs = append(jobs, job{k, c, "corpus"})
		}
	}
	if *nogen != "" {
		readFile(*nogen)
	} else {
		for _, f := range flag.Args() {
			readFile(f)
		}
		rnd := common.NewRand(*seed)
		if *mode == "race" {
			jobs = append(jobs, raceCases(*tier, *seed)...)
		} else {
			jobs = append(jobs, generate(rnd, *tier)...)
		}
	}
	// racing cases run one after the other, by themselves (they need the cores)
	out := common.NewOut()
	var timelineJobs []job
	for _, j := range jobs {
		if strings.HasPrefix(j.c, "race ") || strings.HasPrefix(j.c, "race2 ") {
			func() {
				defer func() {
					if r := recover(); r != nil {
						out.Case(j.key+j.c, "panic "+strings.ReplaceAll(fmt.Sprint(r), "\n", " "), "")
					}
				}()
				var obs string
				if strings.HasPrefix(j.c, "race2 ") {
					obs = runRace2(strings.Fields(j.c)[1:], out)
				} else {
					obs = runRace(strings.Fields(j.c)[1:], out)
				}
				out.Count("kind:race")
				out.Case(j.key+j.c, obs, j.c)
			}()
			continue
		}
		timelineJobs = append(timelineJobs, j)
	}
	jobs = timelineJobs
	n := *par
	if n == 0 {
		n = 96
		if *tier == "thorough" {
			n = 128
		}
	}
	res := make([]result, len(jobs))
	var wg sync.WaitGroup
	sem := make(chan struct{}, n)
	for i := range jobs {
		wg.Add(1)
		sem <- struct{}{}
		go func(i int) {
			defer wg.Done()
			res[i] = execCase(jobs[i].c)
			<-sem
		}(i)
	}
	wg.Wait()

	dropped := 0
	for i, j := range jobs {
		if res[i].dropped {
			dropped++
			out.Count("dropped-timing-unstable")
			fmt.Fprintln(os.Stderr, "c18 harness: dropped (timing):", j.c)
			continue
		}
		kind := strings.Fields(j.c + " ?")[0]
		out.Count("kind:" + kind)
		out.Count("src:" + j.kind)
		for _, tok := range strings.Fields(res[i].obs) {
			out.Count("obs:" + kind + ":" + tok)
		}
		distinct := ""
		if len(strings.Fields(j.c)) > 6 {
			distinct = j.c
		}
		out.Case(j.key+j.c, res[i].obs, distinct)
	}
	extra := map[string]any{"dropped_timing_unstable": dropped, "excluded_points": excludedPoints()}
	out.Finish(*stats, extra)
	if len(jobs) > 0 && dropped*5 > len(jobs) {
		fmt.Fprintf(os.Stderr, "c18 harness: %d of %d cases could not be run within the timing margins\n", dropped, len(jobs))
		os.Exit(3)
	}
}

// excludedPoints runs the real code at the points the theorems exclude (WF hypotheses) and reports
// what it does there; evidence only.
func excludedPoints() map[string]string {
	m := map[string]string{}
	ctx, cancel := context.WithCancel(context.Background())
	defer cancel()
	// BanDuration = 0: banIP(ip, 0, …) is the permanent-ban call
	p := security.NewBruteForceProtector(&security.BruteForceConfig{MaxFailures: 1, TimeWindow: time.Second, BanDuration: 0,
		PermanentBanAt: 100, CleanupInterval: time.Hour}, ctx)
	p.RecordFailure("1.1.1.1")
	time.Sleep(5 * time.Millisecond)
	b, _ := p.IsBanned("1.1.1.1")
	m["BanDuration=0"] = fmt.Sprintf("one failure with MaxFailures=1: banned 5ms later=%v, permanent bans=%d (a zero duration means permanent)", b, p.GetStats().PermanentBans)
	// Rate*TTL < Burst: dropping an idle bucket hands out a fresh burst earlier than refill would
	r := security.NewRateLimiter(&security.RateLimitConfig{Rate: 1, Burst: 3, TTL: 20 * time.Millisecond}, nil, ctx)
	adm := 0
	for i := 0; i < 3; i++ {
		if r.AllowIP("1.1.1.1") {
			adm++
		}
	}
	time.Sleep(30 * time.Millisecond)
	r.VerifCleanup()
	for i := 0; i < 3; i++ {
		if r.AllowIP("1.1.1.1") {
			adm++
		}
	}
	m["Rate*TTL<Burst"] = fmt.Sprintf("Rate=1/s Burst=3 TTL=20ms: %d admitted within ~30ms (bound Burst+Rate*dt = 3)", adm)
	return m
}
