//go:build verif

package main

import (
	"context"
	"fmt"
	"runtime"
	"sync"
	"sync/atomic"
	"time"

	"tunnox-core/internal/security"
	"tunnox-core/internal/verifharness/common"
)

// Racing run (clean-up pass vs. threshold-reaching failures).
//
// Per round: a fresh protector (window far longer than the round), `addrs` addresses are driven to the
// threshold and banned; the ban period passes, nothing sweeps the records (elapsed, unswept).  Then
// `workers` goroutines add one more failure per address — each reaches the threshold again, so
// RecordFailure reports a ban — while the real clean-up pass runs:
//
//	manual: the harness calls cleanup() (export shim) in a loop, released by the same barrier;
//	ticker: the protector's own periodic goroutine (CleanupInterval chosen so that a tick falls just
//	        after the bans elapse; the workers fire around that tick).
//
// Afterwards every address is asked (well inside the new ban period).  lost = reported a ban, answers
// "not banned".  An address whose question came later than half a ban period after its failure
// started is void (not counted either way).
type raceStats struct {
	rounds, reported, lost, void, overlapped, roundsWithLoss int64
}

func raceRound(mode string, m, w, b, p, addrs, workers int, rnd *common.Rand, round int, st *raceStats) {
	ctx, cancel := context.WithCancel(context.Background())
	defer cancel()
	ban := time.Duration(b) * time.Millisecond
	interval := time.Hour
	if mode == "ticker" {
		interval = 20 * time.Millisecond
	}
	t0 := time.Now()
	prot := security.NewBruteForceProtector(&security.BruteForceConfig{MaxFailures: m, TimeWindow: time.Duration(w) * time.Millisecond,
		BanDuration: ban, PermanentBanAt: p, CleanupInterval: interval}, ctx)
	ips := make([]string, addrs)
	for i := range ips {
		ips[i] = fmt.Sprintf("10.%d.%d.%d", round&255, i>>8&255, i&255)
		for k := 0; k < m; k++ {
			prot.RecordFailure(ips[i])
		}
	}
	setupEnd := time.Now()
	// the instant the race starts: all bans elapsed
	start := setupEnd.Add(ban + 12*time.Millisecond)
	if mode == "ticker" {
		// first tick after every ban has elapsed, workers begin a little before it
		elapsed := setupEnd.Add(ban + 2*time.Millisecond)
		k := int(elapsed.Sub(t0)/interval) + 1
		start = t0.Add(time.Duration(k)*interval - time.Duration(100+rnd.Intn(200))*time.Microsecond)
	}
	delay := time.Duration(rnd.Intn(40)) * time.Microsecond // sweeper offset (manual)
	time.Sleep(time.Until(start) - 2*time.Millisecond)

	reported := make([]bool, addrs)
	began := make([]time.Time, addrs)
	ended := make([]time.Time, addrs)
	var wg sync.WaitGroup
	var running int32 = int32(workers)
	for wk := 0; wk < workers; wk++ {
		wg.Add(1)
		go func(wk int) {
			defer wg.Done()
			for time.Now().Before(start) {
			}
			for i := wk; i < addrs; i += workers {
				began[i] = time.Now()
				reported[i] = prot.RecordFailure(ips[i])
				ended[i] = time.Now()
				if mode == "ticker" {
					for time.Since(ended[i]) < 4*time.Microsecond { // spread the failures over the tick's neighbourhood
						runtime.Gosched()
					}
				}
			}
			atomic.AddInt32(&running, -1)
		}(wk)
	}
	var sweepFrom, sweepTo time.Time
	if mode == "manual" {
		for time.Now().Before(start.Add(delay)) {
		}
		first := true
		for atomic.LoadInt32(&running) > 0 {
			a := time.Now()
			prot.VerifCleanup()
			if first {
				sweepFrom, sweepTo, first = a, time.Now(), false
			}
		}
	}
	wg.Wait()
	if mode == "ticker" {
		time.Sleep(time.Millisecond) // let the tick that is due finish
	}
	lostHere := int64(0)
	for i, ip := range ips {
		banned, _ := prot.IsBanned(ip)
		late := time.Since(began[i]) > ban/2
		switch {
		case late:
			atomic.AddInt64(&st.void, 1)
		case reported[i]:
			atomic.AddInt64(&st.reported, 1)
			if !banned {
				lostHere++
			}
		}
		if mode == "manual" && !ended[i].Before(sweepFrom) && !began[i].After(sweepTo) {
			atomic.AddInt64(&st.overlapped, 1)
		}
	}
	atomic.AddInt64(&st.lost, lostHere)
	if lostHere > 0 {
		atomic.AddInt64(&st.roundsWithLoss, 1)
	}
	atomic.AddInt64(&st.rounds, 1)
}

// runRace executes one `race …` case; the observation is `lost <k>`.
func runRace(toks []string, out *common.Out) string {
	mode := toks[0]
	m, w, b, p, addrs, workers, rounds := atoi(toks[1]), atoi(toks[2]), atoi(toks[3]), atoi(toks[4]), atoi(toks[5]), atoi(toks[6]), atoi(toks[7])
	rnd := common.NewRand(uint64(atoi(toks[8])))
	if mode != "manual" && mode != "ticker" {
		return "bad-case"
	}
	st := &raceStats{}
	par := 10
	sem := make(chan struct{}, par)
	var wg sync.WaitGroup
	for r := 0; r < rounds; r++ {
		sem <- struct{}{}
		wg.Add(1)
		rr := rnd.Fork()
		go func(r int) {
			defer wg.Done()
			defer func() { <-sem }()
			raceRound(mode, m, w, b, p, addrs, workers, rr, r, st)
		}(r)
	}
	wg.Wait()
	if out != nil {
		pre := "race-" + mode + ":"
		for k, v := range map[string]int64{"rounds": st.rounds, "failures-reporting-a-ban": st.reported, "lost-bans": st.lost,
			"rounds-with-lost-ban": st.roundsWithLoss, "void-late-question": st.void, "failures-overlapping-first-sweep": st.overlapped} {
			out.Counts[pre+k] += int(v)
		}
	}
	return fmt.Sprintf("lost %d", st.lost)
}

func raceCases(tier string, seed uint64) []job {
	rounds := 200
	if tier == "thorough" {
		rounds = 5000
	}
	return []job{
		{"", fmt.Sprintf("race manual 3 600000 150 1000 600 8 %d %d", rounds, seed), "race"},
		{"", fmt.Sprintf("race ticker 3 600000 150 1000 600 8 %d %d", rounds/4, seed), "race"},
	}
}
