//go:build verif

package main

import (
	"context"
	"fmt"
	"runtime"
	"strings"
	"sync"
	"sync/atomic"
	"time"

	"tunnox-core/internal/security"
	"tunnox-core/internal/verifharness/common"
)

// Racing run (clean-up pass vs. threshold-reaching failures).
//
// Per round: a fresh protector (window far longer than the round), `addrs` addresses are driven to the
// threshold and banned; the ban period passes, nothing sweeps the records (elapsed, unswept).  Then
// `workers` goroutines add one more failure per address — each reaches the threshold again, so
// RecordFailure reports a ban — while the real clean-up pass runs:
//
//	manual: the harness calls cleanup() (export shim) in a loop, released by the same barrier;
//	ticker: the protector's own periodic goroutine (CleanupInterval chosen so that a tick falls just
//	        after the bans elapse; the workers fire around that tick).
//
// Afterwards every address is asked (well inside the new ban period).  lost = reported a ban, answers
// "not banned".  An address whose question came later than half a ban period after its failure
// started is void (not counted either way).
type raceStats struct {
	rounds, reported, lost, void, overlapped, roundsWithLoss int64
}

func raceRound(mode string, m, w, b, p, addrs, workers int, rnd *common.Rand, round int, st *raceStats) {
	ctx, cancel := context.WithCancel(context.Background())
	defer cancel()
	ban := time.Duration(b) * time.Millisecond
	interval := time.Hour
	if mode == "ticker" {
		interval = 20 * time.Millisecond
	}
	t0 := time.Now()
	prot := security.NewBruteForceProtector(&security.BruteForceConfig{MaxFailures: m, TimeWindow: time.Duration(w) * time.Millisecond,
		BanDuration: ban, PermanentBanAt: p, CleanupInterval: interval}, ctx)
	ips := make([]string, addrs)
	for i := range ips {
		ips[i] = fmt.Sprintf("10.%d.%d.%d", round&255, i>>8&255, i&255)
		for k := 0; k < m; k++ {
			prot.RecordFailure(ips[i])
		}
	}
	setupEnd := time.Now()
	// the instant the race starts: all bans elapsed
	start := setupEnd.Add(ban + 12*time.Millisecond)
	if mode == "ticker" {
		// first tick after every ban has elapsed, workers begin a little before it
		elapsed := setupEnd.Add(ban + 2*time.Millisecond)
		k := int(elapsed.Sub(t0)/interval) + 1
		start = t0.Add(time.Duration(k)*interval - time.Duration(100+rnd.Intn(200))*time.Microsecond)
	}
	delay := time.Duration(rnd.Intn(40)) * time.Microsecond // sweeper offset (manual)
	time.Sleep(time.Until(start) - 2*time.Millisecond)

	reported := make([]bool, addrs)
	began := make([]time.Time, addrs)
	ended := make([]time.Time, addrs)
	var wg sync.WaitGroup
	var running int32 = int32(workers)
	for wk := 0; wk < workers; wk++ {
		wg.Add(1)
		go func(wk int) {
			defer wg.Done()
			for time.Now().Before(start) {
			}
			for i := wk; i < addrs; i += workers {
				began[i] = time.Now()
				reported[i] = prot.RecordFailure(ips[i])
				ended[i] = time.Now()
				if mode == "ticker" {
					for time.Since(ended[i]) < 4*time.Microsecond { // spread the failures over the tick's neighbourhood
						runtime.Gosched()
					}
				}
			}
			atomic.AddInt32(&running, -1)
		}(wk)
	}
	var sweepFrom, sweepTo time.Time
	if mode == "manual" {
		for time.Now().Before(start.Add(delay)) {
		}
		first := true
		for atomic.LoadInt32(&running) > 0 {
			a := time.Now()
			prot.VerifCleanup()
			if first {
				sweepFrom, sweepTo, first = a, time.Now(), false
			}
		}
	}
	wg.Wait()
	if mode == "ticker" {
		time.Sleep(time.Millisecond) // let the tick that is due finish
	}
	lostHere := int64(0)
	for i, ip := range ips {
		banned, _ := prot.IsBanned(ip)
		late := time.Since(began[i]) > ban/2
		switch {
		case late:
			atomic.AddInt64(&st.void, 1)
		case reported[i]:
			atomic.AddInt64(&st.reported, 1)
			if !banned {
				lostHere++
			}
		}
		if mode == "manual" && !ended[i].Before(sweepFrom) && !began[i].After(sweepTo) {
			atomic.AddInt64(&st.overlapped, 1)
		}
	}
	atomic.AddInt64(&st.lost, lostHere)
	if lostHere > 0 {
		atomic.AddInt64(&st.roundsWithLoss, 1)
	}
	atomic.AddInt64(&st.rounds, 1)
}

// runRace executes one `race …` case; the observation is `lost <k>`.
func runRace(toks []string, out *common.Out) string {
	mode := toks[0]
	m, w, b, p, addrs, workers, rounds := atoi(toks[1]), atoi(toks[2]), atoi(toks[3]), atoi(toks[4]), atoi(toks[5]), atoi(toks[6]), atoi(toks[7])
	rnd := common.NewRand(uint64(atoi(toks[8])))
	if mode != "manual" && mode != "ticker" {
		return "bad-case"
	}
	st := &raceStats{}
	par := 10
	sem := make(chan struct{}, par)
	var wg sync.WaitGroup
	for r := 0; r < rounds; r++ {
		sem <- struct{}{}
		wg.Add(1)
		rr := rnd.Fork()
		go func(r int) {
			defer wg.Done()
			defer func() { <-sem }()
			raceRound(mode, m, w, b, p, addrs, workers, rr, r, st)
		}(r)
	}
	wg.Wait()
	if out != nil {
		pre := "race-" + mode + ":"
		for k, v := range map[string]int64{"rounds": st.rounds, "failures-reporting-a-ban": st.reported, "lost-bans": st.lost,
			"rounds-with-lost-ban": st.roundsWithLoss, "void-late-question": st.void, "failures-overlapping-first-sweep": st.overlapped} {
			out.Counts[pre+k] += int(v)
		}
	}
	return fmt.Sprintf("lost %d", st.lost)
}

// Racing run 2 (simultaneous first contacts of one address).
//
// Per round a fresh limiter; in the evict flavours the address first gets a bucket, which then idles
// past the TTL.  `callers` goroutines call AllowIP for that address at the same moment:
//
//	first-parked / evict-parked: the harness holds the table lock (export shim), the callers park in
//	    front of the lookup, the lock is released — every caller passes the lookup before any of them
//	    can enter the create section (deterministic); in evict-parked cleanup() has dropped the bucket;
//	first-spin / evict-spin: released by a spin barrier; in evict-spin cleanup() runs behind the same
//	    barrier, so callers may also hold the old bucket while it is dropped.
//
// Observation `excess k`: the most by which any round exceeded the burst, after allowing for the refill
// over the measured span of the round's calls (rounded up).
func runRace2(toks []string, out *common.Out) string {
	mode := toks[0]
	rate, burst, ttl, callers, rounds := atoi(toks[1]), atoi(toks[2]), atoi(toks[3]), atoi(toks[4]), atoi(toks[5])
	rnd := common.NewRand(uint64(atoi(toks[6])))
	evict := strings.HasPrefix(mode, "evict")
	parked := strings.HasSuffix(mode, "parked")
	if !(evict || strings.HasPrefix(mode, "first")) || !(parked || strings.HasSuffix(mode, "spin")) {
		return "bad-case"
	}
	var maxAdm, over, total int64
	par := 12
	sem := make(chan struct{}, par)
	var wg sync.WaitGroup
	for r := 0; r < rounds; r++ {
		sem <- struct{}{}
		wg.Add(1)
		delay := time.Duration(rnd.Intn(30)) * time.Microsecond
		go func(r int) {
			defer wg.Done()
			defer func() { <-sem }()
			ctx, cancel := context.WithCancel(context.Background())
			defer cancel()
			lim := security.NewRateLimiter(&security.RateLimitConfig{Rate: rate, Burst: burst, TTL: time.Duration(ttl) * time.Millisecond}, nil, ctx)
			ip := fmt.Sprintf("10.9.%d.%d", r>>8&255, r&255)
			if evict {
				lim.AllowIP(ip)
				time.Sleep(time.Duration(ttl)*time.Millisecond + 6*time.Millisecond)
				if parked {
					lim.VerifCleanup()
				}
			}
			var adm int64
			var go_ int32
			var firstStart, lastEnd int64 // unix nanoseconds: span of the racing calls
			var cw sync.WaitGroup
			if parked {
				lim.VerifLockIPTable()
			}
			for c := 0; c < callers; c++ {
				cw.Add(1)
				go func() {
					defer cw.Done()
					for !parked && atomic.LoadInt32(&go_) == 0 {
					}
					a := time.Now().UnixNano()
					for {
						f := atomic.LoadInt64(&firstStart)
						if (f != 0 && f <= a) || atomic.CompareAndSwapInt64(&firstStart, f, a) {
							break
						}
					}
					if lim.AllowIP(ip) {
						atomic.AddInt64(&adm, 1)
					}
					b := time.Now().UnixNano()
					for {
						l := atomic.LoadInt64(&lastEnd)
						if l >= b || atomic.CompareAndSwapInt64(&lastEnd, l, b) {
							break
						}
					}
				}()
			}
			if parked {
				time.Sleep(2 * time.Millisecond) // the callers are parked on the table lock
				lim.VerifUnlockIPTable()
			} else {
				if evict {
					cw.Add(1)
					go func() {
						defer cw.Done()
						for atomic.LoadInt32(&go_) == 0 {
						}
						for t0 := time.Now(); time.Since(t0) < delay; {
						}
						lim.VerifCleanup()
					}()
				}
				time.Sleep(200 * time.Microsecond)
				atomic.StoreInt32(&go_, 1)
			}
			cw.Wait()
			// what the bucket may have refilled while the racing calls were under way (a descheduled
			// caller can arrive milliseconds late on a busy machine) does not count against the burst
			if span := lastEnd - firstStart; span > 0 && rate > 0 {
				adm -= (span*int64(rate) + 999999999) / 1000000000
			}
			atomic.AddInt64(&total, 1)
			exc := adm - int64(burst)
			if exc > 0 {
				atomic.AddInt64(&over, 1)
			}
			for {
				m := atomic.LoadInt64(&maxAdm)
				if exc <= m || atomic.CompareAndSwapInt64(&maxAdm, m, exc) {
					break
				}
			}
		}(r)
	}
	wg.Wait()
	if out != nil {
		out.Counts["race2-"+mode+":rounds"] += int(total)
		out.Counts["race2-"+mode+":rounds-over-burst"] += int(over)
	}
	return fmt.Sprintf("excess %d", maxAdm)
}

func raceCases(tier string, seed uint64) []job {
	rounds := 200
	if tier == "thorough" {
		rounds = 4000
	}
	r2 := 150
	if tier == "thorough" {
		r2 = 2000
	}
	var js []job
	for _, m := range []string{"first-parked", "first-spin"} {
		js = append(js, job{"", fmt.Sprintf("race2 %s 0 2 1000000 12 %d %d", m, r2, seed), "race2"})
	}
	for _, m := range []string{"evict-parked", "evict-spin"} {
		js = append(js, job{"", fmt.Sprintf("race2 %s 20 2 100 12 %d %d", m, r2, seed), "race2"})
	}
	return append(js, []job{
		{"", fmt.Sprintf("race manual 3 600000 150 1000 600 8 %d %d", rounds, seed), "race"},
		{"", fmt.Sprintf("race ticker 3 600000 150 1000 600 8 %d %d", rounds/4, seed), "race"},
	}...)
}
