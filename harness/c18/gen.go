//go:build verif

package main

import (
	"fmt"
	"strings"

	"tunnox-core/internal/verifharness/common"
)

// Generators only produce case strings.  Grid: instants are multiples of `tick` (20), durations
// are 20k+10.  maxT bounds the nominal length of a time line.
const maxT = 1600

func dur(r *common.Rand, lo, hi int) int { return 20*(lo+r.Intn(hi-lo+1)) + 10 }

type tlb struct {
	t   int
	evs []string
}

func (b *tlb) adv(ticks int) { b.t += ticks * tick }
func (b *tlb) add(f string, a ...any) {
	b.evs = append(b.evs, fmt.Sprintf("%d:", b.t)+fmt.Sprintf(f, a...))
}
func (b *tlb) full() bool { return b.t > maxT }

var addrs = []int{10<<24 | 1<<16 | 2<<8 | 3, 10<<24 | 1<<16 | 2<<8 | 4, 10<<24 | 2<<16 | 1, 192<<24 | 168<<16 | 1<<8 | 1}

// ---- protector

func genBFConfig(r *common.Rand) (m, w, b, p int) {
	m = 1 + r.Intn(4)
	w = dur(r, 1, 6)
	b = dur(r, 1, 8)
	switch r.Intn(8) {
	case 0:
		p = 1000
	case 1:
		p = m // permanent at the same count as the window threshold
	case 2:
		p = r.Intn(m + 1) // permanent first, possibly 0
	default:
		p = m + 1 + r.Intn(6)
	}
	if r.Intn(25) == 0 {
		m = 0
	}
	if r.Intn(30) == 0 {
		w = 0 // empty window: every failure is pruned at once, only the lifetime count can ban
	}
	return
}

func gapChoices(w, b int) []int {
	wt, bt := (w-10)/tick, (b-10)/tick
	return []int{0, 0, 0, 1, 1, 1, 2, 2, 3, wt, wt + 1, bt, bt + 1, wt + bt + 1}
}

func genBFRandom(r *common.Rand) string {
	m, w, b, p := genBFConfig(r)
	nip := 1 + r.Intn(3)
	tl := &tlb{t: tick}
	n := 6 + r.Intn(30)
	gaps := gapChoices(w, b)
	for i := 0; i < n && !tl.full(); i++ {
		ip := addrs[r.Intn(nip)]
		switch x := r.Intn(100); {
		case x < 45:
			tl.add("f:%d", ip)
		case x < 70:
			tl.add("q:%d", ip)
		case x < 77:
			tl.add("s:%d", ip)
		case x < 85:
			tl.add("c")
		default:
			tl.add("u:%d", ip)
		}
		tl.adv(common.Pick(r, gaps))
	}
	return fmt.Sprintf("bf %d %d %d %d %s", m, w, b, p, strings.Join(tl.evs, " "))
}

// structured: reach the threshold, probe both sides of the expiry, re-ban while an expired ban is
// being removed, delayed unban steps after the re-ban.
func genBFExpiry(r *common.Rand) string {
	m, w, b, p := genBFConfig(r)
	if m == 0 {
		m = 1
	}
	if p <= m {
		p = m + 2 + r.Intn(4)
	}
	ip := addrs[r.Intn(2)]
	tl := &tlb{t: tick}
	bt := (b - 10) / tick
	for i := 0; i < m; i++ {
		tl.add("f:%d", ip)
		if r.Intn(3) == 0 && (i+1)*tick < w-10 {
			tl.adv(1)
		}
	}
	tl.add("q:%d", ip)
	banAt := tl.t
	tl.t = banAt + bt*tick // last grid point inside the ban
	tl.add("q:%d", ip)
	tl.adv(1) // first grid point after expiry
	tl.add("q:%d", ip)
	if r.Bool() {
		tl.adv(r.Intn(2))
	}
	// re-ban (the failures may or may not still be inside the window), then late unban steps
	k := 1 + r.Intn(m+1)
	for i := 0; i < k; i++ {
		tl.add("f:%d", ip)
	}
	for i := 0; i < 1+r.Intn(3); i++ {
		if r.Bool() {
			tl.adv(r.Intn(2))
		}
		switch r.Intn(3) {
		case 0:
			tl.add("u:%d", ip)
		case 1:
			tl.add("c")
		default:
			tl.add("q:%d", ip)
		}
	}
	tl.add("q:%d", ip)
	tl.adv(bt + 1)
	tl.add("q:%d", ip)
	return fmt.Sprintf("bf %d %d %d %d %s", m, w, b, p, strings.Join(tl.evs, " "))
}

// structured: permanent threshold, then success + failures of handshakes still in flight, expiry probes.
func genBFPermanent(r *common.Rand) string {
	m := 1 + r.Intn(3)
	w := dur(r, 2, 6)
	b := dur(r, 1, 4)
	p := m + r.Intn(3)
	ip := addrs[0]
	tl := &tlb{t: tick}
	bt := (b - 10) / tick
	for i := 0; i < p; i++ {
		tl.add("f:%d", ip)
	}
	tl.add("q:%d", ip)
	if r.Bool() {
		tl.add("s:%d", ip)
	}
	if r.Bool() {
		tl.adv(1 + r.Intn(3))
	}
	for i := 0; i < m+r.Intn(2); i++ {
		tl.add("f:%d", ip)
	}
	tl.add("q:%d", ip)
	tl.adv(bt + 1)
	tl.add("q:%d", ip)
	if r.Bool() {
		tl.add("u:%d", ip)
		tl.add("c")
	}
	tl.adv(1)
	tl.add("q:%d", ip)
	return fmt.Sprintf("bf %d %d %d %d %s", m, w, b, p, strings.Join(tl.evs, " "))
}

// structured: failures spaced around the window so that pruning decides the count.
func genBFWindow(r *common.Rand) string {
	m := 2 + r.Intn(3)
	w := dur(r, 2, 6)
	b := dur(r, 2, 5)
	p := 1000
	if r.Intn(3) == 0 {
		p = m + 2 + r.Intn(3)
	}
	ip := addrs[0]
	wt := (w - 10) / tick
	tl := &tlb{t: tick}
	tl.add("f:%d", ip)
	// m-1 further failures; the last one either just inside or just outside the window of the first
	for i := 1; i < m-1; i++ {
		tl.adv(r.Intn(2))
		tl.add("f:%d", ip)
	}
	first := tick
	if r.Bool() {
		tl.t = first + wt*tick // inside: first + W > t
	} else {
		tl.t = first + (wt+1)*tick // outside
	}
	if r.Intn(4) == 0 {
		tl.add("c")
	}
	tl.add("f:%d", ip)
	tl.add("q:%d", ip)
	tl.adv(r.Intn(3))
	tl.add("f:%d", ip)
	tl.add("q:%d", ip)
	return fmt.Sprintf("bf %d %d %d %d %s", m, w, b, p, strings.Join(tl.evs, " "))
}

// ---- ip manager

var keys = []string{}

func init() {
	a := addrs[0]
	for _, x := range addrs {
		keys = append(keys, fmt.Sprintf("%d/x", x))
	}
	keys = append(keys,
		fmt.Sprintf("%d/8", 10<<24), fmt.Sprintf("%d/16", 10<<24|1<<16), fmt.Sprintf("%d/24", 10<<24|1<<16|2<<8),
		fmt.Sprintf("%d/32", a), fmt.Sprintf("%d/24", 10<<24|1<<16|2<<8|77), "0/0", fmt.Sprintf("%d/16", 192<<24|168<<16),
		fmt.Sprintf("%d/31", 10<<24|1<<16|2<<8|2), fmt.Sprintf("%d/30", 10<<24|1<<16|2<<8|4))
}

func ipmEvent(r *common.Rand, tl *tlb, pre string) {
	k := common.Pick(r, keys)
	ip := common.Pick(r, addrs)
	switch x := r.Intn(100); {
	case x < 30:
		d := 0
		if r.Intn(3) > 0 {
			d = dur(r, 0, 5)
		}
		tl.add(pre+"ab:%s:%d", k, d)
	case x < 62:
		tl.add(pre+"al:%d", ip)
	case x < 67:
		tl.add(pre + "rs")
	case x < 77:
		tl.add(pre+"ar:%d", ip)
	case x < 84:
		tl.add(pre + "c")
	case x < 89:
		tl.add(pre+"rb:%s", k)
	case x < 95:
		tl.add(pre+"aw:%s", k)
	default:
		tl.add(pre+"rw:%s", k)
	}
}

func genIPRandom(r *common.Rand) string {
	tl := &tlb{t: tick}
	n := 6 + r.Intn(30)
	for i := 0; i < n && !tl.full(); i++ {
		ipmEvent(r, tl, "")
		tl.adv(common.Pick(r, []int{0, 0, 1, 1, 2, 3, 5}))
	}
	return "ip " + strings.Join(tl.evs, " ")
}

// structured: an entry that expires while a wider entry is in force; re-adding an entry while its
// expired predecessor is being removed.
func genIPShadow(r *common.Rand) string {
	tl := &tlb{t: tick}
	ip := addrs[0]
	wide := common.Pick(r, []string{keys[4], keys[5], keys[6], keys[7], keys[9]})
	narrow := common.Pick(r, []string{keys[0], keys[6], keys[7], keys[5]})
	d := dur(r, 0, 3)
	if r.Bool() {
		tl.add("ab:%s:0", wide)
		tl.add("ab:%s:%d", narrow, d)
	} else {
		tl.add("ab:%s:%d", narrow, d)
		tl.add("ab:%s:%d", wide, common.Pick(r, []int{0, d + 100}))
	}
	tl.add("al:%d", ip)
	tl.t += d - 10
	tl.add("al:%d", ip)
	tl.adv(1)
	for i := 0; i < 3; i++ {
		tl.add("al:%d", ip)
	}
	if r.Bool() {
		tl.add("rb:%s", wide)
		tl.add("al:%d", ip)
		tl.add("ab:%s:%d", narrow, common.Pick(r, []int{0, 50}))
		tl.add("ar:%d", ip)
		tl.add("al:%d", ip)
		tl.add("c")
		tl.add("al:%d", ip)
	}
	return "ip " + strings.Join(tl.evs, " ")
}

// structured: entries of every kind (permanent / temporary, exact / CIDR, whitelist), then a new
// manager over the same storage, queries on it; removals, expiry and lazy removal before or after
// further reloads.
func genIPReload(r *common.Rand) string {
	tl := &tlb{t: tick}
	n := 1 + r.Intn(4)
	for i := 0; i < n; i++ {
		k := common.Pick(r, keys)
		switch r.Intn(5) {
		case 0:
			tl.add("aw:%s", k)
		case 1, 2:
			tl.add("ab:%s:0", k)
		default:
			tl.add("ab:%s:%d", k, dur(r, 0, 4))
		}
	}
	if r.Intn(4) == 0 {
		tl.adv(r.Intn(3))
	}
	tl.add("rs")
	for _, a := range addrs {
		tl.add("al:%d", a)
	}
	for i := 0; i < 1+r.Intn(3); i++ {
		tl.adv(r.Intn(4))
		switch r.Intn(6) {
		case 0:
			tl.add("rb:%s", common.Pick(r, keys))
		case 1:
			tl.add("rw:%s", common.Pick(r, keys))
		case 2:
			tl.add("ar:%d", common.Pick(r, addrs))
		case 3:
			tl.add("c")
		case 4:
			tl.add("ab:%s:%d", common.Pick(r, keys), common.Pick(r, []int{0, 0, 30, 70}))
		default:
			tl.add("al:%d", common.Pick(r, addrs))
		}
		if r.Bool() {
			tl.add("rs")
		}
		for _, a := range addrs {
			tl.add("al:%d", a)
		}
	}
	return "ip " + strings.Join(tl.evs, " ")
}

// ---- rate limiter

// ambiguous: would the answer of a Take at this instant depend on a few ms of clock jitter?
type bucket struct{ milli, last int }

func genRL(r *common.Rand) string {
	rate := common.Pick(r, []int{0, 0, 10, 20, 20, 40, 40})
	ttl := dur(r, 3, 12)
	maxBurst := rate * ttl / 1000
	if rate == 0 {
		ttl = 1000000
		maxBurst = 5
	}
	if maxBurst < 1 {
		ttl = 1000000
		maxBurst = 4
	}
	if maxBurst > 6 {
		maxBurst = 6
	}
	burst := 1 + r.Intn(maxBurst)
	nip := 1 + r.Intn(2)
	tl := &tlb{t: tick}
	bk := map[int]*bucket{}
	n := 8 + r.Intn(40)
	tt := (ttl - 10) / tick
	gaps := []int{0, 0, 0, 0, 1, 1, 2, 3, 5}
	if ttl < maxT {
		gaps = append(gaps, tt, tt+1)
	}
	for i := 0; i < n && !tl.full(); i++ {
		ip := addrs[r.Intn(nip)]
		if r.Intn(100) < 85 {
			b := bk[ip]
			fresh := b == nil
			if fresh {
				b = &bucket{milli: burst * 1000, last: tl.t}
				bk[ip] = b
			}
			u := b.milli + (tl.t-b.last)*rate // unclipped
			m := u
			if m > burst*1000 {
				m = burst * 1000
			}
			slack := rate*10 + 1 // more than 10 ms worth of refill
			// the answer must not depend on clock jitter: no refill at all, a fresh (full) bucket,
			// saturated with room to spare, or the token count is away from 1 by more than the slack
			if rate == 0 || fresh || u-burst*1000 >= slack || m-1000 >= slack || 1000-m >= slack {
				tl.add("a:%d", ip)
				if m >= 1000 {
					m -= 1000
				}
				b.milli, b.last = m, tl.t
			} else if fresh {
				delete(bk, ip)
			}
		} else {
			tl.add("c")
			for k, b := range bk {
				if tl.t-b.last > ttl {
					delete(bk, k)
				}
			}
		}
		tl.adv(common.Pick(r, gaps))
	}
	return fmt.Sprintf("rl %d %d %d 1000 %s", rate, burst, ttl, strings.Join(tl.evs, " "))
}

// AllowIP cut at its lock boundaries: calls that looked their bucket up (`lk`) and Take later (`tk`),
// with whole calls and a clean-up pass in between — in particular a clean-up that drops the very
// bucket the calls in flight are holding.  Everything after the ageing gap sits on one grid point and
// the aged bucket is saturated, so no answer depends on clock jitter.
func genRLSplit(r *common.Rand) string {
	burst := 1 + r.Intn(3)
	ttl := dur(r, 4, 7) // 90..150 ms
	rate := 40          // Burst*1000 <= Rate*TTL, and Rate*(TTL+10ms) >= Burst*1000 + slack: saturated after the gap
	ip := addrs[0]
	tl := &tlb{t: tick}
	for i := 0; i < 1+r.Intn(burst+1); i++ {
		tl.add("a:%d", ip)
	}
	if r.Intn(3) == 0 { // calls in flight across the ageing gap
		tl.add("lk:%d", ip)
	}
	held := len(tl.evs) - strings.Count(strings.Join(tl.evs, " "), ":a:")
	tl.adv((ttl-10)/tick + 1)
	k := 1 + r.Intn(burst+2)
	for i := 0; i < k; i++ {
		tl.add("lk:%d", ip)
	}
	held += k
	switch r.Intn(3) {
	case 0:
		tl.add("c") // drops the bucket: every call in flight holds an orphan
	case 1:
		tl.add("a:%d", ip) // touches the bucket first: the clean-up keeps it
		tl.add("c")
	}
	for held > 0 {
		switch r.Intn(4) {
		case 0:
			tl.add("a:%d", ip)
		default:
			tl.add("tk:%d:%d", ip, r.Intn(held))
			held--
		}
	}
	for i := 0; i < burst+1; i++ {
		tl.add("a:%d", ip)
	}
	return fmt.Sprintf("rl %d %d %d 1000 %s", rate, burst, ttl, strings.Join(tl.evs, " "))
}

// ---- handshake

// Handshake time lines cannot pre-compute the bucket (whether AllowIP is reached depends on the
// gates), so they avoid token counts near the threshold altogether: a large burst with 1 token/s
// (never near 1 token; Burst*U <= Rate*TTL holds), or a small burst with no refill (pure counter;
// TTL exceeds the time line, so no bucket is ever dropped).
func hsRate(burst int) int {
	if burst >= 1000 {
		return 1
	}
	return 0
}

var kinds = []string{"anonOk", "anonFail", "unknown", "noChallenge", "badResp", "good", "phase1", "expired"}

// hsTok: a handshake attempt token; the 4th field says how the harness presents it (remote address as
// 16-byte TCP, 4-byte TCP, UDP, or a generic "host:port" net.Addr; token spelling for ClientID 0) —
// the same model event whatever the presentation.
func hsTok(r *common.Rand, ip int, k string) string {
	form := common.Pick(r, []string{"", "", "tcp4", "udp", "str"})
	suffix := ""
	switch k {
	case "anonOk":
		suffix = common.Pick(r, []string{"", ".anon"})
	case "anonFail":
		suffix = common.Pick(r, []string{"", ".anon", ".tok"})
	}
	if form == "" && suffix == "" {
		return fmt.Sprintf("h:%d:%s", ip, k)
	}
	if form == "" {
		form = "tcp16"
	}
	return fmt.Sprintf("h:%d:%s:%s%s", ip, k, form, suffix)
}

func genHS(r *common.Rand) string {
	m, w, b, p := genBFConfig(r)
	burst := common.Pick(r, []int{1, 2, 3, 1000, 1000})
	nip := 1 + r.Intn(2)
	tl := &tlb{t: tick}
	n := 8 + r.Intn(30)
	gaps := gapChoices(w, b)
	failHeavy := r.Bool()
	for i := 0; i < n && !tl.full(); i++ {
		ip := addrs[r.Intn(nip)]
		switch x := r.Intn(100); {
		case x < 66:
			k := common.Pick(r, kinds)
			if failHeavy && r.Bool() {
				k = common.Pick(r, []string{"unknown", "noChallenge", "badResp", "anonFail"})
			}
			tl.add("%s", hsTok(r, ip, k))
		case x < 80:
			ipmEvent(r, tl, "i:")
		case x < 88:
			tl.add("p:u:%d", ip)
		case x < 93:
			tl.add("p:c")
		case x < 97:
			tl.add("p:q:%d", ip)
		default:
			tl.add("rc")
		}
		tl.adv(common.Pick(r, gaps))
	}
	return fmt.Sprintf("hs %d %d %d %d %d %d 1000000 1000 %s", m, w, b, p, hsRate(burst), burst, strings.Join(tl.evs, " "))
}

// a locked address keeps trying every kind of handshake until the ban is over
func genHSLocked(r *common.Rand) string {
	m := 1 + r.Intn(3)
	w := dur(r, 2, 6)
	b := dur(r, 2, 6)
	p := common.Pick(r, []int{m, m + 1, m + 3, 1000})
	ip := addrs[0]
	tl := &tlb{t: tick}
	for i := 0; i < m; i++ {
		tl.add("%s", hsTok(r, ip, common.Pick(r, []string{"unknown", "noChallenge", "badResp", "anonFail"})))
	}
	bt := (b - 10) / tick
	for i := 0; i <= bt+1; i++ {
		tl.add("%s", hsTok(r, ip, common.Pick(r, kinds)))
		if r.Intn(4) == 0 {
			tl.add("p:u:%d", ip)
		}
		tl.adv(1)
	}
	tl.add("h:%d:%s", ip, common.Pick(r, kinds))
	burst := common.Pick(r, []int{2, 1000})
	return fmt.Sprintf("hs %d %d %d %d %d %d 1000000 1000 %s", m, w, b, p, hsRate(burst), burst, strings.Join(tl.evs, " "))
}

// Exhaustive small scope: every sequence of `n` steps over the given alphabet, each step followed by
// a gap of 0 or 2 grid points (the gap crosses the 30 ms ban / entry life time; two gaps leave the
// 50 ms window), closed by a query now and a query two grid points later.  This enumerates every
// placement of the delayed unban / removal steps and clean-ups relative to failures, expiry and re-ban.
func exhaustive(prefix string, alphabet []string, closing string, n int) []string {
	var out []string
	var rec func(depth int, tl tlb)
	rec = func(depth int, tl tlb) {
		if depth == n {
			t2 := tlb{t: tl.t, evs: append([]string{}, tl.evs...)}
			t2.add(closing)
			t2.adv(2)
			t2.add(closing)
			out = append(out, prefix+strings.Join(t2.evs, " "))
			return
		}
		for _, op := range alphabet {
			for _, gap := range []int{0, 2} {
				t2 := tlb{t: tl.t, evs: append([]string{}, tl.evs...)}
				t2.add(op)
				t2.adv(gap)
				rec(depth+1, t2)
			}
		}
	}
	rec(0, tlb{t: tick})
	return out
}

// ---- the shipped defaults (nil configuration, as the server wires the components)

// 5 failures ban, 20 ban for ever; windows and ban periods are minutes, so only counts are exercised.
func genBFDefault(r *common.Rand) string {
	tl := &tlb{t: tick}
	nip := 1 + r.Intn(2)
	n := 8 + r.Intn(40)
	for i := 0; i < n; i++ {
		ip := addrs[r.Intn(nip)]
		switch x := r.Intn(100); {
		case x < 62:
			tl.add("f:%d", ip)
		case x < 82:
			tl.add("q:%d", ip)
		case x < 87:
			tl.add("s:%d", ip)
		case x < 93:
			tl.add("c")
		default:
			tl.add("u:%d", ip)
		}
		if r.Intn(4) == 0 {
			tl.adv(r.Intn(3))
		}
	}
	return "bfd " + strings.Join(tl.evs, " ")
}

// 10 tokens/s, burst 20: a burst at one instant, then calls spaced so that the token count is never
// within 0.1 of one token (same filter as genRL).
func genRLDefault(r *common.Rand) string {
	const rate, burst = 10, 20
	tl := &tlb{t: tick}
	milli, last, fresh := burst*1000, tick, true
	n := 22 + r.Intn(30)
	for i := 0; i < n && !tl.full(); i++ {
		u := milli + (tl.t-last)*rate
		m := u
		if m > burst*1000 {
			m = burst * 1000
		}
		slack := rate*10 + 1
		if fresh || u-burst*1000 >= slack || m-1000 >= slack || 1000-m >= slack {
			tl.add("a:%d", addrs[0])
			if m >= 1000 {
				m -= 1000
			}
			milli, last, fresh = m, tl.t, false
		}
		if r.Intn(100) < 8 {
			tl.add("c")
		}
		tl.adv(common.Pick(r, []int{0, 0, 0, 0, 0, 0, 1, 2, 4, 7}))
	}
	return "rld " + strings.Join(tl.evs, " ")
}

// handshakes against the default wiring: 5 failed attempts lock the address; more than 20 anonymous
// registrations at one instant are rate limited (all registrations sit on one grid point, so the
// bucket never comes near one token again within the case).
func genHSDefault(r *common.Rand) string {
	tl := &tlb{t: tick}
	ip, other := addrs[0], addrs[1]
	if r.Bool() {
		for i := 0; i < 19+r.Intn(6); i++ {
			tl.add("%s", hsTok(r, ip, "anonOk"))
		}
		tl.adv(r.Intn(2))
	}
	for i := 0; i < 3+r.Intn(5); i++ {
		tl.add("%s", hsTok(r, ip, common.Pick(r, []string{"unknown", "noChallenge", "badResp", "expired", "phase1", "good"})))
		if r.Intn(3) == 0 {
			tl.adv(1)
		}
	}
	for i := 0; i < 2+r.Intn(4); i++ {
		tl.add("%s", hsTok(r, common.Pick(r, []int{ip, other}), common.Pick(r, []string{"good", "unknown", "badResp", "phase1", "expired"})))
		if r.Intn(3) == 0 {
			tl.add("p:u:%d", ip)
			tl.add("p:c")
		}
	}
	return "hsd " + strings.Join(tl.evs, " ")
}

func generate(r *common.Rand, tier string) []job {
	mult := 1
	if tier == "thorough" {
		mult = 11
	}
	var jobs []job
	add := func(n int, kind string, g func(*common.Rand) string) {
		for i := 0; i < n*mult; i++ {
			jobs = append(jobs, job{"", g(r), kind})
		}
	}
	depth := 3
	if tier == "thorough" {
		depth = 4
	}
	ip := fmt.Sprint(addrs[0])
	for _, c := range exhaustive("bf 1 50 30 3 ", []string{"f:" + ip, "q:" + ip, "s:" + ip, "u:" + ip, "c"}, "q:"+ip, depth) {
		jobs = append(jobs, job{"", c, "bf-exhaustive"})
	}
	for _, c := range exhaustive("ip ", []string{"ab:" + ip + "/x:30", "ab:167772160/8:0", "rb:167772160/8", "ar:" + ip, "c", "al:" + ip}, "al:"+ip, depth) {
		jobs = append(jobs, job{"", c, "ip-exhaustive"})
	}
	add(260, "bf-random", genBFRandom)
	add(120, "bf-expiry", genBFExpiry)
	add(70, "bf-permanent", genBFPermanent)
	add(70, "bf-window", genBFWindow)
	add(200, "ip-random", genIPRandom)
	add(80, "ip-shadow", genIPShadow)
	add(120, "ip-reload", genIPReload)
	for _, c := range exhaustive("ip ", []string{"ab:" + ip + "/x:0", "ab:" + ip + "/x:30", "ab:167772160/8:0", "aw:" + ip + "/x", "rs"}, "al:"+ip, depth) {
		jobs = append(jobs, job{"", c, "ip-reload-exhaustive"})
	}
	add(220, "rl", genRL)
	add(100, "rl-split", genRLSplit)
	add(60, "bf-default-config", genBFDefault)
	add(40, "rl-default-config", genRLDefault)
	add(60, "hs-default-config", genHSDefault)
	add(240, "hs-random", genHS)
	add(80, "hs-locked", genHSLocked)
	return jobs
}
