//go:build verif

// Harness for C04: the REAL open-tunnel dispatcher (SessionManager.HandlePacket(TunnelOpen) with the real
// ServerTunnelHandler, the real conncode.Service, the real BuiltinCloudControl and routing table on memory
// storage) driven through every cell of
// connection identity x presented credential x mapping state x tunnel state at arrival.
//
//	open pl <ok|junk|empty> maps <k> (<id> <listen> <target> <secret|-> <a|i> <rev 0|1> <exp 0|1|2>)*
//	     conn <hs 0|1|2> <cid> req <mid|-> <secret|-> <token|-> ts <none | bridge <mid> <served 0|1> | remote <mid> | local <mid>>
//	## ack <none|ok|fail> acks <n> att <none|src|tgt|fwd> on <mapping of the bridge that holds the requester|-> data <0|1> ret <switch|err|nil|pending>
//
// maps: the port mappings that exist WHEN THE REQUEST ARRIVES (active/inactive, revoked, expiry: 0 none, 1 past,
// 2 future).  A bridge for mapping <mid> is set up beforehand by a legitimate listen client (and, when served, a
// legitimate target) through the same real code while that mapping was active; the mapping is then brought to
// the listed state, or deleted when it is not listed.  remote: the routing table says the tunnel waits on node-B
// (a TCP listener of the harness); local: it names this node although no bridge exists.
// conn: hs 0 = no handshake, 1 = handshake accepted as client <cid>, 2 = handshake refused.
// ack = TunnelOpenAck read on the requesting connection; att = what the bridge (or the other node) holds of the
// requester afterwards; data = bytes written by the other end became readable on the requester.
//
//	e2e ## secret <set|empty> src <ack> tgt <ack> data <0|1>      (see runE2E)
package main

import (
	"bytes"
	"context"
	"encoding/json"
	"errors"
	"flag"
	"fmt"
	"io"
	"net"
	"os"
	"strconv"
	"strings"
	"sync"
	"sync/atomic"
	"time"

	"tunnox-core/internal/app/server"
	"tunnox-core/internal/cloud/factories"
	"tunnox-core/internal/cloud/managers"
	"tunnox-core/internal/cloud/models"
	"tunnox-core/internal/cloud/repos"
	"tunnox-core/internal/cloud/services"
	"tunnox-core/internal/cloud/stats"
	"tunnox-core/internal/constants"
	coreerrors "tunnox-core/internal/core/errors"
	"tunnox-core/internal/core/idgen"
	"tunnox-core/internal/core/storage"
	"tunnox-core/internal/core/storage/memory"
	"tunnox-core/internal/core/types"
	"tunnox-core/internal/packet"
	"tunnox-core/internal/protocol/session"
	"tunnox-core/internal/stream"
	vc "tunnox-core/internal/verifharness/common"
)

// ---------------------------------------------------------------- in-memory duplex connection

type pipeEnd struct {
	mu     sync.Mutex
	cond   *sync.Cond
	in     bytes.Buffer // bytes written by the peer, not yet read
	closed bool
	peerCl bool
	peer   *pipeEnd
	name   string
	rdl    time.Time
	// gated double: when armed, the next Write blocks (gateHit is closed) until gateRelease is closed
	gateArmed   bool
	gateHit     chan struct{}
	gateRelease chan struct{}
}

// armGate makes the next Write on this end stop before it delivers anything, until release() is called.
func (p *pipeEnd) armGate() (hit <-chan struct{}, release func()) {
	p.mu.Lock()
	defer p.mu.Unlock()
	p.gateArmed = true
	p.gateHit = make(chan struct{})
	p.gateRelease = make(chan struct{})
	rel := p.gateRelease
	var once sync.Once
	return p.gateHit, func() { once.Do(func() { close(rel) }) }
}

func newPipe(name string) (srv, cli *pipeEnd) {
	srv = &pipeEnd{name: name + "/srv"}
	cli = &pipeEnd{name: name + "/cli"}
	srv.cond = sync.NewCond(&srv.mu)
	cli.cond = sync.NewCond(&cli.mu)
	srv.peer, cli.peer = cli, srv
	return
}

type timeoutErr struct{}

func (timeoutErr) Error() string   { return "i/o timeout" }
func (timeoutErr) Timeout() bool   { return true }
func (timeoutErr) Temporary() bool { return true }

func (p *pipeEnd) Read(b []byte) (int, error) {
	p.mu.Lock()
	defer p.mu.Unlock()
	for {
		if p.in.Len() > 0 {
			return p.in.Read(b)
		}
		if p.closed {
			return 0, net.ErrClosed
		}
		if p.peerCl {
			return 0, io.EOF
		}
		if !p.rdl.IsZero() && !time.Now().Before(p.rdl) {
			return 0, timeoutErr{}
		}
		p.cond.Wait()
	}
}

func (p *pipeEnd) Write(b []byte) (int, error) {
	p.mu.Lock()
	cl := p.closed
	var rel chan struct{}
	if p.gateArmed {
		p.gateArmed = false
		rel = p.gateRelease
		close(p.gateHit)
	}
	p.mu.Unlock()
	if rel != nil {
		<-rel
	}
	if cl {
		return 0, net.ErrClosed
	}
	q := p.peer
	q.mu.Lock()
	defer q.mu.Unlock()
	if q.closed {
		return 0, io.ErrClosedPipe
	}
	q.in.Write(b)
	q.cond.Broadcast()
	return len(b), nil
}

func (p *pipeEnd) Close() error {
	p.mu.Lock()
	p.closed = true
	p.cond.Broadcast()
	p.mu.Unlock()
	q := p.peer
	q.mu.Lock()
	q.peerCl = true
	q.cond.Broadcast()
	q.mu.Unlock()
	return nil
}

type addr string

func (a addr) Network() string { return "verif" }
func (a addr) String() string  { return string(a) }

func (p *pipeEnd) LocalAddr() net.Addr  { return addr("local-" + p.name) }
func (p *pipeEnd) RemoteAddr() net.Addr { return addr("remote-" + p.name) }
func (p *pipeEnd) SetDeadline(t time.Time) error {
	return p.SetReadDeadline(t)
}
func (p *pipeEnd) SetReadDeadline(t time.Time) error {
	p.mu.Lock()
	p.rdl = t
	p.cond.Broadcast()
	p.mu.Unlock()
	if !t.IsZero() {
		d := time.Until(t)
		if d < 0 {
			d = 0
		}
		time.AfterFunc(d, func() {
			p.mu.Lock()
			p.cond.Broadcast()
			p.mu.Unlock()
		})
	}
	return nil
}
func (p *pipeEnd) SetWriteDeadline(t time.Time) error { return nil }

// snapshot returns (without consuming) what the peer has written so far.
func (p *pipeEnd) snapshot() []byte {
	p.mu.Lock()
	defer p.mu.Unlock()
	return append([]byte(nil), p.in.Bytes()...)
}

func (p *pipeEnd) drain() {
	p.mu.Lock()
	p.in.Reset()
	p.mu.Unlock()
}

// ---------------------------------------------------------------- gated store

// gateStore is the real memory storage; when armed for a key, the next Set of that key stops before it writes,
// until released: the caller sits between its read and its write of the record (a read-modify-write in flight).
type gateStore struct {
	*memory.Storage
	mu      sync.Mutex
	key     string
	hit     chan struct{}
	release chan struct{}
	// the same for the next Get of a key: the caller stops BEFORE it reads
	getKey     string
	getHit     chan struct{}
	getRelease chan struct{}
	getAfter   bool
}

func (g *gateStore) armGet(key string) (hit <-chan struct{}, release func()) {
	g.mu.Lock()
	defer g.mu.Unlock()
	g.getKey, g.getHit, g.getRelease, g.getAfter = key, make(chan struct{}), make(chan struct{}), false
	rel := g.getRelease
	var once sync.Once
	return g.getHit, func() { once.Do(func() { close(rel) }) }
}

func (g *gateStore) Get(key string) (any, error) {
	g.mu.Lock()
	var rel, relAfter chan struct{}
	if g.getKey != "" && key == g.getKey {
		g.getKey = ""
		if g.getAfter {
			relAfter = g.getRelease
		} else {
			rel = g.getRelease
			close(g.getHit)
		}
	}
	g.mu.Unlock()
	if rel != nil {
		<-rel
	}
	v, err := g.Storage.Get(key)
	if relAfter != nil {
		// the caller has read the record; it gets the answer only when released
		close(g.getHit)
		<-relAfter
	}
	return v, err
}

// armGetAfter: the next Get of key performs its read and is then held before it returns.
func (g *gateStore) armGetAfter(key string) (hit <-chan struct{}, release func()) {
	hit, release = g.armGet(key)
	g.mu.Lock()
	g.getAfter = true
	g.mu.Unlock()
	return
}

func (g *gateStore) arm(key string) (hit <-chan struct{}, release func()) {
	g.mu.Lock()
	defer g.mu.Unlock()
	g.key, g.hit, g.release = key, make(chan struct{}), make(chan struct{})
	rel := g.release
	var once sync.Once
	return g.hit, func() { once.Do(func() { close(rel) }) }
}

func (g *gateStore) Set(key string, value any, ttl time.Duration) error {
	g.mu.Lock()
	var rel chan struct{}
	if g.key != "" && key == g.key {
		g.key = ""
		rel = g.release
		close(g.hit)
	}
	g.mu.Unlock()
	if rel != nil {
		<-rel
	}
	return g.Storage.Set(key, value, ttl)
}

// gatedPMS is the real PortMappingService handed to the connection-code service; when armed, the k-th
// GetPortMapping of the armed mapping returns its (real) answer only after the gate is released: the caller has READ
// the record and has not yet written it back — outside the repository's read coalescing, and wherever the caller
// takes its lock.
type gatedPMS struct {
	services.PortMappingService
	mu      sync.Mutex
	id      string
	left    int
	hit     chan struct{}
	release chan struct{}
}

func (g *gatedPMS) armRead(id string, kth int) (hit <-chan struct{}, release func()) {
	g.mu.Lock()
	defer g.mu.Unlock()
	g.id, g.left, g.hit, g.release = id, kth, make(chan struct{}), make(chan struct{})
	rel := g.release
	var once sync.Once
	return g.hit, func() { once.Do(func() { close(rel) }) }
}

func (g *gatedPMS) GetPortMapping(id string) (*models.PortMapping, error) {
	m, err := g.PortMappingService.GetPortMapping(id)
	g.mu.Lock()
	var rel chan struct{}
	if g.id != "" && id == g.id {
		g.left--
		if g.left == 0 {
			g.id = ""
			rel = g.release
			close(g.hit)
		}
	}
	g.mu.Unlock()
	if rel != nil {
		<-rel
	}
	return m, err
}

// ---------------------------------------------------------------- auth double

// stubAuth accepts a handshake exactly when the token is "ok"; like the real handler it sets the client id
// only together with the authenticated flag (who may authenticate as whom is property C03, not C04).
type stubAuth struct{}

func (stubAuth) HandleHandshake(conn session.ControlConnectionInterface, req *packet.HandshakeRequest) (*packet.HandshakeResponse, error) {
	if req.Token == "ok" && req.ClientID > 0 {
		conn.SetClientID(req.ClientID)
		conn.SetAuthenticated(true)
		return &packet.HandshakeResponse{Success: true}, nil
	}
	return &packet.HandshakeResponse{Success: false, Error: "refused"}, errors.New("handshake refused")
}
func (stubAuth) GetClientConfig(conn session.ControlConnectionInterface) (string, error) {
	return "", nil
}

// ---------------------------------------------------------------- cases

type mappingT struct {
	id             string
	listen, target int64
	secret         string
	active         bool
	revoked        bool
	expired        int // 0 = never expires, 1 = expired an hour ago, 2 = expires in an hour, 3 = expOff seconds from now
	expOff         int // with expired == 3: ExpiresAt = (the moment the request is sent) + expOff seconds (negative: past)
}

type caseT struct {
	pl         string
	maps       []mappingT
	hs         int
	cid        int64
	rmid       string
	rsec       string
	rtok       string
	ts         string // none | bridge | remote
	tsMid      string
	served     bool
	scid       int64  // what the transport object behind the requester's stream answers to GetClientID()
	temp       bool   // ... and to CanCreateTemporaryControlConn()
	asserts    bool   // the transport object has these methods at all
	cfg        string // "" | norouting (no routing table on this node) | nodedown (node-B cannot be reached)
	late       string // "" | bridge | route | remote : what appears for the tunnel id while the request polls (ts none only)
	lateMid    string
	parseError string
}

func dash(s string) string {
	if s == "" {
		return "-"
	}
	return s
}
func undash(s string) string {
	if s == "-" {
		return ""
	}
	return s
}
func b2s(b bool) string {
	if b {
		return "1"
	}
	return "0"
}

// expTok: 0 | 1 | 2 | e<+-seconds>
func expTok(m mappingT) string {
	if m.expired == 3 {
		return fmt.Sprintf("e%+d", m.expOff)
	}
	return strconv.Itoa(m.expired)
}

func (c *caseT) String() string {
	var sb strings.Builder
	fmt.Fprintf(&sb, "open pl %s maps %d", c.pl, len(c.maps))
	for _, m := range c.maps {
		st := "i"
		if m.active {
			st = "a"
		}
		fmt.Fprintf(&sb, " %s %d %d %s %s %s %s", m.id, m.listen, m.target, dash(m.secret), st, b2s(m.revoked), expTok(m))
	}
	fmt.Fprintf(&sb, " conn %d %d", c.hs, c.cid)
	if c.asserts {
		fmt.Fprintf(&sb, " asserts %d %s", c.scid, b2s(c.temp))
	}
	fmt.Fprintf(&sb, " req %s %s %s ts ", dash(c.rmid), dash(c.rsec), dash(c.rtok))
	switch c.ts {
	case "bridge":
		fmt.Fprintf(&sb, "bridge %s %s", c.tsMid, b2s(c.served))
	case "remote", "local", "expired":
		fmt.Fprintf(&sb, "%s %s", c.ts, c.tsMid)
	default:
		sb.WriteString("none")
	}
	if c.late != "" {
		fmt.Fprintf(&sb, " late %s %s", c.late, c.lateMid)
	}
	if c.cfg != "" {
		fmt.Fprintf(&sb, " cfg %s", c.cfg)
	}
	return sb.String()
}

func parseCase(s string) (c *caseT, err error) {
	defer func() {
		if r := recover(); r != nil {
			err = fmt.Errorf("bad case: %v", r)
		}
	}()
	t := strings.Fields(s)
	i := 0
	next := func() string { i++; return t[i-1] }
	expect := func(w string) {
		if g := next(); g != w {
			panic("expected " + w + " got " + g)
		}
	}
	atoi := func(x string) int64 {
		v, e := strconv.ParseInt(x, 10, 64)
		if e != nil {
			panic(e)
		}
		return v
	}
	c = &caseT{}
	expect("open")
	expect("pl")
	c.pl = next()
	expect("maps")
	k := int(atoi(next()))
	for j := 0; j < k; j++ {
		m := mappingT{id: next()}
		m.listen = atoi(next())
		m.target = atoi(next())
		m.secret = undash(next())
		m.active = next() == "a"
		m.revoked = next() == "1"
		if et := next(); strings.HasPrefix(et, "e") {
			m.expired, m.expOff = 3, int(atoi(et[1:]))
		} else {
			m.expired = int(atoi(et))
		}
		c.maps = append(c.maps, m)
	}
	expect("conn")
	c.hs = int(atoi(next()))
	c.cid = atoi(next())
	if t[i] == "asserts" {
		next()
		c.asserts = true
		c.scid = atoi(next())
		c.temp = next() == "1"
	}
	expect("req")
	c.rmid = undash(next())
	c.rsec = undash(next())
	c.rtok = undash(next())
	expect("ts")
	c.ts = next()
	switch c.ts {
	case "bridge":
		c.tsMid = next()
		c.served = next() == "1"
	case "remote", "local", "expired":
		c.tsMid = next()
	case "none":
	default:
		panic("bad ts " + c.ts)
	}
	if i < len(t) && t[i] == "cfg" {
		next()
		c.cfg = next()
		if c.cfg != "norouting" && c.cfg != "nodedown" {
			panic("bad cfg " + c.cfg)
		}
	} else if i < len(t) {
		expect("late")
		c.late = next()
		if c.late != "bridge" && c.late != "route" && c.late != "remote" && c.late != "window" && c.late != "early" {
			panic("bad late " + c.late)
		}
		c.lateMid = next()
		if c.ts != "none" {
			panic("late only with ts none")
		}
		if i < len(t) {
			expect("cfg")
			c.cfg = next()
			if c.cfg != "nodedown" {
				panic("only cfg nodedown combines with late")
			}
		}
	}
	return c, nil
}

// ---------------------------------------------------------------- world

const tunnelID = "verif-tunnel-01"
const marker = "SRC->DATA:c04-marker"
const ping = "served-PING"
const pong = "back-PONG"

type world struct {
	ctx       context.Context
	cancel    context.CancelFunc
	sm        *session.SessionManager
	mrepo     *repos.PortMappingRepo
	pms       services.PortMappingService
	ccs       *services.ConnectionCodeService
	ccs2      *services.ConnectionCodeService
	cc        *managers.BuiltinCloudControl
	gs        *gateStore
	gpms      *gatedPMS
	st        storage.Storage
	decoy     *assertingConn
	th        *server.ServerTunnelHandler
	ccAdapter session.CloudControlAPI
	rt        *session.TunnelRoutingTable
	conns     []*pipeEnd
	ln        net.Listener
	fwd       atomic.Bool
}

func newWorld() *world { return newWorldCfg("") }

func newWorldCfg(cfg string) *world {
	w := &world{}
	w.ctx, w.cancel = context.WithCancel(context.Background())
	w.gs = &gateStore{Storage: memory.New(w.ctx)}
	var st storage.Storage = w.gs
	w.st = st
	repo := repos.NewRepository(st)
	cc := factories.NewBuiltinCloudControlWithRepo(w.ctx, managers.DefaultConfig(), st, repo)
	w.mrepo = repos.NewPortMappingRepo(repo)
	w.pms = cc.GetPortMappingService()
	w.gpms = &gatedPMS{PortMappingService: cc.GetPortMappingService()}
	ccs := services.NewConnectionCodeService(repos.NewConnectionCodeRepository(repo), w.gpms, w.mrepo, nil, w.ctx)
	w.ccs, w.cc = ccs, cc
	// a second, independent instance of the services over the same storage (another component of the same process):
	// its repository has its own read coalescing, the per-mapping lock is shared
	pms2 := services.NewPortMappingService(w.mrepo, idgen.NewIDManager(st, w.ctx), nil, w.ctx)
	w.ccs2 = services.NewConnectionCodeService(repos.NewConnectionCodeRepository(repo), pms2, w.mrepo, nil, w.ctx)
	th := server.NewServerTunnelHandler(cc, ccs)
	w.th, w.ccAdapter = th, session.NewCloudControlAdapter(cc)
	w.sm = session.NewSessionManager(idgen.NewIDManager(st, w.ctx), w.ctx)
	w.sm.SetTunnelHandler(th)
	w.sm.SetAuthHandler(stubAuth{})
	w.sm.SetCloudControl(session.NewCloudControlAdapter(cc))
	w.sm.SetNodeID("node-A")
	w.rt = session.NewTunnelRoutingTable(st, 30*time.Second)
	if cfg != "norouting" {
		w.sm.SetTunnelRoutingTable(w.rt)
	}
	w.sm.SetTunnelConnectionManager(session.NewTunnelConnectionManager(func(nodeID string) (string, error) {
		if w.ln == nil || cfg == "nodedown" {
			return "", errors.New("no such node")
		}
		return w.ln.Addr().String(), nil
	}, session.DefaultTunnelConnectionManagerConfig()))
	return w
}

func (w *world) close() {
	for _, c := range w.conns {
		c.Close()
		c.peer.Close()
	}
	if w.ln != nil {
		w.ln.Close()
	}
	if m := w.sm.GetTunnelConnectionManager(); m != nil {
		m.Close()
	}
	w.cancel()
	w.sm.Close()
}

func toModel(m mappingT) *models.PortMapping {
	pm := &models.PortMapping{
		ID: m.id, ListenClientID: m.listen, TargetClientID: m.target, Protocol: models.ProtocolTCP,
		TargetHost: "127.0.0.1", TargetPort: 9, SecretKey: m.secret, Status: models.MappingStatusInactive,
		IsRevoked: m.revoked, CreatedAt: time.Now(), UpdatedAt: time.Now(),
	}
	if m.active {
		pm.Status = models.MappingStatusActive
	}
	switch m.expired {
	case 1:
		t := time.Now().Add(-time.Hour)
		pm.ExpiresAt = &t
	case 2:
		t := time.Now().Add(time.Hour)
		pm.ExpiresAt = &t
	case 3:
		t := time.Now().Add(time.Duration(m.expOff) * time.Second)
		pm.ExpiresAt = &t
	}
	return pm
}

// readBarrier: GenericRepository.Get coalesces concurrent reads of one key (singleflight), so a read that starts
// AFTER a write completed can still be handed the pre-write value of a read that was already in flight (here: the
// asynchronous notifyTargetClientToOpenTunnel started by the set-up tunnel).  The case under test is "the mapping
// is in the listed state when the request arrives", so reads through the same service are drained first: a call
// that joined a stale flight returns with it, the next one starts a fresh read.
func (w *world) readBarrier(id string) {
	for i := 0; i < 3; i++ {
		w.pms.GetPortMapping(id)
	}
}

type peer struct {
	id  string // connection id assigned by the session manager
	srv *pipeEnd
	cli *pipeEnd
}

func (w *world) connect(name string) (*peer, error) {
	srv, cli := newPipe(name)
	w.conns = append(w.conns, srv)
	sc, err := w.sm.AcceptConnection(srv, srv)
	if err != nil {
		return nil, err
	}
	return &peer{id: sc.ID, srv: srv, cli: cli}, nil
}

// assertingConn is a transport object that, like a transport which authenticates its peer itself, answers
// GetClientID / CanCreateTemporaryControlConn / SetMappingID (the interfaces handleTunnelOpen probes the
// stream's reader for).  No transport in the repository does; the double drives those branches.
type assertingConn struct {
	*pipeEnd
	cid     int64
	temp    bool
	mapping atomic.Value
	asked   atomic.Int64 // how often GetClientID was called
}

func (a *assertingConn) GetClientID() int64                  { a.asked.Add(1); return a.cid }
func (a *assertingConn) CanCreateTemporaryControlConn() bool { return a.temp }
func (a *assertingConn) SetMappingID(m string)               { a.mapping.Store(m) }

func (w *world) connectAsserting(name string, cid int64, temp bool) (*peer, error) {
	srv, cli := newPipe(name)
	w.conns = append(w.conns, srv)
	ac := &assertingConn{pipeEnd: srv, cid: cid, temp: temp}
	sc, err := w.sm.AcceptConnection(ac, ac)
	if err != nil {
		return nil, err
	}
	if name == "decoy" {
		w.decoy = ac
	}
	return &peer{id: sc.ID, srv: srv, cli: cli}, nil
}

// awaitNotifyScan: startSourceBridge starts `go notifyTargetClientToOpenTunnel`, which (no control connection of
// the target client being registered) scans a snapshot of all connections and asks each transport object for its
// client id.  A connection made after the decoy was asked is not in that snapshot: the requester then cannot be
// picked up by a notification belonging to the set-up phase.
func (w *world) awaitNotifyScan(before int64) bool {
	if w.decoy == nil {
		return true
	}
	for dl := time.Now().Add(3 * time.Second); time.Now().Before(dl); {
		if w.decoy.asked.Load() > before {
			return true
		}
		time.Sleep(100 * time.Microsecond)
	}
	return false
}

func (w *world) handshake(p *peer, cid int64, ok bool) {
	tok := "bad"
	if ok {
		tok = "ok"
	}
	pl, _ := json.Marshal(&packet.HandshakeRequest{ClientID: cid, Token: tok, Version: "verif", Protocol: "tcp", ConnectionType: "tunnel"})
	w.sm.HandlePacket(&types.StreamPacket{ConnectionID: p.id, Packet: &packet.TransferPacket{PacketType: packet.Handshake, Payload: pl}})
	p.cli.drain()
}

// controlHandshake: the client's long-lived control connection (ConnectionType "control").
func (w *world) controlHandshake(p *peer, cid int64) {
	pl, _ := json.Marshal(&packet.HandshakeRequest{ClientID: cid, Token: "ok", Version: "verif", Protocol: "tcp", ConnectionType: "control"})
	w.sm.HandlePacket(&types.StreamPacket{ConnectionID: p.id, Packet: &packet.TransferPacket{PacketType: packet.Handshake, Payload: pl}})
	p.cli.drain()
}

func (w *world) open(p *peer, payload []byte) error {
	return w.sm.HandlePacket(&types.StreamPacket{ConnectionID: p.id, Packet: &packet.TransferPacket{PacketType: packet.TunnelOpen, TunnelID: tunnelID, Payload: payload}})
}

func openPayload(mid, sec, tok string) []byte {
	b, _ := json.Marshal(&packet.TunnelOpenRequest{MappingID: mid, TunnelID: tunnelID, SecretKey: sec, ResumeToken: tok})
	return b
}

// readAck parses the first packet the server wrote to the requester; the rest is raw tunnel traffic.
func readAck(buf []byte) (ack string, rest []byte) {
	if len(buf) == 0 {
		return "none", nil
	}
	sp := stream.NewStreamProcessor(bytes.NewReader(buf), io.Discard, context.Background())
	defer sp.Close()
	pkt, n, err := sp.ReadPacket()
	if err != nil || pkt == nil {
		return "garbled", buf
	}
	if pkt.PacketType&0x3F != packet.TunnelOpenAck {
		return "other", buf[n:]
	}
	var a packet.TunnelOpenAckResponse
	if json.Unmarshal(pkt.Payload, &a) != nil {
		return "garbled", buf[n:]
	}
	if a.Success {
		return "ok", buf[n:]
	}
	return "fail", buf[n:]
}

// waitEcho: `from` writes, and the bytes arrive at `to` (the reverse copy direction of the bridge is live).
func waitEcho(from, to *peer) bool {
	from.cli.Write([]byte(pong))
	for dl := time.Now().Add(2 * time.Second); time.Now().Before(dl); {
		if bytes.Contains(to.cli.snapshot(), []byte(pong)) {
			to.cli.drain()
			return true
		}
		time.Sleep(200 * time.Microsecond)
	}
	return false
}

func (w *world) startNodeB() error {
	ln, err := net.Listen("tcp", "127.0.0.1:0")
	if err != nil {
		return err
	}
	w.ln = ln
	go func() {
		for {
			c, err := ln.Accept()
			if err != nil {
				return
			}
			go func(c net.Conn) {
				defer c.Close()
				c.SetDeadline(time.Now().Add(5 * time.Second))
				if _, _, _, err := session.ReadFrameFromReader(c); err != nil {
					return
				}
				w.fwd.Store(true)
				c.Write([]byte(marker))
				io.Copy(io.Discard, c)
			}(c)
		}
	}()
	return nil
}

// runE2E: a mapping created through the real PortMappingService without a secret (as the connection-code
// activation does), then the listen client opens a tunnel with the mapping id and the target client joins it with
// the secret the server would hand it: both must be admitted and bytes must flow (the repaired dispatcher still
// serves the legitimate parties).
//
//	case: e2e     obs: secret <set|empty> src <ack> pushed <0|1> leak <0|1> tgt <ack> data <0|1>   (the target learns tunnel id, mapping id and secret from the command pushed on its control connection; a bystander control connection must receive nothing)
func runE2E() string {
	w := newWorld()
	defer w.close()
	pm, err := w.pms.CreatePortMapping(&models.PortMapping{ListenClientID: 11, TargetClientID: 22, Protocol: models.ProtocolTCP,
		TargetHost: "127.0.0.1", TargetPort: 9, Status: models.MappingStatusActive})
	if err != nil {
		return "setup-failed:create-mapping"
	}
	sec := "set"
	if pm.SecretKey == "" {
		sec = "empty"
	}
	// control connections of the target client and of a bystander are up before the tunnel is opened
	tctl, err := w.connect("Tctl")
	if err != nil {
		return "setup-failed:connect"
	}
	w.controlHandshake(tctl, 22)
	bctl, err := w.connect("Bctl")
	if err != nil {
		return "setup-failed:connect"
	}
	w.controlHandshake(bctl, 33)
	src, err := w.connect("S")
	if err != nil {
		return "setup-failed:connect"
	}
	w.handshake(src, 11, true)
	w.open(src, openPayload(pm.ID, "", ""))
	srcAck, _ := readAck(src.cli.snapshot())
	src.cli.drain()
	// the server tells the target client (and nobody else) which tunnel to join, with which secret
	var cmd struct {
		TunnelID  string `json:"tunnel_id"`
		MappingID string `json:"mapping_id"`
		SecretKey string `json:"secret_key"`
	}
	pushed := false
	for dl := time.Now().Add(2 * time.Second); time.Now().Before(dl) && !pushed; {
		sp := stream.NewStreamProcessor(bytes.NewReader(tctl.cli.snapshot()), io.Discard, context.Background())
		if pkt, _, err := sp.ReadPacket(); err == nil && pkt != nil && pkt.CommandPacket != nil &&
			json.Unmarshal([]byte(pkt.CommandPacket.CommandBody), &cmd) == nil && cmd.TunnelID == tunnelID {
			pushed = true
		}
		sp.Close()
		time.Sleep(200 * time.Microsecond)
	}
	leak := len(bctl.cli.snapshot()) > 0
	tgt, err := w.connect("T")
	if err != nil {
		return "setup-failed:connect"
	}
	w.handshake(tgt, 22, true)
	w.open(tgt, openPayload(cmd.MappingID, cmd.SecretKey, ""))
	tgtAck, _ := readAck(tgt.cli.snapshot())
	src.cli.Write([]byte(marker))
	data := false
	for dl := time.Now().Add(time.Second); time.Now().Before(dl); {
		if _, rest := readAck(tgt.cli.snapshot()); bytes.Contains(rest, []byte(marker)) {
			data = true
			break
		}
		time.Sleep(200 * time.Microsecond)
	}
	if data {
		waitEcho(tgt, src)
	}
	return fmt.Sprintf("secret %s src %s pushed %s leak %s tgt %s data %s", sec, srcAck, b2s(pushed), b2s(leak), tgtAck, b2s(data))
}

// ---- two real nodes

func connectOn(w *world, sm *session.SessionManager, name string) (*peer, error) {
	srv, cli := newPipe(name)
	w.conns = append(w.conns, srv)
	sc, err := sm.AcceptConnection(srv, srv)
	if err != nil {
		return nil, err
	}
	return &peer{id: sc.ID, srv: srv, cli: cli}, nil
}

func handshakeOn(sm *session.SessionManager, p *peer, cid int64) {
	pl, _ := json.Marshal(&packet.HandshakeRequest{ClientID: cid, Token: "ok", Version: "verif", Protocol: "tcp", ConnectionType: "tunnel"})
	sm.HandlePacket(&types.StreamPacket{ConnectionID: p.id, Packet: &packet.TransferPacket{PacketType: packet.Handshake, Payload: pl}})
	p.cli.drain()
}

func openOn(sm *session.SessionManager, p *peer, mid, sec, tid string) error {
	b, _ := json.Marshal(&packet.TunnelOpenRequest{MappingID: mid, TunnelID: tid, SecretKey: sec})
	return sm.HandlePacket(&types.StreamPacket{ConnectionID: p.id, Packet: &packet.TransferPacket{PacketType: packet.TunnelOpen, TunnelID: tid, Payload: b}})
}

// twoNodeIDs: the victim's tunnel id and the attacker's variant spelling of it.
func twoNodeIDs(variant string) (victim, attacker string, ok bool) {
	v := "vt-1"
	switch variant {
	case "lead-space":
		return v, " " + v, true
	case "lead-tab":
		return v, "\t" + v, true
	case "lead-nl":
		return v, "\n" + v, true
	case "lead-cr":
		return v, "\r" + v, true
	case "trail-space":
		return v, v + " ", true
	case "trail-nl":
		return v, v + "\n", true
	case "bar":
		return v, v + "|x", true
	case "case":
		return v, "VT-1", true
	case "hdr16":
		// the frame header carries only the first 16 bytes of the id
		return "vt-0123456789abcdef-A", "vt-0123456789abcdef-B", true
	case "plain":
		return v, "at-1", true
	}
	return "", "", false
}

// runTwoNode: two real session managers (node-A with its real CrossNodeListener, node-B dialling it) over one
// storage.  The victim's listen client (mapping M) has a tunnel waiting on node-A.  The attacker owns mapping F
// entirely: its listen client opens, on node-A, a tunnel whose id is a variant spelling of the victim's tunnel id;
// its target client then opens that id on node-B with F's secret and is forwarded to node-A (TargetReady frame).
// Both sources write.  The attacker's target must only ever be joined to the attacker's own tunnel.
//
//	case: twonode <variant>     obs: srcack <ack> fwdack <ack> sees <none|own|victim|both> victimready <0|1>
func runTwoNode(variant string) string {
	vid, aid, ok := twoNodeIDs(variant)
	if !ok {
		return "bad-case"
	}
	w := newWorld()
	defer w.close()
	for _, m := range []mappingT{mapM, mapF} {
		if err := w.mrepo.CreatePortMapping(toModel(m)); err != nil {
			return "setup-failed:create-mapping"
		}
	}
	lnA := session.NewCrossNodeListener(w.sm, 0)
	if err := lnA.Start(w.ctx); err != nil {
		return "setup-failed:listener"
	}
	defer lnA.Stop()
	smB := session.NewSessionManager(idgen.NewIDManager(w.st, w.ctx), w.ctx)
	defer smB.Close()
	smB.SetTunnelHandler(w.th)
	smB.SetAuthHandler(stubAuth{})
	smB.SetCloudControl(w.ccAdapter)
	smB.SetNodeID("node-B")
	smB.SetTunnelRoutingTable(session.NewTunnelRoutingTable(w.st, 30*time.Second))
	mgrB := session.NewTunnelConnectionManager(func(nodeID string) (string, error) {
		if nodeID != "node-A" {
			return "", errors.New("no such node")
		}
		return lnA.VerifAddr(), nil
	}, session.DefaultTunnelConnectionManagerConfig())
	defer mgrB.Close()
	smB.SetTunnelConnectionManager(mgrB)

	// the victim's tunnel waits on node-A
	s1, err := connectOn(w, w.sm, "S1")
	if err != nil {
		return "setup-failed:connect"
	}
	handshakeOn(w.sm, s1, mapM.listen)
	openOn(w.sm, s1, mapM.id, "", vid)
	if r, ex := w.sm.VerifBridgeReady(vid); !ex || r {
		return "setup-failed:victim-bridge"
	}
	s1.cli.drain()
	// the attacker's own tunnel, same node, variant id
	s2, err := connectOn(w, w.sm, "S2")
	if err != nil {
		return "setup-failed:connect"
	}
	handshakeOn(w.sm, s2, mapF.listen)
	openOn(w.sm, s2, mapF.id, "", aid)
	srcAck, _ := readAck(s2.cli.snapshot())
	s2.cli.drain()
	// the attacker's target client arrives on node-B
	r, err := connectOn(w, smB, "R")
	if err != nil {
		return "setup-failed:connect"
	}
	handshakeOn(smB, r, mapF.target)
	done := make(chan struct{})
	go func() { defer close(done); defer func() { recover() }(); openOn(smB, r, mapF.id, mapF.secret, aid) }()
	select {
	case <-done:
	case <-time.After(3 * time.Second):
	}
	fwdAck, _ := readAck(r.cli.snapshot())
	const victimData, ownData = "VICTIM-tunnel-bytes", "OWN-tunnel-bytes"
	s1.cli.Write([]byte(victimData))
	s2.cli.Write([]byte(ownData))
	sees := "none"
	wait := 60 * time.Millisecond
	if fwdAck == "ok" {
		wait = 1500 * time.Millisecond
	}
	for dl := time.Now().Add(wait); time.Now().Before(dl); time.Sleep(time.Millisecond) {
		buf := r.cli.snapshot()
		v, o := bytes.Contains(buf, []byte(victimData)), bytes.Contains(buf, []byte(ownData))
		switch {
		case v && o:
			sees = "both"
		case v:
			sees = "victim"
		case o:
			sees = "own"
		}
		if sees != "none" {
			time.Sleep(30 * time.Millisecond) // anything else that is on its way
			buf = r.cli.snapshot()
			if bytes.Contains(buf, []byte(victimData)) && bytes.Contains(buf, []byte(ownData)) {
				sees = "both"
			}
			break
		}
	}
	vready, _ := w.sm.VerifBridgeReady(vid)
	return fmt.Sprintf("srcack %s fwdack %s sees %s victimready %s", srcAck, fwdAck, sees, b2s(vready))
}

// runRMW: a revocation racing a read-modify-write of the same mapping record.
//
//	case: rmw <usage|usage-read1|usage-read2|stats|stats-read1|status|status-read1>    obs: revoked <0|1> ack <..> att <..> data <0|1>
//
// usage  = the listen client opens a tunnel: HandleTunnelOpen → RecordMappingUsage reads the record, sets LastActive
//
//	and writes the whole record back (its write is held by the gated store);
//
// stats  = the bridge's periodic traffic report: UpdatePortMappingStats, same read-modify-write shape;
// status = UpdatePortMappingStatus(active) (re-activation by configuration push).
// While that write is pending the target client revokes the mapping (conncode.RevokeMapping, real code).  The
// pending write is then let through.  Afterwards the target client presents the mapping's secret for the waiting
// tunnel: the mapping was revoked, so the request must be refused.
func runRMW(writer string) string {
	w := newWorld()
	defer w.close()
	if err := w.mrepo.CreatePortMapping(toModel(mapM)); err != nil {
		return "setup-failed:create-mapping"
	}
	key := fmt.Sprintf("%s:%s", constants.KeyPrefixPortMapping, mapM.id)
	src, err := w.connect("S")
	if err != nil {
		return "setup-failed:connect"
	}
	w.handshake(src, mapM.listen, true)
	if !strings.HasPrefix(writer, "usage") {
		w.open(src, openPayload(mapM.id, "", "")) // the waiting tunnel exists before the race
		src.cli.drain()
	}
	var hit <-chan struct{}
	var release func()
	switch writer {
	case "usage-read1":
		// held right after the record was read for the permission check (ValidateMapping)
		hit, release = w.gpms.armRead(mapM.id, 1)
	case "usage-read2":
		// held right after RecordMappingUsage read the record it is about to write back
		hit, release = w.gpms.armRead(mapM.id, 2)
	case "stats-read1", "status-read1":
		// held right after the repository read the record it is about to write back (the revocation then comes
		// from the second service instance, which does not share this repository's in-flight read)
		hit, release = w.gs.armGetAfter(key)
	default:
		// held at the write-back itself
		hit, release = w.gs.arm(key)
	}
	defer release()
	wdone := make(chan struct{})
	go func() {
		defer close(wdone)
		defer func() { recover() }()
		switch writer {
		case "usage", "usage-read1", "usage-read2":
			w.open(src, openPayload(mapM.id, "", ""))
		case "stats", "stats-read1":
			w.cc.UpdatePortMappingStats(mapM.id, &stats.TrafficStats{BytesSent: 10, BytesReceived: 20, LastUpdated: time.Now()})
		case "status", "status-read1":
			w.pms.UpdatePortMappingStatus(mapM.id, models.MappingStatusActive)
		}
	}()
	select {
	case <-hit:
	case <-time.After(5 * time.Second):
		return "setup-failed:writer-not-at-write"
	}
	rdone := make(chan error, 1)
	revoker := w.ccs
	if strings.HasSuffix(writer, "-read1") && !strings.HasPrefix(writer, "usage") {
		revoker = w.ccs2
	}
	go func() { rdone <- revoker.RevokeMapping(mapM.id, mapM.target, "target-client") }()
	var rerr error
	revDone := false
	select { // as found the revocation completes here; serialised writers make it wait for the pending write
	case rerr = <-rdone:
		revDone = true
	case <-time.After(100 * time.Millisecond):
	}
	release()
	<-wdone
	if !revDone {
		select {
		case rerr = <-rdone:
		case <-time.After(5 * time.Second):
			return "setup-failed:revoke-stuck"
		}
	}
	if rerr != nil {
		return "setup-failed:revoke-error"
	}
	w.readBarrier(mapM.id)
	src.cli.drain()
	revoked := false
	if pm, err := w.mrepo.GetPortMapping(mapM.id); err == nil {
		revoked = pm.IsRevoked
	}
	if _, sID, _, ok := w.sm.VerifBridgeEnds(tunnelID); !ok || sID == "" {
		return "setup-failed:no-waiting-bridge"
	}
	r, err := w.connect("R")
	if err != nil {
		return "setup-failed:connect"
	}
	w.handshake(r, mapM.target, true)
	done := make(chan struct{})
	go func() {
		defer close(done)
		defer func() { recover() }()
		w.open(r, openPayload(mapM.id, mapM.secret, ""))
	}()
	select {
	case <-done:
	case <-time.After(1500 * time.Millisecond):
	}
	ack, _ := readAck(r.cli.snapshot())
	att := "none"
	if _, s, t, ok := w.sm.VerifBridgeEnds(tunnelID); ok {
		if t == r.id {
			att = "tgt"
		} else if s == r.id {
			att = "src"
		}
	}
	src.cli.Write([]byte(marker))
	wait := 25 * time.Millisecond
	if att != "none" {
		wait = 800 * time.Millisecond
	}
	data := false
	for dl := time.Now().Add(wait); ; {
		if _, rest := readAck(r.cli.snapshot()); bytes.Contains(rest, []byte(marker)) {
			data = true
			break
		}
		if !time.Now().Before(dl) {
			break
		}
		time.Sleep(time.Millisecond)
	}
	if data {
		waitEcho(r, src)
	}
	return fmt.Sprintf("revoked %s ack %s att %s data %s", b2s(revoked), ack, att, b2s(data))
}

func runCase(c *caseT) (obs string) {
	return guarded(func() string { return runCaseInner(c) })
}

func guarded(f func() string) (obs string) {
	res := make(chan string, 1)
	go func() {
		defer func() {
			if r := recover(); r != nil {
				res <- "panic " + strings.ReplaceAll(fmt.Sprint(r), " ", "_")
			}
		}()
		res <- f()
	}()
	select {
	case s := <-res:
		return s
	case <-time.After(30 * time.Second):
		return "timeout"
	}
}

func runCaseInner(c *caseT) string {
	w := newWorldCfg(c.cfg)
	defer w.close()

	final := map[string]mappingT{}
	for _, m := range c.maps {
		final[m.id] = m
	}
	// the mapping the pre-existing tunnel belongs to must be active while the tunnel is set up
	var setup *mappingT
	if c.ts == "bridge" {
		if m, ok := final[c.tsMid]; ok {
			s := m
			s.active, s.revoked, s.expired = true, false, 0
			if s.listen == 0 {
				// a mapping the server itself listens on has no listen client that could open the tunnel over the
				// wire: for the set-up phase only it belongs to a stand-in client; it is given its listed shape below
				s.listen = 901
			}
			setup = &s
		} else {
			setup = &mappingT{id: c.tsMid, listen: 901, target: 902, secret: "tmp-secret", active: true}
		}
	}
	for _, m := range c.maps {
		if setup != nil && m.id == setup.id {
			continue
		}
		if err := w.mrepo.CreatePortMapping(toModel(m)); err != nil {
			return "setup-failed:create-mapping"
		}
	}
	var src *peer
	switch c.ts {
	case "bridge":
		if err := w.mrepo.CreatePortMapping(toModel(*setup)); err != nil {
			return "setup-failed:create-mapping"
		}
		var err error
		if src, err = w.connect("S"); err != nil {
			return "setup-failed:connect"
		}
		w.handshake(src, setup.listen, true)
		var asked int64
		if c.asserts {
			if _, err := w.connectAsserting("decoy", 999, false); err != nil {
				return "setup-failed:connect"
			}
			asked = w.decoy.asked.Load()
		}
		w.open(src, openPayload(setup.id, "", ""))
		if mid, s, _, ok := w.sm.VerifBridgeEnds(tunnelID); !ok || mid != setup.id || s == "" {
			return "setup-failed:source-bridge"
		}
		if !w.awaitNotifyScan(asked) {
			return "setup-failed:notify-scan"
		}
		src.cli.drain()
		if c.served {
			t, err := w.connect("T")
			if err != nil {
				return "setup-failed:connect"
			}
			if setup.secret != "" {
				w.handshake(t, setup.target, true)
				w.open(t, openPayload(setup.id, setup.secret, ""))
			} else {
				w.handshake(t, setup.listen, true)
				w.open(t, openPayload(setup.id, "", ""))
			}
			if _, _, tg, _ := w.sm.VerifBridgeEnds(tunnelID); tg != t.id {
				return "setup-failed:target-attach"
			}
			// the tunnel is being served: bytes flow from the source to the legitimate target
			src.cli.Write([]byte(ping))
			for dl := time.Now().Add(3 * time.Second); ; {
				if _, rest := readAck(t.cli.snapshot()); bytes.Contains(rest, []byte(ping)) {
					break
				}
				if !time.Now().Before(dl) {
					return "setup-failed:served-flow"
				}
				time.Sleep(200 * time.Microsecond)
			}
			if !waitEcho(t, src) {
				return "setup-failed:served-backflow"
			}
		}
		if m, ok := final[setup.id]; ok {
			if m != *setup {
				pm := toModel(m)
				if err := w.mrepo.UpdatePortMapping(pm); err != nil {
					return "setup-failed:update-mapping"
				}
			}
		} else if err := w.mrepo.DeletePortMapping(setup.id); err != nil {
			return "setup-failed:delete-mapping"
		}
		w.readBarrier(setup.id)
	case "remote", "local":
		if err := w.startNodeB(); err != nil {
			return "setup-failed:listen"
		}
		st := &session.TunnelWaitingState{TunnelID: tunnelID, MappingID: c.tsMid, SourceNodeID: "node-B"}
		if c.ts == "local" {
			// the route names this very node although no bridge exists (yet): handleLocalBridgeWait
			st.SourceNodeID = "node-A"
		}
		if m, ok := final[c.tsMid]; ok {
			st.SourceClientID, st.TargetClientID = m.listen, m.target
		}
		if err := w.rt.RegisterWaitingTunnel(w.ctx, st); err != nil {
			return "setup-failed:route"
		}
	case "expired":
		// a waiting route whose own expiry time has passed while the storage entry is still there
		if err := w.startNodeB(); err != nil {
			return "setup-failed:listen"
		}
		st := &session.TunnelWaitingState{TunnelID: tunnelID, MappingID: c.tsMid, SourceNodeID: "node-B",
			CreatedAt: time.Now().Add(-time.Minute), ExpiresAt: time.Now().Add(-30 * time.Second)}
		if err := w.st.Set("tunnox:tunnel_waiting:"+tunnelID, st, time.Minute); err != nil {
			return "setup-failed:route"
		}
		if _, err := w.rt.LookupWaitingTunnel(w.ctx, "no-such-tunnel"); err == nil {
			return "setup-failed:route"
		}
	}

	// expiry a few seconds around "now": stamp it as late as possible, right before the request is sent
	for _, m := range c.maps {
		if m.expired == 3 {
			if err := w.mrepo.UpdatePortMapping(toModel(m)); err != nil {
				return "setup-failed:update-mapping"
			}
			w.readBarrier(m.id)
		}
	}

	// ---- the request under test
	var r *peer
	var err error
	if c.asserts {
		r, err = w.connectAsserting("R", c.scid, c.temp)
	} else {
		r, err = w.connect("R")
	}
	if err != nil {
		return "setup-failed:connect"
	}
	switch c.hs {
	case 1:
		w.handshake(r, c.cid, true)
	case 2:
		w.handshake(r, c.cid, false)
	}
	var payload []byte
	switch c.pl {
	case "ok":
		payload = openPayload(c.rmid, c.rsec, c.rtok)
	case "junk":
		payload = []byte(`{"mapping_id": 12, not json`)
	case "empty":
		payload = nil
	}
	var gateHit <-chan struct{}
	releaseGate := func() {}
	if c.late == "early" {
		// the dispatcher looks up tunnelBridges, then the routing table (one storage read): holding that read opens
		// the window in which startSourceBridge of another request registers the bridge and then the route
		gateHit, releaseGate = w.gs.armGet("tunnox:tunnel_waiting:" + tunnelID)
	}
	if c.late == "window" {
		// the requester's acknowledgement is written after the dispatcher's own bridge/route look-ups and before
		// handleTargetBridge / startSourceBridge look again: holding that write opens exactly this window
		gateHit, releaseGate = r.srv.armGate()
	}
	defer releaseGate()
	done := make(chan error, 1)
	go func() {
		defer func() {
			if rec := recover(); rec != nil {
				done <- fmt.Errorf("PANIC %v", rec)
			}
		}()
		done <- w.open(r, payload)
	}()
	ret := "pending"
	finished := false
	classify := func(e error) string {
		switch {
		case e == nil:
			return "nil"
		case strings.HasPrefix(e.Error(), "PANIC"):
			return "panic " + strings.ReplaceAll(e.Error(), " ", "_")
		case coreerrors.IsCode(e, coreerrors.CodeTunnelModeSwitch):
			return "switch"
		}
		return "err"
	}
	if c.late == "window" || c.late == "early" {
		select {
		case <-gateHit:
			lm, listed := final[c.lateMid]
			if !listed {
				return "setup-failed:late-mapping"
			}
			s, err := w.connect("S")
			if err != nil {
				return "setup-failed:connect"
			}
			w.handshake(s, lm.listen, true)
			w.open(s, openPayload(lm.id, "", ""))
			if mid, sID, _, ok := w.sm.VerifBridgeEnds(tunnelID); !ok || mid != lm.id || sID == "" {
				return "setup-failed:window-bridge"
			}
			s.cli.drain()
			src = s
			releaseGate()
		case e := <-done:
			ret, finished = classify(e), true // returned without writing anything
		case <-time.After(5 * time.Second):
			return "setup-failed:window-not-reached"
		}
	} else if c.late != "" {
		// The request found nothing at arrival.  Every path of handleTunnelOpen writes its acknowledgement only
		// after the arrival-time bridge and route lookups, so once the ack is on the wire (or the call returned) the
		// arrival phase is over: the request is refused, owns a new bridge, or polls.  Only then does the tunnel appear.
		for dl := time.Now().Add(5 * time.Second); time.Now().Before(dl) && !finished; {
			select {
			case e := <-done:
				ret, finished = classify(e), true
			default:
			}
			if a, _ := readAck(r.cli.snapshot()); a == "ok" || a == "fail" { // not a half-written packet
				break
			}
			time.Sleep(100 * time.Microsecond)
		}
		// acknowledged with success: a listen client now creates its own bridge and returns at once; anybody else
		// polls.  Give the first kind ample time to finish before the other tunnel is set up.
		if a, _ := readAck(r.cli.snapshot()); a == "ok" && !finished {
			select {
			case e := <-done:
				ret, finished = classify(e), true
			case <-time.After(300 * time.Millisecond):
			}
		}
		own := false
		if _, sID, _, ok := w.sm.VerifBridgeEnds(tunnelID); ok && (sID == r.id || sID == r.srv.RemoteAddr().String()) {
			own = true // the requester is the source of its own new tunnel: nothing else can appear under this id
		}
		if !own {
			lm, listed := final[c.lateMid]
			switch c.late {
			case "bridge":
				if !listed {
					return "setup-failed:late-mapping"
				}
				s, err := w.connect("S")
				if err != nil {
					return "setup-failed:connect"
				}
				w.handshake(s, lm.listen, true)
				w.open(s, openPayload(lm.id, "", ""))
				if mid, sID, _, ok := w.sm.VerifBridgeEnds(tunnelID); !ok || mid != lm.id || sID == "" {
					return "setup-failed:late-bridge"
				}
				s.cli.drain()
				src = s
			case "route", "remote":
				if err := w.startNodeB(); err != nil {
					return "setup-failed:listen"
				}
				st := &session.TunnelWaitingState{TunnelID: tunnelID, MappingID: c.lateMid, SourceNodeID: "node-B"}
				if c.late == "route" {
					st.SourceNodeID = "node-A"
				}
				if listed {
					st.SourceClientID, st.TargetClientID = lm.listen, lm.target
				}
				if err := w.rt.RegisterWaitingTunnel(w.ctx, st); err != nil {
					return "setup-failed:route"
				}
			}
		}
	}
	if !finished {
		select {
		case e := <-done:
			ret = classify(e)
		case <-time.After(1500 * time.Millisecond):
		}
	}
	if strings.HasPrefix(ret, "panic") {
		return ret
	}

	ack, rest := readAck(r.cli.snapshot())
	att, on := "none", "-"
	if mid, s, t, ok := w.sm.VerifBridgeEnds(tunnelID); ok {
		if t == r.id {
			att, on = "tgt", dash(mid)
		} else if s == r.id || s == r.srv.RemoteAddr().String() {
			att, on = "src", dash(mid)
		}
	}
	if att == "none" && (c.ts == "remote" || c.ts == "local" || c.ts == "expired" || c.late == "remote" || c.late == "route") {
		wait := 20 * time.Millisecond
		if ack == "ok" {
			wait = 500 * time.Millisecond
		}
		for dl := time.Now().Add(wait); time.Now().Before(dl) && !w.fwd.Load(); {
			time.Sleep(time.Millisecond)
		}
		if w.fwd.Load() {
			att = "fwd"
		}
	}
	// the other end writes; does it become readable on the requester?
	if src != nil {
		src.cli.Write([]byte(marker))
	}
	wait := 25 * time.Millisecond
	if att != "none" && src != nil && !c.served || att == "fwd" {
		wait = 800 * time.Millisecond
	}
	data := false
	for dl := time.Now().Add(wait); ; {
		_, rest = readAck(r.cli.snapshot())
		if bytes.Contains(rest, []byte(marker)) {
			data = true
			break
		}
		if !time.Now().Before(dl) {
			break
		}
		time.Sleep(time.Millisecond)
	}
	if data && src != nil {
		// both copy directions of the bridge are running before anything is torn down (a bridge closed while
		// Bridge.Start is still launching its second copy goroutine dereferences a nil forwarder — not C04's subject)
		waitEcho(r, src)
	}
	// how many acknowledgement packets the requester was sent (one TunnelOpen, one acknowledgement: a further one
	// reaches a client that is already in stream mode as tunnel payload); other bytes after them count as traffic
	acks := 0
	for buf := r.cli.snapshot(); len(buf) > 0; {
		a, more := readAck(buf)
		if a == "other" {
			// a well-formed control packet (the TunnelOpenRequest command that notifyTargetClientToOpenTunnel pushes to
			// a connection whose transport names the target client — possibly the requester itself, at a time of the
			// notifier's choosing): neither an acknowledgement nor tunnel traffic
			buf = more
			continue
		}
		if a != "ok" && a != "fail" {
			if !data && a != "none" {
				data = true
			}
			break
		}
		acks++
		buf = more
	}
	return fmt.Sprintf("ack %s acks %d att %s on %s data %s ret %s", ack, acks, att, on, b2s(data), ret)
}

// ---------------------------------------------------------------- generators

var (
	mapM = mappingT{id: "M", listen: 11, target: 22, secret: "s3cretM", active: true}
	mapF = mappingT{id: "F", listen: 33, target: 34, secret: "s3cretF", active: true}
)

func matrix() []*caseT {
	var out []*caseT
	type ident struct {
		hs  int
		cid int64
	}
	ids := []ident{{0, 0}, {2, 11}, {1, 11}, {1, 22}, {1, 33}}
	creds := [][3]string{{"M", "", ""}, {"M", "s3cretM", ""}, {"M", "wrong", ""}, {"M", "", "resume-token-1"}, {"", "", ""},
		{"F", "", ""}, {"F", "s3cretF", ""}}
	states := []string{"active", "revoked", "expired", "inactive", "missing"}
	tss := []string{"none", "waiting", "served", "remote", "local"}
	for _, id := range ids {
		for _, cr := range creds {
			for _, st := range states {
				for _, ts := range tss {
					c := &caseT{pl: "ok", hs: id.hs, cid: id.cid, rmid: cr[0], rsec: cr[1], rtok: cr[2]}
					m := mapM
					switch st {
					case "revoked":
						m.revoked, m.active = true, false
					case "expired":
						m.expired = 1
					case "inactive":
						m.active = false
					}
					if st != "missing" {
						c.maps = append(c.maps, m)
					}
					c.maps = append(c.maps, mapF)
					switch ts {
					case "none":
						c.ts = "none"
					case "waiting":
						c.ts, c.tsMid = "bridge", "M"
					case "served":
						c.ts, c.tsMid, c.served = "bridge", "M", true
					case "remote":
						c.ts, c.tsMid = "remote", "M"
					case "local":
						c.ts, c.tsMid = "local", "M"
					}
					out = append(out, c)
				}
			}
		}
	}
	return out
}

// lateMatrix: nothing exists for the tunnel id when the request arrives; while the request polls, the tunnel
// appears — as a local bridge (opened by the rightful listen client through the real startSourceBridge), as a
// route naming this node, or as a route naming another node — for the mapping the requester presented or for
// another one.  identity (6) x credential (7) x late state (6).
func lateMatrix() []*caseT {
	var out []*caseT
	type ident struct {
		hs  int
		cid int64
	}
	ids := []ident{{0, 0}, {2, 11}, {1, 11}, {1, 22}, {1, 33}, {1, 34}}
	creds := [][3]string{{"M", "", ""}, {"M", "s3cretM", ""}, {"M", "wrong", ""}, {"M", "", "resume-token-1"}, {"", "", ""},
		{"F", "", ""}, {"F", "s3cretF", ""}}
	for _, id := range ids {
		for _, cr := range creds {
			for _, kind := range []string{"bridge", "route", "remote", "window", "early"} {
				for _, mid := range []string{"M", "F"} {
					out = append(out, &caseT{pl: "ok", hs: id.hs, cid: id.cid, rmid: cr[0], rsec: cr[1], rtok: cr[2],
						maps: []mappingT{mapM, mapF}, ts: "none", late: kind, lateMid: mid})
				}
			}
		}
	}
	return out
}

// transportMatrix: the transport object behind the requester's stream asserts a client id and may vouch for it
// (temporary control connection without handshake; source/target role taken from the asserted id, which reaches
// Bridge.SetSourceConnection on an existing bridge).  identity (8) x credential (7) x tunnel state (4).
func transportMatrix() []*caseT {
	var out []*caseT
	type ident struct {
		hs   int
		cid  int64
		scid int64
		temp bool
	}
	ids := []ident{{0, 0, 11, true}, {0, 0, 22, true}, {0, 0, 33, true}, {0, 0, 11, false}, {0, 0, 0, true},
		{1, 22, 11, false}, {1, 11, 11, false}, {2, 11, 22, true}}
	creds := [][3]string{{"M", "", ""}, {"M", "s3cretM", ""}, {"M", "wrong", ""}, {"M", "", "resume-token-1"}, {"", "", ""},
		{"F", "", ""}, {"F", "s3cretF", ""}}
	for _, id := range ids {
		for _, cr := range creds {
			for _, ts := range []string{"none", "waiting", "served", "remote"} {
				c := &caseT{pl: "ok", hs: id.hs, cid: id.cid, asserts: true, scid: id.scid, temp: id.temp,
					rmid: cr[0], rsec: cr[1], rtok: cr[2], maps: []mappingT{mapM, mapF}, ts: "none"}
				switch ts {
				case "waiting":
					c.ts, c.tsMid = "bridge", "M"
				case "served":
					c.ts, c.tsMid, c.served = "bridge", "M", true
				case "remote":
					c.ts, c.tsMid = "remote", "M"
				}
				out = append(out, c)
			}
		}
	}
	return out
}

// zeroListenMatrix: a mapping the server itself listens on (ListenClientID == 0, e.g. an HTTP-domain mapping made
// through the management API).  "Client id 0" then equals the mapping's listen client: a connection that is not
// authenticated (no handshake, refused handshake — which leaves a control-connection record with client id 0 —,
// a vouching transport without an id) must still be refused.  identity (8) x credential (5) x tunnel state (4).
func zeroListenMatrix() []*caseT {
	var out []*caseT
	mapZ := mappingT{id: "Z", listen: 0, target: 22, secret: "s3cretZ", active: true}
	type ident struct {
		hs      int
		cid     int64
		asserts bool
		scid    int64
		temp    bool
	}
	ids := []ident{{0, 0, false, 0, false}, {2, 11, false, 0, false}, {2, 0, false, 0, false}, {1, 11, false, 0, false},
		{1, 22, false, 0, false}, {1, 33, false, 0, false}, {0, 0, true, 0, true}, {2, 22, true, 0, true}}
	creds := [][3]string{{"Z", "", ""}, {"Z", "s3cretZ", ""}, {"Z", "wrong", ""}, {"", "", ""}, {"F", "", ""}}
	for _, id := range ids {
		for _, cr := range creds {
			for _, ts := range []string{"none", "waiting", "served", "remote"} {
				c := &caseT{pl: "ok", hs: id.hs, cid: id.cid, asserts: id.asserts, scid: id.scid, temp: id.temp,
					rmid: cr[0], rsec: cr[1], rtok: cr[2], maps: []mappingT{mapZ, mapF}, ts: "none"}
				switch ts {
				case "waiting":
					c.ts, c.tsMid = "bridge", "Z"
				case "served":
					c.ts, c.tsMid, c.served = "bridge", "Z", true
				case "remote":
					c.ts, c.tsMid = "remote", "Z"
				}
				out = append(out, c)
			}
		}
	}
	return out
}

// expiryMatrix: the mapping's ExpiresAt lies seconds before or after the moment of the TunnelOpen ("expired" is a
// strict comparison with the clock, no grace period): -29 s, -5 s, -1 s must be refused on every credential path,
// +2 s, +5 s, +29 s must still be served.  offset (6) x identity (3) x credential (3) x tunnel state (3).
func expiryMatrix() []*caseT {
	var out []*caseT
	type ident struct {
		hs  int
		cid int64
	}
	ids := []ident{{1, 11}, {1, 22}, {1, 33}}
	creds := [][3]string{{"M", "", ""}, {"M", "s3cretM", ""}, {"M", "wrong", ""}}
	for _, off := range []int{-29, -5, -1, 2, 5, 29} {
		for _, id := range ids {
			for _, cr := range creds {
				for _, ts := range []string{"none", "waiting", "remote"} {
					m := mapM
					m.expired, m.expOff = 3, off
					c := &caseT{pl: "ok", hs: id.hs, cid: id.cid, rmid: cr[0], rsec: cr[1], rtok: cr[2],
						maps: []mappingT{m, mapF}, ts: "none"}
					switch ts {
					case "waiting":
						c.ts, c.tsMid = "bridge", "M"
					case "remote":
						c.ts, c.tsMid = "remote", "M"
					}
					out = append(out, c)
				}
			}
		}
	}
	return out
}

// spellingMatrix: near misses of the right credential, on every run (not left to the random stream): a proper
// prefix of the secret, a one-character secret, the secret extended, doubled, in another case, with one character
// changed at the start / at the end; the mapping id in another case / extended.
// spelling (9) x identity (listen, target) x tunnel state (3).
func spellingMatrix() []*caseT {
	var out []*caseT
	sec := mapM.secret
	creds := [][2]string{{"M", sec[:len(sec)-1]}, {"M", sec[:1]}, {"M", sec + "x"}, {"M", sec + sec}, {"M", strings.ToUpper(sec)},
		{"M", "X" + sec[1:]}, {"M", sec[:len(sec)-1] + "X"}, {"m", sec}, {"MM", sec}}
	for _, cr := range creds {
		for _, cid := range []int64{11, 22} {
			for _, ts := range []string{"none", "waiting", "remote"} {
				c := &caseT{pl: "ok", hs: 1, cid: cid, rmid: cr[0], rsec: cr[1], maps: []mappingT{mapM, mapF}, ts: "none"}
				switch ts {
				case "waiting":
					c.ts, c.tsMid = "bridge", "M"
				case "remote":
					c.ts, c.tsMid = "remote", "M"
				}
				out = append(out, c)
			}
		}
	}
	return out
}

// configMatrix: configurations and fault points of the cross-node path — this node without a routing table, the
// other node unreachable (address lookup / dial fails after the ack), a waiting route past its own expiry time.
func configMatrix() []*caseT {
	var out []*caseT
	type ident struct {
		hs  int
		cid int64
	}
	ids := []ident{{0, 0}, {2, 11}, {1, 11}, {1, 22}, {1, 33}}
	creds := [][3]string{{"M", "", ""}, {"M", "s3cretM", ""}, {"M", "wrong", ""}, {"M", "", "resume-token-1"}, {"", "", ""},
		{"F", "", ""}, {"F", "s3cretF", ""}}
	for _, id := range ids {
		for _, cr := range creds {
			mk := func() *caseT {
				return &caseT{pl: "ok", hs: id.hs, cid: id.cid, rmid: cr[0], rsec: cr[1], rtok: cr[2],
					maps: []mappingT{mapM, mapF}, ts: "none"}
			}
			a := mk()
			a.cfg = "norouting"
			b := mk()
			b.cfg, b.ts, b.tsMid = "norouting", "bridge", "M"
			c := mk()
			c.cfg, c.ts, c.tsMid = "nodedown", "remote", "M"
			d := mk()
			d.cfg, d.late, d.lateMid = "nodedown", "remote", "M"
			e := mk()
			e.ts, e.tsMid = "expired", "M"
			out = append(out, a, b, c, d, e)
		}
	}
	return out
}

func randomCases(r *vc.Rand, n int) []*caseT {
	var out []*caseT
	ids := []string{"M", "F", "G"}
	clients := []int64{11, 22, 33, 34}
	secrets := []string{"", "k1", "k2", "k1"}
	for i := 0; i < n; i++ {
		c := &caseT{pl: "ok"}
		switch r.Intn(40) {
		case 0:
			c.pl = "junk"
		case 1:
			c.pl = "empty"
		}
		k := 1 + r.Intn(3)
		perm := []int{0, 1, 2}
		for j := 2; j > 0; j-- {
			x := r.Intn(j + 1)
			perm[j], perm[x] = perm[x], perm[j]
		}
		for j := 0; j < k; j++ {
			m := mappingT{id: ids[perm[j]], listen: vc.Pick(r, clients), target: vc.Pick(r, clients), secret: vc.Pick(r, secrets), active: true}
			if r.Intn(10) == 0 {
				m.listen = 0 // a mapping the server itself listens on
			}
			switch r.Intn(16) {
			case 0:
				m.revoked, m.active = true, false
			case 1:
				m.revoked = true // revoked flag with status still active
			case 2:
				m.expired = 1
			case 3:
				m.active = false
			case 4:
				m.expired = 2
			case 5:
				m.expired, m.expOff = 3, []int{-29, -5, -1, 2, 5, 29}[r.Intn(6)]
			}
			c.maps = append(c.maps, m)
		}
		c.hs = []int{1, 1, 1, 1, 0, 2}[r.Intn(6)]
		c.cid = []int64{11, 22, 33, 34, 55}[r.Intn(5)]
		c.rmid = []string{"M", "M", "F", "G", "X", ""}[r.Intn(6)]
		c.rsec = []string{"", "", "k1", "k2", "zz"}[r.Intn(5)]
		if r.Intn(12) == 0 {
			c.rtok = "tok"
		}
		switch r.Intn(6) {
		case 0, 5:
			c.ts = "none"
		case 1, 2:
			c.ts, c.tsMid = "bridge", vc.Pick(r, ids)
		case 3:
			c.ts, c.tsMid, c.served = "bridge", vc.Pick(r, ids), true
		case 4:
			c.ts, c.tsMid = "remote", vc.Pick(r, ids)
		}
		if r.Intn(10) < 6 {
			// mostly-valid: start from a request that is entitled to one of the mappings, then break at most one thing
			m := c.maps[r.Intn(len(c.maps))]
			if r.Intn(6) != 0 {
				for _, x := range c.maps {
					if x.active && !x.revoked && (x.expired == 0 || x.expired == 2) {
						m = x
						break
					}
				}
			}
			c.hs, c.rmid, c.rtok = 1, m.id, ""
			switch r.Intn(3) {
			case 0:
				c.cid, c.rsec = m.listen, ""
			case 1:
				c.cid, c.rsec = m.listen, m.secret
			case 2:
				c.cid, c.rsec = m.target, m.secret
			}
			if c.ts != "none" && r.Intn(5) != 0 {
				c.tsMid = m.id
			}
			switch r.Intn(24) {
			case 0:
				c.rsec = "zz"
			case 1:
				c.cid = 55
			case 2:
				c.hs = 0
			case 3:
				c.hs = 2
			case 4:
				c.rmid = vc.Pick(r, ids)
			case 5:
				c.rtok = "tok"
			case 6:
				c.rsec = ""
			case 7:
				c.cid = vc.Pick(r, clients)
			}
		}
		// second spellings of the right credential: prefix, extension, other case, surrounding blank
		if c.rsec != "" && r.Intn(6) == 0 {
			c.rsec = []string{c.rsec[:len(c.rsec)-1], c.rsec + "x", strings.ToUpper(c.rsec), c.rsec + c.rsec}[r.Intn(4)]
		}
		if c.rmid != "" && r.Intn(12) == 0 {
			c.rmid = []string{strings.ToLower(c.rmid), c.rmid + c.rmid, c.rmid + "x"}[r.Intn(3)]
		}
		// the transport asserts an identity
		if r.Intn(6) == 0 {
			c.asserts, c.scid, c.temp = true, []int64{0, 11, 22, 33, 34}[r.Intn(5)], r.Bool()
			if r.Bool() {
				c.hs = 0
			}
		}
		if c.pl == "empty" {
			// an empty payload names the empty tunnel id: no pre-existing tunnel can be addressed
			c.ts, c.tsMid, c.served = "none", "", false
		} else if c.ts == "none" && !c.asserts && r.Intn(2) == 0 {
			// the tunnel appears while the request polls
			c.late = []string{"bridge", "window", "route", "remote", "window", "early"}[r.Intn(6)]
			c.lateMid = vc.Pick(r, ids)
			if c.late == "bridge" || c.late == "window" || c.late == "early" {
				kind := c.late
				// a bridge can only be opened by the rightful listen client of a usable, listed mapping
				c.late = ""
				for _, x := range c.maps {
					if x.active && !x.revoked && (x.expired == 0 || x.expired == 2) && x.listen != 0 && (x.id == c.lateMid || c.late == "") {
						c.late, c.lateMid = kind, x.id
					}
				}
			}
		}
		// configuration / fault point
		if c.late == "" && (c.ts == "none" || c.ts == "bridge") && r.Intn(12) == 0 {
			c.cfg = "norouting"
		} else if (c.ts == "remote" || c.late == "remote") && r.Intn(4) == 0 {
			c.cfg = "nodedown"
		} else if c.ts == "remote" && r.Intn(5) == 0 {
			c.ts = "expired"
		}
		out = append(out, c)
	}
	return out
}

// ---------------------------------------------------------------- main

func runAll(out *vc.Out, lines []string, tag string) {
	obs := make([]string, len(lines))
	var wg sync.WaitGroup
	sem := make(chan struct{}, 8)
	for i := range lines {
		wg.Add(1)
		sem <- struct{}{}
		go func(i int) {
			defer wg.Done()
			defer func() { <-sem }()
			if f := strings.Fields(lines[i]); len(f) == 2 && f[0] == "twonode" {
				obs[i] = guarded(func() string { return runTwoNode(f[1]) })
				return
			}
			if f := strings.Fields(lines[i]); len(f) == 2 && f[0] == "rmw" {
				obs[i] = guarded(func() string { return runRMW(f[1]) })
				return
			}
			if strings.TrimSpace(lines[i]) == "e2e" {
				obs[i] = guarded(runE2E)
				return
			}
			c, err := parseCase(lines[i])
			if err != nil {
				obs[i] = "bad-case"
				return
			}
			obs[i] = runCase(c)
		}(i)
	}
	wg.Wait()
	for i, l := range lines {
		out.Case(l, obs[i], l)
		out.Count(tag)
		f := strings.Fields(obs[i])
		if len(f) >= 6 && f[0] == "ack" && f[4] == "att" {
			out.Count("obs:ack=" + f[1] + ",att=" + f[5])
		} else if len(f) >= 4 {
			out.Count("obs:" + f[0] + "=" + f[1] + "," + f[2] + "=" + f[3])
		} else {
			out.Count("obs:" + obs[i])
		}
	}
}

func main() {
	tier := flag.String("tier", "quick", "")
	seed := flag.Uint64("seed", 1, "")
	stats := flag.String("stats", "", "")
	noGen := flag.Bool("nogen", false, "")
	repeat := flag.Int("repeat", 1, "run every corpus case this many times (stress)")
	flag.Parse()
	out := vc.NewOut()
	var corpus []string
	for _, f := range flag.Args() {
		data, err := os.ReadFile(f)
		if err != nil {
			fmt.Fprintln(os.Stderr, err)
			os.Exit(3)
		}
		for _, line := range strings.Split(string(data), "\n") {
			line = strings.TrimSpace(line)
			if line == "" || strings.HasPrefix(line, "#") {
				continue
			}
			if i := strings.Index(line, " ## "); i >= 0 {
				line = line[:i]
			}
			for k := 0; k < *repeat; k++ {
				corpus = append(corpus, line)
			}
		}
	}
	runAll(out, corpus, "corpus")
	if !*noGen {
		var lines []string
		for _, c := range matrix() {
			lines = append(lines, c.String())
		}
		runAll(out, lines, "matrix")
		lines = nil
		for _, c := range lateMatrix() {
			lines = append(lines, c.String())
		}
		runAll(out, lines, "late-matrix")
		lines = nil
		for _, c := range transportMatrix() {
			lines = append(lines, c.String())
		}
		runAll(out, lines, "transport-matrix")
		lines = nil
		for _, c := range configMatrix() {
			lines = append(lines, c.String())
		}
		runAll(out, lines, "config-matrix")
		lines = nil
		for _, c := range zeroListenMatrix() {
			lines = append(lines, c.String())
		}
		runAll(out, lines, "zero-listen-matrix")
		lines = nil
		for _, c := range expiryMatrix() {
			lines = append(lines, c.String())
		}
		runAll(out, lines, "expiry-matrix")
		lines = nil
		for _, c := range spellingMatrix() {
			lines = append(lines, c.String())
		}
		runAll(out, lines, "spelling-matrix")
		runAll(out, []string{"e2e"}, "e2e")
		runAll(out, []string{"twonode plain", "twonode lead-space", "twonode lead-tab", "twonode lead-nl", "twonode lead-cr",
			"twonode trail-space", "twonode trail-nl", "twonode bar", "twonode case", "twonode hdr16"}, "twonode")
		runAll(out, []string{"rmw usage", "rmw usage-read1", "rmw usage-read2", "rmw stats", "rmw stats-read1", "rmw status", "rmw status-read1"}, "rmw")
		n := 600
		if *tier == "thorough" {
			n = 12000
		}
		lines = nil
		for _, c := range randomCases(vc.NewRand(*seed), n) {
			lines = append(lines, c.String())
		}
		runAll(out, lines, "random")
	}
	out.Finish(*stats, nil)
}
