//go:build verif

package main

import (
	"context"
	"fmt"
	"runtime"
	"strconv"
	"strings"

	"tunnox-core/internal/core/storage/memory"
	"tunnox-core/internal/core/storage/types"
	vc "tunnox-core/internal/verifharness/common"
)

// `alias` cases: sequential histories on the real memory backend in which the CALLER keeps what it
// got and gave: answers of GetList are held in registers WITHOUT copying and looked at again later
// (`peek`), and held slices are stored again under another key (`setlr`). In a map with expiry an
// answer never changes after it was returned, and a call on key a never changes key b.
//
//	setlc k extra n a…   SetList(k, fresh slice of n members with `extra` spare capacity, 0)
//	hold r k             reg[r] = GetList(k)           answer: the list | nf
//	peek r               look at reg[r] again          answer: the list as it is NOW
//	setlr k r            SetList(k, reg[r], 0)
//	getl k | app k a | rem k a | del k
func aliasArity(op string) int {
	switch op {
	case "peek", "getl", "del":
		return 1
	case "hold", "setlr", "app", "rem":
		return 2
	}
	return -1
}

func parseAlias(ts []string) ([]item, error) {
	var out []item
	for i := 0; i < len(ts); {
		op := ts[i]
		if op == "setlc" {
			if i+3 >= len(ts) {
				return nil, fmt.Errorf("short setlc")
			}
			n, err := strconv.Atoi(ts[i+3])
			if err != nil || n < 0 || i+4+n > len(ts) {
				return nil, fmt.Errorf("bad setlc")
			}
			out = append(out, item{op, ts[i+1 : i+4+n]})
			i += 4 + n
			continue
		}
		a := aliasArity(op)
		if a < 0 || i+1+a > len(ts) {
			return nil, fmt.Errorf("bad alias item %q", op)
		}
		out = append(out, item{op, ts[i+1 : i+1+a]})
		i += 1 + a
	}
	return out, nil
}

func runAlias(items []item) string {
	st := memory.New(context.Background())
	defer st.Close()
	regs := map[string][]any{}
	var obs []string
	for _, it := range items {
		obs = append(obs, aliasCall(st, regs, it))
	}
	return strings.Join(obs, " ")
}

func aliasCall(st types.FullStorage, regs map[string][]any, it item) (o string) {
	defer func() {
		if r := recover(); r != nil {
			o = "panic:" + sanitize(fmt.Sprint(r))
		}
	}()
	a := it.args
	switch it.op {
	case "setlc":
		extra, _ := strconv.Atoi(a[1])
		n, _ := strconv.Atoi(a[2])
		vals := make([]any, n, n+extra)
		for i := 0; i < n; i++ {
			v, ok := atomOf(a[3+i])
			if !ok {
				return "bad-atom"
			}
			vals[i] = v
		}
		return errTok(st.SetList(keyOf(a[0]), vals, 0))
	case "hold":
		l, err := st.GetList(keyOf(a[1]))
		if err != nil {
			delete(regs, a[0])
			return errTok(err)
		}
		regs[a[0]] = l // the answer itself, not a copy
		return renderAny(l)
	case "peek":
		return renderAny(regs[a[0]])
	case "setlr":
		return errTok(st.SetList(keyOf(a[0]), regs[a[1]], 0))
	}
	return doCall(st, it)
}

// holdCheck: one GetList answer looked at twice; it must not change and never contain nil.
func holdCheck(st types.FullStorage, key string) string {
	l, err := st.GetList(key)
	if err != nil {
		return errTok(err)
	}
	s1 := renderAny(l)
	runtime.Gosched()
	s2 := renderAny(l)
	if s1 != s2 || strings.Contains(s1, "nil") {
		return "err:answer-changed:" + s1 + "->" + s2
	}
	return "ok"
}

// ---- generator

func genAlias(r *vc.Rand, thorough bool) []string {
	x, y, z, p, q := sTok("x"), sTok("y"), sTok("z"), sTok("p"), sTok("q")
	var out []string
	// exhaustive small scope: a list on key a (spare capacity 0|2), an answer held and/or stored again
	// under key b, then one or two mutations of a or b, then everything is looked at again
	setups := []string{
		"setlc a 0 3 " + x + " " + y + " " + z,
		"setlc a 2 3 " + x + " " + y + " " + z,
		"setlc a 0 3 " + x + " " + y + " " + x,
		"app a " + x + " app a " + y + " app a " + z,
		"setlc a 2 2 " + x + " " + y + " rem a " + x + " app a " + z + " app a " + x,
	}
	shares := []string{"hold 0 a", "hold 0 a setlr b 0", "hold 0 a setlr b 0 hold 1 b", "hold 0 a setlr b 0 setlr c 0"}
	muts := []string{"rem a " + x, "rem a " + y, "rem a " + z, "rem a " + p, "app a " + p, "rem b " + x, "rem b " + y, "app b " + q, "del a",
		"setlc a 0 1 " + q, "rem a " + x + " app a " + p, "app a " + p + " app b " + q, "app b " + q + " app a " + p, "rem a " + y + " rem b " + x,
		"app a " + p + " rem a " + x, "rem a " + x + " rem a " + y}
	probe := "peek 0 peek 1 getl a getl b getl c"
	for _, su := range setups {
		for _, sh := range shares {
			for _, m := range muts {
				out = append(out, "alias "+su+" "+sh+" "+m+" "+probe)
			}
		}
	}
	n := 400
	if thorough {
		n = 8000
	}
	keys := []string{"a", "b", "c"}
	atoms := []string{x, y, z}
	for i := 0; i < n; i++ {
		var b []string
		held := map[string]bool{}
		for j, m := 0, 4+r.Intn(14); j < m; j++ {
			k := vc.Pick(r, keys)
			switch c := r.Intn(20); {
			case c < 2:
				nn := 1 + r.Intn(4)
				s := "setlc " + k + " " + strconv.Itoa(r.Intn(3)) + " " + strconv.Itoa(nn)
				for e := 0; e < nn; e++ {
					s += " " + vc.Pick(r, atoms)
				}
				b = append(b, s)
			case c < 6:
				reg := strconv.Itoa(r.Intn(3))
				held[reg] = true
				b = append(b, "hold "+reg+" "+k)
			case c < 9:
				reg := strconv.Itoa(r.Intn(3))
				if held[reg] {
					b = append(b, "setlr "+k+" "+reg)
				} else {
					b = append(b, "getl "+k)
				}
			case c < 13:
				b = append(b, "app "+k+" "+vc.Pick(r, atoms))
			case c < 17:
				b = append(b, "rem "+k+" "+vc.Pick(r, atoms))
			case c < 18:
				b = append(b, "del "+k)
			default:
				b = append(b, "peek "+strconv.Itoa(r.Intn(3)))
			}
		}
		b = append(b, "peek 0 peek 1 peek 2 getl a getl b getl c")
		out = append(out, "alias "+strings.Join(b, " "))
	}
	return out
}
