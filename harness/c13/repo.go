//go:build verif

package main

import (
	"context"
	"errors"
	"fmt"
	"strconv"
	"strings"
	"time"

	"github.com/alicebob/miniredis/v2"

	"tunnox-core/internal/cloud/distributed"
	"tunnox-core/internal/cloud/managers"
	"tunnox-core/internal/cloud/repos"
	"tunnox-core/internal/core/storage/memory"
	redisst "tunnox-core/internal/core/storage/redis"
	"tunnox-core/internal/core/storage/types"
	vc "tunnox-core/internal/verifharness/common"
)

// `repo` cases drive the REAL repository-layer code of the property's anchor files —
// distributed.StorageBasedLock, managers.CleanupManager, repos.GenericRepositoryImpl,
// types.TypedFullStorageAdapter — over BOTH backends through a recording store:
//
//   - every storage call these components make, with its answer, is emitted as an ordinary
//     `mem …` / `red …` case (judged by the reference like any other history);
//   - the answers of the components themselves are emitted as
//     `repo <scenario> ## <answers on memory> | <answers on Redis>` and must coincide.
//
// Scenario steps (lifetimes 0|S|M|L = never | short | sub-second | long; `sl` = let S and M pass):
//   acq|ren|try o k T   rel o k   isl k   own k              storage_based_lock.go, owners A/B
//   creg t   cacq t   ccomp t   ccompe t                      cleanup_manager.go
//   save|crt|upd id name T   gget id   gdel id   list   addl id name   reml id name   generic_repository.go
//   tset|tnx k id name T   tcas k id name id name T   tget k   thset k f id name   thget k f   thall k
//   tapp|trem k id name   tlist k   ihset k f n   ihget k f   adapters.go (typed adapters)

type recStore struct {
	in  types.FullStorage
	log []string // item tokens
	obs []string
	ok  bool
}

func (r *recStore) rec(tokens string, o string) {
	r.log = append(r.log, tokens)
	r.obs = append(r.obs, o)
}
func (r *recStore) atom(v any) string {
	switch x := v.(type) {
	case nil:
		return "nil"
	case string:
		return sTok(x)
	case int64:
		return "i" + strconv.FormatInt(x, 10)
	case int:
		return "i" + strconv.Itoa(x)
	}
	r.ok = false
	return "s-"
}
func kt(k string) string { return keyTok(strings.ReplaceAll(k, " ", "_")) }
func dt(d time.Duration) string { return strconv.FormatInt(int64(d), 10) }

func (r *recStore) Set(k string, v any, ttl time.Duration) error {
	err := r.in.Set(k, v, ttl)
	r.rec("set "+kt(k)+" "+r.atom(v)+" "+dt(ttl), errTok(err))
	return err
}
func (r *recStore) Get(k string) (any, error) {
	v, err := r.in.Get(k)
	if err != nil {
		r.rec("get "+kt(k), errTok(err))
	} else {
		r.rec("get "+kt(k), renderAny(v))
	}
	return v, err
}
func (r *recStore) Delete(k string) error {
	err := r.in.Delete(k)
	r.rec("del "+kt(k), errTok(err))
	return err
}
func (r *recStore) Exists(k string) (bool, error) {
	b, err := r.in.Exists(k)
	if err != nil {
		r.rec("ex "+kt(k), errTok(err))
	} else {
		r.rec("ex "+kt(k), boolTok(b))
	}
	return b, err
}
func (r *recStore) SetExpiration(k string, ttl time.Duration) error {
	err := r.in.SetExpiration(k, ttl)
	r.rec("exp "+kt(k)+" "+dt(ttl), errTok(err))
	return err
}
func (r *recStore) GetExpiration(k string) (time.Duration, error) {
	d, err := r.in.GetExpiration(k)
	if err != nil {
		r.rec("ttl "+kt(k), errTok(err))
	} else {
		r.rec("ttl "+kt(k), durTok(d))
	}
	return d, err
}
func (r *recStore) CleanupExpired() error {
	err := r.in.CleanupExpired()
	r.rec("gc", errTok(err))
	return err
}
func (r *recStore) Close() error { return nil }
func (r *recStore) SetList(k string, vs []any, ttl time.Duration) error {
	err := r.in.SetList(k, vs, ttl)
	p := []string{"setl", kt(k), strconv.Itoa(len(vs))}
	for _, v := range vs {
		p = append(p, r.atom(v))
	}
	r.rec(strings.Join(p, " ")+" "+dt(ttl), errTok(err))
	return err
}
func (r *recStore) GetList(k string) ([]any, error) {
	v, err := r.in.GetList(k)
	if err != nil {
		r.rec("getl "+kt(k), errTok(err))
	} else {
		r.rec("getl "+kt(k), renderAny(v))
	}
	return v, err
}
func (r *recStore) AppendToList(k string, v any) error {
	err := r.in.AppendToList(k, v)
	r.rec("app "+kt(k)+" "+r.atom(v), errTok(err))
	return err
}
func (r *recStore) RemoveFromList(k string, v any) error {
	err := r.in.RemoveFromList(k, v)
	r.rec("rem "+kt(k)+" "+r.atom(v), errTok(err))
	return err
}
func (r *recStore) SetHash(k, f string, v any) error {
	err := r.in.SetHash(k, f, v)
	r.rec("hset "+kt(k)+" "+kt(f)+" "+r.atom(v), errTok(err))
	return err
}
func (r *recStore) GetHash(k, f string) (any, error) {
	v, err := r.in.GetHash(k, f)
	if err != nil {
		r.rec("hget "+kt(k)+" "+kt(f), errTok(err))
	} else {
		r.rec("hget "+kt(k)+" "+kt(f), renderAny(v))
	}
	return v, err
}
func (r *recStore) GetAllHash(k string) (map[string]any, error) {
	v, err := r.in.GetAllHash(k)
	if err != nil {
		r.rec("hall "+kt(k), errTok(err))
	} else {
		r.rec("hall "+kt(k), renderAny(v))
	}
	return v, err
}
func (r *recStore) DeleteHash(k, f string) error {
	err := r.in.DeleteHash(k, f)
	r.rec("hdel "+kt(k)+" "+kt(f), errTok(err))
	return err
}
func (r *recStore) Incr(k string) (int64, error) {
	n, err := r.in.Incr(k)
	if err != nil {
		r.rec("incr "+kt(k)+" 1", errTok(err))
	} else {
		r.rec("incr "+kt(k)+" 1", "n"+strconv.FormatInt(n, 10))
	}
	return n, err
}
func (r *recStore) IncrBy(k string, d int64) (int64, error) {
	n, err := r.in.IncrBy(k, d)
	if d == 1 {
		r.ok = false // the executor would replay it through Incr
	}
	if err != nil {
		r.rec("incr "+kt(k)+" "+strconv.FormatInt(d, 10), errTok(err))
	} else {
		r.rec("incr "+kt(k)+" "+strconv.FormatInt(d, 10), "n"+strconv.FormatInt(n, 10))
	}
	return n, err
}
func (r *recStore) SetNX(k string, v any, ttl time.Duration) (bool, error) {
	b, err := r.in.SetNX(k, v, ttl)
	if err != nil {
		r.rec("nx "+kt(k)+" "+r.atom(v)+" "+dt(ttl), errTok(err))
	} else {
		r.rec("nx "+kt(k)+" "+r.atom(v)+" "+dt(ttl), boolTok(b))
	}
	return b, err
}
func (r *recStore) CompareAndSwap(k string, o, n any, ttl time.Duration) (bool, error) {
	b, err := r.in.CompareAndSwap(k, o, n, ttl)
	if err != nil {
		r.rec("cas "+kt(k)+" "+r.atom(o)+" "+r.atom(n)+" "+dt(ttl), errTok(err))
	} else {
		r.rec("cas "+kt(k)+" "+r.atom(o)+" "+r.atom(n)+" "+dt(ttl), boolTok(b))
	}
	return b, err
}
func (r *recStore) Watch(k string, cb func(any)) error { r.ok = false; return r.in.Watch(k, cb) }
func (r *recStore) Unwatch(k string) error               { return r.in.Unwatch(k) }

// ---- scenario execution

type ent struct {
	ID   string `json:"id"`
	Name string `json:"name"`
}

type backend struct {
	name         string
	st           types.FullStorage
	sleep        func()
	sleepTok     string
	s, m, l      time.Duration
	closeBackend func()
}

func newBackend(name string) (*backend, error) {
	if name == "mem" {
		st := memory.New(context.Background())
		return &backend{name: "mem", st: st, sleep: func() { time.Sleep(sleepNS) }, sleepTok: "sl " + strconv.Itoa(sleepNS),
			s: shortNS, m: shortNS, l: longNS, closeBackend: func() { st.Close() }}, nil
	}
	mr, err := miniredis.Run()
	if err != nil {
		return nil, err
	}
	st, err := redisst.New(context.Background(), &redisst.Config{Addr: mr.Addr()})
	if err != nil {
		mr.Close()
		return nil, err
	}
	return &backend{name: "red", st: st, sleep: func() { mr.FastForward(rSleepNS) }, sleepTok: "sl " + strconv.Itoa(rSleepNS),
		s: rShortNS, m: 500 * time.Millisecond, l: longNS, closeBackend: func() { st.Close(); mr.Close() }}, nil
}

func (b *backend) ttl(t string) time.Duration {
	switch t {
	case "S":
		return b.s
	case "M":
		return b.m
	case "L":
		return b.l
	}
	return 0
}

func repoErr(err error) string {
	switch {
	case err == nil:
		return "ok"
	case errors.Is(err, types.ErrKeyNotFound):
		return "nf"
	}
	return "err"
}

func repoArity(op string) int {
	switch op {
	case "sl", "list":
		return 0
	case "isl", "own", "creg", "cacq", "ccomp", "ccompe", "gget", "gdel", "tget", "thall", "tlist":
		return 1
	case "rel", "addl", "reml", "thget", "ihget":
		return 2
	case "acq", "ren", "try", "save", "crt", "upd", "tapp", "trem", "ihset":
		return 3
	case "tset", "tnx", "thset":
		return 4
	case "tcas":
		return 6
	}
	return -1
}

// runRepoOn runs the scenario on one backend; returns component answers, recorded storage history + answers.
func runRepoOn(name string, steps []item) (answers []string, hist string, obs string, recOK bool, valid bool) {
	b, err := newBackend(name)
	if err != nil {
		return []string{"err:backend"}, "", "", false, true
	}
	defer b.closeBackend()
	rec := &recStore{in: b.st, ok: true}
	locks := map[string]*distributed.StorageBasedLock{
		"A": distributed.NewStorageBasedLock(rec, "nodeA"),
		"B": distributed.NewStorageBasedLock(rec, "nodeB"),
	}
	cm := managers.NewCleanupManager(rec, locks["A"], context.Background())
	gr := repos.NewGenericRepository[ent](repos.NewRepository(rec), func(e ent) (string, error) { return e.ID, nil })
	ta := types.NewTypedFullStorageAdapter[ent](rec)
	ti := types.NewTypedFullStorageAdapter[int64](rec)
	valid = true
	t0 := time.Now()
	for _, it := range steps {
		a := it.args
		var o string
		func() {
			defer func() {
				if r := recover(); r != nil {
					o = "panic:" + sanitize(fmt.Sprint(r))
				}
			}()
			switch it.op {
			case "sl":
				if name == "mem" && time.Since(t0) > burstMax {
					valid = false
				}
				b.sleep()
				rec.log = append(rec.log, b.sleepTok)
				t0 = time.Now()
				o = "-"
			case "acq":
				ok, err := locks[a[0]].Acquire(a[1], b.ttl(a[2]))
				o = boolTok(ok) + repoErr(err)
			case "try":
				ok, err := locks[a[0]].TryAcquire(a[1], b.ttl(a[2]), 2, 100*time.Microsecond)
				o = boolTok(ok) + repoErr(err)
			case "ren":
				ok, err := locks[a[0]].RenewLock(a[1], b.ttl(a[2]))
				o = boolTok(ok)
				if err != nil {
					o += "err"
				}
			case "rel":
				o = repoErr(locks[a[0]].Release(a[1]))
			case "isl":
				ok, err := locks["A"].IsLocked(a[0])
				o = boolTok(ok) + repoErr(err)
			case "own":
				w, err := locks["A"].GetLockOwner(a[0])
				if err != nil {
					o = "none"
				} else {
					o = "owner:" + w
				}
			case "creg":
				o = repoErr(cm.RegisterCleanupTask(context.Background(), a[0], time.Minute))
			case "cacq":
				t, ok, err := cm.AcquireCleanupTask(context.Background(), a[0])
				o = boolTok(ok) + repoErr(err)
				if t != nil {
					o += ":" + t.Status
				}
			case "ccomp":
				o = repoErr(cm.CompleteCleanupTask(context.Background(), a[0], nil))
			case "ccompe":
				o = repoErr(cm.CompleteCleanupTask(context.Background(), a[0], errors.New("boom")))
			case "save":
				o = repoErr(gr.Save(ent{a[0], a[1]}, "ent", b.ttl(a[2])))
			case "crt":
				if gr.Create(ent{a[0], a[1]}, "ent", b.ttl(a[2])) == nil {
					o = "ok"
				} else {
					o = "exists"
				}
			case "upd":
				if gr.Update(ent{a[0], a[1]}, "ent", b.ttl(a[2])) == nil {
					o = "ok"
				} else {
					o = "missing"
				}
			case "gget":
				e, err := gr.Get(a[0], "ent")
				if err != nil {
					o = "nf"
				} else {
					o = e.ID + "=" + e.Name
				}
			case "gdel":
				o = repoErr(gr.Delete(a[0], "ent"))
			case "list":
				es, err := gr.List("ent:list")
				o = repoErr(err) + ":" + entList(es)
			case "addl":
				o = repoErr(gr.AddToList(ent{a[0], a[1]}, "ent:list"))
			case "reml":
				o = repoErr(gr.RemoveFromList(ent{a[0], a[1]}, "ent:list"))
			case "tset":
				o = repoErr(ta.Set(a[0], ent{a[1], a[2]}, b.ttl(a[3])))
			case "tnx":
				ok, err := ta.SetNX(a[0], ent{a[1], a[2]}, b.ttl(a[3]))
				o = boolTok(ok) + repoErr(err)
			case "tcas":
				ok, err := ta.CompareAndSwap(a[0], ent{a[1], a[2]}, ent{a[3], a[4]}, b.ttl(a[5]))
				o = boolTok(ok) + repoErr(err)
			case "tget":
				e, err := ta.Get(a[0])
				if err != nil {
					o = repoErr(err)
				} else {
					o = e.ID + "=" + e.Name
				}
			case "thset":
				o = repoErr(ta.SetHash(a[0], a[1], ent{a[2], a[3]}))
			case "thget":
				e, err := ta.GetHash(a[0], a[1])
				if err != nil {
					o = repoErr(err)
				} else {
					o = e.ID + "=" + e.Name
				}
			case "thall":
				m, err := ta.GetAllHash(a[0])
				if err != nil || len(m) == 0 {
					o = "empty" // the repositories treat a missing hash as empty
				} else {
					var es []string
					for _, f := range sortedKeys(m) {
						es = append(es, f+":"+m[f].ID+"="+m[f].Name)
					}
					o = strings.Join(es, ",")
				}
			case "tapp":
				o = repoErr(ta.AppendToList(a[0], ent{a[1], a[2]}))
			case "trem":
				o = repoErr(ta.RemoveFromList(a[0], ent{a[1], a[2]}))
			case "tlist":
				es, err := ta.GetList(a[0])
				if err != nil {
					es = nil // a missing list is an empty list for the repositories
				}
				o = "l:" + entList(es)
			case "ihset":
				n, _ := strconv.ParseInt(a[2], 10, 64)
				o = repoErr(ti.SetHash(a[0], a[1], n))
			case "ihget":
				n, err := ti.GetHash(a[0], a[1])
				if err != nil {
					o = repoErr(err)
				} else {
					o = "n" + strconv.FormatInt(n, 10)
				}
			default:
				o = "badstep"
			}
		}()
		answers = append(answers, o)
	}
	if name == "mem" && time.Since(t0) > burstMax {
		valid = false
	}
	return answers, strings.Join(rec.log, " "), strings.Join(rec.obs, " "), rec.ok, valid
}

func sortedKeys(m map[string]ent) []string {
	ks := make([]string, 0, len(m))
	for k := range m {
		ks = append(ks, k)
	}
	for i := range ks {
		for j := i + 1; j < len(ks); j++ {
			if ks[j] < ks[i] {
				ks[i], ks[j] = ks[j], ks[i]
			}
		}
	}
	return ks
}

func entList(es []ent) string {
	p := make([]string, len(es))
	for i, e := range es {
		p[i] = e.ID + "=" + e.Name
	}
	return "[" + strings.Join(p, ",") + "]"
}

func parseRepo(ts []string) ([]item, error) {
	var out []item
	for i := 0; i < len(ts); {
		a := repoArity(ts[i])
		if a < 0 || i+1+a > len(ts) {
			return nil, fmt.Errorf("bad repo step %q", ts[i])
		}
		out = append(out, item{ts[i], ts[i+1 : i+1+a]})
		i += 1 + a
	}
	return out, nil
}

// runRepo returns full output lines ("case ## obs").
func runRepo(ts []string) []string {
	steps, err := parseRepo(ts)
	if err != nil {
		return []string{"bad-case"}
	}
	var memAns []string
	var memHist, memObs string
	var memOK bool
	for attempt := 0; attempt < 6; attempt++ {
		var valid bool
		memAns, memHist, memObs, memOK, valid = runRepoOn("mem", steps)
		if valid {
			break
		}
	}
	redAns, redHist, redObs, redOK, _ := runRepoOn("red", steps)
	lines := []string{"repo " + strings.Join(ts, " ") + " ## " + strings.Join(memAns, " ") + " | " + strings.Join(redAns, " ")}
	if memOK && strings.TrimSpace(memObs) != "" {
		lines = append(lines, "mem "+memHist+" ## "+memObs)
	}
	if redOK && strings.TrimSpace(redObs) != "" {
		lines = append(lines, "red "+redHist+" ## "+redObs)
	}
	return lines
}

// ---- generator

func genRepo(r *vc.Rand, thorough bool) []string {
	var out []string
	ttls := []string{"0", "S", "M", "L"}
	// lock: every (acquire ttl, renew ttl) pair, renewal across the original deadline, hand-over
	for _, t1 := range ttls {
		for _, t2 := range ttls {
			out = append(out,
				"repo acq A job "+t1+" isl job own job ren A job "+t2+" ren B job "+t2+" sl isl job own job acq B job "+t1+" own job rel A job rel B job isl job",
				"repo acq A job "+t1+" acq B job "+t2+" sl try B job "+t2+" ren A job "+t1+" ren B job "+t1+" sl isl job own job rel B job acq A job "+t2+" own job")
		}
	}
	// cleanup manager
	out = append(out,
		"repo creg sweep creg sweep cacq sweep cacq sweep ccomp sweep cacq sweep ccompe sweep cacq sweep",
		"repo cacq ghost creg a creg b cacq a cacq b ccomp a ccomp b ccomp ghost cacq a",
	)
	// generic repository + typed adapters: matrix over lifetimes
	for _, t1 := range ttls {
		for _, t2 := range ttls {
			out = append(out,
				"repo crt 1 ann "+t1+" crt 1 bob "+t2+" gget 1 upd 1 cy "+t2+" gget 1 sl gget 1 upd 1 dan "+t1+" crt 1 eve "+t1+" gget 1 gdel 1 gget 1",
				"repo tset k 1 ann "+t1+" tnx k 2 bob "+t2+" tcas k 1 ann 1 ann "+t2+" tget k sl tget k tnx k 2 bob "+t1+" tcas k 2 bob 3 cy "+t2+" tget k sl tget k")
		}
	}
	out = append(out,
		"repo list addl 1 ann addl 2 bob addl 1 ann list reml 1 ann list reml 3 zed list reml 2 bob list addl 4 dan list",
		"repo tlist q tapp q 1 ann tapp q 2 bob tlist q trem q 1 ann tlist q trem q 2 bob tlist q tapp q 3 cy tlist q",
		"repo thall h thset h f 1 ann thset h g 2 bob thget h f thget h x thall h ihset c n 5 ihget c n ihset c n -7 ihget c n",
	)
	n := 60
	if thorough {
		n = 1500
	}
	ids := []string{"1", "2"}
	names := []string{"ann", "bob"}
	for i := 0; i < n; i++ {
		var b []string
		sleeps := 0
		for j, m := 0, 4+r.Intn(12); j < m; j++ {
			o, id, nm, t := vc.Pick(r, []string{"A", "B"}), vc.Pick(r, ids), vc.Pick(r, names), vc.Pick(r, ttls)
			switch r.Intn(30) {
			case 0, 1:
				b = append(b, "acq "+o+" job "+t)
			case 2, 3:
				b = append(b, "ren "+o+" job "+t)
			case 4:
				b = append(b, "rel "+o+" job")
			case 5:
				b = append(b, "isl job own job")
			case 6:
				b = append(b, "creg t")
			case 7:
				b = append(b, "cacq t")
			case 8:
				b = append(b, vc.Pick(r, []string{"ccomp t", "ccompe t"}))
			case 9:
				b = append(b, "save "+id+" "+nm+" "+t)
			case 10:
				b = append(b, "crt "+id+" "+nm+" "+t)
			case 11:
				b = append(b, "upd "+id+" "+nm+" "+t)
			case 12, 13:
				b = append(b, "gget "+id)
			case 14:
				b = append(b, "gdel "+id)
			case 15:
				b = append(b, "addl "+id+" "+nm)
			case 16:
				b = append(b, "reml "+id+" "+nm)
			case 17:
				b = append(b, "list")
			case 18:
				b = append(b, "tset k "+id+" "+nm+" "+t)
			case 19:
				b = append(b, "tnx k "+id+" "+nm+" "+t)
			case 20, 21:
				b = append(b, "tcas k "+id+" "+nm+" "+vc.Pick(r, ids)+" "+vc.Pick(r, names)+" "+t)
			case 22:
				b = append(b, "tget k")
			case 23:
				b = append(b, "thset h "+vc.Pick(r, []string{"f", "g"})+" "+id+" "+nm)
			case 24:
				b = append(b, vc.Pick(r, []string{"thget h f", "thall h"}))
			case 25:
				b = append(b, "tapp q "+id+" "+nm)
			case 26:
				b = append(b, vc.Pick(r, []string{"trem q " + id + " " + nm, "tlist q"}))
			default:
				if sleeps < 2 {
					b = append(b, "sl")
					sleeps++
				}
			}
		}
		b = append(b, "isl job own job gget 1 gget 2 list tget k thall h tlist q")
		out = append(out, "repo "+strings.Join(b, " "))
	}
	return out
}
