//go:build verif

package main

import (
	"strconv"
	"strings"

	vc "tunnox-core/internal/verifharness/common"
)

// Generator design (after the missed regression C13-cas-same-value-skips-ttl):
//   * small value alphabet (x, y, i1 in 80 % of the draws) and deliberate equal-value calls:
//     CAS whose expected value is the value last written to the key, CAS with new == old;
//   * every lifetime-carrying call is followed, with good probability, by GetExpiration and by a
//     clock step past the short deadline plus a read, so that the OLD and the NEW lifetime are
//     both observed; consecutive lifetimes on a key are drawn to differ;
//   * exhaustive small scope: (op1, [sleep], op2, probe) on one key with every ttl combination
//     {0, short, long}² and every call kind as op2, for both backends;
//   * the call shapes of distributed/storage_based_lock.go (acquire = SetNX, renew = Get +
//     CAS(v, v, ttl), release = Get + Delete) as scenarios, for both backends.

// genState remembers what the generator last wrote to each key.
type genState struct {
	lastVal map[string]string
	lastTTL map[string]string
}

func newGenState() *genState {
	return &genState{lastVal: map[string]string{}, lastTTL: map[string]string{}}
}

var smallAtoms = []string{sTok("x"), sTok("y"), "i1"}

func (g *genState) atom(r *vc.Rand, wide func(*vc.Rand) string) string {
	if r.Intn(5) != 0 {
		return vc.Pick(r, smallAtoms)
	}
	return wide(r)
}

// ttl different from the last lifetime given to k (with probability 3/4).
func (g *genState) ttl(r *vc.Rand, k string, ttls []string, odd func(*vc.Rand) string) string {
	for i := 0; i < 4; i++ {
		t := vc.Pick(r, ttls)
		if odd != nil && r.Intn(14) == 0 {
			t = odd(r)
		}
		if t != g.lastTTL[k] || i == 3 {
			return t
		}
	}
	return ttls[0]
}

// casArgs: expected value = last written value (55 %), nil (12 %), else small; new = old (40 %).
func (g *genState) casArgs(r *vc.Rand, k string, wide func(*vc.Rand) string) (string, string) {
	old := g.atom(r, wide)
	switch n := r.Intn(100); {
	case n < 55 && g.lastVal[k] != "":
		old = g.lastVal[k]
	case n < 67:
		old = "nil"
	}
	nw := g.atom(r, wide)
	if old != "nil" && r.Intn(100) < 40 {
		nw = old
	}
	return old, nw
}

func (g *genState) wrote(k, v, ttl string) { g.lastVal[k] = v; g.lastTTL[k] = ttl }

// afterWrite: observations of the lifetime just given.
func afterWrite(r *vc.Rand, k string, sleepNS int, sleeps *int, maxSleeps int) []string {
	var out []string
	n := r.Intn(100)
	if n < 50 {
		out = append(out, "ttl "+k)
	}
	if n >= 35 && n < 60 && *sleeps < maxSleeps {
		out = append(out, "sl "+strconv.Itoa(sleepNS), "get "+k, "ttl "+k)
		*sleeps++
	}
	return out
}

// ---- exhaustive small scope on one key

func ttlSetups(k, x string, ttls []string, kvOnly bool) []string {
	out := []string{""}
	for _, t := range ttls {
		out = append(out, "set "+k+" "+x+" "+t, "nx "+k+" "+x+" "+t, "cas "+k+" nil "+x+" "+t)
		if !kvOnly {
			out = append(out,
				"set "+k+" i1 "+t,
				"setl "+k+" 2 "+x+" "+x+" "+t,
				"hset "+k+" f "+x+" exp "+k+" "+t,
				"incr "+k+" 1 exp "+k+" "+t,
				"app "+k+" "+x+" exp "+k+" "+t)
		}
	}
	if !kvOnly {
		out = append(out, "app "+k+" "+x, "incr "+k+" 5", "hset "+k+" f "+x)
	}
	return out
}

func secondOps(k, x, y string, ttls []string, kvOnly bool) []string {
	var out []string
	for _, t := range ttls {
		out = append(out,
			"set "+k+" "+x+" "+t, "set "+k+" "+y+" "+t, "nx "+k+" "+y+" "+t,
			"cas "+k+" "+x+" "+x+" "+t, "cas "+k+" "+x+" "+y+" "+t, "cas "+k+" "+y+" "+y+" "+t,
			"cas "+k+" nil "+y+" "+t, "exp "+k+" "+t)
		if !kvOnly {
			out = append(out, "cas "+k+" i1 i1 "+t, "cas "+k+" i1 "+y+" "+t, "setl "+k+" 2 "+x+" "+y+" "+t)
			out = append(out, "setl "+k+" 0 "+t, "set "+k+" s- "+t, "cas "+k+" s- "+y+" "+t, "cas "+k+" "+x+" s- "+t)
		}
	}
	out = append(out, "get "+k, "del "+k, "ex "+k, "ttl "+k)
	if !kvOnly {
		out = append(out, "watch "+k, "start", "stop", "start stop start", "stop stop start start")
		out = append(out, "exp "+k+" -1", "getl "+k, "app "+k+" "+y, "rem "+k+" "+x, "hset "+k+" f "+y, "hget "+k+" f",
			"hget "+k+" g", "hall "+k, "hdel "+k+" f", "incr "+k+" 1", "incr "+k+" -3", "gc",
			"incr "+k+" 0", "hset "+k+" - "+y, "hget "+k+" -", "hdel "+k+" -", "app "+k+" s-", "rem "+k+" s-")
	}
	return out
}

// triples: setup × (no sleep | sleep) × second call, then the lifetime is read, the clock steps
// past the short deadline, and everything is read again.
func triples(prefix, k string, ttls []string, sleepNS int, kvOnly bool) []string {
	x, y := strAtoms[0], strAtoms[1]
	sl := " sl " + strconv.Itoa(sleepNS)
	probe := " ttl " + k + " get " + k + sl + " ttl " + k + " get " + k + " ex " + k
	if !kvOnly {
		probe += " getl " + k + " hall " + k
	}
	var out []string
	for _, su := range ttlSetups(k, x, ttls, kvOnly) {
		for _, slp := range []string{"", sl} {
			if su == "" && slp != "" {
				continue
			}
			for _, c := range secondOps(k, x, y, ttls, kvOnly) {
				out = append(out, strings.Join(strings.Fields(prefix+" "+su+slp+" "+c+probe), " "))
			}
		}
	}
	return out
}

// ---- storage_based_lock.go call shapes

const lockKey = "lock:job"

var ownerA, ownerB = sTok("nodeA:1700000000000000001"), sTok("nodeB:1700000000000000002")

func lockAcquire(o, t string) string { return "nx " + lockKey + " " + o + " " + t }
func lockRenew(o, t string) string {
	return "get " + lockKey + " cas " + lockKey + " " + o + " " + o + " " + t
}
func lockRelease() string { return "get " + lockKey + " del " + lockKey }
func lockCheck() string   { return "get " + lockKey + " ttl " + lockKey + " ex " + lockKey }

func lockScenarios(r *vc.Rand, prefix string, ttls []string, sleepNS int, nRandom int) []string {
	sl := "sl " + strconv.Itoa(sleepNS)
	var out []string
	for _, t1 := range ttls {
		for _, t2 := range ttls {
			out = append(out, strings.Join([]string{prefix,
				lockAcquire(ownerA, t1), lockCheck(), lockRenew(ownerA, t2), lockCheck(), sl, lockCheck(),
				lockAcquire(ownerB, t1), lockCheck(), lockRenew(ownerB, t2), lockRenew(ownerA, t2), lockCheck(), sl, lockCheck(),
				lockRelease(), lockAcquire(ownerB, t2), lockCheck()}, " "))
			// renewal keeps a lease alive across its original deadline
			out = append(out, strings.Join([]string{prefix,
				lockAcquire(ownerA, t1), lockRenew(ownerA, t2), sl, lockAcquire(ownerB, t1), lockCheck(),
				lockRenew(ownerA, t1), lockRenew(ownerB, t1), sl, lockCheck(), lockAcquire(ownerA, t2), lockCheck()}, " "))
		}
	}
	for i := 0; i < nRandom; i++ {
		n := 4 + r.Intn(10)
		steps := []string{prefix}
		sleeps := 0
		for j := 0; j < n; j++ {
			o := ownerA
			if r.Bool() {
				o = ownerB
			}
			t := vc.Pick(r, ttls)
			switch r.Intn(9) {
			case 0, 1:
				steps = append(steps, lockAcquire(o, t))
			case 2, 3, 4:
				steps = append(steps, lockRenew(o, t))
			case 5:
				steps = append(steps, lockRelease())
			case 6:
				if sleeps < 3 {
					steps = append(steps, sl)
					sleeps++
				}
			default:
				steps = append(steps, lockCheck())
			}
		}
		steps = append(steps, lockCheck())
		out = append(out, strings.Join(steps, " "))
	}
	return out
}

// ---- bursts from a non-empty store: key a absent / live / permanent / expired-but-unswept, of every
// value kind; then 2-3 callers × 1-2 calls racing on it (incl. CleanupExpired); then a probe.

const (
	bShort = "2000000" // 2 ms, always followed by `sl 6000000` in the prefix
	bSleep = "sl 6000000"
)

func burstPrefixes() []string {
	x, l := strAtoms[0], strconv.Itoa(longNS)
	kinds := func(t string) []string {
		return []string{"set a " + x + " " + t, "set a i1 " + t, "setl a 1 " + x + " " + t, "hset a f " + x + " exp a " + t}
	}
	out := []string{""}
	out = append(out, kinds(l)...)
	out = append(out, kinds("0")...)
	for _, p := range kinds(bShort) {
		out = append(out, p+" "+bSleep)
	}
	return out
}

func burstWriters() []string {
	x, y, z, l := strAtoms[0], strAtoms[1], sTok("z"), strconv.Itoa(longNS)
	return []string{"nx a " + y + " 0", "nx a " + z + " " + l, "cas a nil " + y + " 0", "cas a " + x + " " + y + " " + l,
		"set a " + z + " 0", "incr a 1", "app a " + y, "hset a g " + y, "del a", "exp a 0", "gc"}
}

func burstReaders() []string { return []string{"ex a", "ttl a", "getl a", "hall a", "hget a f"} }

const burstProbe = "get a ttl a ex a getl a hall a"

func genBurst(r *vc.Rand, thorough bool) []string {
	var out []string
	w, rd := burstWriters(), burstReaders()
	for _, pre := range burstPrefixes() {
		line := func(progs ...string) string {
			return strings.Join(strings.Fields("burst "+pre+" / "+strings.Join(progs, " ; ")+" / "+burstProbe), " ")
		}
		// exhaustive: 2 callers × 1 call
		for i := range w {
			for j := i; j < len(w); j++ {
				out = append(out, line(w[i], w[j]))
			}
			for _, q := range rd {
				out = append(out, line(w[i], q))
			}
		}
		// 3 callers racing the same claim, and claim vs sweep
		out = append(out, line(w[0], w[1], w[0]), line(w[2], w[0], w[2]), line(w[0], w[1], "gc"), line(w[5], w[5], w[5]))
		// random 2-3 callers × 1-2 calls
		n := 4
		if thorough {
			n = 80
		}
		for i := 0; i < n; i++ {
			nt := 2 + r.Intn(2)
			progs := make([]string, nt)
			for t := range progs {
				var cs []string
				for c, m := 0, 1+r.Intn(2); c < m; c++ {
					if r.Intn(4) == 0 {
						cs = append(cs, vc.Pick(r, rd))
					} else {
						cs = append(cs, vc.Pick(r, w))
					}
				}
				progs[t] = strings.Join(cs, " ")
			}
			out = append(out, line(progs...))
		}
	}
	return out
}
