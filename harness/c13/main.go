//go:build verif

// Harness for C13 (storage backends implement one TTL key-value semantics).
//
//	c13 -mode mem|red|conc -tier quick|thorough -seed N [-stats file] [-nogen file] [corpus files…]
//
// Every case is a line of tokens (grammar: lean/TunnoxModel/Driver/C13.lean) executed by ONE
// executor against the real backends; generators only produce case lines.
//
//	mem  …   sequential history on the real memory.Storage (real clock; `sl` = time.Sleep)
//	red  …   sequential history on the real redis.Storage over miniredis (`sl` = FastForward)
//	sched i… / p ; p   concurrent callers, interleaving forced by a gated double
//	conc p ; p ; p     free-running concurrent callers (one line per distinct outcome)
//	hammer …           crash/race stress in a child process
package main

import (
	"bufio"
	"context"
	"encoding/hex"
	"errors"
	"flag"
	"fmt"
	"os"
	"os/exec"
	"sort"
	"strconv"
	"strings"
	"sync"
	"sync/atomic"
	"time"

	"github.com/alicebob/miniredis/v2"

	"tunnox-core/internal/core/storage/memory"
	redisst "tunnox-core/internal/core/storage/redis"
	"tunnox-core/internal/core/storage/types"
	vc "tunnox-core/internal/verifharness/common"
)

const (
	shortNS  = 40_000_000        // 40 ms
	sleepNS  = 60_000_000        // 60 ms
	longNS   = 3_600_000_000_000 // 1 h
	rShortNS = 2_000_000_000     // Redis: 2 s (CompareAndSwap passes whole seconds)
	rSleepNS = 3_000_000_000     // Redis: FastForward 3 s
	burstMax = 25 * time.Millisecond
)

// ---------------------------------------------------------------- values

func atomOf(tok string) (any, bool) {
	if tok == "nil" {
		return nil, true
	}
	if len(tok) < 2 {
		return nil, false
	}
	switch tok[0] {
	case 's':
		if tok[1:] == "-" {
			return "", true
		}
		b, err := hex.DecodeString(tok[1:])
		if err != nil {
			return nil, false
		}
		return string(b), true
	case 'i':
		n, err := strconv.ParseInt(tok[1:], 10, 64)
		if err != nil {
			return nil, false
		}
		return n, true
	}
	return nil, false
}

func sTok(s string) string {
	if s == "" {
		return "s-"
	}
	return "s" + hex.EncodeToString([]byte(s))
}

func renderAny(v any) string {
	switch x := v.(type) {
	case nil:
		return "nil"
	case string:
		return sTok(x)
	case int64:
		return "i" + strconv.FormatInt(x, 10)
	case int:
		return "i" + strconv.Itoa(x)
	case float64:
		return "f" + strconv.FormatFloat(x, 'g', -1, 64)
	case []any:
		p := make([]string, len(x))
		for i, e := range x {
			p[i] = renderAny(e)
		}
		return "L[" + strings.Join(p, ",") + "]"
	case map[string]any:
		ks := make([]string, 0, len(x))
		for k := range x {
			ks = append(ks, k)
		}
		sort.Strings(ks)
		p := make([]string, len(ks))
		for i, k := range ks {
			p[i] = keyTok(k) + "=" + renderAny(x[k])
		}
		return "H{" + strings.Join(p, ",") + "}"
	}
	return fmt.Sprintf("?%T", v)
}

func keyTok(k string) string {
	if k == "" {
		return "-"
	}
	return k
}
func keyOf(t string) string {
	if t == "-" {
		return ""
	}
	return t
}

func errTok(err error) string {
	switch {
	case err == nil:
		return "ok"
	case errors.Is(err, types.ErrKeyNotFound):
		return "nf"
	case errors.Is(err, types.ErrInvalidType):
		return "it"
	}
	return "err:" + sanitize(err.Error())
}

func sanitize(s string) string {
	s = strings.Map(func(r rune) rune {
		if r == ' ' || r == '\n' || r == '\t' || r == '#' || r == ';' {
			return '_'
		}
		return r
	}, s)
	if len(s) > 120 {
		s = s[:120]
	}
	return s
}

func durTok(d time.Duration) string {
	switch {
	case d == 0:
		return "d0"
	case d < 0:
		return "dneg"
	case d <= time.Minute:
		return "ds"
	case d <= 2*time.Hour:
		return "dl"
	}
	return "dx"
}

// ---------------------------------------------------------------- case items

type item struct {
	op   string
	args []string // raw tokens after the op name
}

func arity(op string) int {
	switch op {
	case "gc", "start", "stop":
		return 0
	case "cl", "sl", "get", "watch", "del", "ex", "ttl", "getl", "hall", "gck", "holdcheck":
		return 1
	case "exp", "app", "rem", "hget", "hdel", "incr":
		return 2
	case "set", "nx", "hset":
		return 3
	case "cas":
		return 4
	}
	return -1
}

func parseItems(ts []string) ([]item, error) {
	var out []item
	for i := 0; i < len(ts); {
		op := ts[i]
		if op == "setl" {
			if i+2 >= len(ts) {
				return nil, fmt.Errorf("short setl")
			}
			n, err := strconv.Atoi(ts[i+2])
			if err != nil || n < 0 || i+3+n+1 > len(ts) {
				return nil, fmt.Errorf("bad setl")
			}
			out = append(out, item{op, ts[i+1 : i+3+n+1]})
			i += 3 + n + 1
			continue
		}
		a := arity(op)
		if a < 0 || i+1+a > len(ts) {
			return nil, fmt.Errorf("bad item %q", op)
		}
		out = append(out, item{op, ts[i+1 : i+1+a]})
		i += 1 + a
	}
	return out, nil
}

func splitTok(ts []string, sep string) [][]string {
	out := [][]string{{}}
	for _, t := range ts {
		if t == sep {
			out = append(out, []string{})
		} else {
			out[len(out)-1] = append(out[len(out)-1], t)
		}
	}
	return out
}

func ttlOf(tok string) time.Duration {
	n, _ := strconv.ParseInt(tok, 10, 64)
	return time.Duration(n)
}

// doCall performs one storage call on the real backend and renders its result.
func doCall(st types.FullStorage, it item) (obs string) {
	defer func() {
		if r := recover(); r != nil {
			obs = "panic:" + sanitize(fmt.Sprint(r))
		}
	}()
	a := it.args
	val := func(t string) any {
		v, ok := atomOf(t)
		if !ok {
			panic("bad atom " + t)
		}
		return v
	}
	switch it.op {
	case "set":
		return errTok(st.Set(keyOf(a[0]), val(a[1]), ttlOf(a[2])))
	case "setl":
		n, _ := strconv.Atoi(a[1])
		vs := make([]any, n)
		for i := 0; i < n; i++ {
			vs[i] = val(a[2+i])
		}
		return errTok(st.SetList(keyOf(a[0]), vs, ttlOf(a[2+n])))
	case "get":
		v, err := st.Get(keyOf(a[0]))
		if err != nil {
			return errTok(err)
		}
		return renderAny(v)
	case "del":
		return errTok(st.Delete(keyOf(a[0])))
	case "ex":
		b, err := st.Exists(keyOf(a[0]))
		if err != nil {
			return errTok(err)
		}
		return boolTok(b)
	case "nx":
		b, err := st.SetNX(keyOf(a[0]), val(a[1]), ttlOf(a[2]))
		if err != nil {
			return errTok(err)
		}
		return boolTok(b)
	case "cas":
		b, err := st.CompareAndSwap(keyOf(a[0]), val(a[1]), val(a[2]), ttlOf(a[3]))
		if err != nil {
			return errTok(err)
		}
		return boolTok(b)
	case "exp":
		return errTok(st.SetExpiration(keyOf(a[0]), ttlOf(a[1])))
	case "ttl":
		d, err := st.GetExpiration(keyOf(a[0]))
		if err != nil {
			return errTok(err)
		}
		return durTok(d)
	case "getl":
		v, err := st.GetList(keyOf(a[0]))
		if err != nil {
			return errTok(err)
		}
		return renderAny(v)
	case "app":
		return errTok(st.AppendToList(keyOf(a[0]), val(a[1])))
	case "rem":
		return errTok(st.RemoveFromList(keyOf(a[0]), val(a[1])))
	case "hset":
		return errTok(st.SetHash(keyOf(a[0]), keyOf(a[1]), val(a[2])))
	case "hget":
		v, err := st.GetHash(keyOf(a[0]), keyOf(a[1]))
		if err != nil {
			return errTok(err)
		}
		return renderAny(v)
	case "hall":
		v, err := st.GetAllHash(keyOf(a[0]))
		if err != nil {
			return errTok(err)
		}
		return renderAny(v)
	case "hdel":
		return errTok(st.DeleteHash(keyOf(a[0]), keyOf(a[1])))
	case "incr":
		d, _ := strconv.ParseInt(a[1], 10, 64)
		var n int64
		var err error
		if d == 1 {
			n, err = st.Incr(keyOf(a[0]))
		} else {
			n, err = st.IncrBy(keyOf(a[0]), d)
		}
		if err != nil {
			return errTok(err)
		}
		return "n" + strconv.FormatInt(n, 10)
	case "gc":
		return errTok(st.CleanupExpired())
	case "holdcheck":
		return holdCheck(st, keyOf(a[0]))
	case "watch": // the callback fires at once with the current value of a visible key: answers like Get
		o := "nf"
		if err := st.Watch(keyOf(a[0]), func(v any) { o = renderAny(v) }); err != nil {
			return errTok(err)
		}
		return o
	case "gck":
		return "ok" // second critical section of another caller's GetHash: not callable by itself
	}
	return "badop"
}

func boolTok(b bool) string {
	if b {
		return "T"
	}
	return "F"
}

// ---------------------------------------------------------------- executors

// runMem: sequential history on the real memory backend. A burst (calls between two sleeps)
// that took longer than burstMax invalidates the timing assumptions of the case: it is rerun.
func runMem(items []item) string {
	var obs []string
	for attempt := 0; attempt < 6; attempt++ {
		st := memory.New(context.Background())
		obs = obs[:0]
		valid := true
		t0 := time.Now()
		for _, it := range items {
			if it.op == "sl" {
				if time.Since(t0) > burstMax {
					valid = false
					break
				}
				time.Sleep(ttlOf(it.args[0]))
				t0 = time.Now()
				continue
			}
			if it.op == "start" || it.op == "stop" {
				// lifecycle of the periodic sweep: answers nothing; a panic is an observation
				if p := lifeCall(st, it.op); p != "" {
					obs = append(obs, p)
				}
				continue
			}
			if it.op == "cl" {
				continue
			}
			obs = append(obs, doCall(st, it))
		}
		if time.Since(t0) > burstMax {
			valid = false
		}
		if p := closeCall(st); p != "" {
			obs = append(obs, p)
		}
		if valid {
			break
		}
	}
	return strings.Join(obs, " ")
}

func closeCall(st *memory.Storage) (p string) {
	defer func() {
		if r := recover(); r != nil {
			p = "panic:close:" + sanitize(fmt.Sprint(r))
		}
	}()
	st.Close()
	return ""
}

func lifeCall(st *memory.Storage, op string) (p string) {
	defer func() {
		if r := recover(); r != nil {
			p = "panic:" + sanitize(fmt.Sprint(r))
		}
	}()
	if op == "start" {
		st.StartCleanup(200 * time.Microsecond)
	} else {
		st.StopCleanup()
	}
	return ""
}

func runRed(items []item) string {
	mr, err := miniredis.Run()
	if err != nil {
		return "err:miniredis"
	}
	defer mr.Close()
	st, err := redisst.New(context.Background(), &redisst.Config{Addr: mr.Addr()})
	if err != nil {
		return "err:connect"
	}
	defer st.Close()
	// a second node: another redis.Storage over the same server (`cl 1` / `cl 0` switches)
	st2, err := redisst.New(context.Background(), &redisst.Config{Addr: mr.Addr()})
	if err != nil {
		return "err:connect"
	}
	defer st2.Close()
	clients := []types.FullStorage{st, st2}
	cur := 0
	var obs []string
	for _, it := range items {
		if it.op == "sl" {
			mr.FastForward(ttlOf(it.args[0]))
			continue
		}
		if it.op == "cl" {
			cur, _ = strconv.Atoi(it.args[0])
			cur %= 2
			continue
		}
		if it.op == "start" || it.op == "stop" {
			continue
		}
		obs = append(obs, doCall(clients[cur], it))
	}
	return strings.Join(obs, " ")
}

func callsOf(items []item) []item {
	var out []item
	for _, it := range items {
		if it.op != "sl" && it.op != "start" && it.op != "stop" && it.op != "cl" {
			out = append(out, it)
		}
	}
	return out
}

func parseProgs(ts []string) ([][]item, error) {
	var progs [][]item
	for _, p := range splitTok(ts, ";") {
		its, err := parseItems(p)
		if err != nil {
			return nil, err
		}
		progs = append(progs, callsOf(its))
	}
	return progs, nil
}

func renderThreads(res [][]string) string {
	p := make([]string, len(res))
	for i, r := range res {
		p[i] = strings.Join(r, " ")
	}
	return strings.Join(p, " ; ")
}

// runSched: each caller is a goroutine whose every call blocks on a gate until the
// scheduler grants it; exactly one call advances per schedule entry.
func runSched(sched []int, progs [][]item) string {
	st := memory.New(context.Background())
	defer st.Close()
	n := len(progs)
	gates := make([]chan struct{}, n)
	done := make(chan struct{})
	res := make([][]string, n)
	for i := range progs {
		gates[i] = make(chan struct{})
		go func(i int) {
			for _, it := range progs[i] {
				<-gates[i]
				res[i] = append(res[i], doCall(st, it))
				done <- struct{}{}
			}
		}(i)
	}
	left := make([]int, n)
	for i := range progs {
		left[i] = len(progs[i])
	}
	for _, i := range sched {
		if i < 0 || i >= n || left[i] == 0 {
			continue
		}
		gates[i] <- struct{}{}
		<-done
		left[i]--
	}
	for i := range progs { // complete what the schedule left over
		for left[i] > 0 {
			gates[i] <- struct{}{}
			<-done
			left[i]--
		}
	}
	return renderThreads(res)
}

func keysOf(progs [][]item) []string {
	m := map[string]bool{}
	for _, p := range progs {
		for _, it := range p {
			if len(it.args) > 0 {
				m[keyOf(it.args[0])] = true
			}
		}
	}
	var ks []string
	for k := range m {
		ks = append(ks, k)
	}
	return ks
}

// runConc: all callers released together by one flag, `rounds` times; returns the distinct
// outcomes (sorted).
func runConc(progs [][]item, rounds int) []string {
	st := memory.New(context.Background())
	defer st.Close()
	keys := keysOf(progs)
	seen := map[string]bool{}
	for r := 0; r < rounds; r++ {
		for _, k := range keys {
			st.Delete(k)
		}
		var start int32
		var wg sync.WaitGroup
		res := make([][]string, len(progs))
		for i := range progs {
			wg.Add(1)
			go func(i int) {
				defer wg.Done()
				out := make([]string, 0, len(progs[i]))
				for atomic.LoadInt32(&start) == 0 {
				}
				for _, it := range progs[i] {
					out = append(out, doCall(st, it))
				}
				res[i] = out
			}(i)
		}
		time.Sleep(20 * time.Microsecond)
		atomic.StoreInt32(&start, 1)
		wg.Wait()
		seen[renderThreads(res)] = true
	}
	var outs []string
	for o := range seen {
		outs = append(outs, o)
	}
	sort.Strings(outs)
	return outs
}

// runHammer: `hammer <threads> <calls> p ; p ; …` — thread i performs <calls> calls cycling through program (i mod #p).
func runHammer(ts []string) string {
	if len(ts) < 3 {
		return "bad-case"
	}
	nt, _ := strconv.Atoi(ts[0])
	iters, _ := strconv.Atoi(ts[1])
	progs, err := parseProgs(ts[2:])
	if err != nil || nt <= 0 || len(progs) == 0 {
		return "bad-case"
	}
	st := memory.New(context.Background())
	defer st.Close()
	var wg sync.WaitGroup
	var bad atomic.Value
	for t := 0; t < nt; t++ {
		wg.Add(1)
		go func(t int) {
			defer wg.Done()
			p := progs[t%len(progs)]
			if len(p) == 0 {
				return
			}
			for i := 0; i < iters; i++ { // iters calls per thread, cycling through its program
				o := doCall(st, p[i%len(p)])
				if strings.HasPrefix(o, "panic:") || strings.HasPrefix(o, "err:") {
					bad.Store(o)
				}
			}
		}(t)
	}
	wg.Wait()
	if b := bad.Load(); b != nil {
		return b.(string)
	}
	return "ok"
}

// runBurst: `burst <prefix items> / p ; p … / <probe items>` — per round `copies` independent stores
// all run the sequential prefix (one shared sleep per `sl`), then on each store the callers are
// released together by one flag, then the probe runs sequentially. Returns the distinct outcomes
// `<prefix answers> / <thread answers ; …> / <probe answers>` (sorted).
func runBurst(pre []item, progs [][]item, suf []item, copies, rounds int) []string {
	seen := map[string]bool{}
	for r := 0; r < rounds; r++ {
		stores := make([]*memory.Storage, copies)
		preObs := make([][]string, copies)
		valid := make([]bool, copies)
		for j := range stores {
			stores[j] = memory.New(context.Background())
			valid[j] = true
		}
		// prefix, segment by segment
		for i := 0; i <= len(pre); {
			k := i
			for k < len(pre) && pre[k].op != "sl" {
				k++
			}
			for j, st := range stores {
				t0 := time.Now()
				for _, it := range pre[i:k] {
					preObs[j] = append(preObs[j], doCall(st, it))
				}
				if time.Since(t0) > time.Millisecond {
					valid[j] = false // a stalled segment could outlive a 2 ms lifetime set in it
				}
			}
			if k < len(pre) {
				time.Sleep(ttlOf(pre[k].args[0]))
			}
			i = k + 1
		}
		for j, st := range stores {
			if valid[j] {
				var start int32
				var wg sync.WaitGroup
				res := make([][]string, len(progs))
				for i := range progs {
					wg.Add(1)
					go func(i int) {
						defer wg.Done()
						out := make([]string, 0, len(progs[i]))
						for atomic.LoadInt32(&start) == 0 {
						}
						for _, it := range progs[i] {
							out = append(out, doCall(st, it))
						}
						res[i] = out
					}(i)
				}
				time.Sleep(10 * time.Microsecond)
				atomic.StoreInt32(&start, 1)
				wg.Wait()
				var sufObs []string
				for _, it := range suf {
					sufObs = append(sufObs, doCall(st, it))
				}
				seen[strings.Join(preObs[j], " ")+" / "+renderThreads(res)+" / "+strings.Join(sufObs, " ")] = true
			}
			st.Close()
		}
	}
	var outs []string
	for o := range seen {
		outs = append(outs, o)
	}
	sort.Strings(outs)
	if len(outs) == 0 {
		return []string{"timing-invalid"}
	}
	return outs
}

// runSweep: `sweep call|tick <keys> <writers> <rounds>` — the real CleanupExpired (called in a
// loop, or driven by StartCleanup's ticker) against concurrent re-writes of many expired keys.
// Round: write <keys> keys with a 2 ms lifetime, wait 6 ms (all expired), release the writers and
// the sweeper by one flag; writer w re-writes the keys i ≡ w with Set / SetNX / CAS(nil) / IncrBy /
// SetHash / AppendToList; afterwards every key is read back. No Delete is ever issued, so per key
// the history `set, sleep, re-write, reads` is sequential and the sweep must be invisible in it.
// Observation: `keys <n> lost <c> hist <per-key history> obs <its answers>` for the first key whose
// read came back "nf" (or key 0 of the last round when none did); `holds` runs the reference on it.
func runSweep(ts []string) string {
	if len(ts) != 4 {
		return "bad-case"
	}
	mode := ts[0]
	nkeys, _ := strconv.Atoi(ts[1])
	writers, _ := strconv.Atoi(ts[2])
	rounds, _ := strconv.Atoi(ts[3])
	if nkeys <= 0 || writers <= 0 || rounds <= 0 || (mode != "call" && mode != "tick") {
		return "bad-case"
	}
	x, y := sTok("x"), sTok("y")
	long := strconv.Itoa(longNS)
	rewrite := func(k string, kind int) []item {
		var line string
		switch kind % 6 {
		case 0:
			line = "set " + k + " " + y + " 0 get " + k + " ttl " + k
		case 1:
			line = "nx " + k + " " + y + " " + long + " get " + k + " ttl " + k
		case 2:
			line = "cas " + k + " nil " + y + " 0 get " + k + " ttl " + k
		case 3:
			line = "incr " + k + " 7 get " + k + " ttl " + k
		case 4:
			line = "hset " + k + " f " + y + " hget " + k + " f ex " + k
		default:
			line = "app " + k + " " + y + " getl " + k + " ex " + k
		}
		its, _ := parseItems(strings.Fields(line))
		return its
	}
	histOf := func(k string, its []item) string {
		p := []string{"set", k, x, "2000000", "sl", "6000000"}
		for _, it := range its {
			p = append(p, it.op)
			p = append(p, it.args...)
		}
		return strings.Join(p, " ")
	}
	totalLost := 0
	report := ""
	for r := 0; r < rounds; r++ {
		st := memory.New(context.Background())
		keys := make([]string, nkeys)
		for i := range keys {
			keys[i] = "k" + strconv.Itoa(i)
			st.Set(keys[i], "x", 2*time.Millisecond)
		}
		time.Sleep(6 * time.Millisecond)
		var start, writersDone int32
		var wg, sw sync.WaitGroup
		wres := make([]string, nkeys)
		for w := 0; w < writers; w++ {
			wg.Add(1)
			go func(w int) {
				defer wg.Done()
				for atomic.LoadInt32(&start) == 0 {
				}
				for i := w; i < nkeys; i += writers {
					wres[i] = doCall(st, rewrite(keys[i], i)[0])
				}
			}(w)
		}
		if mode == "call" {
			sw.Add(1)
			go func() {
				defer sw.Done()
				for atomic.LoadInt32(&start) == 0 {
				}
				for atomic.LoadInt32(&writersDone) == 0 {
					st.CleanupExpired()
				}
			}()
		}
		time.Sleep(50 * time.Microsecond)
		atomic.StoreInt32(&start, 1)
		if mode == "tick" {
			// the ticker starts with the writers so that its first scans fall into the re-write phase
			st.StartCleanup(time.Duration(40+20*(r%8)) * time.Microsecond)
		}
		wg.Wait()
		atomic.StoreInt32(&writersDone, 1)
		sw.Wait()
		if mode == "tick" {
			time.Sleep(500 * time.Microsecond)
			st.StopCleanup()
		}
		st.CleanupExpired()
		for i := 0; i < nkeys; i++ {
			its := rewrite(keys[i], i)
			obs := []string{"ok", wres[i]}
			lost := false
			for _, it := range its[1:] {
				o := doCall(st, it)
				obs = append(obs, o)
				if o == "nf" || o == "F" {
					lost = true
				}
			}
			if lost {
				totalLost++
			}
			if (lost && totalLost == 1) || (report == "" && r == rounds-1 && i == nkeys-1) {
				j := i
				if !lost {
					j, its = 0, rewrite(keys[0], 0)
					obs = []string{"ok", wres[0]}
					for _, it := range its[1:] {
						obs = append(obs, doCall(st, it))
					}
				}
				report = "hist " + histOf(keys[j], its) + " obs " + strings.Join(obs, " ")
			}
		}
		st.Close()
		if totalLost > 0 {
			break
		}
	}
	return "keys " + strconv.Itoa(nkeys) + " lost " + strconv.Itoa(totalLost) + " " + report
}

// ---------------------------------------------------------------- dispatcher

type result struct {
	key   string // K:<key> tag or ""
	line  string
	obs   []string // one output line per entry
	dkey  string
	kinds []string
}

// execLine runs one case line in-process.
func execLine(line string, rounds int) []string {
	ts := strings.Fields(line)
	if len(ts) == 0 {
		return nil
	}
	switch ts[0] {
	case "repo":
		return runRepo(ts[1:])
	case "alias":
		its, err := parseAlias(ts[1:])
		if err != nil {
			return []string{"bad-case"}
		}
		return []string{runAlias(its)}
	case "mem", "red":
		its, err := parseItems(ts[1:])
		if err != nil {
			return []string{"bad-case"}
		}
		if ts[0] == "mem" {
			return []string{runMem(its)}
		}
		return []string{runRed(its)}
	case "sched":
		parts := splitTok(ts[1:], "/")
		if len(parts) != 2 {
			return []string{"bad-case"}
		}
		var sched []int
		for _, s := range parts[0] {
			n, err := strconv.Atoi(s)
			if err != nil {
				return []string{"bad-case"}
			}
			sched = append(sched, n)
		}
		progs, err := parseProgs(parts[1])
		if err != nil {
			return []string{"bad-case"}
		}
		return []string{runSched(sched, progs)}
	case "conc":
		progs, err := parseProgs(ts[1:])
		if err != nil {
			return []string{"bad-case"}
		}
		return runConc(progs, rounds)
	case "hammer":
		return []string{runHammer(ts[1:])}
	case "sweep":
		return []string{runSweep(ts[1:])}
	case "burst":
		parts := splitTok(ts[1:], "/")
		if len(parts) != 3 {
			return []string{"bad-case"}
		}
		pre, e1 := parseItems(parts[0])
		progs, e2 := parseProgs(parts[1])
		suf, e3 := parseItems(parts[2])
		if e1 != nil || e2 != nil || e3 != nil {
			return []string{"bad-case"}
		}
		copies, br := 12, 1
		if rounds > 1000 { // thorough
			br = 8
		}
		return runBurst(pre, progs, callsOf(suf), copies, br)
	}
	return []string{"bad-case"}
}

// execChild runs a case in a child process so that a fatal runtime error (concurrent map
// access) becomes an observation instead of killing the harness.
func execChild(line string, rounds int) []string {
	cmd := exec.Command(os.Args[0], "-child", line, "-rounds", strconv.Itoa(rounds))
	var stderr strings.Builder
	cmd.Stderr = &stderr
	ctx, cancel := context.WithTimeout(context.Background(), 120*time.Second)
	defer cancel()
	outCh := make(chan []byte, 1)
	errCh := make(chan error, 1)
	go func() {
		o, err := cmd.Output()
		outCh <- o
		errCh <- err
	}()
	select {
	case o := <-outCh:
		err := <-errCh
		if err != nil {
			msg := stderr.String()
			if i := strings.Index(msg, "\n"); i >= 0 {
				msg = msg[:i]
			}
			return []string{"crash:" + sanitize(msg)}
		}
		var res []string
		for _, l := range strings.Split(string(o), "\n") {
			if strings.TrimSpace(l) != "" {
				res = append(res, l)
			}
		}
		if len(res) == 0 {
			return []string{"crash:no-output"}
		}
		return res
	case <-ctx.Done():
		if cmd.Process != nil {
			cmd.Process.Kill()
		}
		return []string{"timeout"}
	}
}

func modeOf(line string) string {
	ts := strings.Fields(line)
	if len(ts) == 0 {
		return ""
	}
	switch ts[0] {
	case "repo":
		return "repo"
	case "mem", "alias":
		return "mem"
	case "red":
		return "red"
	case "sched", "conc", "hammer", "sweep", "burst":
		return "conc"
	}
	return ""
}

func splitKey(line string) (string, string) {
	line = strings.TrimSpace(line)
	if strings.HasPrefix(line, "K:") {
		i := strings.Index(line, " ")
		if i > 0 {
			return line[:i], strings.TrimSpace(line[i+1:])
		}
	}
	return "", line
}

func main() {
	mode := flag.String("mode", "mem", "mem|red|conc")
	tier := flag.String("tier", "quick", "")
	seed := flag.Uint64("seed", 1, "")
	stats := flag.String("stats", "", "")
	nogen := flag.String("nogen", "", "replay only this file")
	child := flag.String("child", "", "internal: run one case line and print its observations")
	rounds := flag.Int("rounds", 0, "")
	flag.Parse()

	if *child != "" {
		w := bufio.NewWriter(os.Stdout)
		for _, o := range execLine(*child, *rounds) {
			fmt.Fprintln(w, o)
		}
		w.Flush()
		return
	}

	thorough := *tier == "thorough"
	concRounds := 300
	if thorough {
		concRounds = 2000
	}
	var lines []string
	files := flag.Args()
	if *nogen != "" {
		files = []string{*nogen}
	}
	for _, f := range files {
		b, err := os.ReadFile(f)
		if err != nil {
			continue
		}
		for _, l := range strings.Split(string(b), "\n") {
			l = strings.TrimSpace(l)
			if l == "" || strings.HasPrefix(l, "#") {
				continue
			}
			if i := strings.Index(l, " ## "); i >= 0 {
				l = l[:i]
			}
			_, c := splitKey(l)
			if modeOf(c) == *mode {
				lines = append(lines, l)
			}
		}
	}
	if *nogen == "" {
		rng := vc.NewRand(*seed)
		switch *mode {
		case "mem":
			lines = append(lines, genMem(rng, thorough)...)
			lines = append(lines, genAlias(rng, thorough)...)
		case "red":
			lines = append(lines, genRed(rng, thorough)...)
		case "conc":
			lines = append(lines, genConc(rng, thorough)...)
		case "repo":
			lines = append(lines, genRepo(rng, thorough)...)
		}
	}

	out := vc.NewOut()
	out.Samples = []string{} // never null in the stats file, also when a replay has no case for this mode
	results := make([][]string, len(lines))
	workers := 16
	if *mode == "conc" {
		workers = 5
	}
	if *mode == "mem" {
		workers = 48 // sleep-bound; a burst that is delayed beyond burstMax is rerun
	}
	var next int64 = -1
	var wg sync.WaitGroup
	for w := 0; w < workers; w++ {
		wg.Add(1)
		go func() {
			defer wg.Done()
			for {
				i := int(atomic.AddInt64(&next, 1))
				if i >= len(lines) {
					return
				}
				_, c := splitKey(lines[i])
				done := make(chan []string, 1)
				go func() {
					if *mode == "conc" && !strings.HasPrefix(c, "sched") && !strings.HasPrefix(c, "burst") {
						done <- execChild(c, concRounds)
					} else {
						done <- execLine(c, concRounds)
					}
				}()
				select {
				case r := <-done:
					results[i] = r
				case <-time.After(180 * time.Second):
					results[i] = []string{"timeout"}
				}
			}
		}()
	}
	wg.Wait()
	for i, l := range lines {
		k, c := splitKey(l)
		ts := strings.Fields(c)
		for _, o := range results[i] {
			if j := strings.Index(o, " ## "); j >= 0 { // a full line (repo cases emit several cases)
				out.Case(o[:j], o[j+4:], o[:j])
				out.Count("kind:" + strings.Fields(o)[0])
				continue
			}
			cs := c
			if k != "" {
				cs = k + " " + c
			}
			nontrivial := ""
			if len(ts) > 3 {
				nontrivial = c
			}
			out.Case(cs, o, nontrivial)
		}
		out.Count("kind:" + ts[0])
		for _, t := range ts[1:] {
			if arity(t) >= 0 || t == "setl" {
				out.Count("op:" + t)
			}
		}
		for _, o := range results[i] {
			for _, t := range strings.Fields(o) {
				switch {
				case t == "nf", t == "it", t == "ok", t == "T", t == "F":
					out.Count("res:" + t)
				case strings.HasPrefix(t, "err:"), strings.HasPrefix(t, "panic:"), strings.HasPrefix(t, "crash:"):
					out.Count("res:error")
				}
			}
		}
	}
	out.Finish(*stats, map[string]any{"mode": *mode, "conc_rounds_per_case": concRounds})
}
