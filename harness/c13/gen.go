//go:build verif

package main

import (
	"fmt"
	"strconv"
	"strings"

	vc "tunnox-core/internal/verifharness/common"
)

var (
	memKeys   = []string{"a", "b", "c"}
	fields    = []string{"f", "g", "-"}
	strAtoms  = []string{sTok("x"), sTok("y"), sTok(`{"id":"c1","n":1}`), sTok(`["u",2]`), sTok("5")}
	intAtoms  = []string{"i0", "i1", "i-1", "i7", "i9223372036854775807"}
	oddAtoms  = []string{"s-", sTok("héllo ✓"), sTok("nil"), "i-9223372036854775808"}
	memTTLs   = []string{"0", "0", strconv.Itoa(shortNS), strconv.Itoa(shortNS), strconv.Itoa(longNS)}
	oddTTLs   = []string{"-1", "-3600000000000", "90000000000000", "9223372036854775807", "-9223372036854775808"}
	rSubNS    = "500000000" // Redis: 0.5 s (below the one-second resolution of EXPIRE)
	incrDelta = []string{"1", "1", "2", "-3", "0", "9223372036854775807", "-9223372036854775808"}
)

func pickAtom(r *vc.Rand) string {
	switch n := r.Intn(20); {
	case n < 11:
		return vc.Pick(r, strAtoms)
	case n < 17:
		return vc.Pick(r, intAtoms)
	}
	return vc.Pick(r, oddAtoms)
}

func pickTTL(r *vc.Rand) string {
	if r.Intn(12) == 0 {
		return vc.Pick(r, oddTTLs)
	}
	return vc.Pick(r, memTTLs)
}

func oddTTL(r *vc.Rand) string { return vc.Pick(r, oddTTLs) }

// memCall returns one random call on key k; wrote reports a lifetime-carrying write.
func memCall(r *vc.Rand, g *genState, k string) (call string, wrote bool) {
	a, f := g.atom(r, pickAtom), vc.Pick(r, fields)
	ttl := g.ttl(r, k, []string{"0", strconv.Itoa(shortNS), strconv.Itoa(longNS)}, oddTTL)
	c := memCall1(r, g, k, a, f, ttl)
	switch strings.Fields(c)[0] {
	case "set", "nx", "cas", "exp", "setl":
		return c, true
	}
	return c, false
}

func memCall1(r *vc.Rand, g *genState, k, a, f, ttl string) string {
	switch r.Intn(24) {
	case 0, 1:
		g.wrote(k, a, ttl)
		return fmt.Sprintf("set %s %s %s", k, a, ttl)
	case 2:
		n := r.Intn(4)
		as := make([]string, n)
		for i := range as {
			as[i] = pickAtom(r)
		}
		g.wrote(k, "", ttl)
		return strings.TrimSpace(fmt.Sprintf("setl %s %d %s", k, n, strings.Join(as, " "))) + " " + ttl
	case 3, 4:
		if r.Intn(4) == 0 {
			return "watch " + k
		}
		return "get " + k
	case 5:
		return "del " + k
	case 6:
		return "ex " + k
	case 7:
		if g.lastVal[k] == "" {
			g.wrote(k, a, ttl)
		}
		return fmt.Sprintf("nx %s %s %s", k, a, ttl)
	case 8, 9, 22, 23:
		old, nw := g.casArgs(r, k, pickAtom)
		if old == g.lastVal[k] || old == "nil" {
			g.wrote(k, nw, ttl)
		}
		return fmt.Sprintf("cas %s %s %s %s", k, old, nw, ttl)
	case 10:
		g.lastTTL[k] = ttl
		return fmt.Sprintf("exp %s %s", k, ttl)
	case 11:
		return "ttl " + k
	case 12:
		return "getl " + k
	case 13, 14:
		return fmt.Sprintf("app %s %s", k, a)
	case 15:
		return fmt.Sprintf("rem %s %s", k, a)
	case 16, 17:
		return fmt.Sprintf("hset %s %s %s", k, f, a)
	case 18:
		return fmt.Sprintf("hget %s %s", k, f)
	case 19:
		if r.Bool() {
			return "hall " + k
		}
		return fmt.Sprintf("hdel %s %s", k, f)
	case 20:
		return fmt.Sprintf("incr %s %s", k, vc.Pick(r, incrDelta))
	}
	return "gc"
}

// every call kind on key k, with representative arguments (for the exhaustive matrix)
func allCalls(k string) []string {
	x, y := strAtoms[0], strAtoms[1]
	s, l := strconv.Itoa(shortNS), strconv.Itoa(longNS)
	return []string{
		"set " + k + " " + y + " 0", "set " + k + " " + y + " " + s, "get " + k, "del " + k, "ex " + k,
		"nx " + k + " " + y + " 0", "nx " + k + " " + y + " " + s,
		"cas " + k + " " + x + " " + y + " 0", "cas " + k + " " + x + " " + y + " " + l, "cas " + k + " " + x + " " + y + " " + s,
		"cas " + k + " nil " + y + " 0", "cas " + k + " nil " + y + " " + s, "cas " + k + " i1 " + y + " " + l,
		"exp " + k + " 0", "exp " + k + " " + s, "exp " + k + " " + l, "exp " + k + " -1", "ttl " + k,
		"getl " + k, "app " + k + " " + y, "rem " + k + " " + x, "setl " + k + " 2 " + x + " " + y + " " + s,
		"hset " + k + " f " + y, "hget " + k + " f", "hget " + k + " g", "hall " + k, "hdel " + k + " f",
		"incr " + k + " 1", "incr " + k + " -3", "gc",
	}
}

func setups(k string) []string {
	x := strAtoms[0]
	s, l := strconv.Itoa(shortNS), strconv.Itoa(longNS)
	var out []string
	out = append(out, "")
	for _, t := range []string{"0", s, l} {
		out = append(out,
			"set "+k+" "+x+" "+t,
			"set "+k+" i1 "+t,
			"setl "+k+" 2 "+x+" "+x+" "+t,
			"hset "+k+" f "+x+" exp "+k+" "+t,
			"nx "+k+" "+x+" "+t,
			"cas "+k+" nil "+x+" "+t,
		)
	}
	out = append(out, "app "+k+" "+x, "incr "+k+" 5", "hset "+k+" f "+x)
	return out
}

func genMem(r *vc.Rand, thorough bool) []string {
	var out []string
	sl := " sl " + strconv.Itoa(sleepNS)
	ttls := []string{"0", strconv.Itoa(shortNS), strconv.Itoa(longNS)}
	// exhaustive small scope: (op1, [sleep], op2, probe) with all ttl combinations, every call kind
	out = append(out, triples("mem", "a", ttls, sleepNS, false)...)
	// storage_based_lock.go call shapes on the memory backend
	nlock := 60
	if thorough {
		nlock = 1500
	}
	out = append(out, lockScenarios(r, "mem", ttls, sleepNS, nlock)...)
	// second-order: call after an expired entry was touched, then another sleep
	if thorough {
		x, y := strAtoms[0], strAtoms[1]
		for _, su := range ttlSetups("a", x, ttls, false)[1:9] {
			for _, c1 := range secondOps("a", x, y, ttls[1:2], false) {
				for _, c2 := range []string{"app a " + y, "hset a g i3", "incr a 1", "cas a " + y + " " + y + " 0", "cas a " + x + " " + x + " " + ttls[2], "exp a 0"} {
					out = append(out, strings.Join(strings.Fields("mem "+su+sl+" "+c1+sl+" "+c2+" ttl a get a"+sl+" get a ex a getl a hall a"), " "))
				}
			}
		}
	}
	n := 1500
	if thorough {
		n = 30000
	}
	for i := 0; i < n; i++ {
		g := newGenState()
		nk := 1 + r.Intn(3)
		length := 3 + r.Intn(18)
		var b []string
		sleeps := 0
		for j := 0; j < length; j++ {
			if sleeps < 3 && r.Intn(10) == 0 {
				b = append(b, "sl "+strconv.Itoa(sleepNS))
				sleeps++
				continue
			}
			k := memKeys[r.Intn(nk)]
			if r.Intn(25) == 0 {
				k = "-" // the empty key
			}
			c, wrote := memCall(r, g, k)
			b = append(b, c)
			if wrote {
				b = append(b, afterWrite(r, k, sleepNS, &sleeps, 3)...)
			}
		}
		out = append(out, "mem "+strings.Join(b, " "))
	}
	return out
}

// ---- Redis: the operations and value shapes the repositories use.
// kv keys a,b: JSON/ID strings with Set/Get/Delete/Exists/SetNX/CompareAndSwap/SetExpiration/GetExpiration;
// list key l: string members via AppendToList/RemoveFromList/GetList/SetList; hash key h: string values;
// counter key c: Incr/IncrBy. Lifetimes 0, 2 s, 1 h (whole seconds); `sl` = FastForward 3 s.
func pickStrAtom(r *vc.Rand) string { return vc.Pick(r, strAtoms) }

func redCall(r *vc.Rand, g *genState) (string, string, bool) {
	k := vc.Pick(r, []string{"a", "b"})
	a := vc.Pick(r, strAtoms[:2])
	if r.Intn(5) == 0 {
		a = vc.Pick(r, strAtoms)
	}
	ttl := g.ttl(r, k, []string{"0", strconv.Itoa(rShortNS), strconv.Itoa(longNS), rSubNS}, nil)
	switch r.Intn(40) { // degenerate arguments
	case 0:
		a = "s-"
	case 1:
		k = "-"
	case 2:
		ttl = "-1"
	case 3:
		return "setl l 0 " + ttl, "l", true
	case 4:
		return "incr c 0", "c", false
	case 5:
		return vc.Pick(r, []string{"hset h - " + a, "hget h -", "hdel h -", "app l s-", "rem l s-"}), "h", false
	}
	c := redCall1(r, g, k, a, ttl)
	switch strings.Fields(c)[0] {
	case "set", "nx", "cas", "exp":
		return c, k, true
	}
	return c, k, false
}

func redCall1(r *vc.Rand, g *genState, k, a, ttl string) string {
	switch r.Intn(30) {
	case 0, 1, 2:
		g.wrote(k, a, ttl)
		return fmt.Sprintf("set %s %s %s", k, a, ttl)
	case 3, 4, 5:
		return "get " + k
	case 6:
		return "del " + vc.Pick(r, []string{"a", "b", "l", "h", "c"})
	case 7:
		return "ex " + k
	case 8, 9:
		if g.lastVal[k] == "" {
			g.wrote(k, a, ttl)
		}
		return fmt.Sprintf("nx %s %s %s", k, a, ttl)
	case 10, 11:
		old, nw := g.casArgs(r, k, pickStrAtom)
		if old != "nil" && old[0] != 's' {
			old = a
		}
		if nw[0] != 's' {
			nw = a
		}
		if old == g.lastVal[k] || old == "nil" {
			g.wrote(k, nw, ttl)
		}
		return fmt.Sprintf("cas %s %s %s %s", k, old, nw, ttl)
	case 12:
		g.lastTTL[k] = ttl
		return fmt.Sprintf("exp %s %s", k, ttl)
	case 13:
		return "ttl " + k
	case 14:
		return "getl l"
	case 15, 16:
		return "app l " + a
	case 17:
		return "rem l " + a
	case 18:
		return fmt.Sprintf("setl l 2 %s %s %s", a, vc.Pick(r, strAtoms), vc.Pick(r, []string{"0", strconv.Itoa(longNS)}))
	case 19, 20:
		return fmt.Sprintf("hset h %s %s", vc.Pick(r, []string{"f", "g"}), a)
	case 21:
		return "hget h " + vc.Pick(r, []string{"f", "g"})
	case 22:
		if r.Bool() {
			return "hall h"
		}
		return "hdel h " + vc.Pick(r, []string{"f", "g"})
	}
	// lifetimes of list / hash / counter keys are part of the comparison as well
	ck := vc.Pick(r, []string{"h", "l", "c"})
	switch r.Intn(8) {
	case 0, 1:
		return "exp " + ck + " " + ttl
	case 2, 3:
		return "ttl " + ck
	case 4:
		return "ex " + ck
	}
	return "incr c " + vc.Pick(r, []string{"1", "1", "2", "-3", "-1"})
}

func genRed(r *vc.Rand, thorough bool) []string {
	var out []string
	ttls := []string{"0", strconv.Itoa(rShortNS), strconv.Itoa(longNS)}
	// exhaustive small scope on a kv key, all ttl combinations (incl. a sub-second lifetime)
	out = append(out, triples("red", "a", append([]string{rSubNS}, ttls...), rSleepNS, true)...)
	out = append(out, redContainerTriples()...)
	out = append(out, redDegenerate()...)
	// storage_based_lock.go call shapes on the Redis backend
	nlock := 100
	if thorough {
		nlock = 2000
	}
	out = append(out, lockScenarios(r, "red", ttls, rSleepNS, nlock)...)
	n := 600
	if thorough {
		n = 12000
	}
	for i := 0; i < n; i++ {
		g := newGenState()
		length := 3 + r.Intn(18)
		var b []string
		sleeps := 0
		for j := 0; j < length; j++ {
			if r.Intn(9) == 0 {
				b = append(b, "sl "+strconv.Itoa(rSleepNS))
				continue
			}
			if r.Intn(6) == 0 {
				b = append(b, "cl "+strconv.Itoa(r.Intn(2))) // the next calls come from the other node
			}
			c, k, wrote := redCall(r, g)
			b = append(b, c)
			if wrote {
				sleeps = 0
				b = append(b, afterWrite(r, k, rSleepNS, &sleeps, 1)...)
			}
		}
		out = append(out, "red "+strings.Join(b, " "))
	}
	return out
}

// ---- concurrent callers (memory backend, one burst)
func concCall(r *vc.Rand, k string) string {
	a := vc.Pick(r, []string{strAtoms[0], strAtoms[1], "i1"})
	switch r.Intn(16) {
	case 0, 1:
		return fmt.Sprintf("set %s %s 0", k, a)
	case 2, 3:
		return "get " + k
	case 4:
		return fmt.Sprintf("nx %s %s %s", k, a, vc.Pick(r, []string{"0", strconv.Itoa(longNS)}))
	case 5, 6:
		return fmt.Sprintf("cas %s %s %s 0", k, vc.Pick(r, []string{"nil", strAtoms[0], strAtoms[1]}), a)
	case 7, 8:
		return fmt.Sprintf("incr %s %s", k, vc.Pick(r, []string{"1", "2"}))
	case 9:
		return fmt.Sprintf("app %s %s", k, a)
	case 10:
		return "getl " + k
	// hash calls only on key h, and never `get h`: Get hands out the live internal map of a hash
	// key (known finding get-returns-live-hash), reading it next to SetHash is a caller-side race
	case 11:
		return fmt.Sprintf("hset h %s %s", vc.Pick(r, []string{"f", "g"}), a)
	case 12:
		return "hall h"
	case 13:
		return "hget h f"
	case 14:
		return "del " + vc.Pick(r, []string{k, k, "h"})
	}
	return fmt.Sprintf("rem %s %s", k, a)
}

func interleavings(counts []int) [][]int {
	total := 0
	for _, c := range counts {
		total += c
	}
	if total == 0 {
		return [][]int{{}}
	}
	var out [][]int
	for i := range counts {
		if counts[i] > 0 {
			counts[i]--
			for _, rest := range interleavings(counts) {
				out = append(out, append([]int{i}, rest...))
			}
			counts[i]++
		}
	}
	return out
}

func genConc(r *vc.Rand, thorough bool) []string {
	var out []string
	x, y := strAtoms[0], strAtoms[1]
	// crash/race stress: readers of a hash/list against writers that mutate it in place
	calls := 200000
	if thorough {
		calls = 1500000
	}
	it := strconv.Itoa(calls)
	var hw []string
	for i := 1; i <= 40; i++ {
		f := "f" + strconv.Itoa(i)
		hw = append(hw, "hset h "+f+" "+x, "hdel h "+f)
	}
	hwr := strings.Join(hw, " ")
	out = append(out,
		"hammer 16 "+it+" "+hwr+" ; hget h f1 hget h f2 hget h f39 ; hget h f5",
		"hammer 16 "+it+" "+hwr+" ; hall h ; hget h f7 ; hall h",
		"hammer 8 "+it+" app l "+x+" rem l "+x+" ; getl l ; get l ; setl l 1 "+y+" 0",
		// an answer of GetList looked at twice while other callers remove non-last members / append
		"hammer 8 "+it+" app l "+x+" app l "+y+" app l "+x+" rem l "+x+" rem l "+y+" ; holdcheck l ; holdcheck l ; app l "+sTok("z")+" rem l "+sTok("z")+" ; holdcheck l",
		"hammer 6 "+it+" incr c 1 ; get c ; ttl c ; exp c 0 ; cas c i1 i2 0",
		"hammer 16 "+it+" "+hwr+" set w "+x+" 0 del w ; watch w ; watch w ; get w",
		"hammer 6 "+it+" set a "+x+" 1000000 ; hget a f ; hall a ; ttl a ; gc ; nx a "+y+" 1000000 ; exp a 1000000",
	)
	// the real sweep (direct calls / StartCleanup ticker) against concurrent re-writes of expired keys
	sweepRounds := "8"
	if thorough {
		sweepRounds = "60"
	}
	out = append(out,
		"sweep call 4000 8 "+sweepRounds,
		"sweep tick 4000 8 "+sweepRounds,
		"sweep tick 8000 4 "+sweepRounds,
	)
	if thorough {
		out = append(out, "sweep call 20000 16 20", "sweep tick 2000 16 200", "sweep call 1000 3 200")
	}
	out = append(out, genBurst(r, thorough)...)
	// atomic claims: exactly one winner
	out = append(out,
		"conc nx a "+x+" 0 ; nx a "+y+" 0 ; nx a i1 0",
		"conc cas a nil "+x+" 0 ; cas a nil "+y+" 0 ; get a",
		"conc incr c 1 incr c 1 ; incr c 1 incr c 1 ; incr c 1",
		"conc set a "+x+" 0 cas a "+x+" "+y+" 0 ; cas a "+x+" i1 0 get a",
		"conc app l "+x+" app l "+y+" ; app l i1 getl l ; rem l "+x+" getl l",
		"conc hset h f "+x+" hall h ; hset h g "+y+" hall h ; hdel h f hget h f",
	)
	// gated schedules: every interleaving of 2 callers × 2 calls
	nsets := 12
	if thorough {
		nsets = 60
	}
	for i := 0; i < nsets; i++ {
		k := vc.Pick(r, []string{"a", "a", "b"})
		nt := 2
		per := 2
		if thorough && i%3 == 0 {
			nt = 3
		}
		progs := make([]string, nt)
		counts := make([]int, nt)
		for t := range progs {
			var cs []string
			for j := 0; j < per; j++ {
				cs = append(cs, concCall(r, k))
			}
			progs[t] = strings.Join(cs, " ")
			counts[t] = per
		}
		for _, s := range interleavings(counts) {
			ss := make([]string, len(s))
			for j, v := range s {
				ss[j] = strconv.Itoa(v)
			}
			out = append(out, "sched "+strings.Join(ss, " ")+" / "+strings.Join(progs, " ; "))
		}
	}
	n := 60
	if thorough {
		n = 400
	}
	for i := 0; i < n; i++ {
		nt := 2 + r.Intn(2)
		k := "a"
		progs := make([]string, nt)
		for t := range progs {
			var cs []string
			for j, m := 0, 1+r.Intn(3); j < m; j++ {
				kk := k
				if r.Intn(5) == 0 {
					kk = "b"
				}
				cs = append(cs, concCall(r, kk))
			}
			progs[t] = strings.Join(cs, " ")
		}
		out = append(out, "conc "+strings.Join(progs, " ; "))
	}
	return out
}

// redContainerTriples: lifetimes of list / hash / counter keys on the Redis backend — a container
// that exists with a lifetime different from the default (SetExpiration 0 | short | sub-second | long,
// or none), optionally aged, then one call on it (new field, existing field, append, removal of a
// non-last / absent member, increments incl. the zero crossing, SetExpiration), then the lifetime is
// read, the clock steps past the short deadlines, and everything is read again.
func redContainerTriples() []string {
	x, y, z := strAtoms[0], strAtoms[1], sTok("z")
	sl := "sl " + strconv.Itoa(rSleepNS)
	ttls := []string{"0", strconv.Itoa(rShortNS), rSubNS, strconv.Itoa(longNS)}
	type fam struct {
		key     string
		setups  []string
		seconds []string
		probe   string
	}
	fams := []fam{
		{"h", []string{"hset h f " + x, "hset h f " + x + " hset h g " + y},
			[]string{"hset h f " + y, "hset h g " + z, "hset h k " + z, "hset h f " + x, "hdel h g", "hdel h q", "hget h f", "hall h"},
			"ttl h ex h hall h " + sl + " ttl h ex h hall h"},
		{"l", []string{"app l " + x, "app l " + x + " app l " + y, "setl l 2 " + x + " " + y + " 0", "app l " + x + " app l " + y + " app l " + x, "setl l 3 " + x + " " + x + " " + y + " " + strconv.Itoa(longNS)},
			[]string{"app l " + z, "app l " + x, "rem l " + x, "rem l " + z, "getl l"},
			"ttl l ex l getl l " + sl + " ttl l ex l getl l"},
		{"c", []string{"incr c 1", "incr c 1 incr c -1", "incr c 5"},
			[]string{"incr c 1", "incr c -1", "incr c 5", "incr c -5", "incr c 2"},
			"ttl c ex c " + sl + " ttl c ex c"},
	}
	var out []string
	for _, f := range fams {
		var seconds []string
		seconds = append(seconds, f.seconds...)
		for _, t := range ttls {
			seconds = append(seconds, "exp "+f.key+" "+t)
		}
		seconds = append(seconds, "ttl "+f.key)
		for _, su := range f.setups {
			exps := []string{""}
			for _, t := range ttls {
				exps = append(exps, "exp "+f.key+" "+t)
			}
			for _, e := range exps {
				for _, age := range []string{"", sl} {
					if age != "" && (strings.HasSuffix(e, " "+strconv.Itoa(rShortNS)) || strings.HasSuffix(e, " "+rSubNS)) {
						continue // would simply have expired
					}
					for _, c := range seconds {
						out = append(out, strings.Join(strings.Fields("red "+su+" "+e+" "+age+" "+c+" "+f.probe), " "))
					}
				}
			}
		}
	}
	return out
}

// redDegenerate: every call with its degenerate arguments on the Redis backend — the empty list, the
// empty field, the zero increment, the empty key, the empty string as value / member / expectation,
// negative lifetimes — over a key that is absent or already holds something, followed by reads and
// by a further call on the same key.
func redDegenerate() []string {
	x, y, z, e := strAtoms[0], strAtoms[1], sTok("z"), "s-"
	sl := "sl " + strconv.Itoa(rSleepNS)
	s, l := strconv.Itoa(rShortNS), strconv.Itoa(longNS)
	var out []string
	add := func(parts ...string) {
		out = append(out, strings.Join(strings.Fields("red "+strings.Join(parts, " ")), " "))
	}
	// SetList with an empty list: must replace whatever the key holds
	for _, su := range []string{"", "setl l 2 " + x + " " + y + " 0", "setl l 2 " + x + " " + y + " " + l, "app l " + x + " app l " + y,
		"setl l 1 " + x + " " + s, "app l " + x + " exp l 0"} {
		for _, t := range []string{"0", s, l, "-1"} {
			add(su, "setl l 0 "+t, "getl l", "app l "+z, "getl l", "rem l "+z, "getl l", sl, "getl l")
			add(su, "setl l 0 "+t, "getl l", "setl l 1 "+y+" "+t, "getl l", "ttl l", sl, "getl l")
		}
	}
	// empty field name
	for _, su := range []string{"", "hset h f " + x, "hset h - " + x, "hset h f " + x + " exp h 0"} {
		add(su, "hset h - "+y, "hget h -", "hall h", "ttl h", "hdel h -", "hget h -", "hall h", "hget h f")
		add(su, "hget h -", "hdel h -", "hall h", "hset h - "+e, "hget h -", "hall h")
	}
	// zero increment
	for _, su := range []string{"", "incr c 5", "incr c 1 incr c -1", "incr c 5 exp c 0", "incr c 5 exp c " + s} {
		add(su, "incr c 0", "ttl c", "incr c 0", "incr c 2", "ttl c", sl, "ex c", "incr c 0", "ttl c")
	}
	// empty key
	for _, t := range []string{"0", s, l} {
		add("get -", "ex -", "set - "+x+" "+t, "get -", "ttl -", "nx - "+y+" "+t, "cas - "+x+" "+y+" "+t, "get -", "exp - "+t, "ttl -", sl, "get -", "del -", "get -")
		add("nx - "+x+" "+t, "cas - nil "+y+" "+t, "get -", "del -", "cas - nil "+y+" "+t, "get -", "ttl -")
	}
	add("app - "+x, "app - "+y, "getl -", "rem - "+x, "getl -", "del -", "hset - f "+x, "hget - f", "hall -", "del -", "incr - 1", "incr - 0", "del -", "get -")
	// the empty string as value, member and expectation (it is not nil)
	for _, su := range []string{"", "set a " + e + " 0", "set a " + x + " 0", "set a " + e + " " + s} {
		for _, t := range []string{"0", s} {
			add(su, "cas a nil "+x+" "+t, "get a", "ttl a")
			add(su, "cas a "+e+" "+x+" "+t, "get a", "ttl a")
			add(su, "cas a "+x+" "+e+" "+t, "get a", "cas a "+e+" "+e+" "+t, "get a", "ttl a", sl, "get a")
			add(su, "nx a "+e+" "+t, "get a", "ex a", "set a "+e+" "+t, "get a", sl, "get a", "ex a")
		}
	}
	add("app l "+e, "getl l", "app l "+x, "rem l "+e, "getl l", "hset h f "+e, "hget h f", "hall h")
	// negative lifetimes mean "never" everywhere
	add("set a "+x+" -1", "ttl a", "nx b "+x+" -1", "ttl b", "cas a "+x+" "+y+" -1", "ttl a", "exp b -5", "ttl b", "setl l 1 "+x+" -1", "ttl l", sl, "get a", "get b", "getl l")
	add("set a "+x+" "+s, "exp a -1", "ttl a", sl, "get a", "set b "+x+" "+s, "cas b "+x+" "+x+" -1", sl, "get b")
	return out
}
