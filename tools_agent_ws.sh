#!/bin/bash
# usage: tools_agent_ws.sh <cxx>   -> creates /tmp/ag/<cxx>/{verif,repo}
set -e
id=$1
mkdir -p /tmp/ag/$id
rm -rf /tmp/ag/$id/verif
git clone -q /verif /tmp/ag/$id/verif
cp -r /verif/lean/.lake /tmp/ag/$id/verif/lean/.lake
mkdir -p /tmp/ag/$id/verif/.work/bin
cp /verif/.work/bin/extract /tmp/ag/$id/verif/.work/bin/ 2>/dev/null || true
(cd /tmp/ag/$id/verif && git checkout -q -b $id && python3 tools_gen_lean_roots.py >/dev/null && .work/bin/extract -repo /repo -specs extract/spec.d -out lean/TunnoxModel/Gen >/dev/null)
if [ ! -d /tmp/ag/$id/repo ]; then git -C /repo worktree add -q --detach /tmp/ag/$id/repo HEAD; fi
echo "/tmp/ag/$id ready"
