#!/bin/bash
# usage: tools_seed_ws.sh <cxx> [suffix]  -> /tmp/seed/<cxx><suffix>/{repo,PROMPT.md}
set -e
id=$1; suf=$2; d=/tmp/seed/$id$suf
mkdir -p $d
if [ -d $d/repo ]; then git -C $d/repo checkout -q --detach $(git -C /repo rev-parse HEAD); else git -C /repo worktree add -q --detach $d/repo HEAD; fi
python3 - "$id" "$d" <<'PY'
import json,sys,glob,os
pid=sys.argv[1].upper(); d=sys.argv[2]
props={json.loads(l)["id"]:json.loads(l) for l in open('/verif/properties.jsonl')}
t=open('/verif/tools_seed_prompt_tmpl.md').read()
p=props[pid]
txt=f"{pid}: {p['title']}\n{p['statement']}\nQuantified over: {p['quantifier']['text']}\nAnchors: {', '.join(p['anchors']['files'])}"
prev=[]
for m in glob.glob('/verif/seeded/%s-*/meta.json'%pid):
    j=json.load(open(m)); prev.append("- files %s: %s"%(j.get('files_changed'), str(j.get('what_breaks'))[:300]))
if prev:
    txt+="\n\n## Already taken (choose a DIFFERENT mechanism, different function, different clause of the property)\n"+"\n".join(prev)
open(d+'/PROMPT.md','w').write(t.replace('@WT@',d+'/repo').replace('@DIR@',d).replace('@PROP@',txt).replace('@ID@',pid))
PY
echo $d
