#!/bin/bash
# usage: tools_seed_ws.sh <cxx> [suffix]  -> /tmp/seed/<cxx><suffix>/{repo,PROMPT.md}
set -e
id=$1; suf=$2; d=/tmp/seed/$id$suf
mkdir -p $d
[ -d $d/repo ] || git -C /repo worktree add -q --detach $d/repo HEAD
python3 - "$id" "$d" <<'PY'
import json,sys
pid=sys.argv[1].upper(); d=sys.argv[2]
props={json.loads(l)["id"]:json.loads(l) for l in open('/verif/properties.jsonl')}
t=open('/verif/tools_seed_prompt_tmpl.md').read()
p=props[pid]
txt=f"{pid}: {p['title']}\n{p['statement']}\nQuantified over: {p['quantifier']['text']}\nAnchors: {', '.join(p['anchors']['files'])}"
open(d+'/PROMPT.md','w').write(t.replace('@WT@',d+'/repo').replace('@DIR@',d).replace('@PROP@',txt).replace('@ID@',pid))
PY
echo $d
