#!/bin/bash
# Builds the framework from files on disk only (offline): extractor, Gen modules
# from /repo, the Lean library + proofs, the model driver, and warms the Go build cache.
set -e
cd "$(dirname "$0")"
export GOFLAGS=-mod=mod GOPROXY=off
mkdir -p .work/bin evidence
(cd extract && go build -o ../.work/bin/extract .)
.work/bin/extract -repo "${VERIF_REPO:-/repo}" -specs extract/spec.d -out lean/TunnoxModel/Gen
python3 tools_gen_lean_roots.py
(cd lean && lake build) || echo "setup: some Lean modules did not build against the current tree; the affected checks report it themselves"
for f in lean/DriverMains/Main*.lean; do n=$(basename $f .lean); n=${n#Main}; (cd lean && lake build driver_$(echo $n | tr A-Z a-z)) ; done
# warm the Go build cache for the harnesses (errors here are reported by the checks themselves)
for f in checks/c*.py; do id=$(basename "$f" .py); ./check "$id" --warm || true; done
echo "setup done"
