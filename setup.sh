#!/bin/bash
# Builds the framework from files on disk only (offline): extractor, Gen modules
# from /repo, the Lean library + proofs, the model driver, and warms the Go build cache.
set -e
cd "$(dirname "$0")"
export GOFLAGS=-mod=mod GOPROXY=off
mkdir -p .work/bin evidence
(cd extract && go build -o ../.work/bin/extract .)
.work/bin/extract -repo "${VERIF_REPO:-/repo}" -spec extract/spec.json -out lean/TunnoxModel/Gen
(cd lean && lake build TunnoxModel driver)
# warm the Go build cache for the harnesses (errors here are reported by the checks themselves)
python3 - <<'PY' || true
import importlib.util, os, sys
sys.argv = ["check"]
spec = importlib.util.spec_from_loader("check", loader=None)
src = open("check").read()
ns = {"__name__": "setup"}
exec(compile(src, "check", "exec"), ns)
for f in sorted(os.listdir("checks")):
    if f.endswith(".py"):
        s = ns["load_spec"](f[:-3].upper())
        b = []
        ns["build_harness"](s, b)
        if b: print("setup: harness", f, "did not build:", b[0]["what"])
PY
echo "setup done"
