import Lean
/-!
  Axiom audit.  Usage:  lake env lean --run Audit.lean TunnoxModel.Props.C01 [more modules…]
  For every theorem declared in each listed module prints one line
    THEOREM <module> <name> <axiom,axiom,…|->
  so the runner can require axioms ⊆ {propext, Classical.choice, Quot.sound}.
-/
open Lean

def auditModule (env : Environment) (modName : Name) : IO Unit := do
  match env.getModuleIdx? modName with
  | none => throw <| IO.userError s!"module {modName} not found"
  | some idx =>
    let names := env.header.moduleData[idx.toNat]!.constNames
    for n in names do
      if n.isInternalDetail then continue
      match env.find? n with
      | some (.thmInfo _) =>
        let ctx : Core.Context := { fileName := "<audit>", fileMap := default }
        let st : Core.State := { env := env }
        let (arr, _) ← (collectAxioms n : CoreM (Array Name)).toIO ctx st
        let axs : List String := arr.toList.map toString
        IO.println s!"THEOREM {modName} {n} {if axs.isEmpty then "-" else ",".intercalate axs}"
      | _ => pure ()

unsafe def main (args : List String) : IO UInt32 := do
  initSearchPath (← findSysroot)
  let mods := args.map String.toName
  let env ← importModules (mods.toArray.map fun m => { module := m }) {}
  for m in mods do
    auditModule env m
  return 0
