import TunnoxModel.Model.Src
import TunnoxModel.Proofs.Src
import TunnoxModel.Model.C01
import TunnoxModel.Proofs.C01
import TunnoxModel.Props.C01
import TunnoxModel.Props.C05
