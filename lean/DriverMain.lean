import TunnoxModel.Driver.C01
import TunnoxModel.Driver.C05
/-!
Model driver.  One request per stdin line, one answer per stdout line:
  <Cxx> model <case tokens…>                  → canonical model observation
  <Cxx> holds <case tokens…> ## <obs tokens…> → true | false   (the theorem's predicate on an observation)
-/
open Tunnox.Drv

def splitAtSep (ts : List String) : List String × List String :=
  (ts.takeWhile (· != "##"), (ts.dropWhile (· != "##")).drop 1)

def dispatch (line : String) : String :=
  let ts := (line.splitOn " ").filter (· != "")
  match ts with
  | "C01" :: "model" :: rest => C01.runModel rest
  | "C01" :: "holds" :: rest => let (a, b) := splitAtSep rest; C01.runHolds a b
  | "C05" :: "model" :: rest => C01.runRawModel rest
  | "C05" :: "holds" :: rest => let (_, b) := splitAtSep rest; C05.runHolds b
  | _ => "bad-request"

partial def loop (h : IO.FS.Stream) (out : IO.FS.Stream) : IO Unit := do
  let line ← h.getLine
  if line.isEmpty then return ()
  let line := String.ofList (line.toList.filter (fun c => c != '\n' && c != '\r'))
  out.putStrLn (dispatch line)
  loop h out

def main : IO Unit := do
  let out ← IO.getStdout
  loop (← IO.getStdin) out
  out.flush
