import TunnoxModel.Proofs.C06
/-!
# C06 — a connection code creates at most one mapping, and only while valid

Model: `Model/C06.lean` (interleaving semantics of ActivateConnectionCode / RevokeConnectionCode at
storage-phase granularity, one optional storage failure per call, code generation and expiry as
environment events).  Predicate: `Spec/C06.lean` (`holds = holdsCore && holdsValid`), the same
function the runner applies to every observation of the real code.
-/
namespace Tunnox.C06
open Gen

/-! ## Ties to the source (T1, T2): regenerated on every run, compared here -/

/-- Order of the effectful calls of `ActivateConnectionCode`: claim, (deferred) release, read, validity check,
quota read, decision (`Activate` on the local copy), create mapping, write back, roll back.  The model's
phases `claim → get → quota → create → update → rollback → release` are this list. -/
theorem skel_activate : Skel.ActivateConnectionCode =
    ["s.claimCode", "release", "connCodeRepo.GetByCode", "connCode.CanBeActivatedBy", "portMappingRepo.GetClientPortMappings",
     "connCode.Activate", "portMappingService.CreatePortMapping", "connCodeRepo.Update", "portMappingService.DeletePortMapping"] := by decide

theorem skel_revoke : Skel.RevokeConnectionCode =
    ["s.claimCode", "release", "connCodeRepo.GetByCode", "connCode.Revoke", "connCodeRepo.Update"] := by decide

/-- The claim is one atomic `SetNX` (no check-then-set), released by one `Delete`. -/
theorem skel_claim : Skel.claimCode = ["connCodeRepo.TryClaim", "connCodeRepo.ReleaseClaim"] ∧
    Skel.TryClaim = ["casStore.SetNX"] ∧ Skel.ReleaseClaim = ["storage.Delete"] := by decide

theorem skel_update : Skel.Update = ["code.TimeRemaining", "r.Delete", "storage.Set", "storage.Set"] ∧
    Skel.GetByCode = ["storage.Get"] := by decide

/-- `CreatePortMapping`: record, then global list, with the record removed again if the list append fails;
the service releases the generated ID on failure. -/
theorem skel_create : Skel.RepoCreatePortMapping = ["r.Create", "r.AddMappingToList", "r.Delete"] ∧
    Skel.SvcCreatePortMapping = ["idManager.GeneratePortMappingID", "mappingRepo.CreatePortMapping",
      "HandleErrorWithIDReleaseString", "mappingRepo.AddMappingToClient", "mappingRepo.AddMappingToClient"] := by decide

theorem skel_model : Skel.Activate = ["c.CanBeActivatedBy"] ∧ Skel.Revoke = [] ∧
    Skel.GenerateUnique = ["g.Generate", "checkExists"] := by decide

/-- The claim key lives under the prefix that the hybrid storage shares between nodes
("tunnox:runtime:conncode:"), and can never be mistaken for a code record. -/
theorem claim_key_shared :
    Tunnox.PredPrelude.hasPrefix constants.KeyPrefixRuntimeConnectionCodeClaim "tunnox:runtime:conncode:" = true ∧
    Tunnox.PredPrelude.hasPrefix constants.KeyPrefixRuntimeConnectionCodeByCode "tunnox:runtime:conncode:" = true ∧
    Tunnox.PredPrelude.hasPrefix constants.KeyPrefixRuntimeConnectionCodeClaim constants.KeyPrefixRuntimeConnectionCodeByCode = false ∧
    Tunnox.PredPrelude.hasPrefix constants.KeyPrefixRuntimeConnectionCodeByCode constants.KeyPrefixRuntimeConnectionCodeClaim = false ∧
    Tunnox.PredPrelude.hasPrefix constants.KeyPrefixRuntimeConnectionCodeClaim constants.KeyPrefixRuntimeConnectionCodeByID = false ∧
    0 < conncode.codeClaimTTL := by decide

/-- The translated validity predicate (current source text of `IsValidForActivation` / `CanBeActivatedBy`):
a code can be activated iff it is not revoked, not used and its period is not over. -/
theorem valid_iff (now : Nat) (c : TunnelConnectionCode) (l : Nat) :
    TunnelConnectionCode.CanBeActivatedBy now c l = true ↔
      (c.IsRevoked = false ∧ c.IsActivated = false ∧ ¬ (c.ActivationExpiresAt < now)) := by
  simp only [TunnelConnectionCode.CanBeActivatedBy, TunnelConnectionCode.IsValidForActivation,
    TunnelConnectionCode.IsExpired, Tunnox.PredPrelude.timeAfter, Tunnox.PredPrelude.TimeLike.toTime]
  simp only [id]
  cases h1 : c.IsRevoked <;> cases h2 : c.IsActivated <;> by_cases h : c.ActivationExpiresAt < now <;> simp [h]

/-! ## The property -/

/-- **C06 (core), all schedules, all histories, all single failures per call.**
For every number of concurrent activations and revocations (`ths`, each with an arbitrary requesting client,
listen address and at most one failing storage operation), every pre-existing set of mappings, and EVERY event
sequence `evs` (any interleaving of the calls' storage phases with the generation of the code and the end of
its activation period, in any order):
* at most one activation succeeds;
* its mapping targets the client and address fixed when the code was generated and listens for the activating client and address, and is in storage;
* if a revocation succeeded, no activation succeeded;
* once all calls have returned, storage holds at most one mapping created from the code, every such mapping was
  returned by a successful activation (a failed activation leaves nothing behind), and the code record names
  the activating client and that mapping (or says "revoked").
Hypothesis `freshThreads`: the calls have not started yet. -/
theorem C06_core (p : Params) (preC preN : Nat) (ths : List Thread) (evs : List Ev)
    (hf : freshThreads ths = true) :
    holdsCore p (ths.map callOf) (obs (run .repaired p (init preC preN ths) evs)) = true := by
  have h := holdsCore_run (p := p) preC preN ths evs hf
  rw [calls_run] at h
  exact h

/-- In particular: however the calls overlap, at most one of them gets a mapping. -/
theorem C06_at_most_one (p : Params) (preC preN : Nat) (ths : List Thread) (evs : List Ev)
    (hf : freshThreads ths = true) :
    (obs (run .repaired p (init preC preN ths) evs)).results.countP ORes.isOk ≤ 1 := by
  have h := C06_core p preC preN ths evs hf
  simp only [holdsCore, Bool.and_eq_true, decide_eq_true_eq] at h
  exact h.1.1.1.2

/-- **"only while valid", per step (partial).**  The only way an activation gets past the read is the translated
validity predicate on the record as stored at that moment: present, not revoked, not used, period not over —
whatever the store and the thread look like.  (Full statement: `holdsValid evs (obs (run … evs)) = true` for all
`evs`, i.e. a successful activation has a step at which the code was generated and not expired; it is evaluated
on every model run and every implementation observation by the driver, and follows from this lemma plus the
fact, proved in `C06_core`'s invariant, that `checked` is the only way to `created`; the positional
bookkeeping over event prefixes is not mechanised.) -/
theorem C06_valid_partial (p : Params) (st : Store) (i : Nat) (t : Thread)
    (hk : t.kind = .activate) (hpc : t.pc = .claimed)
    (h : (tstep .repaired p st i t).2.pc = .checked) :
    st.present = true ∧ st.code.IsRevoked = false ∧ st.code.IsActivated = false ∧ ¬ (st.code.ActivationExpiresAt < st.now) := by
  simp only [tstep, hk, hpc, getStepA] at h
  split at h
  · simp [fin] at h
  · split at h
    · simp [fin] at h
    · split at h
      · simp [fin] at h
      · rename_i hp hv
        have := (valid_iff st.now st.code t.listener).mp (by simpa using hv)
        exact ⟨by simpa using hp, this⟩

/-- … and the decision is taken again, on the local copy with the current clock, before anything is created. -/
theorem C06_recheck_partial (p : Params) (st : Store) (i : Nat) (t : Thread) (hpc : t.pc = .checked)
    (h : (tstep .repaired p st i t).2.pc = .decided) : ¬ (t.loc.ActivationExpiresAt < st.now) := by
  cases hk : t.kind <;> simp only [tstep, hk, hpc] at h <;>
  · split at h
    · simp [fin] at h
    · split at h
      · simp [fin] at h
      · rename_i hv
        exact ((valid_iff st.now t.loc t.listener).mp (by simpa using hv)).2.2

/-- `GenerateUnique` never returns a code that already exists, whatever candidates the random source proposes. -/
theorem C06_generateUnique (ex : Nat → Bool) (fuel : Nat) (cands : List Nat) (c : Nat)
    (h : generateUnique ex fuel cands = some c) : ex c = false ∧ c ∈ cands := by
  induction fuel generalizing cands with
  | zero => simp [generateUnique] at h
  | succ n ih =>
    cases cands with
    | nil => simp [generateUnique] at h
    | cons x xs =>
      simp only [generateUnique] at h
      split at h
      · have := ih xs h; exact ⟨this.1, List.mem_cons_of_mem _ this.2⟩
      · rename_i hx; simp at h; subst h; exact ⟨by simpa using hx, List.mem_cons_self⟩

/-! ## The defect that was repaired: without the claim two overlapping activations both succeed -/

def pW : Params := { tc := 500, ta := 1, max := 50, sticky := false }
def thsW : List Thread := [{ kind := .activate, listener := 101, laddr := 1 }, { kind := .activate, listener := 102, laddr := 2 }]
/-- both read, then both go on -/
def evsW : List Ev := [.create, .th 0, .th 1] ++ drain 2

/-- As found (no claim between read and write-back): the overlapping schedule creates two mappings from one code. -/
theorem C06_witness :
    holdsCore pW (thsW.map callOf) (obs (run .asFound pW (init 0 0 thsW) evsW)) = false ∧
    (obs (run .asFound pW (init 0 0 thsW) evsW)).maps.length = 2 := by decide

/-- The same schedule on the repaired code: one mapping. -/
example : (obs (run .repaired pW (init 0 0 thsW) evsW)).maps = [(101, 1, 500, 1)] ∧
    (obs (run .repaired pW (init 0 0 thsW) evsW)).results = [.ok (101, 1, 500, 1) true, .err "conflict"] := by decide

/-! ## Non-vacuity -/

example : freshThreads thsW = true := by decide
/-- every clause of `holds` is exercised: all calls return, one succeeds -/
example : holds pW (thsW.map callOf) evsW (obs (run .repaired pW (init 0 0 thsW) evsW)) = true := by decide
/-- expiry before the call: nothing is created -/
example : (obs (run .repaired pW (init 0 0 thsW) ([.create, .expire] ++ drain 2))).maps = [] := by decide
/-- a failed write-back (second write) burns the code but leaves no mapping -/
example : (obs (run .repaired pW (init 0 0 [{ kind := .activate, listener := 101, laddr := 1, fault := .updId }]) (.create :: drain 1))) =
    { results := [.err "storage"], maps := [], orec := some ⟨true, false, some 101, some none⟩ } := by decide
/-- revocation first: the activation is refused -/
example : (obs (run .repaired pW (init 0 0 [{ kind := .revoke, listener := 0, laddr := 0 }, { kind := .activate, listener := 101, laddr := 1 }])
    (.create :: drain 2))).results = [.rok, .err "forbidden"] := by decide

end Tunnox.C06
