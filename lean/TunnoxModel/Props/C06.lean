import TunnoxModel.Proofs.C06Valid
/-!
# C06 — a connection code creates at most one mapping, and only while valid

Model: `Model/C06.lean` (interleaving semantics of ActivateConnectionCode / RevokeConnectionCode at
storage-phase granularity, one optional storage failure per call, code generation and expiry as
environment events).  Predicate: `Spec/C06.lean` (`holds = holdsCore && holdsValid`), the same
function the runner applies to every observation of the real code.
-/
namespace Tunnox.C06
open Gen

/-! ## Ties to the source (T1, T2): regenerated on every run, compared here -/

/-- Order of the effectful calls of `ActivateConnectionCode`: claim, (deferred) release, read, validity check,
quota read, decision (`Activate` on the local copy), create mapping, write back, roll back.  The model's
phases `claim → get → quota → create → update → rollback → release` are this list. -/
theorem skel_activate : Skel.ActivateConnectionCode =
    ["s.claimCode", "release", "connCodeRepo.GetByCode", "connCode.CanBeActivatedBy", "portMappingRepo.GetClientPortMappings",
     "connCode.Activate", "portMappingService.CreatePortMapping", "connCodeRepo.Update", "portMappingService.DeletePortMapping"] := by decide

theorem skel_revoke : Skel.RevokeConnectionCode =
    ["s.claimCode", "release", "connCodeRepo.GetByCode", "connCode.Revoke", "connCodeRepo.Update"] := by decide

/-- The claim is one atomic `SetNX` (no check-then-set), released by one `Delete`. -/
theorem skel_claim : Skel.claimCode = ["connCodeRepo.TryClaim", "connCodeRepo.ReleaseClaim"] ∧
    Skel.TryClaim = ["casStore.SetNX"] ∧ Skel.ReleaseClaim = ["storage.Delete"] := by decide

theorem skel_update : Skel.Update = ["code.TimeRemaining", "r.Delete", "storage.Set", "storage.Set"] ∧
    Skel.GetByCode = ["storage.Get"] := by decide

/-- `CreatePortMapping`: record, then global list, with the record removed again if the list append fails;
the service releases the generated ID on failure. -/
theorem skel_create : Skel.RepoCreatePortMapping = ["r.Create", "r.AddMappingToList", "r.Delete"] ∧
    Skel.SvcCreatePortMapping = ["idManager.GeneratePortMappingID", "HandleErrorWithIDReleaseString",
      "mappingRepo.CreatePortMapping", "HandleErrorWithIDReleaseString", "mappingRepo.AddMappingToClient",
      "mappingRepo.AddMappingToClient"] := by decide
  -- the first `HandleErrorWithIDReleaseString` is the error path of the mapping-secret generation (C04 fix
  -- "generate the mapping secret…"): it releases the id before anything is created, like the second one.

theorem skel_model : Skel.Activate = ["c.CanBeActivatedBy"] ∧ Skel.Revoke = [] ∧
    Skel.GenerateUnique = ["g.Generate", "checkExists"] := by decide

/-- "Through different nodes": in a cluster every node has a HybridStorage that serves a key from the cache all
nodes share only if the key starts with an entry of its routing tables (`hybrid.DefaultConfig()`, regenerated
here).  `SetNX` looks at `SharedPrefixes` only (`getCacheForKey`).  The claim key, both copies of the code record,
the per-target index, the mapping ID marker, the mapping record and its lists are all routed to the shared cache;
the claim key can never be mistaken for a code record; the default quota is the documented 50. -/
theorem claim_key_shared :
    c06hybrid.DefaultConfig.SharedPrefixes.any (fun pre => Tunnox.PredPrelude.hasPrefix constants.KeyPrefixRuntimeConnectionCodeClaim pre) = true ∧
    c06hybrid.DefaultConfig.SharedPrefixes.any (fun pre => Tunnox.PredPrelude.hasPrefix constants.KeyPrefixRuntimeConnectionCodeByCode pre) = true ∧
    c06hybrid.DefaultConfig.SharedPrefixes.any (fun pre => Tunnox.PredPrelude.hasPrefix constants.KeyPrefixRuntimeConnectionCodeByID pre) = true ∧
    c06hybrid.DefaultConfig.SharedPrefixes.any (fun pre => Tunnox.PredPrelude.hasPrefix constants.KeyPrefixIndexConnectionCodeByTarget pre) = true ∧
    c06hybrid.DefaultConfig.SharedPrefixes.any (fun pre => Tunnox.PredPrelude.hasPrefix "tunnox:id:used:pmap" pre) = true ∧
    c06hybrid.DefaultConfig.SharedPersistentPrefixes.any (fun pre => Tunnox.PredPrelude.hasPrefix (constants.KeyPrefixPortMapping ++ ":") pre) = true ∧
    c06hybrid.DefaultConfig.SharedPersistentPrefixes.any (fun pre => Tunnox.PredPrelude.hasPrefix constants.KeyPrefixMappingList pre) = true ∧
    c06hybrid.DefaultConfig.SharedPersistentPrefixes.any (fun pre => Tunnox.PredPrelude.hasPrefix (constants.KeyPrefixClientMappings ++ ":") pre) = true ∧
    Tunnox.PredPrelude.hasPrefix constants.KeyPrefixRuntimeConnectionCodeClaim constants.KeyPrefixRuntimeConnectionCodeByCode = false ∧
    Tunnox.PredPrelude.hasPrefix constants.KeyPrefixRuntimeConnectionCodeByCode constants.KeyPrefixRuntimeConnectionCodeClaim = false ∧
    Tunnox.PredPrelude.hasPrefix constants.KeyPrefixRuntimeConnectionCodeClaim constants.KeyPrefixRuntimeConnectionCodeByID = false ∧
    0 < conncode.codeClaimTTL ∧ conncode.DefaultConfig.MaxActiveMappingsPerClient = 50 := by decide

/-- The translated validity predicate (current source text of `IsValidForActivation` / `CanBeActivatedBy`):
a code can be activated iff it is not revoked, not used and its period is not over. -/
theorem valid_iff (now : Nat) (c : TunnelConnectionCode) (l : Nat) :
    TunnelConnectionCode.CanBeActivatedBy now c l = true ↔
      (c.IsRevoked = false ∧ c.IsActivated = false ∧ ¬ (c.ActivationExpiresAt < now)) := by
  simp only [TunnelConnectionCode.CanBeActivatedBy, TunnelConnectionCode.IsValidForActivation,
    TunnelConnectionCode.IsExpired, Tunnox.PredPrelude.timeAfter, Tunnox.PredPrelude.TimeLike.toTime]
  simp only [id]
  cases h1 : c.IsRevoked <;> cases h2 : c.IsActivated <;> by_cases h : c.ActivationExpiresAt < now <;> simp [h]

/-! ## The property -/

/-- **C06 (core), all schedules, all histories, all single failures per call.**
For every number of concurrent activations and revocations (`ths`, each with an arbitrary requesting client,
listen address and at most one failing storage operation), every pre-existing set of mappings, and EVERY event
sequence `evs` (any interleaving of the calls' storage phases with the generation of the code and the end of
its activation period, in any order):
* at most one activation succeeds;
* its mapping targets the client and address fixed when the code was generated and listens for the activating client and address, and is in storage;
* if a revocation succeeded, no activation succeeded;
* once all calls have returned, storage holds at most one mapping created from the code, every such mapping was
  returned by a successful activation (a failed activation leaves nothing behind), and the code record names
  the activating client and that mapping (or says "revoked").
Hypothesis `freshThreads`: the calls have not started yet.
Hypothesis `leaseOk`: the event list may contain `stall` events (wall-clock time passes while every call is stuck
in the middle of whatever it is doing: slow storage, a GC pause, queueing behind other activations); the claim key
is a lease that is neither renewed nor checked again, so the stalls of the history must not add up to its lifetime
(`Params.lease`, from `codeClaimTTL`; `claim_lease_pin`, `C06_lease_witness`). -/
theorem C06_core (p : Params) (preC preN : Nat) (ths : List Thread) (evs : List Ev)
    (hf : freshThreads ths = true) (hl : leaseOk p (init preC preN ths) evs = true) :
    holdsCore p (ths.map callOf) (obs (run .repaired p (init preC preN ths) evs)) = true := by
  have h := holdsCore_run (p := p) preC preN ths evs hf hl
  rw [calls_run] at h
  exact h

/-- In particular: however the calls overlap, at most one of them gets a mapping. -/
theorem C06_at_most_one (p : Params) (preC preN : Nat) (ths : List Thread) (evs : List Ev)
    (hf : freshThreads ths = true) (hl : leaseOk p (init preC preN ths) evs = true) :
    (obs (run .repaired p (init preC preN ths) evs)).results.countP ORes.isOk ≤ 1 := by
  have h := C06_core p preC preN ths evs hf hl
  simp only [holdsCore, Bool.and_eq_true, decide_eq_true_eq] at h
  exact h.1.1.1.2

/-- **C06 ("only while valid"), all schedules and histories.**  For every event list — the storage phases of any
number of activations and revocations interleaved in any way with the generation of the code and the end of its
activation period — for a successful activation, step 1 of the call (its read of the record) and step 2 (its
re-decision: `connCode.Activate` on the local copy with the current clock, before anything is created; step 0 is
the claim) both lie at instants before which the code was generated and its period not over.  Hence an activation
that lies before the generation or after the end of the period, or whose read or re-decision falls after the end,
never creates a mapping.  (Revoked / already used at those instants: `C06_decision_instant`, and `C06_core`.) -/
theorem C06_valid (p : Params) (preC preN : Nat) (ths : List Thread) (evs : List Ev)
    (hf : freshThreads ths = true) (hl : leaseOk p (init preC preN ths) evs = true) :
    holdsValid evs (obs (run .repaired p (init preC preN ths) evs)) = true :=
  holdsValid_run preC preN ths evs hf hl

/-- **C06, every clause of the predicate the runner applies to the implementation** (core ∧ valid). -/
theorem C06_main (p : Params) (preC preN : Nat) (ths : List Thread) (evs : List Ev)
    (hf : freshThreads ths = true) (hl : leaseOk p (init preC preN ths) evs = true) :
    holds p (ths.map callOf) evs (obs (run .repaired p (init preC preN ths) evs)) = true := by
  simp only [holds, Bool.and_eq_true]
  exact ⟨C06_core p preC preN ths evs hf hl, C06_valid p preC preN ths evs hf hl⟩

/-- The read: the only way an activation gets past it is the translated validity predicate on the record as
stored at that moment — present, not revoked, not used, period not over — whatever the store looks like. -/
theorem C06_read_gate (p : Params) (st : Store) (i : Nat) (t : Thread)
    (hk : t.kind = .activate) (hpc : t.pc = .claimed)
    (h : (tstepMain .repaired p st i t).2.pc = .checked) :
    st.present = true ∧ st.code.IsRevoked = false ∧ st.code.IsActivated = false ∧ ¬ (st.code.ActivationExpiresAt < st.now) := by
  simp only [tstepMain, hk, hpc, getStepA] at h
  split at h
  · simp [fin] at h
  · split at h
    · simp [fin] at h
    · split at h
      · simp [fin] at h
      · rename_i hp hv
        have := (valid_iff st.now st.code t.listener).mp (by simpa using hv)
        exact ⟨by simpa using hp, this⟩

/-- **The instant at which validity is judged: the re-decision.**  In every reachable configuration (any events
so far), when an activation passes its re-decision the record *as stored at that instant* is not revoked, not
used and not expired: the claim guarantees that nobody has written the record since the activation read it
(`TInv.locEq`), so the local copy the code re-checks is the stored record. -/
theorem C06_decision_instant (p : Params) (preC preN : Nat) (ths : List Thread) (evs : List Ev)
    (hf : freshThreads ths = true) (hl : leaseOk p (init preC preN ths) evs = true) (i : Nat) (t : Thread)
    (hi : (run .repaired p (init preC preN ths) evs).ths[i]? = some t) (hpc : t.pc = .checked)
    (hs : t.isMain = true)
    (h : (tstep .repaired p (run .repaired p (init preC preN ths) evs).st i t).2.pc = .decided) :
    let st := (run .repaired p (init preC preN ths) evs).st
    st.code.IsRevoked = false ∧ st.code.IsActivated = false ∧ ¬ (st.code.ActivationExpiresAt < st.now) := by
  have hinv := inv_run (p := p) evs (inv_init preC preN ths hf) hl
  have hl := (hinv.t i t hi hs).locEq hpc
  intro st
  simp only [tstep, hs, ↓reduceIte] at h
  have : TunnelConnectionCode.CanBeActivatedBy st.now t.loc t.listener = true := by
    cases hk : t.kind <;> simp only [tstepMain, hk, hpc] at h <;>
    · split at h
      · simp [fin] at h
      · split at h
        · simp [fin] at h
        · rename_i hv; simpa using hv
  rw [hl] at this
  exact (valid_iff st.now st.code t.listener).mp this

/-- … and a mapping is created only by the step that follows a passed re-decision: an activation whose
re-decision saw an expired, revoked or used record ends there (`C06_decision_instant` is the only way to
`decided`) and never reaches the one step that adds a mapping. -/
theorem C06_create_only_after_decision (p : Params) (st : Store) (i : Nat) (t : Thread)
    (h : st.maps.length < (tstep .repaired p st i t).1.maps.length) : t.isMain = true ∧ t.pc = .decided := by
  have hs : t.isMain = true := by
    apply Classical.byContradiction
    intro hs
    simp only [tstep, hs, ↓reduceIte] at h
    split at h
    · have hst : (tstepP st t).1 = st := by unfold tstepP; split <;> rfl
      rw [hst] at h; exact absurd h (Nat.lt_irrefl _)
    · unfold tstepO at h
      (repeat' split at h) <;> simp_all
  refine ⟨hs, ?_⟩
  simp only [tstep, hs, ↓reduceIte] at h
  have hf := updateRec_fields st t
  cases hpc : t.pc <;> try rfl
  all_goals
    exfalso
    cases hk : t.kind <;> simp only [tstepMain, hk, hpc] at h <;>
      (try unfold claimStep at h) <;> (try unfold getStepA at h) <;> (try unfold getStepR at h) <;>
      (repeat' split at h) <;> simp_all <;>
      exact absurd h (Nat.not_lt.mpr (List.length_filter_le _ _))

/-- **Requests that spell the code differently** (`Thread.spell ≠ 0`: upper case, surrounding blanks, any other
string) are inside the quantifier of `C06_main`/`C06_core` — `ths` ranges over all spellings, overlapping in any
way with correctly spelled requests.  The claim key and the record key are the same raw string
(`skel_keys`: none of TryClaim / ReleaseClaim / GetByCode / Update / the service functions transforms the
string), so such a request claims ANOTHER key and finds NO record: in every reachable configuration it has
neither obtained a mapping nor revoked anything.  (A change that makes the look-up accept other spellings while
the claim stays keyed by the raw string lets such a request into the read-check-write section under a
different claim: the implementation then reports `ok` where this theorem says it cannot.) -/
theorem C06_other_spelling (p : Params) (preC preN : Nat) (ths : List Thread) (evs : List Ev)
    (hf : freshThreads ths = true) (hl : leaseOk p (init preC preN ths) evs = true) (i : Nat) (t : Thread)
    (hi : (run .repaired p (init preC preN ths) evs).ths[i]? = some t) (hs : ¬ t.isMain = true) :
    (∀ m, t.res ≠ some (.ok m)) ∧ t.res ≠ some .rok := by
  have h := (inv_run (p := p) evs (inv_init preC preN ths hf) hl).o i t hi hs
  exact ⟨h.noOk, h.noRok⟩

/-- **Status polls** (`Thread.poll`: `Service.GetConnectionCode`, no claim) are inside the quantifier of `C06_main`
as well: any number of them, on the same node or another, each with its storage read split into "performed" and
"returned" so that a read can be answered before an activation writes the record back and be returned after the
next activation has claimed the code.  A poll reads and nothing else: whatever the interleaving, it leaves the
store as it is, so what an activation reads under the claim is what the store holds at that moment — never the
answer to somebody else's earlier read.  (A read path that hands a claimed activation the result of a poll's
older read makes the implementation report a second `ok` where `C06_main` allows one.) -/
theorem C06_poll_inert (p : Params) (st : Store) (i : Nat) (t : Thread) (hp : t.poll = true) :
    (tstep .repaired p st i t).1 = st := by
  have hm : t.isMain = false := by simp [Thread.isMain, hp]
  simp only [tstep, hm, hp, ↓reduceIte, Bool.false_eq_true]
  unfold tstepP; split <;> rfl

/-- Key discipline (T2): neither the claim nor the look-up nor the write-back canonicalises the code string
(the extractor lists ToLower/ToUpper/TrimSpace/Trim/Fields/normalizeCode among the calls it reports; none occurs). -/
theorem skel_keys : Skel.TryClaim = ["casStore.SetNX"] ∧ Skel.ReleaseClaim = ["storage.Delete"] ∧
    Skel.GetByCode = ["storage.Get"] ∧ Skel.claimCode = ["connCodeRepo.TryClaim", "connCodeRepo.ReleaseClaim"] := by decide

/-- `GenerateUnique` never returns a code that already exists, whatever candidates the random source proposes. -/
theorem C06_generateUnique (ex : Nat → Bool) (fuel : Nat) (cands : List Nat) (c : Nat)
    (h : generateUnique ex fuel cands = some c) : ex c = false ∧ c ∈ cands := by
  induction fuel generalizing cands with
  | zero => simp [generateUnique] at h
  | succ n ih =>
    cases cands with
    | nil => simp [generateUnique] at h
    | cons x xs =>
      simp only [generateUnique] at h
      split at h
      · have := ih xs h; exact ⟨this.1, List.mem_cons_of_mem _ this.2⟩
      · rename_i hx; simp at h; subst h; exact ⟨by simpa using hx, List.mem_cons_self⟩

/-- A later `CreateConnectionCode` never hands out, and so never overwrites the record of, a code that still
exists — whatever the random source proposes: the table of codes stays duplicate-free and keeps every code. -/
theorem C06_create_keeps (tbl cands : List Nat) (h : tbl.Nodup) :
    (createOp tbl cands).Nodup ∧ ∀ c ∈ tbl, c ∈ createOp tbl cands := by
  unfold createOp
  cases hg : generateUnique (fun c => tbl.contains c) 100 cands with
  | none => exact ⟨h, fun c hc => hc⟩
  | some c =>
    have hc : tbl.contains c = false := (C06_generateUnique _ _ _ _ hg).1
    have hn : c ∉ tbl := by simpa using hc
    exact ⟨List.nodup_cons.mpr ⟨hn, h⟩, fun x hx => List.mem_cons_of_mem _ hx⟩

example : holdsUniq 2 ["new", "ok", "new", "exhausted", "conflict", "ok"] [1, 1] = true := by decide
example : holdsUniq 2 ["new", "ok", "dup", "ok"] [2] = false := by decide
example : holdsUniq 2 ["new", "exhausted"] [0] = false := by decide

/-- **The lease is pinned.**  One stall of the harness lasts 3.5 s; the histories it drives through the real code
contain up to two of them while a call holds the claim (`maxStalls`).  The claim key must outlive that:
`codeClaimTTL` is longer than two stalls, i.e. `leaseOf codeClaimTTL` (the `Params.lease` the driver gives the
model) exceeds `maxStalls`, and every history with at most `maxStalls` stalls satisfies `leaseOk`. -/
def stallNanos : Nat := 3500000000
def maxStalls : Nat := 2
def leaseOf (ttlNanos : Nat) : Nat := (ttlNanos + stallNanos - 1) / stallNanos

theorem claim_lease_pin : maxStalls < leaseOf conncode.codeClaimTTL ∧ maxStalls * stallNanos < conncode.codeClaimTTL := by decide

theorem leaseOk_of_few_stalls (p : Params) (preC preN : Nat) (ths : List Thread) (evs : List Ev)
    (hp : p.lease = leaseOf conncode.codeClaimTTL) (hs : evs.count .stall ≤ maxStalls) :
    leaseOk p (init preC preN ths) evs = true := by
  have := claim_lease_pin.1
  simp only [leaseOk, init, initStore, decide_eq_true_eq, hp]
  omega

/-! ## The defect that was repaired: without the claim two overlapping activations both succeed -/

def pW : Params := { tc := 500, ta := 1, max := 50, sticky := false }
def thsW : List Thread := [{ kind := .activate, listener := 101, laddr := 1 }, { kind := .activate, listener := 102, laddr := 2 }]
/-- both read, then both go on -/
def evsW : List Ev := [.create, .th 0, .th 1] ++ drain 2

/-- As found (no claim between read and write-back): the overlapping schedule creates two mappings from one code. -/
theorem C06_witness :
    holdsCore pW (thsW.map callOf) (obs (run .asFound pW (init 0 0 thsW) evsW)) = false ∧
    (obs (run .asFound pW (init 0 0 thsW) evsW)).maps.length = 2 := by decide

/-- The same schedule on the repaired code: one mapping. -/
example : (obs (run .repaired pW (init 0 0 thsW) evsW)).maps = [(101, 1, 500, 1)] ∧
    (obs (run .repaired pW (init 0 0 thsW) evsW)).results = [.ok (101, 1, 500, 1) true, .err "conflict"] := by decide

/-- The hypothesis is necessary: a claim that lapses while its holder is stuck before the mapping write lets a second
activation in — two mappings from one code, both calls succeed.  (With a lease of one stall, as if `codeClaimTTL`
were 3 s; with the real lease the same happens after nine stalls in a row, i.e. a call stuck for more than 30 s.) -/
theorem C06_lease_witness :
    holdsCore { pW with lease := 1 } (thsW.map callOf)
      (obs (run .repaired { pW with lease := 1 } (init 0 0 thsW) ([.create, .th 0, .th 0, .th 0, .stall, .th 1, .th 1, .th 1] ++ drain 2))) = false ∧
    leaseOk { pW with lease := 1 } (init 0 0 thsW) ([.create, .th 0, .th 0, .th 0, .stall, .th 1, .th 1, .th 1] ++ drain 2) = false ∧
    holdsCore pW (thsW.map callOf)
      (obs (run .repaired pW (init 0 0 thsW) ([.create, .th 0, .th 0, .th 0, .stall, .th 1, .th 1, .th 1] ++ drain 2))) = true := by decide

/-- the stalled history under the real lease: the second activation is refused while the first is stuck, one mapping -/
example : (obs (run .repaired pW (init 0 0 thsW) ([.create, .th 0, .th 0, .th 0, .stall, .th 1, .stall] ++ drain 2))).results =
    [.ok (101, 1, 500, 1) true, .err "conflict"] ∧
    leaseOk pW (init 0 0 thsW) ([.create, .th 0, .th 0, .th 0, .stall, .th 1, .stall] ++ drain 2) = true := by decide

/-! ## Non-vacuity -/

example : freshThreads thsW = true := by decide
/-- every clause of `holds` is exercised: all calls return, one succeeds (its read is event 1, its re-decision event 3) -/
example : holds pW (thsW.map callOf) evsW (obs (run .repaired pW (init 0 0 thsW) evsW)) = true := by decide
example : stepValid evsW 0 1 3 = true ∧ stepValid evsW 0 2 4 = true := by decide
/-- `holdsValid` is not vacuous: it rejects a success reported for a call that lies entirely after the end of the period -/
example : holdsValid ([.create, .expire] ++ drain 1) { results := [.ok (101, 1, 500, 1) true], maps := [(101, 1, 500, 1)], orec := none } = false := by decide
/-- … and one whose re-decision falls after the end of the period (read at event 2, period over at event 3) -/
example : holdsValid [.create, .th 0, .th 0, .expire, .th 0, .th 0, .th 0, .th 0] { results := [.ok (101, 1, 500, 1) true], maps := [], orec := none } = false := by decide
/-- the model in that schedule: the re-decision refuses, nothing is created -/
example : (obs (run .repaired pW (init 0 0 [{ kind := .activate, listener := 101, laddr := 1 }])
    [.create, .th 0, .th 0, .expire, .th 0, .th 0, .th 0, .th 0])).results = [.err "internal"] := by decide
/-- two overlapping activations, the second writes the code in upper case: it claims its own key, finds nothing -/
example : (obs (run .repaired pW (init 0 0 [{ kind := .activate, listener := 101, laddr := 1 },
      { kind := .activate, listener := 102, laddr := 2, spell := 1 }]) ([.create, .th 0, .th 1, .th 0, .th 1] ++ drain 2))) =
    { results := [.ok (101, 1, 500, 1) true, .err "notfound"], maps := [(101, 1, 500, 1)],
      orec := some ⟨true, false, some 101, some (some (101, 1, 500, 1))⟩ } := by decide
/-- two requests with the same other spelling exclude each other on THEIR claim key -/
example : (obs (run .repaired pW (init 0 0 [{ kind := .activate, listener := 101, laddr := 1, spell := 1 },
      { kind := .activate, listener := 102, laddr := 2, spell := 1 }]) ([.create, .th 0, .th 1] ++ drain 2))).results =
    [.err "notfound", .err "conflict"] := by decide
/-- a poll whose read is answered before the first activation writes back and returned after the second one has
claimed and read: the second activation still sees the record as stored ("used") -/
example : (obs (run .repaired pW (init 0 0 [{ kind := .activate, listener := 101, laddr := 1 },
      { kind := .revoke, listener := 0, laddr := 0, poll := true }, { kind := .activate, listener := 102, laddr := 2 }])
      ([.create, .th 0, .th 0, .th 1, .th 0, .th 0, .th 0, .th 0, .th 2, .th 2, .th 1] ++ drain 3))).results =
    [.ok (101, 1, 500, 1) true, .err "seen:a0r0", .err "conflict"] := by decide
/-- as found, histories in which the calls do not overlap are safe (two examples; the general statement
`C06_seq_partial` is not mechanised, see the note at the end) -/
example : holdsCore pW (thsW.map callOf) (obs (run .asFound pW (init 0 0 thsW) (.create :: drain 2))) = true := by decide
example : holdsCore pW ([{ kind := .revoke, listener := 0, laddr := 0 }, { kind := .activate, listener := 101, laddr := 1 }].map callOf)
    (obs (run .asFound pW (init 0 0 [{ kind := .revoke, listener := 0, laddr := 0 }, { kind := .activate, listener := 101, laddr := 1 }]) (.create :: drain 2))) = true := by decide
/-- expiry before the call: nothing is created -/
example : (obs (run .repaired pW (init 0 0 thsW) ([.create, .expire] ++ drain 2))).maps = [] := by decide
/-- a failed write-back (second write) burns the code but leaves no mapping -/
example : (obs (run .repaired pW (init 0 0 [{ kind := .activate, listener := 101, laddr := 1, fault := .updId }]) (.create :: drain 1))) =
    { results := [.err "storage"], maps := [], orec := some ⟨true, false, some 101, some none⟩ } := by decide
/-- revocation first: the activation is refused -/
example : (obs (run .repaired pW (init 0 0 [{ kind := .revoke, listener := 0, laddr := 0 }, { kind := .activate, listener := 101, laddr := 1 }])
    (.create :: drain 2))).results = [.rok, .err "forbidden"] := by decide

/-!
Not mechanised: `C06_seq_partial` (as found, schedules in which calls do not overlap satisfy `holdsCore`).  The
invariant of `C06_core` rests on the claim (`TInv.claim`: whoever is between read and write-back holds it);
without the claim, mutual exclusion would have to come from the shape of the schedule, which needs a second set
of step lemmas for `tstepMain .asFound` (no claim/release phases, calls end in `done`).  The as-found code no longer
exists in the tree; its failure is `C06_witness`, its sequential safety is shown on the examples above.
-/

end Tunnox.C06
