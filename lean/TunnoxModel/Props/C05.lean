import TunnoxModel.Model.C05
import TunnoxModel.Gen.C05
import TunnoxModel.Proofs.C01
/-!
# C05 — hostile bytes cannot make the reader spin or allocate without bound

Proved here: totality/termination of the decoder on every finite stream
(fuel beyond the stream length changes nothing), the declared-length guard, the
per-packet allocation bound including decompression, chunk independence of the
outcome for arbitrary bytes.  Absence of Go panics is observed by the harness.
-/
namespace Tunnox.C05
open Gen Tunnox.C01

/-- Every successful `parseFlat` consumes at least one byte. -/
theorem parseFlat_progress (c : Codec) (bs : Bytes) (t : Nat) (b r : Bytes)
    (h : parseFlat c bs = (.pkt t b, r)) : r.length < bs.length := by
  cases bs with
  | nil => simp [parseFlat] at h
  | cons tb rest =>
    simp only [parseFlat] at h
    split at h
    · injection h with _ h2; subst h2; simp
    · split at h
      · cases h
      · split at h
        · cases h
        · split at h
          · cases h
          · injection h with _ h2
            subst h2
            simp only [List.length_drop, List.length_cons]
            omega

/-- **Termination / no spin**: once the fuel exceeds the stream length, more fuel
changes nothing — the decoder stops by itself on every finite stream, with a
failure stage, never by running out of fuel. -/
theorem C05_total (c : Codec) (bs : Bytes) (f : Nat) (hf : bs.length < f) (k : Nat) :
    parseAll c (f + k) bs = parseAll c f bs := by
  induction f generalizing bs with
  | zero => omega
  | succ f ih =>
    have : f + 1 + k = (f + k) + 1 := by omega
    rw [this]
    unfold parseAll
    cases hp : parseFlat c bs with
    | mk o r =>
      cases o with
      | fail e => rfl
      | pkt t b =>
        have hl := parseFlat_progress c bs t b r hp
        simp only
        rw [ih r (by omega)]

/-- Same statement for the chunked reader, for any chunking. -/
theorem C05_total_chunked (c : Codec) (s : Src) (hne : s.NonEmptyChunks) (k : Nat) :
    readAll c (s.flat.length + 1 + k) s = readAll c (s.flat.length + 1) s := by
  rw [readAll_flat c _ s hne, readAll_flat c _ s hne]
  exact C05_total c s.flat (s.flat.length + 1) (by omega) k

/-- **Declared-length guard**: a length above the cap is refused before any body
allocation, whatever follows. -/
theorem C05_len_guard (c : Codec) (tb : Byte) (rest : Bytes)
    (hnh : packet.Type.IsHeartbeat tb.toNat = false)
    (h4 : constants.PacketBodySizeBytes ≤ rest.length)
    (hbig : unbe32 (rest.take constants.PacketBodySizeBytes) > constants.MaxPacketBodySize) :
    (parseFlat c (tb :: rest)).1 = .fail .tooLarge ∧
    allocFlat c (tb :: rest) = constants.PacketTypeSize + constants.PacketBodySizeBytes := by
  have h4' : ¬ rest.length < constants.PacketBodySizeBytes := Nat.not_lt.mpr h4
  simp [parseFlat, allocFlat, hnh, h4', hbig]

theorem inflateOut_le (c : Codec) (t : Nat) (body : Bytes) :
    inflateOut c t body ≤ constants.MaxPacketBodySize + 1 := by
  unfold inflateOut
  split
  · omega
  · split
    · split
      · omega
      · exact Nat.min_le_right _ _
    · omega

/-- **Allocation bound** for every byte string, including after decompression. -/
theorem C05_alloc (c : Codec) (bs : Bytes) : allocFlat c bs ≤ allocBound := by
  unfold allocFlat allocBound
  cases bs with
  | nil => simp [constants.PacketTypeSize]
  | cons tb rest =>
    simp only
    split
    · simp [constants.PacketTypeSize]
    · split
      · simp [constants.PacketTypeSize, constants.PacketBodySizeBytes]
      · split
        · simp [constants.PacketTypeSize, constants.PacketBodySizeBytes]
        · rename_i hn
          have hn' := Nat.le_of_not_gt hn
          have hio := inflateOut_le c tb.toNat
            (List.take (unbe32 (List.take constants.PacketBodySizeBytes rest)) (List.drop constants.PacketBodySizeBytes rest))
          generalize inflateOut c tb.toNat _ = io at hio
          generalize unbe32 (List.take constants.PacketBodySizeBytes rest) = n at *
          simp only [constants.PacketTypeSize, constants.PacketBodySizeBytes] at *
          by_cases hl : (List.drop 4 rest).length < n
          · simp only [hl, if_true]; omega
          · simp only [hl, if_false]; omega

/-- A decompressed body handed to the caller never exceeds the cap. -/
theorem C05_inflate_capped (c : Codec) (b o : Bytes) (h : decompress c b = some o) :
    o.length ≤ constants.MaxPacketBodySize := by
  unfold decompress at h
  split at h
  · cases h
  · split at h
    · injection h with h; subst h; assumption
    · cases h

/-- The outcome for arbitrary (hostile) bytes does not depend on the chunking. -/
theorem C05_chunk_indep (c : Codec) (f : Nat) (s₁ s₂ : Src)
    (h₁ : s₁.NonEmptyChunks) (h₂ : s₂.NonEmptyChunks) (hflat : s₁.flat = s₂.flat) :
    readAll c f s₁ = readAll c f s₂ := by
  rw [readAll_flat c f s₁ h₁, readAll_flat c f s₂ h₂, hflat]

/-! ### The session dispatcher (`SessionManager.HandlePacket`) as a total routing table

`Gen.HandlePacket_route` is the tag-less `switch` of `HandlePacket`, translated from the Go source on
every run.  For every one of the 256 type bytes it names exactly one of the four handlers or the
`default` branch (which returns the "unhandled packet type" error): there is no type byte for which the
dispatcher falls through without a result, whatever flag bits are set. -/

theorem C05_dispatch_total : ∀ t, t < 256 →
    Gen.HandlePacket_route t ∈
      ["handleCommandPacket", "handleHandshake", "handleTunnelOpen", "handleHeartbeat", "default"] := by
  decide +kernel

/-- The routing ignores the compression/encryption flag bits and depends on the base type only. -/
theorem C05_dispatch_ignores_flags : ∀ t, t < 256 →
    Gen.HandlePacket_route t = Gen.HandlePacket_route (t % 64) := by
  decide +kernel

/-- Exactly the five dispatched base types are handled; every other one is refused by `default`. -/
theorem C05_dispatch_table : ∀ t, t < 64 →
    (Gen.HandlePacket_route t = "default") =
      !(t == packet.Handshake || t == packet.Heartbeat || t == packet.JsonCommand ||
        t == packet.CommandResp || t == packet.TunnelOpen) := by
  decide +kernel

/-! Non-vacuity: a hostile length field, as a concrete evaluation of the model. -/
example : (parseFlat ⟨id, fun _ => none, some⟩ [0x22, 0xFF, 0xFF, 0xFF, 0xFF, 1, 2]).1 = .fail .tooLarge := by
  decide

/-- **The read loop ends on every finite stream**: once the fuel exceeds the stream length more fuel
changes nothing — whatever the dispatcher answers — and the loop dispatches at most one packet per
byte of the stream. -/
theorem C05_loop_terminates (c : Codec) (disp : Nat → Bytes → Bool) (bs : Bytes) (f : Nat) (hf : bs.length < f) (k : Nat) :
    loopRun c disp (f + k) bs = loopRun c disp f bs ∧ loopRun c disp f bs ≤ bs.length := by
  induction f generalizing bs with
  | zero => omega
  | succ f ih =>
    rw [show f + 1 + k = (f + k) + 1 by omega]
    unfold loopRun
    cases h : parseFlat c bs with
    | mk out r =>
      cases out with
      | fail e => simp
      | pkt t b =>
        have hp := parseFlat_progress c bs t b r h
        simp only
        split
        · obtain ⟨h1, h2⟩ := ih r (by omega)
          refine ⟨by rw [h1], by omega⟩
        · exact ⟨rfl, by omega⟩

/-- The model's observation of the loop satisfies the predicate applied to the real loop. -/
theorem C05_loop_main (c : Codec) (disp : Nat → Bytes → Bool) (bs : Bytes) :
    holdsLoop bs ⟨loopRun c disp (bs.length + 1) bs, true, true, 0⟩ = true := by
  have h := (C05_loop_terminates c disp bs (bs.length + 1) (by omega) 0).2
  simp [holdsLoop, h]

/-- T2 tie: the decisions of the loop and of its read step, in source order. -/
theorem cond_connectionReadLoop :
    Gen.Cond.connectionReadLoop = ["b.checkAndHandleStreamMode(state)", "shouldReturn", "shouldContinue",
      "b.handlePacketAndCheckModeSwitch(state, pkt)"] := by decide
theorem cond_readPacketWithTimeout :
    Gen.Cond.readPacketWithTimeout = ["err != nil", "b.isTimeoutError(err)", "err != io.EOF"] := by decide
theorem skel_handleConnection :
    Gen.Skel.handleConnection = ["defer b.cleanupConnection", "b.initializeConnection", "b.connectionReadLoop"] := by decide

end Tunnox.C05
