import TunnoxModel.Proofs.C17Mutex
import TunnoxModel.Proofs.C17Evict
import TunnoxModel.Proofs.C17Slot
import TunnoxModel.Proofs.C17Ctr
/-!
# C17 — configured limits and quotas hold under concurrency

All theorems are about `Tunnox.C17.run`, the executable model the driver runs, and use `holds`, the
predicate the runner applies to the implementation's observations: the occupancy reported after
EVERY step of EVERY thread is the reference occupancy and within the cap, every admission adds one
fresh item, a refused request changes nothing, the items at the end are the reference items.

Quantification: every limit (0, 1, n; `zeroUnl` says whether 0 means unlimited), every initial
occupancy within the cap (so in particular `limit-1` and `limit`), any number of threads (`progs` is
any list), any programs of admissions and releases, any schedule `σ` of atomic steps, any number of
storage operations between read, check and final step (`cnt`, `mid` are arbitrary).
-/
namespace Tunnox.C17
open Gen

/-! ## Protocols whose last step decides inside one critical section / one atomic instruction -/

/-- **C17, atomic decision.** If the final step of the admission protocol is a check-and-insert in
one critical section (`check`), an evict-oldest-and-insert in one critical section (`evict`), or a
compare-and-swap on the value that passed the check (`cas`) — whatever unguarded early check,
whatever storage operations and whatever mutex come before it —, then for every limit, every initial
occupancy within the cap, any number of concurrent requests and releases and every interleaving of
their atomic steps: the cap holds after every step and a refused request changes nothing. -/
theorem C17_main_atomic (P : Proto) (limit pre : Nat) (progs : List (Nat × List Op)) (σ : List Nat)
    (hfin : P.final ≠ .plain) (hcas : P.final = .cas → P.early = true) (hfu : P.fused = false)
    (hpre : capOk P.zeroUnl limit pre = true) (hsw : P.staleWrite = false := by rfl) :
    holds P.zeroUnl limit pre (run P limit (init pre progs) σ).trace (run P limit (init pre progs) σ).occ = true :=
  holds_of_base (invA_run hfin hcas hfu hsw σ _ (invA_init P limit pre progs hpre)).base

/-- Server-wide connection cap: `SessionManager.CreateConnection` as repaired (early check under
`RLock`, `GetConnectionID()` in between, re-check and insert under `Lock`). -/
theorem C17_conn (limit pre : Nat) (progs : List (Nat × List Op)) (σ : List Nat)
    (hpre : capOk true limit pre = true) :
    holds true limit pre (run protoConn limit (init pre progs) σ).trace (run protoConn limit (init pre progs) σ).occ = true :=
  C17_main_atomic protoConn limit pre progs σ (by decide) (by decide) rfl hpre

/-- Control-connection cap: `ClientRegistry.Register` (evict the oldest at the cap, one lock). -/
theorem C17_ctrl (limit pre : Nat) (progs : List (Nat × List Op)) (σ : List Nat)
    (hpre : capOk true limit pre = true) :
    holds true limit pre (run protoCtrl limit (init pre progs) σ).trace (run protoCtrl limit (init pre progs) σ).occ = true :=
  C17_main_atomic protoCtrl limit pre progs σ (by decide) (by decide) rfl hpre

/-- Tunnel registry capacity: `TunnelRegistry.Register` (check and insert under one lock). -/
theorem C17_tun (limit pre : Nat) (progs : List (Nat × List Op)) (σ : List Nat)
    (hpre : capOk true limit pre = true) :
    holds true limit pre (run protoTun limit (init pre progs) σ).trace (run protoTun limit (init pre progs) σ).occ = true :=
  C17_main_atomic protoTun limit pre progs σ (by decide) (by decide) rfl hpre

/-- Per-mapping concurrent-connection limit at atomic-instruction granularity:
`acquireConnectionSlot` = `Load`, check, `CompareAndSwap(cur, cur+1)`, retry — any interleaving of the
loads and compare-and-swaps of any number of handlers (and of the releases by closing tunnels). -/
theorem C17_mapCas (limit pre : Nat) (progs : List (Nat × List Op)) (σ : List Nat)
    (hpre : capOk true limit pre = true) :
    holds true limit pre (run protoMapCas limit (init pre progs) σ).trace (run protoMapCas limit (init pre progs) σ).occ = true :=
  C17_main_atomic protoMapCas limit pre progs σ (by decide) (by decide) rfl hpre

/-- The same limit as the harness can schedule it (no stop between `Load` and `CompareAndSwap`). -/
theorem C17_map (limit pre : Nat) (progs : List (Nat × List Op)) (σ : List Nat)
    (hpre : capOk true limit pre = true) :
    holds true limit pre (run protoMap limit (init pre progs) σ).trace (run protoMap limit (init pre progs) σ).occ = true :=
  C17_main_atomic protoMap limit pre progs σ (by decide) (by decide) rfl hpre

/-! ## Count-then-create inside one mutex (per-client quotas) -/

/-- **C17, quotas, one service instance.** Serialisation hypothesis (this is ALL the proof uses about
the locking): every quota-checked creation of the instance runs `Lock(); count; check; create; Unlock()`
on ONE mutex of the service instance (`mutex`, `early`, plain insert; pinned to the source by
`skel_CreateConnectionCode` / `skel_ActivateConnectionCode`: a single `codeQuotaMu` / `mappingQuotaMu`
field locked before the count, unlocked by `defer`), and `sync.Mutex` excludes.  `Lock()` on a held
mutex queues the request (`PC.waiting`); `Unlock()` hands the mutex to the first waiter (the order only
decides WHICH waiter the model advances; the invariant does not depend on it).  Then for any number of
concurrent requests to that ONE instance `I` — of this client (`acquire`) and of other clients (`other`,
same mutex, not counted) —, any number of storage operations inside the critical section and every
interleaving at storage-operation granularity (including releases that do not take the mutex, and
revocations through the service — `Op.revoke failAt`: five storage calls outside the mutex, the code
unusable BEFORE its slot is free, ANY one of the calls failing): the quota — the number of codes that are
counted or can be activated — holds after every step and a refused request changes nothing.  A scheme with one mutex per
client whose map entry is dropped before `Unlock` is NOT an instance of this protocol (three requests:
holder, waiter, newcomer on a fresh mutex) — such a change breaks the skeleton pins and is found by the
N >= 3 racer schedules of the harness. -/
theorem C17_main_mutex (P : Proto) (limit pre I : Nat) (progs : List (List Op)) (σ : List Nat)
    (hm : P.mutex = true) (he : P.early = true) (hf : P.final = .plain) (hfu : P.fused = false)
    (hpre : capOk P.zeroUnl limit pre = true) (hsw : P.staleWrite = false := by rfl) :
    holds P.zeroUnl limit pre (run P limit (init pre (progs.map (fun p => (I, p)))) σ).trace
      (run P limit (init pre (progs.map (fun p => (I, p)))) σ).occ = true :=
  holds_of_base (invB_run hm he hf hfu hsw σ _ (invB_init P limit pre I progs hpre)).base

/-- Quota on active connection codes: `CreateConnectionCode` (`codeQuotaMu`; `GetList`, n × `GetByID`,
check, `GetByCode`, `Set`, `Set`, `AppendToList`). -/
theorem C17_code (limit pre I : Nat) (progs : List (List Op)) (σ : List Nat) (hpre : capOk false limit pre = true) :
    holds false limit pre (run protoCode limit (init pre (progs.map (fun p => (I, p)))) σ).trace
      (run protoCode limit (init pre (progs.map (fun p => (I, p)))) σ).occ = true :=
  C17_main_mutex protoCode limit pre I progs σ rfl rfl rfl rfl hpre

/-- The same with `d` entries in the client's index that are not active (revoked / used codes): every
count reads them too and does not count them.  (The count of `code` is a scan: one record read per
index entry, each counted iff active at the moment it is read — a revocation may land between the index
read and the record read.) -/
theorem C17_code_dead (d limit pre I : Nat) (progs : List (List Op)) (σ : List Nat) (hpre : capOk false limit pre = true) :
    holds false limit pre (run protoCode limit (initDead d pre (progs.map (fun p => (I, p)))) σ).trace
      (run protoCode limit (initDead d pre (progs.map (fun p => (I, p)))) σ).occ = true :=
  holds_of_base (invB_run rfl rfl rfl rfl rfl σ _ (invB_initDead protoCode limit d pre I progs hpre)).base

/-- Quota on active mappings: `ActivateConnectionCode` (`mappingQuotaMu`; `GetClientPortMappings` +
count + check, `CreatePortMapping`). -/
theorem C17_mapq (limit pre I : Nat) (progs : List (List Op)) (σ : List Nat) (hpre : capOk false limit pre = true) :
    holds false limit pre (run protoMapq limit (init pre (progs.map (fun p => (I, p)))) σ).trace
      (run protoMapq limit (init pre (progs.map (fun p => (I, p)))) σ).occ = true :=
  C17_main_mutex protoMapq limit pre I progs σ rfl rfl rfl rfl hpre

/-! ## Read-modify-write requests on the record of an admitted item (usage update, revocation) -/

/-- **Usage update × revocation × activation at the quota** — PARTIAL.  `RecordMappingUsage` and
`RevokeMapping` read-modify-write the whole record of a mapping; both take the record lock BEFORE the read
(pins `skel_RecordMappingUsage`, `skel_RevokeMapping`), so the copy written back is current and a usage
update cannot resurrect a revoked mapping.  `C17_main_mutex` covers programs containing `Op.touch` /
`Op.mrevoke` for every interleaving (the steps are in `stepThread`), but with ALL requests serialised on ONE
mutex `I`; the driver runs them with the record lock as a SECOND mutex (their threads carry another `inst`).
Full statement still to be proved: `∀ progs with quota requests on mutex I and record requests on mutex J ≠ I,
∀ σ, holds …` (needs the exclusion invariant per mutex).  What is proved about two mutexes is the pair of
examples below and the witness for the read-before-lock variant. -/
theorem C17_rmw_partial (limit pre I : Nat) (progs : List (List Op)) (σ : List Nat) (hpre : capOk false limit pre = true) :
    holds false limit pre (run protoMapq limit (init pre (progs.map (fun p => (I, p)))) σ).trace
      (run protoMapq limit (init pre (progs.map (fun p => (I, p)))) σ).occ = true :=
  C17_main_mutex protoMapq limit pre I progs σ rfl rfl rfl rfl hpre

/-- **Read before the record lock (seeded regression `recordusage-read-outside-mapping-lock`).** Quota 2,
two active mappings.  The usage update of mapping 0 reads it (active); the revocation of mapping 0
completes; an activation counts 1 and creates a mapping; the usage update writes its stale copy back:
three active mappings. -/
theorem C17_rmw_stale_witness :
    holds false 2 2 (run { protoMapq with staleWrite := true } 2
        (init 2 [(7, [.touch]), (7, [.mrevoke]), (0, [.acquire])]) [0, 1, 1, 2, 2, 2, 0]).trace
      (run { protoMapq with staleWrite := true } 2
        (init 2 [(7, [.touch]), (7, [.mrevoke]), (0, [.acquire])]) [0, 1, 1, 2, 2, 2, 0]).occ = false := by decide

/-- The same schedule on the code as it is (two mutexes: quota mutex 0, record lock 7): the revocation
waits for the usage update, the activation is refused at the quota, then the revocation goes through. -/
example :
    (run protoMapq 2 (init 2 [(7, [.touch]), (7, [.mrevoke]), (0, [.acquire])]) [0, 1, 1, 2, 2, 2, 0, 1, 1]).trace
      = [.stp 0 2, .blk 1 2, .blk 1 2, .stp 2 2, .ref 2 false 2, .stp 0 2, .stp 1 2, .rel 1 0 1] := by decide

/-- Revocation first, then an activation takes the free slot; the usage update changes nothing. -/
example :
    (run protoMapq 2 (init 2 [(7, [.touch]), (7, [.mrevoke]), (0, [.acquire])]) [1, 1, 2, 2, 2, 0, 0]).trace
      = [.stp 1 2, .rel 1 0 1, .stp 2 1, .stp 2 1, .adm 2 2 none 2, .stp 0 2, .stp 0 2] := by decide

/-- Both requests take the record lock first, then read, then write. -/
theorem skel_RecordMappingUsage : Gen.Skel.L17_RecordMappingUsage =
    ["repos.LockPortMapping", "portMappingService.GetPortMapping", "portMappingService.UpdatePortMapping"] := by decide
theorem skel_RevokeMapping : Gen.Skel.L17_RevokeMapping =
    ["repos.LockPortMapping", "portMappingService.GetPortMapping", "mapping.Revoke", "portMappingService.UpdatePortMapping"] := by
  decide

/-! ## Evict-oldest with the evicting thread parked inside the victim's `Close()` -/

/-- **C17, control cap, `Close()` of the victim as a gate.** `ClientRegistry.Register` takes the
registry lock, and at the cap picks the oldest connection, closes its stream and inserts — all in
ONE critical section (`sections ≤ 1`; pinned by `lock_sections_ClientRegister`).  The thread may be
stopped inside `Close()` for as long as the adversary likes: every other registration queues up in
`Lock()` and is handed the lock in arrival order.  For every cap (0 = unlimited), every initial
occupancy within it, any number of threads each issuing any number of registrations to the registry
`I` and every interleaving: the cap holds after every step.  (Programs of registrations only: a
removal takes the same lock and cannot land inside the section either.) -/
theorem C17_ctrlX (P : Proto) (limit pre I : Nat) (ns : List Nat) (σ : List Nat)
    (hm : P.mutex = true) (hfu : P.fused = true) (hs : P.sections ≤ 1) (hpre : capOk P.zeroUnl limit pre = true) :
    holds P.zeroUnl limit pre
      (run P limit (init pre (ns.map (fun n => (I, List.replicate n Op.acquire)))) σ).trace
      (run P limit (init pre (ns.map (fun n => (I, List.replicate n Op.acquire)))) σ).occ = true :=
  holds_of_base (invC_run hm hfu hs σ _ (invC_init P limit pre I ns hpre)).base

/-- **Two critical sections (seeded regression `register-evict-then-insert-two-sections`).** Check and
eviction in one critical section, `Close()` outside the lock, insert in a second critical section
without a re-check: at the cap, B registers while A is inside `Close()` of its victim — B sees
`cap-1`, inserts; A inserts too. -/
theorem C17_ctrl_twoSections_witness :
    holds true 1 1 (run protoCtrlX2 1 (init 1 [(0, [.acquire]), (0, [.acquire])]) [0, 1, 0]).trace
      (run protoCtrlX2 1 (init 1 [(0, [.acquire]), (0, [.acquire])]) [0, 1, 0]).occ = false := by decide

/-- The same schedule on the one-section protocol: B queues up behind A and evicts A's connection afterwards. -/
example :
    (run protoCtrlX 1 (init 1 [(0, [.acquire]), (0, [.acquire])]) [0, 1, 0, 1, 1]).trace
      = [.stp 0 1, .blk 1 1, .adm 0 1 (some 0) 1, .stp 1 1, .adm 1 2 (some 1) 1] := by decide

/-! ## What `holds` means -/

theorem good_of_step (zu : Bool) (limit : Nat) (s : SpecSt) (e : Ev) (h : (specStep zu limit s e).good = true) :
    s.good = true ∧ capOk zu limit (evOcc e) = true := by
  cases e with
  | stp t n => simp only [specStep, Bool.and_eq_true] at h; exact ⟨h.1.1, h.2⟩
  | blk t n => simp only [specStep, Bool.and_eq_true] at h; exact ⟨h.1.1, h.2⟩
  | nop t n => simp only [specStep, Bool.and_eq_true] at h; exact ⟨h.1.1, h.2⟩
  | ref t d n => simp only [specStep, Bool.and_eq_true] at h; exact ⟨h.1.1.1, h.2⟩
  | rel t i n => simp only [specStep, Bool.and_eq_true] at h; exact ⟨h.1.1.1, h.2⟩
  | evi t i n => simp only [specStep, Bool.and_eq_true] at h; exact ⟨h.1.1.1, h.2⟩
  | adm t i v n =>
    cases v with
    | none => simp only [specStep, Bool.and_eq_true] at h; exact ⟨h.1.1.1, h.2⟩
    | some v => simp only [specStep, Bool.and_eq_true] at h; exact ⟨h.1.1.1.1, h.2⟩

theorem good_of_foldl (zu : Bool) (limit : Nat) (tr : List Ev) (s : SpecSt)
    (h : (tr.foldl (specStep zu limit) s).good = true) :
    s.good = true ∧ ∀ e ∈ tr, capOk zu limit (evOcc e) = true := by
  induction tr generalizing s with
  | nil => exact ⟨h, by intro e he; cases he⟩
  | cons e r ih =>
    have h1 := ih (specStep zu limit s e) h
    have h2 := good_of_step zu limit s e h1.1
    refine ⟨h2.1, ?_⟩
    intro e' he'
    rcases List.mem_cons.mp he' with rfl | hm
    · exact h2.2
    · exact h1.2 e' hm

/-- **The cap at every instant, read off the predicate.** In a history accepted by `holds` every
occupancy reported after any step of any thread is within the limit. -/
theorem C17_cap_of_holds (zu : Bool) (limit pre : Nat) (tr : List Ev) (fin : List Nat)
    (h : holds zu limit pre tr fin = true) : ∀ e ∈ tr, capOk zu limit (evOcc e) = true := by
  unfold holds at h
  rw [Bool.and_eq_true] at h
  exact (good_of_foldl zu limit tr _ h.1).2

/-- **A refused request changes no state, read off the predicate.** In a history accepted by `holds`
a refusal reports no state change (`dirty = false`) and the occupancy right after it is the one the
reference had right before it. -/
theorem C17_refusal_of_holds (zu : Bool) (limit pre : Nat) (before after : List Ev) (t n : Nat) (d : Bool)
    (fin : List Nat) (h : holds zu limit pre (before ++ [.ref t d n] ++ after) fin = true) :
    d = false ∧ n = (replay zu limit pre before).occ.length := by
  unfold holds replay at h
  rw [Bool.and_eq_true] at h
  have hg := h.1
  simp only [List.foldl_append, List.foldl_cons, List.foldl_nil] at hg
  have h1 := (good_of_foldl zu limit after _ hg).1
  simp only [specStep, Bool.and_eq_true, Bool.not_eq_true', beq_iff_eq] at h1
  exact ⟨h1.1.1.2, by simpa [replay] using h1.1.2⟩

/-- In the model a refusal touches neither the occupancy nor the item counter. -/
theorem C17_refuse_stateless (P : Proto) (c : Cfg) (tid : Nat) :
    (refuseCfg P c tid).occ = c.occ ∧ (refuseCfg P c tid).next = c.next :=
  ⟨unlockCfg_occ P _ _, unlockCfg_next P _ _⟩

/-! ## Defects: the protocols as found, and what remains -/

/-- **`CreateConnection` as found** (check under `RLock`, insert later under `Lock`; repaired by
`fix:` 9716570): two admissions at `limit-1` both pass the check, both insert. -/
theorem C17_conn_asFound_witness :
    holds true 1 0 (run protoConnAsFound 1 (init 0 [(0, [.acquire]), (0, [.acquire])]) [0, 1, 0, 1]).trace
      (run protoConnAsFound 1 (init 0 [(0, [.acquire]), (0, [.acquire])]) [0, 1, 0, 1]).occ = false := by decide

/-- **Mapping handler as found** (`Load`, check, separate `Add`; repaired by `fix:` 7ca17f3). -/
theorem C17_map_asFound_witness :
    holds true 2 1 (run protoMapAsFound 2 (init 1 [(0, [.acquire]), (0, [.acquire])]) [0, 1, 0, 1]).trace
      (run protoMapAsFound 2 (init 1 [(0, [.acquire]), (0, [.acquire])]) [0, 1, 0, 1]).occ = false := by decide

/-- **Quotas as found** (count-then-create without mutual exclusion; repaired for one service
instance by `fix:` 9698a65). -/
theorem C17_code_asFound_witness :
    holds false 1 0 (run protoCodeAsFound 1 (init 0 [(0, [.acquire]), (0, [.acquire])]) [0, 1, 0, 1, 0, 1, 0, 1, 0, 1]).trace
      (run protoCodeAsFound 1 (init 0 [(0, [.acquire]), (0, [.acquire])]) [0, 1, 0, 1, 0, 1, 0, 1, 0, 1]).occ = false := by decide

/-- **Two service instances on one store (known finding `quota-multi-node`).** The mutex is per
process: two nodes sharing the store each hold only their own, both count `limit-1`, both create. -/
theorem C17_quota_two_instances_witness :
    holds false 1 0 (run protoMapq 1 (init 0 [(0, [.acquire]), (1, [.acquire])]) [0, 1, 0, 1, 0, 1]).trace
      (run protoMapq 1 (init 0 [(0, [.acquire]), (1, [.acquire])]) [0, 1, 0, 1, 0, 1]).occ = false := by decide

/-! ## Ties to the source (T1 / T2): a change of these breaks a proof and forces a re-check -/

/-- The defaults are positive bounds and the default constructors use the named constants. -/
theorem C17_defaults_ok :
    0 < lim_session.DefaultMaxControlConnections ∧ lim_session.DefaultMaxControlConnections ≤ lim_session.DefaultMaxConnections ∧
    lim_sessioncfg.MaxConnections = lim_session.DefaultMaxConnections ∧
    lim_sessioncfg.MaxControlConnections = lim_session.DefaultMaxControlConnections ∧
    0 < lim_conncode.MaxActiveCodesPerClient ∧ 0 < lim_conncode.MaxActiveMappingsPerClient := by decide

/-- `CreateConnection`: early check under `RLock` (`> 0 &&`, `>=`), the injectable
`GetConnectionID()`, then re-check and insert in ONE `Lock` section; a refusal there removes the
stream and releases the generated id (refused ⇒ no state left behind). -/
theorem flow_CreateConnection : Gen.Flow.L17_CreateConnection = [
  "if s.config != nil && s.config.MaxConnections > 0",
  "s.connLock.RLock()",
  "currentCount := len(s.connMap)",
  "s.connLock.RUnlock()",
  "if currentCount >= s.config.MaxConnections",
  "return nil, coreerrors.Newf(coreerrors.CodeQuotaExceeded, \"connection limit reached: %d/%d\", currentCount, s.config.MaxConnections)",
  "end",
  "end",
  "var connID string",
  "var err error",
  "if connIDProvider, ok := reader.(interface{ GetConnectionID() string }); ok",
  "connID = connIDProvider.GetConnectionID()",
  "else",
  "if connIDProvider, ok := writer.(interface{ GetConnectionID() string }); ok",
  "connID = connIDProvider.GetConnectionID()",
  "end",
  "end",
  "generatedID := false",
  "if connID == \"\"",
  "connID, err = s.idManager.GenerateConnectionID()",
  "if err != nil",
  "return nil, coreerrors.Wrap(err, coreerrors.CodeInternal, \"failed to generate connection ID\")",
  "end",
  "generatedID = true",
  "end",
  "var rawConn net.Conn",
  "if nc, ok := reader.(net.Conn); ok",
  "rawConn = nc",
  "else",
  "if nc, ok := writer.(net.Conn); ok",
  "rawConn = nc",
  "end",
  "end",
  "streamProcessor, err := s.streamMgr.CreateStream(connID, reader, writer)",
  "if err != nil",
  "return nil, coreerrors.Wrap(err, coreerrors.CodeInternal, \"failed to create stream\")",
  "end",
  "conn := &types.Connection{ ID: connID, State: types.StateInitializing, Stream: streamProcessor, RawConn: rawConn, CreatedAt: time.Now(), UpdatedAt: time.Now(), LastHeartbeat: time.Now(), }",
  "s.connLock.Lock()",
  "if s.config != nil && s.config.MaxConnections > 0 && len(s.connMap) >= s.config.MaxConnections",
  "currentCount := len(s.connMap)",
  "s.connLock.Unlock()",
  "_ = s.streamMgr.RemoveStream(connID)",
  "if generatedID",
  "_ = s.idManager.ReleaseConnectionID(connID)",
  "end",
  "return nil, coreerrors.Newf(coreerrors.CodeQuotaExceeded, \"connection limit reached: %d/%d\", currentCount, s.config.MaxConnections)",
  "end",
  "s.connMap[connID] = conn",
  "s.connLock.Unlock()",
  "return conn, nil"
] := by decide +kernel

/-- `ClientRegistry.Register`: lock first; `> 0 &&`, `>=`; evict the oldest, else refuse; insert. -/
theorem flow_ClientRegister : Gen.Flow.L17_ClientRegister = [
  "if conn == nil",
  "return fmt.Errorf(\"connection cannot be nil\")",
  "end",
  "if conn.ConnID == \"\"",
  "return fmt.Errorf(\"connection ID cannot be empty\")",
  "end",
  "r.mu.Lock()",
  "defer r.mu.Unlock()",
  "if r.maxConnections > 0 && len(r.connMap) >= r.maxConnections",
  "oldestConn := r.findOldestConnectionLocked()",
  "if oldestConn != nil",
  "r.logger.Warnf(\"ClientRegistry: connection limit reached (%d/%d), removing oldest connection %s\", len(r.connMap), r.maxConnections, oldestConn.ConnID)",
  "r.removeConnectionLocked(oldestConn)",
  "else",
  "return fmt.Errorf(\"connection limit reached: %d/%d\", len(r.connMap), r.maxConnections)",
  "end",
  "end",
  "if existing, exists := r.connMap[conn.ConnID]; exists",
  "r.logger.Warnf(\"ClientRegistry: connection %s already exists, replacing\", conn.ConnID)",
  "r.removeConnectionLocked(existing)",
  "end",
  "r.connMap[conn.ConnID] = conn",
  "if conn.Authenticated && conn.ClientID > 0",
  "r.clientIDMap[conn.ClientID] = conn",
  "end",
  "r.logger.Debugf(\"ClientRegistry: registered connection %s (clientID=%d, authenticated=%v)\", conn.ConnID, conn.ClientID, conn.Authenticated)",
  "return nil"
] := by decide +kernel

/-- ONE critical section around check + evict + insert: the registry lock is taken once, released
once (by `defer`), and the eviction (`removeConnectionLocked`, which closes the victim's stream) and
the insert both sit after the `Lock` — the number of `mu.Lock … mu.Unlock` pairs is 1. -/
theorem lock_sections_ClientRegister :
    (Gen.Flow.L17_ClientRegister.filter (· == "r.mu.Lock()")).length = 1 ∧
    (Gen.Flow.L17_ClientRegister.filter (· == "defer r.mu.Unlock()")).length = 1 ∧
    (Gen.Flow.L17_ClientRegister.filter (· == "r.mu.Unlock()")).length = 0 ∧
    protoCtrlX.sections = (Gen.Flow.L17_ClientRegister.filter (· == "r.mu.Lock()")).length := by decide +kernel

theorem flow_findOldest : Gen.Flow.L17_findOldest = [
  "var oldestConn *ControlConnection",
  "var oldestTime time.Time",
  "for _, conn := range r.connMap",
  "if oldestConn == nil || conn.CreatedAt.Before(oldestTime)",
  "oldestConn = conn",
  "oldestTime = conn.CreatedAt",
  "end",
  "end",
  "return oldestConn"
] := by decide +kernel

/-- `TunnelRegistry.Register`: lock first; `> 0 &&`, `>=`; refuse; insert. -/
theorem flow_TunnelRegister : Gen.Flow.L17_TunnelRegister = [
  "if conn == nil",
  "return coreerrors.New(coreerrors.CodeInvalidParam, \"connection cannot be nil\")",
  "end",
  "if conn.ConnID == \"\"",
  "return coreerrors.New(coreerrors.CodeInvalidParam, \"connection ID cannot be empty\")",
  "end",
  "r.mu.Lock()",
  "defer r.mu.Unlock()",
  "if r.maxTunnels > 0 && len(r.connMap) >= r.maxTunnels",
  "r.logger.Warnf(\"TunnelRegistry: capacity limit reached (max=%d, current=%d)\", r.maxTunnels, len(r.connMap))",
  "return coreerrors.Newf(coreerrors.CodeResourceExhausted, \"tunnel registry capacity limit reached: max %d tunnels\", r.maxTunnels)",
  "end",
  "r.connMap[conn.ConnID] = conn",
  "if conn.TunnelID != \"\"",
  "r.tunnelMap[conn.TunnelID] = conn",
  "end",
  "r.logger.Debugf(\"TunnelRegistry: registered connection %s (tunnelID=%s, mappingID=%s)\", conn.ConnID, conn.TunnelID, conn.MappingID)",
  "return nil"
] := by decide +kernel

/-- `acquireConnectionSlot`: `Load`; `> 0 &&`, `>=`; `CompareAndSwap(current, current+1)`; loop. -/
theorem flow_acquireConnectionSlot : Gen.Flow.L17_acquireConnectionSlot = [
  "maxConn := h.connectionLimit()",
  "for",
  "current := h.activeConnCount.Load()",
  "if maxConn > 0 && int(current) >= maxConn",
  "return coreerrors.Newf(coreerrors.CodeResourceExhausted, \"max connections reached: %d/%d\", current, maxConn)",
  "end",
  "if h.activeConnCount.CompareAndSwap(current, current+1)",
  "return nil",
  "end",
  "end"
] := by decide +kernel

theorem flow_releaseConnectionSlot : Gen.Flow.L17_releaseConnectionSlot = ["h.activeConnCount.Add(-1)"] := by decide

theorem flow_connectionLimit : Gen.Flow.L17_connectionLimit = [
  "maxConn := h.config.MaxConnections",
  "if maxConn <= 0",
  "quota, err := h.client.GetUserQuota()",
  "if err != nil",
  "return 0",
  "end",
  "maxConn = quota.MaxConnections",
  "end",
  "if maxConn < 0",
  "return 0",
  "end",
  "return maxConn"
] := by decide +kernel

/-- `handleConnection`: the slot is claimed first, released through ONE `sync.OnceFunc` either by
the deferred clean-up (only while `slotOwnedByTunnel` is false) or by the tunnel's `OnClosed`; the
ownership flag is set only after `tun.Start()`.  No bare `activeConnCount.Add` is left. -/
theorem skel_handleConnection : Gen.Skel.L17_handleConnection =
    ["acquireConnectionSlot", "sync.OnceFunc", "@h.releaseConnectionSlot", "@slotOwnedByTunnel", "@slotOwnedByTunnel",
     "releaseSlot", "adapter.PrepareConnection", "client.CheckMappingQuota", "client.DialTunnel", "tunnel.NewTunnel",
     "releaseSlot", "tunnelManager.RegisterTunnel", "tun.Start", "@slotOwnedByTunnel"] := by decide

/-- The control cap of the session configuration is the registry's cap. -/
theorem skel_NewSessionManager :
    Gen.Skel.L17_NewSessionManager = ["NewClientRegistry", "@config.MaxControlConnections", "NewTunnelRegistry"] := by decide
theorem skel_RegisterControlConnection : Gen.Skel.L17_RegisterControlConnection = ["clientRegistry.Register"] := by decide
theorem skel_CloseConnection :
    Gen.Skel.L17_CloseConnection = ["connLock.Lock", "delete", "connLock.Unlock", "RemoveControlConnection", "RemoveTunnelConnection"] := by
  decide

/-- `CreateConnectionCode`: lock, (deferred unlock), count, compare with the quota, create. -/
theorem skel_CreateConnectionCode : Gen.Skel.L17_CreateConnectionCode =
    ["codeQuotaMu.Lock", "defer codeQuotaMu.Unlock", "connCodeRepo.CountActiveByTargetClient", "@s.maxActiveCodesPerClient",
     "@s.maxActiveCodesPerClient", "generator.GenerateUnique", "connCodeRepo.GetByCode", "generateID", "connCodeRepo.Create"] := by
  decide

/-- `ActivateConnectionCode`: lock, (deferred unlock), list, compare with the quota, create. -/
theorem skel_ActivateConnectionCode : Gen.Skel.L17_ActivateConnectionCode =
    ["connCodeRepo.GetByCode", "mappingQuotaMu.Lock", "defer mappingQuotaMu.Unlock", "portMappingRepo.GetClientPortMappings",
     "@s.maxActiveMappingsPerClient", "@s.maxActiveMappingsPerClient", "@s.maxActiveMappingsPerClient",
     "connCode.Activate", "portMappingService.CreatePortMapping", "connCodeRepo.Update",
     "portMappingService.DeletePortMapping"] := by decide

theorem flow_CountActiveByTargetClient : Gen.Flow.L17_CountActiveByTargetClient = [
  "codes, err := r.ListByTargetClient(targetClientID)",
  "if err != nil",
  "return 0, err",
  "end",
  "count := 0",
  "for _, code := range codes",
  "if code.IsValidForActivation()",
  "count++",
  "end",
  "end",
  "return count, nil"
] := by decide +kernel

theorem skel_ListByTargetClient :
    Gen.Skel.L17_ListByTargetClient = ["listStore.GetList", "r.GetByID", "listStore.RemoveFromList"] := by decide
theorem skel_CodeGetByID : Gen.Skel.L17_CodeGetByID = ["storage.Get"] := by decide
theorem skel_CodeGetByCode : Gen.Skel.L17_CodeGetByCode = ["storage.Get"] := by decide
theorem skel_CodeCreate : Gen.Skel.L17_CodeCreate =
    ["{ret", "}", "{ret", "}", "storage.Set", "{ret", "}", "storage.Set", "{ret", "storage.Delete", "}", "{ret", "}",
     "listStore.AppendToList", "{ret", "storage.Delete", "storage.Delete", "}"] := by decide

/-- The step counts of the `code` instance are the storage calls of the source: one `Get` per listed
id in the count (`scan`: `ListByTargetClient` = `GetList` + one `GetByID` = one `Get` per entry); between the check and the first write one `Get` (uniqueness of the code,
`mid`); the code exists from the first `Set` of `Create` (by-code) on, and the `Set(by-id)` and the
`AppendToList` follow inside the critical section (`post`). -/
theorem C17_code_steps :
    protoCode.mid = Gen.Skel.L17_CodeGetByCode.length ∧
    protoCode.post + 1 = ((Gen.Skel.L17_CodeCreate.takeWhile (· != "listStore.AppendToList")).filter (· == "storage.Set")).length + 1 ∧
    (protoCode.scan = true ∧ Gen.Skel.L17_CodeGetByID.length = 1) := by
  refine ⟨by decide, by decide, by decide⟩

/-- `RevokeConnectionCode` = claim, read by code, `Update`, release claim (five storage calls) and
`Update` writes the BY-CODE copy first (the code becomes unusable) and the BY-ID copy second (the quota
slot becomes free): at no instant, and after no single failed write, is a code usable but not counted.
The opposite order (seeded regression `code-update-byid-before-bycode`) breaks this pin. -/
theorem skel_RevokeConnectionCode : Gen.Skel.L17_RevokeConnectionCode =
    ["s.claimCode", "defer release", "connCodeRepo.GetByCode", "connCode.Revoke", "connCodeRepo.Update"] := by decide
theorem skel_TryClaim : Gen.Skel.L17_TryClaim = ["casStore.SetNX"] := by decide
theorem skel_ReleaseClaim : Gen.Skel.L17_ReleaseClaim = ["storage.Delete"] := by decide
theorem flow_CodeUpdate : Gen.Flow.L17_CodeUpdate = [
  "if err := code.Validate(); err != nil",
  "return coreerrors.Wrap(err, coreerrors.CodeValidationError, \"invalid connection code\")",
  "end",
  "data, err := json.Marshal(code)",
  "if err != nil",
  "return coreerrors.Wrap(err, coreerrors.CodeInternal, \"failed to marshal connection code\")",
  "end",
  "ttl := code.TimeRemaining()",
  "if ttl <= 0",
  "return r.Delete(code.ID)",
  "end",
  "keyByCode := constants.KeyPrefixRuntimeConnectionCodeByCode + code.Code",
  "if err := r.storage.Set(keyByCode, string(data), ttl); err != nil",
  "return coreerrors.Wrap(err, coreerrors.CodeStorageError, \"failed to update connection code by code\")",
  "end",
  "keyByID := constants.KeyPrefixRuntimeConnectionCodeByID + code.ID",
  "if err := r.storage.Set(keyByID, string(data), ttl); err != nil",
  "return coreerrors.Wrap(err, coreerrors.CodeStorageError, \"failed to update connection code by ID\")",
  "end",
  "return nil"
] := by decide +kernel

/-! ## The slot across the life of its tunnel (close events interleaved with `handleConnection`) -/

/-- **C17, slot life cycle.** For every limit (0 = unlimited), any number of connections and EVERY
interleaving of the three steps of each `handleConnection` (take the slot … `RegisterTunnel` …
`Start`) with `Tunnel.Close` events on any tunnel at any time — in particular a close that lands
between `RegisterTunnel` and `Start` —: no slot is taken while `limit` slots are held, the number
of live tunnels reported after every event is the reference number and within the limit. -/
theorem C17_slot_main (limit : Nat) (σ : List C17Slot.Sch) :
    C17Slot.holds limit (C17Slot.run true limit C17Slot.init σ).trace = true :=
  (C17Slot.inv_run σ _ (C17Slot.inv_init limit)).good

/-- **The slot counter is never negative and never above the limit**, and at least the number of
live tunnels, after every prefix of every such interleaving (`run … σ` for every `σ`). -/
theorem C17_slot_counter (limit : Nat) (σ : List C17Slot.Sch) :
    0 ≤ (C17Slot.run true limit C17Slot.init σ).cnt ∧
    (limit = 0 ∨ (C17Slot.run true limit C17Slot.init σ).cnt ≤ limit) ∧
    ((C17Slot.run true limit C17Slot.init σ).tunnels.length : Int) ≤ (C17Slot.run true limit C17Slot.init σ).cnt := by
  have h := C17Slot.inv_run σ _ (C17Slot.inv_init limit)
  refine ⟨?_, h.cap, ?_⟩ <;> rw [h.cnt] <;> omega

/-- Error paths: a failing `DialTunnel` (after the slot was taken) and a failing `RegisterTunnel` give
the slot back exactly once; the next connection gets it. -/
example :
    (C17Slot.run true 1 C17Slot.init [.stepFail 0, .step 1, .stepFail 1, .step 2, .step 2, .step 2, .stepFail 3]).trace
      = [.dfl 0 0, .acq 1 0, .rfl 1 0, .acq 2 0, .reg 2 1, .sta 2 1, .ref 3 1] := by decide

/-- **Release without `sync.OnceFunc` (seeded regression `mapping-slot-released-twice`).** The tunnel
of connection 0 is closed between `RegisterTunnel` and `Start`: `OnClosed` gives the slot back,
`Start` fails, the deferred clean-up gives it back again — the counter is −1 … -/
theorem C17_slot_twice_witness :
    (C17Slot.run false 1 C17Slot.init [.step 0, .step 0, .close 0, .step 0]).cnt = -1 := by decide

/-- … and two further connections are then admitted at limit 1. -/
theorem C17_slot_twice_exceeds :
    C17Slot.holds 1 (C17Slot.run false 1 C17Slot.init
      [.step 0, .step 0, .close 0, .step 0, .step 1, .step 1, .step 1, .step 2, .step 2]).trace = false := by decide

/-- The same history with the `OnceFunc`: the third connection is refused. -/
example :
    (C17Slot.run true 1 C17Slot.init
      [.step 0, .step 0, .close 0, .step 0, .step 1, .step 1, .step 1, .step 2, .close 1, .step 2]).trace
      = [.acq 0 0, .reg 0 1, .cls 0 0, .fal 0 0, .acq 1 0, .reg 1 1, .sta 1 1, .ref 2 1, .cls 1 0] := by decide

/-- `holds` for slots rejects an acquisition at the limit and a live count above it. -/
example : C17Slot.holds 1 [.acq 0 0, .acq 1 0] = false := by decide
example : C17Slot.holds 1 [.acq 0 0, .reg 0 1, .cls 0 0, .acq 1 0, .reg 1 1] = true := by decide

/-! ## The slot counter at instruction granularity, releases racing admissions -/

/-- **C17, slot counter.** `acquireConnectionSlot` = `Load`, limit check, `CompareAndSwap`, retry;
`releaseConnectionSlot` = ONE atomic `Add(-1)`.  Any number of connections coming and going
(`acquire; release; acquire; …` per thread), every interleaving of their atomic instructions —
releases racing admissions included —, every limit (0 = unlimited), `pre ≤ limit` slots held at the
start: never more than `limit` connections hold a slot. -/
theorem C17_ctr_main (limit pre : Nat) (hpre : limit = 0 ∨ pre ≤ limit) (σ : List Nat) :
    C17Ctr.holds limit (C17Ctr.run true limit (C17Ctr.init pre) σ).trace = true :=
  (C17Ctr.inv_run σ _ (C17Ctr.inv_init limit pre hpre)).good

/-- … and the counter equals the number of holders after every instruction (so it is never negative
while somebody holds a slot, and never above the limit). -/
theorem C17_ctr_exact (limit pre : Nat) (hpre : limit = 0 ∨ pre ≤ limit) (σ : List Nat) :
    (C17Ctr.run true limit (C17Ctr.init pre) σ).cnt = (C17Ctr.run true limit (C17Ctr.init pre) σ).held ∧
    (limit = 0 ∨ (C17Ctr.run true limit (C17Ctr.init pre) σ).cnt ≤ limit) :=
  ⟨(C17Ctr.inv_run σ _ (C17Ctr.inv_init limit pre hpre)).eq, (C17Ctr.inv_run σ _ (C17Ctr.inv_init limit pre hpre)).cap⟩

/-- **Release as `Load … Store` (seeded regression `release-slot-load-then-store`).** Limit 2, one
holder: its release loads 1; connection 1 is admitted (`CompareAndSwap` 1→2) before the release stores 0 —
connection 1 holds a slot the counter no longer knows; connections 2 and 3 get in: three holders. -/
theorem C17_ctr_split_release_witness :
    C17Ctr.holds 2 (C17Ctr.run false 2 (C17Ctr.init 1) [0, 1, 1, 0, 2, 2, 3, 3]).trace = false := by decide

/-- The same schedule with the atomic release: the third connection is refused. -/
example :
    (C17Ctr.run true 2 (C17Ctr.init 1) [0, 1, 1, 2, 2, 3, 3]).trace
      = [.rel 0 0, .adm 1 1, .adm 2 2, .ref 3, .ref 3] := by decide

/-! ## Non-vacuity -/

/-- Three admissions race at `limit-1 = 1` of 2 through `CreateConnection`: one is admitted at the
re-check, the others are refused (one early, one at the re-check), the cap holds at every step. -/
example :
    (run protoConn 2 (init 1 [(0, [.acquire]), (0, [.acquire]), (0, [.acquire])]) [0, 1, 0, 2, 1]).trace
      = [.stp 0 1, .stp 1 1, .adm 0 1 none 2, .ref 2 false 2, .ref 1 false 2] := by decide

/-- Eviction at the control cap. -/
example :
    (run protoCtrl 2 (init 2 [(0, [.acquire, .release]), (0, [.acquire])]) [0, 1, 0]).trace
      = [.adm 0 2 (some 0) 2, .adm 1 3 (some 1) 2, .rel 0 2 1] := by decide

/-- The code quota: the second request queues up in `Lock()`, is handed the mutex by the `Unlock()`
of the first, then counts 2 of 2 and is refused.  The first request's code exists from its
`Set(by-code)` on (`adm`), two more storage calls follow inside the critical section. -/
example :
    (run protoCode 2 (init 1 [(0, [.acquire]), (0, [.acquire])]) [0, 1, 0, 0, 0, 0, 0, 0, 1, 1, 1]).trace
      = [.stp 0 1, .blk 1 1, .stp 0 1, .stp 0 1, .stp 0 1, .adm 0 1 none 2, .stp 0 2, .stp 0 2,
         .stp 1 2, .stp 1 2, .ref 1 false 2] := by decide

/-- Revocation with a storage fault on its second write (`Set(by-id)`): the code can no longer be
activated but keeps its quota slot — a request at the quota is still refused.  Without the fault the
slot is free only after the `Set(by-id)` (`rel`), i.e. after the code became unusable. -/
example :
    (run protoCode 1 (init 0 [(0, [.acquire, .revoke (some 3)]), (0, [.acquire])])
        [0, 0, 0, 0, 0, 0,  0, 0, 0, 0, 0, 0,  1, 1, 1, 1]).trace
      = [.stp 0 0, .stp 0 0, .stp 0 0, .adm 0 0 none 1, .stp 0 1, .stp 0 1,
         .stp 0 1, .stp 0 1, .stp 0 1, .stp 0 1, .stp 0 1, .stp 0 1,
         .stp 1 1, .stp 1 1, .ref 1 false 1] := by decide
example :
    (run protoCode 1 (init 0 [(0, [.acquire, .revoke none]), (0, [.acquire])])
        [0, 0, 0, 0, 0, 0,  0, 0, 0, 0, 1, 1, 1, 0, 0]).trace
      = [.stp 0 0, .stp 0 0, .stp 0 0, .adm 0 0 none 1, .stp 0 1, .stp 0 1,
         .stp 0 1, .stp 0 1, .stp 0 1, .stp 0 1, .stp 1 1, .stp 1 1, .ref 1 false 1, .rel 0 0 0, .stp 0 0] := by decide

/-- Three activations of one client at occupancy `limit-2` plus one of another client, the schedule
of the seeded regression (A holds, B queued, A leaves, B counts, C arrives, B creates, C counts): the
third request stays queued behind B and is refused afterwards. -/
example :
    (run protoMapq 2 (init 0 [(0, [.acquire]), (0, [.acquire]), (0, [.acquire]), (0, [.other])])
        [0, 1, 0, 0, 1, 2, 3, 2, 1, 2, 3, 3]).trace
      = [.stp 0 0, .blk 1 0, .stp 0 0, .adm 0 0 none 1, .stp 1 1, .blk 2 1, .blk 3 1, .blk 2 1, .adm 1 1 none 2,
         .ref 2 false 2, .stp 3 2, .stp 3 2] := by decide

/-- `holds` rejects exceeding the cap, a refusal that changed the occupancy, a refusal that changed
other state, a wrong final state; it accepts unlimited growth when 0 means unlimited. -/
example : holds true 1 0 [.adm 0 0 none 1, .adm 1 1 none 2] [0, 1] = false := by decide
example : holds true 1 1 [.ref 0 false 0] [0] = false := by decide
example : holds true 1 1 [.ref 0 true 1] [0] = false := by decide
example : holds true 1 0 [.adm 0 0 none 1] [] = false := by decide
example : holds true 0 0 [.adm 0 0 none 1, .adm 1 1 none 2] [0, 1] = true := by decide
example : holds false 0 0 [.adm 0 0 none 1] [0] = false := by decide
example : holdsFree true 2 1 4 1 3 2 2 false = true := by decide
example : holdsFree true 2 1 4 2 2 3 3 false = false := by decide
/-- The hypotheses of the theorems are inhabited (limit 0 = unlimited, limit 1, occupancy limit-1). -/
example : capOk true 0 7 = true ∧ capOk true 1 0 = true ∧ capOk false 3 2 = true ∧ capOk false 0 1 = false := by decide
example : protoConn.final ≠ .plain ∧ protoMapCas.early = true ∧ protoCode.mutex = true := by decide

end Tunnox.C17
