import TunnoxModel.Proofs.C13
import TunnoxModel.Proofs.C13Lin
import TunnoxModel.Proofs.C13Alias
import TunnoxModel.Spec.C13Alias
import TunnoxModel.Model.C13Redis
/-!
# C13 — storage backends implement one TTL key-value semantics

Proved here, about the executable model of `memory.Storage` the driver runs
(`Model/C13.lean`, one function per method) against the reference `TTLStore`
(`Spec/TTLStore.lean`):

* `C13_refines` / `C13_main` — for EVERY history of key-value, list, hash, counter, set-if-absent,
  compare-and-swap, lifetime and sweep calls with arbitrary keys, values and lifetimes and a
  monotone clock, the memory backend answers exactly as the sequential map with expiry.
* `C13_zero_ttl_*` — a zero (or negative) lifetime means "never expires" in every call that takes one.
* `C13_sweep_invisible` — the background sweep and the deferred deletions of `GetHash`/`GetAllHash`/
  `GetExpiration` never change an answer.
* `lock_facts`, `skel_ok` — every access to the guarded data of every method lies inside a critical
  section of the current source; the call skeleton of every method is the one the model mirrors.
* `C13_linearizable` — concurrent callers: each call being one critical section, every schedule's
  per-thread answers are explained by the reference run in lock order (`holdsConc`).

Only observed by the harness (not proved): the Redis backend (`holdsRepo`, Redis unmodelled), data
races below the lock (hammer/conc runs), the correspondence of the model with the Go code.
-/
namespace Tunnox.C13
open Tunnox Tunnox.TTLStore Tunnox.C13.Spec

/-- **Refinement.** On every history whose clock readings do not go backwards, starting from the
empty store, the memory backend model returns exactly the results of the sequential map with expiry. -/
theorem C13_refines (h : History) (hmono : TTLStore.Monotone h = true) :
    C13.run h FMap.empty = TTLStore.run Spec.dflt h TTLStore.empty := by
  cases h with
  | nil => rfl
  | cons e h =>
    exact run_ref (e :: h) FMap.empty TTLStore.empty e.1 (R_refl _ _)
      (mono_ge (e :: h) e.1 ⟨Nat.le_refl _, hmono⟩) hmono

/-- **C13 (memory half).** The observation of the memory backend model satisfies the predicate the
driver applies to the implementation's observations. -/
theorem C13_main (h : History) (hmono : TTLStore.Monotone h = true) :
    holdsSeq h ((C13.run h FMap.empty).map render) = true := by
  unfold holdsSeq
  rw [C13_refines h hmono]
  exact beq_self_eq_true _

/-- The same from any pair of related stores (used by store clients: C06, C08, C09, C14, C15, C19). -/
theorem C13_refines_from (h : History) (m s : Store) (t0 : Nat) (hR : R t0 m s)
    (hge : ∀ e ∈ h, t0 ≤ e.1) (hmono : TTLStore.Monotone h = true) :
    C13.run h m = TTLStore.run Spec.dflt h s :=
  run_ref h m s t0 hR hge hmono

/-- **Zero lifetime = never expires**, in every call that takes a lifetime (reference side;
`C13_refines` transfers it to the memory backend). -/
theorem C13_zero_ttl_deadline (now : Nat) (ttl : Int) (h : ttl ≤ 0) : deadline now ttl = 0 := by
  simp [deadline, h]

theorem C13_zero_ttl_never (now t : Nat) (s : Store) (k : String) (v : Val) (ttl : Int) (h : ttl ≤ 0) :
    find t (TTLStore.set now s k v ttl).1 k = some ⟨v, 0⟩ := by
  simp [TTLStore.set, find_insert_eq, C13_zero_ttl_deadline now ttl h, Entry.live]

/-- On the memory backend: after `Set`/`SetNX`/`CompareAndSwap`/`SetExpiration` with `ttl ≤ 0` the
stored deadline is the zero time. -/
theorem C13_zero_ttl_model (now : Nat) (ttl : Int) (h : ttl ≤ 0) : expirationFor now ttl = 0 := by
  simp [expirationFor, h]

/-- A positive lifetime `d` given at `now` keeps the key visible exactly until `now + d`. -/
theorem C13_ttl_window (now t d : Nat) (hd : 0 < d) (s : Store) (k : String) (v : Val) :
    find t (TTLStore.set now s k v d).1 k = if t ≤ now + d then some ⟨v, now + d⟩ else none := by
  have hd0 : d ≠ 0 := by omega
  have hne : now + d ≠ 0 := by omega
  have hdl : deadline now (d : Int) = now + d := by
    have hpos : ¬ ((d : Int) ≤ 0) := by omega
    unfold deadline
    rw [if_neg hpos]
    simp
  simp only [TTLStore.set, find_insert_eq, hdl, Entry.live]
  by_cases ht : t ≤ now + d <;> simp [ht, hne, hd0]

/-- **The sweep is invisible**: `CleanupExpired` at any moment, and the second critical section of
`GetHash`/`GetAllHash`/`GetExpiration` for any key, preserve the refinement relation. -/
theorem C13_sweep_invisible (now : Nat) (m s : Store) (hR : R now m s) (k : String) :
    R now (CleanupExpired now m).1 s ∧ R now (gcKey now m k).1 s :=
  ⟨(CleanupExpired_ref hR).2, (gcKey_ref hR k).2⟩

/-- **A sweep may be split.** `CleanupExpired` as a scan phase and a later delete phase, with
arbitrary calls of other callers in between (and likewise the deferred deletions of `GetHash`/…):
as long as the delete phase re-checks expiry (`sweepDelete true ks`), for EVERY key list `ks` —
in particular any list collected by a scan of an earlier state — and every position of the delete
phases in a history with a monotone clock, all calls answer exactly as the sequential map with expiry. -/
theorem C13_sweep_split_invisible (h : List (Nat × MStep)) (hmono : monoM h = true)
    (hchk : allChecked h = true) :
    holdsSeq (callsOf h) ((runM h FMap.empty).map render) = true := by
  have : runM h FMap.empty = TTLStore.run Spec.dflt (callsOf h) TTLStore.empty := by
    cases h with
    | nil => rfl
    | cons e h =>
      exact runM_ref (e :: h) FMap.empty TTLStore.empty e.1 (R_refl _ _)
        (monoM_ge (e :: h) e.1 ⟨Nat.le_refl _, hmono⟩) hmono hchk
  unfold holdsSeq
  rw [this]
  exact beq_self_eq_true _

/-- History of the seeded regression "two-phase cleanup": `k` expires, a scan at 1500 collects it,
`SetNX` re-creates it at 1600, the delete phase of the old scan lands at 1700. -/
def splitSweepHistory (checked : Bool) : List (Nat × MStep) :=
  [(1000, .call (.set "k" (.atom (.str "x")) 40)), (1600, .call (.setNX "k" (.atom (.str "y")) 0)),
   (1700, .sweepDelete checked (scanExpired 1500 (Set 1000 FMap.empty "k" (.atom (.str "x")) 40).1)),
   (1800, .call (.get "k"))]

/-- The delete phase WITHOUT re-check removes a live, re-written key: no sequential map with expiry
explains the answers (the negation of `C13_sweep_split_invisible` for the unchecked variant). -/
theorem sweep_blind_witness :
    scanExpired 1500 (Set 1000 FMap.empty "k" (.atom (.str "x")) 40).1 = ["k"] ∧
    (runM (splitSweepHistory false) FMap.empty).map render = ["ok", "T", "nf"] ∧
    holdsSeq (callsOf (splitSweepHistory false)) ((runM (splitSweepHistory false) FMap.empty).map render) = false ∧
    holdsSeq (callsOf (splitSweepHistory true)) ((runM (splitSweepHistory true) FMap.empty).map render) = true := by
  decide +kernel

/-- **One critical section per method (T2).** Number of `Lock`/`RLock` regions of every modelled
method of the current source, pinned. `GetHash`/`GetAllHash`/`GetExpiration` have two; every other
locking method, `CleanupExpired` included, has exactly one. -/
theorem section_counts :
    allSkeletons.map sectionCount =
      [1, 1, 1, 1, 0, 0, 1, 1, 1, 2, 2, 1, 0, 1, 1, 2, 1, 1, 1, 0, 1, 1, 1, 1, 1, 1, 1, 1, 1] := by
  decide +kernel

/-- Every method is one atomic step: one critical section, or two where the second only deletes
after re-checking expiry under the write lock. A method split into check-then-act sections (e.g. a
sweep that scans under `RLock` and deletes under a later `Lock` without re-check) breaks this. -/
theorem atomic_calls : atomicCalls = true := by decide +kernel

/-- **Lock facts (T2)**: in the current source of every modelled method, every access to `m.data`,
to an item's fields and to a stored hash lies inside a critical section of `m.mu`. -/
theorem lock_facts : allSkeletons.all (fun sk => lockedOK sk false []) = true := by decide +kernel

/-- The call skeletons the model mirrors (expiry guards `IsZero`/`After` in every method, `delete`,
`expirationFor`, lock order).  A dropped guard or a reordered step breaks this theorem. -/
theorem skel_ok :
    Gen.Skel.Mem_CompareAndSwap =
      ["mu.Lock", "defer mu.Unlock", "@m.data", "@m.data", "@m.data", "{ret", "{ret", "@m.data", "expirationFor", "}", "}", "IsZero", "@item.Expiration", "After", "@item.Expiration", "{ret", "delete", "@m.data", "{ret", "@m.data", "expirationFor", "}", "}", "@item.Value", "{ret", "}", "@item.Value", "@item.Expiration", "expirationFor"] ∧
    Gen.Skel.Mem_SetNX =
      ["mu.Lock", "defer mu.Unlock", "@m.data", "@m.data", "@m.data", "IsZero", "@item.Expiration", "After", "@item.Expiration", "{ret", "}", "delete", "@m.data", "Add", "@m.data"] ∧
    Gen.Skel.Mem_SetExpiration =
      ["mu.Lock", "defer mu.Unlock", "@m.data", "{ret", "}", "IsZero", "@item.Expiration", "After",
       "@item.Expiration", "{ret", "delete", "@m.data", "}", "@item.Expiration", "expirationFor"] ∧
    Gen.Skel.Mem_expirationFor = ["{ret", "}", "Add"] ∧
    Gen.Skel.Mem_Get =
      ["mu.RLock", "defer mu.RUnlock", "@m.data", "{ret", "}", "@m.data", "{ret", "}", "IsZero",
       "@item.Expiration", "After", "@item.Expiration", "{ret", "}", "@item.Value"] ∧
    Gen.Skel.Mem_GetHash =
      ["mu.RLock", "@m.data", "{ret", "mu.RUnlock", "}", "IsZero", "@item.Expiration", "After",
       "@item.Expiration", "@hash", "@item.Value", "@hash", "mu.RUnlock", "{ret", "mu.Lock", "@m.data",
       "IsZero", "@item.Expiration", "After", "@item.Expiration", "delete", "@m.data", "mu.Unlock", "}",
       "{ret", "}", "{ret", "}"] ∧
    Gen.Skel.Mem_SetList = ["m.Set"] ∧ Gen.Skel.Mem_GetList = ["m.Get", "{ret", "}", "{ret", "}"] ∧
    Gen.Skel.Mem_Incr = ["m.IncrBy"] ∧
    Gen.Skel.Mem_CleanupExpired =
      ["mu.Lock", "defer mu.Unlock", "@m.data", "IsZero", "@item.Expiration", "After", "@item.Expiration",
       "delete", "@m.data"] := by decide +kernel

/-- Every method that reads an item tests `IsZero` before `After` (the guard whose absence was
defect C13-a), and none uses `Before`. -/
theorem expiry_guard_everywhere :
    allSkeletons.all (fun sk => !sk.contains "Before" &&
      (sk.filter (fun t => t == "After")).length == (sk.filter (fun t => t == "IsZero")).length
        || sk == Gen.Skel.Mem_GetExpiration) = true := by decide +kernel

/-- **Atomicity under concurrent callers.** HYPOTHESIS `atomicCalls`: every method of the source is
ONE critical section of `m.mu` (or one plus a re-checking delete), so that a concurrent execution is
a schedule of the model's atomic steps; it is discharged for the current source by `atomic_calls`
(and `lock_facts`: every access lies inside a section) — `C13_linearizable_current`.  For EVERY number of callers, every program
per caller and EVERY schedule that lets all callers finish, what the callers observe on the memory
backend is explained by the sequential map with expiry executing the calls in one order
(`holdsConc`, the predicate applied to the real backend's free-running and gated runs).
Scope: one burst at a fixed clock reading `now`, from the empty store; across clock readings the
sequential theorem `C13_refines` applies to the lock-order history. -/
theorem C13_linearizable (_hatomic : atomicCalls = true) (now : Nat) (sched : List Nat)
    (progs : List (List Op)) (hc : completes sched progs = true) :
    holdsConc now progs (observeThreads render progs.length (runSched now sched FMap.empty progs)) = true := by
  unfold holdsConc observeThreads
  rw [List.range_eq_range', zip_range progs _ 0]
  simp only [List.length_map, List.length_range', beq_self_eq_true, Bool.true_and]
  exact lin_sched now sched FMap.empty TTLStore.empty progs _ (R_refl _ _) hc (Nat.le_refl _)

/-- The storage calls exercised on the Redis backend (`red` cases of the harness). -/
def redisOps : List String :=
  ["Set", "Get", "Delete", "Exists", "SetNX", "CompareAndSwap", "SetExpiration", "GetExpiration",
   "SetList", "GetList", "AppendToList", "RemoveFromList", "SetHash", "GetHash", "GetAllHash", "DeleteHash",
   "Incr", "IncrBy"]

/-- **Repository call sites (T1)**: every storage call made by the generic repository, the
storage-based lock and the cleanup manager in the current source is one of the calls the Redis
correspondence exercises. A repository starting to use another storage call breaks this theorem. -/
theorem repo_call_sites :
    (List.all [Gen.Skel.Repo_Lock_Acquire, Gen.Skel.Repo_Lock_Release, Gen.Skel.Repo_Lock_RenewLock,
      Gen.Skel.Repo_Lock_IsLocked, Gen.Skel.Repo_Cleanup_Register, Gen.Skel.Repo_Cleanup_Acquire,
      Gen.Skel.Repo_Cleanup_Complete, Gen.Skel.Repo_Generic_Save, Gen.Skel.Repo_Generic_Create,
      Gen.Skel.Repo_Generic_Update, Gen.Skel.Repo_Generic_Get, Gen.Skel.Repo_Generic_Delete,
      Gen.Skel.Repo_Generic_List, Gen.Skel.Repo_Generic_AddToList, Gen.Skel.Repo_Generic_RemoveFromList]
      (fun sk => sk.all (fun c => redisOps.contains c))) = true ∧
    Gen.Skel.Repo_Lock_Acquire = ["SetNX"] ∧ Gen.Skel.Repo_Lock_RenewLock = ["Get", "CompareAndSwap"] ∧
    Gen.Skel.Repo_Generic_List = ["GetList"] ∧ Gen.Skel.Repo_Generic_AddToList = ["AppendToList"] := by
  decide +kernel

/-- **Atomicity under concurrent callers, from ANY reachable store.** A sequential history `pre`
(monotone clock, ending no later than `now`; it may leave live, permanent and expired-but-unswept
entries of every value kind), then a burst of concurrent callers at clock `now` under EVERY
schedule that lets them finish, then a sequential probe `suf` (monotone, not before `now`):
the prefix answers as the reference, the callers' answers are explained by one order of their
calls run by the reference from the prefix's end state, and the probe answers as the reference
does after that order (`holdsBurst`, the predicate applied to the real backend's burst runs).
Same hypothesis `atomicCalls` as `C13_linearizable`. -/
theorem C13_linearizable_from (_hatomic : atomicCalls = true) (pre suf : History) (now : Nat)
    (sched : List Nat) (progs : List (List Op))
    (hpre : TTLStore.Monotone pre = true) (hpre_le : ∀ e ∈ pre, e.1 ≤ now)
    (hsuf : TTLStore.Monotone suf = true) (hsuf_ge : ∀ e ∈ suf, now ≤ e.1)
    (hc : completes sched progs = true) :
    holdsBurst pre now progs suf
      ((C13.run pre FMap.empty).map render)
      (observeThreads render progs.length (runSched now sched (exec pre FMap.empty) progs))
      ((C13.run suf (execSched now sched (exec pre FMap.empty) progs)).map render) = true := by
  have hR0 : R now (exec pre FMap.empty) (TTLStore.exec Spec.dflt pre TTLStore.empty) :=
    exec_ref pre FMap.empty TTLStore.empty 0 now (R_refl _ _) (fun _ _ => Nat.zero_le _) hpre hpre_le
      (Nat.zero_le _)
  unfold holdsBurst observeThreads
  rw [C13_refines pre hpre, List.range_eq_range', zip_range progs _ 0]
  simp only [List.length_map, List.length_range', beq_self_eq_true, Bool.true_and]
  apply linK_sched now _ sched _ _ progs _ hR0 hc (Nat.le_refl _)
  intro s' hR'
  rw [run_ref suf _ s' now hR' hsuf_ge hsuf]
  exact beq_self_eq_true _

/-- `C13_linearizable` for the source as extracted on this run. -/
theorem C13_linearizable_current (now : Nat) (sched : List Nat) (progs : List (List Op))
    (hc : completes sched progs = true) :
    holdsConc now progs (observeThreads render progs.length (runSched now sched FMap.empty progs)) = true :=
  C13_linearizable atomic_calls now sched progs hc

/-! ## Answers are values (reference semantics of lists) -/

/-- **An answer never changes after it was returned; a call on key `a` never changes key `b`.**
In the reference-semantics model of the list code (slices into shared backing arrays; `GetList`
hands out the stored slice; `AppendToList` writes into spare capacity; capacities chosen by the
runtime are arbitrary parameters of the calls), for EVERY history of `SetList`, `SetList` of a held
answer, `GetList` kept by the caller, looking at a kept answer again, `AppendToList`,
`RemoveFromList`, `Delete`: all answers equal those of the map whose holders hold lists by value. -/
theorem C13_alias_refines (ops : List Alias.LOp) :
    Alias.run .repaired ops Alias.St.empty = Alias.specRun ops FMap.empty :=
  Alias.run_sim ops _ _ Alias.sim_empty Alias.inv_empty

/-- The same as the predicate the driver applies to the real backend's `alias` observations. -/
theorem C13_answers_never_change (ops : List Alias.LOp) :
    Alias.holdsAlias ops ((Alias.run .repaired ops Alias.St.empty).map Alias.renderL) = true := by
  unfold Alias.holdsAlias
  rw [C13_alias_refines]
  exact beq_self_eq_true _

/-- Seeded regression "RemoveFromList compacts in place": an answer of `GetList` held by the caller
turns from `[x,y,z]` into `[y,z,nil]` when `x` is removed afterwards. -/
theorem removeInPlace_witness :
    (Alias.run .removeInPlace
      [.setList "a" [.str "x", .str "y", .str "z"] 0, .hold 0 "a", .remove "a" (.str "x"), .peek 0]
      Alias.St.empty).map Alias.renderL = ["ok", "L[s78,s79,s7a]", "ok", "L[s79,s7a,nil]"] ∧
    Alias.holdsAlias
      [.setList "a" [.str "x", .str "y", .str "z"] 0, .hold 0 "a", .remove "a" (.str "x"), .peek 0]
      ["ok", "L[s78,s79,s7a]", "ok", "L[s79,s7a,nil]"] = false := by
  decide +kernel

/-- Repaired defect: `SetList` as found kept the caller's slice; two keys stored from one slice with
spare capacity overwrote each other's appended member (`a` ends in `q` instead of `p`). -/
theorem setListByRef_witness :
    (Alias.run .setListByRef
      [.setList "a" [.str "x"] 2, .hold 0 "a", .setListFrom "b" 0, .append "a" (.str "p") 0,
       .append "b" (.str "q") 0, .getList "a"] Alias.St.empty).map Alias.renderL
      = ["ok", "L[s78]", "ok", "ok", "ok", "L[s78,s71]"] ∧
    Alias.holdsAlias
      [.setList "a" [.str "x"] 2, .hold 0 "a", .setListFrom "b" 0, .append "a" (.str "p") 0,
       .append "b" (.str "q") 0, .getList "a"] ["ok", "L[s78]", "ok", "ok", "ok", "L[s78,s71]"] = false := by
  decide +kernel

/-- Non-vacuity: on the repaired code the same histories answer by value, also when an append lands
in spare capacity shared with a held answer. -/
example :
    (Alias.run .repaired
      [.append "a" (.str "x") 3, .append "a" (.str "y") 3, .hold 0 "a", .setListFrom "b" 0,
       .append "a" (.str "p") 0, .append "b" (.str "q") 0, .remove "a" (.str "x"), .peek 0, .getList "a", .getList "b"]
      Alias.St.empty).map Alias.renderL
      = ["ok", "ok", "L[s78,s79]", "ok", "ok", "ok", "ok", "L[s78,s79]", "L[s79,s70]", "L[s78,s79,s71]"] := by
  decide +kernel

/-! ## Lifetimes of existing containers -/

theorem lookup_of_find {now : Nat} {s : Store} {k : String} {e : Entry} (hf : find now s k = some e) :
    FMap.lookup s k = some e := by
  unfold find at hf
  cases hl : FMap.lookup s k with
  | none => rw [hl] at hf; simp at hf
  | some e' =>
    rw [hl] at hf
    by_cases h' : e'.live now <;> simp [Option.filter, h'] at hf
    rw [hf]

/-- **A call on an existing list / hash / counter never touches its lifetime** (reference; by
`C13_refines` also the memory backend): after `SetHash` (of a new OR an existing field),
`DeleteHash`, `AppendToList`, `RemoveFromList`, `IncrBy` on a visible key, the stored deadline is the
one the key had — a key made permanent stays permanent, a short or long lifetime is not replaced
by the default. -/
theorem C13_container_ops_keep_lifetime (now : Nat) (s : Store) (k : String) (e : Entry)
    (hf : find now s k = some e) (op : Op)
    (hop : (∃ f a, op = .hset k f a) ∨ (∃ f, op = .hdel k f) ∨ (∃ a, op = .append k a) ∨
           (∃ a, op = .remove k a) ∨ (∃ d, op = .incrBy k d)) :
    (FMap.lookup (TTLStore.step Spec.dflt now op s).1 k).map (·.exp) = some e.exp := by
  have hl := lookup_of_find hf
  rcases hop with ⟨f, a, rfl⟩ | ⟨f, rfl⟩ | ⟨a, rfl⟩ | ⟨a, rfl⟩ | ⟨d, rfl⟩
  · simp only [TTLStore.step, TTLStore.hset, hf]
    cases e.val <;> simp [FMap.lookup_insert_eq]
  · simp only [TTLStore.step, TTLStore.hdel, hf]
    cases e.val <;> simp [FMap.lookup_insert_eq, hl]
  · simp only [TTLStore.step, TTLStore.append, hf]
    cases e.val <;> simp [FMap.lookup_insert_eq, hl]
  · simp only [TTLStore.step, TTLStore.remove, hf]
    cases e.val <;> simp [FMap.lookup_insert_eq, hl]
  · simp only [TTLStore.step, TTLStore.incrBy, hf]
    cases hv : e.val with
    | atom a => cases a <;> simp [FMap.lookup_insert_eq, hl]
    | _ => simp [hl]

/-- The Redis backend's rule "EXISTS before the write" makes `SetHash` and `IncrBy` the reference
calls, lifetimes included. -/
theorem redis_created_rule_ok (dflt now : Nat) (s : Store) (k f : String) (a : Atom) (d : Int) :
    Redis.hset .existedBefore dflt now s k f a = TTLStore.hset dflt now s k f a ∧
    Redis.incrBy .existedBefore dflt now s k d = TTLStore.incrBy dflt now s k d := by
  constructor
  · unfold Redis.hset TTLStore.hset
    cases find now s k with
    | none => rfl
    | some e =>
      obtain ⟨v, ex⟩ := e
      cases v <;> simp [Redis.hashCreated]
  · unfold Redis.incrBy TTLStore.incrBy
    cases find now s k with
    | none => rfl
    | some e =>
      obtain ⟨v, ex⟩ := e
      cases v with
      | atom a => cases a <;> simp
      | _ => simp

/-- Source tie: the Redis backend decides "created" by EXISTS before the write in `SetHash` and
`IncrBy`, and by LLEN after RPUSH in `AppendToList` (equivalent on Redis, which has no empty lists). -/
theorem redis_created_rule_tie :
    Gen.Skel.Red_SetHash = ["Exists", "HSet", "Expire"] ∧ Gen.Skel.Red_IncrBy = ["Exists", "IncrBy", "Expire"] ∧
    Gen.Skel.Red_AppendToList = ["RPush", "LLen", "Expire"] := by decide +kernel

/-- The other rules re-stamp an existing key with the default lifetime: `HLEN == 1` (as found) when
the only field of a permanent hash is overwritten; HSET's reply (seeded regression) when a new field
is added to a permanent hash; `result == increment` (as found) for a permanent counter at 0. -/
theorem redis_created_rule_witnesses :
    (Redis.hset .lenIsOne 100 1000 [("h", ⟨.hash [("f", .int 1)], 0⟩)] "h" "f" (.int 2)).1
      = [("h", ⟨.hash [("f", .int 2)], 1100⟩)] ∧
    (Redis.hset .replyIsOne 100 1000 [("h", ⟨.hash [("f", .int 1)], 0⟩)] "h" "g" (.int 2)).1
      = [("h", ⟨.hash [("g", .int 2), ("f", .int 1)], 1100⟩)] ∧
    (TTLStore.hset 100 1000 [("h", ⟨.hash [("f", .int 1)], 0⟩)] "h" "g" (.int 2)).1
      = [("h", ⟨.hash [("g", .int 2), ("f", .int 1)], 0⟩)] ∧
    (Redis.incrBy .resultIsDelta 100 1000 [("c", ⟨.atom (.int 0), 0⟩)] "c" 5).1
      = [("c", ⟨.atom (.int 5), 1100⟩)] := by
  decide +kernel

/-- The seeded history on the Redis backend, as the predicate sees it: `GetExpiration` answering
"longer than 2 h" for a hash made permanent fails `holdsRepo`; the reference answer passes. -/
theorem redis_sethash_ttl_witness :
    holdsRepo [(1000, .hset "h" "f" (.str "x")), (1001, .expire "h" 0), (1002, .hset "h" "g" (.str "y")),
               (1003, .ttl "h")] ["ok", "ok", "ok", "dx"] = false ∧
    holdsRepo [(1000, .hset "h" "f" (.str "x")), (1001, .expire "h" 0), (1002, .hset "h" "g" (.str "y")),
               (1003, .ttl "h")] ["ok", "ok", "ok", "d0"] = true := by
  decide +kernel

/-! ## Degenerate arguments -/

/-- **`SetList` replaces the list for EVERY value list, the empty one included**: afterwards
`GetList` answers exactly the new members and `AppendToList` appends to them — nothing of the
previous value survives (reference; `C13_refines` transfers it to the memory backend, whose
histories range over all arguments: empty list, empty field, zero increment, empty key, empty value). -/
theorem C13_setList_replaces (now t : Nat) (s : Store) (k : String) (xs : List Atom) (ttl : Int)
    (h : ttl ≤ 0) (a : Atom) :
    (TTLStore.getList t (TTLStore.set now s k (.list xs) ttl).1 k).2 = .val (.list xs) ∧
    (TTLStore.getList t
      (TTLStore.append Spec.dflt t (TTLStore.set now s k (.list xs) ttl).1 k a).1 k).2 = .val (.list (xs ++ [a])) := by
  have hd : deadline now ttl = 0 := by simp [deadline, h]
  have h1 : find t (TTLStore.set now s k (.list xs) ttl).1 k = some ⟨.list xs, 0⟩ := by
    simp [TTLStore.set, find_insert_eq, hd, Entry.live]
  constructor
  · simp [TTLStore.getList, h1]
  · simp [TTLStore.getList, TTLStore.append, h1, find_insert_eq, Entry.live]

theorem repoRun_length (h : History) : ∀ s, (repoRun h s).length = h.length := by
  induction h with
  | nil => intro s; rfl
  | cons e h ih => intro s; obtain ⟨now, op⟩ := e; simp [repoRun, ih]

theorem vanishRun_length (h : History) : ∀ s, (vanishRun h s).length = h.length := by
  induction h with
  | nil => intro s; rfl
  | cons e h ih => intro s; obtain ⟨now, op⟩ := e; simp [vanishRun, ih]

theorem agree_self_left : ∀ (ws vs : List String), ws.length = vs.length →
    agreeWhereComparable ws ws vs = true := by
  intro ws
  induction ws with
  | nil => intro vs h; cases vs with
    | nil => rfl
    | cons _ _ => simp at h
  | cons w ws ih => intro vs h; cases vs with
    | nil => simp at h
    | cons v vs => simp [agreeWhereComparable, ih vs (by simpa using h)]

theorem agree_self_right : ∀ (ws vs : List String), ws.length = vs.length →
    agreeWhereComparable vs ws vs = true := by
  intro ws
  induction ws with
  | nil => intro vs h; cases vs with
    | nil => rfl
    | cons _ _ => simp at h
  | cons w ws ih => intro vs h; cases vs with
    | nil => simp at h
    | cons v vs =>
      by_cases e : w = v
      · subst e; simp [agreeWhereComparable, ih vs (by simpa using h)]
      · simp [agreeWhereComparable, e, ih vs (by simpa using h)]

/-- **What `holdsRepo` admits**, for every history: the answers of the reference itself, and the
answers of the reference with vanishing empty containers (the one respect in which Redis may
differ).  Anything else on a comparable answer is rejected (see the witnesses). -/
theorem holdsRepo_admits (h : History) :
    holdsRepo h (repoRun h TTLStore.empty) = true ∧ holdsRepo h (vanishRun h TTLStore.empty) = true := by
  have hl : (repoRun h TTLStore.empty).length = (vanishRun h TTLStore.empty).length := by
    rw [repoRun_length, vanishRun_length]
  exact ⟨agree_self_left _ _ hl, agree_self_right _ _ hl⟩

/-- Seeded regression "SetList pipeline rejects the empty list": on Redis `SetList(k, [])` fails and
the previous members stay; both the error and the stale answers fail the predicate, the reference
answers pass. -/
theorem redis_setlist_empty_witness :
    holdsRepo [(1000, .set "l" (.list [.str "x", .str "y"]) 0), (1001, .set "l" (.list []) 0),
               (1002, .getList "l"), (1003, .append "l" (.str "z")), (1004, .getList "l")]
      ["ok", "ok", "L[s78,s79]", "ok", "L[s78,s79,s7a]"] = false ∧
    holdsRepo [(1000, .set "l" (.list [.str "x", .str "y"]) 0), (1001, .set "l" (.list []) 0),
               (1002, .getList "l"), (1003, .append "l" (.str "z")), (1004, .getList "l")]
      ["ok", "ok", "L[]", "ok", "L[s7a]"] = true := by
  decide +kernel

/-- Repaired defect: Redis `CompareAndSwap` took the empty string for nil. -/
theorem redis_cas_empty_string_witness :
    holdsRepo [(1000, .set "a" (.atom (.str "")) 0), (1001, .cas "a" none (.atom (.str "x")) 0), (1002, .get "a")]
      ["ok", "T", "s78"] = false ∧
    holdsRepo [(1000, .set "a" (.atom (.str "")) 0), (1001, .cas "a" none (.atom (.str "x")) 0), (1002, .get "a")]
      ["ok", "F", "s-"] = true := by
  decide +kernel

/-! ## Findings -/

/-- Known finding `redis-hash-int-float` (not repaired): an int64 hash member written through the
Redis backend is read back as a float; the observation of the real backend fails the predicate. -/
theorem redis_hash_int_witness :
    holdsRepo [(1000, .hset "h" "f" (.int 5)), (1001, .hget "h" "f")] ["ok", "f5"] = false := by
  decide +kernel

/-- `SetNX` as found (`item.Expiration.IsZero() || time.Now().Before(item.Expiration)`). -/
def SetNX_asFound (now : Nat) (m : Data) (k : String) (v : Val) (ttl : Int) : Data × Res :=
  match m.lookup k with
  | none => (m.insert k ⟨v, expirationFor now ttl⟩, .bool true)
  | some it =>
    if it.exp == 0 || decide (now < it.exp) then (m, .bool false)
    else ((m.erase k).insert k ⟨v, expirationFor now ttl⟩, .bool true)

/-- Repaired defect (proof-forced): at the deadline instant `Get` still returned the value while
`SetNX` as found overwrote it — two methods disagreeing on whether the key exists. -/
theorem setNX_asFound_boundary_witness :
    (Get 50 [("k", ⟨.atom (.int 1), 50⟩)] "k").2 = .val (.atom (.int 1)) ∧
    (SetNX_asFound 50 [("k", ⟨.atom (.int 1), 50⟩)] "k" (.atom (.int 2)) 0).2 = .bool true ∧
    (SetNX 50 [("k", ⟨.atom (.int 1), 50⟩)] "k" (.atom (.int 2)) 0).2 = .bool false := by
  decide +kernel

/-! ## Non-vacuity -/

/-- A monotone history exercising expiry, CAS on a permanent key and `ttl = 0` in CAS. -/
def exampleHistory : History :=
  [(1000, .set "a" (.atom (.str "v")) 0), (1001, .cas "a" (some (.str "v")) (.atom (.str "w")) 0),
   (1002, .get "a"), (1003, .set "b" (.atom (.int 5)) 40), (2000, .incrBy "b" 2), (2001, .ttl "a")]

example : TTLStore.Monotone exampleHistory = true := by decide
example : C13.run exampleHistory FMap.empty =
    [.ok, .bool true, .val (.atom (.str "w")), .ok, .int 2, .dur 0] := by decide +kernel

/-- A schedule that completes two callers; the hypothesis of `C13_linearizable` is inhabited. -/
example : completes [1, 0, 0, 1] [[.setNX "a" (.atom (.str "x")) 0, .get "a"], [.setNX "a" (.atom (.str "y")) 0, .get "a"]] = true := by
  decide

/-- Hypotheses of `C13_linearizable_from` are inhabited: an expired-but-unswept key (set at 1000 for
40 ns, burst at 2000), two callers racing `SetNX` on it, a probe afterwards. -/
example :
    TTLStore.Monotone [(1000, Op.set "a" (.atom (.str "x")) 40)] = true ∧
    completes [1, 0] [[Op.setNX "a" (.atom (.str "y")) 0], [Op.setNX "a" (.atom (.str "z")) 0]] = true ∧
    (observeThreads render 2 (runSched 2000 [1, 0] (exec [(1000, Op.set "a" (.atom (.str "x")) 40)] FMap.empty)
      [[Op.setNX "a" (.atom (.str "y")) 0], [Op.setNX "a" (.atom (.str "z")) 0]])) = [["F"], ["T"]] := by
  decide +kernel

/-- Two winners of `SetNX` on an expired-but-unswept key (seeded regression "RLock fast path") are
not explained by any order. -/
theorem setNX_two_winners_witness :
    holdsBurst [(1000, Op.set "a" (.atom (.str "x")) 40)] 2000
      [[Op.setNX "a" (.atom (.str "y")) 0], [Op.setNX "a" (.atom (.str "z")) 0]] []
      ["ok"] [["T"], ["T"]] [] = false := by
  decide +kernel

end Tunnox.C13
