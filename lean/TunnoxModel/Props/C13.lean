import TunnoxModel.Model.C13
import TunnoxModel.Spec.C13
namespace Tunnox.C13
theorem placeholder : True := trivial
end Tunnox.C13
