import TunnoxModel.Proofs.C02
import TunnoxModel.Proofs.C02Reattach
import TunnoxModel.Proofs.C02RC
import TunnoxModel.Proofs.C02Xnode
/-!
# C02 — a tunnel is a transparent, ordered, loss-free byte pipe between its ends

Property theorems only.  The endpoints are scripts (what every `Read` returns,
how much every `Write` accepts), so "for all payloads, chunkings, short writes,
errors and timeouts" is the universal quantifier over scripts; "all
interleavings of the two copy directions with close and error events" is the
universal quantifier over schedules of `Bridge.run`.
-/
namespace Tunnox.C02
open Gen

/-- T2 tie: the effectful steps of the Go functions, in source order. -/
theorem skel_CopyWithControl :
    Skel.CopyWithControl = ["counter.Add", "src.Read", "waitLimiterN", "dst.Write", "counter.Add", "counter.Add"] := by
  decide
theorem skel_waitLimiterN : Skel.waitLimiterN = ["limiter.Burst", "limiter.WaitN", "limiter.WaitN"] := by decide
theorem skel_runBridgeLifecycle :
    Skel.runBridgeLifecycle =
      ["bridge.Close", "bridge.Start", "bridgeLock.Lock", "delete", "bridgeLock.Unlock", "tunnelRouting.RemoveWaitingTunnel"] := by
  decide

/-- Side condition on the regenerated constants: one read fits the batch threshold arithmetic. -/
theorem C02_consts : 0 < cloudconst.CopyBufferSize ∧ cloudconst.CopyBufferSize ≤ cloudconst.BatchUpdateThreshold := by decide

/-- **No bandwidth-limit value can make the copy fail**: for every burst `> 0` and
every read size, the limiter is asked for slices that each fit the burst and
that add up to the bytes read — so the only way the limiter step fails is
cancellation of the bridge context. -/
theorem C02_limiter_slices (burst n : Nat) (hb : 0 < burst) :
    (∀ k ∈ slices burst n n, k ≤ burst) ∧ (slices burst n n).sum = n :=
  ⟨slices_le burst hb n n, slices_sum burst hb n n (Nat.le_refl _)⟩

theorem C02_limiter_only_cancel (l : Limiter) (ev : ReadEv) :
    limiterOk l ev = (l.isNone || !ev.cancelled) := limiterOk_iff l ev

/-- **One direction, main statement**: for every read script, write script and
limiter setting, the observation of `CopyWithControl` satisfies the property:
what arrived is a prefix of what was sent, the return value and the shared
counter equal the bytes delivered, and everything arrived when nothing failed. -/
theorem C02_copy_main (l : Limiter) (rs : List ReadEv) (ws : List WriteEv) :
    holdsCopy rs ws
      ⟨(copy l rs ws {}).1.delivered, (copy l rs ws {}).1.total, (copy l rs ws {}).1.counter⟩ = true := by
  obtain ⟨p, hd, hp, ht, hc, _, hfull⟩ := copy_spec l rs ws {}
  have hd' : (copy l rs ws {}).1.delivered = p := by simpa using hd
  have ht' : (copy l rs ws {}).1.total = p.length := by simpa using ht
  have hc' : (copy l rs ws {}).1.counter = p.length := by simpa using hc
  simp only [holdsCopy, hd', ht', hc', beq_self_eq_true, Bool.and_true, Bool.and_eq_true]
  refine ⟨List.isPrefixOf_iff_prefix.mpr hp, ?_⟩
  split
  · rename_i hclean
    have hclean : cleanReadsB rs = true ∧ cleanWritesB ws (maxRead rs) = true := by simpa using hclean
    have hr : CleanReads rs := by
      intro ev hev
      have := (List.all_eq_true.mp hclean.1) ev hev
      simp only [Bool.and_eq_true, Bool.not_eq_true', bne_iff_ne, ne_eq] at this
      exact ⟨this.1, this.2⟩
    have hw : CleanWrites ws (maxRead rs) := by
      intro w hw
      have := (List.all_eq_true.mp hclean.2) w hw
      simp only [Bool.and_eq_true, Bool.not_eq_true', decide_eq_true_eq] at this
      exact ⟨this.1, this.2⟩
    have hm : ∀ ev ∈ rs, ev.data.length ≤ maxRead rs := by
      intro ev hev
      unfold maxRead
      have gen : ∀ (l : List ReadEv) (m : Nat), (∀ e ∈ l, e.data.length ≤ l.foldl (fun m ev => max m ev.data.length) m) ∧
          m ≤ l.foldl (fun m ev => max m ev.data.length) m := by
        intro l
        induction l with
        | nil => intro m; simp
        | cons a t ih =>
          intro m
          simp only [List.foldl_cons, List.mem_cons, forall_eq_or_imp]
          have h2 := (ih (max m a.data.length)).2
          refine ⟨⟨?_, (ih _).1⟩, ?_⟩
          · exact Nat.le_trans (Nat.le_max_right _ _) h2
          · exact Nat.le_trans (Nat.le_max_left _ _) h2
      exact (gen rs 0).1 ev hev
    have heof := copy_clean_eof l rs ws {} (maxRead rs) hr hw hm
    rw [hfull heof]; simp
  · rfl

/-- **Both directions concurrently, every schedule**: at every point of every
interleaving of the two copy goroutines (with limiter cancellation, read/write
errors, short writes, timeouts and blocked endpoints), what each end has
received is a prefix of what the other end sent; a direction that ran to its
end-of-stream delivered everything; the byte counters equal the bytes
delivered; and as soon as either direction has finished the bridge is closed. -/
theorem C02_bridge_main (lim : Limiter) (sr tr : List ReadEv) (sw tw : List WriteEv) (sched : List Who)
    (b : Bridge) (hb : b = Bridge.run ⟨lim, ⟨sr, sw, {}, none⟩, ⟨tr, tw, {}, none⟩, false, false⟩ sched) :
    b.s2t.st.delivered <+: allData sr ∧ b.t2s.st.delivered <+: allData tr ∧
    (b.s2t.stop = some .eof → b.s2t.st.delivered = allData sr) ∧
    (b.t2s.stop = some .eof → b.t2s.st.delivered = allData tr) ∧
    (b.s2t.stop.isSome → b.s2t.st.counter = b.s2t.st.delivered.length) ∧
    (b.t2s.stop.isSome → b.t2s.st.counter = b.t2s.st.delivered.length) ∧
    ((b.s2t.stop.isSome ∨ b.t2s.stop.isSome) → b.closed = true) := by
  subst hb
  have hinit : BInv sr tr ⟨lim, ⟨sr, sw, {}, none⟩, ⟨tr, tw, {}, none⟩, false, false⟩ :=
    ⟨DirInv_init sr sw, DirInv_init tr tw, by simp⟩
  have h := BInv_run sr tr _ sched hinit
  obtain ⟨h1, h2, h3⟩ := h
  refine ⟨DirInv_prefix h1, DirInv_prefix h2, DirInv_eof h1, DirInv_eof h2, ?_, ?_, h3⟩
  · intro hs
    obtain ⟨_, _, _, hc, hb, _, _, _⟩ := h1
    have := hb hs; omega
  · intro hs
    obtain ⟨_, _, _, hc, hb, _, _, _⟩ := h2
    have := hb hs; omega

/-- **Lifecycle**: once both directions have finished (Start returns), the
observation of the model satisfies the whole property predicate, including
"both ends closed" and "the server forgot the tunnel". -/
theorem C02_lifecycle (lim : Limiter) (sr tr : List ReadEv) (sw tw : List WriteEv) (sched : List Who)
    (hfin : (Bridge.run ⟨lim, ⟨sr, sw, {}, none⟩, ⟨tr, tw, {}, none⟩, false, false⟩ sched).finished = true) :
    holdsBridge sr tr
      (Bridge.run ⟨lim, ⟨sr, sw, {}, none⟩, ⟨tr, tw, {}, none⟩, false, false⟩ sched).lifecycleEnd.obs = true := by
  have h := C02_bridge_main lim sr tr sw tw sched _ rfl
  generalize Bridge.run ⟨lim, ⟨sr, sw, {}, none⟩, ⟨tr, tw, {}, none⟩, false, false⟩ sched = b at h hfin
  obtain ⟨hp1, hp2, he1, he2, hc1, hc2, _⟩ := h
  have hf1 : b.s2t.stop.isSome = true := by
    simp only [Bridge.finished, Bool.and_eq_true] at hfin; exact hfin.1
  have hf2 : b.t2s.stop.isSome = true := by
    simp only [Bridge.finished, Bool.and_eq_true] at hfin; exact hfin.2
  simp only [Bridge.lifecycleEnd, hfin, if_true, Bridge.obs, holdsBridge, Bridge.finished, hf1, hf2,
    Bool.and_self, Bool.and_true, hc1 hf1, hc2 hf2, beq_self_eq_true, Bool.and_eq_true]
  refine ⟨⟨⟨List.isPrefixOf_iff_prefix.mpr hp1, List.isPrefixOf_iff_prefix.mpr hp2⟩, ?_⟩, ?_⟩
  · split
    · rename_i h; simp [he1 (by simpa using h)]
    · rfl
  · split
    · rename_i h; simp [he2 (by simpa using h)]
    · rfl

/-- **"…and is all of it if neither end closed early."**  When neither end's script contains a
fault (no failing read, no cancellation, every write accepted in full and without blocking), then in
every schedule the bridge never ends by itself: a finished bridge has one direction that reached its
end-of-stream — and by `C02_bridge_main` that direction delivered everything.  (A bandwidth limit
cannot be the reason either: `C02_limiter_only_cancel`.) -/
theorem C02_no_spontaneous_close (lim : Limiter) (sr tr : List ReadEv) (sw tw : List WriteEv) (sched : List Who)
    (hff : (faultFreeDir sr tw && faultFreeDir tr sw) = true) :
    holdsNoSpontaneousClose sr tr sw tw
      (Bridge.run ⟨lim, ⟨sr, tw, {}, none⟩, ⟨tr, sw, {}, none⟩, false, false⟩ sched).lifecycleEnd.obs = true := by
  have hclean : ∀ (rs : List ReadEv) (ws : List WriteEv), faultFreeDir rs ws = true →
      DirClean (maxRead rs) ⟨rs, ws, {}, none⟩ := by
    intro rs ws h
    simp only [faultFreeDir, Bool.and_eq_true, List.all_eq_true, Bool.not_eq_true', bne_iff_ne, ne_eq,
      decide_eq_true_eq] at h
    refine ⟨fun ev hev => ⟨(h.1 ev hev).1, (h.1 ev hev).2⟩, fun w hw => ⟨(h.2 w hw).1.1, (h.2 w hw).2⟩, ?_,
      fun w hw => (h.2 w hw).1.2⟩
    intro ev hev
    unfold maxRead
    have gen : ∀ (l : List ReadEv) (m : Nat), (∀ e ∈ l, e.data.length ≤ l.foldl (fun m ev => max m ev.data.length) m) ∧
        m ≤ l.foldl (fun m ev => max m ev.data.length) m := by
      intro l
      induction l with
      | nil => intro m; simp
      | cons a t ih =>
        intro m
        simp only [List.foldl_cons, List.mem_cons, forall_eq_or_imp]
        have h2 := (ih (max m a.data.length)).2
        exact ⟨⟨Nat.le_trans (Nat.le_max_right _ _) h2, (ih _).1⟩, Nat.le_trans (Nat.le_max_left _ _) h2⟩
    exact (gen rs 0).1 ev hev
  simp only [Bool.and_eq_true] at hff
  have hinit : JInv (maxRead sr) (maxRead tr) ⟨lim, ⟨sr, tw, {}, none⟩, ⟨tr, sw, {}, none⟩, false, false⟩ :=
    ⟨hclean sr tw hff.1, hclean tr sw hff.2, by simp, by simp, by simp⟩
  have h := JInv_run _ _ _ sched hinit
  generalize Bridge.run ⟨lim, ⟨sr, tw, {}, none⟩, ⟨tr, sw, {}, none⟩, false, false⟩ sched = b at h
  obtain ⟨_, _, _, hs1, hs2⟩ := h
  simp only [holdsNoSpontaneousClose, hff.1, hff.2, Bool.and_self, if_true]
  by_cases hfin : b.finished = true
  · simp only [Bridge.lifecycleEnd, hfin, if_true, Bridge.obs]
    simp only [Bridge.finished, Bool.and_eq_true] at hfin
    obtain ⟨x, hx⟩ := Option.isSome_iff_exists.mp hfin.1
    rcases hs1 x hx with e | e
    · subst e; simp [hx, Bridge.finished, hfin.1, hfin.2]
    · rcases e with e | e
      · simp [e, Bridge.finished, hfin.1, hfin.2]
      · simp [e, Bridge.finished, hfin.1, hfin.2]
  · have hf : b.finished = false := by simpa using hfin
    simp [Bridge.lifecycleEnd, hf, Bridge.obs]

/-! ### A tunnel whose target end is attached on another node (two relay hops) -/

/-- **Across two nodes, any faults**: whatever the read and write scripts of the two hops and however the
cross-node connection segments the stream, what arrives at the far end is a prefix of what was sent, and it is
all of it when both hops ran to the end of their stream. -/
theorem C02_xnode_prefix (rs : List ReadEv) (ws1 ws2 : List WriteEv) (cut : Bytes → List Bytes)
    (hcut : ∀ d, (cut d).flatten = d) :
    (relay2 rs ws1 cut ws2).1.delivered <+: allData rs ∧
    ((relay2 rs ws1 cut ws2).2.1 = .eof → (relay2 rs ws1 cut ws2).2.2 = .eof →
      (relay2 rs ws1 cut ws2).1.delivered = allData rs) := by
  obtain ⟨p1, hd1, hp1, _, _, _, hf1⟩ := copy_spec none rs ws1 {}
  obtain ⟨p2, hd2, hp2, _, _, _, hf2⟩ :=
    copy_spec none (writesAsReads (cut (copy none rs ws1 {}).1.delivered)) ws2 {}
  have hd1' : (copy none rs ws1 {}).1.delivered = p1 := by simpa using hd1
  have hd2' : (copy none (writesAsReads (cut (copy none rs ws1 {}).1.delivered)) ws2 {}).1.delivered = p2 := by
    simpa using hd2
  rw [allData_writesAsReads, hcut] at hp2 hf2
  simp only [relay2]
  rw [hd2']
  refine ⟨List.IsPrefix.trans (hd1' ▸ hp2) hp1, fun h2 h1 => ?_⟩
  rw [hf2 h2, hd1', hf1 h1]

/-- **Across two nodes, neither end closing early** (every write size, every number of writes, every
segmentation by the cross-node connection — no deadline or timer appears in the relays): everything each end
wrote reaches the other end, followed by the end of the stream. -/
theorem C02_xnode_main (down up : List Bytes) (cutD cutU : Bytes → List Bytes)
    (hD : ∀ d, (cutD d).flatten = d) (hU : ∀ d, (cutU d).flatten = d) :
    holdsXnode down up (xnodeObs down up cutD cutU) = true := by
  have one : ∀ (cs : List Bytes) (cut : Bytes → List Bytes), (∀ d, (cut d).flatten = d) →
      (relay2 (writesAsReads cs) [] cut []).1.delivered = cs.flatten ∧
      (relay2 (writesAsReads cs) [] cut []).2.1 = .eof ∧ (relay2 (writesAsReads cs) [] cut []).2.2 = .eof := by
    intro cs cut hcut
    obtain ⟨h1d, h1e⟩ := copy_writesAsReads cs
    simp only [relay2]
    rw [h1d]
    obtain ⟨h2d, h2e⟩ := copy_writesAsReads (cut cs.flatten)
    exact ⟨by rw [h2d, hcut], h2e, h1e⟩
  obtain ⟨a1, a2, a3⟩ := one down cutD hD
  obtain ⟨b1, b2, b3⟩ := one up cutU hU
  simp [holdsXnode, xnodeObs, a1, a2, a3, b1, b2, b3]

/-- Non-vacuity: a concrete two-way run through both hops, the connection cutting the stream into single
bytes, satisfies the predicate — and a run that lost the tail of one direction does not. -/
example : holdsXnode [[1, 2], [3]] [[9]] (xnodeObs [[1, 2], [3]] [[9]] (fun d => d.map ([·])) (fun d => [d])) = true := by
  decide
example : holdsXnode [[1, 2], [3]] [[9]] ⟨[1, 2], [9], true, true⟩ = false := by decide

/-- T2 tie: the target node's relay is two plain `io.Copy` loops, each followed by a half-close of the side it
wrote to, and the attach path writes the ready frame and hands the same connection to that relay — nothing
between dial and relay arms a timer on it. -/
theorem skel_forwardToSourceNode :
    Skel.forwardToSourceNode = ["tunnelConnMgr.CreateDedicatedConnection", "crossNodePool.Get",
      "crossConn.GetTCPConn", "WriteFrame", "runCrossNodeDataForwardDedicated"] := by decide
theorem skel_runCrossNodeDataForwardDedicated :
    Skel.runCrossNodeDataForwardDedicated = ["tunnelConnMgr.CloseTunnel", "tcpConn.Close", "netConn.Close",
      "io.Copy", "tcpConn.CloseWrite", "io.Copy", "tcpLocal.CloseWrite"] := by decide
theorem skel_runBridgeForward :
    Skel.runBridgeForward = ["bridge.ReleaseCrossNodeConnection", "bridge.Close", "sourceForwarder.Close",
      "io.Copy", "tcpConn.CloseWrite", "io.Copy", "closer.CloseWrite", "tcpSource.CloseWrite"] := by decide

/-! ### Re-attached source connections -/

/-- T2 tie: `Bridge.Start` sets up its forwarders under the locks `Close` and `SetSourceConnection` write
them under (fix eab71ba), its source goroutine re-reads the installed forwarder under `sourceConnMu`
before and after every copy, and `dynamicSourceWriter.Write` reads it for every write. -/
theorem skel_Start_sourceLoop :
    Skel.Bridge_Start =
      ["tunnelConnMu.Lock", "sourceConnMu.Lock", "CreateDataForwarder", "sourceConnMu.Unlock", "CreateDataForwarder",
       "tunnelConnMu.Unlock",
       "sourceConnMu.RLock", "sourceConnMu.RUnlock", "b.CopyWithControl", "sourceConnMu.RLock", "sourceConnMu.RUnlock",
       "b.CopyWithControl"] := by decide
/-- `SetSourceConnection` publishes the new forwarder under the mutex the readers take (the model's
"installed forwarder" is one atomic cell; the race-detector build of the harness checks the rest). -/
theorem skel_SetSourceConnection :
    Skel.Bridge_SetSourceConnection =
      ["tunnelConnMu.Lock", "tunnelConnMu.Unlock", "CreateDataForwarder", "sourceConnMu.Lock", "sourceConnMu.Unlock",
       "tunnelConnMu.Unlock"] := by
  decide
theorem skel_dynamicSourceWriter :
    Skel.dynamicSourceWriter_Write = ["sourceConnMu.RLock", "sourceConnMu.RUnlock", "sourceForwarder.Write"] := by decide

/-- **Source re-attachment, every script**: whatever the read scripts of the successive source
connections, the points at which they are replaced, the target's write script and the limiter, the
target receives one prefix of each connection's stream, in the order the connections were
installed — nothing is duplicated, reordered or taken from a connection out of turn — and the byte
counter equals the bytes delivered. -/
theorem C02_reattach_delivery (l : Limiter) (gens : List SrcGen) (ws : List WriteEv) :
    ∃ ps : List Bytes, Prefixes ps (gens.map (fun g => allData g.reads)) ∧
      (sourceLoop l gens ws {}).1.delivered = ps.flatten ∧
      (sourceLoop l gens ws {}).1.counter = (sourceLoop l gens ws {}).1.delivered.length := by
  obtain ⟨ps, hp, hd, hc, _⟩ := sourceLoop_spec l gens ws {} rfl
  refine ⟨ps, hp, by simpa using hd, ?_⟩
  rw [hc, hd]; simp

/-- **Nothing is lost across a re-attachment**: when no connection's script contains a fault, the
target accepts what it is given and every connection is replaced only after it has been read to its
end, the target receives every byte every source connection sent, and the loop ends with the last
connection's end-of-stream. -/
theorem C02_reattach_lossless (l : Limiter) (m : Nat) (gens : List SrcGen) (ws : List WriteEv)
    (hr : ∀ g ∈ gens, CleanReads g.reads ∧ g.attachAt ≤ g.reads.length ∧ ∀ ev ∈ g.reads, ev.data.length ≤ m)
    (hw : CleanWrites ws m) (hne : gens ≠ []) :
    (sourceLoop l gens ws {}).1.delivered = (gens.map (fun g => allData g.reads)).flatten ∧
    (sourceLoop l gens ws {}).2 = .eof := by
  have h := sourceLoop_clean l m gens ws {} hr hw hne
  simpa using h

/-- **Re-attachment, main statement**: the model's observation of a run in which the source end
re-attaches satisfies the property predicate the harness applies to the real bridge: the target's
bytes decompose into prefixes of the connections' streams (all of them when nothing failed), what
the source connections received is, in connection order, a prefix of what the target sent, each
replaced connection got exactly the bytes written while it was installed, both current ends are
closed, the tunnel is forgotten and the counters say what was delivered. -/
theorem C02_reattach_main (l : Limiter) (gens : List SrcGen) (tgt : List ReadEv) :
    holdsReattach gens tgt (pausePoints l gens [] {}) (reattachObs l gens tgt) = true := by
  obtain ⟨ps, hp, hd, hc⟩ := C02_reattach_delivery l gens []
  have hlen := expectedPerSource_length (pausePoints l gens [] {}) tgt gens.length
  simp only [holdsReattach, reattachObs, Bool.and_true, beq_self_eq_true, Bool.and_eq_true, hc]
  refine ⟨⟨⟨?_, ?_⟩, ?_⟩, ?_⟩
  · rw [hd]; exact matchGens_of_prefixes _ _ hp
  · split
    · rename_i hclean
      cases hg : gens with
      | nil => simp [sourceLoop]
      | cons g gs =>
        have hne : gens ≠ [] := by rw [hg]; simp
        let m := ((gens.flatMap (·.reads)).map (·.data.length)).sum
        have hle : ∀ (xs : List Nat) (x : Nat), x ∈ xs → x ≤ xs.sum := by
          intro xs; induction xs with
          | nil => intro x hx; cases hx
          | cons a t ih =>
            intro x hx
            rcases List.mem_cons.mp hx with rfl | h
            · simp
            · have := ih x h; simp; omega
        have hr : ∀ g ∈ gens, CleanReads g.reads ∧ g.attachAt ≤ g.reads.length ∧ ∀ ev ∈ g.reads, ev.data.length ≤ m := by
          intro g hgm
          have hc := (List.all_eq_true.mp hclean) g hgm
          simp only [Bool.and_eq_true, decide_eq_true_eq] at hc
          refine ⟨?_, hc.2, ?_⟩
          · intro ev hev
            have := (List.all_eq_true.mp hc.1) ev hev
            simp only [Bool.and_eq_true, Bool.not_eq_true', bne_iff_ne, ne_eq] at this
            exact ⟨this.1, this.2⟩
          · intro ev hev
            apply hle
            exact List.mem_map.mpr ⟨ev, List.mem_flatMap.mpr ⟨g, hgm, hev⟩, rfl⟩
        have := (C02_reattach_lossless l m gens [] hr (by intro w hw; cases hw) hne).1
        rw [← hg, this]; simp
    · rfl
  · exact List.isPrefixOf_iff_prefix.mpr (expectedPerSource_prefix _ _ _)
  · split
    · exact perSourceOk_refl _ _ _
    · simp [hlen]

/-- The schedule-independent part of the predicate (applied to free-running runs) follows. -/
theorem C02_reattach_free (l : Limiter) (gens : List SrcGen) (tgt : List ReadEv) :
    holdsReattachFree gens tgt (reattachObs l gens tgt) = true := by
  have h := C02_reattach_main l gens tgt
  have hlen := expectedPerSource_length (pausePoints l gens [] {}) tgt gens.length
  simp only [holdsReattach, Bool.and_eq_true] at h
  simp only [holdsReattachFree, Bool.and_eq_true]
  obtain ⟨⟨⟨⟨⟨⟨⟨⟨⟨h1, h2⟩, h3⟩, _⟩, h5⟩, h6⟩, h7⟩, h8⟩, h9⟩, h10⟩ := h
  refine ⟨⟨⟨⟨⟨⟨⟨⟨⟨h1, h2⟩, h3⟩, ?_⟩, h5⟩, h6⟩, h7⟩, h8⟩, h9⟩, h10⟩
  simp [reattachObs, hlen]

/-- A re-attached run: the second connection's bytes follow the first's; a connection replaced
before its script ended keeps the loop going (tests of the model, not the theorem). -/
example :
    (sourceLoop none [⟨[⟨[1, 2], none, false, 0⟩], 1⟩, ⟨[⟨[3], none, false, 0⟩, ⟨[4], some .fatal, false, 0⟩], 0⟩] [] {}).1.delivered
      = [1, 2, 3, 4] := by decide
example : gensClean [⟨[⟨[1, 2], none, false, 0⟩], 1⟩, ⟨[⟨[3], none, false, 0⟩], 1⟩] = true := by decide

/-- **Re-attachment, every interleaving**: for every schedule of the two copy goroutines and of
re-attachments of the source end (any number of them, at any moment — also several during one copy,
in which case the connections in between are never read), with any scripts, write scripts and
limiter: the target has received one prefix of each source connection's stream, in attach order
(nothing duplicated, reordered or taken out of turn); what the source connections have received is,
in attach order, a prefix of what the target sent — all of it once the target's stream ended — and a
direction that reached the end of the last installed connection's stream delivered all of it. -/
theorem C02_reattach_concurrent (lim : Limiter) (g : List ReadEv) (gs : List (List ReadEv)) (tw sw : List WriteEv)
    (tgt : List ReadEv) (evs : List REv) (b : RBridge) (hb : b = (RBridge.init lim g gs tw tgt sw).run evs) :
    (∃ ps, Prefixes ps ((g :: gs).map allData) ∧ b.toTarget = ps.flatten) ∧
    b.perSrc.flatten <+: allData tgt ∧
    (b.tdir.stop = some .eof → b.perSrc.flatten = allData tgt) ∧
    (b.sdir.stop = some .eof → b.sdir.st.delivered = allData b.now) := by
  subst hb
  have hinv := RInv_run tgt _ evs (RInv_init lim g gs tw tgt sw)
  have hg := gens_run (RBridge.init lim g gs tw tgt sw) evs
  generalize (RBridge.init lim g gs tw tgt sw).run evs = b at hinv hg
  obtain ⟨h1, ⟨ps, hps, hdone⟩, h3, h4⟩ := hinv
  have hgens : (g :: gs) = b.past ++ [b.now] ++ b.inst ++ b.future := by
    rw [← RBridge.gens, hg]; simp [RBridge.gens, RBridge.init]
  refine ⟨?_, ?_, ?_, DirInv_eof h1⟩
  · refine ⟨ps ++ [b.sdir.st.delivered] ++ List.replicate ((b.inst ++ b.future).map allData).length [], ?_, ?_⟩
    · rw [hgens]
      simp only [List.map_append, List.map_cons, List.map_nil, List.append_assoc]
      have := Prefixes_append (Prefixes_append hps (.cons (DirInv_prefix h1) .nil))
        (Prefixes_nils ((b.inst ++ b.future).map allData))
      simpa [List.append_assoc] using this
    · simp [RBridge.toTarget, hdone, replicate_nil_flatten']
  · rw [h4]; exact DirInv_prefix h3
  · intro he; rw [h4]; exact DirInv_eof h3 he

/-- A schedule in which the source re-attaches twice during the first copy: the middle connection is
never read, the last one is (a test of the model). -/
example :
    ((RBridge.init none [⟨[1], none, false, 0⟩] [[⟨[2], none, false, 0⟩], [⟨[3], none, false, 0⟩]] [] [] []).run
      [.attach, .attach, .s2t, .s2t, .s2t, .s2t]).toTarget = [1, 3] := by decide

/-! ### Closure does not wait for the statistics backend -/

/-- **The other end observes closure however slow the statistics backend is**: running the steps of
`Bridge.Close` — the list regenerated from the source — closes both endpoints whether or not the
final traffic report ever returns; and when it does return, it has run (once). -/
theorem C02_close_endpoints_first (stall : Bool) :
    (closeRun stall Skel.Bridge_Close {}).srcClosed = true ∧ (closeRun stall Skel.Bridge_Close {}).tgtClosed = true ∧
    (closeRun stall Skel.Bridge_Close {}).reported = !stall := by
  cases stall <;> decide

/-- The order matters: with the report first, a stalled backend leaves both ends open (a test of the model). -/
example : (closeRun true ["ManagerBase.Close", "sourceConn.Close", "targetConn.Close"] {}).srcClosed = false := by decide

/-! ### Non-vacuity -/

/-- A script with a timeout, a short write and an error mid-way: the model
loses nothing before the failure (a test of the model, not the theorem). -/
example :
    (copy (some 4) [⟨[1, 2, 3], none, false, 0⟩, ⟨[], some .timeout, false, 0⟩, ⟨[4, 5, 6, 7, 8], none, false, 0⟩]
      [⟨3, false, false⟩, ⟨2, false, false⟩] {}).1.delivered = [1, 2, 3, 4, 5] := by decide

/-- A finished two-direction run exists (the hypothesis of `C02_lifecycle` is satisfiable). -/
example :
    (Bridge.run ⟨none, ⟨[⟨[1], none, false, 0⟩], [], {}, none⟩, ⟨[⟨[2], none, false, 0⟩], [], {}, none⟩, false, false⟩
      [.s2t, .t2s, .s2t, .t2s]).finished = true := by decide

end Tunnox.C02
