import TunnoxModel.Proofs.C19SimK
import TunnoxModel.Proofs.C19Fault
import TunnoxModel.Proofs.C19Reg
import TunnoxModel.Proofs.C19Sys
/-!
# C19 — a public domain routes only to its single rightful owner

Property theorems only (helper lemmas live in `Proofs/C19*.lean`).  All `∀ schedule` statements are about
`model`, the executable interleaving model the driver runs (`Model/C19.lean`), for the `.repaired`
variant of `DeleteMapping` (the tree after the `fix:` commit); the `.asFound` variant has a witness theorem.
A schedule is an arbitrary list of thread ids; histories are arbitrary lists of create / delete / update /
lookup operations per client thread; hosts and names are arbitrary strings.

`holds` (Spec/C19.lean) is the conjunction of five clauses (`own`, `auth`, `claim`, `look`, `final`); `C19_main`
proves all five for every input (threads, histories, schedules), with the single hypothesis `variant = .repaired`.
The proof is a simulation between the monitor's state and the model's configuration, carried through every slot of
every run (`Proofs/C19Own`, `C19SimF`, `C19SimU`, `C19SimK` on top of the inductive invariant `Inv`).
-/
namespace Tunnox.C19
open Gen

/-! ### ties to the source (regenerated on every run) -/

/-- `CreateMapping`: base-domain check, id generation, validation, atomic index claim (SetNX), rollbacks, data,
client list, global list — in this order. -/
theorem skel_CreateMapping : Skel.CreateMapping =
    ["isBaseDomainSupported", "generateMappingID", "Validate", "HTTPDomainIndexKey", "SetNX", "storage.Delete",
     "HTTPDomainMappingKey", "storage.Set", "storage.Delete", "addToClientMappingList", "storage.Delete",
     "storage.Delete", "addToGlobalMappingList"] := by decide

/-- `DeleteMapping` (repaired): read, claim the deletion (SetNX, deferred release), read the index, delete
index / data, list removals. -/
theorem skel_DeleteMapping : Skel.DeleteMapping =
    ["GetMapping", "HTTPDomainDeleteClaimKey", "SetNX", "storage.Delete", "HTTPDomainIndexKey", "storage.Get",
     "storage.Delete", "HTTPDomainMappingKey", "storage.Delete", "removeFromClientMappingList",
     "removeFromGlobalMappingList"] := by decide

theorem skel_UpdateMapping : Skel.UpdateMapping = ["GetMapping", "Validate", "HTTPDomainMappingKey", "storage.Set"] := by
  decide

theorem skel_LookupByDomain : Skel.LookupByDomain = ["HTTPDomainIndexKey", "storage.Get", "GetMapping"] := by decide
theorem skel_GetMapping : Skel.GetMapping = ["HTTPDomainMappingKey", "storage.Get"] := by decide
theorem skel_generateMappingID : Skel.generateMappingID = ["Incr"] := by decide

/-- `lookupMapping`: normalise the host, repository first, fall through only on "mapping not found", then the
registry, then cloud control (whose answer is cached in the registry). -/
theorem skel_lookupMapping : Skel.lookupMapping =
    ["extractDomain", "lookupFromRepositoryWithRepo", "IsCode", "registry.LookupByHost",
     "CloudControl.GetPortMappingByDomain", "registry.Register"] := by decide

theorem skel_lookupFromRepository : Skel.lookupFromRepositoryWithRepo =
    ["repo.LookupByDomain", "IsActive", "IsExpired", "convertHTTPDomainMappingToPortMapping"] := by decide

/-- `DomainRegistry`: lock facts.  `Register` checks the base domain under the read lock, then decides "owned by a
different mapping ID?" and stores the new owner inside ONE write-locked section (lock, deferred unlock, then both
accesses to `r.mappings`; no read-locked `Lookup` in between); `Unregister` and `Lookup` are one section each. -/
theorem skel_Registry :
    Skel.Registry_Register = ["FullDomain", "IsBaseDomainAllowed", "mu.Lock", "defer mu.Unlock", "@r.mappings", "@r.mappings"] ∧
    Skel.Registry_Unregister = ["mu.Lock", "defer mu.Unlock", "@r.mappings", "@r.mappings"] ∧
    Skel.Registry_Lookup = ["mu.RLock", "defer mu.RUnlock", "@r.mappings"] ∧
    Skel.Registry_IsBaseDomainAllowed = ["mu.RLock", "defer mu.RUnlock", "@r.baseDomains", "@r.baseDomains"] ∧
    Skel.Registry_LookupByHost = ["Lookup"] := by decide

/-- `UnregisterByMappingID` finds the entry of the mapping ID and deletes it inside ONE write-locked section (no
read-locked scan followed by a delete by name); `Rebuild` replaces the map inside one write-locked section. -/
theorem skel_Registry_removals :
    Skel.Registry_UnregisterByMappingID = ["mu.Lock", "defer mu.Unlock", "@r.mappings", "@r.mappings"] ∧
    Skel.Registry_Rebuild = ["mu.Lock", "defer mu.Unlock", "@r.mappings", "@r.mappings", "@r.mappings"] := by decide

/-- Entry points around the repository: the create handler takes the identity from the connection (`ctx.ClientID`),
asks the checker, then the creator (defaults 80 / 443 / 7·24·3600 s); the delete handler passes `ctx.ClientID` and the
requested id; the adapter creates then updates (expiry), deletes with the given client; cleanup lists, tests `IsExpired`
and deletes with the mapping's own client; the proxy looks up `r.Host` and sends to the mapping's `TargetClientID`. -/
theorem skel_entry_points :
    Skel.CreateHandler_Handle = ["@ctx.ClientID", "@ctx.ClientID", "checker.IsBaseDomainAllowed", "checker.IsSubdomainAvailable",
      "@req.MappingTTL", "creator.CreateHTTPDomainMapping", "@ctx.ClientID"] ∧
    Skel.CreateHandler_Handle_lits = [0, 80, 443, 0, 7, 24, 3600] ∧
    Skel.DeleteHandler_Handle = ["@ctx.ClientID", "@ctx.ClientID", "@req.MappingID", "deleter.DeleteHTTPDomainMapping",
      "@ctx.ClientID", "@req.MappingID", "@req.MappingID"] ∧
    Skel.Adapter_Create = ["repo.CreateMapping", "@clientID", "repo.UpdateMapping", "repo.UpdateMapping"] ∧
    Skel.Adapter_Delete = ["repo.DeleteMapping", "@mappingID", "@clientID", "@mappingID"] ∧
    Skel.Adapter_IsSubdomainAvailable = ["repo.CheckSubdomainAvailable"] ∧
    Skel.CheckSubdomainAvailable = ["HTTPDomainIndexKey", "storage.Exists"] ∧
    Skel.CleanupExpiredMappings = ["ListAllMappings", "IsExpired", "DeleteMapping", "@mapping.ID", "@mapping.ClientID"] ∧
    Skel.handleSmallRequest = ["lookupMapping", "@r.Host", "GetControlConnectionInterface", "@mapping.TargetClientID",
      "buildProxyRequest", "SendHTTPProxyRequest", "@mapping.TargetClientID"] := by decide

/-- The large-request and WebSocket paths reach the same `lookupMapping(r.Host)` and hand the tunnel to the mapping's
`TargetClientID` (second and third path to the routing decision; driven through ServeHTTP only for small requests). -/
theorem skel_other_proxy_paths :
    Skel.handleLargeRequest = ["lookupMapping", "@r.Host", "@mapping.TargetClientID", "@r.Host", "RequestTunnelForHTTP", "@mapping.TargetClientID"] ∧
    Skel.handleUserWebSocket = ["lookupMapping", "@r.Host", "@mapping.TargetClientID", "@r.Host", "RequestTunnelForHTTP", "@mapping.TargetClientID"] := by
  decide

/-- the handler's default lifetime is the model's -/
theorem C19_default_ttl : defaultTTL = 604800 := by decide

/-- Side condition on the key prefixes: keys of the four families (index, record, delete claim, client list)
and the two fixed keys never collide, so the model's separate maps are faithful. -/
theorem C19_key_families_disjoint :
    let ps := [repos.KeyPrefixHTTPDomainMapping, repos.KeyPrefixHTTPDomainIndex, repos.KeyPrefixHTTPDomainClient,
               repos.KeyPrefixHTTPDomainDeleting]
    (∀ a ∈ ps, ∀ b ∈ ps, a ≠ b → ¬ a.toList.isPrefixOf b.toList) ∧
    (∀ a ∈ ps, ¬ a.toList.isPrefixOf repos.KeyHTTPDomainNextID.toList ∧
               ¬ a.toList.isPrefixOf repos.KeyHTTPDomainMappingList.toList) := by
  decide

/-- The delete claim's lease is positive (a zero TTL would mean "never expires" on the in-memory store). -/
theorem C19_claim_lease_positive : 0 < repos.HTTPDomainDeleteClaimTTL := by decide

/-! ### inputs: every Host header spelling -/

/-- `extractDomain` on a host without a colon is the host; on `name:port` (no colon in the port part) it is the
name — for every name, also one that itself contains colons (IPv6 literal in brackets). -/
theorem C19_host_with_or_without_port (name port : String) (hp : ':' ∉ port.toList) :
    extractDomain (name ++ ":" ++ port) = name ∧ (':' ∉ name.toList → extractDomain name = name) := by
  constructor
  · unfold extractDomain
    have : (name ++ ":" ++ port).toList = name.toList ++ ':' :: port.toList := by simp
    rw [this, extractDomainL_port _ _ hp, String.ofList_toList]
  · intro hn
    unfold extractDomain
    rw [extractDomainL_nocolon _ hn, String.ofList_toList]

/-- For every Host header (any string: ports, empty port, IPv6 literals, upper case, junk), the key the
lookup uses is a name the header denotes (`nameOK`), and it is the only colon-free such name. -/
theorem C19_host_key (host : String) :
    nameOK host (extractDomain host) = true ∧
    ∀ d, colonFree d = true → nameOK host d = true → extractDomain host = d :=
  ⟨nameOK_extractDomain host, fun d hd h => extractDomain_of_nameOK host d hd h⟩

/-! ### one lookup step: what can be routed -/

/-- **Inactive or expired mappings do not route**, and a routed answer of the repository stage is exactly
client and target of the record read under the index entry of the normalised host. -/
theorem C19_lookup_repo_stage (cf : Config) (s : Store) (host : String) (n : Nat) (r : Rec)
    (hd : s.data n = some r) :
    (repos.HTTPDomainMapping.IsActive cf.now r = false →
      ∃ code, (stepLookup cf s host (.lData n)).2.2 = some (.err code)) ∧
    (repos.HTTPDomainMapping.IsActive cf.now r = true →
      (stepLookup cf s host (.lData n)).2.2 = some (.route r.ID r.ClientID r.TargetHost r.TargetPort)) := by
  constructor
  · intro h
    simp only [stepLookup, hd, h]
    by_cases he : repos.HTTPDomainMapping.IsExpired cf.now r = true
    · exact ⟨coreerrors.CodeForbidden, by simp [he]⟩
    · exact ⟨coreerrors.CodeUnavailable, by simp [he]⟩
  · intro h
    simp [stepLookup, hd, h, routeOf, toPM]

/-- The translated predicate: active status and not expired (`ExpiresAt = 0` never expires). -/
theorem C19_isActive_iff (now : Nat) (r : Rec) :
    repos.HTTPDomainMapping.IsActive now r = true ↔
      r.Status = repos.HTTPDomainMappingStatusActive ∧ (r.ExpiresAt = 0 ∨ now ≤ r.ExpiresAt) := by
  unfold repos.HTTPDomainMapping.IsActive repos.HTTPDomainMapping.IsExpired
  by_cases h0 : r.ExpiresAt = 0
  · simp [h0]
  · simp [h0, Nat.not_lt]

/-- A registry / cloud-control mapping is routed only if it is active, not revoked and not expired. -/
theorem C19_lookup_foreign_checked (now : Nat) (m : PM) (a : String) (b : Nat) (c : String) (d : Nat)
    (h : pmCheck now m = .route a b c d) :
    pmRoutable now m = true ∧ a = m.ID ∧ b = m.client ∧ c = m.thost ∧ d = m.tport :=
  pmCheck_route h

/-! ### one delete: only the owner, and the name is free afterwards -/

/-- A delete request by a client other than the record's client is refused and changes nothing. -/
theorem C19_foreign_delete_refused (cf : Config) (s : Store) (n cl : Nat) (r : Rec) (hd : s.data n = some r)
    (hne : r.ClientID ≠ cl) :
    stepDelete cf s n cl .dGet = (s, .idle, some (.err coreerrors.CodeForbidden)) :=
  stepDelete_forbidden hd hne

/-! ### all schedules -/

/-- Invariant and all monitor simulations together. -/
structure AllSim (i : Input) (c : Cfg) (m : Mon) : Prop where
  inv : Inv i.cf (allOps i) (i.reg ++ i.cf.cloud) c
  own : Sim c m
  fly : SimF c m
  upd : SimU i.cf.now c m
  look : SimK c m

/-- The invariant and the monitor simulations hold along every run of the repaired model. -/
theorem C19_run (i : Input) (hv : i.cf.variant = .repaired) :
    ∃ c, AllSim i c (monRun i (model i).slots) ∧ (model i).final = finalOf i c.st :=
  model_induction i (AllSim i)
    ⟨Inv.init i, Sim.init i, SimF.init i, SimU.init _ i, SimK.init i⟩
    (fun _ _ t h => ⟨h.inv.step t, h.own.step i h.inv hv t, h.fly.step i h.inv t, h.upd.step i h.inv rfl t,
      h.look.step i h.inv hv h.own h.fly h.upd t⟩)

/-- **Single owner.**  For every set of client threads, every history of create / delete / update / lookup
operations on arbitrary (overlapping) names and every interleaving of their storage steps: two mappings whose
`CreateMapping` returned ok and whose own client has not asked for their deletion never have the same full
domain — many clients claiming one name at once included. -/
theorem C19_single_owner (i : Input) (hv : i.cf.variant = .repaired) : holdsOwn i (model i) = true := by
  obtain ⟨c, h, _⟩ := C19_run i hv
  exact h.own.own

/-- **Only the owning client can delete.**  In every interleaving, a delete by another client that is invoked
while the mapping is certainly owned, and returns while it still is, is answered FORBIDDEN (and, by
`C19_single_owner` / `C19_final_store`, leaves index and record in place). -/
theorem C19_owner_only_delete (i : Input) (hv : i.cf.variant = .repaired) : holdsAuth i (model i) = true := by
  obtain ⟨c, h, _⟩ := C19_run i hv
  exact h.own.auth

/-- **Final store.**  After every run, each mapping that is still certainly owned is indexed under its full
domain and stored with its client (so a lookup of its name reaches it and nobody else can claim the name). -/
theorem C19_final_store (i : Input) (hv : i.cf.variant = .repaired) : holdsFinal i (model i) = true := by
  obtain ⟨c, h, hf⟩ := C19_run i hv
  have hI := h.inv
  have hS := h.own
  unfold holdsFinal finalOK
  rw [hf, List.all_eq_true]
  intro x hx
  have hs := hS.certain x.1 x.2.1 x.2.2 hx
  obtain ⟨hidx, r, hr, hrd, hrc⟩ := hs.stored hI hv
  obtain ⟨⟨o, ho, hod, _⟩, _, _⟩ := hs
  simp only [Bool.and_eq_true]
  constructor
  · rw [List.contains_iff_mem]
    simp only [finalOf, List.mem_filterMap, List.mem_eraseDups]
    refine ⟨x.2.1, ?_, by simp [hidx]⟩
    rw [← hod]; exact hI.bornDom _ _ ho
  · rw [List.any_eq_true]
    refine ⟨(x.1, r), ?_, by simp [hrd, hrc]⟩
    simp only [finalOf, List.mem_filterMap]
    refine ⟨x.1, ?_, by simp [hr]⟩
    have := hI.bornRange _ _ ho
    rw [List.mem_range']
    exact ⟨x.1 - 1, by omega, by omega⟩

/-- **Claimable again.**  In every interleaving, a `CreateMapping` answered ALREADY_EXISTS overlapped a possible
holder of that full domain: a mapping created for it and not yet released (released = a delete by its own client,
invoked after the create had returned, came back ok), or another create for the same name in flight.  Hence after
the owner's delete has returned and with nobody else claiming, a create by anyone succeeds. -/
theorem C19_claimable_again (i : Input) (hv : i.cf.variant = .repaired) : holdsClaim i (model i) = true := by
  obtain ⟨c, h, _⟩ := C19_run i hv
  exact h.fly.claim

/-- **Routing.**  In every interleaving, every routed lookup observation — judged with what an outside observer knows
at that point of the history — names client and target of (a) a mapping of the repository whose full domain the
Host denotes, whose create has returned or is in flight, that had not been released when the lookup was invoked
(after the owner's delete has returned the name no longer routes), that was not known-inactive / expired for the
whole lookup, with its created target or one written by an update; or (b) a routable registry / cloud-control
mapping for that name, and then only if no mapping of the repository certainly owned the name during the lookup. -/
theorem C19_lookup_observations (i : Input) (hv : i.cf.variant = .repaired) : holdsLook i (model i) = true := by
  obtain ⟨c, h, _⟩ := C19_run i hv
  exact h.look.look

/-- **C19, the whole monitor statement.**  For every set of client threads, every history of create / delete /
update / lookup operations per thread (arbitrary names, hosts, clients, ids), every registry / cloud table and every
schedule of storage steps (then drained), the observation of the repaired model satisfies `holds`: the very
predicate the runner evaluates on the observations of the real code. -/
theorem C19_main (i : Input) (hv : i.cf.variant = .repaired) : holds i (model i) = true := by
  unfold holds
  rw [C19_single_owner i hv, C19_owner_only_delete i hv, C19_claimable_again i hv, C19_lookup_observations i hv,
    C19_final_store i hv]
  rfl

/-- In every reachable state of every interleaving (both variants): index entries point at mappings born under
that very name, stored records agree with the origin of their number, and (repaired) every mapping whose own
client never asked for its deletion is indexed under its name. -/
theorem C19_reachable_invariant (i : Input) (ts : List Nat) :
    Inv i.cf (allOps i) (i.reg ++ i.cf.cloud) (runSched i.cf (initCfg i) ts).1 := by
  have key : ∀ (ts : List Nat) c, Inv i.cf (allOps i) (i.reg ++ i.cf.cloud) c →
      Inv i.cf (allOps i) (i.reg ++ i.cf.cloud) (runSched i.cf c ts).1 := by
    intro ts
    induction ts with
    | nil => intro c h; exact h
    | cons t ts ih => intro c h; exact ih _ (h.step t)
  exact key ts _ (Inv.init i)

/-- **Routing soundness in every interleaving** (both variants).  After any schedule `ts`, if the next step of
thread `t` makes its lookup of `host` route to `(pid, client, target)`, then either
* `RepoSource`: `pid` is mapping `n` whose index claim (the atomic SetNX) was made for exactly the name
  `extractDomain host` (which the Host denotes: `C19_host_key`), `client` is that claimant's client, the record
  read is active and not expired, and the target is the created one or one written by an update of `n`; or
* `ForeignSource`: a registry / cloud-control mapping registered under that name, active, not revoked, not expired.
No other client's mapping and no inactive / expired mapping is ever routed. -/
theorem C19_routing_sound (i : Input) (ts : List Nat) (t : Nat) (host pid th : String) (cl tp : Nat) (rest : List Op)
    (hto : ((runSched i.cf (initCfg i) ts).1.th t).todo = .look host :: rest)
    (hr : (stepLookup i.cf (runSched i.cf (initCfg i) ts).1.st host ((runSched i.cf (initCfg i) ts).1.th t).pc).2.2
            = some (.route pid cl th tp)) :
    RepoSource i.cf (updTargets (allOps i)) (runSched i.cf (initCfg i) ts).1.st host pid cl th tp ∨
      ForeignSource i.cf (i.reg ++ i.cf.cloud) host pid cl th tp :=
  (C19_reachable_invariant i ts).lookup_route hto hr

/-- **After the delete the name is free of the deleted mapping, for good** (both variants, every interleaving).
After any schedule `ts`, if a `DeleteMapping` of mapping `n` has passed its index step (it is about to remove the
record, the list entries, or to release its claim and return ok), then `n` is indexed under no name, and it stays
unindexed after any further schedule `ts'`: the name can be claimed again by a `SetNX` of any client, and no lookup
that reads the index from now on can reach `n` (`C19_routing_sound`: a routed mapping was read from the index). -/
theorem C19_deleted_stays_unindexed (i : Input) (ts ts' : List Nat) (t n cl : Nat) (rest : List Op)
    (hto : ((runSched i.cf (initCfg i) ts).1.th t).todo = .del n cl :: rest)
    (hpc : (∃ r, ((runSched i.cf (initCfg i) ts).1.th t).pc = .dData r) ∨
           (∃ r, ((runSched i.cf (initCfg i) ts).1.th t).pc = .dRemC r) ∨
           (∃ r, ((runSched i.cf (initCfg i) ts).1.th t).pc = .dRemG r) ∨
           ((runSched i.cf (initCfg i) ts).1.th t).pc = .dRelease) :
    ∀ d, (runSched i.cf (initCfg i) (ts ++ ts')).1.st.index d ≠ some n := by
  have hI := C19_reachable_invariant i ts
  obtain ⟨hu, hb⟩ := hI.delete_unindexes hto hpc
  rw [runSched_append]
  simp only
  have key : ∀ (ts' : List Nat) c, Inv i.cf (allOps i) (i.reg ++ i.cf.cloud) c → (∃ o, c.st.born n = some o) →
      Unindexed c.st n → Unindexed (runSched i.cf c ts').1.st n := by
    intro ts'
    induction ts' with
    | nil => intro c _ _ h; exact h
    | cons t' ts' ih =>
      intro c hI hb hu
      obtain ⟨o, ho⟩ := hb
      exact ih _ (hI.step t') ⟨o, hI.born_mono t' n o ho⟩ (hI.unindexed_step t' n ⟨o, ho⟩ hu)
  exact key ts' _ hI hb hu

/-! ### rollback: a single storage failure inside `CreateMapping` -/

/-- **A failed create leaves no index / record / list entry.**  For every history run before it (`i`), every
create input and every position `k` of one failing storage call (Incr, SetNX, Set record, the two list appends; also
the refusals without any failure): whenever the create does not answer ok, the observed store entries afterwards
equal those before (`holdsFault`, the predicate the driver applies to the real code run through the fault gate);
only the id counter may have advanced. -/
theorem C19_failed_create_leaves_nothing (i uni : Input) (cl : Nat) (sub base th : String) (tp k : Nat) :
    holdsFault (modelFault i uni cl sub base th tp k) = true :=
  holdsFault_model i uni cl sub base th tp k

/-- Field-level form for an arbitrary store whose next record slot is empty. -/
theorem C19_failed_create_rolls_back (cf : Config) (s : Store) (cl : Nat) (sub base th : String) (tp k : Nat)
    (code : String) (hfresh : s.data (s.next + 1) = none)
    (h : (createFault cf s cl sub base th tp k).2 = .err code) :
    (createFault cf s cl sub base th tp k).1.index = s.index ∧ (createFault cf s cl sub base th tp k).1.data = s.data ∧
    (createFault cf s cl sub base th tp k).1.clientList = s.clientList ∧
    (createFault cf s cl sub base th tp k).1.globalList = s.globalList :=
  let r := createFault_err_same cf s cl sub base th tp k code hfresh h
  ⟨r.1, r.2.1, r.2.2.1, r.2.2.2.1⟩

/-- Non-vacuity: the record write failing after a successful claim is rolled back. -/
example : (createFault ⟨.repaired, 0, ["t.net"], []⟩ (initStore ⟨⟨.repaired, 0, ["t.net"], []⟩, [], [], []⟩) 1 "a" "t.net" "h" 80 3).2
    = .err Gen.coreerrors.CodeStorageError := by decide +kernel

/-! ### entry points: command handlers, adapter, cleanup, ServeHTTP (Model/C19Sys.lean) -/

/-- **Entry-point clauses, every store and every input.**  `CleanupExpiredMappings` removes only expired mappings;
the create handler refuses only for its own reasons (unauthenticated, missing field, base not allowed, name in use);
both handlers refuse an unauthenticated connection and never act with client 0.  (`entryOK` is applied by the driver to
every observation of the real handlers.)  Every entry-point call expands into operations of the interleaving model
(`expandH`), so `C19_main` covers histories made of them; the `c19h` run compares the expansion with the real code. -/
theorem C19_entry_points_ok (cf : Config) (s : Store) (h : HOp) : entryOK cf h (stepH cf s h).2 = true :=
  entryOK_model cf s h

/-- The delete handler acts with the connection's client: on another client's mapping it is refused and nothing changes. -/
theorem C19_handler_delete_owner_only (cf : Config) (s : Store) (client id : Nat) (r : Rec) (hc : client ≠ 0)
    (hd : s.data id = some r) (hne : r.ClientID ≠ client) :
    (stepH cf s (.hdelete client id)).2 = .res (.err Gen.coreerrors.CodeForbidden) ∧
    (stepH cf s (.hdelete client id)).1.index = s.index ∧ (stepH cf s (.hdelete client id)).1.data = s.data :=
  hdelete_foreign cf s client id r hc hd hne

/-- Non-vacuity: create through the handler, expire it, clean up (one removed, it was expired), the name is free. -/
example :
    (runH ⟨.repaired, 2000, ["t.net"], []⟩ (initStore ⟨⟨.repaired, 2000, ["t.net"], []⟩, [], [], []⟩)
      [.hcreate 1 "a" "t.net" "https" "h" 0 0, .serve "a.t.net:443", .op (.upd 1 "active" 1000 "h" 443), .cleanup,
       .avail "a" "t.net", .hdelete 0 1]).2 =
    [.res (.okId 1), .served 1 "http://h:443/p", .res .ok, .cleaned 1 [(1, 1, 1000)], .flag true, .refused "AUTH"] := by
  decide +kernel

/-! ### the registry as arbiter: simultaneous claimants of one name -/

/-- **Single owner in `DomainRegistry`, every interleaving.**  For every set of threads, every history of
`Register` / `Unregister` / `UnregisterByMappingID` / `Rebuild` (restart, reload) / `LookupByHost` /
`IsSubdomainAvailable` calls per thread (arbitrary mappings, names, IDs, base-domain lists) and
every schedule of their lock sections: two `Register` calls for the same full domain with different mapping IDs are
never both told "registered" while the first still owns the name — many clients claiming one name at the same
moment included — `LookupByHost` answers with the owner, and `IsSubdomainAvailable` never calls an owned name free. -/
theorem C19_registry_single_owner (i : RInput) (hns : i.cf.split = false) : holdsReg (modelReg i) = true :=
  holdsReg_model i hns

def pmOf (id : String) (client : Nat) : PM := ⟨id, client, "h", 80, "shared", "t.net", "active", false, 0⟩

/-- Two clients claim `shared.t.net` at the same moment; the schedule lets both run their first two sections before
either one's last. -/
def regWitness (split : Bool) : RInput :=
  { cf := ⟨split, ["t.net"]⟩, threads := [[.register (pmOf "m1" 1)], [.register (pmOf "m2" 2), .lookup "shared.t.net:80"]],
    sched := [0, 1, 0, 1, 0, 1, 0, 1] }

/-- **Check-then-store split** (the duplicate check in its own read-locked section before the store): both
claimants are told "registered". -/
theorem C19_registry_split_witness : holdsReg (modelReg (regWitness true)) = false := by decide +kernel

/-- The same schedule on the model of the tree: one winner, the other is refused, the lookup finds the winner. -/
theorem C19_registry_atomic_witness :
    (modelReg (regWitness false)).filterMap (fun s => s.ret.map (·.2)) =
      [.ok, .err Gen.coreerrors.CodeAlreadyExists, .found "m1" 1] := by decide +kernel

/-- The late / duplicate unregister scenario: mapping `m_old` owns `shared.t.net`; two `UnregisterByMappingID m_old`
(a retried delete) overlap a `Register` of `m_new` by another client; afterwards a lookup, a third claimant, a lookup. -/
def lateUnreg (sched : List Nat) : RInput :=
  { cf := ⟨false, ["t.net"]⟩
    threads := [[.register (pmOf "m_old" 1), .unregId "m_old"], [.unregId "m_old"], [.register (pmOf "m_new" 2)],
                [.lookup "shared.t.net:443", .register (pmOf "m_third" 3), .lookup "shared.t.net"]]
    sched := sched }

/-- **A late or repeated unregister of the old mapping never removes the new owner** — every schedule of the scenario
(instance of `C19_registry_single_owner`, which holds for all histories): once `m_new` is told "registered" it stays
the answer of `LookupByHost` and the name is not granted a third time. -/
theorem C19_registry_late_unregister (sched : List Nat) : holdsReg (modelReg (lateUnreg sched)) = true :=
  C19_registry_single_owner (lateUnreg sched) rfl

/-- Non-vacuity, the seed's interleaving: both unregisters start, the first deletes, `m_new` registers, the second
unregister finds nothing of `m_old`; the lookups answer `m_new`, the third claimant is refused. -/
theorem C19_registry_late_unregister_witness :
    (modelReg (lateUnreg [0, 0, 0, 0, 1, 0, 2, 2, 2, 1])).filterMap (fun s => s.ret.map (·.2)) =
      [.ok, .ok, .ok, .ok, .found "m_new" 2, .err Gen.coreerrors.CodeAlreadyExists, .found "m_new" 2] := by decide +kernel

/-! ### the tree as found: the witness -/

def tn : String := "tunnox.net"

/-- Double delete of mapping 1 by its owner around a re-claim by client 2; client 3 then claims the same name. -/
def witness (v : Variant) : Input :=
  { cf := ⟨v, 2000000000, [tn], []⟩, reg := []
    threads := [[.create 1 "a" tn "h" 80, .del 1 1], [.del 1 1], [.create 2 "a" tn "h" 81],
                [.create 3 "a" tn "h" 82, .look ("a." ++ tn)]]
    sched := [0, 0, 0, 0, 0, 0, 0, 0, 1, 1, 0, 0, 0, 0, 2, 2, 2, 2, 2, 2, 1, 1, 1, 1, 3, 3, 3, 3, 3, 3, 3, 3, 3] }

/-- **As found** (`DeleteMapping` removes the index entry unconditionally): clients 2 and 3 both own `a.tunnox.net`. -/
theorem C19_asFound_witness : holds (witness .asFound) (model (witness .asFound)) = false := by decide +kernel

/-- The same schedule on the repaired model is fine (and non-vacuity of the hypotheses above). -/
theorem C19_repaired_witness : holds (witness .repaired) (model (witness .repaired)) = true := by decide +kernel

example : (witness .repaired).cf.variant = .repaired := rfl

/-- Non-vacuity: in that run something is routed, something is refused, and a mapping is certainly owned at the end. -/
example : ((model (witness .repaired)).slots.filterMap (fun s => s.ret.map (·.2))).contains (.route "hdm_2" 2 "h" 81) = true ∧
    (monRun (witness .repaired) (model (witness .repaired)).slots).certain = [(2, "a.tunnox.net", 2)] := by
  decide +kernel

end Tunnox.C19
