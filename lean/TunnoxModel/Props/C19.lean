import TunnoxModel.Spec.C19
namespace Tunnox.C19
theorem C19_placeholder : True := trivial
end Tunnox.C19
