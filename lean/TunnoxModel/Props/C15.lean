import TunnoxModel.Proofs.C15
/-!
# C15 — generated identifiers are unique among live identifiers

All theorems are about `Tunnox.C15.run`, the executable model the driver runs, and use `holds`, the
predicate the runner applies to the implementation's observations.

Quantification: any number of threads (`progs` is any list; generator instances are the `inst`
fields), any programs of Generate / Release / release-own / renew-own calls, any candidate streams
(`Op.gen` carries an arbitrary function), any pre-existing markers `pre` (live, expired, duplicated),
any schedule `σ` of atomic steps, clock ticks and *faulted* steps (`Sch.fault`: the storage call of
that step returns a transient error and is not applied — any number of them, at any position), any TTL
and attempt bound per kind.

Scope (WF, stated not hidden): liveness is bounded by the marker TTL — `holds` replays the history on
a reference live-set in which a marker expires `ttl` after it was written (or renewed); an id whose
marker expired may be handed out again.
-/
namespace Tunnox.C15
open Gen

/-! ## Atomic path (`storage.CASStore`: memory, redis, hybrid) -/

/-- **C15, atomic path.** For any number of generator instances and callers on one store that
implements `SetNX`, any candidate streams, any pre-existing markers and any interleaving of the
storage calls with clock ticks: every id handed out was not live at that moment (not pre-existing,
not handed out earlier and still unreleased within its marker lifetime), exhaustion hands out and
marks nothing, the markers in the store are exactly the live ids, and every release-own answers a
hand-out the same caller has not released yet (never a second release).  Node-id allocation (claim by
`SetNX`, renewal by `Set` in the tier of the claim, `Release`) is the instance `kind = 9`. -/
theorem C15_main (ttl maxAtt : Nat → Nat) (pre : Store) (progs : List (Nat × List Op)) (σ : List Sch) :
    holds ttl pre (run ⟨true, ttl, maxAtt, true, true⟩ (init pre progs) σ).trace
      (liveKeys (run ⟨true, ttl, maxAtt, true, true⟩ (init pre progs) σ).store
                (run ⟨true, ttl, maxAtt, true, true⟩ (init pre progs) σ).now) = true :=
  holds_of_inv ⟨true, ttl, maxAtt, true, true⟩ pre _
    (inv_run_cas ⟨true, ttl, maxAtt, true, true⟩ pre σ (init pre progs) rfl rfl rfl)
    (invH_run _ σ _ rfl (invH_init pre progs))

/-! ## What `holds` means: no id is handed out twice while live -/

/-- **Uniqueness among live ids, read off the predicate.** If an observed history is accepted by
`holds`, it cannot contain two hand-outs of the same id (`ok … kind id` twice, by any threads) unless
in between the id was released or its marker lifetime `ttl kind` elapsed. -/
theorem C15_unique_of_holds (ttl : Nat → Nat) (pre : Store) (view : List Key)
    (before mid after : List Ev) (t₁ t₂ kind id : Nat)
    (hq : mid.all (quiet (kind, id)) = true)
    (hel : elapsed mid < ttl kind ∨ ttl kind = 0)
    (h : holds ttl pre (before ++ [.ok t₁ kind id] ++ mid ++ [.ok t₂ kind id] ++ after) view = true) :
    False := by
  unfold holds at h
  rw [Bool.and_eq_true, Bool.and_eq_true] at h
  have hg := h.1.1
  unfold replay at hg
  simp only [List.foldl_append, List.foldl_cons, List.foldl_nil] at hg
  have hg2 := good_mono ttl _ after hg
  generalize hs : List.foldl (specStep ttl) ⟨pre, 0, true⟩ before = s at hg2
  generalize hm : List.foldl (specStep ttl) (specStep ttl s (.ok t₁ kind id)) mid = m at hg2
  have hg3 : (m.good && !live m.store m.now (kind, id)) = true := hg2
  rw [Bool.and_eq_true] at hg3
  have hl := still_live ttl (kind, id) s.now mid (specStep ttl s (.ok t₁ kind id)) hq
    (by simp [specStep])
    ⟨expiry s.now (ttl kind), by simp [specStep, lookup_put_self], by
        unfold expiry; by_cases hz' : ttl kind = 0 <;> simp [hz'], by
        intro hz'; simp [expiry, hz']⟩
    (by rcases hel with hel | hel
        · left; simp only [specStep]; omega
        · right; exact hel)
    (by rw [hm]; exact hg3.1)
  rw [hm] at hl
  rw [hl] at hg3
  exact Bool.noConfusion hg3.2

/-- **Exhaustion fails cleanly.** The step in which a `Generate` / `AllocateNodeID` call gives up
(`ErrIDExhausted`, "no available node ID") writes nothing to the store, on either path. -/
theorem C15_exhaustion_marks_nothing (P : Params) (c : Cfg) (tid t kind : Nat)
    (h : (stepThread P c tid).trace = c.trace ++ [.exh t kind]) :
    (stepThread P c tid).store = c.store := by
  rcases step_store_or_event P c tid with h1 | ⟨e, he, hne⟩
  · exact h1
  · rw [he] at h
    have := List.append_cancel_left h
    simp at this
    exact absurd this (hne t kind)

theorem failEvs_no_ok (P : Params) (tid kind a : Nat) :
    ∀ e ∈ failEvs P tid kind a, ∀ t k i, e ≠ .ok t k i := by
  intro e he t k i
  unfold failEvs at he
  split at he <;> simp at he
  subst he; simp

/-- **A failed storage call never hands out an id.** Whatever operation the thread is in and on
either path, a step whose storage call returns an error (a transient fault of the shared tier: on
`SetNX`, `Exists`, `Set`, `Delete`) leaves the store unchanged and reports no `ok`: `Generate` /
`AllocateNodeID` skip the candidate (or give up cleanly), `Release`/renewal return the error.  Together
with `C15_main` / `C15_fallback_single`, whose schedules may contain any number of such faulted steps,
a fault can therefore never make a taken candidate be handed out. -/
theorem C15_fault_never_hands_out_taken (P : Params) (c : Cfg) (tid : Nat) :
    (stepFault P c tid).store = c.store ∧
    ∃ evs, (stepFault P c tid).trace = c.trace ++ evs ∧ ∀ e ∈ evs, ∀ t k i, e ≠ .ok t k i := by
  unfold stepFault
  repeat' split
  all_goals first
    | exact ⟨rfl, [], (List.append_nil _).symm, by simp⟩
    | exact ⟨by simp [failCfg], _, rfl, failEvs_no_ok P _ _ _⟩
    | exact ⟨rfl, _, rfl, by simp⟩

/-! ## Expiry GC (`CleanupExpired`) never touches a live claim -/

/-- **A cleanup pass is invisible to liveness.** At the time of the pass and at any later time a key
is live after the sweep exactly if it was live without it: the pass removes only markers that have
lapsed (so a marker re-claimed over a lapsed one is never deleted) and revives nothing.  `C15_main` /
`C15_fallback_single` quantify over schedules in which `Op.sweep` steps occur anywhere — between a
lapse and the re-claim, between the re-claim and a third claimant — and the reference live-set of
`holds` sweeps at the same events (`swp`). -/
theorem C15_sweep_keeps_live_claims (s : Store) (now dt : Nat) (k : Key) :
    live (sweep s now) (now + dt) k = live s (now + dt) k := by
  unfold live
  rw [lookup_sweep]
  cases hl : live s now k with
  | true => rfl
  | false =>
    have := live_tick_false s now dt k hl
    unfold live at this
    simp only [Bool.false_eq_true, if_false]
    exact this.symm

/-- Slot 1 carries a crashed node's lapsed lease (expiry 1, clock 3).  Node 0 re-claims it, a cleanup
pass runs, node 1 (the third claimant) must move on to slot 2. -/
example :
    (run ⟨true, fun _ => 90000, fun _ => 1000, true, true⟩
        (init [((9, 1), 1)] [(0, [.gen 9 (fun a => 1 + a)]), (1, [.gen 9 (fun a => 1 + a)]), (2, [.sweep, .sweep])])
        [.tick 3, .step 2, .step 0, .step 2, .step 1, .step 1]).trace
      = [.tick 3, .swp 2, .ok 0 9 1, .swp 2, .ok 1 9 2] := by decide
/-- `holds` rejects the history of a pass that deleted the fresh claim. -/
example : holds (fun _ => 90000) [((9, 1), 1)] [.tick 3, .ok 0 9 1, .swp 2, .ok 1 9 1] [(9, 1)] = false := by decide
example : sweep [((9, 1), 1), ((9, 2), 0), ((9, 3), 10)] 3 = [((9, 2), 0), ((9, 3), 10)] := by decide

/-! ## Lease clause: a claim whose holder keeps running is renewed and never lapses -/

/-- **Unique while renewed.** If an observed history is accepted by `holds`, an id handed out to
`t₁` cannot be handed out again (to anybody) as long as nobody released it and its lease was kept up:
starting from a full `ttl`, no stretch of clock ticks between consecutive renewals (`rnw`, what the
holder's 30 s heartbeat does) uses up the lease (`leaseOk`).  With `C15_no_dead_of_holds` — every
heartbeat tick of a holder does renew — a node that keeps running keeps its id for good. -/
theorem C15_unique_while_renewed (ttl : Nat → Nat) (pre : Store) (view : List Key)
    (before mid after : List Ev) (t₁ t₂ kind id : Nat)
    (hq : mid.all (quiet (kind, id)) = true)
    (hlease : leaseOk (kind, id) (ttl kind) (ttl kind) mid = true) (hpos : 0 < ttl kind)
    (h : holds ttl pre (before ++ [.ok t₁ kind id] ++ mid ++ [.ok t₂ kind id] ++ after) view = true) :
    False := by
  unfold holds at h
  rw [Bool.and_eq_true, Bool.and_eq_true] at h
  have hg := h.1.1
  unfold replay at hg
  simp only [List.foldl_append, List.foldl_cons, List.foldl_nil] at hg
  have hg2 := good_mono ttl _ after hg
  generalize hs : List.foldl (specStep ttl) ⟨pre, 0, true⟩ before = s at hg2
  have hl := lease_live ttl (kind, id) mid (specStep ttl s (.ok t₁ kind id)) (ttl kind) hq hlease
    (Nat.le_refl _) hpos
    ⟨expiry s.now (ttl kind), by simp [specStep, lookup_put_self], by
      right; unfold expiry; simp only [specStep]
      have : ttl kind ≠ 0 := by omega
      simp [this]⟩
  generalize hm : List.foldl (specStep ttl) (specStep ttl s (.ok t₁ kind id)) mid = m at hg2 hl
  have hg3 : (m.good && !live m.store m.now (kind, id)) = true := hg2
  rw [Bool.and_eq_true] at hg3
  rw [hl] at hg3
  exact Bool.noConfusion hg3.2

/-- **A running holder's heartbeat is alive.** An accepted history contains no heartbeat tick that
found the heartbeat gone. -/
theorem C15_no_dead_of_holds (ttl : Nat → Nat) (pre : Store) (view : List Key)
    (p q : List Ev) (t kind id : Nat) (h : holds ttl pre (p ++ [.dead t kind id] ++ q) view = true) :
    False := by
  unfold holds at h
  rw [Bool.and_eq_true] at h
  have hg : ((p ++ [Ev.dead t kind id] ++ q).foldl heldStep ([], true)).2 = true := h.2
  rw [List.foldl_append, List.foldl_append] at hg
  have := held_good_mono q _ hg
  simp [heldStep] at this

/-- **Every heartbeat tick of a holder extends the claim.** When the 30 s ticker of a thread that
holds `k` fires (heartbeat running, renewal in the tier of the claim, no storage fault), the claim
marker is rewritten with a full `ttl` from now and the history records `rnw` — on every backend, since
the model's store is the backend-independent reference.  A tick of a running holder that renews
nothing without an injected fault is observed as `dead` and rejected by `holds`
(`C15_no_dead_of_holds`): with ticks every 30 s such a holder's claim would lapse after 90 s. -/
theorem C15_heartbeat_tick_extends_lease (P : Params) (c : Cfg) (tid : Nat) (k : Key) (rest : List Op)
    (hops : (c.threads tid).ops = .renewOwn :: rest) (hown : (c.threads tid).own = some k)
    (hhb : (c.threads tid).hb = true) (hrn : P.renewShared = true) :
    lookup (stepThread P c tid).store k = some (expiry c.now (P.ttl k.1)) ∧
    live (stepThread P c tid).store (c.now + (P.ttl k.1 - 1)) k = true ∧
    (stepThread P c tid).trace = c.trace ++ [.rnw tid k.1 k.2] := by
  unfold stepThread
  simp only [hops, hown, hhb, hrn, if_true]
  refine ⟨lookup_put_self _ _ _, ?_, trivial⟩
  simp only [live, lookup_put_self, alive, expiry]
  by_cases hz : P.ttl k.1 = 0
  · simp [hz]
  · simp only [hz, if_false, Bool.or_eq_true, beq_iff_eq, decide_eq_true_eq]
    right; omega

/-- **Heartbeat cancelled when the allocation returns (seeded defect).** With a heartbeat that does
not outlive `AllocateNodeID` the holder's ticks renew nothing, the claim lapses after the lease while
node 0 is running, and node 1 is given node 0's id. -/
theorem C15_heartbeat_cancelled_witness :
    holds (fun _ => 90000) []
      (run ⟨true, fun _ => 90000, fun _ => 1000, true, false⟩
        (init [] [(0, [.gen 9 (fun a => 1 + a), .renewOwn, .renewOwn, .renewOwn]), (1, [.gen 9 (fun a => 1 + a)])])
        [.step 0, .tick 30000, .step 0, .tick 30000, .step 0, .tick 30000, .step 0, .step 1]).trace
      [(9, 1)] = false := by decide

/-- The same schedule with the heartbeat alive: three renewals, node 1 moves on to slot 2; and the
lease hypothesis of `C15_unique_while_renewed` is met by exactly this renewal rhythm. -/
example :
    (run ⟨true, fun _ => 90000, fun _ => 1000, true, true⟩
        (init [] [(0, [.gen 9 (fun a => 1 + a), .renewOwn, .renewOwn, .renewOwn]), (1, [.gen 9 (fun a => 1 + a)])])
        [.step 0, .tick 30000, .step 0, .tick 30000, .step 0, .tick 30000, .step 0, .step 1, .step 1]).trace
      = [.ok 0 9 1, .tick 30000, .rnw 0 9 1, .tick 30000, .rnw 0 9 1, .tick 30000, .rnw 0 9 1, .ok 1 9 2] := by
  decide
example : leaseOk (9, 1) 90000 90000
    [.tick 30000, .rnw 0 9 1, .tick 30000, .rnw 0 9 1, .tick 30000, .rnw 0 9 1, .tick 89999] = true := by decide
example : leaseOk (9, 1) 90000 90000 [.tick 30000, .tick 30000, .tick 30000] = false := by decide
example : holds (fun _ => 90000) []
    [.ok 0 9 1, .tick 30000, .dead 0 9 1, .tick 30000, .dead 0 9 1, .tick 30000, .dead 0 9 1, .ok 1 9 1] [(9, 1)] = false := by
  decide

/-- A heartbeat that outlives its allocator's `Release` (renewal by a caller that holds nothing) is
rejected: it would keep a released id taken for ever. -/
example : holds (fun _ => 90000) [] [.ok 0 9 1, .relo 0 9 1, .rnw 0 9 1] [(9, 1)] = false := by decide
example : holds (fun _ => 90000) [] [.ok 0 9 1, .rnw 0 9 1, .relo 0 9 1] [] = true := by decide

/-! ## Release clause: a hand-out is released by its holder at most once -/

/-- **Release-own at most once, read off the predicate.** In every prefix `p` of a history accepted by
`holds`, caller `t` has released "its" id `(kind, id)` at most as often as that id was handed out to
`t`.  So a second `Release()` of an allocator — which would delete the claim of whoever was handed the
freed id in the meantime and let a third node be given the same id — is rejected at the release
itself. -/
theorem C15_release_own_at_most_once (ttl : Nat → Nat) (pre : Store) (view : List Key)
    (p q : List Ev) (t kind id : Nat) (h : holds ttl pre (p ++ q) view = true) :
    p.countP (· == .relo t kind id) ≤ p.countP (· == .ok t kind id) := by
  unfold holds at h
  rw [Bool.and_eq_true] at h
  have hg : ((p ++ q).foldl heldStep ([], true)).2 = true := h.2
  rw [List.foldl_append] at hg
  have hp := (held_good_mono q _ hg)
  have := (held_count (t, (kind, id)) p ([], true) hp).2
  simp only [List.count_nil, Nat.zero_add] at this
  omega

/-- The model never releases twice: after its release-own a thread believes it owns nothing, and a
further release-own is a no-op without a storage call (`if a.nodeID == "" { return nil }`). -/
example :
    (run ⟨true, fun _ => 90000, fun _ => 1000, true, true⟩
        (init [] [(0, [.gen 9 (fun a => 1 + a), .relOwn, .relOwn]), (1, [.gen 9 (fun a => 1 + a)]),
                  (2, [.gen 9 (fun a => 1 + a)])])
        [.step 0, .step 0, .step 1, .step 0, .step 2, .step 2]).trace
      = [.ok 0 9 1, .relo 0 9 1, .ok 1 9 1, .nop 0, .ok 2 9 2] := by decide
/-- `holds` rejects the history of an allocator that keeps its id after `Release`: the second release
frees node 1's live claim and node 2 is given node 1's id. -/
example : holds (fun _ => 90000) []
    [.ok 0 9 1, .relo 0 9 1, .ok 1 9 1, .relo 0 9 1, .ok 2 9 1] [(9, 1)] = false := by decide
example : holds (fun _ => 90000) []
    [.ok 0 9 1, .relo 0 9 1, .ok 1 9 1, .nop 0, .ok 2 9 2] [(9, 1), (9, 2)] = true := by decide

/-! ## Fallback path (store without `SetNX`): `mu.Lock; Exists; Set; mu.Unlock` -/

/-- **C15, fallback path, one generator instance.** On a store without `SetNX` the
exists-then-set under the instance mutex gives the same guarantee for any number of concurrent
callers of *one* generator instance `I`, under any interleaving with releases and clock ticks. -/
theorem C15_fallback_single (ttl maxAtt : Nat → Nat) (pre : Store) (I : Nat) (progs : List (List Op))
    (hnr : ∀ p ∈ progs, Op.renewOwn ∉ p) (σ : List Sch) :
    holds ttl pre (run ⟨false, ttl, maxAtt, true, true⟩ (init pre (progs.map (fun p => (I, p)))) σ).trace
      (liveKeys (run ⟨false, ttl, maxAtt, true, true⟩ (init pre (progs.map (fun p => (I, p)))) σ).store
                (run ⟨false, ttl, maxAtt, true, true⟩ (init pre (progs.map (fun p => (I, p)))) σ).now) = true := by
  apply holds_of_inv ⟨false, ttl, maxAtt, true, true⟩ pre _ ?_ (invH_run _ σ _ rfl (invH_init pre _))
  apply (invF_run ⟨false, ttl, maxAtt, true, true⟩ pre I σ _ rfl _).inv
  refine ⟨rfl, ?_, ?_, ?_, ?_⟩
  · intro i
    simp only [init, mkThreads]
    cases hi : (progs.map (fun p => (I, p)))[i]? with
    | none => simp
    | some p =>
      simp only [mkThread]
      intro _
      rw [List.getElem?_map] at hi
      cases hp : progs[i]? with
      | none => simp [hp] at hi
      | some q => simp [hp] at hi; rw [← hi]
  · intro i
    simp only [init, mkThreads]
    cases hi : (progs.map (fun p => (I, p)))[i]? with
    | none => simp
    | some p =>
      simp only [mkThread]
      rw [List.getElem?_map] at hi
      cases hp : progs[i]? with
      | none => simp [hp] at hi
      | some q =>
        simp [hp] at hi; rw [← hi]
        exact hnr q (List.mem_of_getElem? hp)
  · intro i a hpc
    simp only [init, mkThreads] at hpc
    split at hpc <;> simp [mkThread] at hpc
  · intro i j a b hpc
    simp only [init, mkThreads] at hpc
    split at hpc <;> simp [mkThread] at hpc

/-- **Fallback path, two instances: not unique (known finding `fallback-multi-instance`).** Two
generator instances (two nodes) on a store without `SetNX` each hold only their own mutex: both
check, both set, both return the same id. -/
theorem C15_fallback_two_instances_witness :
    holds (fun _ => 1000) []
      (run ⟨false, fun _ => 1000, fun _ => 100, true, true⟩
        (init [] [(0, [.gen 2 (fun _ => 1)]), (1, [.gen 2 (fun _ => 1)])])
        [.step 0, .step 1, .step 0, .step 1]).trace
      [(2, 1)] = false := by decide

/-- **Node-id renewal in the wrong tier (as found, repaired by `fix:` eac0b3f).** The claim lives in
the shared tier; the heartbeat wrote the node-local tier, i.e. nothing the other nodes can see.  Node
0 claims slot 1 and renews every 30 s; after 90 s node 1 is given slot 1 as well. -/
theorem C15_node_renew_asFound_witness :
    holds (fun _ => 90000) []
      (run ⟨true, fun _ => 90000, fun _ => 1000, false, true⟩
        (init [] [(0, [.gen 9 (fun a => 1 + a), .renewOwn, .renewOwn, .renewOwn]), (1, [.gen 9 (fun a => 1 + a)])])
        [.step 0, .tick 30000, .step 0, .tick 30000, .step 0, .tick 30000, .step 0, .step 1]).trace
      [(9, 1)] = false := by decide

/-- The same history on the repaired code is accepted: node 1 gets slot 2. -/
example :
    (run ⟨true, fun _ => 90000, fun _ => 1000, true, true⟩
        (init [] [(0, [.gen 9 (fun a => 1 + a), .renewOwn, .renewOwn, .renewOwn]), (1, [.gen 9 (fun a => 1 + a)])])
        [.step 0, .tick 30000, .step 0, .tick 30000, .step 0, .tick 30000, .step 0, .step 1, .step 1]).trace
      = [.ok 0 9 1, .tick 30000, .rnw 0 9 1, .tick 30000, .rnw 0 9 1, .tick 30000, .rnw 0 9 1, .ok 1 9 2] := by
  decide

/-- **Marker lifetime shorter than the entity's (known finding `marker-ttl-shorter-than-entity`).**
Read literally — an id is live until it is released — the property is not met: the marker of a
client / user / mapping / node id lives `DefaultIDTTL` (30 days) and is never refreshed, the entity
lives on, and after 30 days the generator hands the same id out again.  `holds` with a reference
live-set that never expires (`ttl = 0`) rejects the model's own history. -/
theorem C15_marker_ttl_reissue_witness :
    holds (fun _ => 0) []
      (run ⟨true, fun _ => 2592000000, fun _ => 100, true, true⟩
        (init [] [(0, [.gen 0 (fun _ => 10000001)]), (1, [.gen 0 (fun _ => 10000001)])])
        [.step 0, .tick 2592000000, .step 1]).trace
      [(0, 10000001)] = false := by decide

/-! ## Candidates and constants -/

/-- `random.Int64(ClientIDMin, ClientIDMax)` stays in the 8-digit client id range for every raw value. -/
theorem C15_client_range (u : Nat) :
    idgen.ClientIDMin ≤ clientCand u ∧ clientCand u ≤ idgen.ClientIDMax := by
  unfold clientCand
  have h : u % (idgen.ClientIDMax - idgen.ClientIDMin + 1) < idgen.ClientIDMax - idgen.ClientIDMin + 1 :=
    Nat.mod_lt _ (by simp [idgen.ClientIDMax, idgen.ClientIDMin])
  simp only [idgen.ClientIDMax, idgen.ClientIDMin] at *
  omega

/-- Side conditions on the extracted constants the model relies on. -/
theorem C15_consts_ok :
    0 < idgen.MaxAttempts ∧ 0 < idgen.DefaultIDTTL ∧ 0 < node.NodeIDLockTTL ∧
    node.NodeIDMin ≤ node.NodeIDMax ∧ idgen.ClientIDMin < idgen.ClientIDMax ∧
    0 < random.Charset.length ∧ random.Charset.length ≤ 256 ∧
    idgen.ClientIDLength = 8 ∧ 10 ^ (idgen.ClientIDLength - 1) ≤ idgen.ClientIDMin ∧
    idgen.ClientIDMax < 10 ^ idgen.ClientIDLength := by decide

/-! ## Call skeletons of the mirrored functions (T2): a reordering or a dropped step breaks these -/

theorem skel_Generate : Gen.Skel.Generate = ["random.String", "random.Int64", "tryMarkAsUsed"] := by decide
theorem skel_tryMarkAsUsed :
    Gen.Skel.tryMarkAsUsed = ["casStore.SetNX", "mu.Lock", "mu.Unlock", "storage.Exists", "storage.Set"] := by decide
theorem skel_Release : Gen.Skel.Release = ["getKey", "storage.Delete"] := by decide
theorem skel_AllocateNodeID : Gen.Skel.AllocateNodeID = ["tryAcquireNodeID", "heartbeatLoop"] := by decide
theorem skel_tryAcquireNodeID :
    Gen.Skel.tryAcquireNodeID =
      ["hybridStorage.SetNXRuntime", "nxStorage.SetNX", "storage.Exists", "storage.Set", "storage.Get"] := by decide
theorem skel_heartbeatLoop : Gen.Skel.heartbeatLoop = ["renewNodeID"] := by decide
/-- The renewal goes through `Storage.Set` (routed to the tier of the claim), not `SetRuntime`. -/
theorem skel_renewNodeID : Gen.Skel.renewNodeID = ["storage.Set"] := by decide
theorem skel_NodeRelease : Gen.Skel.NodeRelease = ["storage.Delete"] := by decide
theorem skel_HybridSetNXRuntime :
    Gen.Skel.HybridSetNXRuntime = ["nxSetter.SetNX", "nxSetter.SetNX", "h.Exists", "h.setRuntime"] := by decide
theorem skel_HybridSetNX :
    Gen.Skel.HybridSetNX = ["h.cacheTierFor", "nxSetter.SetNX", "cache.Exists", "cache.Set"] := by decide

/-! ## Non-vacuity -/

/-- Three callers on two instances contend for a candidate space of three ids with one id
pre-existing; the third caller is exhausted after `maxAtt = 2` attempts. -/
example :
    (run ⟨true, fun _ => 1000, fun _ => 2, true, true⟩
        (init [((0, 10), 0)] [(0, [.gen 0 (fun a => 10 + a)]), (1, [.gen 0 (fun a => 10 + a)]), (1, [.gen 0 (fun _ => 10)])])
        [.step 0, .step 1, .step 2, .step 0, .step 1, .step 2]).trace
      = [.ok 0 0 11, .exh 1 0, .exh 2 0] := by decide

/-- `holds` does reject a duplicate hand-out … -/
example : holds (fun _ => 1000) [] [.ok 0 0 7, .ok 1 0 7] [(0, 7)] = false := by decide
/-- … accepts it after a release or after the marker lifetime … -/
example : holds (fun _ => 1000) [] [.ok 0 0 7, .rel 0 0 7, .ok 1 0 7] [(0, 7)] = true := by decide
example : holds (fun _ => 1000) [] [.ok 0 0 7, .relo 0 0 7, .ok 1 0 7] [(0, 7)] = true := by decide
example : holds (fun _ => 1000) [] [.ok 0 0 7, .tick 1000, .ok 1 0 7] [(0, 7)] = true := by decide
example : holds (fun _ => 1000) [] [.ok 0 0 7, .tick 999, .ok 1 0 7] [(0, 7)] = false := by decide
/-- … rejects handing out a pre-existing id, and a marker left behind by an exhausted call. -/
example : holds (fun _ => 1000) [((0, 7), 0)] [.ok 0 0 7] [(0, 7)] = false := by decide
example : holds (fun _ => 1000) [((0, 7), 0)] [.exh 0 0] [(0, 7), (0, 8)] = false := by decide
/-- **Expired, not yet swept markers** are ordinary inputs of `C15_main` (`pre` carries expiry
instants; an entry whose instant has passed is still in the list).  Slot 1 holds the lapsed lease of a
crashed node (expiry 1, clock at 3): of two nodes racing for it exactly one gets it, the other moves
on to slot 2 — and `holds` rejects an observation in which both are given slot 1. -/
example :
    (run ⟨true, fun _ => 90000, fun _ => 1000, true, true⟩
        (init [((9, 1), 1)] [(0, [.gen 9 (fun a => 1 + a)]), (1, [.gen 9 (fun a => 1 + a)])])
        [.tick 3, .step 0, .step 1, .step 1]).trace
      = [.tick 3, .ok 0 9 1, .ok 1 9 2] := by decide
example : holds (fun _ => 90000) [((9, 1), 1)] [.tick 3, .ok 0 9 1, .ok 1 9 2] [(9, 1), (9, 2)] = true := by decide
example : holds (fun _ => 90000) [((9, 1), 1)] [.tick 3, .ok 0 9 1, .ok 1 9 1] [(9, 1)] = false := by decide
/-- Before it expires the same marker is simply taken. -/
example : holds (fun _ => 90000) [((9, 1), 5)] [.tick 3, .ok 0 9 1] [(9, 1)] = false := by decide

/-- The fallback theorem's hypotheses are inhabited. -/
example : ∀ p ∈ [[Op.gen 0 (fun a => a), Op.rel 0 1], [Op.relOwn]], Op.renewOwn ∉ p := by
  intro p hp; simp at hp; rcases hp with rfl | rfl <;> simp

end Tunnox.C15
