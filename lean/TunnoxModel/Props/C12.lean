import TunnoxModel.Proofs.C12
/-!
# C12 — client-side relays deliver everything and always terminate

All theorems are about the executable model in `Model/C12.lean` that the driver runs against the
implementation (`tcpRun`/`udpRun` with the schedule completed by `tcpComplete`/`udpComplete`), and use
the `Spec` predicates `holdsTcp`/`holdsUdp` that the runner applies to the implementation's observations.
Quantifiers: all payloads and read chunkings (`EP.reads`, `chunks`), all endings (EOF, error, error
fused with the last chunk, refused writes at any index, full close), ALL schedules `σ` of the two
goroutines, every cut offset `cut` of the encoded stream and arbitrary trailing bytes `junk`.
-/
namespace Tunnox.C12
open Gen Gen.iocopy.UDP

/-! ## Ties to the source (T1 constants, T2 call skeletons) -/

/-- The effectful calls of `Bidirectional`, in source order: per direction Read → Write → (loop end)
half-close of the sink; Close of both sockets only after `wg.Wait()`. -/
theorem skel_Bidirectional : Gen.Skel.Bidirectional =
    ["wg.Add", "wg.Done", "connA.Close", "connA.Read", "writerB.Write", "writerB.Close", "tryCloseWrite",
     "wg.Done", "connB.Close", "readerB.Read", "connA.Write", "tryCloseWrite",
     "wg.Wait", "connA.Close", "connB.Close"] := by decide

/-- `UDP`: the tunnel→UDP goroutine closes `udpConn` when it ends (second `udpConn.Close` is the final one). -/
theorem skel_UDP : Gen.Skel.UDP =
    ["wg.Add", "wg.Done", "tunnelConn.Write", "flushLocked", "udpConn.Read", "flushLocked", "flushLocked", "flushLocked",
     "tryCloseWrite", "wg.Done", "udpConn.Close", "flush", "udpConn.Write", "tunnelConn.Read", "flush", "flush", "flush",
     "flush", "wg.Wait", "udpConn.Close", "tunnelConn.Close"] := by decide

/-- The tunnel lifecycle is driven by the relay result: copy, account, close. -/
theorem skel_runDataCopy : Gen.Skel.runDataCopy =
    ["iocopy.UDP", "iocopy.Bidirectional", "bytesSent.Add", "bytesRecv.Add", "t.Close"] := by decide

/-- Size obligations the proofs rely on, re-checked against the regenerated constants: a maximal
record fits the batch buffer after a flush, the half-full mark is half the buffer, a stuck window
remainder (≤ 65536 bytes) is below the refill threshold, the window has room above the threshold,
the 64 KiB datagram buffer, the 2-byte prefix and its largest value, a non-empty copy buffer. -/
theorem size_obligations :
    2 + readBuf_0 ≤ batchBufSize ∧ fullAt = batchBufSize ∧ batchBuf = batchBufSize ∧ 2 * halfFull = batchBufSize ∧
    maxPacketLen + 1 < refill ∧ refill < readBuf_1 ∧ readBuf_0 = 65536 ∧ hdrLen = 2 ∧ maxPacketLen = 65535 ∧
    0 < cloudconstants.CopyBufferSize := by decide

/-! ## TCP relay (`Bidirectional`) -/

/-- **Main TCP theorem.** For all scripts of both sockets and EVERY schedule in which each goroutine
gets enough turns (any order of half-close / close / error on either side): the relay returns, each
side has received a prefix of the other side's bytes in order, and all of them unless that side
itself refused a Write. -/
theorem C12_tcp_fair (A B : EP) (σ : List Bool)
    (ha : stepsFor A.reads ≤ σ.count true) (hb : stepsFor B.reads ≤ σ.count false) :
    holdsTcp A B (tcpObs (tcpRun A B σ)) = true :=
  holdsTcp_of A B _ (tcpRun_inv A B σ) (tcpRun_returned A B σ ha hb)

/-- The same for the run the driver executes: an arbitrary schedule prefix, then the fixed drain order. -/
theorem C12_tcp (A B : EP) (σ : List Bool) :
    holdsTcp A B (tcpObs (tcpRun A B (tcpComplete A B σ))) = true :=
  C12_tcp_fair A B _ (tcpComplete_counts A B σ).1 (tcpComplete_counts A B σ).2

/-- **In order, at every moment**: after any schedule whatsoever (fair or not, finished or not) what
each side has received is a prefix of what the other side sent. -/
theorem C12_tcp_in_order_always (A B : EP) (σ : List Bool) :
    (tcpRun A B σ).ab.delivered <+: A.reads.flatten ∧ (tcpRun A B σ).ba.delivered <+: B.reads.flatten :=
  ⟨(tcpRun_inv A B σ).ab.pre, (tcpRun_inv A B σ).ba.pre⟩

/-- **Returns exactly when both directions have finished** (`wg.Wait`), and both do finish under every fair schedule. -/
theorem C12_tcp_returns (A B : EP) (σ : List Bool) :
    ((tcpRun A B σ).returned = true ↔ (tcpRun A B σ).ab.done = true ∧ (tcpRun A B σ).ba.done = true) ∧
    (stepsFor A.reads ≤ σ.count true → stepsFor B.reads ≤ σ.count false → (tcpRun A B σ).returned = true) :=
  ⟨by simp [TcpSt.returned], tcpRun_returned A B σ⟩

/-- **Half-close does not stop the reverse direction**: in any state in which A→B has finished (A reached
EOF or failed, B's write side was half-closed) the next B→A iteration still delivers B's next chunk
to A, and leaves the finished direction untouched. -/
theorem C12_tcp_reverse_continues (A B : EP) (s : TcpSt) (c : Bytes) (cs : List Bytes)
    (_hab : s.ab.done = true) (hba : s.ba.done = false) (hp : s.ba.pending = c :: cs)
    (hne : c.isEmpty = false) (hle : c.length ≤ cloudconstants.CopyBufferSize)
    (hacc : sinkRefuses A s.ab.tailSeen s.ba.nw = false) :
    (tcpStep A B s false).ba.delivered = s.ba.delivered ++ c ∧ (tcpStep A B s false).ab = s.ab := by
  refine ⟨?_, by simp [tcpStep]⟩
  simp only [tcpStep, Bool.false_eq_true, if_false, dirStep, hba, hp, rdNext, hle, if_true, hne, hacc]
  split <;> rfl

/-- Without refused writes every byte arrives, in both directions, under every fair schedule. -/
theorem C12_tcp_delivers_all (A B : EP) (σ : List Bool)
    (ha : stepsFor A.reads ≤ σ.count true) (hb : stepsFor B.reads ≤ σ.count false)
    (hwB : (tcpRun A B σ).ab.wfEnv = false) (hwA : (tcpRun A B σ).ba.wfEnv = false) :
    (tcpRun A B σ).ab.delivered = A.reads.flatten ∧ (tcpRun A B σ).ba.delivered = B.reads.flatten := by
  have inv := tcpRun_inv A B σ
  have hd : (tcpRun A B σ).ab.done = true ∧ (tcpRun A B σ).ba.done = true := by
    simpa [TcpSt.returned] using tcpRun_returned A B σ ha hb
  have f1 := inv.ab.full hwB
  have f2 := inv.ba.full hwA
  rw [inv.ab.fin hd.1 hwB] at f1
  rw [inv.ba.fin hd.2 hwA] at f2
  exact ⟨by simpa using f1, by simpa using f2⟩

/-! ## UDP relay (`UDP`) -/

/-- **Codec round trip**: de-framing the encoding of well-formed datagrams returns them — same
boundaries, contents, order — and never reports an illegal length. -/
theorem C12_udp_roundtrip (ds : List Bytes) (hwf : ds.all wfDgram = true) :
    (drainAll (encodeAll ds)).pk = ds ∧ (drainAll (encodeAll ds)).ill = false := by
  have h := drainAll_cut ds hwf (encodeAll ds).length
  rw [List.take_length, completeBefore_all ds _ (Nat.le_refl _)] at h
  exact h

/-- **Every cut offset**: the encoding ended at any byte offset de-frames to exactly the datagrams
complete before the cut (partial prefixes and partial bodies included) and is never illegal. -/
theorem C12_udp_cut (ds : List Bytes) (hwf : ds.all wfDgram = true) (cut : Nat) :
    (drainAll ((encodeAll ds).take cut)).pk = completeBefore ds cut ∧
    (drainAll ((encodeAll ds).take cut)).ill = false :=
  drainAll_cut ds hwf cut

/-- **Termination, everywhere**: for every tunnel stream content (valid, cut anywhere, hostile), every
chunking, every ending of either side and every schedule, the repaired relay returns, and what it
wrote to the UDP socket is the parse of the flattened stream — independent of the chunking. The only
hypothesis: not both sides stay silent forever. -/
theorem C12_udp_terminates (c : UdpCase) (hwf : ¬ (c.utail = .hold ∧ c.ttail = .hold)) (σ : List Bool) :
    (udpRun .repaired c (udpComplete c σ)).returned = true ∧
    (udpRun .repaired c (udpComplete c σ)).dec.out = (drainAll c.tchunks.flatten).pk := by
  have h := udp_returned c hwf σ
  have hd : (udpRun .repaired c (udpComplete c σ)).dec.done = true := by
    have := h.1; simp only [UdpSt.returned, Bool.and_eq_true] at this; exact this.2
  exact ⟨h.1, (h.2.dec.fin ((Dec.done_iff _).mp hd)).symm⟩

/-- **Main UDP theorem.** For all datagram/tick sequences on the UDP side (the flush schedule), all
tunnel streams that are the encoding of well-formed datagrams cut at ANY offset (or followed by
arbitrary bytes), all chunkings of that stream, all endings (EOF / error / blocked until closed, error
fused with the last chunk) and all schedules of the two goroutines: the relay returns, the UDP side got
exactly the datagrams complete before the cut, the tunnel got exactly the encoding of the datagrams
read from the UDP socket (ticks change nothing), all of them if the tunnel stays up. -/
theorem C12_udp (sc : UdpSpecCase) (chunks : List Bytes) (hflat : chunks.flatten = sc.stream)
    (hwf : ¬ (sc.utail = .hold ∧ sc.ttail = .hold)) (σ : List Bool) :
    holdsUdp sc (udpObs (udpRun .repaired ⟨sc.uevs, sc.utail, chunks, sc.ttail, sc.tfused⟩
      (udpComplete ⟨sc.uevs, sc.utail, chunks, sc.ttail, sc.tfused⟩ σ))) = true := by
  have h := udp_returned ⟨sc.uevs, sc.utail, chunks, sc.ttail, sc.tfused⟩ hwf σ
  exact holdsUdp_of sc chunks hflat _ h.2 h.1

/-- The tunnel stream never depends on where the flush ticker fired or on batch boundaries: at any
moment of any run, writes so far ++ pending batch = encoding of the datagrams read so far. -/
theorem C12_udp_flush_irrelevant (c : UdpCase) (σ : List Bool) :
    ∃ taken, dgramsOf c.uevs = taken ++ dgramsOf (udpRun .repaired c σ).enc.pending ∧
      (udpRun .repaired c σ).enc.flushes.flatten ++ (udpRun .repaired c σ).enc.batch = encodeAll (normDs taken) ∧
      ((udpRun .repaired c σ).enc.done = true → (udpRun .repaired c σ).enc.batch = []) := by
  have inv := udpFold_inv c σ _ (udpInv_init c)
  obtain ⟨taken, h1, _, h3⟩ := inv.enc.split
  exact ⟨taken, h1, h3, inv.enc.fin⟩

/-- **The batch buffer never overflows**: between events the batch is at most half the buffer, so
the next maximal record (2 + 65536 bytes) always fits — `batchBuf[batchPos+2:]` stays in range. -/
theorem C12_udp_batch_fits (e : Enc) (ev : UEv) (h : e.batch.length ≤ halfFull) :
    (encEv e ev).batch.length ≤ halfFull ∧ e.batch.length + (2 + readBuf_0) ≤ batchBufSize := by
  have hc : halfFull = 131072 ∧ batchBufSize = 262144 ∧ readBuf_0 = 65536 := ⟨rfl, rfl, rfl⟩
  refine ⟨?_, by omega⟩
  cases ev with
  | tick => simp [encEv, flush_batch]
  | dgram d0 =>
    simp only [encEv]
    split
    · exact h
    · split <;> split
      all_goals first
        | (rw [flush_batch]; exact Nat.zero_le _)
        | (rename_i hh; exact Nat.le_of_not_lt hh)

/-! ## The two defects of the code as found (repaired in the worktree; kept as witnesses) -/

/-- C12-a as found: the tunnel ends inside a record (`00 05 'a' 'b'`, then EOF) — the loop re-reads
EOF forever; under the same schedule the repaired loop returns. -/
theorem C12_udp_asFound_spin_witness :
    (udpRun .asFound ⟨[], .eof, [[0, 5, 97, 98]], .eof, false⟩ (udpComplete ⟨[], .eof, [[0, 5, 97, 98]], .eof, false⟩ [])).returned = false ∧
    (udpRun .repaired ⟨[], .eof, [[0, 5, 97, 98]], .eof, false⟩ (udpComplete ⟨[], .eof, [[0, 5, 97, 98]], .eof, false⟩ [])).returned = true := by
  decide

/-- C12-b as found: the tunnel ends at a record boundary while the UDP socket is silent — the
UDP→tunnel goroutine stays blocked in Read and `UDP` never returns. -/
theorem C12_udp_asFound_hang_witness :
    (udpRun .asFound ⟨[], .hold, [[0, 2, 97, 98]], .eof, false⟩ (udpComplete ⟨[], .hold, [[0, 2, 97, 98]], .eof, false⟩ [])).returned = false ∧
    (udpObs (udpRun .repaired ⟨[], .hold, [[0, 2, 97, 98]], .eof, false⟩ (udpComplete ⟨[], .hold, [[0, 2, 97, 98]], .eof, false⟩ []))).udp = [[97, 98]] := by
  decide

/-! ## Non-vacuity -/

/-- The hypotheses of `C12_udp` are inhabited by a non-trivial case: two datagrams cut inside the
second prefix, delivered in three reads with the error fused to the last one, datagrams and a tick on
the UDP side, an interleaved schedule. -/
example :
    let sc : UdpSpecCase := ⟨[.dgram [1, 2], .tick, .dgram [3]], .hold, [[97], [98, 99]], 4, [], .err, true⟩
    [[0, 1], [97], [0]].flatten = sc.stream ∧ ¬ (sc.utail = .hold ∧ sc.ttail = .hold) ∧
    (udpObs (udpRun .repaired ⟨sc.uevs, sc.utail, [[0, 1], [97], [0]], sc.ttail, sc.tfused⟩
      (udpComplete ⟨sc.uevs, sc.utail, [[0, 1], [97], [0]], sc.ttail, sc.tfused⟩ [true, false, true, false]))).udp = [[97]] := by
  decide

example : wfDgram [7] = true ∧ [[7], [8, 9]].all wfDgram = true ∧ completeBefore [[7], [8, 9]] 6 = [[7]] := by decide

/-- A TCP case in which A half-closes first and B keeps sending: everything arrives. -/
example :
    let A : EP := ⟨[[1, 2]], .eof, false, none, false⟩
    let B : EP := ⟨[[3], [4, 5]], .eof, false, none, false⟩
    (tcpObs (tcpRun A B (tcpComplete A B [true, true, false, false, false]))).toA = [3, 4, 5] ∧
    (tcpObs (tcpRun A B (tcpComplete A B [true, true, false, false, false]))).toB = [1, 2] := by
  decide

/-- `holdsTcp` is not trivially true: an observation that lost a byte fails it. -/
example : holdsTcp ⟨[[1, 2]], .eof, false, none, false⟩ ⟨[], .eof, false, none, false⟩
    ⟨true, [1], [], false, false, false, true, true, true, 1, 0, .none, .none⟩ = false := by decide

/-- `holdsUdp` is not trivially true: a relay that dropped the datagram before the cut fails it. -/
example : holdsUdp ⟨[], .hold, [[97]], 3, [], .eof, false⟩ ⟨true, [], [], 0, false, false, 0, 0⟩ = false := by decide

end Tunnox.C12
