import TunnoxModel.Proofs.C12
/-!
# C12 — client-side relays deliver everything and always terminate

All theorems are about the executable model in `Model/C12.lean` that the driver runs against the
implementation (`tcpRun`/`udpRun` with the schedule completed by `tcpComplete`/`udpComplete`), and use
the `Spec` predicates `holdsTcp`/`holdsUdp` that the runner applies to the implementation's observations.
Quantifiers: all payloads and read chunkings (`EP.reads`, `chunks`), all endings (EOF, error, error
fused with the last chunk, refused writes at any index, full close), ALL schedules `σ` of the two
goroutines, every cut offset `cut` of the encoded stream and arbitrary trailing bytes `junk`.
-/
namespace Tunnox.C12
open Gen Gen.iocopy.UDP

/-! ## Ties to the source (T1 constants, T2 call skeletons) -/

/-- The effectful calls of `Bidirectional`, in source order: per direction Read → Write → (loop end)
half-close of the sink; Close of both sockets only after `wg.Wait()`. -/
theorem skel_Bidirectional : Gen.Skel.Bidirectional =
    ["wg.Add", "wg.Done", "connA.Close", "connA.Read", "writerB.Write", "writerB.Close", "tryCloseWrite",
     "wg.Done", "connB.Close", "readerB.Read", "connA.Write", "tryCloseWrite",
     "wg.Wait", "connA.Close", "connB.Close"] := by decide

/-- `UDP`: the only `tunnelConn.Write` is the one inside `flushLocked` (first entry), and every call of
`flushLocked` lies between `batchMu.Lock` and `batchMu.Unlock` — the lock fact behind "a tunnel Write in
progress refers to a batch region nobody can overwrite" (`Enc.wip` blocks every append in the model).
The tunnel→UDP goroutine closes `udpConn` when it ends (the second `udpConn.Close` is the final one). -/
theorem skel_UDP : Gen.Skel.UDP =
    ["wg.Add", "wg.Done", "tunnelConn.Write",
     "batchMu.Lock", "flushLocked", "batchMu.Unlock",                      -- flush goroutine
     "udpConn.Read", "batchMu.Lock", "flushLocked", "batchMu.Unlock",      -- read ended: final flush
     "batchMu.Lock", "flushLocked", "batchMu.Unlock", "flushLocked", "batchMu.Unlock",  -- datagram: full / half-full flush
     "tryCloseWrite", "wg.Done", "udpConn.Close", "flush", "udpConn.Write", "tunnelConn.Read", "flush", "flush", "flush",
     "flush", "wg.Wait", "udpConn.Close", "tunnelConn.Close"] := by decide

/-- The tunnel lifecycle is driven by the relay result: copy, account, close. -/
theorem skel_runDataCopy : Gen.Skel.runDataCopy =
    ["iocopy.UDP", "iocopy.Bidirectional", "bytesSent.Add", "bytesRecv.Add", "t.Close"] := by decide

/-- Size obligations the proofs rely on, re-checked against the regenerated constants: a maximal
record fits the batch buffer after a flush, the half-full mark is half the buffer, a stuck window
remainder (≤ 65536 bytes) is below the refill threshold, the window has room above the threshold,
the 64 KiB datagram buffer, the 2-byte prefix and its largest value, a non-empty copy buffer. -/
theorem size_obligations :
    2 + readBuf_0 ≤ batchBufSize ∧ fullAt = batchBufSize ∧ batchBuf = batchBufSize ∧ 2 * halfFull = batchBufSize ∧
    maxPacketLen + 1 < refill ∧ refill < readBuf_1 ∧ readBuf_0 = 65536 ∧ hdrLen = 2 ∧ maxPacketLen = 65535 ∧
    0 < cloudconstants.CopyBufferSize := by decide

/-! ## TCP relay (`Bidirectional`) -/

/-- **Main TCP theorem.** For all scripts of both sockets — any payload and chunking, ending in EOF, in an
ERROR (alone or fused with the last chunk), with refused Writes, full close, or PASSIVE (a peer that ends
only after it has been told that the other direction is over) —, all endpoint kinds, and EVERY schedule `σ`
(any interleaving of the two goroutines, Writes that stay in progress on a slow sink) followed by the
completion of the run: the relay returns, each side has received a prefix of the other side's bytes in
order, and all of them unless that side itself refused a Write. Hypothesis `TcpWF`: a passive peer can be
told (its object forwards a half-close: `tryCloseWrite kind`) and not both peers are passive. In particular: when one side
FAILS while the other is passive, the relay still signals the end to the passive side and returns. -/
theorem C12_tcp (A B : EP) (hwf : TcpWF A B) (σ : List TTok) :
    holdsTcp A B (tcpObs A B (tcpRun A B (tcpComplete A B σ))) = true :=
  holdsTcp_of A B _ (tcpRun_inv A B _) (tcpRun_returned A B hwf σ)

/-- **The end of a direction is signalled whatever its cause**: in every reachable state, as soon as A→B
has left its loop — clean EOF, read error, refused write alike — the half-close has been issued on B
(and reaches the transport iff B implements `CloseWrite`); symmetrically for B→A. -/
theorem C12_tcp_end_is_signalled (A B : EP) (σ : List TTok) :
    ((tcpRun A B σ).toldB B = ((tcpRun A B σ).ab.done && tryCloseWrite B.kind)) ∧
    ((tcpRun A B σ).toldA A = ((tcpRun A B σ).ba.done && tryCloseWrite A.kind)) ∧
    (∀ e, (tcpRun A B σ).ab.done = true → (tcpRun A B σ).ab.err = e → B.kind = .cw → (tcpRun A B σ).toldB B = true) := by
  refine ⟨rfl, rfl, fun e hd _ hk => ?_⟩
  simp [TcpSt.toldB, hd, hk, tryCloseWrite]

/-- **In order, at every moment**: after any schedule whatsoever (fair or not, finished or not, Writes
in progress or not) what each side has received is a prefix of what the other side sent. -/
theorem C12_tcp_in_order_always (A B : EP) (σ : List TTok) :
    (tcpRun A B σ).ab.delivered <+: A.reads.flatten ∧ (tcpRun A B σ).ba.delivered <+: B.reads.flatten :=
  ⟨(tcpRun_inv A B σ).ab.pre, (tcpRun_inv A B σ).ba.pre⟩

/-- **Returns exactly when both directions have finished** (`wg.Wait`), and both do finish after every schedule. -/
theorem C12_tcp_returns (A B : EP) (σ : List TTok) :
    ((tcpRun A B σ).returned = true ↔ (tcpRun A B σ).ab.done = true ∧ (tcpRun A B σ).ba.done = true) ∧
    (TcpWF A B → (tcpRun A B (tcpComplete A B σ)).returned = true) :=
  ⟨by simp [TcpSt.returned], fun hwf => tcpRun_returned A B hwf σ⟩

/-- **Half-close does not stop the reverse direction**, for EVERY kind of endpoint object (`A.kind`, `B.kind`
are arbitrary): in any state in which A→B has finished (A reached EOF or failed; `tryCloseWrite(B)` was
issued — a real half-close for a `cw` endpoint, nothing at all for the wrapper kinds) the next B→A
iteration still delivers B's next chunk to A, and leaves the finished direction untouched. -/
theorem C12_tcp_reverse_continues (A B : EP) (s : TcpSt) (c : Bytes) (cs : List Bytes)
    (_hab : s.ab.done = true) (hq : s.baHeld = none) (hba : s.ba.done = false) (hp : s.ba.pending = c :: cs)
    (hne : c.isEmpty = false) (hle : c.length ≤ cloudconstants.CopyBufferSize)
    (hacc : sinkRefuses A s.aSeen s.ba.nw = false) :
    (tcpStep A B s .b).ba.delivered = s.ba.delivered ++ c ∧ (tcpStep A B s .b).ab = s.ab := by
  have hnb : blockedRead B s.ba (s.toldB B) = false := by simp [blockedRead, hp]
  refine ⟨?_, by simp [tcpStep, hq, hnb]⟩
  simp only [tcpStep, hq, hnb, Option.isSome_none, Bool.or_self, Bool.false_eq_true, if_false, dirStep, hba, hp, rdNext, hle, if_true, hne, hacc]
  split <;> rfl

/-- **What `tryCloseWrite` does, per kind**: a half-close reaches socket B exactly when A→B has finished and
B implements `CloseWrite` (directly, or as a wrapper built with a `closeWriteFunc`); for the wrapper kinds (`same`: reader and writer are the same transport conn, as all
production callers build the tunnel side; `split`; `none`) nothing reaches the transport — the peer sees the end
of that direction only at the final `Close`, which is issued only after BOTH directions have finished. -/
theorem C12_tcp_halfclose_by_kind (A B : EP) (σ : List TTok) :
    ((tcpObs A B (tcpRun A B σ)).cwB = true ↔ (tcpRun A B σ).ab.done = true ∧ (B.kind = .cw ∨ B.kind = .wcw)) ∧
    ((tcpObs A B (tcpRun A B σ)).cwA = true ↔ (tcpRun A B σ).ba.done = true ∧ (A.kind = .cw ∨ A.kind = .wcw)) ∧
    ((tcpObs A B (tcpRun A B σ)).closed = true ↔ (tcpRun A B σ).ab.done = true ∧ (tcpRun A B σ).ba.done = true) := by
  refine ⟨?_, ?_, by simp [tcpObs, TcpSt.returned]⟩
  · cases hk : B.kind <;> simp [tcpObs, tryCloseWrite, hk]
  · cases hk : A.kind <;> simp [tcpObs, tryCloseWrite, hk]

/-- The two functions through which a half-close travels, as regenerated from the source:
`tryCloseWrite` tries `*net.TCPConn` then the `CloseWriter` interface and otherwise does nothing;
`readWriteCloser.CloseWrite` tries `closeWriteFunc`, then the Writer's `CloseWrite`, and otherwise does
nothing — in particular it never calls `Close` on anything. -/
theorem skel_closeWrite : Gen.Skel.tryCloseWrite = ["tcpConn.CloseWrite", "cw.CloseWrite"] ∧
    Gen.Skel.readWriteCloser_CloseWrite = ["closeWriteFunc", "cw.CloseWrite"] ∧
    Gen.Skel.readWriteCloser_Close = ["closeFunc"] := by decide

/-- **A slow Write does not stop the other direction either**: while A→B is blocked inside a Write on B
(the sink holds a reference to A→B's copy buffer), every B→A step runs exactly as if nothing were
pending, the pending Write is unaffected, and when it completes A→B continues with the state it had. -/
theorem C12_tcp_slow_write (A B : EP) (s : TcpSt) (d : Dir) (hh : s.abHeld = some d) (hq : s.baHeld = none)
    (hnb : blockedRead B s.ba (s.toldB B) = false) :
    (tcpStep A B s .b).ba = dirStep B A s.aSeen s.ba ∧ (tcpStep A B s .b).abHeld = some d ∧
    (tcpStep A B s .b).ab = s.ab ∧ tcpStep A B s .a = s ∧ (tcpStep A B s .ax).ab = d := by
  simp [tcpStep, hh, hq, hnb]

/-- Without refused writes every byte arrives, in both directions, after every schedule. -/
theorem C12_tcp_delivers_all (A B : EP) (hwf : TcpWF A B) (σ : List TTok)
    (hwB : (tcpRun A B (tcpComplete A B σ)).ab.wfEnv = false) (hwA : (tcpRun A B (tcpComplete A B σ)).ba.wfEnv = false) :
    (tcpRun A B (tcpComplete A B σ)).ab.delivered = A.reads.flatten ∧
    (tcpRun A B (tcpComplete A B σ)).ba.delivered = B.reads.flatten := by
  have inv := tcpRun_inv A B (tcpComplete A B σ)
  have hd : (tcpRun A B (tcpComplete A B σ)).ab.done = true ∧ (tcpRun A B (tcpComplete A B σ)).ba.done = true := by
    simpa [TcpSt.returned] using tcpRun_returned A B hwf σ
  have f1 := inv.ab.full hwB
  have f2 := inv.ba.full hwA
  rw [inv.ab.fin hd.1 hwB] at f1
  rw [inv.ba.fin hd.2 hwA] at f2
  exact ⟨by simpa using f1, by simpa using f2⟩

/-- The honest limit of a transport without half-close: a passive peer behind a wrapper kind (`same`: how the
tunnel side is built in production) can only be released by the final `Close`, which waits for both
directions — with such a peer the relay does not return (outside `TcpWF`; model witness). -/
theorem C12_tcp_passive_peer_needs_halfclose_witness :
    (tcpRun ⟨[[1]], .eof, false, none, false, .cw⟩ ⟨[], .hold, false, none, false, .same⟩
      (tcpComplete ⟨[[1]], .eof, false, none, false, .cw⟩ ⟨[], .hold, false, none, false, .same⟩ [])).returned = false ∧
    (tcpRun ⟨[[1]], .eof, false, none, false, .cw⟩ ⟨[], .hold, false, none, false, .cw⟩
      (tcpComplete ⟨[[1]], .eof, false, none, false, .cw⟩ ⟨[], .hold, false, none, false, .cw⟩ [])).returned = true := by
  decide

/-! ## UDP relay (`UDP`) -/

/-- **Codec round trip**: de-framing the encoding of well-formed datagrams returns them — same
boundaries, contents, order — and never reports an illegal length. -/
theorem C12_udp_roundtrip (ds : List Bytes) (hwf : ds.all wfDgram = true) :
    (drainAll (encodeAll ds)).pk = ds ∧ (drainAll (encodeAll ds)).ill = false := by
  have h := drainAll_cut ds hwf (encodeAll ds).length
  rw [List.take_length, completeBefore_all ds _ (Nat.le_refl _)] at h
  exact h

/-- **Every cut offset**: the encoding ended at any byte offset de-frames to exactly the datagrams
complete before the cut (partial prefixes and partial bodies included) and is never illegal. -/
theorem C12_udp_cut (ds : List Bytes) (hwf : ds.all wfDgram = true) (cut : Nat) :
    (drainAll ((encodeAll ds).take cut)).pk = completeBefore ds cut ∧
    (drainAll ((encodeAll ds).take cut)).ill = false :=
  drainAll_cut ds hwf cut

/-- **Termination, everywhere**: for every tunnel stream content (valid, cut anywhere, hostile), every
chunking, every ending of either side, a UDP socket refusing a Write, and every schedule, the repaired relay
returns, and what it wrote to the UDP socket is the parse of the flattened stream — independent of the
chunking (a prefix of it if the socket refused a Write). The only
hypothesis: not both sides stay silent forever. -/
theorem C12_udp_terminates (c : UdpCase) (hwf : ¬ (c.utail = .hold ∧ c.ttail = .hold)) (σ : List UTok) :
    (udpRun .repaired c (udpComplete c σ)).returned = true ∧
    ((udpRun .repaired c (udpComplete c σ)).dec.stop ≠ .werr →
      (udpRun .repaired c (udpComplete c σ)).dec.out = (drainAll c.tchunks.flatten).pk) ∧
    (udpRun .repaired c (udpComplete c σ)).dec.out <+: (drainAll c.tchunks.flatten).pk := by
  have h := udp_returned c hwf σ
  have hd : (udpRun .repaired c (udpComplete c σ)).dec.done = true := by
    have := h.1; simp only [UdpSt.returned, Bool.and_eq_true] at this; exact this.2
  exact ⟨h.1, fun hnw => (h.2.1.dec.fin ((Dec.done_iff _).mp hd) hnw).symm, decInv_out_prefix _ _ h.2.1.dec⟩

/-- **Main UDP theorem.** For all datagram/tick sequences on the UDP side (the flush schedule), all
tunnel streams that are the encoding of well-formed datagrams cut at ANY offset (or followed by
arbitrary bytes), all chunkings of that stream, all endings (EOF / error / blocked until closed, error
fused with the last chunk), a UDP socket that refuses a Write at any index `uw` (then a prefix arrives and the
relay still returns) and all schedules of the two goroutines — including flush Writes that stay in
progress on a slow tunnel while datagrams arrive and further flushes are triggered, and slow Writes on the
UDP socket —: the relay returns, the UDP side got
exactly the datagrams complete before the cut, the tunnel got exactly the encoding of the datagrams
read from the UDP socket (ticks change nothing), all of them if the tunnel stays up. -/
theorem C12_udp (sc : UdpSpecCase) (chunks : List Bytes) (uw : Option Nat) (hflat : chunks.flatten = sc.stream)
    (hwf : ¬ (sc.utail = .hold ∧ sc.ttail = .hold)) (σ : List UTok) :
    holdsUdp sc (udpObs (udpRun .repaired ⟨sc.uevs, sc.utail, chunks, sc.ttail, sc.tfused, uw⟩
      (udpComplete ⟨sc.uevs, sc.utail, chunks, sc.ttail, sc.tfused, uw⟩ σ))) = true := by
  have h := udp_returned ⟨sc.uevs, sc.utail, chunks, sc.ttail, sc.tfused, uw⟩ hwf σ
  exact holdsUdp_of sc chunks uw hflat _ h.2.1 h.1

/-- **A real UDP socket gets every datagram of every pass**, however many and however large: `flush()` hands the
datagrams of one unpack pass to the sendmmsg batch writer in batches of `batchSize` = 32; the batches put together
are exactly the pass's datagrams in order, none is empty, none exceeds the writer's capacity (which is the same
`batchSize`, so `udpBatchWriter.add` — whose only refusal is "capacity reached", pinned by its skeleton — never
refuses and the ignored return value loses nothing). There is no byte budget: 10 × 8000 or 5 × 65507 bytes go
out like 32 × 1. -/
theorem C12_udp_batches_lose_nothing (pk : List Bytes) :
    (flushBatches batchSize pk).flatten = pk ∧
    (∀ b ∈ flushBatches batchSize pk, b.length ≤ batchSize ∧ b ≠ []) ∧
    batchFlushAt = batchSize ∧
    Gen.Skel.udpBatchWriter_add = ["len", "len"] ∧
    Gen.Skel.udpBatchWriter_flush = ["pktConn.WriteBatch", "conn.Write"] := by
  have h := flushBatches_spec batchSize (by decide) pk.length pk (Nat.le_refl _)
  exact ⟨h.1, h.2, by decide, by decide, by decide⟩

/-- **Asynchronous local socket** (`mapping.UDPVirtualConn`, the `localConn` that `tunnel.runDataCopy` hands to
`iocopy.UDP`): its `Write` queues a private copy and a send loop delivers it later. For all the inputs of
`C12_udp` and EVERY schedule that additionally delays the sends arbitrarily against the relay's further reads
and buffer compactions (tokens `s`), the local application receives exactly the datagrams complete before the
cut — same boundaries, contents, order. -/
theorem C12_udp_async_socket (sc : UdpSpecCase) (chunks : List Bytes) (hflat : chunks.flatten = sc.stream)
    (hwf : ¬ (sc.utail = .hold ∧ sc.ttail = .hold)) (σ : List UTok) :
    holdsUdp sc (udpObsV (udpRun .repaired ⟨sc.uevs, sc.utail, chunks, sc.ttail, sc.tfused, none⟩
      (udpComplete ⟨sc.uevs, sc.utail, chunks, sc.ttail, sc.tfused, none⟩ σ))) = true := by
  have h := udp_returned ⟨sc.uevs, sc.utail, chunks, sc.ttail, sc.tfused, none⟩ hwf σ
  exact holdsUdpV_of sc chunks none hflat _ h.2.1 h.1 h.2.2

/-- What has been sent is, at every moment of every run, a prefix of what the relay wrote, unaffected by
anything the relay does to its read buffer afterwards: sends never change `dec.out`, the relay never changes
what was queued. In the code: `UDPVirtualConn.Write` copies (`make` + `copy`) before it queues — pinned here. -/
theorem C12_udp_async_queue_is_private (c : UdpCase) (σ : List UTok) :
    (udpObsV (udpRun .repaired c σ)).udp <+: (udpRun .repaired c σ).dec.out ∧
    (udpStep .repaired c (udpRun .repaired c σ) .s).dec = (udpRun .repaired c σ).dec ∧
    Gen.Skel.UDPVirtualConn_Write = ["make", "copy", "updateLastActive"] ∧
    Gen.Skel.UDPVirtualConn_writeLoop = ["listener.WriteTo"] := by
  refine ⟨List.take_prefix _ _, ?_, by decide, by decide⟩
  simp only [udpStep]
  split <;> rfl

/-- The tunnel stream never depends on where the flush ticker fired, on batch boundaries or on how
long a Write took: at any moment of any run, bytes delivered ++ batch ++ (record of a datagram the
main loop holds while it waits for the lock) = encoding of the datagrams read so far. -/
theorem C12_udp_flush_irrelevant (c : UdpCase) (σ : List UTok) :
    ∃ taken, dgramsOf c.uevs = taken ++ dgramsOf (udpRun .repaired c σ).enc.pending ∧
      (udpRun .repaired c σ).enc.stream = encodeAll (normDs taken) ∧
      ((udpRun .repaired c σ).enc.done = true → (udpRun .repaired c σ).enc.batch = []) := by
  have inv := udpFold_inv c σ _ (udpInv_init c)
  obtain ⟨taken, h1, _, h3⟩ := inv.enc.split
  exact ⟨taken, h1, h3, fun hd => (inv.enc.fin hd).1⟩

/-- **No tunnel Write is ever in progress on a buffer region the encoder may overwrite.** In every
reachable state with a Write in progress (begun by the ticker, the half-full flush or the final
flush; it refers to `batchBuf[:n]` and reads it when it completes): `n` is the whole batch, and no step
of either goroutine other than the completion of that Write changes the batch or what was delivered —
a datagram that arrives meanwhile is parked until the lock is free. (In the code: the Write happens
under `batchMu`, pinned by `skel_UDP`.) -/
theorem C12_udp_write_region_stable (c : UdpCase) (σ : List UTok) (w : Wip)
    (hw : (udpRun .repaired c σ).enc.wip = some w) (t : UTok) (ht : t ≠ .w) :
    w.n = (udpRun .repaired c σ).enc.batch.length ∧
    (udpStep .repaired c (udpRun .repaired c σ) t).enc.batch = (udpRun .repaired c σ).enc.batch ∧
    (udpStep .repaired c (udpRun .repaired c σ) t).enc.flushes = (udpRun .repaired c σ).enc.flushes ∧
    (udpStep .repaired c (udpRun .repaired c σ) t).enc.wip = some w := by
  have inv : UdpInv c (udpRun .repaired c σ) := udpFold_inv c σ _ (udpInv_init c)
  generalize udpRun .repaired c σ = s at hw inv ⊢
  have hwn := inv.enc.wipn w hw
  have hU : ∀ hold, (udpStepU c s hold).enc.batch = s.enc.batch ∧ (udpStepU c s hold).enc.flushes = s.enc.flushes ∧
      (udpStepU c s hold).enc.wip = some w := by
    intro hold
    unfold udpStepU
    rw [if_neg (by rw [hwn.2]; simp), hw]
    dsimp only
    have sp := stepBlocked_spec c.uevs s.enc w s.udpClosed (utailEnd c.utail) inv.enc hw hwn.2
    exact ⟨sp.2.2.2.1, sp.2.2.2.2.1, by simp only [UdpSt.withEnc]; rw [sp.2.1]; exact hw⟩
  have hT : ∀ hold, (udpStepT .repaired c s hold).enc = s.enc := by
    intro hold
    unfold udpStepT
    split
    · rfl
    · split
      · rfl
      · dsimp only; split <;> rfl
  refine ⟨hwn.1, ?_⟩
  cases t with
  | u => exact hU false
  | uh => exact hU true
  | t => simp only [udpStep]; rw [hT false]; exact ⟨rfl, rfl, hw⟩
  | th => simp only [udpStep]; rw [hT true]; exact ⟨rfl, rfl, hw⟩
  | w => exact absurd rfl ht
  | v =>
    simp only [udpStep]
    cases s.decHeld with
    | none => exact ⟨rfl, rfl, hw⟩
    | some d => exact ⟨rfl, rfl, hw⟩
  | s =>
    simp only [udpStep]
    split
    · exact ⟨rfl, rfl, hw⟩
    · exact ⟨rfl, rfl, hw⟩
  | sa => exact ⟨rfl, rfl, hw⟩

/-- **The batch buffer never overflows**: between events the batch is at most half the buffer, so
the next maximal record (2 + 65536 bytes) always fits — `batchBuf[batchPos+2:]` stays in range —
and the "buffer full" flush is never needed. -/
theorem C12_udp_batch_fits (e : Enc) (ev : UEv) (h : e.batch.length ≤ halfFull) :
    (encEv e false ev).batch.length ≤ halfFull ∧ e.batch.length + (2 + readBuf_0) ≤ batchBufSize := by
  have hc : halfFull = 131072 ∧ batchBufSize = 262144 ∧ readBuf_0 = 65536 := ⟨rfl, rfl, rfl⟩
  refine ⟨?_, by omega⟩
  cases ev with
  | tick => simp [encEv, flush_batch]
  | dgram d0 =>
    simp only [encEv]
    split
    · exact h
    · unfold Enc.encode Enc.half
      split
      · simp only [Bool.false_eq_true, if_false]; rw [flush_batch]; exact Nat.zero_le _
      · rename_i hh; exact Nat.le_of_not_lt hh

/-! ## SOCKS5 UDP-ASSOCIATE tunnel codec (`udpTunnelConn.SendPacket` / `ReceivePacket`) -/

/-- **Main theorem for the listen-side codec.** For all datagram sequences (each at most 65535 bytes, empty
ones included), EVERY partition of the stream into reads — in particular several length-prefixed records
coalesced into one read, as the peer's batching `iocopy.UDP` sends them —, every cut offset and both
endings: the bytes `SendPacket` writes are the encoding, and the receive loop returns exactly the datagrams
complete before the cut, with their boundaries, contents and order, then fails in the read the cut falls
into — never by running out of iterations. This is `holdsS5` on the model the driver runs. -/
theorem C12_s5 (ds : List Bytes) (cut : Nat) (chunks : List Bytes) (tail : Tail)
    (hflat : chunks.flatten = ((ds.map sendPacket).flatten.flatten).take cut) :
    holdsS5 ds cut ((ds.map sendPacket).flatten.flatten)
      (recvAll ((((ds.map sendPacket).flatten.flatten).take cut).length + 1) ⟨chunks, tail⟩) = true := by
  unfold holdsS5
  cases hwf : ds.all wfS5 with
  | false => rfl
  | true =>
    rw [recvAll_flat]
    have hfl : (⟨chunks, tail⟩ : Src).flat = (encodeAll ds).take cut := by
      simp only [Src.flat]; rw [hflat, sendPacket_wire]
    rw [hfl, sendPacket_wire, parseS5_cut ds hwf cut _ (Nat.lt_succ_self _)]
    simp

/-- **`SendPacket` has one path for every payload size**: whatever the length (0 … 65535 — no small-packet /
large-packet distinction, no scratch buffer the payload could be cut to), the bytes put on the tunnel for a
datagram are its 2-byte big-endian length followed by ALL its bytes: exactly `2 + |d|` of them, and the next
`ReceivePacket` gets `d` back. In the source: one `make` for the prefix and two `writer.Write` calls, nothing else
(`ReceivePacket`: two `make` + two `io.ReadFull`) — pinned by skeleton. -/
theorem C12_s5_send_every_size (d : Bytes) (hd : d.length ≤ 65535) (rest : Bytes) (f : Nat) :
    (sendPacket d).flatten = encode1 d ∧ ((sendPacket d).flatten).length = 2 + d.length ∧
    parseS5 (f + 1) ((sendPacket d).flatten ++ rest) = ⟨d :: (parseS5 f rest).pk, (parseS5 f rest).stop⟩ ∧
    Gen.Skel.udpTunnelConn_SendPacket = ["GetWriter", "make", "writer.Write", "writer.Write"] ∧
    Gen.Skel.udpTunnelConn_ReceivePacket = ["GetReader", "make", "io.ReadFull", "make", "io.ReadFull"] := by
  have h1 : (sendPacket d).flatten = encode1 d := by simp [sendPacket, encode1]
  refine ⟨h1, by rw [h1, encode1_length], by rw [h1]; exact parseS5_encode1 f d rest hd, by decide, by decide⟩

/-- **Read-partition independence**: two partitions of the same bytes give the same datagrams and the same
ending — one record per read, records split across reads, or several records in one read. -/
theorem C12_s5_chunk_independent (f : Nat) (s₁ s₂ : Src) (h : s₁.flat = s₂.flat) : recvAll f s₁ = recvAll f s₂ := by
  rw [recvAll_flat, recvAll_flat, h]

/-- **Round trip and termination**: an uncut burst comes back whole and the loop then stops at a record
boundary in the prefix read. -/
theorem C12_s5_roundtrip (ds : List Bytes) (hwf : ds.all wfS5 = true) (chunks : List Bytes) (tail : Tail)
    (hflat : chunks.flatten = encodeAll ds) :
    recvAll ((encodeAll ds).length + 1) ⟨chunks, tail⟩ = ⟨ds, .len⟩ := by
  rw [recvAll_flat]
  have hfl : (⟨chunks, tail⟩ : Src).flat = (encodeAll ds).take (encodeAll ds).length := by
    simp only [Src.flat]; rw [hflat, List.take_length]
  have := parseS5_cut ds hwf (encodeAll ds).length ((encodeAll ds).length + 1) (by rw [List.take_length]; omega)
  rw [hfl, this, completeBefore_all ds _ (Nat.le_refl _)]
  congr 1
  -- the stage at the very end of the stream is the prefix read
  clear this hfl hflat
  induction ds with
  | nil => rfl
  | cons d ds ih =>
    have hds : ds.all wfS5 = true := by simp at hwf ⊢; exact hwf.2
    rw [encodeAll_cons, List.length_append, encode1_length]
    simp only [cutStage]
    rw [if_pos (by omega)]
    have : 2 + d.length + (encodeAll ds).length - (2 + d.length) = (encodeAll ds).length := by omega
    rw [this]; exact ih hds

/-- What the driver executes (`tcpRunFast` / `udpRunFast`: completion phases cut short as soon as a step changes
nothing) is exactly the run the theorems above speak about. -/
theorem C12_driver_runs_the_model (A B : EP) (σ : List TTok) (v : Variant) (c : UdpCase) (τ : List UTok) :
    tcpRunFast A B σ = tcpRun A B (tcpComplete A B σ) ∧ udpRunFast v c τ = udpRun v c (udpComplete c τ) :=
  ⟨tcpRunFast_eq A B σ, udpRunFast_eq v c τ⟩

/-! ## The two defects of the code as found (repaired in the worktree; kept as witnesses) -/

/-- C12-a as found: the tunnel ends inside a record (`00 05 'a' 'b'`, then EOF) — the loop re-reads
EOF forever; under the same schedule the repaired loop returns. -/
theorem C12_udp_asFound_spin_witness :
    (udpRun .asFound ⟨[], .eof, [[0, 5, 97, 98]], .eof, false, none⟩ (udpComplete ⟨[], .eof, [[0, 5, 97, 98]], .eof, false, none⟩ [])).returned = false ∧
    (udpRun .repaired ⟨[], .eof, [[0, 5, 97, 98]], .eof, false, none⟩ (udpComplete ⟨[], .eof, [[0, 5, 97, 98]], .eof, false, none⟩ [])).returned = true := by
  decide

/-- C12-b as found: the tunnel ends at a record boundary while the UDP socket is silent — the
UDP→tunnel goroutine stays blocked in Read and `UDP` never returns. -/
theorem C12_udp_asFound_hang_witness :
    (udpRun .asFound ⟨[], .hold, [[0, 2, 97, 98]], .eof, false, none⟩ (udpComplete ⟨[], .hold, [[0, 2, 97, 98]], .eof, false, none⟩ [])).returned = false ∧
    (udpObs (udpRun .repaired ⟨[], .hold, [[0, 2, 97, 98]], .eof, false, none⟩ (udpComplete ⟨[], .hold, [[0, 2, 97, 98]], .eof, false, none⟩ []))).udp = [[97, 98]] := by
  decide

/-! ## Non-vacuity -/

/-- The hypotheses of `C12_udp` are inhabited by a non-trivial case: two datagrams cut inside the
second prefix, delivered in three reads with the error fused to the last one, datagrams and a tick on
the UDP side, an interleaved schedule in which the ticker's tunnel Write stays in progress while the
next datagram arrives. -/
example :
    let sc : UdpSpecCase := ⟨[.dgram [1, 2], .tick, .dgram [3]], .hold, [[97], [98, 99]], 4, [], .err, true⟩
    [[0, 1], [97], [0]].flatten = sc.stream ∧ ¬ (sc.utail = .hold ∧ sc.ttail = .hold) ∧
    (udpObs (udpRun .repaired ⟨sc.uevs, sc.utail, [[0, 1], [97], [0]], sc.ttail, sc.tfused, none⟩
      (udpComplete ⟨sc.uevs, sc.utail, [[0, 1], [97], [0]], sc.ttail, sc.tfused, none⟩ [.u, .t, .uh, .t, .u, .w]))).udp = [[97]] := by
  decide

example : wfDgram [7] = true ∧ [[7], [8, 9]].all wfDgram = true ∧ completeBefore [[7], [8, 9]] 6 = [[7]] := by decide

/-- A TCP case built like production (local socket with CloseWrite, tunnel = `NewReadWriteCloser(conn, conn, …)`):
A's chunk is stuck in a slow Write on B while B sends, then A half-closes and B keeps sending: everything
arrives, and no half-close reaches the tunnel transport. -/
example :
    let A : EP := ⟨[[1, 2]], .eof, false, none, false, .cw⟩
    let B : EP := ⟨[[3], [4, 5]], .eof, false, none, false, .same⟩
    (tcpObs A B (tcpRun A B (tcpComplete A B [.ah, .b, .ax, .a, .b, .b]))).toA = [3, 4, 5] ∧
    (tcpObs A B (tcpRun A B (tcpComplete A B [.ah, .b, .ax, .a, .b, .b]))).toB = [1, 2] ∧
    (tcpObs A B (tcpRun A B (tcpComplete A B [.ah, .b, .ax, .a, .b, .b]))).cwB = false := by
  decide

/-- One side FAILS (read error fused with its last chunk) while the other is passive and still has data:
`TcpWF` holds, the relay returns, everything arrives in both directions and the passive side was told. -/
example :
    let A : EP := ⟨[[1], [2]], .err, true, none, false, .same⟩
    let B : EP := ⟨[[7, 8]], .hold, false, none, false, .cw⟩
    TcpWF A B ∧
    (tcpObs A B (tcpRun A B (tcpComplete A B [.a, .bh, .a, .bx]))).ret = true ∧
    (tcpObs A B (tcpRun A B (tcpComplete A B [.a, .bh, .a, .bx]))).toB = [1, 2] ∧
    (tcpObs A B (tcpRun A B (tcpComplete A B [.a, .bh, .a, .bx]))).toA = [7, 8] ∧
    (tcpObs A B (tcpRun A B (tcpComplete A B [.a, .bh, .a, .bx]))).serr = .read ∧
    (tcpObs A B (tcpRun A B (tcpComplete A B [.a, .bh, .a, .bx]))).cwB = true := by
  refine ⟨⟨by decide, by decide, by decide⟩, by decide, by decide, by decide, by decide, by decide⟩

/-- `holdsTcp` is not trivially true: an observation that lost a byte fails it. -/
example : holdsTcp ⟨[[1, 2]], .eof, false, none, false, .cw⟩ ⟨[], .eof, false, none, false, .same⟩
    ⟨true, [1], [], false, false, false, true, true, true, 1, 0, .none, .none⟩ = false := by decide

/-- Three datagrams (one empty) coalesced into ONE read, then a read holding the tail of the third: all come
out; and `holdsS5` rejects an observation in which the record that shared a read with its predecessor is lost. -/
example :
    recvAll 12 ⟨[[0, 1, 97, 0, 0, 0, 2, 98], [99]], .eof⟩ = ⟨[[97], [], [98, 99]], .len⟩ ∧
    [[0, 1, 97, 0, 0, 0, 2, 98], [99]].flatten = (([[97], [], [98, 99]] : List Bytes).map sendPacket).flatten.flatten.take 100 ∧
    holdsS5 [[97], [], [98, 99]] 100 [0, 1, 97, 0, 0, 0, 2, 98, 99] ⟨[[97]], .len⟩ = false := by decide

/-- Asynchronous socket: the first read ends inside the second record (so the window is compacted over the bytes
just handed to `Write`), the sends happen only after the next read: both datagrams arrive intact. -/
example :
    (udpObsV (udpRun .repaired ⟨[], .hold, [[0, 1, 65, 0, 2, 66], [67]], .eof, false, none⟩
      (udpComplete ⟨[], .hold, [[0, 1, 65, 0, 2, 66], [67]], .eof, false, none⟩ [.t, .t, .s, .s]))).udp = [[65], [66, 67]] ∧
    (udpObsV (udpRun .repaired ⟨[], .hold, [[0, 1, 65, 0, 2, 66], [67]], .eof, false, none⟩ [.t, .t, .s])).udp = [[65]] := by decide

/-- The UDP socket refuses its second Write: the first datagram has arrived, the error is reported, the relay returns. -/
example :
    (udpObs (udpRun .repaired ⟨[], .hold, [[0, 1, 65, 0, 1, 66, 0, 1, 67]], .eof, false, some 1⟩
      (udpComplete ⟨[], .hold, [[0, 1, 65, 0, 1, 66, 0, 1, 67]], .eof, false, some 1⟩ []))) =
      ⟨true, [], [[65]], 0, true, false, true, 0, 1⟩ := by decide

/-- 70 datagrams of one pass go out as batches of 32, 32 and 6. -/
example : ((flushBatches batchSize (List.replicate 70 [1])).map List.length) = [32, 32, 6] := by
  simp [flushBatches, batchSize]

/-- A 2048-byte datagram followed by a short one, coalesced into one read: 2050 bytes go out for the first, both
come back (sizes around any scratch-buffer limit are ordinary sizes). -/
example (d : Bytes) (h : d.length = 2048) :
    ((sendPacket d).flatten).length = 2050 ∧
    recvAll ((encodeAll [d, [9]]).length + 1) ⟨[encodeAll [d, [9]]], .eof⟩ = ⟨[d, [9]], .len⟩ :=
  ⟨by rw [(C12_s5_send_every_size d (by omega) [] 0).2.1, h],
   C12_s5_roundtrip [d, [9]] (by simp [wfS5]; omega) _ .eof (by simp)⟩

/-- `holdsUdp` is not trivially true: a relay that dropped the datagram before the cut fails it. -/
example : holdsUdp ⟨[], .hold, [[97]], 3, [], .eof, false⟩ ⟨true, [], [], 0, false, false, false, 0, 0⟩ = false := by decide

end Tunnox.C12
