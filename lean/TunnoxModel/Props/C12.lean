import TunnoxModel.Spec.C12
namespace Tunnox.C12
theorem hdr_ok : Gen.iocopy.UDP.hdrLen = 2 := by decide
end Tunnox.C12
