import TunnoxModel.Proofs.C07
/-!
# C07 — the server's view of control connections is consistent, one per client

Property theorems only.  A *history* is a list of `Op` (AcceptConnection, the two halves of a
Handshake, KickOldControlConnection, cleanupStaleConnections, ageing/heartbeat, CloseConnection,
RemoveControlConnection, Unregister, tunnel registration, peer break) over any number of
connections and clients and any connection limit; the theorems quantify over ALL of them.
Schedules: the handshake is split where the auth handler writes `ClientID/Authenticated`
outside the registry lock, so every interleaving of other operations with that window is a
history too.  The model is the one the driver runs (`run .repaired (init n cap) ops`), the
predicate is the Spec `holds` the runner applies to the implementation's observations.
-/
namespace Tunnox.C07
open Gen

/-! ## T1/T2 ties: constants, call skeletons and guards of the Go functions the model mirrors -/

theorem C07_consts : 0 < session.DefaultMaxControlConnections ∧
    session.DefaultMaxControlConnections ≤ session.DefaultMaxConnections ∧
    session.DefaultCleanupInterval < session.DefaultHeartbeatTimeout := by decide

theorem skel_removeConnectionLocked : Skel.removeConnectionLocked = ["Stream.Close", "unindexLocked", "delete"] := by decide
theorem skel_unindexLocked : Skel.unindexLocked = ["delete"] := by decide
theorem skel_Register :
    Skel.Register = ["mu.Lock", "mu.Unlock", "findOldestConnectionLocked", "removeConnectionLocked", "removeConnectionLocked"] := by
  decide
theorem skel_UpdateAuth : Skel.UpdateAuth = ["mu.Lock", "mu.Unlock", "unindexLocked"] := by decide
theorem skel_Remove : Skel.Remove = ["mu.Lock", "mu.Unlock", "removeConnectionLocked"] := by decide
theorem skel_Unregister : Skel.Unregister = ["mu.Lock", "mu.Unlock", "unindexLocked", "delete"] := by decide
theorem skel_KickOldConnection :
    Skel.KickOldConnection = ["mu.Lock", "unindexLocked", "delete", "mu.Unlock", "sendKickFn", "stream.Close"] := by decide
theorem skel_CleanupStale :
    Skel.CleanupStale = ["mu.Lock", "IsStale", "unindexLocked", "delete", "mu.Unlock", "closeFn", "stream.Close"] := by decide
theorem skel_DropStaleIndex : Skel.DropStaleIndex = ["mu.Lock", "mu.Unlock", "delete"] := by decide
theorem skel_GetByClientID : Skel.GetByClientID = ["mu.RLock", "mu.RUnlock"] := by decide
theorem skel_handleHandshake :
    Skel.handleHandshake =
      ["getControlConnectionByConnID", "getConnectionByConnID", "RegisterControlConnection",
       "getControlConnectionByConnID", "getConnectionByConnID", "RegisterControlConnection",
       "authHandler.HandleHandshake", "sendHandshakeResponse", "clientRegistry.DropStaleIndex", "sendHandshakeResponse",
       "clientRegistry.GetByClientID", "clientRegistry.Remove", "clientRegistry.UpdateAuth",
       "getConnectionByConnID", "getConnectionByConnID"] := by decide
theorem skel_CloseConnection :
    Skel.CloseConnection =
      ["connLock.Lock", "delete", "connLock.Unlock", "Stream.Close", "RawConn.Close", "streamMgr.RemoveStream",
       "RemoveControlConnection", "RemoveTunnelConnection"] := by decide
theorem skel_RemoveControlConnection :
    Skel.RemoveControlConnection =
      ["clientRegistry.GetByConnID", "clientRegistry.Remove", "cloudControl.DisconnectClientIfMatch"] := by decide
theorem skel_cleanupStaleConnections :
    Skel.cleanupStaleConnections =
      ["clientRegistry.CleanupStale", "cloudControl.DisconnectClientIfMatch", "CloseConnection"] := by decide
/-- adapter.go: accept, read loop, deferred teardown (`settle` in the model) -/
theorem skel_adapterHandleConnection :
    Skel.adapterHandleConnection = ["cleanupConnection", "initializeConnection", "connectionReadLoop"] := by decide
theorem skel_adapterCleanupConnection : Skel.adapterCleanupConnection = ["session.CloseConnection", "closer.Close"] := by
  decide
theorem skel_adapterInitializeConnection : Skel.adapterInitializeConnection = ["session.AcceptConnection"] := by decide
theorem skel_adapterReadLoop :
    Skel.adapterReadLoop = ["checkAndHandleStreamMode", "readPacketWithTimeout", "handlePacketAndCheckModeSwitch"] := by
  decide
theorem skel_adapterHandlePacket : Skel.adapterHandlePacket = ["session.HandlePacket"] := by decide
theorem guard_adapterCleanupConnection :
    Guard.adapterCleanupConnection =
      ["if state.streamConn != nil", "if state.streamConn != nil && b.session != nil", "if state.shouldCloseConn",
       "if closer, ok := conn.(interface{ Close() error }); ok"] := by decide
/-- the registry entry is removed whatever the cloud control answers: no early return between the two -/
theorem guard_RemoveControlConnection :
    Guard.RemoveControlConnection =
      ["if conn != nil", "if authenticated && clientID > 0 && s.cloudControl != nil", "if err != nil", "if disconnected"] := by
  decide
/-- the connection id is claimed in the StreamManager first (an id in use is refused there) -/
theorem skel_CreateConnection :
    Skel.CreateConnection = ["streamMgr.CreateStream", "connLock.Lock", "connLock.Unlock", "connLock.Unlock"] := by decide
theorem skel_handleHeartbeat : Skel.handleHeartbeat = ["clientRegistry.GetByConnID", "UpdateActivity"] := by decide
theorem skel_TunnelRemove : Skel.TunnelRemove = ["mu.Lock", "mu.Unlock", "delete", "delete"] := by decide

/-- the "only entries that point at me" guard and the other decisions the model copies -/
theorem guard_unindexLocked : Guard.unindexLocked = ["range r.clientIDMap", "if indexed == conn"] := by decide
theorem guard_DropStaleIndex :
    Guard.DropStaleIndex = ["if conn == nil", "range r.clientIDMap", "if indexed == conn && clientID != conn.ClientID"] := by
  decide
theorem guard_removeConnectionLocked : Guard.removeConnectionLocked = ["if conn == nil", "if conn.Stream != nil"] := by decide
theorem guard_KickOldConnection :
    Guard.KickOldConnection =
      ["if oldConn != nil && oldConn.ConnID != newConnID", "if connInfo != nil",
       "if sendKickFn != nil && oldConnForCallback != nil", "if connInfo.stream != nil"] := by decide
theorem guard_CleanupStale :
    Guard.CleanupStale =
      ["range r.connMap", "if conn.IsStale(timeout)", "if len(staleInfos) == 0", "range staleInfos", "if closeFn != nil",
       "if err := closeFn(info.connID, info.clientID, info.authenticated); err != nil", "if info.stream != nil"] := by decide
theorem guard_Register :
    Guard.Register =
      ["if conn == nil", "if conn.ConnID == \"\"", "if r.maxConnections > 0 && len(r.connMap) >= r.maxConnections",
       "if oldestConn != nil", "if existing, exists := r.connMap[conn.ConnID]; exists",
       "if conn.Authenticated && conn.ClientID > 0"] := by decide
theorem guard_UpdateAuth : Guard.UpdateAuth = ["if !exists"] := by decide
theorem guard_Unregister : Guard.Unregister = ["if !exists"] := by decide
theorem guard_findOldest :
    Guard.findOldestConnectionLocked = ["range r.connMap", "if oldestConn == nil || conn.CreatedAt.Before(oldestTime)"] := by
  decide
theorem guard_CloseConnection :
    Guard.CloseConnection =
      ["if exists", "if conn != nil", "if conn.Stream != nil", "if conn.RawConn != nil", "if s.streamMgr != nil",
       "if s.connStateStore != nil",
       "if err := s.connStateStore.UnregisterConnection(s.Ctx(), connectionId); err != nil"] := by decide

/-! ## The property -/

/-- **The registry invariant holds after every history** (any order of connects, handshakes,
reconnects, duplicate logins, kicks, heartbeat timeouts and disconnects, any interleaving with
the handshake's unlocked window): an index entry points at a registered object of the same
connection id, whose transport the server has not closed and which SessionManager still tracks;
it is authenticated and carries that client id unless its own handshake is in flight; no
connection is indexed under two client ids; a torn-down or evicted connection has its
transport closed. -/
theorem C07_invariant (n cap : Nat) (ops : List Op) : Inv (run .repaired (init n cap) ops) :=
  inv_run ops (inv_init n cap)

/-- **Main statement, all histories.**  For every universe size, connection limit and history,
the observation of the model satisfies the property predicate: every `lookup(client)` answers
nothing or a live, authenticated, registered connection of that client (for a connection whose
handshake is in flight at the moment of the snapshot the client-id comparison is relaxed — see
`C07_settled` and the recorded window); at most one client id per connection; after
`CloseConnection` no lookup returns the connection, its transport is closed and it is counted
nowhere; every evicted connection has its transport closed; all counters equal the number of
connections the lookups still return. -/
theorem C07_main (n m cap : Nat) (ops : List Op) :
    holds n m cap ops false (obsOf (run .repaired (init n cap) ops) m) = true := by
  have hn : (run .repaired (init n cap) ops).n = n := run_n ops (init n cap)
  have h := holdsWith_of_inv (C07_invariant n cap ops) m (pendSyn ops) (goneSyn n ops)
    (run .repaired (init n cap) ops).evicted
    (run_pend ops (init n cap) (fun _ => false) (by intro c hc; simp [init] at hc))
    (run_gone n ops (init n cap) (fun _ => false, fun _ => false) rfl (by simp) (by simp))
    (fun _ h => h)
  rw [hn] at h
  simpa [holds] using h

/-- **Strict form at quiescent points.**  When no handshake is in flight at the end of the
history (in particular for every history of complete operations), the identity clause holds
without relaxation: `lookup(x)` never returns a connection bound to another client id. -/
theorem C07_settled (n m cap : Nat) (ops : List Op)
    (hq : ∀ c, (run .repaired (init n cap) ops).pend c = none) :
    holds n m cap ops true (obsOf (run .repaired (init n cap) ops) m) = true := by
  have hn : (run .repaired (init n cap) ops).n = n := run_n ops (init n cap)
  have h := holdsWith_of_inv (C07_invariant n cap ops) m (fun _ => false) (goneSyn n ops)
    (run .repaired (init n cap) ops).evicted
    (by intro c hc; exact absurd (hq c) hc)
    (run_gone n ops (init n cap) (fun _ => false, fun _ => false) rfl (by simp) (by simp))
    (fun _ h => h)
  rw [hn] at h
  simpa [holds] using h

/-- **All sequential histories, strict form**: when every handshake in the history is complete,
the strict predicate holds — no hypothesis about the model's state is left. -/
theorem C07_sequential (n m cap : Nat) (ops : List Op) (hc : completeOps ops = true) :
    holds n m cap ops true (obsOf (run .repaired (init n cap) ops) m) = true := by
  apply C07_settled
  intro c
  cases hp : (run .repaired (init n cap) ops).pend c with
  | none => rfl
  | some p =>
    have h1 := run_pend ops (init n cap) (fun _ => false) (by intro c hc; simp [init] at hc) c (by rw [hp]; simp)
    have h2 := pendSyn_complete ops (fun _ => false) hc c h1
    cases h2

example : completeOps [.accept 0, .hsAuth 0 1 true, .hsFin 0, .kick 1 1, .hsChal 0 true, .hsFin 0, .sweep] = true := by decide

/-! ## Cloud-control fault points -/

/-- **All histories, every placement of cloud-control faults.**  A history with fault points marks,
for each operation, whether the cloud-control store fails while it runs (`DisconnectClientIfMatch`
in `RemoveControlConnection` / the stale sweep, `EnsureClientOnline` in the heartbeat return an
error).  For every such history the observation satisfies the same predicate: in particular after
`CloseConnection` under a fault no lookup returns the connection, its transport is closed and the
counters are back — the registry entry is removed whatever the cloud control answers. -/
theorem C07_main_cloud_faults (n m cap : Nat) (fops : List FOp) :
    holdsF n m cap fops false (obsOf (runF .repaired (init n cap) fops) m) = true :=
  C07_main n m cap (fops.map Prod.fst)

/-- … strict form, for histories of complete handshakes. -/
theorem C07_sequential_cloud_faults (n m cap : Nat) (fops : List FOp)
    (hc : completeOps (fops.map Prod.fst) = true) :
    holdsF n m cap fops true (obsOf (runF .repaired (init n cap) fops) m) = true :=
  C07_sequential n m cap (fops.map Prod.fst) hc

/-- The observation does not depend on where the faults are. -/
theorem C07_fault_independent (n cap m : Nat) (fops : List FOp) :
    obsOf (runF .repaired (init n cap) fops) m
      = obsOf (runF .repaired (init n cap) (fops.map (fun p => (p.1, false)))) m := by
  simp [runF, List.map_map, Function.comp_def]

/-- non-vacuity: a login, then `CloseConnection` while the cloud-control store fails — the lookup
answers nothing, the transport is closed, every counter is 0 … -/
example :
    obsOf (runF .repaired (init 1 0)
      [(.accept 0, false), (.hsAuth 0 1 true, false), (.hsFin 0, false), (.close 0, true)]) 1
    = { cl := [none], cn := [⟨none, false, false, true⟩], la := [],
        count := 0, total := 0, control := 0, tunnel := 0, active := 0 } := by decide

/-- … and the predicate rejects the observation in which the closed connection is still listed
(what a `RemoveControlConnection` that returns early on the cloud-control error produces). -/
example :
    holdsF 1 1 0 [(.accept 0, false), (.hsAuth 0 1 true, false), (.hsFin 0, false), (.close 0, true)] true
      { cl := [some ⟨0, 1, true, true⟩], cn := [⟨some (1, true), false, false, true⟩], la := [0],
        count := 1, total := 0, control := 1, tunnel := 0, active := 1 } = false := by decide

/-! ## Histories driven through the adapter's read loop -/

/-- **All histories through the read loops (adapter.go `handleConnection` / `cleanupConnection`),
with any placement of cloud-control faults.**  `runAdp` lets, after every operation, every read loop
end whose transport is closed or broken (unless it is inside a handshake), which runs the
adapter's teardown.  For every such history the observation satisfies `holdsAdp`: all clauses of
`holds`, and — without any bookkeeping of who closed what — every opened connection whose
transport is closed (eviction by kick / re-login / stale sweep / limit, CloseConnection) or broken
by the peer is completely gone: no lookup by client id or connection id returns it,
SessionManager and the tunnel registry no longer track it, ListAuthenticated does not list it and
every counter is back to the number of connections the lookups still return. -/
theorem C07_adapter_main (n m cap : Nat) (fops : List FOp) :
    holdsAdp n m cap fops (obsOf (runAdp .repaired (init n cap) fops) m) = true := by
  have hn : (runAdp .repaired (init n cap) fops).n = n := runAdp_n fops (init n cap)
  have hinv : Inv (runAdp .repaired (init n cap) fops) := inv_runAdp fops (inv_init n cap)
  have hpend := runAdp_pend fops (init n cap) (fun _ => false) (by intro c hc; simp [init] at hc)
  have h := holdsWith_of_inv hinv m (pendSyn (fops.map Prod.fst))
    (fun c => decide (c < n) && (((obsOf (runAdp .repaired (init n cap) fops) m).connAt c).closed ||
                (runAdp .repaired (init n cap) fops).broken c) &&
              (runAdp .repaired (init n cap) fops).opened c && !pendSyn (fops.map Prod.fst) c)
    (runAdp .repaired (init n cap) fops).evicted hpend ?_ (fun _ h => h)
  · rw [hn] at h
    simpa [holdsAdp] using h
  · intro c hc
    simp only [Bool.and_eq_true, Bool.or_eq_true, decide_eq_true_eq, Bool.not_eq_true'] at hc
    obtain ⟨⟨⟨hlt, hcb⟩, hop⟩, hnp⟩ := hc
    by_cases hne : fops = []
    · subst hne
      simp [runAdp, init] at hop
    · have hp : (runAdp .repaired (init n cap) fops).pend c = none := by
        cases hpc : (runAdp .repaired (init n cap) fops).pend c with
        | none => rfl
        | some p =>
          have := hpend c (by rw [hpc]; simp)
          simp only [pendSyn] at hnp
          rw [hnp] at this
          cases this
      apply runAdp_settled fops hne (init n cap) c
      rw [connAt_obsOf _ m c (by rw [hn]; exact hlt)] at hcb
      simp only [dead, hn, hlt, decide_true, Bool.true_and, Bool.and_eq_true, Bool.or_eq_true, hop, hp,
        Option.isNone_none, and_true]
      simpa [connRes] using hcb

/-- non-vacuity: duplicate login through the read loops — the evicted connection's loop ends and its
teardown runs by itself: it is gone from SessionManager too, total count 1 … -/
example :
    obsOf (runAdp .repaired (init 2 0)
      [(.accept 0, false), (.accept 1, false), (.hsAuth 0 1 true, false), (.hsFin 0, false),
       (.hsAuth 1 1 true, false), (.hsFin 1, false)]) 1
    = { cl := [some ⟨1, 1, true, true⟩],
        cn := [⟨none, false, false, true⟩, ⟨some (1, true), true, false, false⟩], la := [1],
        count := 1, total := 1, control := 1, tunnel := 0, active := 1 } := by decide

/-- … and `holdsAdp` rejects the observation in which the evicted connection is still tracked. -/
example :
    holdsAdp 2 1 0
      [(.accept 0, false), (.accept 1, false), (.hsAuth 0 1 true, false), (.hsFin 0, false),
       (.hsAuth 1 1 true, false), (.hsFin 1, false)]
      { cl := [some ⟨1, 1, true, true⟩],
        cn := [⟨none, true, false, true⟩, ⟨some (1, true), true, false, false⟩], la := [1],
        count := 1, total := 2, control := 1, tunnel := 0, active := 1 } = false := by decide

/-- non-vacuity for connection-id reuse: the id comes back after its connection was torn down (a new
incarnation on a new transport), logs in again and is the current connection of the client; an
`accept` of an id that is in use changes nothing -/
example :
    obsOf (run .repaired (init 1 0)
      [.accept 0, .hsAuth 0 1 true, .hsFin 0, .accept 0, .close 0, .accept 0, .hsAuth 0 1 true, .hsFin 0]) 1
    = { cl := [some ⟨0, 1, true, true⟩], cn := [⟨some (1, true), true, false, false⟩], la := [0],
        count := 1, total := 1, control := 1, tunnel := 0, active := 1 } := by decide

/-- non-vacuity for `Register` at the limit with a registered, non-oldest connection id: ONE call displaces two
connections — the oldest (limit eviction) and the previous object of the id (replacement); `C07_main`'s clause
"every evicted connection has its transport closed" covers both: here connections 0 and 1 are closed … -/
example :
    obsOf (run .repaired (init 3 2)
      [.accept 0, .accept 1, .hsAuth 0 1 true, .hsFin 0, .hsAuth 1 2 true, .hsFin 1, .reg 1 0]) 2
    = { cl := [none, none],
        cn := [⟨none, true, false, true⟩, ⟨some (0, false), true, false, true⟩, ⟨none, false, false, false⟩],
        la := [], count := 1, total := 2, control := 1, tunnel := 0, active := 1 } := by decide

/-- … and the predicate rejects the observation in which the evicted oldest connection's transport stayed open. -/
example :
    holds 3 2 2 [.accept 0, .accept 1, .hsAuth 0 1 true, .hsFin 0, .hsAuth 1 2 true, .hsFin 1, .reg 1 0] true
      { cl := [none, none],
        cn := [⟨none, true, false, false⟩, ⟨some (0, false), true, false, true⟩, ⟨none, false, false, false⟩],
        la := [], count := 1, total := 2, control := 1, tunnel := 0, active := 1 } = false := by decide

/-- the pre-authenticated temporary control connection (`Register` of an authenticated object: the index is written) -/
example :
    (obsOf (run .repaired (init 2 0) [.accept 0, .reg 0 2]) 2).cl = [none, some ⟨0, 2, true, true⟩] := by decide

/-! ## Two blocks racing on the registry -/

/-- **Any operation racing with a handshake's `UpdateAuth` (or with any other block).**  Every registry method
holds `ClientRegistry.mu` from its lookup to its last map write (the pinned skeletons and guards of `UpdateAuth`,
`Remove`, `Register`, `KickOldConnection`, `CleanupStale`), so two blocks of operations racing on the registry
produce the outcome of one of the two orders.  For every prefix and every two blocks, both orders satisfy
`holdsRace`: the observation is that of a sequential history and the property holds for it — in particular a
by-client lookup never answers a connection that the by-connection lookup and `Count` no longer know. -/
theorem C07_race_linearizable (n m cap : Nat) (pre a b : List Op) :
    holdsRace n m cap pre a b (obsOf (run .repaired (init n cap) (pre ++ a ++ b)) m) = true ∧
    holdsRace n m cap pre a b (obsOf (run .repaired (init n cap) (pre ++ b ++ a)) m) = true := by
  constructor
  · simp [holdsRace, C07_main]
  · simp [holdsRace, C07_main]

/-- non-vacuity: the outcome "indexed although removed" (a removal landing between the lookup and the indexing of
`UpdateAuth`) is neither order: `holdsRace` rejects it. -/
example :
    holdsRace 1 1 0 [.accept 0] [.hsAuth 0 1 true, .hsFin 0] [.remove 0]
      { cl := [some ⟨0, 1, true, false⟩], cn := [⟨none, true, false, true⟩], la := [],
        count := 0, total := 1, control := 0, tunnel := 0, active := 0 } = false := by decide

example :
    holdsRace 1 1 0 [.accept 0] [.hsAuth 0 1 true, .hsFin 0] [.remove 0]
      (obsOf (run .repaired (init 1 0) [.accept 0, .hsAuth 0 1 true, .hsFin 0, .remove 0]) 1) = true := by decide

/-! ## Non-vacuity and recorded findings -/

/-- a non-trivial history: duplicate login evicts the older connection, re-login under another id,
stale sweep, teardown — and the resulting observation (it is what the Go harness prints) -/
example :
    obsOf (run .repaired (init 3 0)
      [.accept 0, .accept 1, .hsAuth 0 1 true, .hsFin 0, .hsAuth 1 1 true, .hsFin 1, .hsAuth 1 2 true, .hsFin 1,
       .age 1, .sweep, .close 0]) 2
    = { cl := [none, none],
        cn := [⟨none, false, false, true⟩, ⟨none, false, false, true⟩, ⟨none, false, false, false⟩],
        la := [], count := 0, total := 0, control := 0, tunnel := 0, active := 0 } := by decide

example : (obsOf (run .repaired (init 2 0) [.accept 0, .accept 1, .hsAuth 0 1 true, .hsFin 0, .hsAuth 1 2 true, .hsFin 1]) 2).cl
    = [some ⟨0, 1, true, true⟩, some ⟨1, 2, true, true⟩] := by decide

/-- the hypothesis of `C07_settled` is inhabited by a history with handshakes -/
example : ∀ c, (run .repaired (init 2 0) [.accept 0, .hsAuth 0 1 true, .hsFin 0, .kick 1 1]).pend c = none := by
  intro c; simp [run, step, init, ensureObj, ensureSt, registerNew, evictForRoom, insertNew, setPend, setFields, upd,
    hsFinish, hsIndex, dropStale, updateAuth, kickOld, removeObj, unindex, St.count]

/-- `holds` is not trivially true: an index entry under the old id is rejected. -/
example : holds 1 2 0 [.accept 0] false
    { cl := [some ⟨0, 2, true, true⟩, none], cn := [⟨some (2, true), true, false, false⟩], la := [0],
      count := 1, total := 1, control := 1, tunnel := 0, active := 1 } = false := by decide

/-- **The defect as found** (fixed by 8bd1d6a): on the unrepaired index maintenance, a connection that
authenticates as client 1 and then as client 2 is still returned by `lookup(1)` … -/
theorem asFound_reauth_witness :
    holds 1 2 0 [.accept 0, .hsAuth 0 1 true, .hsFin 0, .hsAuth 0 2 true, .hsFin 0] true
      (obsOf (run .asFound (init 1 0) [.accept 0, .hsAuth 0 1 true, .hsFin 0, .hsAuth 0 2 true, .hsFin 0]) 2) = false := by
  decide

/-- … and after `CloseConnection` the lookup returns the closed, unregistered connection. -/
theorem asFound_dangling_witness :
    holds 1 2 0 [.accept 0, .hsAuth 0 1 true, .hsFin 0, .hsAuth 0 2 true, .hsFin 0, .close 0] true
      (obsOf (run .asFound (init 1 0) [.accept 0, .hsAuth 0 1 true, .hsFin 0, .hsAuth 0 2 true, .hsFin 0, .close 0]) 2)
      = false := by
  decide

/-- **Recorded finding `reauth-window`** (not repaired): a snapshot taken between the auth handler's
field writes and the rest of `handleHandshake` sees the connection under its old client id with
the new `ClientID` — the strict predicate fails on the repaired model as on the code. -/
theorem reauth_window_witness :
    holds 1 2 0 [.accept 0, .hsAuth 0 1 true, .hsFin 0, .hsAuth 0 2 true] true
      (obsOf (run .repaired (init 1 0) [.accept 0, .hsAuth 0 1 true, .hsFin 0, .hsAuth 0 2 true]) 2) = false := by
  decide

/-- **Recorded finding `evict-close-window`** (not repaired): `KickOldConnection` (and `CleanupStale`)
close the evicted connection's stream after releasing the registry lock.  A handshake packet of
that connection handled in between re-registers and re-indexes it; the stream is then closed
under the fresh index entry: `lookup(1)` answers a connection whose transport the server closed.
The theorems above treat a kick as one step; this history uses the two finer steps. -/
theorem evict_close_window_witness :
    holdsFine 1 1 0
      [.op (.accept 0), .op (.hsAuth 0 1 true), .op (.hsFin 0), .kickLock 1 1, .op (.hsAuth 0 1 true), .op (.hsFin 0),
       .kickIO 0]
      (obsOf (runFine .repaired (init 1 0)
        [.op (.accept 0), .op (.hsAuth 0 1 true), .op (.hsFin 0), .kickLock 1 1, .op (.hsAuth 0 1 true), .op (.hsFin 0),
         .kickIO 0]) 1) = false := by
  decide

/-- the same finer steps with nothing in the window satisfy the predicate -/
example :
    holdsFine 1 1 0 [.op (.accept 0), .op (.hsAuth 0 1 true), .op (.hsFin 0), .kickLock 1 1, .kickIO 0]
      (obsOf (runFine .repaired (init 1 0)
        [.op (.accept 0), .op (.hsAuth 0 1 true), .op (.hsFin 0), .kickLock 1 1, .kickIO 0]) 1) = true := by
  decide

end Tunnox.C07
