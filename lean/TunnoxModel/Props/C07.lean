import TunnoxModel.Spec.C07
namespace Tunnox.C07
theorem stub : True := trivial
end Tunnox.C07
