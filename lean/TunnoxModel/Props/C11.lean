import TunnoxModel.Spec.C11
namespace Tunnox.C11
open Gen

theorem C11_rule_total : ∀ c ∈ Sel.c11_specialCased ++ Sel.c11_registered, (rule c).isSome = true := by decide

end Tunnox.C11
