import TunnoxModel.Proofs.C11
/-!
# C11 — control commands act with the connection's proven identity only

Property theorems only.  "For every command type the server dispatches × connection identity × claimed
sender/receiver/token fields × target object ownership" is the universal quantifier over
`(w : World) (f : Nat) (c : Cmd)`: any set of connections (never shook hands / registered but not
authenticated / authenticated as any client), any mappings, codes and domains with any owners, any
command type (dispatched or not), any claimed fields, any object references.
All statements are about `exec .repaired`, the function the driver runs against the implementation.
-/
namespace Tunnox.C11
open Gen

/-! ## T1: the command table -/

/-- **Every dispatched command type has a rule**: each command type `handleCommandPacket` special-cases
and each type some handler is constructed for (`NewBaseHandler(packet.X, …)` in `internal/command`,
`internal/app/server`) — both lists regenerated from the Go source — is in the model's table.  A new
special case or handler without a model entry makes this fail. -/
theorem C11_rule_total : ∀ c ∈ Sel.c11_specialCased ++ Sel.c11_registered, (rule c).isSome = true := by decide

/-- Conversely the model dispatches nothing the source does not: over the whole `CommandType` table
(and every number below 256) only the generated types have a rule. -/
theorem C11_rule_only_dispatched :
    ∀ c < 256, (rule c).isSome = true → c ∈ Sel.c11_specialCased ++ Sel.c11_registered := by decide +kernel

/-- The special cases are tested in the order of the source. -/
theorem C11_special_order :
    Sel.c11_specialCased = [c11.cmd.HTTPProxyResponse, c11.cmd.SOCKS5TunnelRequestCmd, c11.cmd.DNSResolve, c11.cmd.DNSQuery,
      c11.cmd.TunnelTrafficReport, c11.cmd.Disconnect] := by decide

/-- The rule table, spelled out (a changed classification is a visible diff here). -/
theorem C11_rule_table :
    (Sel.c11_specialCased ++ Sel.c11_registered).map (fun c => (c, rule c)) =
      [(81, some .reply), (90, some .party), (120, some .reach), (121, some .reach), (110, some .party), (11, some .conn),
       (120, some .reach), (84, some .open_), (85, some .self_), (86, some .party), (82, some .open_), (83, some .open_),
       (87, some .self_), (101, some .open_), (102, some .reach), (20, some .open_), (25, some .open_), (30, some .open_),
       (40, some .open_), (44, some .open_), (43, some .open_), (11, some .conn), (60, some .open_), (50, some .self_),
       (70, some .self_), (71, some .self_), (72, some .party), (74, some .self_), (75, some .party), (76, some .party)] := by
  decide +kernel

/-- Only the activation command may change a code its sender merely presents. -/
theorem C11_activate_is_72 :
    ∀ ct < 256, ∀ r : Bool, dispatch ct r = some Handler.codeActivate → ct = c11.cmd.ConnectionCodeActivate := by
  decide +kernel

/-! ## T2: the effectful steps of the anchored functions, in source order -/

theorem skel_handleCommandPacket : Skel.c11_handleCommandPacket =
    ["handleHTTPProxyResponsePacket", "HandleSOCKS5TunnelRequest", "HandleDNSResolveResponse", "HandleDNSResolveRequest",
     "HandleDNSQueryResponse", "HandleDNSQueryRequest", "HandleTrafficReport", "handleDisconnectCommand",
     "commandExecutor.Execute", "handleDefaultCommand"] := by decide
theorem skel_Execute : Skel.c11_Execute = ["createCommandContext", "registry.GetHandler", "executeOneway", "executeDuplex"] := by decide
theorem skel_identity :
    Skel.c11_createCommandContext = ["GetClientIDByConnectionID"] ∧
    Skel.c11_GetClientIDByConnectionID = ["getControlConnectionByConnID"] ∧
    Skel.c11_getClientIDFromConnection = ["clientRegistry.GetByConnID", "getConnectionByConnID", "GetClientID"] ∧
    Skel.c11_handler_getClientID = ["sessionMgr.GetControlConnection"] := by decide
/-- identity is resolved before the state is touched / the packet is pushed -/
theorem skel_special_handlers :
    Skel.c11_HandleTrafficReport = ["cloudControl.GetPortMapping", "getClientIDFromConnection", "cloudControl.UpdatePortMappingStats"] ∧
    Skel.c11_HandleSOCKS5TunnelRequest = ["cloudControl.GetPortMapping", "getClientIDFromConnection", "GetControlConnectionByClientID",
      "bridgeManager.BroadcastTunnelOpen", "Stream.WritePacket"] ∧
    Skel.c11_HandleDNSResolveRequest = ["getClientIDFromConnection", "getDefaultTargetClientID", "GetControlConnectionByClientID",
      "Stream.WritePacket"] ∧
    Skel.c11_HandleDNSQueryRequest = ["getClientIDFromConnection", "getDefaultTargetClientID", "GetControlConnectionByClientID",
      "handleDNSQueryCrossNode", "Stream.WritePacket"] ∧
    Skel.c11_handleDisconnectCommand = ["clientRegistry.GetByConnID", "CloseConnection"] := by decide
theorem skel_registry_handlers :
    Skel.c11_GenerateConnectionCode_Handle = ["getClientID", "connCodeService.CreateConnectionCode"] ∧
    Skel.c11_ListConnectionCodes_Handle = ["getClientID", "connCodeService.ListConnectionCodesByTargetClient"] ∧
    Skel.c11_ActivateConnectionCode_Handle = ["getClientID", "connCodeService.ActivateConnectionCode"] ∧
    Skel.c11_ListMappings_Handle = ["getClientID", "connCodeService.ListOutboundMappings", "connCodeService.ListInboundMappings",
      "connCodeService.ListOutboundMappings", "connCodeService.ListInboundMappings"] ∧
    Skel.c11_GetMapping_Handle = ["getClientID", "connCodeService.GetMapping"] ∧
    Skel.c11_DeleteMapping_Handle = ["getClientID", "connCodeService.GetMapping", "DeletePortMapping"] ∧
    Skel.c11_ConfigGet_Handle = ["getClientID", "sessionMgr.GetControlConnection", "authHandler.GetClientConfig"] ∧
    Skel.c11_SendNotifyToClient_Handle = ["router.IsClientOnline", "WithSender", "router.SendToClient"] ∧
    Skel.c11_HTTPDomainCreate_Handle = ["checker.IsBaseDomainAllowed", "checker.IsSubdomainAvailable", "creator.CreateHTTPDomainMapping"] ∧
    Skel.c11_HTTPDomainDelete_Handle = ["deleter.DeleteHTTPDomainMapping"] ∧
    Skel.c11_HTTPDomainList_Handle = ["lister.ListHTTPDomainMappings"] ∧
    -- the repository reads the mapping (ownership check) before any delete; the rest of that function belongs to C19
    Skel.c11_HTTPDomainRepo_DeleteMapping.take 2 = ["GetMapping", "storage.Delete"] := by decide

/-! ## The property -/

/-- **Claimed identity fields have no effect**: for every world, connection, command and every value of
`SenderId`, `ReceiverId`, `Token`, and whether or not the body additionally carries every identity-like JSON key
of the server's structs (`sender_client_id`, `client_id`, `created_by`, `user_id`, … — `Gen.c11.identityKeys`,
regenerated from the struct tags) with any foreign value `e`, the execution is the same. -/
theorem C11_noninterference (v : Variant) (w : World) (f : Nat) (c : Cmd) (s r t : String) (e : Nat) :
    exec v w f { c with snd := s, rcv := r, tok := t, extra := e } = exec v w f c := rfl

/-- **A client id in the body never selects who is reached or whose state is touched**, except for the
two commands whose body names the addressee by design (DNS forward, client-to-client notification; both
need an authenticated sender, `C11_unauthenticated_refused`): for every other command — in particular the
SOCKS5 tunnel request, on every path including the cross-node broadcast — the execution is the same for
every `target_client_id`. -/
theorem C11_body_target_ignored (v : Variant) (w : World) (f : Nat) (c : Cmd) (g' : Int) (ha : addressed c = false) :
    exec v w f { c with g := g' } = exec v w f c := by
  have hdsp : execDispatch v w f { c with g := g' } = execDispatch v w f c := by
    unfold execDispatch
    show (match dispatch c.ctype c.resp with
          | none => Run.err
          | some h => execH v h w f { c with g := g' }) = _
    cases hd : dispatch c.ctype c.resp with
    | none => rfl
    | some h =>
      cases h <;> first | rfl | (simp [addressed, hd] at ha)
  unfold exec
  show (if (w.noExec && (special c.ctype c.resp).isNone) = true then execNoExec w f { c with g := g' }
        else execDispatch v w f { c with g := g' }) = _
  rw [hdsp]
  rfl

theorem addressed_strip (c : Cmd) (g' : Int) : addressed { c with g := g' } = addressed c := rfl

/-- blanking all claimed fields (`Cmd.strip`) changes nothing -/
theorem C11_strip (v : Variant) (w : World) (f : Nat) (c : Cmd) : exec v w f c.strip = exec v w f c := by
  unfold Cmd.strip
  cases ha : addressed c with
  | true => simp only [if_true]; rfl
  | false =>
    simp only [Bool.false_eq_true, if_false]
    exact (C11_noninterference v w f { c with g := 0 } "0" "0" "-" 0).trans (C11_body_target_ignored v w f c 0 ha)

/-- Every handler's outcome satisfies the property predicate. -/
theorem C11_handler_holds (w : World) (f : Nat) (c : Cmd) (h : Handler) (hd : dispatch c.ctype c.resp = some h) :
    holdsRun w f c h.rule.needsAuth (execH .repaired h w f c) = true := by
  cases h with
  | httpProxyResp => simp only [execH]; split <;> first | exact holdsRun_err .. | exact holdsRun_quiet ..
  | dnsResp => simp only [execH]; split <;> first | exact holdsRun_err .. | exact holdsRun_quiet ..
  | socks5 => exact h_socks5 w f c
  | traffic => exact h_traffic w f c
  | dnsReq q => exact h_dnsReq w f c q
  | disconnect => exact h_disconnect w f c _
  | stubOneway => exact holdsRun_quiet ..
  | notifyAck => exact holdsRun_quiet ..
  | rpcInvoke => simp only [execH]; split <;> first | exact holdsRun_failResp .. | exact holdsRun_okEmpty ..
  | sendNotify => exact h_sendNotify w f c
  | codeGen => exact h_codeGen w f c
  | codeList => exact h_codeList w f c
  | codeActivate => exact h_codeActivate w f c hd
  | configGet => exact h_mapView w f c
  | mapList => exact h_mapView w f c
  | mapGet => exact h_mapGet w f c
  | mapDelete => exact h_mapDelete w f c
  | domBase => exact holdsRun_okEmpty ..
  | domCheck => simp only [execH]; split <;> first | exact holdsRun_failResp .. | exact holdsRun_okEmpty ..
  | domGen => simp only [execH]; split <;> first | exact holdsRun_failResp .. | exact holdsRun_okEmpty ..
  | domCreate => exact h_domCreate w f c
  | domDelete => exact h_domDelete w f c
  | domList => exact h_domList w f c

/-- **Main theorem**: for every world, every connection (whatever its identity class), every command
packet (every command type, dispatched or not, request or response packet type, every claimed
sender/receiver/token, every named object whoever owns it, well-formed body or not), the observation
the model produces — the run of the packet as sent paired with the run of the packet with blanked
claimed fields — satisfies `holds`, the predicate the driver applies to the implementation's
observations: claimed fields change nothing; only objects the connection's authenticated client is a
party to are disclosed, changed or created; other clients are reached only on behalf of an authenticated
sender (the mapping's target for tunnel opens, with the true sender id for notifications); no other
connection is closed; and an unauthenticated connection gets nothing disclosed, changed or pushed and no
success answer to a command that needs authentication. -/
theorem C11_main (w : World) (f : Nat) (c : Cmd) :
    holds w f c (exec .repaired w f c) (exec .repaired w f c.strip) = true := by
  have hs : exec .repaired w f c.strip = exec .repaired w f c := C11_strip _ w f c
  simp only [holds, hs, decide_true, Bool.true_and]
  unfold exec
  split
  · exact execNoExec_holds ..
  · unfold execDispatch guarded
    cases hd : dispatch c.ctype c.resp with
    | none => exact holdsRun_err ..
    | some h => exact C11_handler_holds w f c h hd

/-- **Unauthenticated connections are refused**: on a connection that has no authenticated client
(never shook hands, or registered but not authenticated) every command whose rule needs an identity —
list/get/delete/create/activate/report/tunnel-request/DNS-forward/notify — is not answered with
success, changes no client-owned state, discloses no object and reaches no other connection — in every
configuration (executor installed or not, bridge or not). -/
theorem C11_unauthenticated_refused (w : World) (f : Nat) (c : Cmd) (h0 : ident w f = 0)
    (hg : guarded c.ctype c.resp = true) :
    (exec .repaired w f c).rsp ≠ .ok ∧ (exec .repaired w f c).chg = [] ∧ (exec .repaired w f c).view = [] ∧
    (∀ d ∈ (exec .repaired w f c).dlv, d.conn = f) := by
  have hm := C11_main w f c
  simp only [holds, Bool.and_eq_true, holdsRun, hg, h0, bne_self_eq_false, Bool.false_or, List.isEmpty_iff,
    Bool.not_true, bne_iff_ne, ne_eq, List.all_eq_true, beq_iff_eq] at hm
  obtain ⟨_, _, ⟨⟨hv, hc⟩, hd⟩, hr⟩ := hm
  exact ⟨hr, hc, hv, hd⟩

/-- the connection id the server gave connection `j` (what a packet would have to carry to name it) -/
def connName (j : Nat) : String := s!"conn-{j}"

/-- **No identity borrowing through the header**: a connection without a proven identity that stamps its packet
with the *connection id* of any other connection of the world — for instance another client's live, authenticated
control connection — in `SenderId` (or `ReceiverId`, `Token`) is treated exactly as if it had not: every command
whose rule needs an identity is not answered with success, and nothing is changed, disclosed or pushed.
(Claimed header fields range over all strings in `C11_noninterference`; connection ids, mapping ids, secret keys
and codes of the world are strings like any other.) -/
theorem C11_no_identity_borrowing (w : World) (f j : Nat) (c : Cmd) (h0 : ident w f = 0)
    (hg : guarded c.ctype c.resp = true) :
    let r := exec .repaired w f { c with snd := connName j, rcv := connName j, tok := connName j }
    r.rsp ≠ .ok ∧ r.chg = [] ∧ r.view = [] ∧ (∀ d ∈ r.dlv, d.conn = f) := by
  have h := C11_noninterference .repaired w f c (connName j) (connName j) (connName j) c.extra
  have hc : ({ c with snd := connName j, rcv := connName j, tok := connName j, extra := c.extra } : Cmd) =
      { c with snd := connName j, rcv := connName j, tok := connName j } := rfl
  rw [hc] at h
  simp only [h]
  exact C11_unauthenticated_refused w f c h0 hg

/-- even a command that needs no identity changes, discloses and pushes nothing on such a connection -/
theorem C11_unauthenticated_inert (w : World) (f : Nat) (c : Cmd) (h0 : ident w f = 0) :
    (exec .repaired w f c).chg = [] ∧ (exec .repaired w f c).view = [] ∧
    (∀ d ∈ (exec .repaired w f c).dlv, d.conn = f) := by
  have hm := C11_main w f c
  simp only [holds, Bool.and_eq_true, holdsRun, h0, bne_self_eq_false, Bool.false_or, List.isEmpty_iff,
    List.all_eq_true, beq_iff_eq] at hm
  obtain ⟨_, _, ⟨⟨hv, hc⟩, hd⟩, _⟩ := hm
  exact ⟨hc, hv, hd⟩

/-- **Parties only**: whatever a command lists or inspects (`view`), deletes or reports traffic for
(`chg`), is a mapping, code or domain the connection's client is a party to (the one exception: the code
a client presents for activation). -/
theorem C11_parties_only (w : World) (f : Nat) (c : Cmd) :
    (∀ o ∈ (exec .repaired w f c).view, o.partyOf w (ident w f) = true) ∧
    (∀ x ∈ (exec .repaired w f c).chg, chgAllowed w (ident w f) c x = true) := by
  have hm := C11_main w f c
  simp only [holds, Bool.and_eq_true, holdsRun, List.all_eq_true] at hm
  exact ⟨hm.2.1.1.1.1, hm.2.1.1.1.2⟩

/-- **Other clients are reached only legitimately**, and no other connection is closed. -/
theorem C11_reach (w : World) (f : Nat) (c : Cmd) :
    (∀ d ∈ (exec .repaired w f c).dlv, dlvAllowed w (ident w f) f d = true) ∧
    (∀ g ∈ (exec .repaired w f c).gone, g = f) := by
  have hm := C11_main w f c
  simp only [holds, Bool.and_eq_true, holdsRun, List.all_eq_true, beq_iff_eq] at hm
  exact ⟨hm.2.1.1.2, hm.2.1.2⟩

/-- **Delete / report / inspect only as a party — under every storage-read fault schedule**: `c.faults` is an
arbitrary schedule of transient failures of the reads of the named mapping's record (the ownership read in the
handler, the re-reads inside `DeletePortMapping` / `UpdatePortMappingStats`); it is universally quantified like
every other field of `c`.  Whatever the schedule, if the command deletes mapping `i`, removes it from the
clients' lists, changes its traffic counters or discloses it, then the connection is authenticated and its
client is the listen or the target client of mapping `i`.  In particular a failed ownership read never turns
into a delete on behalf of a stranger. -/
theorem C11_touch_only_party_any_faults (w : World) (f : Nat) (c : Cmd) (i : Nat)
    (h : Chg.del (.map i) ∈ (exec .repaired w f c).chg ∨ Chg.mod (.map i) ∈ (exec .repaired w f c).chg ∨
         Obj.map i ∈ (exec .repaired w f c).view) :
    ident w f ≠ 0 ∧ ∃ m, w.maps[i]? = some m ∧ isParty (ident w f) m = true := by
  have hid : ident w f ≠ 0 := by
    intro h0
    obtain ⟨hc, hv, _⟩ := C11_unauthenticated_inert w f c h0
    rw [hc, hv] at h
    simp at h
  refine ⟨hid, ?_⟩
  obtain ⟨hv, hc⟩ := C11_parties_only w f c
  have hp : (Obj.map i).partyOf w (ident w f) = true := by
    rcases h with h | h | h
    · simpa [chgAllowed] using hc _ h
    · have := hc _ h
      simpa [chgAllowed] using this
    · exact hv _ h
  simp only [Obj.partyOf] at hp
  split at hp
  · rename_i m hm; exact ⟨m, hm, hp⟩
  · cases hp

/-- **A used code opens nothing**: the world's history may contain codes that were activated earlier (`Code.actBy`:
by whom; the mapping that activation created is one of `w.maps`).  Whoever presents such a code again — the
activator, the code's owner, a stranger, an unauthenticated connection — gets a refusal: nothing is disclosed (in
particular not the mapping the first activation created, nor its secret key), nothing changes, nothing is pushed.
(That a *successful* answer may only show objects of the caller is `C11_parties_only`; `holds` applies it to the
implementation's answer whatever branch produced it.) -/
theorem C11_used_code_replay (w : World) (f : Nat) (c : Cmd) (i : Nat) (cd : Code) (hne : w.noExec = false)
    (hd : dispatch c.ctype c.resp = some .codeActivate) (hk : getRef w.codes c.k = some (i, cd))
    (hu : cd.activated = true) :
    exec .repaired w f c = Run.failResp := by
  unfold exec execDispatch
  simp only [hne, Bool.false_and, Bool.false_eq_true, if_false, hd, execH, hk, hu, if_true]
  split
  · rfl
  · split <;> rfl

/-! ### schedules -/

/-- **A handler that outlives the executor's wait still acts for ITS connection**: whether the handler of a duplex
command finishes within the executor's RPC wait or is still running when the wait times out — and then resumes while
a command of any other connection `j` is being dispatched (`c.late = some j`) — what the command discloses, changes,
pushes and answers (and to whom) is the same; in particular it is decided by the identity of the connection the
command arrived on (`C11_main` holds for every value of `late`), never by the connection of the other command. -/
theorem C11_schedule_independent (v : Variant) (w : World) (f : Nat) (c : Cmd) (l : Option Nat) :
    exec v w f { c with late := l } = exec v w f c := rfl

theorem C11_main_any_schedule (w : World) (f j : Nat) (c : Cmd) :
    holds w f { c with late := some j } (exec .repaired w f { c with late := some j })
      (exec .repaired w f ({ c with late := some j } : Cmd).strip) = true := C11_main w f _

/-- **Concurrent commands of other connections never lend their identity**: while commands of any other connection
`j` are being executed at the same time (`late := some j`; handlers are singletons shared by all connections), every
answer to the command that arrived on connection `f` shows only objects the client authenticated on `f` is a party
to, and changes only such objects — the other connection's client plays no role. -/
theorem C11_concurrent_own_identity (w : World) (f j : Nat) (c : Cmd) :
    (∀ o ∈ (exec .repaired w f { c with late := some j }).view, o.partyOf w (ident w f) = true) ∧
    (∀ x ∈ (exec .repaired w f { c with late := some j }).chg, chgAllowed w (ident w f) { c with late := some j } x = true) :=
  C11_parties_only w f { c with late := some j }

/-! ### connection histories -/

/-- **The identity of a connection is its last successful authentication**: after any history of handshake steps
(and any commands in between — commands never change identity), a final successful login as `c` makes the
connection's identity `c`, whatever it was authenticated as before. -/
theorem C11_identity_after_relogin (node : Nat) (steps : List Step) (c : Nat) (hc : c ≠ 0) :
    Conn.after node (steps ++ [.login c]) = ⟨.auth, c, (Conn.after node steps).node⟩ := by
  simp [Conn.after, List.foldl_append, Conn.step, hc]

/-- handshake attempts that do not succeed never change an identity already proven, and never create one -/
theorem C11_identity_unchanged_by_failed_attempts (x : Conn) (st : Step) (h : ∀ c, st ≠ .login c) :
    (x.step st).cid = x.cid ∧ ((x.step st).kind = .auth ↔ x.kind = .auth) := by
  cases st with
  | accept => simp [Conn.step]
  | login c => exact absurd rfl (h c)
  | refused => simp only [Conn.step]; split <;> simp_all
  | pending c => simp only [Conn.step]; split <;> simp_all
  | failed c => simp only [Conn.step]; split <;> simp_all

/-- **Commands after a re-authentication run as the NEW identity — for every command and every history**: the
property theorems (`C11_main`, `C11_parties_only`, …) hold for every world, hence for every world whose connections
are the outcome `connsOf hs` of arbitrary connection histories `hs` (several handshakes on one connection, logins
of the same client elsewhere); what they see as "the connection's identity" is `ident`, i.e. the last successful
login of that connection unless a later login of the same client elsewhere took its control connection away. -/
theorem C11_main_histories (hs : List (Nat × List Step)) (w : World) (hw : w.conns = connsOf hs) (f : Nat) (c : Cmd) :
    holds w f c (exec .repaired w f c) (exec .repaired w f c.strip) = true := C11_main w f c

/-- **The sender a recipient is told is the connection's identity**: every command packet delivered to another
connection either names no sender or names exactly the client authenticated on the connection the command
arrived on; a client-to-client notification always names it. -/
theorem C11_delivered_sender (w : World) (f : Nat) (c : Cmd) :
    ∀ d ∈ (exec .repaired w f c).dlv, d.conn ≠ f →
      (d.sender = none ∨ d.sender = some (ident w f)) ∧
      (d.ctype = c11.cmd.NotifyClient → d.sender = some (ident w f)) := by
  intro d hd hne
  have h := (C11_reach w f c).1 d hd
  simp only [dlvAllowed, Bool.or_eq_true, beq_iff_eq, Bool.and_eq_true, bne_iff_ne, ne_eq] at h
  rcases h with h | ⟨_, h⟩
  · exact absurd h hne
  · split at h
    · rename_i hct
      simp only [Bool.and_eq_true, beq_iff_eq] at h
      refine ⟨Or.inl h.2, ?_⟩
      intro hn; rw [hn] at hct; exact absurd hct (by decide)
    · split at h
      · simp only [beq_iff_eq] at h; exact ⟨Or.inr h, fun _ => h⟩
      · rename_i hn
        split at h
        · simp only [beq_iff_eq] at h; exact ⟨Or.inl h, fun hc => absurd hc hn⟩
        · cases h

/-- the full observation (runs + payload/record digests) of the model satisfies the predicate the driver applies -/
theorem C11_main_obs (w : World) (f : Nat) (c : Cmd) :
    holdsObs w f c ⟨exec .repaired w f c, exec .repaired w f c.strip, [], []⟩ = true := by
  simp [holdsObs, C11_main]

/-- The identity-like JSON keys any struct of the anchored packages can decode, as regenerated from the struct
tags; the harness adds exactly these to command bodies (the driver refuses a case built from another list). -/
theorem C11_identity_keys : c11.identityKeys.map (·.1) =
    ["activated_by", "by_client_id", "client_id", "conn_id", "connection_id", "created_by", "listen_client_id",
     "new_node_id", "node_id", "peer_client_id", "platform_user_id", "revoked_by", "sender_client_id", "source_conn_id",
     "source_node_id", "target_client_id", "target_node_id", "user_id"] := by decide

/-! ## The code as found (before the `fix:` commits): witnesses of the negation -/

def wStd : World :=
  { conns := [⟨.auth, 1001, 0⟩, ⟨.auth, 1002, 0⟩, ⟨.auth, 1003, 0⟩, ⟨.unauth, 0, 0⟩, ⟨.bare, 0, 0⟩],
    maps := [⟨1001, 1002, true, true⟩, ⟨0, 1002, true, true⟩], codes := [], doms := [1001] }
def cmdOf (ct : Nat) (m g d : Int) : Cmd := ⟨ct, false, "0", "0", "-", false, m, g, 0, d, 0, 0, 0, none⟩

/-- traffic report for a mapping from a connection that never authenticated: the counters change -/
theorem C11_witness_traffic_unauth :
    holds wStd 3 (cmdOf 110 0 0 0) (exec .asFound wStd 3 (cmdOf 110 0 0 0)) (exec .asFound wStd 3 (cmdOf 110 0 0 0).strip) = false := by
  decide
/-- … and from an authenticated stranger -/
theorem C11_witness_traffic_stranger :
    holds wStd 2 (cmdOf 110 0 0 0) (exec .asFound wStd 2 (cmdOf 110 0 0 0)) (exec .asFound wStd 2 (cmdOf 110 0 0 0).strip) = false := by
  decide
/-- DNS resolve / raw query with an explicit target: forwarded for an unauthenticated connection -/
theorem C11_witness_dns_unauth :
    holds wStd 3 (cmdOf 120 0 1002 0) (exec .asFound wStd 3 (cmdOf 120 0 1002 0)) (exec .asFound wStd 3 (cmdOf 120 0 1002 0).strip) = false ∧
    holds wStd 4 (cmdOf 121 0 1002 0) (exec .asFound wStd 4 (cmdOf 121 0 1002 0)) (exec .asFound wStd 4 (cmdOf 121 0 1002 0).strip) = false := by
  decide
/-- client-to-client notification from an unauthenticated connection is delivered (without sender) -/
theorem C11_witness_notify_unauth :
    holds wStd 3 (cmdOf 102 0 1002 0) (exec .asFound wStd 3 (cmdOf 102 0 1002 0)) (exec .asFound wStd 3 (cmdOf 102 0 1002 0).strip) = false := by
  decide
/-- HTTP domain list / delete answered with success on an unauthenticated connection -/
theorem C11_witness_domain_unauth :
    holds wStd 3 (cmdOf 87 0 0 0) (exec .asFound wStd 3 (cmdOf 87 0 0 0)) (exec .asFound wStd 3 (cmdOf 87 0 0 0).strip) = false ∧
    holds wStd 3 (cmdOf 86 0 0 (-2)) (exec .asFound wStd 3 (cmdOf 86 0 0 (-2))) (exec .asFound wStd 3 (cmdOf 86 0 0 (-2)).strip) = false := by
  decide
/-- SOCKS5 tunnel request from an unauthenticated connection for a mapping the server itself listens on -/
theorem C11_witness_socks5_unauth :
    holds wStd 3 (cmdOf 90 1 0 0) (exec .asFound wStd 3 (cmdOf 90 1 0 0)) (exec .asFound wStd 3 (cmdOf 90 1 0 0).strip) = false := by
  decide

/-! ## Non-vacuity: the predicate accepts real work and rejects real violations -/

/-- the listen party opens a SOCKS5 tunnel: the target is reached, nothing else -/
example : exec .repaired wStd 0 (cmdOf 90 0 0 0) = ⟨true, .none, [], [], [⟨1, 35, none⟩], []⟩ := by decide
/-- the target party reports traffic for its mapping -/
example : (exec .repaired wStd 1 (cmdOf 110 0 0 0)).chg = [.mod (.map 0)] := by decide
/-- the owner lists its domain; the stranger sees none -/
example : (exec .repaired wStd 0 (cmdOf 87 0 0 0)).view = [.dom 0] ∧ (exec .repaired wStd 2 (cmdOf 87 0 0 0)).view = [] := by decide
/-- `guarded` is inhabited on both sides -/
example : guarded 76 false = true ∧ guarded 82 false = false ∧ guarded 120 true = false := by decide
/-- two nodes joined by a bridge: the listen party (node 0) asks for a tunnel of mapping 0 (target 1002, connected
to node 1 only) and claims `target_client_id = 2002` (a bystander on node 1): the mapping's target is reached, on
the other node; the bystander is not; and `holds` rejects an observation in which the bystander was reached -/
def wTwo : World :=
  { conns := [⟨.auth, 1001, 0⟩, ⟨.auth, 1002, 1⟩, ⟨.auth, 2002, 1⟩], maps := [⟨1001, 1002, true, true⟩],
    codes := [], doms := [], bridge := true }
example : exec .repaired wTwo 0 (cmdOf 90 0 2002 0) = ⟨true, .none, [], [], [⟨1, 35, none⟩], []⟩ := by decide
example : holds wTwo 0 (cmdOf 90 0 2002 0) ⟨true, .none, [], [], [⟨2, 35, none⟩], []⟩ ⟨true, .none, [], [], [⟨2, 35, none⟩], []⟩ = false := by
  decide
example : holds wTwo 0 (cmdOf 90 0 2002 0) ⟨true, .none, [], [], [⟨2, 35, none⟩], []⟩ ⟨true, .none, [], [], [⟨1, 35, none⟩], []⟩ = false := by
  decide
/-- history with a used code: 1002 generated code 0, 1001 activated it (mapping 0 = 1001 → 1002).  The stranger 1003 replays
the code: refused; and `holds` rejects the observation in which the stranger was shown mapping 0 -/
def wUsed : World :=
  { conns := [⟨.auth, 1001, 0⟩, ⟨.auth, 1002, 0⟩, ⟨.auth, 1003, 0⟩], maps := [⟨1001, 1002, false, true⟩],
    codes := [⟨1002, true, some 1001⟩], doms := [] }
example : exec .repaired wUsed 2 (cmdOf 72 0 0 0) = Run.failResp := by decide
example : holds wUsed 2 (cmdOf 72 0 0 0) (Run.okResp [.map 0] [] []) (Run.okResp [.map 0] [] []) = false := by decide
example : holds wUsed 0 (cmdOf 72 0 0 0) (Run.okResp [.map 0] [] []) (Run.okResp [.map 0] [] []) = true := by decide
/-- one connection authenticates as 1001, then as 1002 (commands in between): it is 1002; its HTTP-domain list shows
1002's domain, not 1001's, and deleting 1001's domain is refused; a second connection of 1001 that logged in
before is untouched, one of 1002 that logged in before lost its control connection -/
def wRe : World :=
  { conns := connsOf [(0, [.login 1001, .login 1002]), (0, [.login 1001])], maps := [], codes := [], doms := [1001, 1002] }
example : ident wRe 0 = 1002 ∧ ident wRe 1 = 1001 := by decide
example : (exec .repaired wRe 0 (cmdOf 87 0 0 0)).view = [.dom 1] := by decide
example : exec .repaired wRe 0 (cmdOf 86 0 0 0) = Run.failResp := by decide
example : connsOf [(0, [.login 1002]), (0, [.login 1001, .login 1002])] = [⟨.bare, 0, 0⟩, ⟨.auth, 1002, 0⟩] := by decide
example : holds wRe 0 (cmdOf 87 0 0 0) (Run.okResp [.dom 0] [] []) (Run.okResp [.dom 0] [] []) = false := by decide
/-- no executor installed: ConfigGet on the unauthenticated connection 3 pushes an (empty) configuration to
connection 3 itself and discloses nothing; the listen party gets its own mappings -/
example : exec .repaired { wStd with noExec := true } 3 (cmdOf 50 0 0 0) = ⟨true, .none, [], [], [⟨3, 51, none⟩], []⟩ := by decide
example : (exec .repaired { wStd with noExec := true } 0 (cmdOf 50 0 0 0)).view = [.map 0] := by decide
/-- read faults: the stranger's MappingDelete whose ownership read fails is refused and changes nothing; the
listen party's delete whose second read fails still only touches its own mapping; `holds` rejects the
observation "deleted for the stranger" -/
example : exec .repaired wStd 2 { cmdOf 76 0 0 0 with faults := 1 } = Run.failResp := by decide
example : exec .repaired wStd 0 { cmdOf 76 0 0 0 with faults := 2 } = Run.okResp [] [.mod (.map 0)] [] := by decide
example : exec .repaired wStd 0 { cmdOf 76 0 0 0 with faults := 4 } = Run.okResp [] [.del (.map 0)] [] := by decide
example : holds wStd 2 { cmdOf 76 0 0 0 with faults := 1 } (Run.okResp [] [.del (.map 0)] []) (Run.okResp [] [.del (.map 0)] []) = false := by
  decide
/-- the unauthenticated connection 3 names client 1001's live connection (`conn-0`) as sender of an HTTP-domain list /
delete / a notification: refused; and `holds` rejects the observation in which it was served as 1001 -/
example : exec .repaired wStd 3 { cmdOf 87 0 0 0 with snd := connName 0 } = Run.failResp := by decide
example : exec .repaired wStd 3 { cmdOf 86 0 0 0 with snd := connName 0 } = Run.failResp := by decide
example : holds wStd 3 { cmdOf 87 0 0 0 with snd := connName 0 } (Run.okResp [.dom 0] [] []) Run.failResp = false := by decide
example : holds wStd 3 { cmdOf 87 0 0 0 with snd := connName 0 } (Run.okResp [.dom 0] [] []) (Run.okResp [.dom 0] [] []) = false := by decide
/-- the stalled HTTPDomainCreate of 1001 (connection 0) resumes while a command of 1002 (connection 1) is in flight: the
domain is created for 1001; `holds` rejects the observation in which it was created for 1002 or answered to connection 1 -/
example : exec .repaired wStd 0 { cmdOf 85 0 0 (-1) with late := some 1 } = Run.okResp [] [.newDom 1001] [] := by decide
example : holds wStd 0 { cmdOf 85 0 0 (-1) with late := some 1 } ⟨true, .none, [], [.newDom 1002], [], []⟩
    ⟨true, .none, [], [.newDom 1002], [], []⟩ = false := by decide
example : holds wStd 0 { cmdOf 85 0 0 (-1) with late := some 1 } ⟨true, .none, [], [.newDom 1001], [⟨1, 0, none⟩], []⟩
    ⟨true, .none, [], [.newDom 1001], [⟨1, 0, none⟩], []⟩ = false := by decide
/-- ConfigGet of 1001 (connection 0) while ConfigGet commands of 1003 (connection 2) run concurrently: 1001 sees its own
mapping; `holds` rejects an answer showing it a mapping of which only 1003 is a party -/
def wConc : World :=
  { conns := [⟨.auth, 1001, 0⟩, ⟨.auth, 1002, 0⟩, ⟨.auth, 1003, 0⟩], maps := [⟨1001, 1002, true, true⟩, ⟨1003, 1003, false, false⟩],
    codes := [], doms := [] }
example : (exec .repaired wConc 0 { cmdOf 50 0 0 0 with late := some 2 }).view = [.map 0] := by decide
example : holds wConc 0 { cmdOf 50 0 0 0 with late := some 2 } (Run.okResp [.map 0, .map 1] [] []) (Run.okResp [.map 0, .map 1] [] []) = false := by
  decide
/-- cross-node DNS query (`handleDNSQueryCrossNode`): the authenticated sender on node 0 reaches the target on node 1
through the state store / pool / listener, the pushed request names no sender; an unauthenticated sender reaches
nobody; and `holds` rejects an observation in which the recipient was told a (claimed) sender -/
example : exec .repaired { wTwo with xnode := true, bridge := false } 0 (cmdOf 121 0 1002 0) = ⟨true, .ok, [], [], [⟨1, 121, none⟩], []⟩ := by
  decide
example : exec .repaired { wTwo with xnode := true, conns := wTwo.conns ++ [⟨.unauth, 0, 0⟩] } 3 (cmdOf 121 0 1002 0) =
    ⟨true, .fail, [], [], [], []⟩ := by decide
example : holds { wTwo with xnode := true } 0 (cmdOf 121 0 1002 0) ⟨true, .ok, [], [], [⟨1, 121, some 2002⟩], []⟩
    ⟨true, .ok, [], [], [⟨1, 121, some 2002⟩], []⟩ = false := by decide
/-- `holds` rejects: a disclosure to a stranger; a packet whose claimed sender changed the outcome -/
example : holds wStd 2 (cmdOf 75 0 0 0) ⟨true, .ok, [.map 0], [], [], []⟩ ⟨true, .ok, [.map 0], [], [], []⟩ = false := by decide
example : holds wStd 2 (cmdOf 75 0 0 0) ⟨true, .ok, [], [], [], []⟩ Run.failResp = false := by decide

end Tunnox.C11
