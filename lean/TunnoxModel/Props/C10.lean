import TunnoxModel.Spec.C10
import TunnoxModel.Proofs.C10
import TunnoxModel.Proofs.C10Stream
import TunnoxModel.Driver.Util
/-!
# C10 — cross-node frames carry tunnel bytes faithfully and reject bad input

Property theorems only (helper lemmas: `Proofs/C10.lean`, `Proofs/C10Stream.lean`; source ties:
`Props/C10Ties.lean`).  Everything is stated about the executable model the driver runs
(`readFrame`, `readAll`, `writeAll`, `runStream`) and uses the `holds…` predicates of `Spec/C10.lean`,
the same ones the runner applies to the implementation's observations.
-/
namespace Tunnox.C10
open Gen

/-! ### Side conditions on the regenerated constants -/

/-- Header layout the model assumes: 16-byte id, type byte, 4-byte length. -/
theorem C10_header_layout : crossnode.FrameHeaderSize = idLen + 1 + 4 ∧ idLen = 16 := by decide

/-- The length field can carry the limit, and a data frame can carry at least one byte
(the segmentation loop of `Write` makes progress). -/
theorem C10_limit_fits : 0 < crossnode.MaxFrameSize ∧ crossnode.MaxFrameSize < 2 ^ 32 := by decide

/-- The three frame types the stream reader interprets are distinct type bytes. -/
theorem C10_stream_types_distinct :
    crossnode.FrameTypeData ≠ crossnode.FrameTypeEOF ∧ crossnode.FrameTypeData ≠ crossnode.FrameTypeClose ∧
    crossnode.FrameTypeEOF ≠ crossnode.FrameTypeClose ∧
    crossnode.FrameTypeData < 256 ∧ crossnode.FrameTypeEOF < 256 ∧ crossnode.FrameTypeClose < 256 := by decide

/-! ### Codec -/

/-- **Every encoded frame decodes to itself**, whatever follows it and however the transport cuts the
bytes: `WriteFrame` accepts a well-formed frame, and `ReadFrameFromReader` on a source whose content is
that encoding followed by `rest` returns exactly the frame and leaves exactly `rest`. -/
theorem C10_encode_decode (f : Frame) (hwf : f.WF) (s : Src) (rest : Bytes) (hs : s.flat = encode f ++ rest) :
    writeFrame f = some (encode f) ∧
    (readFrame s).out = .frame f ∧ (readFrame s).rest.flat = rest ∧
    (readFrame s).alloc = crossnode.FrameHeaderSize + f.data.length := by
  obtain ⟨h1, h2, h3, -⟩ := readFrame_flat s
  rw [hs, parse_encode f hwf rest] at h1 h2 h3
  exact ⟨writeFrame_ok f hwf.2.2, h1, h2, h3⟩

/-- **Every decoded frame encodes to the bytes consumed** (the converse): if the decoder returns a
frame, the input was exactly that frame's encoding followed by what is left; the frame is well formed
(payload within the limit) and the call allocated one header plus the payload. -/
theorem C10_decode_encode (s : Src) (f : Frame) (h : (readFrame s).out = .frame f) :
    s.flat = encode f ++ (readFrame s).rest.flat ∧ f.WF ∧
    (readFrame s).alloc = crossnode.FrameHeaderSize + f.data.length := by
  obtain ⟨h1, h2, h3, -⟩ := readFrame_flat s
  rw [h] at h1
  have hfull : parseFrame s.flat s.tail = (.frame f, (parseFrame s.flat s.tail).2.1, (parseFrame s.flat s.tail).2.2) := by
    rw [h1]
  obtain ⟨e1, e2, e3⟩ := parse_frame_inv _ _ _ _ _ hfull
  rw [h2, h3]
  exact ⟨e1, e2, e3⟩

/-- **Length check before allocation**: a declared length above the limit is refused having allocated
the header only; in every case one call allocates at most header + limit. -/
theorem C10_alloc_bound (s : Src) :
    (readFrame s).alloc ≤ crossnode.FrameHeaderSize + crossnode.MaxFrameSize ∧
    ((readFrame s).out = .fail .tooLarge → (readFrame s).alloc = crossnode.FrameHeaderSize) := by
  obtain ⟨h1, -, h3, -⟩ := readFrame_flat s
  rw [h1, h3]
  constructor
  · cases hp : (parseFrame s.flat s.tail).1 with
    | fail e => exact (parse_fail_stop _ _ e hp).2
    | frame f =>
      have hfull : parseFrame s.flat s.tail = (.frame f, (parseFrame s.flat s.tail).2.1, (parseFrame s.flat s.tail).2.2) := by
        rw [← hp]
      obtain ⟨-, e2, e3⟩ := parse_frame_inv _ _ _ _ _ hfull
      rw [e3]; exact Nat.add_le_add_left e2.2.2 _
  · intro h
    unfold parseFrame at h ⊢
    by_cases c1 : s.flat.length < crossnode.FrameHeaderSize
    · simp only [c1, if_true]
    · simp only [c1, if_false] at h ⊢
      by_cases c2 : unbe32 ((s.flat.take crossnode.FrameHeaderSize).drop (idLen + 1)) > crossnode.MaxFrameSize
      · simp only [c2, if_true]
      · simp only [c2, if_false] at h
        by_cases c3 : (s.flat.drop crossnode.FrameHeaderSize).length <
            unbe32 ((s.flat.take crossnode.FrameHeaderSize).drop (idLen + 1))
        · simp only [c3, if_true] at h
          simp at h
        · simp only [c3, if_false] at h
          simp at h

/-- **Chunk independence** for every byte stream, valid or not: frames returned, failure, bytes
left and allocation depend only on the concatenation of the chunks and on how the stream ends. -/
theorem C10_chunk_indep (k : Nat) (s₁ s₂ : Src) (hflat : s₁.flat = s₂.flat) (htail : s₁.tail = s₂.tail) :
    readAll k s₁ = readAll k s₂ := by
  rw [readAll_flat, readAll_flat, hflat, htail]

/-- **Decoder safety (main)**: any byte sequence, cut into read chunks in any way and ended by EOF or
a transport error, fed to the decoder until it fails: every call yields a frame or an error (the model
is total), every frame returned is well formed, the frames' encodings are exactly the consumed prefix of
the input, the failure is the one the remaining bytes call for (end of stream, truncated header, length
above the limit — rejected before allocation —, truncated payload), and no call allocates more than
header + limit. -/
theorem C10_decoder_main (chunks : List Bytes) (tail : Tail) (k : Nat) (hk : chunks.flatten.length < k) :
    holdsDec chunks.flatten tail (readAll k ⟨chunks, tail⟩) = true := by
  rw [readAll_flat]
  exact parseAll_holds k _ tail hk

/-- **Round trip of frame sequences**: any sequence of frames (16-byte ids, any type byte, any payload
size) handed to `WriteFrame`: those within the limit are accepted, larger ones refused without writing
anything; the bytes written, cut in any way, decode to exactly the accepted frames in order, followed by
the end of the stream with nothing left. -/
theorem C10_roundtrip_main (fs : List Frame) (hfs : ∀ f ∈ fs, f.id.length = idLen ∧ f.ty < 256)
    (chunks : List Bytes) (tail : Tail) (hflat : chunks.flatten = (writeAll fs).2) (k : Nat) (hk : fs.length < k) :
    holdsRt fs tail (writeAll fs).1 (readAll k ⟨chunks, tail⟩) = true := by
  obtain ⟨w1, w2⟩ := writeAll_spec fs
  rw [readAll_flat]
  simp only [Src.flat, hflat, w2]
  have hwf : ∀ f ∈ fs.filter (fun f => decide (f.data.length ≤ crossnode.MaxFrameSize)), f.WF := by
    intro f hf
    obtain ⟨hm, hd⟩ := List.mem_filter.mp hf
    exact ⟨(hfs f hm).1, (hfs f hm).2, by simpa using hd⟩
  have hlen : (fs.filter (fun f => decide (f.data.length ≤ crossnode.MaxFrameSize))).length < k :=
    Nat.lt_of_le_of_lt (List.length_filter_le _ _) hk
  obtain ⟨p1, p2, p3, p4⟩ := parseAll_encodeAll _ hwf tail k hlen
  simp only [holdsRt, w1, p1, p2, p3, beq_self_eq_true, Bool.true_and, Bool.and_true, decide_eq_true_eq]
  exact Nat.le_trans p4 (Nat.le_add_right _ _)

theorem decodeTargetReady_none (l : Bytes) (h : l.contains bar = false) : decodeTargetReady l = none := by
  induction l with
  | nil => rfl
  | cons b t ih =>
    simp only [List.contains_cons, Bool.or_eq_false_iff] at h
    have hb : (b == bar) = false := by
      cases hbb : (b == bar) with
      | false => rfl
      | true =>
        have e : b = bar := by simpa using hbb
        subst e
        simp at h
    simp [decodeTargetReady, ih h.2, hb]

/-- **TargetReady payload round trip**: the listener finds the bridge by the FULL tunnel id carried in the
payload (this is what keeps the 16-byte truncation of the frame header off the production path): for
EVERY tunnel id — client-chosen, '|' included — and every node id without '|', decoding the encoded
message returns both unchanged. -/
theorem C10_target_ready_roundtrip (tid node : Bytes) (h : node.contains bar = false) :
    decodeTargetReady (encodeTargetReady tid node) = some (tid, node) := by
  induction tid with
  | nil => simp [encodeTargetReady, decodeTargetReady, decodeTargetReady_none node h, bar]
  | cons b t ih =>
    simp only [encodeTargetReady, List.cons_append] at ih ⊢
    simp [decodeTargetReady, ih]

/-- …and the hypothesis is needed: a node id containing '|' is cut at its last '|'. -/
theorem C10_target_ready_witness :
    decodeTargetReady (encodeTargetReady [0x61] [0x6e, bar, 0x31]) = some ([0x61, bar, 0x6e], [0x31]) := by
  decide

/-- **The listener consumes exactly the first frame**: a connection whose inbound bytes are a TargetReady
frame (any header id, full tunnel id `tid` in the message, node id without '|') followed by ANY raw
bytes `pay`, cut into chunks in ANY way — frame and payload in one segment, header split over several —:
if the bridge is the one for `tid` (or for the header id when the message carries no id), exactly `pay`
is forwarded to the source side, from its first byte. -/
theorem C10_listener_exact (tid node hid pay bridge : Bytes) (hn : node.contains bar = false)
    (hlen : (encodeTargetReady tid node).length ≤ crossnode.MaxFrameSize)
    (hb : (if tid.isEmpty then tunnelIDToString (tunnelIDFromString hid) else tid) = bridge)
    (s : Src)
    (hs : s.flat = encode ⟨tunnelIDFromString hid, crossnode.FrameTypeTargetReady, encodeTargetReady tid node⟩ ++ pay) :
    runListener bridge s = some pay := by
  have hwf : (⟨tunnelIDFromString hid, crossnode.FrameTypeTargetReady, encodeTargetReady tid node⟩ : Frame).WF :=
    ⟨tunnelIDFromString_length hid, (by decide : crossnode.FrameTypeTargetReady < 256), hlen⟩
  obtain ⟨-, h1, h2, -⟩ := C10_encode_decode _ hwf s pay hs
  unfold runListener
  simp only [h1, h2, beq_self_eq_true, if_true, C10_target_ready_roundtrip tid node hn, hb]

/-! ### Streams -/

/-- **Write segmentation**: `FrameStream.Write(p)` on an open stream, for every `p` (empty, one frame,
several frames, sizes k·64 KiB ± 1): accepts all of `p`, and what it puts on the connection is the
encoding of data frames of this tunnel, each within the frame limit, whose payloads concatenate to `p`,
at most ⌊|p| / 64 KiB⌋ + 1 of them. -/
theorem C10_write_segmentation (st : FS) (hid : st.tunnelID.length = idLen) (hopen : st.writeEOF = false) (p : Bytes) :
    ∃ fs : List Frame, st.write p = (.ok p.length, { st with out := st.out ++ encodeAll fs }) ∧
      (∀ f ∈ fs, f.id = st.tunnelID ∧ f.ty = crossnode.FrameTypeData ∧ f.WF) ∧
      (fs.map (·.data)).flatten = p ∧ fs.length ≤ p.length / crossnode.MaxFrameSize + 1 :=
  write_open st hid p hopen

/-- **Reader (all interleavings of all frames)**: the connection carries ANY sequence `fs` of
well-formed frames — this tunnel's data / EOF / close frames interleaved with frames of other ids and
of unknown types, empty data frames included — cut into chunks in any way and ended by EOF or an error.
For ANY sequence of read-buffer sizes `ps` (zero and one byte included) the results of the `Read` calls
pass the call-by-call check against `deliver id fs`: each returns a prefix of the bytes still owed (in
order, unchanged), at least one byte when the buffer is non-empty, never a byte of another id or type;
end-of-stream comes only when nothing is owed and a close/half-close frame or the end of the connection
justifies it, and then for ever; an error only when nothing is owed and no end-of-stream is due.  When
an end-of-stream is due the connection is not marked broken.
This holds for EVERY tracker `trk`: a stream built without one (`NewFrameStream`) or with one
(`NewFrameStreamWithTracker`) that answers anything whatsoever — closed, active, unknown — about any
foreign tunnel: whatever the tracker says, a foreign frame contributes no data and no end-of-stream. -/
theorem C10_reader_main (trk : Tracker) (id : Bytes) (fs : List Frame) (hwf : ∀ f ∈ fs, f.WF)
    (chunks : List Bytes) (tail : Tail) (hflat : chunks.flatten = encodeAll fs)
    (rw : Bool) (ps : List Nat) (fuel : Nat) (hfuel : fs.length < fuel) :
    let r0 : FS := { FS.init id ⟨chunks, tail⟩ with writeEOF := rw }
    let eofOk := (deliver id fs).2 || tail == .eof
    checkReads eofOk (!eofOk) (deliver id fs).1 ps (readLoop trk fuel r0 ps).1 = true ∧
    (eofOk = true → (readLoop trk fuel r0 ps).2.broken = false) := by
  intro r0 eofOk
  have hinv : Inv r0 fs tail := ⟨⟨[], by simp only [List.append_nil]; exact hflat, junk_nil tail⟩, rfl, hwf, rfl⟩
  have h := readLoop_checks trk tail fuel ps r0 fs hinv hfuel eofOk rfl
  have hp : pend r0 fs = (deliver id fs).1 := by simp [pend, r0, FS.init]
  rw [hp] at h
  exact h

/-- **Stream, end to end (main)**: for every tunnel id string `me`, every sequence of sender events
— `Write`s of any sizes, `CloseWrite`, `Close`, and frames written by anyone else on the same
connection in any interleaving (`evWF`: such a frame has an id string equal to ours or a 16-byte frame
id different from ours) —, every chunking `cut` of the wire, either ending of the connection, and every
sequence of read-buffer sizes: every `Write` before the close is accepted in full and every later one
refused; the bytes the peer's `Read` calls return are exactly the bytes written for this tunnel before
its first close/half-close, unchanged, in order, complete before the end-of-stream, which then persists;
frames of other tunnels and of unknown types are never delivered, whatever the receiver's tracker
`trk` (none, or any answers at all) says about them; neither end marks the connection broken. -/
theorem C10_stream_main (trk : Tracker) (me : Bytes) (evs : List Ev) (hwf : ∀ e ∈ evs, evWF me e = true)
    (cut : Bytes → List Bytes) (hcut : ∀ b, (cut b).flatten = b) (tail : Tail) (rw : Bool) (ps : List Nat) :
    holdsStream me evs tail ps (runStream trk me evs cut tail rw ps) = true := by
  obtain ⟨fs, h1, h2, h3, h4, h5, -⟩ :=
    runWriter_open me (FS.init (tunnelIDFromString me) ⟨[], .eof⟩) evs rfl rfl hwf
  simp only [FS.init, List.nil_append] at h1 h2
  have hfuel : fs.length < (runWriter (FS.init (tunnelIDFromString me) ⟨[], .eof⟩) evs).2.out.length + 1 := by
    simp only [FS.init]
    rw [h1]
    exact Nat.lt_succ_of_le (encodeAll_length_ge fs)
  have hr := C10_reader_main trk (tunnelIDFromString me) fs h3
    (cut (runWriter (FS.init (tunnelIDFromString me) ⟨[], .eof⟩) evs).2.out) tail
    (by rw [hcut]; simp only [FS.init]; exact h1) rw ps _ hfuel
  simp only at hr
  rw [h5] at hr
  obtain ⟨r1, r2⟩ := hr
  unfold holdsStream runStream
  simp only [FS.init] at r1 r2 h4 ⊢
  simp only [h4, r1, h2, beq_self_eq_true, Bool.true_and, Bool.and_true, Bool.not_false]
  cases he : ((expected me evs).2 || tail == Tail.eof) with
  | false => simp
  | true => simp [r2 he]

/-- **What `holdsStream` means for the delivered bytes** (any observation, model or implementation):
the concatenation of everything the `Read` calls returned is a prefix of the bytes written for this
tunnel before its first close — unchanged and in order —, and once a `Read` has returned end-of-stream
(or an error) it is ALL of them — complete. -/
theorem C10_holds_meaning (me : Bytes) (evs : List Ev) (tail : Tail) (ps : List Nat) (o : StObs)
    (h : holdsStream me evs tail ps o = true) :
    o.writes = expectedWrites true evs ∧
    delivered o.reads <+: (expected me evs).1 ∧
    ((RRes.eof ∈ o.reads ∨ ∃ e, RRes.err e ∈ o.reads) → delivered o.reads = (expected me evs).1) := by
  simp only [holdsStream, Bool.and_eq_true, beq_iff_eq] at h
  obtain ⟨⟨⟨h1, h2⟩, -⟩, -⟩ := h
  exact ⟨h1, checkReads_prefix _ _ _ _ _ h2⟩

/-- **Connection lost at an arbitrary offset**: the wire is cut after ANY number `k` of bytes — between
frames, inside a header, inside a payload — and then ends or fails.  Whatever was fully received is
delivered and nothing else: the receiver's reads return a prefix of the bytes written for the tunnel
(never a byte of a half-received or foreign frame), in well-shaped results; the sender's `Write`s are
answered as on an intact connection.  (Completeness is not promised here — and the code as it stands
reports a connection that ENDS inside a frame as a clean end-of-stream, see `closedErr`.) -/
theorem C10_stream_cut (trk : Tracker) (me : Bytes) (evs : List Ev) (hwf : ∀ e ∈ evs, evWF me e = true)
    (cut : Bytes → List Bytes) (hcut : ∀ b, (cut b).flatten = b) (tail : Tail) (rw : Bool) (ps : List Nat) (k : Nat) :
    holdsCut me evs ps (runStreamCut trk me evs cut tail rw ps k) = true := by
  obtain ⟨fs, h1, h2, h3, h4, h5, -⟩ :=
    runWriter_open me (FS.init (tunnelIDFromString me) ⟨[], .eof⟩) evs rfl rfl hwf
  generalize hW : runWriter (FS.init (tunnelIDFromString me) ⟨[], .eof⟩) evs = W at h1 h2 h4
  simp only [FS.init, List.nil_append] at h1 h2 hW
  obtain ⟨fs', junk, c1, c2, c3⟩ := take_encodeAll fs h3 k tail
  obtain ⟨t, ht⟩ := c3
  have hwf' : ∀ f ∈ fs', f.WF := fun f hf => h3 f (by rw [← ht]; exact List.mem_append_left _ hf)
  rw [← h1] at c1
  have hinv : Inv ({ FS.init (tunnelIDFromString me) ⟨cut (W.2.out.take k), tail⟩ with writeEOF := rw }) fs' tail :=
    ⟨⟨junk, by simp only [Src.flat, hcut, FS.init]; exact c1, c2⟩, rfl, hwf', rfl⟩
  have hfuel : fs'.length < (W.2.out.take k).length + 1 := by
    rw [c1, List.length_append]
    have := encodeAll_length_ge fs'
    omega
  have hr := readLoop_checks trk tail _ ps _ fs' hinv hfuel _ rfl
  obtain ⟨r1, -⟩ := hr
  have hp : pend ({ FS.init (tunnelIDFromString me) ⟨cut (W.2.out.take k), tail⟩ with writeEOF := rw }) fs' =
      (deliver (tunnelIDFromString me) fs').1 := by simp [pend, FS.init]
  rw [hp] at r1
  have hshape := checkReads_shape _ _ _ _ _ r1
  have hpre := (checkReads_prefix _ _ _ _ _ r1).1
  have hdp : (deliver (tunnelIDFromString me) fs').1 <+: (expected me evs).1 := by
    rw [← h5, ← ht]; exact deliver_prefix _ _ _
  unfold holdsCut runStreamCut
  simp only [FS.init, hW, h4, h2, beq_self_eq_true, Bool.true_and, Bool.and_true, Bool.not_false,
    Bool.and_eq_true] at hshape hpre ⊢
  exact ⟨List.isPrefixOf_iff_prefix.mpr (hpre.trans hdp), hshape⟩

/-- **Both directions of one connection (main)**: the forward phase is `C10_stream_main`; then the
receiving stream B writes (any events `rvEvs`, well-formed for the tunnel) on the very stream object it has
read from, and the sending stream A reads on the one it has written to.  For every tracker, chunking,
ending of the forward direction, read sizes of both phases and whether B had half-closed before reading:
B's writes are accepted iff it had not half-closed, A is given exactly B's bytes up to B's first
close/half-close (nothing but end-of-stream if B had half-closed first), then end-of-stream for ever;
reading leaves a stream's write half untouched and writing its read half. -/
theorem C10_duplex_main (trk : Tracker) (me : Bytes) (evs rvEvs : List Ev)
    (hwf : ∀ e ∈ evs, evWF me e = true) (hwr : ∀ e ∈ rvEvs, evWF me e = true)
    (cut : Bytes → List Bytes) (hcut : ∀ b, (cut b).flatten = b) (tail : Tail) (rw : Bool) (ps rps : List Nat) :
    holdsDuplex me evs tail rw ps rvEvs rps (runDuplex trk me evs cut tail rw ps rvEvs rps) = true := by
  -- A writes
  obtain ⟨fsA, a1, a2, a3, a4, a5, -⟩ :=
    runWriter_open me (FS.init (tunnelIDFromString me) ⟨[], .eof⟩) evs rfl rfl hwf
  have aF := runWriter_fields (FS.init (tunnelIDFromString me) ⟨[], .eof⟩) evs
  generalize hA : runWriter (FS.init (tunnelIDFromString me) ⟨[], .eof⟩) evs = A at a1 a2 a4 aF
  simp only [FS.init, List.nil_append] at a1 a2 aF hA
  -- B before reading
  generalize hb1 : (if rw = true then (FS.init (tunnelIDFromString me) ⟨cut A.2.out, tail⟩).closeWrite
      else FS.init (tunnelIDFromString me) ⟨cut A.2.out, tail⟩) = b1
  have hb1f : b1.tunnelID = tunnelIDFromString me ∧ b1.conn = ⟨cut A.2.out, tail⟩ ∧ b1.readEOF = false ∧
      b1.readBuf = [] ∧ b1.readOff = 0 ∧ b1.broken = false ∧ b1.writeEOF = rw ∧
      b1.out = (if rw then encode ⟨tunnelIDFromString me, crossnode.FrameTypeEOF, []⟩ else []) := by
    subst hb1
    cases rw
    · simp [FS.init]
    · simp [FS.init, FS.closeWrite, closeWith_open]
  obtain ⟨b_id, b_conn, b_re, b_buf, b_off, b_br, b_we, b_out⟩ := hb1f
  have hinvB : Inv b1 fsA tail :=
    ⟨⟨[], by rw [b_conn]; simp only [Src.flat, hcut, List.append_nil]; exact a1, junk_nil tail⟩, by rw [b_conn], a3, b_re⟩
  have hfuelB : fsA.length < A.2.out.length + 1 := by
    rw [a1]; exact Nat.lt_succ_of_le (encodeAll_length_ge fsA)
  have hB := readLoop_checks trk tail (A.2.out.length + 1) ps b1 fsA hinvB hfuelB
    ((expected me evs).2 || tail == .eof) (by rw [b_id, a5])
  have hpB : pend b1 fsA = (expected me evs).1 := by simp [pend, b_buf, b_off, b_id, a5]
  rw [hpB, b_br] at hB
  have bF := readLoop_fields trk (A.2.out.length + 1) b1 ps
  generalize hBR : readLoop trk (A.2.out.length + 1) b1 ps = BR at *
  obtain ⟨f_id, f_we, f_out⟩ := bF
  rw [b_id] at f_id
  rw [b_we] at f_we
  rw [b_out] at f_out
  -- B writes: the frames on the way back, what A must be given, B's answers
  have hBW : ∃ fs', (runWriter BR.2 rvEvs).2.out = encodeAll fs' ∧ (∀ f ∈ fs', f.WF) ∧
      (runWriter BR.2 rvEvs).2.broken = BR.2.broken ∧
      (runWriter BR.2 rvEvs).1 = expectedWrites (!rw) rvEvs ∧
      deliver (tunnelIDFromString me) fs' = (if rw then ([], true) else expected me rvEvs) := by
    cases rw
    · obtain ⟨fs, w1, w2, w3, w4, w5, -⟩ := runWriter_open me BR.2 rvEvs f_we f_id hwr
      refine ⟨fs, ?_, w3, w2, w4, w5⟩
      rw [w1, f_out]; simp
    · obtain ⟨fs, w1, w2, w3, -⟩ := runWriter_closed me BR.2 rvEvs f_we hwr
      refine ⟨⟨tunnelIDFromString me, crossnode.FrameTypeEOF, []⟩ :: fs, ?_, ?_, ?_, w3, ?_⟩
      · rw [w1]; simp only [f_out, if_true, encodeAll_cons]
      · intro f hf
        rcases List.mem_cons.mp hf with hf | hf
        · subst hf; exact ⟨tunnelIDFromString_length me, eof_lt, Nat.zero_le _⟩
        · exact w2 f hf
      · rw [w1]
      · simp [deliver, isTerminator, Ne.symm data_ne_eof]
  obtain ⟨fsB, w1, w2, w3, w4, w5⟩ := hBW
  generalize hBW' : runWriter BR.2 rvEvs = BW at *
  -- A reads
  obtain ⟨g_id, -, g_re, g_buf, g_off⟩ := aF
  have hinvA : Inv ({ A.2 with conn := ⟨cut BW.2.out, .eof⟩ }) fsB .eof :=
    ⟨⟨[], by simp only [Src.flat, hcut, List.append_nil]; exact w1, junk_nil .eof⟩, rfl, w2, g_re⟩
  have hfuelA : fsB.length < BW.2.out.length + 1 := by
    rw [w1]; exact Nat.lt_succ_of_le (encodeAll_length_ge fsB)
  have hAr := readLoop_checks none .eof (BW.2.out.length + 1) rps _ fsB hinvA hfuelA true (by simp)
  have hpA : pend ({ A.2 with conn := ⟨cut BW.2.out, .eof⟩ }) fsB = (if rw then [] else (expected me rvEvs).1) := by
    simp only [pend, g_buf, g_off, g_id, w5, List.drop_nil, List.nil_append]
    cases rw <;> rfl
  rw [hpA] at hAr
  obtain ⟨r1, r2⟩ := hAr
  have r2' := r2 rfl
  dsimp only at r1 r2'
  rw [a2] at r2'
  simp only [Bool.not_true, a2] at r1
  obtain ⟨q1, q2⟩ := hB
  -- assemble
  simp only [FS.init] at hb1
  unfold holdsDuplex runDuplex
  simp only [FS.init, hA, hb1, hBR, hBW', holdsStream, a4, q1, a2, w4, r1, r2', w3, beq_self_eq_true,
    Bool.true_and, Bool.and_true, Bool.not_false]
  cases he : ((expected me evs).2 || tail == Tail.eof) with
  | false => simp
  | true => simp [q2 he]

/-- **Stream on a pooled connection**: whatever frames `residual` the previous tunnel left on the idle
connection (any frames at all, ours-looking ones included), whatever the tracker says: `Get` hands out
the idle connection only if nothing is pending on it, and the scenario of OUR tunnel that then runs on
the connection handed out satisfies the stream property — no residual byte is delivered, none is
missing, the end-of-stream is intact. -/
theorem C10_pool_reuse (trk : Tracker) (me : Bytes) (residual evs : List Ev)
    (hwf : ∀ e ∈ evs, evWF me e = true)
    (cut : Bytes → List Bytes) (hcut : ∀ b, (cut b).flatten = b) (tail : Tail) (rw : Bool) (ps : List Nat) :
    holdsStream me evs tail ps (runPool trk me residual evs cut tail rw ps).st = true ∧
    ((runPool trk me residual evs cut tail rw ps).reused = true ↔
      (runWriter (FS.init (tunnelIDFromString me) ⟨[], .eof⟩) residual).2.out = []) := by
  refine ⟨C10_stream_main trk me evs hwf cut hcut tail rw ps, ?_⟩
  simp [runPool, isHealthy]

theorem expected_writes_closeWrite (me : Bytes) (ups : List Bytes) :
    expected me (ups.map Ev.write ++ [.closeWrite]) = (ups.flatten, true) := by
  induction ups with
  | nil => rfl
  | cons u us ih => simp [expected, ih]

/-- **Termination with frame-sized buffers**: when an end-of-stream is due (a close/half-close was sent
or the connection ends), every read buffer holds a whole frame and there are more reads than
`frameBound evs` (an upper bound of the frames on the wire), a `Read` returns end-of-stream — and then,
by `C10_holds_meaning`, everything has been delivered. -/
theorem C10_stream_terminates (trk : Tracker) (me : Bytes) (evs : List Ev) (hwf : ∀ e ∈ evs, evWF me e = true)
    (cut : Bytes → List Bytes) (hcut : ∀ b, (cut b).flatten = b) (tail : Tail) (rw : Bool) (ps : List Nat)
    (hdue : ((expected me evs).2 || tail == .eof) = true)
    (hps : ∀ p ∈ ps, crossnode.MaxFrameSize ≤ p) (hlen : frameBound evs < ps.length) :
    RRes.eof ∈ (runStream trk me evs cut tail rw ps).reads ∧
    delivered (runStream trk me evs cut tail rw ps).reads = (expected me evs).1 := by
  obtain ⟨fs, h1, -, h3, -, h5, h6⟩ :=
    runWriter_open me (FS.init (tunnelIDFromString me) ⟨[], .eof⟩) evs rfl rfl hwf
  simp only [FS.init, List.nil_append] at h1
  have hfuel : fs.length < (runWriter (FS.init (tunnelIDFromString me) ⟨[], .eof⟩) evs).2.out.length + 1 := by
    simp only [FS.init]
    rw [h1]
    exact Nat.lt_succ_of_le (encodeAll_length_ge fs)
  have hinv : Inv ({ FS.init (tunnelIDFromString me)
      ⟨cut (runWriter (FS.init (tunnelIDFromString me) ⟨[], .eof⟩) evs).2.out, tail⟩ with writeEOF := rw }) fs tail :=
    ⟨⟨[], by simp only [Src.flat, hcut, FS.init, List.append_nil]; exact h1, junk_nil tail⟩, rfl, h3, rfl⟩
  have heof := readLoop_big trk tail _ ps _ fs hinv hfuel (by simp only [FS.init]; rw [h5]; exact hdue)
    ⟨rfl, rfl⟩ hps (Nat.lt_of_le_of_lt h6 hlen)
  have hmain := C10_stream_main trk me evs hwf cut hcut tail rw ps
  have hm := C10_holds_meaning me evs tail ps _ hmain
  have hmem : RRes.eof ∈ (runStream trk me evs cut tail rw ps).reads := by
    simpa [runStream, FS.init] using heof
  exact ⟨hmem, hm.2.2 (Or.inl hmem)⟩

/-- **Forwarding (main)**: in the model of `runBidirectionalForward` over a stream, for every tunnel id,
every way `ups` the upload is handed to `Write` and every answer `down`: the peer receives exactly the
application's bytes followed by end-of-stream after the half-close, and the application receives
exactly the answer followed by end-of-stream after the close.  (The goroutine structure of the
forwarder itself — two `io.Copy`, `closeAll` — is observed by the harness `fw` cases, not modelled.) -/
theorem C10_forward_main (me : Bytes) (ups : List Bytes) (down : Bytes) (ct cl : Bool) :
    holdsFw ups.flatten down ct cl (runForward me ups down ct cl) = true := by
  have hwu : ∀ e ∈ ups.map Ev.write ++ [.closeWrite], evWF me e = true := by
    intro e he
    rcases List.mem_append.mp he with he | he
    · obtain ⟨u, -, rfl⟩ := List.mem_map.mp he; rfl
    · simp only [List.mem_singleton] at he; subst he; rfl
  have hwd : ∀ e ∈ [Ev.write down, .close], evWF me e = true := by
    intro e he
    simp only [List.mem_cons, List.not_mem_nil, or_false] at he
    rcases he with rfl | rfl <;> rfl
  have hu := C10_stream_terminates none me (ups.map Ev.write ++ [.closeWrite]) hwu (fun b => [b]) (by simp) .eof false
    (List.replicate (frameBound (ups.map Ev.write ++ [.closeWrite]) + 1) crossnode.MaxFrameSize)
    (by simp) (by intro p hp; rw [(List.mem_replicate.mp hp).2]; exact Nat.le_refl _) (by simp)
  have hd := C10_stream_terminates none me [.write down, .close] hwd (fun b => [b]) (by simp) .eof false
    (List.replicate (frameBound [Ev.write down, .close] + 1) crossnode.MaxFrameSize)
    (by simp) (by intro p hp; rw [(List.mem_replicate.mp hp).2]; exact Nat.le_refl _) (by simp)
  rw [expected_writes_closeWrite] at hu
  have hde : (expected me [.write down, .close]).1 = down := by simp [expected]
  rw [hde] at hd
  simp only [holdsFw, runForward, hu.2, hd.2, beq_self_eq_true, Bool.true_and, Bool.and_true, Bool.and_eq_true,
    List.contains_iff_mem]
  exact ⟨hu.1, hd.1⟩

theorem copyWrites_flatten (rs : List LRead) : (copyWrites rs).flatten = readData rs := by
  induction rs with
  | nil => rfl
  | cons r rs ih =>
    simp only [copyWrites, readData, List.flatten_append]
    cases hr : r.err.isSome <;> cases hd : r.data.isEmpty <;> simp_all

/-- **Forwarding, readers that report the end with their last bytes**: the local connection is ANY script
of reads — each returning some bytes and possibly, together with them, io.EOF or another error (as
`iotest.DataErrReader`, gzip and QUIC streams do) — and the stream side may report its end-of-stream with
its last bytes as well.  The peer still receives EVERY byte the local reader handed out, up to and
including those of the read that carried the EOF/error, followed by end-of-stream after the half-close;
the application receives every byte of the answer. -/
theorem C10_forward_reads (me : Bytes) (upReads : List LRead) (down : Bytes) (ct cl re : Bool) :
    holdsFw (readData upReads) down ct cl (runForwardR me upReads down ct cl re) = true := by
  have h := C10_forward_main me (copyWrites upReads) down ct cl
  rw [copyWrites_flatten] at h
  simp only [holdsFw, Bool.and_eq_true, beq_iff_eq] at h ⊢
  obtain ⟨⟨⟨⟨h1, h2⟩, h3⟩, h4⟩, h5⟩ := h
  have hd : (copyWrites [⟨(runForward me (copyWrites upReads) down ct cl).down, if re then some .eof else none⟩]).flatten =
      (runForward me (copyWrites upReads) down ct cl).down := by
    rw [copyWrites_flatten]; cases re <;> simp [readData]
  simp only [runForwardR, hd]
  exact ⟨⟨⟨⟨h1, h2⟩, h3⟩, h4⟩, h5⟩

/-- The chunking function the driver uses is a chunking (so `C10_stream_main` covers every case line). -/
theorem C10_chunkBy_flatten (ns : List Nat) (bs : Bytes) : (Drv.chunkBy ns bs).flatten = bs := by
  induction ns generalizing bs with
  | nil =>
    cases bs <;> simp [Drv.chunkBy]
  | cons n ns ih =>
    unfold Drv.chunkBy
    by_cases hb : bs.isEmpty
    · have : bs = [] := by simpa using hb
      simp [this]
    · simp only [hb, Bool.false_eq_true, if_false]
      by_cases hn : n = 0
      · simp [hn, ih]
      · simp [hn, ih]

/-! ### The finding: 16-byte truncation of tunnel ids (hypothesis `evWF` is necessary) -/

/-- Two distinct real-shaped tunnel ids, `tcp-tunnel-1759012345678901234-8080` and
`tcp-tunnel-1759099999999999999-9090`, share their first 16 bytes. -/
def idA : Bytes := "tcp-tunnel-1759012345678901234-8080".toUTF8.toList
def idB : Bytes := "tcp-tunnel-1759099999999999999-9090".toUTF8.toList

/-- **Witness (code as found)**: a data frame of tunnel B on the connection is delivered to the
reader of tunnel A — the stream property fails without the `evWF` hypothesis. -/
theorem C10_id_truncation_witness :
    idA ≠ idB ∧ tunnelIDFromString idA = tunnelIDFromString idB ∧
    holdsStream idA [.write [1, 2], .inject idB crossnode.FrameTypeData [9, 9, 9], .closeWrite] .eof [8, 8, 8]
      (runStream none idA [.write [1, 2], .inject idB crossnode.FrameTypeData [9, 9, 9], .closeWrite]
        (fun b => [b]) .eof false [8, 8, 8]) = false := by
  decide +kernel

/-! ### Non-vacuity: concrete non-trivial inputs meet every hypothesis -/

def sampleEvs : List Ev :=
  [.inject [0x78] crossnode.FrameTypeData [7, 7], .write [1, 2, 3], .inject idA crossnode.FrameTypeAck [5],
   .inject idA crossnode.FrameTypeData [], .write [], .write [4], .closeWrite, .write [9], .close]

example : ∀ e ∈ sampleEvs, evWF idA e = true := by decide +kernel

/-- …and the model really delivers `1 2 3 4` then EOF under 1-byte chunks and 2-byte reads (a test). -/
example :
    (runStream (some fun s => s == [0x78]) idA sampleEvs (fun b => b.map (fun x => [x])) .err true [2, 2, 2, 2, 2]).reads =
      [.data [1, 2], .data [3], .data [4], .eof, .eof] := by decide +kernel

example : (⟨tunnelIDFromString idA, crossnode.FrameTypeData, [1, 2, 3]⟩ : Frame).WF := by decide +kernel

/-- The forwarding model reaches `done` and satisfies `holdsFw` on a concrete run (a test). -/
example : holdsFw [1, 2, 3] [4, 5] true true (runForward idA [[1], [2, 3]] [4, 5] true true) = true := by decide +kernel

/-- A local reader that returns its last two bytes together with io.EOF: all five bytes arrive (a test). -/
example :
    holdsFw [1, 2, 3, 4, 5] [9] false false
      (runForwardR idA [⟨[1, 2, 3], none⟩, ⟨[4, 5], some .eof⟩, ⟨[7], none⟩] [9] false false true) = true := by
  decide +kernel

/-- A hostile header (length `0xFFFFFFFF`) is refused with only the header allocated (a test). -/
example :
    (readFrame ⟨[List.replicate 17 0 ++ [0xff, 0xff, 0xff, 0xff, 1, 2]], .eof⟩).out = .fail .tooLarge ∧
    (readFrame ⟨[List.replicate 17 0 ++ [0xff, 0xff, 0xff, 0xff, 1, 2]], .eof⟩).alloc = 21 := by decide +kernel

end Tunnox.C10
