import TunnoxModel.Spec.C10
namespace Tunnox.C10
end Tunnox.C10
