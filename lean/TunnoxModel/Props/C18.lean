import TunnoxModel.Spec.C18
namespace Tunnox.C18
theorem placeholder : True := trivial
end Tunnox.C18
