import TunnoxModel.Proofs.C18
/-!
# C18 — repeated authentication failures lock an address out for the ban period

Everything below is about the executable model `Model/C18.lean` that the driver runs (and the harness
compares with the real `BruteForceProtector`, `IPManager`, `RateLimiter`, `HandleHandshake`), and
uses the predicates of `Spec/C18.lean` that the runner applies to the implementation's observations.

Quantifiers: every configuration, every time line (any events, any number of addresses, any spacing
relative to window and ban duration) and every placement of the asynchronous steps — the lazily
spawned `unbanIfExpired` / `removeExpiredFromBlacklist` goroutines and the clean-up passes are
ordinary events that may sit anywhere, `RecordFailure` may be cut between its two critical
sections (`failRec` / `failBan i`), the clean-up pass between its two (`cleanFr` / `cleanBan`), and
a ban sweep between a scan and a (re-checking) delete phase (`sweepScan` / `sweepDelete`), with
other calls, also of the same address, in between.  For the code as it is, `skel_cleanup` justifies
the one-step `cleanup`; `blind_sweep_witness` shows what a delete phase without the re-check does.

Hypotheses (`WF`): time stamps do not decrease and are ≥ 1 (`Sorted 1`); `0 < BanDuration`
(Go: a zero duration *is* the permanent-ban call); for the rate bound `Burst·U ≤ Rate·TTL`
(dropping an idle bucket must not hand out a fresh burst earlier than refill would).  The harness
runs the real code at the excluded points and reports what it does there (evidence
`excluded_points`).
-/
namespace Tunnox.C18
open Gen

/-! ## The reference ledger says what the property says -/

/-- A lock is never taken back by any later event: `perm` stays, `till` never decreases. -/
theorem ledger_lock_persists (cfg : BruteForceConfig) (t : Nat) (e : Ev) (l : Ledger) :
    (l.perm = true → (ledgerStep cfg t e l).1.perm = true) ∧ l.till ≤ (ledgerStep cfg t e l).1.till := by
  cases e <;> simp only [ledgerStep, lock] <;> (try split) <;> (try split) <;> simp <;> omega

/-- Reaching `MaxFailures` inside the window locks until `t + BanDuration` at least; reaching
`PermanentBanAt` locks for ever. -/
theorem ledger_threshold_locks (cfg : BruteForceConfig) (t a : Nat) (l : Ledger) :
    (cfg.PermanentBanAt ≤ (l.fails ++ [t]).length → (ledgerStep cfg t (.fail a) l).1.perm = true) ∧
    (cfg.MaxFailures ≤ ((l.fails ++ [t]).filter (inWindow cfg t)).length →
       (ledgerStep cfg t (.fail a) l).1.perm = true ∨ t + cfg.BanDuration ≤ (ledgerStep cfg t (.fail a) l).1.till) := by
  simp only [ledgerStep, specDec, ge_iff_le]
  constructor
  · intro h
    rw [if_pos h]; rfl
  · intro h
    by_cases hp : cfg.PermanentBanAt ≤ (l.fails ++ [t]).length
    · left; rw [if_pos hp]; rfl
    · right; rw [if_neg hp, if_pos h]; exact Nat.le_max_right _ _

/-- Below both thresholds a failure changes nothing about the lock. -/
theorem ledger_below_threshold (cfg : BruteForceConfig) (t a : Nat) (l : Ledger)
    (h1 : (l.fails ++ [t]).length < cfg.PermanentBanAt)
    (h2 : ((l.fails ++ [t]).filter (inWindow cfg t)).length < cfg.MaxFailures) :
    (ledgerStep cfg t (.fail a) l).1.perm = l.perm ∧ (ledgerStep cfg t (.fail a) l).1.till = l.till ∧
    (ledgerStep cfg t (.fail a) l).2 = some false := by
  have h1' : ¬ cfg.PermanentBanAt ≤ (l.fails ++ [t]).length := by omega
  have h2' : ¬ cfg.MaxFailures ≤ ((l.fails ++ [t]).filter (inWindow cfg t)).length := by omega
  simp only [ledgerStep, specDec, ge_iff_le]
  rw [if_neg h1', if_neg h2']
  exact ⟨rfl, rfl, rfl⟩

/-- Queries, successes, clean-ups and the asynchronous unban never touch the lock. -/
theorem ledger_lock_only_by_failures (cfg : BruteForceConfig) (t a : Nat) (l : Ledger) :
    ∀ e ∈ [Ev.success a, Ev.query a, Ev.asyncUnban a, Ev.cleanup],
      (ledgerStep cfg t e l).1.perm = l.perm ∧ (ledgerStep cfg t e l).1.till = l.till := by
  intro e he
  simp only [List.mem_cons, List.mem_nil_iff, or_false] at he
  rcases he with rfl | rfl | rfl | rfl <;> simp only [ledgerStep] <;> (try split) <;> simp

/-! ## Main theorems -/

/-- **Lock-out.** For every configuration with a positive ban duration and every time line — any
interleaving of failures, successes, queries, clean-ups, delayed unban goroutines, and
`RecordFailure` calls cut between their two critical sections — every `IsBanned` answer and every
`RecordFailure` result of the model is the ledger's: refused exactly while locked. -/
theorem C18_lockout (cfg : BruteForceConfig) (hB : 0 < cfg.BanDuration) (es : List TEv) (hs : Sorted 1 es) :
    holdsBF cfg es (run cfg es State.empty) = true := by
  simp only [holdsBF, beq_iff_eq]
  exact run_sim cfg hB es 1 _ _ hs (fun _ => RComp_empty cfg (by omega))

/-- **A blacklisted address is always refused** (and an address that is not, or is whitelisted, never):
for every time line of list changes, queries, clean-ups, delayed removal goroutines and *restarts* —
at any point a new `IPManager` may be created over the same storage (`restart`: node restart, another
node taking over) and answers from then on; permanent, temporary, CIDR and whitelist entries all
survive the reload. -/
theorem C18_blacklist (es : List (Nat × IEv)) (hs : Sorted 0 es) :
    holdsIPM es (ipmRun es IPM.empty) = true := by
  simp only [holdsIPM, beq_iff_eq]
  exact ipmRun_sim es 0 _ _ hs (RIpm_empty 0)

/-- **Rate and burst.** For every time line of `AllowIP` calls and clean-ups, every address, every
stretch of its calls from `s` to `e`: admitted·U ≤ Burst·U + Rate·(e − s). -/
theorem C18_rate (cfg : RateLimitConfig) (U : Nat) (hwf : cfg.Burst * U ≤ cfg.Rate * cfg.TTL)
    (es : List (Nat × REv)) (hs : Sorted 0 es) :
    holdsRL cfg U es (rlRun cfg U es (fun _ => none)) = true := by
  simp only [holdsRL, Bool.and_eq_true, beq_iff_eq, List.all_eq_true]
  refine ⟨rlRun_length cfg U es _, fun ip _ => ?_⟩
  exact stretches cfg U hwf ip es 0 _ hs (fun x hx => by cases hx)

/-- **Rate and burst with overlapping calls.** The same bound when `AllowIP` calls of any addresses
overlap arbitrarily: each call may be cut into its critical sections (lookup under the table's read
lock; on a miss the create section under the write lock; `Take` under the bucket's lock) with any
other step — other calls of the same address, clean-up passes that drop the very bucket a call in
flight is holding — in between.  In particular any number of simultaneous first contacts of one
address share one bucket. -/
theorem C18_rate_overlapping (cfg : RateLimitConfig) (U : Nat) (hwf : cfg.Burst * U ≤ cfg.Rate * cfg.TTL)
    (es : List (Nat × XEv)) (hs : Sorted 0 es) :
    holdsRLX cfg U es (xRun cfg U es XState.empty) = true := by
  simp only [holdsRLX, Bool.and_eq_true, beq_iff_eq, List.all_eq_true]
  refine ⟨xRun_length cfg U es _, fun ip _ => ?_⟩
  exact xstretches cfg U hwf ip es 0 _ hs (fun x hx => by cases hx)

/-- **Handshake.** Every response of `HandleHandshake` in the model is the reference's: `blk` exactly
when the ledger says blacklisted, else `ban` exactly when the ledger says locked (in both cases
nothing is recorded and no token is taken, `C18_refused_is_inert`), and the anonymous registrations
that get past the gates obey rate and burst in every stretch — for every time line of attempts of
all kinds, list changes, clean-ups and asynchronous steps. -/
theorem C18_handshake (cfg : HCfg) (hB : 0 < cfg.bf.BanDuration)
    (hwf : cfg.rl.Burst * cfg.U ≤ cfg.rl.Rate * cfg.rl.TTL) (es : List (Nat × HEv)) (hs : Sorted 1 es) :
    holdsHS cfg es (hRun cfg es HState.empty) = true := by
  simp only [holdsHS, Bool.and_eq_true, beq_iff_eq, List.all_eq_true]
  refine ⟨hRun_sim cfg hB es 1 _ _ hs ⟨RIpm_empty 1, fun _ => RComp_empty cfg.bf (by omega), rfl⟩, fun ip _ => ?_⟩
  rw [rlProj_regs]
  exact stretches cfg.rl cfg.U hwf ip _ 1 _ (rlProj_sorted cfg es 1 _ hs) (fun x hx => by cases hx)

/-- The response part alone needs no hypothesis on the limiter configuration. -/
theorem C18_handshake_responses (cfg : HCfg) (hB : 0 < cfg.bf.BanDuration) (es : List (Nat × HEv)) (hs : Sorted 1 es) :
    hRun cfg es HState.empty = hSpecRun cfg es HLedger.empty :=
  hRun_sim cfg hB es 1 _ _ hs ⟨RIpm_empty 1, fun _ => RComp_empty cfg.bf (by omega), rfl⟩

/-- A refused handshake leaves every table untouched (no failure recorded, no token taken). -/
theorem C18_refused_is_inert (cfg : HCfg) (t ip : Nat) (k : HKind) (s : HState)
    (h : (handshake cfg t ip k s).2 = .blk ∨ (handshake cfg t ip k s).2 = .ban) :
    (handshake cfg t ip k s).1 = s := by
  unfold handshake at h ⊢
  by_cases c1 : (!(isAllowed t ip s.ipm)) = true
  · simp only [c1, if_true]
  · simp only [c1, Bool.false_eq_true, if_false] at h ⊢
    by_cases c2 : isBanned t (s.bf ip).ban = true
    · simp only [c2, if_true]
    · simp only [c2, Bool.false_eq_true, if_false] at h ⊢
      by_cases c3 : (k.anon && !(allowB cfg.rl cfg.U t (s.rl ip)).2) = true
      · simp [c3] at h
      · simp only [c3, Bool.false_eq_true, if_false] at h ⊢
        cases hk : k.outcome with
        | none => cases k <;> simp_all [HKind.outcome, HKind.neutralResp]
        | some b => cases b <;> simp [hk] at h

/-! ## Ties to the source: defaults and call skeletons -/

/-- The shipped defaults satisfy the hypotheses (`U` = 10⁹: durations are nanoseconds). -/
theorem defaults_wf :
    0 < security.DefaultBruteForceConfig.BanDuration ∧
    security.DefaultIPRateLimitConfig.Burst * 1000000000 ≤
      security.DefaultIPRateLimitConfig.Rate * security.DefaultIPRateLimitConfig.TTL := by
  decide

/-- the shipped protector configuration (nanoseconds) -/
def defaultBFns : BruteForceConfig :=
  ⟨security.DefaultBruteForceConfig.MaxFailures, security.DefaultBruteForceConfig.TimeWindow,
   security.DefaultBruteForceConfig.BanDuration, security.DefaultBruteForceConfig.PermanentBanAt⟩
/-- the shipped handshake configuration (nanoseconds, `U` = 10⁹) -/
def defaultHns : HCfg :=
  ⟨defaultBFns, ⟨security.DefaultIPRateLimitConfig.Rate, security.DefaultIPRateLimitConfig.Burst,
                 security.DefaultIPRateLimitConfig.TTL⟩, 1000000000⟩

/-- **The shipped configuration** (what `NewBruteForceProtector(nil, …)` / `NewRateLimiter(nil, nil, …)`
use — the only way the server builds these components): lock-out, and the handshake clause including
rate and burst, hold for every time line (durations in nanoseconds, `U` = 10⁹). -/
theorem C18_lockout_defaults (es : List TEv) (hs : Sorted 1 es) :
    holdsBF defaultBFns es (run defaultBFns es State.empty) = true :=
  C18_lockout defaultBFns defaults_wf.1 es hs

theorem C18_handshake_defaults (es : List (Nat × HEv)) (hs : Sorted 1 es) :
    holdsHS defaultHns es (hRun defaultHns es HState.empty) = true :=
  C18_handshake defaultHns defaults_wf.1 defaults_wf.2 es hs

theorem defaults_are_the_constants :
    security.DefaultBruteForceConfig.MaxFailures = security.DefaultMaxFailures ∧
    security.DefaultBruteForceConfig.TimeWindow = security.DefaultTimeWindow ∧
    security.DefaultBruteForceConfig.BanDuration = security.DefaultBanDuration ∧
    security.DefaultBruteForceConfig.PermanentBanAt = security.DefaultPermanentBanAt ∧
    security.DefaultBruteForceConfig.CleanupInterval = security.DefaultBruteForceCleanupInterval := by
  decide

/-- `RecordFailure`: one `mu` critical section (append, prune, count), then `banIP` (permanent
branch first, temporary second) outside it — the two atomic steps `failRec` / `failBan`. -/
theorem skel_RecordFailure : Skel.BruteForceProtector_RecordFailure =
    ["mu.Lock", "cleanupOldFailures", "mu.Unlock", "banIP", "banIP"] := by decide
theorem skel_banIP : Skel.BruteForceProtector_banIP = ["banMu.Lock", "banMu.Unlock", "ExpiresAt.IsZero"] := by decide
/-- `IsBanned` spawns the conditional unban, never the unconditional `UnbanIP`. -/
theorem skel_IsBanned : Skel.BruteForceProtector_IsBanned =
    ["banMu.RLock", "banMu.RUnlock", "isExpired", "unbanIfExpired"] := by decide
theorem skel_unbanIfExpired : Skel.BruteForceProtector_unbanIfExpired =
    ["banMu.Lock", "banMu.Unlock", "isExpired"] := by decide
theorem skel_RecordSuccess : Skel.BruteForceProtector_RecordSuccess = ["mu.Lock", "mu.Unlock"] := by decide
theorem skel_cleanup : Skel.BruteForceProtector_cleanup =
    ["mu.Lock", "cleanupOldFailures", "mu.Unlock", "banMu.Lock", "ExpiresAt.IsZero", "now.After", "banMu.Unlock"] := by decide
/-- `IsAllowed`: whitelist first, then the blacklist; spawns the conditional removal only. -/
theorem skel_IsAllowed : Skel.IPManager_IsAllowed =
    ["mu.RLock", "mu.RUnlock", "isInList", "findInList", "isExpired", "removeExpiredFromBlacklist"] := by decide
theorem skel_findInList : Skel.IPManager_findInList =
    ["isExpired", "net.ParseIP", "net.ParseCIDR", "ipNet.Contains", "isExpired"] := by decide
theorem skel_removeExpired : Skel.IPManager_removeExpiredFromBlacklist =
    ["mu.Lock", "mu.Unlock", "isExpired", "removeFromStorage"] := by decide
theorem skel_ipm_cleanup : Skel.IPManager_cleanup =
    ["mu.Lock", "mu.Unlock", "ExpiresAt.IsZero", "now.After", "removeFromStorage"] := by decide
theorem skel_allow : Skel.RateLimiter_allow =
    ["mu.RLock", "mu.RUnlock", "mu.Lock", "newTokenBucket", "mu.Unlock", "bucket.Take"] := by decide
theorem skel_Take : Skel.TokenBucket_Take = ["mu.Lock", "mu.Unlock", "refill"] := by decide
/-- Gate order of `HandleHandshake`: blacklist, ban, rate limit, and only then any path that records
a failure or a success. -/
theorem skel_HandleHandshake : Skel.ServerAuthHandler_HandleHandshake =
    ["ipManager.IsAllowed", "bruteForceProtector.IsBanned", "rateLimiter.AllowIP", "handleFirstConnection",
     "cloudControl.GetClientConfig", "bruteForceProtector.RecordFailure", "config.IsExpired",
     "handleChallengePhase1", "handleChallengePhase2"] := by decide
theorem skel_handleFirstConnection : Skel.ServerAuthHandler_handleFirstConnection =
    ["cloudControl.GenerateAnonymousCredentials", "bruteForceProtector.RecordFailure",
     "bruteForceProtector.RecordSuccess", "conn.SetAuthenticated"] := by decide
theorem skel_phase1 : Skel.ServerAuthHandler_handleChallengePhase1 = ["conn.SetPendingChallenge"] := by decide
theorem skel_phase2 : Skel.ServerAuthHandler_handleChallengePhase2 =
    ["conn.GetPendingChallenge", "bruteForceProtector.RecordFailure", "conn.ClearPendingChallenge",
     "secretKeyMgr.VerifyResponse", "bruteForceProtector.RecordFailure", "bruteForceProtector.RecordSuccess",
     "conn.SetAuthenticated"] := by decide

/-! ## Non-vacuity: the hypotheses are inhabited and the interesting branches are reached -/

/-- two failures lock; the lock ends after the ban period; a delayed unban goroutine that runs after
a renewed ban does not erase it (the defect repaired by 0e9abb1). -/
example :
    Sorted 1 [(20, Ev.fail 1), (40, .fail 1), (60, .query 1), (140, .query 1), (160, .fail 1), (160, .asyncUnban 1), (180, .query 1)] ∧
    run ⟨2, 150, 90, 5⟩ [(20, .fail 1), (40, .fail 1), (60, .query 1), (140, .query 1), (160, .fail 1), (160, .asyncUnban 1), (180, .query 1)] State.empty
      = [some false, some true, some true, some false, some true, none, some true] := by decide

/-- permanent threshold, then success and failures of handshakes still in flight: still locked after
the temporary period (the defect repaired by 29fa1ac); also with `RecordFailure` cut in two. -/
example :
    run ⟨2, 70, 30, 3⟩ [(20, .fail 1), (20, .fail 1), (20, .fail 1), (40, .success 1), (40, .fail 1), (40, .fail 1), (100, .query 1)] State.empty
      = [some false, some true, some true, none, some false, some true, some true] ∧
    run ⟨2, 70, 30, 3⟩ [(20, .fail 1), (20, .failRec 1), (20, .fail 1), (20, .failBan 1 0), (100, .query 1)] State.empty
      = [some false, none, some true, none, some true] := by decide

/-- an expired exact entry does not shadow a permanent /8 (repaired by 87132e0); re-adding while the
removal goroutine is pending keeps the new entry (repaired by b89e1ca). -/
example :
    ipmRun [(20, .addBlack ⟨167772160, some 8⟩ 0), (20, .addBlack ⟨167838211, none⟩ 30), (40, .isAllowed 167838211),
            (60, .isAllowed 167838211), (60, .removeBlack ⟨167772160, some 8⟩), (60, .isAllowed 167838211),
            (80, .addBlack ⟨167838211, none⟩ 0), (80, .asyncRemove 167838211), (80, .isAllowed 167838211)] IPM.empty
      = [none, none, some false, some false, none, some true, none, none, some false] := by decide

/-- the clean-up pass cut into its critical sections, and a ban sweep cut into scan and delete phase
with the threshold-reaching failure of an address between the two phases: the fresh ban survives. -/
example :
    run ⟨3, 10000, 150, 1000⟩ [(1, .fail 1), (1, .fail 1), (1, .fail 1), (152, .cleanFr), (152, .sweepScan), (152, .fail 1),
                                (152, .sweepDelete), (152, .cleanBan), (153, .query 1)] State.empty
      = [some false, some false, some true, none, none, some true, none, none, some true] := by decide

/-- **Witness of the regression the split exists for**: a delete phase that removes what the scan
phase collected *without looking at the record again* erases the ban written between the phases —
the address is admitted (`isBanned = false`) although the ledger refuses it. -/
theorem blind_sweep_witness :
    let cfg : BruteForceConfig := ⟨3, 10000, 150, 1000⟩
    let c0 : Comp := (compStep cfg 1 (.fail 1) (compStep cfg 1 (.fail 1) (compStep cfg 1 (.fail 1) Comp.empty).1).1).1
    let c1 : Comp := (compStep cfg 152 (.fail 1) (compStep cfg 152 .sweepScan c0).1).1
    let l1 : Ledger := (ledgerStep cfg 152 (.fail 1) (ledgerStep cfg 1 (.fail 1) (ledgerStep cfg 1 (.fail 1)
                        (ledgerStep cfg 1 (.fail 1) Ledger.empty).1).1).1).1
    c1.marked = true ∧ isBanned 153 (if c1.marked then none else c1.ban) = false ∧ l1.refuses 153 = true ∧
    isBanned 153 (compStep cfg 152 .sweepDelete c1).1.ban = true := by decide

/-- permanent exact and CIDR entries, a live temporary entry and a whitelist entry survive a reload;
a removed entry stays removed; an entry whose lazy removal ran before the reload stays gone. -/
example :
    ipmRun [(20, .addBlack ⟨167838211, none⟩ 0), (20, .addBlack ⟨3232235776, some 16⟩ 0), (20, .addBlack ⟨167838212, none⟩ 70),
            (20, .addWhite ⟨3232235777, none⟩), (40, .restart), (40, .isAllowed 167838211), (40, .isAllowed 3232235778),
            (40, .isAllowed 167838212), (40, .isAllowed 3232235777), (60, .removeBlack ⟨167838211, none⟩), (60, .restart),
            (60, .isAllowed 167838211), (100, .asyncRemove 167838212), (100, .restart), (100, .isAllowed 167838212)] IPM.empty
      = [none, none, none, none, none, some false, some false, some false, some true, none, none, some true, none, none, some true] := by
  decide

/-- **Witness of the regression the `restart` event exists for**: a reload that skips records whose
`ExpiresAt` is the zero time (the encoding of "permanent") admits a permanently blacklisted address,
which the ledger refuses. -/
theorem reload_dropping_permanent_witness :
    let m : IPM := (ipmStep 20 (.addBlack ⟨167838211, none⟩ 0) IPM.empty).1
    let l : BLedger := (bledgerStep 20 (.addBlack ⟨167838211, none⟩ 0) BLedger.empty).1
    let dropZero : IPKey → Option IPRecord := fun k => (m.sblack k).filter (fun r => r.ExpiresAt != 0)
    isAllowed 40 167838211 { m with blacklist := dropZero } = true ∧ l.allowed 40 167838211 = false ∧
    isAllowed 40 167838211 (ipmStep 40 .restart m).1 = false := by decide

/-- burst 2, 20 tokens/s, milliseconds: two admitted at once, the third refused, one more 60 ms later. -/
example :
    (⟨20, 2, 210⟩ : RateLimitConfig).Burst * 1000 ≤ (⟨20, 2, 210⟩ : RateLimitConfig).Rate * (⟨20, 2, 210⟩ : RateLimitConfig).TTL ∧
    rlRun ⟨20, 2, 210⟩ 1000 [(20, .allow 1), (20, .allow 1), (20, .allow 1), (80, .allow 1), (80, .allow 1)] (fun _ => none)
      = [some true, some true, some false, some true, some false] := by decide

/-- an attempt with expired credentials is refused without counting as a failure: two of them and one
real failure stay below `MaxFailures = 2`. -/
example :
    hRun ⟨⟨2, 70, 50, 9⟩, ⟨0, 5, 1000000⟩, 1000⟩
      [(20, .hs 1 .expired), (20, .hs 1 .expired), (20, .hs 1 .unknown), (20, .hs 1 .good)] HState.empty
      = [some .fail, some .fail, some .fail, some .ok] := by decide

/-- five simultaneous first contacts of one address, all looked up before any bucket exists: they
share one bucket — burst 2 admits two.  Two calls holding a bucket that the clean-up pass then drops
are refused (repaired by 8cd7943), the next call starts a fresh bucket. -/
example :
    xRun ⟨20, 2, 210⟩ 1000 [(1, .lookup 1), (1, .lookup 1), (1, .lookup 1), (1, .lookup 1), (1, .lookup 1),
        (1, .create 1 0), (1, .create 1 1), (1, .take 1 0), (1, .take 1 0), (1, .create 1 0), (1, .take 1 0),
        (1, .create 1 0), (1, .take 1 0), (1, .create 1 0), (1, .take 1 0)] XState.empty
      = [none, none, none, none, none, none, none, some true, some true, none, some false, none, some false, none, some false] ∧
    xRun ⟨20, 2, 210⟩ 1000 [(1, .allow 1), (300, .lookup 1), (300, .lookup 1), (300, .cleanup), (300, .take 1 0),
        (300, .take 1 0), (300, .allow 1), (300, .allow 1), (300, .allow 1)] XState.empty
      = [some true, none, none, none, some false, some false, some true, some true, some false] := by decide

/-- **Witnesses of the two regressions the split exists for**, on the bound itself: (a) every
simultaneous first contact drawing from a private full bucket (5 admitted, burst 2); (b) calls that
keep drawing from a bucket the clean-up pass dropped while later calls get a fresh one (4 admitted at
one instant, burst 2). -/
theorem private_bucket_witness :
    holdsRLX ⟨20, 2, 210⟩ 1000
      [(1, .lookup 1), (1, .lookup 1), (1, .lookup 1), (1, .create 1 0), (1, .take 1 0), (1, .create 1 0), (1, .take 1 0),
       (1, .create 1 0), (1, .take 1 0)]
      [none, none, none, none, some true, none, some true, none, some true] = false ∧
    holdsRLX ⟨20, 2, 210⟩ 1000
      [(1, .allow 1), (300, .lookup 1), (300, .lookup 1), (300, .cleanup), (300, .take 1 0), (300, .take 1 0),
       (300, .allow 1), (300, .allow 1)]
      [some true, none, none, none, some true, some true, some true, some true] = false := by decide

/-- a locked address is refused whatever kind of handshake it tries, then admitted again. -/
example :
    hRun ⟨⟨2, 70, 50, 9⟩, ⟨0, 5, 1000000⟩, 1000⟩
      [(20, .hs 1 .unknown), (20, .hs 1 .badResp), (40, .hs 1 .good), (40, .hs 1 .anonOk), (100, .hs 1 .good)] HState.empty
      = [some .fail, some .fail, some .ban, some .ban, some .ok] := by decide

end Tunnox.C18
