import TunnoxModel.Proofs.C04
/-!
# C04 — tunnel data reaches only connections authorised for that mapping

Property theorems only.  They are about `openTunnel`, the executable model of
`SessionManager.handleTunnelOpen` that the driver runs against the implementation, which itself calls the
predicates TRANSLATED from the Go source (`PortMapping.IsValid`, `CanBeAccessedBy`), and they use `holds` /
`entitledB` of `Spec/C04.lean` — the same predicate the runner applies to the implementation's observations.

Quantifiers: every world (any finite set of mappings in any state, any clock), every connection identity,
every request (any strings as mapping id / secret / resume token, malformed payloads), every tunnel state at
arrival (no bridge, bridge waiting, bridge served, route to this or another node) and — `C04_main_dyn`,
`attach_entitled_dyn` — every bridge or route, of any mapping, on this or another node, that appears while a
request that found nothing at arrival is polling.  No bounds.

Hypothesis `identWF` (decidable): a connection carries a client id only together with the authenticated
flag.  It is what the auth handlers guarantee (property C03; tied below by the skeletons of
`handleFirstConnection` / `handleChallengePhase2`: `SetClientID` is always followed by `SetAuthenticated`).
-/
namespace Tunnox.C04
open Gen

/-- The model writes at most one acknowledgement per request and attaches only what it acknowledged. -/
theorem ack_discipline_model (w : World) (id : ConnIdent) (req : Req) (ts : TunnelState) (late : Late) :
    ackDiscipline ((openTunnelDyn w id req ts late).obsDyn req ts late) = true := by
  have ha := attach_acked w id req ts late
  unfold ackDiscipline Outcome.obsDyn
  simp only
  cases hack : (openTunnelDyn w id req ts late).ack <;>
    cases hatt : (openTunnelDyn w id req ts late).attach <;> simp_all

/-- First clause on the state at arrival: not entitled ⇒ the refusal. -/
theorem arrival_clause (w : World) (id : ConnIdent) (req : Req) (ts : TunnelState) (late : Late)
    (hwf : identWF id = true) :
    (entitledB w id req ts ||
      (((openTunnelDyn w id req ts late).obsDyn req ts late).ack == .fail &&
       ((openTunnelDyn w id req ts late).obsDyn req ts late).att == .none &&
       !((openTunnelDyn w id req ts late).obsDyn req ts late).data)) = true := by
  by_cases hr : openTunnelDyn w id req ts late = refuse
  · rw [hr]; simp [refuse, Outcome.obsDyn, dynData]
  · obtain ⟨cc, hf, ha, hm⟩ := passed_of_not_refused_dyn hr
    rw [entitled_of_passed hwf hf ha hm]; rfl

/-- Second clause: whatever it is attached to (or receives bytes from) is a tunnel of a mapping it is entitled to;
for a connection held by a bridge that is the mapping THAT bridge serves. -/
theorem attached_clause (w : World) (id : ConnIdent) (req : Req) (ts : TunnelState) (late : Late)
    (hwf : identWF id = true) :
    ((((openTunnelDyn w id req ts late).obsDyn req ts late).att == .none &&
       !((openTunnelDyn w id req ts late).obsDyn req ts late).data) ||
      entitledB w id req (attachedTs ts late ((openTunnelDyn w id req ts late).obsDyn req ts late).att
        ((openTunnelDyn w id req ts late).obsDyn req ts late).on)) = true := by
  by_cases hr : openTunnelDyn w id req ts late = refuse
  · rw [hr]; simp [refuse, Outcome.obsDyn, dynData]
  · obtain ⟨cc, hf, ha, hm⟩ := passed_of_not_refused_dyn hr
    have he := entitled_of_passed hwf hf ha hm
    -- entitled to a tunnel of the mapping it named, whatever shape that tunnel has
    have hown : ∀ sv, entitledB w id req (.bridge req.MappingID sv) = true := fun sv =>
      entitled_of_passed hwf hf ha (by simp [tunnelMappingID])
    have hownr : ∀ n, entitledB w id req (.remote req.MappingID n) = true := fun n =>
      entitled_of_passed hwf hf ha (by simp [tunnelMappingID])
    cases ts with
    | bridge m sv =>
      have hmm : m = req.MappingID := by simpa [tunnelMappingID] using hm
      rcases dyn_bridge_cases w id req m sv late with e | e
      · exact absurd e hr
      · rw [e, hmm]
        unfold handleExistingBridge
        simp only [Outcome.obsDyn]
        cases existingBridgeIsSource w id req <;> cases sv <;> simp [attachedTs, dynOn, dynData, hown]
    | remote m n =>
      rcases dyn_remote_cases w id req m n late with e | e
      · exact absurd e hr
      · rw [e]
        unfold processCrossNodeForward
        simp only [Outcome.obsDyn]
        split
        · simp [dynData]
        · split
          · simp [dynData]
          · simp [attachedTs, he]
    | none =>
      rcases dyn_none_cases w id req late with h | h | h | ⟨m, hl, hmm, h⟩
      · exact absurd h hr
      · -- source of its own new tunnel (or nothing)
        rw [h]
        cases late <;> simp [attachedTs, Outcome.obsDyn, dynData, dynOn, handleSourceBridge, hown]
      · rw [h]
        cases late with
        | none => simp [Outcome.obsDyn, dynData, handleTargetBridge]
        | noRouting => simp [Outcome.obsDyn, dynData, handleTargetBridge]
        | early m => simp [Outcome.obsDyn, dynData, handleTargetBridge]
        | route m n b =>
          by_cases hmm : m = req.MappingID
          · subst hmm
            simp only [handleTargetBridge, processCrossNodeForwardLate, handleLocalBridgeWait, Outcome.obsDyn,
              bne_self_eq_false, Bool.false_eq_true, if_false]
            split
            · cases b <;> simp [attachedTs, dynOn, dynData, hown]
            · split
              · simp [dynData]
              · simp [attachedTs, hownr]
          · simp [handleTargetBridge, processCrossNodeForwardLate, Outcome.obsDyn, dynData, hmm]
        | window m =>
          by_cases hmm : m = req.MappingID
          · subst hmm
            simp [handleTargetBridge, Outcome.obsDyn, attachedTs, dynOn, hown]
          · simp [handleTargetBridge, Outcome.obsDyn, dynData, hmm]
      · -- the bridge registered between the dispatcher's two look-ups
        subst hl
        subst hmm
        rw [h]; simp [attachedTs, Outcome.obsDyn, dynOn, hown]

/-- **C04, tunnel state changing during the request.**  `late` is whatever bridge or waiting route appears
(for any mapping, on this or another node) while a request that found nothing at arrival is polling, or —
`.window` / `.early` — the bridge registered between two of the dispatcher's look-ups.  The acknowledgement obeys
`holds` for the state at arrival; the connection is attached to the tunnel that appeared — or receives bytes
from it — only if it is entitled to THAT tunnel's mapping; and there is at most one acknowledgement per request,
written before anything is attached. -/
theorem C04_main_dyn (w : World) (id : ConnIdent) (req : Req) (ts : TunnelState) (late : Late)
    (hwf : identWF id = true) :
    holdsDyn w id req ts late ((openTunnelDyn w id req ts late).obsDyn req ts late) = true := by
  unfold holdsDyn holds
  rw [arrival_clause w id req ts late hwf, ack_discipline_model w id req ts late,
    attached_clause w id req ts late hwf]
  rfl

theorem obsDyn_none (o : Outcome) (req : Req) (ts : TunnelState) : o.obsDyn req ts .none = o.obs req ts := by
  unfold Outcome.obsDyn Outcome.obs dynData dynOn obsData obsOn
  cases o.attach <;> cases ts <;> rfl

/-- **C04.**  Whatever the mappings, the connection, the request and the tunnel state: if the requester is not
entitled to the mapping of the tunnel it addresses (authenticated listen client presenting that mapping's id,
or authenticated listen/target client presenting that mapping's secret, the mapping being known, not revoked,
not expired and active), the dispatcher answers with a failure acknowledgement, attaches the connection
nowhere — not as source, not as target, not through another node — and no tunnel traffic reaches it; in every
case it writes at most one acknowledgement. -/
theorem C04_main (w : World) (id : ConnIdent) (req : Req) (ts : TunnelState) (hwf : identWF id = true) :
    holds w id req ts ((openTunnel w id req ts).obs req ts) = true := by
  have h := C04_main_dyn w id req ts .none hwf
  unfold holdsDyn at h
  simp only [Bool.and_eq_true] at h
  rw [obsDyn_none] at h
  exact h.1

/-- Attachment in a changing tunnel state: whatever the connection is attached to — the tunnel found at arrival,
the bridge it creates, or the tunnel that appears while it polls — it is authenticated and entitled to that
tunnel's mapping. -/
theorem attach_entitled_dyn (w : World) (id : ConnIdent) (req : Req) (ts : TunnelState) (late : Late)
    (hwf : identWF id = true) (h : (openTunnelDyn w id req ts late).attach ≠ .none) :
    provenClient id ≠ 0 ∧
    entitledB w id req (attachedTs ts late (openTunnelDyn w id req ts late).attach
      (dynOn (openTunnelDyn w id req ts late).attach req ts late)) = true := by
  have hm := attached_clause w id req ts late hwf
  simp only [Bool.or_eq_true, Bool.and_eq_true] at hm
  have he : entitledB w id req (attachedTs ts late (openTunnelDyn w id req ts late).attach
      (dynOn (openTunnelDyn w id req ts late).attach req ts late)) = true := by
    rcases hm with hn | he
    · simp [Outcome.obsDyn] at hn
      exact absurd hn.1 h
    · simpa [Outcome.obsDyn] using he
  refine ⟨?_, he⟩
  unfold entitledB at he
  simp only [Bool.and_eq_true] at he
  simpa using he.1

/-- Attachment (source, target or forwarded to another node) only for an authenticated, entitled connection. -/
theorem attach_entitled (w : World) (id : ConnIdent) (req : Req) (ts : TunnelState) (hwf : identWF id = true)
    (h : (openTunnel w id req ts).attach ≠ .none) :
    provenClient id ≠ 0 ∧ entitledB w id req ts = true := by
  have hr : openTunnel w id req ts ≠ refuse := by
    intro e; rw [e] at h; exact h rfl
  obtain ⟨cc, hf, ha, hm⟩ := passed_of_not_refused hr
  have he := entitled_of_passed hwf hf ha hm
  refine ⟨?_, he⟩
  unfold entitledB at he
  simp only [Bool.and_eq_true] at he
  simpa using he.1

/-- A success acknowledgement is only ever sent to an entitled connection. -/
theorem ack_ok_entitled (w : World) (id : ConnIdent) (req : Req) (ts : TunnelState) (hwf : identWF id = true)
    (h : (openTunnel w id req ts).ack = .ok) : entitledB w id req ts = true := by
  have hr : openTunnel w id req ts ≠ refuse := by
    intro e; rw [e] at h; cases h
  obtain ⟨cc, hf, ha, hm⟩ := passed_of_not_refused hr
  exact entitled_of_passed hwf hf ha hm

/-- A request that is not entitled gets exactly the refusal: failure ack, no attachment, error return. -/
theorem refuse_acks (w : World) (id : ConnIdent) (req : Req) (ts : TunnelState) (hwf : identWF id = true)
    (h : entitledB w id req ts = false) : openTunnel w id req ts = refuse := by
  by_cases hr : openTunnel w id req ts = refuse
  · exact hr
  · obtain ⟨cc, hf, ha, hm⟩ := passed_of_not_refused hr
    rw [entitled_of_passed hwf hf ha hm] at h; cases h

/-- Revoked, expired, inactive or unknown mappings never yield an attachment: if the mapping of the addressed
tunnel is unknown or unusable, the request is refused — whoever asks, whatever is presented. -/
theorem unusable_mapping_refused (w : World) (id : ConnIdent) (req : Req) (ts : TunnelState) (hwf : identWF id = true)
    (h : ∀ m, w.getPortMapping (tunnelMappingID req ts) = some m → mappingUsable w.now m = false) :
    openTunnel w id req ts = refuse := by
  apply refuse_acks w id req ts hwf
  unfold entitledB
  cases hg : w.getPortMapping (tunnelMappingID req ts) with
  | none => simp
  | some m => simp [h m hg]

/-- **Expired means expired, by any margin.**  If the clock has passed the `ExpiresAt` of the addressed tunnel's
mapping — by one tick or by an hour, there is no grace period — the request is refused, whoever asks, whatever is
presented, in every tunnel state. -/
theorem expired_refused (w : World) (id : ConnIdent) (req : Req) (ts : TunnelState) (hwf : identWF id = true)
    (m : PortMapping) (t : Nat) (hm : w.getPortMapping (tunnelMappingID req ts) = some m)
    (ht : m.ExpiresAt = some t) (hlt : t < w.now) : openTunnel w id req ts = refuse := by
  apply unusable_mapping_refused w id req ts hwf
  intro m' hm'
  rw [hm] at hm'; cases hm'
  simp [mappingUsable, ht, hlt]

/-- A connection that is not authenticated — no completed handshake and no transport vouching for a client — is
refused in every tunnel state, in particular when a bridge is waiting or a route points to another node. -/
theorem unauthenticated_refused (w : World) (id : ConnIdent) (req : Req) (ts : TunnelState)
    (hwf : identWF id = true) (h : provenClient id = 0) : openTunnel w id req ts = refuse := by
  by_cases hr : openTunnel w id req ts = refuse
  · exact hr
  · obtain ⟨cc, hf, ha, _⟩ := passed_of_not_refused hr
    obtain ⟨m, hA⟩ := auth_sound ha
    have := proven_of_control hwf hf hA.cid_ne
    exact absurd (this ▸ h) hA.cid_ne

/-- **Client id 0 is nobody, also for a mapping whose listen client is 0.**  A mapping the server itself listens
on (HTTP-domain mappings made through the management API) has `ListenClientID = 0`; the translated
`CanBeAccessedBy 0` is then TRUE for it.  The dispatcher must not lean on "0 matches no listen client": a control
connection record without a client id (a tunnel-type handshake that failed or stopped at the challenge), a
temporary one without an id, or no record at all is refused — whatever the mapping's listen client, whatever is
presented, in every tunnel state. -/
theorem zero_client_refused (w : World) (id : ConnIdent) (req : Req) (ts : TunnelState) (late : Late)
    (h : ∀ cc, findControlConnection id = some cc → cc.clientID = 0) :
    openTunnelDyn w id req ts late = refuse := by
  by_cases hr : openTunnelDyn w id req ts late = refuse
  · exact hr
  · obtain ⟨cc, hf, ha, _⟩ := passed_of_not_refused_dyn hr
    obtain ⟨m, hA⟩ := auth_sound ha
    exact absurd (h cc hf) hA.cid_ne

/-- For such a mapping the mapping-id clause entitles nobody (its listen client is not a client): whoever is
entitled to it presented its secret as its listen or target client. -/
theorem server_listened_needs_secret (w : World) (id : ConnIdent) (req : Req) (ts : TunnelState) (m : PortMapping)
    (hm : w.getPortMapping (tunnelMappingID req ts) = some m) (hz : m.ListenClientID = 0)
    (he : entitledB w id req ts = true) : req.SecretKey = m.SecretKey ∧ req.SecretKey ≠ "" ∧ provenClient id = m.TargetClientID := by
  unfold entitledB at he
  rw [hm] at he
  simp only [Bool.and_eq_true, Bool.or_eq_true, bne_iff_ne, ne_eq, beq_iff_eq, hz] at he
  obtain ⟨hp, _, hc⟩ := he
  rcases hc with ⟨_, h0⟩ | ⟨⟨hs, hk⟩, h0 | ht⟩
  · exact absurd h0 hp
  · exact absurd h0 hp
  · exact ⟨hk, hs, ht⟩

/-- Credentials for one mapping never open a tunnel of another mapping. -/
theorem other_mapping_refused (w : World) (id : ConnIdent) (req : Req) (m : String) (sv : Bool) (n : String)
    (h : m ≠ req.MappingID) :
    openTunnel w id req (.bridge m sv) = refuse ∧ openTunnel w id req (.remote m n) = refuse := by
  constructor
  · by_cases hr : openTunnel w id req (.bridge m sv) = refuse
    · exact hr
    · obtain ⟨_, _, _, hm⟩ := passed_of_not_refused hr
      exact absurd hm (by simpa [tunnelMappingID] using h)
  · by_cases hr : openTunnel w id req (.remote m n) = refuse
    · exact hr
    · obtain ⟨_, _, _, hm⟩ := passed_of_not_refused hr
      exact absurd hm (by simpa [tunnelMappingID] using h)

/-- The resume-token path attaches nothing (no cloud control implements token validation). -/
theorem resume_token_refused (w : World) (id : ConnIdent) (req : Req) (ts : TunnelState)
    (h : req.ResumeToken ≠ "") : openTunnel w id req ts = refuse := by
  by_cases hr : openTunnel w id req ts = refuse
  · exact hr
  · obtain ⟨cc, _, ha, _⟩ := passed_of_not_refused hr
    unfold handleTunnelOpenAuth at ha
    simp [h, resumeTunnel] at ha

/-- The translated `IsValid` says exactly "not revoked, not expired, active" (T1b cross-check: weakening
`IsValid`/`IsExpired` in Go breaks this proof). -/
theorem isValid_iff_usable (now : Nat) (m : PortMapping) :
    models.PortMapping.IsValid now m = mappingUsable now m := by
  cases h : mappingUsable now m
  · cases h' : models.PortMapping.IsValid now m
    · rfl
    · rw [isValid_usable h'] at h; cases h
  · exact usable_isValid h

/-- The translated `CanBeAccessedBy` admits exactly the listen client of a usable mapping. -/
theorem canBeAccessedBy_iff (now : Nat) (m : PortMapping) (c : Nat) :
    models.PortMapping.CanBeAccessedBy now m c = (mappingUsable now m && m.ListenClientID == c) := by
  unfold models.PortMapping.CanBeAccessedBy
  rw [isValid_iff_usable]
  cases mappingUsable now m <;> cases m.ListenClientID == c <;> rfl

/-- A waiting bridge takes the newcomer (as source or as target); a served one keeps its target. -/
theorem handleExistingBridge_attach (w : World) (id : ConnIdent) (req : Req) :
    (handleExistingBridge w id req false).attach ≠ .none ∧
    (handleExistingBridge w id req true).attach ≠ .target := by
  unfold handleExistingBridge
  cases existingBridgeIsSource w id req <;> simp

/-- The dispatcher is not vacuously safe: in every world, the authenticated target client of a usable mapping
that presents the mapping's (non-empty) secret is acknowledged and attached to a waiting bridge of that mapping,
and is forwarded when the tunnel waits on another node. -/
theorem legit_target_served (w : World) (id : ConnIdent) (m : PortMapping) (tid : String) (n : String)
    (hc : id.hasControl = true) (hid : id.clientID = m.TargetClientID) (hne : m.TargetClientID ≠ 0)
    (hf : w.getPortMapping m.ID = some m) (hu : mappingUsable w.now m = true) (hs : m.SecretKey ≠ "")
    (hn : n ≠ w.nodeID) (hreach : w.unreachable.contains n = false) :
    (openTunnel w id ⟨true, m.ID, tid, m.SecretKey, ""⟩ (.bridge m.ID false)).ack = .ok ∧
    (openTunnel w id ⟨true, m.ID, tid, m.SecretKey, ""⟩ (.bridge m.ID false)).attach ≠ .none ∧
    openTunnel w id ⟨true, m.ID, tid, m.SecretKey, ""⟩ (.remote m.ID n) = ⟨.ok, .forward n, .switch⟩ := by
  have hv := usable_isValid hu
  have ha : handleTunnelOpenAuth w id.clientID ⟨true, m.ID, tid, m.SecretKey, ""⟩ = true := by
    unfold handleTunnelOpenAuth
    simp [hid, hne, hs, hf, hv, validateWithSecretKey]
  have hb : openTunnel w id ⟨true, m.ID, tid, m.SecretKey, ""⟩ (.bridge m.ID false)
      = handleExistingBridge w id ⟨true, m.ID, tid, m.SecretKey, ""⟩ false := by
    simp [openTunnel, openTunnelDyn, findControlConnection, hc, ha]
  refine ⟨?_, ?_, ?_⟩
  · rw [hb]; rfl
  · rw [hb]; exact (handleExistingBridge_attach w id _).1
  · have hmem : ¬ n ∈ w.unreachable := by simpa using hreach
    simp [openTunnel, openTunnelDyn, findControlConnection, hc, ha, processCrossNodeForward, hn, hmem]

/-! ## A revocation is not undone by other updates of the mapping record -/

/-- **Revocation survives concurrent updates.**  Usage recording, traffic-statistics reports, status changes and
the revocation itself are whole-record read-modify-writes; under the per-mapping lock they take effect one after
the other.  Whatever updates come before and after the revocation, in whatever order: the record is revoked
afterwards, and every TunnelOpen that addresses a tunnel of that mapping — any identity, any credentials, any
tunnel state — is refused (failure ack, nothing attached, no traffic). -/
theorem revoke_survives_updates (w : World) (m : PortMapping) (pre post : List Update)
    (id : ConnIdent) (req : Req) (ts : TunnelState) (hwf : identWF id = true)
    (hw : w.getPortMapping (tunnelMappingID req ts) = some (runSerial (pre ++ .revoke :: post) m)) :
    (runSerial (pre ++ .revoke :: post) m).IsRevoked = true ∧
    openTunnel w id req ts = refuse ∧
    holdsRevoked (runSerial (pre ++ .revoke :: post) m).IsRevoked ((openTunnel w id req ts).obs req ts) = true := by
  have hr : (runSerial (pre ++ .revoke :: post) m).IsRevoked = true := by
    rw [runSerial_append]
    have : runSerial (.revoke :: post) (runSerial pre m) = runSerial post (Update.revoke.apply (runSerial pre m)) := by
      simp [runSerial, List.foldl]
    rw [this]
    exact runSerial_revoked post _ (by simp [Update.apply])
  have href : openTunnel w id req ts = refuse :=
    unusable_mapping_refused w id req ts hwf (fun m' hm' => by
      rw [hw] at hm'; cases hm'; exact revoked_unusable hr)
  refine ⟨hr, href, ?_⟩
  rw [href, hr]; rfl

def mM : PortMapping := ⟨"M", 11, 22, "s3cretM", "active", false, none⟩

/-- As found (no lock): the usage update of a tunnel open reads the record, the revocation reads, writes and
returns, the usage update writes its stale copy back — the record is active again … -/
theorem asFound_revoke_lost :
    (runInterleaved [.usage, .revoke] [.read 0, .read 1, .write 1, .write 0] mM).IsRevoked = false := by decide

/-- … and the target client presenting the secret is attached to the waiting tunnel: the property fails. -/
theorem asFound_revoke_lost_witness :
    holdsRevoked (runInterleaved [.usage, .revoke] [.read 0, .read 1, .write 1, .write 0] mM).IsRevoked
      ((openTunnel ⟨[runInterleaved [.usage, .revoke] [.read 0, .read 1, .write 1, .write 0] mM], 1000, "node-A", []⟩
          ⟨true, 22, true, false, 0⟩ ⟨true, "M", "verif-tunnel-01", "s3cretM", ""⟩ (.bridge "M" false)).obs
          ⟨true, "M", "verif-tunnel-01", "s3cretM", ""⟩ (.bridge "M" false))
      = false := by decide

-- a lock taken only around the write-back does not help: the interleaving stays possible, whichever update it is
example : (runInterleaved [.stats, .revoke] [.read 0, .read 1, .write 1, .write 0] mM).IsRevoked = false := by decide
example : (runInterleaved [.status "active", .revoke] [.read 0, .read 1, .write 1, .write 0] mM).IsRevoked = false := by decide
-- the same threads, not interleaved, are what `runSerial` says (the interleaved semantics is not vacuous)
example : runInterleaved [.usage, .revoke] [.read 0, .write 0, .read 1, .write 1] mM = runSerial [.usage, .revoke] mM := by decide
example : runInterleaved [.usage, .revoke] [.read 1, .write 1, .read 0, .write 0] mM = runSerial [.revoke, .usage] mM := by decide
example : (runSerial [.stats, .revoke, .usage, .status "active"] mM).IsRevoked = true := by decide

/-- the per-mapping lock is the first thing each of these updates takes, before it reads -/
theorem skel_rmw_locked :
    Skel.conncode_RecordMappingUsage =
      ["repos.LockPortMapping", "portMappingService.GetPortMapping", "portMappingService.UpdatePortMapping"] ∧
    Skel.conncode_RevokeMapping =
      ["repos.LockPortMapping", "portMappingService.GetPortMapping", "mapping.Revoke", "portMappingService.UpdatePortMapping"] ∧
    Skel.repo_UpdatePortMappingStats = ["LockPortMapping", "r.GetPortMapping", "r.UpdatePortMapping"] ∧
    Skel.repo_UpdatePortMappingStatus = ["LockPortMapping", "r.GetPortMapping", "r.UpdatePortMapping"] := by decide

/-! ## Through another node: the source node attaches the tunnel the target node authorised -/

/-- **The forwarded connection joins exactly the tunnel it named.**  For every tunnel id — any characters: blanks,
tabs, line breaks, `|` — and every node id (which contains no `|`): the bridge `handleTargetReady` attaches the
forwarded connection to is the bridge registered under that very id.  Together with `C04_main` (the target node
forwards only a request entitled to the mapping of the route registered under that id, and a route and its bridge
are registered by the same `startSourceBridge`) a connection reaches, through another node, only a tunnel of a
mapping it is entitled to — never a tunnel whose id merely resembles the one it named. -/
theorem crossnode_attaches_named_tunnel (bs : Bridges) (tunnelID nodeID : List Char)
    (hn : ∀ c ∈ nodeID, c ≠ '|') :
    handleTargetReady bs (encodeTargetReady tunnelID nodeID) = bs.lookup tunnelID := by
  unfold handleTargetReady
  rw [decode_encode_targetReady tunnelID nodeID hn]

/-- A different tunnel id is a different bridge: the victim's bridge is attached only for the victim's id. -/
theorem crossnode_other_id_other_bridge (victim attacker nodeID : List Char) (mv ma : String)
    (hne : attacker ≠ victim) (hn : ∀ c ∈ nodeID, c ≠ '|') :
    handleTargetReady [(victim, mv), (attacker, ma)] (encodeTargetReady attacker nodeID) = some ma := by
  rw [crossnode_attaches_named_tunnel _ _ _ hn]
  have h1 : (victim == attacker) = false := by simpa using hne.symm
  simp [Bridges.lookup, List.find?, h1]

-- the victim's waiting tunnel "vt-1" (mapping M) and the attacker's own " vt-1" (mapping F) on the source node
def bridgesAB : Bridges := [("vt-1".toList, "M"), (" vt-1".toList, "F")]
example : handleTargetReady bridgesAB (encodeTargetReady " vt-1".toList "node-B".toList) = some "F" := by decide
example : handleTargetReady bridgesAB (encodeTargetReady "vt-1|x".toList "node-B".toList) = none := by decide
-- what a decoder that trims the payload would do: the attacker's forwarded target lands on the victim's tunnel
example : (decodeTargetReadyTrimmed (encodeTargetReady " vt-1".toList "node-B".toList)).map (·.1) = some "vt-1".toList := by
  decide
example : holdsTwoNode ⟨true, true⟩ = false ∧ holdsTwoNode ⟨false, false⟩ = true := by decide

/-! ## T2: the order of effectful steps in the source is the one the model assumes -/

/-- `handleTunnelOpen`: control-connection lookup and `HandleTunnelOpen` come BEFORE the bridge lookup, the
routing lookup and every attach path; both lookups are followed by the mapping comparison. -/
theorem skel_handleTunnelOpen : Skel.handleTunnelOpen =
    ["json.Unmarshal", "sendTunnelOpenResponseDirect", "findOrCreateControlConnection",
     "tunnelHandler.HandleTunnelOpen", "sendTunnelOpenResponseDirect", "bridgeLock.Lock", "bridge.GetMappingID",
     "rejectTunnelOfOtherMapping", "handleExistingBridge", "tunnelRouting.LookupWaitingTunnel",
     "rejectTunnelOfOtherMapping", "handleCrossNodeTargetConnection", "sendTunnelOpenResponseDirect",
     "isSourceClient", "handleSourceBridge", "handleTargetBridge"] := by decide

theorem skel_HandleTunnelOpen : Skel.ServerTunnelHandler_HandleTunnelOpen =
    ["resumeTunnel", "connCodeService.ValidateMapping", "connCodeService.RecordMappingUsage",
     "cloudControl.GetPortMapping", "portMapping.IsValid", "validateWithSecretKey"] := by decide

theorem skel_resumeTunnel : Skel.ServerTunnelHandler_resumeTunnel =
    ["sessionMgr.ValidateTunnelResumeToken", "connCodeService.ValidateMapping"] := by decide

theorem skel_ValidateMapping : Skel.conncode_ValidateMapping =
    ["portMappingService.GetPortMapping", "mapping.CanBeAccessedBy"] := by decide

theorem skel_handleExistingBridge : Skel.handleExistingBridge =
    ["sendTunnelOpenResponseDirect", "cloudControl.GetPortMapping", "bridge.SetSourceConnection",
     "bridge.SetTargetConnection"] := by decide

theorem skel_handleTargetBridge : Skel.handleTargetBridge =
    ["bridgeLock.RLock", "handleCrossNodeTargetConnectionAcked", "bridge.GetMappingID", "bridge.SetTargetConnection"] := by
  decide

theorem skel_crossNode : Skel.handleCrossNodeTargetConnection = ["lookupTunnelRouting", "processCrossNodeForward"] ∧
    Skel.processCrossNodeForward = ["handleLocalBridgeWait", "forwardToSourceNode"] ∧
    Skel.forwardToSourceNode = ["sendTunnelOpenResponseDirect", "tunnelConnMgr.CreateDedicatedConnection",
      "crossNodePool.Get", "WriteFrame", "runCrossNodeDataForwardDedicated"] := by decide

theorem skel_isSourceClient : Skel.isSourceClient =
    ["cloudControl.GetPortMapping", "extractClientID", "clientConn.IsAuthenticated", "clientConn.GetClientID"] := by
  decide

/-- `identWF`: the auth handlers set a client id only together with the authenticated flag, and the
challenge phase 1 sets neither. -/
theorem skel_auth : Skel.auth_handleFirstConnection = ["conn.SetClientID", "conn.SetAuthenticated"] ∧
    Skel.auth_handleChallengePhase1 = [] ∧
    Skel.auth_handleChallengePhase2 = ["secretKeyMgr.VerifyResponse", "conn.SetClientID", "conn.SetAuthenticated"] := by
  decide

/-! ## The defect found on the unchanged tree, as theorems about the as-found dispatcher -/

def wWitness : World :=
  { mappings := [⟨"M", 11, 22, "s3cretM", "active", false, none⟩], now := 1000, nodeID := "node-A" }
def nobody : ConnIdent := ⟨false, 0, false, false, 0⟩
def emptyReq : Req := ⟨true, "", "verif-tunnel-01", "", ""⟩

/-- As found: a connection that never sent a handshake and presents nothing is attached as target of a waiting
bridge and acknowledged with success. -/
theorem asFound_witness_bridge :
    holds wWitness nobody emptyReq (.bridge "M" false)
      ((openTunnelAsFound wWitness nobody emptyReq (.bridge "M" false)).obs emptyReq (.bridge "M" false)) = false := by decide

/-- As found: the same connection is piped to the node holding the bridge. -/
theorem asFound_witness_remote :
    holds wWitness nobody emptyReq (.remote "M" "node-B")
      ((openTunnelAsFound wWitness nobody emptyReq (.remote "M" "node-B")).obs emptyReq (.remote "M" "node-B")) = false := by decide

/-! ## Non-vacuity: the hypotheses are inhabited and the dispatcher does attach entitled connections -/

def listenClient : ConnIdent := ⟨true, 11, true, false, 0⟩
def targetClient : ConnIdent := ⟨true, 22, true, false, 0⟩
def midReq : Req := ⟨true, "M", "verif-tunnel-01", "", ""⟩
def secretReq : Req := ⟨true, "M", "verif-tunnel-01", "s3cretM", ""⟩

example : identWF listenClient = true ∧ identWF nobody = true := by decide
example : openTunnel wWitness listenClient midReq .none = ⟨.ok, .source, .switch⟩ := by decide
example : openTunnel wWitness targetClient secretReq (.bridge "M" false) = ⟨.ok, .target, .switch⟩ := by decide
example : openTunnel wWitness targetClient secretReq (.remote "M" "node-B") = ⟨.ok, .forward "node-B", .switch⟩ := by decide
example : entitledB wWitness targetClient secretReq (.bridge "M" false) = true := by decide
example : openTunnel wWitness targetClient midReq (.bridge "M" false) = refuse := by decide
example : openTunnel wWitness nobody emptyReq (.bridge "M" false) = refuse := by decide
example : entitledB wWitness targetClient midReq (.bridge "M" false) = false := by decide

/-! ### tunnel state changing during the request -/

def wTwo : World :=
  { mappings := [⟨"M", 11, 22, "s3cretM", "active", false, none⟩, ⟨"F", 33, 34, "s3cretF", "active", false, none⟩],
    now := 1000, nodeID := "node-A" }
def targetOfF : ConnIdent := ⟨true, 34, true, false, 0⟩
def secretReqF : Req := ⟨true, "F", "verif-tunnel-01", "s3cretF", ""⟩

-- the rightful target, polling, joins the bridge of ITS mapping when the listen client opens it
example : openTunnelDyn wTwo targetClient secretReq .none (.route "M" "node-A" true) = ⟨.ok, .target, .switch⟩ := by decide
-- and is piped to the other node when the tunnel is opened there
example : (openTunnelDyn wTwo targetClient secretReq .none (.route "M" "node-B" false)).attach = .forward "node-B" := by decide
-- F's target, acknowledged for F at arrival, is NOT attached to M's bridge that appears under the same tunnel id
example : openTunnelDyn wTwo targetOfF secretReqF .none (.route "M" "node-A" true) = ⟨.ok, .none, .err⟩ := by decide
example : openTunnelDyn wTwo targetOfF secretReqF .none (.route "M" "node-B" false) = ⟨.ok, .none, .err⟩ := by decide
-- what `holdsDyn` rejects: F's target as target of M's late bridge, reading M's bytes (the observation made on a
-- tree where `processCrossNodeForward` takes the local-bridge shortcut before comparing the mappings)
example : holdsDyn wTwo targetOfF secretReqF .none (.route "M" "node-A" true) ⟨.ok, .target, true, 1, "M"⟩ = false := by decide
example : holdsDyn wTwo targetOfF secretReqF .none (.route "M" "node-A" true) ⟨.ok, .none, false, 1, ""⟩ = true := by decide

-- a bridge registered in the window between the dispatcher's look-up and handleTargetBridge's look-up
example : openTunnelDyn wTwo targetClient secretReq .none (.window "M") = ⟨.ok, .target, .switch⟩ := by decide
example : openTunnelDyn wTwo targetOfF secretReqF .none (.window "M") = ⟨.ok, .none, .err⟩ := by decide
example : openTunnelDyn wTwo listenClient midReq .none (.window "F") = ⟨.ok, .none, .err⟩ := by decide
example : holdsDyn wTwo targetOfF secretReqF .none (.window "M") ⟨.ok, .target, true, 1, "M"⟩ = false := by decide

/-! ### identity asserted by the transport, configuration, fault points -/

def vouchedTarget : ConnIdent := ⟨false, 0, false, true, 22⟩      -- no handshake; the transport vouches for client 22
def claimedTarget : ConnIdent := ⟨false, 0, false, false, 22⟩     -- the transport names client 22 but does not vouch
def vouchedListen : ConnIdent := ⟨false, 0, false, true, 11⟩

example : identWF vouchedTarget = true ∧ provenClient vouchedTarget = 22 ∧ provenClient claimedTarget = 0 := by decide
-- a vouching transport is as good as a handshake; a mere claim is refused
example : openTunnel wTwo vouchedTarget secretReq (.bridge "M" false) = ⟨.ok, .target, .switch⟩ := by decide
example : openTunnel wTwo claimedTarget secretReq (.bridge "M" false) = refuse := by decide
-- the asserted id decides the side on an existing bridge: the listen client re-attaches as SOURCE
example : openTunnel wTwo vouchedListen midReq (.bridge "M" true) = ⟨.ok, .source, .switch⟩ := by decide
example : openTunnel wTwo vouchedListen secretReqF (.bridge "M" true) = refuse := by decide
-- no routing table on this node: the target side fails at once, nothing attached
example : openTunnelDyn wTwo targetClient secretReq .none .noRouting = ⟨.ok, .none, .err⟩ := by decide
example : openTunnelDyn wTwo listenClient midReq .none .noRouting = ⟨.ok, .source, .switch⟩ := by decide
-- the node holding the bridge cannot be reached: acknowledged, then nothing
example : openTunnel { wTwo with unreachable := ["node-B"] } targetClient secretReq (.remote "M" "node-B") = ⟨.ok, .none, .err⟩ := by
  decide

/-! ### a mapping the server itself listens on (listen client 0) -/

def wZero : World :=
  { mappings := [⟨"Z", 0, 22, "s3cretZ", "active", false, none⟩], now := 1000, nodeID := "node-A" }
def halfOpen : ConnIdent := ⟨true, 0, false, false, 0⟩     -- handshake refused: a record with client id 0
def zidReq : Req := ⟨true, "Z", "verif-tunnel-01", "", ""⟩
def zsecReq : Req := ⟨true, "Z", "verif-tunnel-01", "s3cretZ", ""⟩

-- the translated predicate does say yes to client 0 here …
example : Gen.models.PortMapping.CanBeAccessedBy 1000 ⟨"Z", 0, 22, "s3cretZ", "active", false, none⟩ 0 = true := by decide
-- … the dispatcher does not
example : openTunnel wZero halfOpen zidReq .none = refuse := by decide
example : openTunnel wZero halfOpen zidReq (.bridge "Z" false) = refuse := by decide
example : openTunnel wZero nobody zidReq .none = refuse := by decide
-- what `holds` rejects: the observation made when the client-id guard is skipped on the mapping-id path
example : holds wZero halfOpen zidReq .none ⟨.ok, .source, false, 1, "Z"⟩ = false := by decide
-- the target client with the secret is still served
example : openTunnel wZero targetClient zsecReq (.remote "Z" "node-B") = ⟨.ok, .forward "node-B", .switch⟩ := by decide

/-! ### one acknowledgement per TunnelOpen -/

-- the rightful target forwarded from the polling path: what `holdsDyn` rejects is the observation made before the
-- repair (a second TunnelOpenAck from forwardToSourceNode, delivered to a client already in stream mode) …
example : holdsDyn wTwo targetClient secretReq .none (.route "M" "node-B" false) ⟨.ok, .forward "node-B", true, 2, ""⟩ = false := by
  decide
-- … and what it accepts is what the model (and the repaired code) does
example : holdsDyn wTwo targetClient secretReq .none (.route "M" "node-B" false) ⟨.ok, .forward "node-B", true, 1, ""⟩ = true := by
  decide
example : openTunnelDyn wTwo targetClient secretReq .none (.route "M" "node-B" false) = ⟨.ok, .forward "node-B", .switch⟩ := by
  decide
-- the bridge registered between the dispatcher's bridge look-up and its route look-up: acknowledged, then attached;
-- attached without any acknowledgement (handleLocalBridgeWait before the repair) is rejected
example : openTunnelDyn wTwo targetClient secretReq .none (.early "M") = ⟨.ok, .target, .switch⟩ := by decide
example : openTunnelDyn wTwo targetOfF secretReqF .none (.early "M") = refuse := by decide
example : holdsDyn wTwo targetClient secretReq .none (.early "M") ⟨.none, .target, true, 0, "M"⟩ = false := by decide
-- a listen client arriving in that window is attached as TARGET of the other request's bridge (the route branch does
-- not look at the role)
example : openTunnelDyn wTwo listenClient midReq .none (.early "M") = ⟨.ok, .target, .switch⟩ := by decide

/-! ### the bridge that holds the connection decides which tunnel it is on -/

-- the listen client of M whose source open meets a bridge registered in the window (startSourceBridge's
-- insert-if-absent) is not attached: "tunnel already exists"
example : openTunnelDyn wTwo listenClient midReq .none (.window "F") = ⟨.ok, .none, .err⟩ := by decide
-- what `holdsDyn` rejects: M's listen client held as SOURCE by the bridge of mapping F (a duplicate source open
-- re-attached to the existing bridge without comparing the mappings) …
example : holdsDyn wTwo listenClient midReq .none (.window "F") ⟨.ok, .source, false, 1, "F"⟩ = false := by decide
-- … while being the source of its own new bridge is fine
example : holdsDyn wTwo listenClient midReq .none .none ⟨.ok, .source, false, 1, "M"⟩ = true := by decide
-- a served bridge keeps its target: the rightful target's duplicate open is acknowledged, not attached
example : openTunnel wTwo targetClient secretReq (.bridge "M" true) = ⟨.ok, .none, .switch⟩ := by decide
example : openTunnel wTwo targetClient secretReq (.bridge "M" false) = ⟨.ok, .target, .switch⟩ := by decide

/-! ### expiry is a strict comparison with the clock -/

def wExp (t : Nat) : World :=
  { mappings := [⟨"M", 11, 22, "s3cretM", "active", false, some t⟩], now := 1000, nodeID := "node-A" }

-- expired one second ago: refused on both credential paths, in every tunnel state; what `holds` rejects is the
-- observation made with a grace period in IsExpired
example : openTunnel (wExp 999) listenClient midReq .none = refuse := by decide
example : openTunnel (wExp 999) targetClient secretReq (.bridge "M" false) = refuse := by decide
example : openTunnel (wExp 971) targetClient secretReq (.remote "M" "node-B") = refuse := by decide
example : holds (wExp 999) targetClient secretReq (.bridge "M" false) ⟨.ok, .target, true, 1, "M"⟩ = false := by decide
-- expiring at this very moment or later: still served
example : openTunnel (wExp 1000) listenClient midReq .none = ⟨.ok, .source, .switch⟩ := by decide
example : openTunnel (wExp 1002) targetClient secretReq (.bridge "M" false) = ⟨.ok, .target, .switch⟩ := by decide

end Tunnox.C04
