import TunnoxModel.Spec.C20
import TunnoxModel.Proofs.C20
/-!
# C20 — SOCKS5 requests and UDP headers are parsed exactly as RFC 1928 defines

Property theorems only (helper lemmas live in `Proofs/C20.lean`).
-/
namespace Tunnox.C20
open Gen

/-- **Listener, every byte string, every chunking.**  Whatever bytes the application sends and
however the transport cuts them (and whether the stream then ends in EOF or an error),
`Listener.Handshake` returns exactly the command, address text and port RFC 1928 assigns to the
stream, having written only the method selection and consumed exactly the negotiation; or it fails,
having written the reply the RFC prescribes for that malformation (`05 FF`, `REP=07`, `REP=08`, a
failure reply or nothing) and without consuming more than the offending message part.  Truncation at
any offset is a failure (the parser is total: this is a statement about every list of chunks). -/
theorem C20_listener (c : IPText) (chunks : List Bytes) (tail : Tail) :
    holdsHs c chunks.flatten
      (hsObs chunks.flatten (handshake c ⟨chunks, tail⟩).1 (handshake c ⟨chunks, tail⟩).2.flat.length) = true := by
  have h := P.runSrc_flat (handshakeP c) ⟨chunks, tail⟩
  unfold handshake
  rw [h.1, h.2]
  exact handshake_flat_holds c chunks.flatten

end Tunnox.C20
