import TunnoxModel.Spec.C20
namespace Tunnox.C20
open Gen

theorem C20_skel_listener : Skel.Listener_Handshake =
    ["io.ReadFull", "io.ReadFull", "conn.Write", "io.ReadFull", "l.SendError", "l.SendError", "io.ReadFull",
     "io.ReadFull", "io.ReadFull", "io.ReadFull", "l.SendError", "io.ReadFull"] := by decide

end Tunnox.C20
