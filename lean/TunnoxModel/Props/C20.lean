import TunnoxModel.Spec.C20
import TunnoxModel.Proofs.C20
/-!
# C20 — SOCKS5 requests and UDP headers are parsed exactly as RFC 1928 defines

Property theorems only (helper lemmas live in `Proofs/C20.lean`).  The statements are about the
executable models the driver runs (`handshake`, `adNegotiate`, `udpObs`, `buildObs`) and use the
same predicates (`holdsHs`, `holdsAd`, `holdsUdp`, `holdsBuild`) the driver applies to the
implementation's observations.
-/
-- one simp set serves several match arms; unused members in one arm are expected
set_option linter.unusedSimpArgs false

namespace Tunnox.C20
open Gen

/-! ### Tie to the source: constants, order of reads/writes, literal sizes and offsets -/

/-- The Go constants of both packages are the numbers printed in RFC 1928 / RFC 1929. -/
theorem C20_constants :
    socks5.Version = 5 ∧ socks5.AuthNone = 0 ∧ socks5.AuthNoMatch = 255 ∧ socks5.CmdConnect = 1 ∧
    socks5.CmdBind = 2 ∧ socks5.CmdUDPAssoc = 3 ∧ socks5.AddrIPv4 = 1 ∧ socks5.AddrDomain = 3 ∧
    socks5.AddrIPv6 = 4 ∧ socks5.RepSuccess = 0 ∧ socks5.RepFailure = 1 ∧ socks5.RepCmdNotSupp = 7 ∧
    socks5.RepAddrNotSupp = 8 ∧
    adapter.socks5Version = 5 ∧ adapter.socksAuthNone = 0 ∧ adapter.socksAuthPassword = 2 ∧
    adapter.socksAuthNoMatch = 255 ∧ adapter.socksCmdConnect = 1 ∧ adapter.socksCmdBind = 2 ∧
    adapter.socksCmdUDPAssociate = 3 ∧ adapter.socksAddrTypeIPv4 = 1 ∧ adapter.socksAddrTypeDomain = 3 ∧
    adapter.socksAddrTypeIPv6 = 4 ∧ adapter.socksRepSuccess = 0 ∧ adapter.socksRepServerFailure = 1 ∧
    adapter.socksRepCommandNotSupported = 7 ∧ adapter.socksRepAddrTypeNotSupported = 8 := by decide

/-- `Listener.Handshake`: the reads, the single write and the error replies in source order, and
every integer literal of the body (buffer sizes 2, 4, 4, 1, 16, 2; indices). -/
theorem C20_skel_listener :
    Skel.Listener_Handshake =
      ["io.ReadFull", "io.ReadFull", "conn.Write", "io.ReadFull", "l.SendError", "l.SendError", "io.ReadFull",
       "io.ReadFull", "io.ReadFull", "io.ReadFull", "l.SendError", "io.ReadFull"] ∧
    Skel.Listener_Handshake_lits = [2, 0, 0, 1, 0, 4, 0, 0, 1, 3, 4, 1, 0, 16, 2] ∧
    Skel.Listener_SendError = ["conn.Write"] ∧
    Skel.Listener_SendError_lits = [0, 0, 0, 0, 0, 0, 0] := by decide

/-- The adapter: every read is an `io.ReadFull` (no `ReadAtLeast`, no bare `Read`), in this order. -/
theorem C20_skel_adapter :
    Skel.SocksAdapter_handleSocksConnection = ["s.handleHandshake", "s.handleRequest"] ∧
    Skel.SocksAdapter_handleHandshake = ["io.ReadFull", "io.ReadFull", "conn.Write", "s.handlePasswordAuth"] ∧
    Skel.SocksAdapter_handleHandshake_lits = [2, 0, 1] ∧
    Skel.SocksAdapter_handlePasswordAuth =
      ["io.ReadFull", "io.ReadFull", "io.ReadFull", "io.ReadFull", "conn.Write"] ∧
    Skel.SocksAdapter_handlePasswordAuth_lits = [2, 0, 1, 1, 1, 0, 0, 1, 1] ∧
    Skel.SocksAdapter_handleRequest =
      ["io.ReadFull", "s.sendReply", "io.ReadFull", "io.ReadFull", "io.ReadFull", "io.ReadFull", "s.sendReply",
       "io.ReadFull"] ∧
    Skel.SocksAdapter_handleRequest_lits = [4, 0, 1, 3, 0, 4, 1, 0, 16, 0, 2] ∧
    Skel.SocksAdapter_sendReply =
      ["net.ParseIP", "ip.To4", "ip.To16", "binary.BigEndian.PutUint16", "conn.Write"] ∧
    Skel.SocksAdapter_sendReply_lits = [0, 22, 0, 2] := by decide

/-- `parseUDPHeader` / `buildUDPHeader`: the length bounds and offsets are literals in the source. -/
theorem C20_skel_udp :
    Skel.UDPRelay_parseUDPHeader =
      ["len", "len", "net.IP", "len", "len", "len", "net.IP", "binary.BigEndian.Uint16"] ∧
    Skel.UDPRelay_parseUDPHeader_lits =
      [4, 0, 2, 0, 0, 2, 3, 10, 0, 4, 8, 10, 5, 0, 4, 5, 2, 0, 5, 5, 5, 2, 22, 0, 4, 20, 22, 0, 2] ∧
    Skel.UDPRelay_buildUDPHeader =
      ["net.ParseIP", "ip.To4", "copy", "binary.BigEndian.PutUint16", "copy", "ip.To16", "copy",
       "binary.BigEndian.PutUint16", "copy", "copy", "binary.BigEndian.PutUint16", "copy"] ∧
    Skel.UDPRelay_buildUDPHeader_lits =
      [10, 0, 0, 1, 0, 2, 0, 3, 4, 8, 8, 10, 10, 22, 0, 0, 1, 0, 2, 0, 3, 4, 20, 20, 22, 22, 5, 2, 0, 0, 1, 0,
       2, 0, 3, 4, 5, 5, 5, 5, 2] := by decide

/-! ### TCP negotiation -/

/-- **Listener, every byte string, every chunking.**  Whatever bytes the application sends and
however the transport cuts them (and whether the stream then ends in EOF or an error),
`Listener.Handshake` returns exactly the command, address text and port RFC 1928 assigns to the
stream, having written only the method selection and consumed exactly the negotiation; or it fails,
having written the reply the RFC prescribes for that malformation (`05 FF`, `REP=07`, `REP=08`, a
failure reply or nothing) and without consuming more than the offending message part.  Truncation at
any offset is a failure; the model is a total function, so there is no panic and no read past the
end for any input. -/
theorem C20_listener (c : IPText) (chunks : List Bytes) (tail : Tail) :
    holdsHs c chunks.flatten
      (hsObs chunks.flatten (handshake c ⟨chunks, tail⟩).1 (handshake c ⟨chunks, tail⟩).2.flat.length) = true := by
  have h := P.runSrc_flat (handshakeP c) ⟨chunks, tail⟩
  unfold handshake
  rw [h.1, h.2]
  exact handshake_flat_holds c chunks.flatten

/-- **Adapter, every byte string, every chunking, with and without user/password authentication**
(RFC 1929 sub-negotiation between greeting and request): same statement for
`SocksAdapter.handleHandshake` followed by `handleRequest`; CONNECT is the only command served. -/
theorem C20_adapter (c : IPText) (cfg : AdCfg) (chunks : List Bytes) (tail : Tail) :
    holdsAd c cfg chunks.flatten
      (adObs chunks.flatten (adNegotiate c cfg ⟨chunks, tail⟩).1
        (adNegotiate c cfg ⟨chunks, tail⟩).2.flat.length) = true := by
  have h := P.runSrc_flat (adHandshakeP c cfg) ⟨chunks, tail⟩
  unfold adNegotiate
  rw [h.1, h.2]
  exact adHandshake_flat_holds c cfg chunks.flatten

/-- **Chunk independence**: result, bytes written and bytes left unread depend only on the
concatenation of the chunks (also when the two streams end differently). -/
theorem C20_chunk_indep (c : IPText) (cfg : AdCfg) (s₁ s₂ : Src) (hflat : s₁.flat = s₂.flat) :
    (handshake c s₁).1 = (handshake c s₂).1 ∧ (handshake c s₁).2.flat = (handshake c s₂).2.flat ∧
    (adNegotiate c cfg s₁).1 = (adNegotiate c cfg s₂).1 ∧
    (adNegotiate c cfg s₁).2.flat = (adNegotiate c cfg s₂).2.flat := by
  have a₁ := P.runSrc_flat (handshakeP c) s₁
  have a₂ := P.runSrc_flat (handshakeP c) s₂
  have b₁ := P.runSrc_flat (adHandshakeP c cfg) s₁
  have b₂ := P.runSrc_flat (adHandshakeP c cfg) s₂
  unfold handshake adNegotiate
  rw [a₁.1, a₁.2, a₂.1, a₂.2, b₁.1, b₁.2, b₂.1, b₂.2, hflat]
  exact ⟨rfl, rfl, rfl, rfl⟩

/-- **The reference reading inverts the grammar** (so `holds…` really speaks about RFC messages):
a greeting offering the server's method, followed by any well-formed request for a served command
and by arbitrary further bytes, is read as that request, ending exactly at the request's end. -/
theorem C20_reference_request (pf : Profile) (hpf : pf.creds = none) (methods : Bytes)
    (hm1 : 0 < methods.length) (hm2 : methods.length ≤ 255) (hm : methods.contains (u8 pf.method) = true)
    (r : Request) (hwf : r.WF = true) (hc : pf.cmds.contains r.cmd = true) (rest : Bytes) :
    decodeNeg pf (encGreeting methods ++ (r.enc ++ rest)) =
      .accept r.cmd r.addr r.port ((encGreeting methods).length + r.enc.length) [5, u8 pf.method] :=
  decodeNeg_enc pf hpf methods hm1 hm2 hm r hwf hc rest

/-- Same with the RFC 1929 user/password message in between. -/
theorem C20_reference_request_auth (pf : Profile) (user pass : Text) (hpf : pf.creds = some (user, pass))
    (hu : user.length ≤ 255) (hp : pass.length ≤ 255) (methods : Bytes) (hm1 : 0 < methods.length)
    (hm2 : methods.length ≤ 255) (hm : methods.contains (u8 pf.method) = true) (r : Request)
    (hwf : r.WF = true) (hc : pf.cmds.contains r.cmd = true) (rest : Bytes) :
    decodeNeg pf (encGreeting methods ++ (encAuth user pass ++ (r.enc ++ rest))) =
      .accept r.cmd r.addr r.port ((encGreeting methods).length + (encAuth user pass).length + r.enc.length)
        [5, u8 pf.method, 1, 0] :=
  decodeNeg_enc_auth pf user pass hpf hu hp methods hm1 hm2 hm r hwf hc rest

/-- **The reference accepts only sentences of the grammar** (no-authentication profiles): whatever
it accepts is a greeting offering the server's method followed by the encoding of exactly the
request it is read as; `used` is the length of the two messages. -/
theorem C20_reference_complete (pf : Profile) (hpf : pf.creds = none) (bs : Bytes) (cmd : Nat)
    (a : Addr) (port used : Nat) (pre : Bytes) (h : decodeNeg pf bs = .accept cmd a port used pre) :
    ∃ (methods : Bytes) (rsv : Byte) (rest : Bytes),
      bs = encGreeting methods ++ ((⟨cmd, rsv, a, port⟩ : Request).enc ++ rest) ∧
      0 < methods.length ∧ methods.length ≤ 255 ∧ methods.contains (u8 pf.method) = true ∧
      (⟨cmd, rsv, a, port⟩ : Request).WF = true ∧ pf.cmds.contains cmd = true ∧
      used = (encGreeting methods).length + (⟨cmd, rsv, a, port⟩ : Request).enc.length ∧
      pre = [5, u8 pf.method] :=
  decodeNeg_accept pf hpf bs cmd a port used pre h

/-- **Same for the user/password profile (RFC 1929)**: whatever the reference accepts is a greeting
offering the method, the RFC 1929 message carrying exactly the configured user name and password
(each at most 255 octets), and the encoding of exactly the request it is read as; the replies owed
are the method selection and the success status `01 00`. -/
theorem C20_reference_complete_auth (pf : Profile) (user pass : Text) (hpf : pf.creds = some (user, pass))
    (bs : Bytes) (cmd : Nat) (a : Addr) (port used : Nat) (pre : Bytes)
    (h : decodeNeg pf bs = .accept cmd a port used pre) :
    ∃ (methods : Bytes) (rsv : Byte) (rest : Bytes),
      bs = encGreeting methods ++ (encAuth user pass ++ ((⟨cmd, rsv, a, port⟩ : Request).enc ++ rest)) ∧
      0 < methods.length ∧ methods.length ≤ 255 ∧ methods.contains (u8 pf.method) = true ∧
      user.length ≤ 255 ∧ pass.length ≤ 255 ∧
      (⟨cmd, rsv, a, port⟩ : Request).WF = true ∧ pf.cmds.contains cmd = true ∧
      used = (encGreeting methods).length + (encAuth user pass).length +
        (⟨cmd, rsv, a, port⟩ : Request).enc.length ∧
      pre = [5, u8 pf.method, 1, 0] :=
  decodeNeg_accept_auth pf user pass hpf bs cmd a port used pre h

/-- **Round trip, listener** (`parseReq (encodeReq r) = r` in any chunking, consuming exactly the
message): every method list containing "no authentication", every command CONNECT / UDP ASSOCIATE,
every IPv4, IPv6 or domain address (length 0..255), every port, any RSV octet, any following bytes. -/
theorem C20_listener_roundtrip (c : IPText) (methods : Bytes) (hm1 : 0 < methods.length)
    (hm2 : methods.length ≤ 255) (hm : methods.contains 0 = true) (r : Request) (hwf : r.WF = true)
    (hc : r.cmd = 1 ∨ r.cmd = 3) (rest : Bytes) (chunks : List Bytes) (tail : Tail)
    (hflat : chunks.flatten = encGreeting methods ++ (r.enc ++ rest)) :
    (handshake c ⟨chunks, tail⟩).1 = ⟨.ok ⟨r.cmd, hostText c r.addr, r.port⟩, [5, 0]⟩ ∧
    (handshake c ⟨chunks, tail⟩).2.flat.length = rest.length := by
  have h := C20_listener c chunks tail
  have hcmd : listenerProfile.cmds.contains r.cmd = true := by
    rcases hc with h1 | h3
    · simp [listenerProfile, h1]
    · simp [listenerProfile, h3]
  have hdec := decodeNeg_enc listenerProfile rfl methods hm1 hm2 (by simpa [listenerProfile, u8] using hm) r hwf
    hcmd rest
  have hleft : (handshake c ⟨chunks, tail⟩).2.flat.length ≤ chunks.flatten.length := by
    have hf := (P.runSrc_flat (handshakeP c) ⟨chunks, tail⟩).2
    unfold handshake
    rw [hf]
    exact runFlat_length_le _ _
  rw [hflat] at h hleft
  simp only [holdsHs, holdsNeg, hdec] at h
  simp only [agrees, hsObs, hsExpect, listenerProfile, Bool.and_eq_true, decide_eq_true_eq, beq_iff_eq] at h
  obtain ⟨⟨h1, h2⟩, h3⟩ := h
  generalize handshake c ⟨chunks, tail⟩ = res at *
  obtain ⟨⟨out, written⟩, src⟩ := res
  simp only at h1 h2 h3 hleft ⊢
  cases out with
  | fail e => simp [HsOut.res] at h1
  | ok r' =>
    simp only [HsOut.res, Option.some.injEq] at h1
    have h1 := of_decide_eq_true h1
    subst h1 h2
    refine ⟨by simp [u8], ?_⟩
    simp only [List.length_append] at h3 hleft ⊢
    omega

/-- **Round trip, adapter without authentication** (CONNECT only): the returned dial target is the
address text, a colon and the decimal port. -/
theorem C20_adapter_roundtrip (c : IPText) (cfg : AdCfg) (hcfg : cfg.auth = false) (methods : Bytes)
    (hm1 : 0 < methods.length) (hm2 : methods.length ≤ 255) (hm : methods.contains 0 = true)
    (r : Request) (hwf : r.WF = true) (hc : r.cmd = 1) (rest : Bytes) (chunks : List Bytes) (tail : Tail)
    (hflat : chunks.flatten = encGreeting methods ++ (r.enc ++ rest)) :
    (adNegotiate c cfg ⟨chunks, tail⟩).1 = ⟨.ok (hostText c r.addr ++ [58] ++ decText r.port), [5, 0]⟩ ∧
    (adNegotiate c cfg ⟨chunks, tail⟩).2.flat.length = rest.length := by
  have h := C20_adapter c cfg chunks tail
  have hpf : adapterProfile cfg = ⟨0, none, [1]⟩ := by simp [adapterProfile, hcfg]
  have hdec := decodeNeg_enc ⟨0, none, [1]⟩ rfl methods hm1 hm2 (by simpa [u8] using hm) r hwf
    (by simp [hc]) rest
  have hleft : (adNegotiate c cfg ⟨chunks, tail⟩).2.flat.length ≤ chunks.flatten.length := by
    have hf := (P.runSrc_flat (adHandshakeP c cfg) ⟨chunks, tail⟩).2
    unfold adNegotiate
    rw [hf]
    exact runFlat_length_le _ _
  rw [hflat] at h hleft
  simp only [holdsAd, holdsNeg, hpf, hdec] at h
  simp only [agrees, adObs, adExpect, Bool.and_eq_true, decide_eq_true_eq, beq_iff_eq] at h
  obtain ⟨⟨h1, h2⟩, h3⟩ := h
  generalize adNegotiate c cfg ⟨chunks, tail⟩ = res at *
  obtain ⟨⟨out, written⟩, src⟩ := res
  simp only at h1 h2 h3 hleft ⊢
  cases out with
  | fail e => simp [AdOut.res] at h1
  | ok t =>
    simp only [AdOut.res, Option.some.injEq] at h1
    have h1 := of_decide_eq_true h1
    subst h1 h2
    refine ⟨by simp [u8], ?_⟩
    simp only [List.length_append] at h3 hleft ⊢
    omega

/-! ### UDP-associate datagram header -/

/-- **Every datagram**: `parseUDPHeader` returns the destination text, port and payload the RFC
assigns (payload intact: it is exactly the rest of the datagram), or an error exactly when the RFC
gives the datagram no reading (too short for its address type at any truncation point, FRAG ≠ 0,
unknown ATYP).  Total: no panic or out-of-range access for any byte string. -/
theorem C20_udp_parse (c : IPText) (data : Bytes) : (parseUDPHeader c data).res = udpExpect c data :=
  parseUDP_spec c data

/-- `parseUDP (encodeUDP d p) = (d, p)` for every well-formed datagram of the grammar. -/
theorem C20_udp_encode_parse (c : IPText) (d : Datagram) (hwf : d.WF = true) :
    parseUDPHeader c d.enc = .ok ⟨hostText c d.addr, d.port, d.payload⟩ := by
  have h := parseUDP_spec c d.enc
  simp only [udpExpect, decodeUDP_enc d hwf] at h
  cases hp : parseUDPHeader c d.enc with
  | fail e => simp [hp, UOut.res] at h
  | ok x => simpa [hp, UOut.res] using h

/-- The reference accepts only sentences of the grammar: an accepted datagram *is* the encoding of
the destination, port and payload it is read as. -/
theorem C20_udp_reference_complete (bs : Bytes) (a : Addr) (port : Nat) (payload : Bytes)
    (h : decodeUDP bs = .accept a port payload) :
    a.WF = true ∧ port < 65536 ∧ ∃ r1 r2, bs = (⟨r1, r2, a, port, payload⟩ : Datagram).enc :=
  decodeUDP_accept bs a port payload h

/-- **Parse, re-encode, parse again** (main round trip): for every datagram, if it parses, then
`buildUDPHeader` of the result is again an RFC datagram and parses to the same destination (same
text, or IP literals of the same address), the same port and the same payload. -/
theorem C20_udp_roundtrip (c : IPText) (hrt : c.RT) (data : Bytes) :
    holdsUdp c data (udpObs c data) = true :=
  udp_holds c hrt data

/-- `parseUDP (buildUDP d p) = (d, p)` for every host text that fits the length octet, every 16-bit
port and every payload. -/
theorem C20_udp_build_parse (c : IPText) (hrt : c.RT) (host : Text) (port : Nat) (payload : Bytes) :
    holdsBuild c host port payload (buildObs c host port payload) = true :=
  build_holds c hrt host port payload

/-! ### Non-vacuity -/

/-- A toy `net` package with a real round trip: text = the address bytes themselves. -/
def toyIP : IPText where
  str4 b := b
  str16 b := b
  parse h := if h.length = 4 then some h else if h.length = 16 ∧ isV4Mapped h = false then some h else none

example : toyIP.RT where
  parse4 b hb := by simp [toyIP, hb]
  parse16 b hb hm := by simp [toyIP, hb, hm]
  shape h b hp := by
    simp only [toyIP] at hp
    by_cases h4 : h.length = 4
    · simp [h4] at hp; subst hp; exact Or.inl h4
    · by_cases h16 : h.length = 16 ∧ isV4Mapped h = false
      · simp [h4, h16] at hp; subst hp; exact Or.inr h16
      · simp [h4, h16] at hp

def sampleReq : Request := ⟨1, 0, .dom [104, 111, 115, 116], 443⟩

example : sampleReq.WF = true := by decide

/-- The model really accepts the sample under a cut inside every field (a test, not the theorem). -/
example :
    handshake toyIP ⟨[[5], [2, 2], [0, 5, 1], [0, 3, 4, 104], [111, 115, 116, 1], [187, 9, 9]], .eof⟩ =
      (⟨.ok ⟨1, [104, 111, 115, 116], 443⟩, [5, 0]⟩, ⟨[[9, 9]], .eof⟩) := by decide

example : holdsHs toyIP [5, 1, 0, 5, 2, 0, 1] (hsObs [5, 1, 0, 5, 2, 0, 1] ⟨.fail .badCmd, [5, 0] ++ sendError 7⟩ 1) = true := by
  decide

/-- …and `holds` is not trivially true: a parser that swallowed one byte too many is rejected. -/
example : holdsHs toyIP [5, 1, 0, 5, 1, 0, 1, 1, 2, 3, 4, 0, 80, 9]
    (hsObs [5, 1, 0, 5, 1, 0, 1, 1, 2, 3, 4, 0, 80, 9] ⟨.ok ⟨1, [1, 2, 3, 4], 80⟩, [5, 0]⟩ 0) = false := by decide

example : (⟨0, 0, .dom [97], 53, [255]⟩ : Datagram).WF = true := by decide

/-- The 9-byte datagram the unrepaired code rejected (finding C20-a). -/
example : parseUDPHeader toyIP [0, 0, 0, 3, 1, 97, 0, 53, 255] = .ok ⟨[97], 53, [255]⟩ := by decide

example : holdsUdp toyIP [0, 0, 0, 3, 1, 97, 0, 53, 255] ⟨.fail .tooShort, none⟩ = false := by decide

/-! ### What the listener does with the parsed request (`handleConnection`) -/

/-- `handleConnection` hands the handshake result on, in this order; the DoT port is the literal 853;
`SendSuccessWithBind` takes `bindAddr.IP.To4()` and writes the port big-endian. -/
theorem C20_skel_connection :
    Skel.Listener_handleConnection =
      ["l.Handshake", "conn.Close", "l.handleConnect", "l.handleUDPAssociate", "l.SendError", "conn.Close"] ∧
    Skel.Listener_handleConnect =
      ["l.SendError", "conn.Close", "l.SendError", "conn.Close", "l.SendSuccess",
       "tunnelCreator.CreateSOCKS5Tunnel", "l.SendError", "conn.Close"] ∧
    Skel.Listener_handleConnect_lits = [853] ∧
    Skel.Listener_handleUDPAssociate =
      ["l.SendError", "conn.Close", "udpRelayCreator.CreateUDPRelay", "l.SendError", "conn.Close",
       "l.SendSuccessWithBind"] ∧
    Skel.Listener_SendSuccess = ["conn.Write"] ∧ Skel.Listener_SendSuccess_lits = [0, 0, 0, 0, 0, 0, 0] ∧
    Skel.Listener_SendSuccessWithBind = ["bindAddr.IP.To4", "conn.Write"] ∧
    Skel.Listener_SendSuccessWithBind_lits = [0, 0, 1, 2, 3, 8, 255] ∧
    socks5.VirtualDNSIP = "10.0.0.1" ∧ socks5.DefaultDNSServer = "119.29.29.29" := by decide

/-- **From the bytes on the wire to the tunnel, every byte string, every chunking, every creator
behaviour.**  A rejected negotiation creates no tunnel or relay and the connection is closed after
the prescribed reply.  An accepted CONNECT reaches the tunnel creator exactly once, with the RFC's
host text and port, this listener's mapping id, target client and secret, and with every byte that
followed the request still unread on the connection (payload intact); the application is then told
success (`REP = 0`) or, if the creator failed, a failure reply and the connection is closed.  (The
listener's own policy refuses `10.0.0.1:853` with a failure reply.)  An accepted UDP ASSOCIATE
creates the relay once and announces its port and IPv4 address; without a relay creator the reply is
"command not supported". -/
theorem C20_connection (c : IPText) (cfg : ConnCfg) (chunks : List Bytes) (tail : Tail) :
    holdsConn c cfg chunks.flatten (handleConnection c cfg ⟨chunks, tail⟩) = true :=
  conn_holds c cfg chunks tail

def sampleCfg : ConnCfg := ⟨[109], 42, [115], true, true, true, true, [127, 0, 0, 1], 4660⟩

/-- Non-vacuity: CONNECT with two bytes of application data pipelined behind the request. -/
example :
    handleConnection toyIP sampleCfg ⟨[[5, 1, 0, 5], [1, 0, 1, 1, 2, 3, 4, 0, 80, 71], [69]], .eof⟩ =
      ⟨[.tunnel [109] 42 [1, 2, 3, 4] 80 [115] [71, 69]], [5, 0, 5, 0, 0, 1, 0, 0, 0, 0, 0, 0], false⟩ := by decide

example :
    handleConnection toyIP sampleCfg ⟨[[5, 1, 0, 5, 3, 0, 1, 0, 0, 0, 0, 0, 0]], .eof⟩ =
      ⟨[.relay [109] 42 [115]], [5, 0, 5, 0, 0, 1, 127, 0, 0, 1, 18, 52], false⟩ := by decide

/-- `holdsConn` rejects a tunnel opened to the right host but with a byte of the payload missing. -/
example :
    holdsConn toyIP sampleCfg [5, 1, 0, 5, 1, 0, 1, 1, 2, 3, 4, 0, 80, 71, 69]
      ⟨[.tunnel [109] 42 [1, 2, 3, 4] 80 [115] [69]], [5, 0, 5, 0, 0, 1, 0, 0, 0, 0, 0, 0], false⟩ = false := by
  decide

/-! ### Datagrams in flight: `UDPRelay.readLoop` and its `handlePacket` goroutines -/

/-- `readLoop` detaches the datagram from its read buffer (`make` + `copy`) *before* the `go`
statement and does not parse; `handlePacket` parses its own copy and sends the payload it parsed. -/
theorem C20_skel_relay :
    Skel.UDPRelay_readLoop = ["make", "udpConn.ReadFromUDP", "make", "copy", "r.handlePacket"] ∧
    Skel.UDPRelay_handlePacket =
      ["r.parseUDPHeader", "r.handleDNSQuery", "r.getOrCreateSession", "tunnel.SendPacket"] := by decide

/-- **Payload intact for every burst and every schedule.**  For every sequence of datagrams sent to
the relay's socket (valid or not, back to back or not) and every interleaving of the reader with the
goroutines it starts — any list of `read` / `run i` steps, the shared buffer being overwritten by
each read — once everything has run, the tunnels have received exactly one packet per datagram
the RFC gives a reading, for that destination, carrying exactly that datagram's payload: nothing
corrupted, duplicated, lost or sent to another destination. -/
theorem C20_relay_intact (c : IPText) (ds : List Bytes) (sch : List RStep)
    (hq : ((Relay.init ds).exec c .copyAtRead sch).quiescent = true) :
    holdsRelay c ds ((Relay.init ds).exec c .copyAtRead sch).sent = true :=
  relay_holds c ds sch hq

/-- …and at every moment of every schedule (complete or not), nothing has reached a tunnel that is
not one of the expected packets (with multiplicity). -/
theorem C20_relay_safe_prefix (c : IPText) (ds : List Bytes) (sch : List RStep) (a : UDest) :
    ((Relay.init ds).exec c .copyAtRead sch).sent.count a ≤ (relayExpect c ds).count a := by
  have h := (Relay.inv_exec c ds sch _ (Relay.inv_init c ds)).2 a
  rw [← h]
  simp only [Relay.pending, List.count_append]
  omega

/-- The schedule quantifier is not idle: in the hazard variant (payload still a slice of the read
buffer when the goroutine starts) the very same datagrams are forwarded intact when each goroutine
runs before the next read, and corrupted when the reader gets ahead — datagram 1 leaves with
datagram 2's bytes. -/
theorem C20_relay_alias_witness :
    holdsRelay toyIP [[0, 0, 0, 1, 10, 1, 2, 3, 0, 80, 1, 1], [0, 0, 0, 1, 10, 1, 2, 4, 0, 81, 2, 2]]
      ((Relay.init [[0, 0, 0, 1, 10, 1, 2, 3, 0, 80, 1, 1], [0, 0, 0, 1, 10, 1, 2, 4, 0, 81, 2, 2]]).exec toyIP
        .aliasUntilRun [.read, .run 0, .read, .run 0]).sent = true ∧
    holdsRelay toyIP [[0, 0, 0, 1, 10, 1, 2, 3, 0, 80, 1, 1], [0, 0, 0, 1, 10, 1, 2, 4, 0, 81, 2, 2]]
      ((Relay.init [[0, 0, 0, 1, 10, 1, 2, 3, 0, 80, 1, 1], [0, 0, 0, 1, 10, 1, 2, 4, 0, 81, 2, 2]]).exec toyIP
        .aliasUntilRun [.read, .read, .run 0, .run 0]).sent = false := by decide

/-- Non-vacuity of `C20_relay_intact`: a burst with an invalid datagram in the middle, the reader
running ahead of all goroutines, which then finish out of order. -/
example :
    ((Relay.init [[0, 0, 0, 1, 10, 1, 2, 3, 0, 80, 1, 1], [0, 0, 1, 1], [0, 0, 0, 3, 1, 97, 0, 53, 7]]).exec toyIP
      .copyAtRead [.read, .read, .read, .run 2, .run 0, .run 0]) =
    ⟨[0, 0, 0, 3, 1, 97, 0, 53, 7, 80, 1, 1], [], [], [⟨[97], 53, [7]⟩, ⟨[10, 1, 2, 3], 80, [1, 1]⟩]⟩ := by decide

/-- The two ways back wrap the answer with `buildUDPHeader` and send it to the application. -/
theorem C20_skel_relay_back :
    Skel.UDPRelay_handleDNSQuery = ["dnsHandler.QueryDNS", "r.buildUDPHeader", "udpConn.WriteToUDP"] ∧
    Skel.udpSession_receiveLoop = ["tunnel.ReceivePacket", "relay.buildUDPHeader", "udpConn.WriteToUDP"] := by
  decide

/-- **Both directions, every burst, every schedule, with or without a DNS handler.**  Tunnels get
exactly the non-DNS payloads for their destinations; the DNS handler gets exactly the port-53
payloads with server `host:53` (the virtual DNS address replaced by the default server); and for
whatever the tunnels / the handler answer (`answer`), the application receives one RFC datagram per
answer that parses to the destination the answer belongs to, the same port and the answer intact
(re-encoding a parsed header and parsing it again, on the real return path). -/
theorem C20_relay_both_directions (c : IPText) (hrt : c.RT) (dns : Bool) (answer : Bool → Bytes → Bytes)
    (ds : List Bytes) (sch : List RStep)
    (hq : ((Relay.init ds).exec c .copyAtRead sch).quiescent = true) :
    holdsRelayIO c dns answer ds
      (relayIO c dns answer ((Relay.init ds).exec c .copyAtRead sch).sent) = true :=
  relayIO_holds c hrt dns answer ds sch hq

/-- Non-vacuity: one tunnel datagram and one DNS datagram to the virtual DNS address. -/
example :
    relayIO toyIP true (fun isDns p => (if isDns then 213 else 165) :: p)
      ((Relay.init [[0, 0, 0, 1, 9, 9, 9, 9, 0, 80, 7], [0, 0, 0, 3, 8, 49, 48, 46, 48, 46, 48, 46, 49, 0, 53, 1, 2]]).exec
        toyIP .copyAtRead [.read, .read, .run 1, .run 0]).sent =
    ⟨[⟨[9, 9, 9, 9], 80, [7]⟩],
     [([49, 49, 57, 46, 50, 57, 46, 50, 57, 46, 50, 57, 58, 53, 51], [1, 2])],
     [[0, 0, 0, 3, 8, 49, 48, 46, 48, 46, 48, 46, 49, 0, 53, 213, 1, 2], [0, 0, 0, 1, 9, 9, 9, 9, 0, 80, 165, 7]]⟩ := by
  decide +kernel

/-- **The adapter's real per-connection function** (`handleSocksConnection`, no session attached),
every byte string, chunking and configuration: always closes; consumes an accepted negotiation
exactly and answers it with a failure reply after the replies owed; rejects as `C20_adapter` says. -/
theorem C20_adapter_connection (c : IPText) (cfg : AdCfg) (chunks : List Bytes) (tail : Tail) :
    holdsAdConn cfg chunks.flatten (adConnection c cfg ⟨chunks, tail⟩).1
      (chunks.flatten.length - (adConnection c cfg ⟨chunks, tail⟩).2.flat.length) true = true :=
  adConn_holds c cfg chunks tail

example : adConnection toyIP ⟨false, [], []⟩ ⟨[[5, 1, 0, 5, 1, 0, 1], [1, 2, 3, 4, 0, 80, 9]], .eof⟩ =
    ([5, 0, 5, 1, 0, 1, 0, 0, 0, 0, 0, 0], ⟨[[9]], .eof⟩) := by decide

end Tunnox.C20
