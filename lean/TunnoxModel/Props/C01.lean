import TunnoxModel.Spec.C01
import TunnoxModel.Proofs.C01
import TunnoxModel.Proofs.C01Rej
/-!
# C01 — packet framing round-trips however the transport chunks the bytes

Property theorems only (helper lemmas live in `Proofs/C01.lean`).
-/
namespace Tunnox.C01
open Gen

/-- Side condition on the regenerated constants: the length field can carry the cap. -/
theorem C01_cap_fits_length_field : constants.MaxPacketBodySize < 2 ^ 32 := by decide

/-- Side condition: the header sizes the reader assumes. -/
theorem C01_header_sizes : constants.PacketTypeSize = 1 ∧ constants.PacketBodySizeBytes = 4 := by decide

/-- T2 tie: the decisions of the reader, in source order — the cap is compared with `>` (a body or an
inflated body of exactly `MaxPacketBodySize` bytes is accepted), as in `readPacket` / `decompress`. -/
theorem cond_decompressData :
    Cond.C01_decompressData =
      ["estimatedSize > constants.MaxPacketBodySize", "err != nil", "n > int64(constants.MaxPacketBodySize)"] := by decide
theorem cond_readPacketBody :
    Cond.C01_readPacketBody = ["bodySize > constants.MaxPacketBodySize", "err != nil && totalRead < int(bodySize)"] := by decide
theorem cond_readPacketType : Cond.C01_readPacketType = ["n == constants.PacketTypeSize", "err != nil"] := by decide
theorem cond_ReadPacket :
    Cond.C01_ReadPacket =
      ["err := ps.acquireReadLock(); err != nil", "err != nil", "packetType.IsHeartbeat()", "err != nil", "err != nil",
       "packetType.IsEncrypted()", "packetType.IsCompressed()", "err != nil",
       "packetType.IsJsonCommand() || packetType.IsCommandResp()", "err != nil"] := by decide

theorem read_data_le (s : Src) (n : Nat) : (s.read n).data.length ≤ n := by
  unfold Src.read
  split
  · simp
  · split
    · assumption
    · simp only [List.length_take]; omega

/-- **The end of the stream may arrive with the last bytes** (`io.Reader` allows `(n > 0, err)`; QUIC
streams do it): the reader's outcome is the same as on a transport that reports the end separately —
the byte is used before the error is looked at (fix cf50c4d). -/
theorem readPacketG_eager (c : Codec) (s : Src) : readPacketG true c s = readPacketG false c s := by
  simp only [readPacketG]
  have hle := read_data_le s constants.PacketTypeSize
  have hd : (s.readE true constants.PacketTypeSize).data = (s.readE false constants.PacketTypeSize).data := by
    simp only [Src.readE]; split <;> simp
  have hr : (s.readE true constants.PacketTypeSize).rest = (s.readE false constants.PacketTypeSize).rest := by
    simp only [Src.readE]; split <;> simp
  have hf : s.readE false constants.PacketTypeSize = s.read constants.PacketTypeSize := by simp [Src.readE]
  rw [hd, hr]
  rw [hf] at *
  cases hdat : (s.read constants.PacketTypeSize).data with
  | nil =>
    -- nothing was read: the eager transport does not differ (`err` is unchanged when no data came)
    have : (s.readE true constants.PacketTypeSize).err = (s.read constants.PacketTypeSize).err := by
      simp [Src.readE, hdat]
    simp only [this]
  | cons a t =>
    cases t with
    | nil => simp only
    | cons b t' =>
      rw [hdat] at hle
      simp only [List.length_cons, constants.PacketTypeSize] at hle
      omega

theorem C01_end_with_data (c : Codec) (f : Nat) (s : Src) : readAllG true c f s = readAll c f s := by
  induction f generalizing s with
  | zero => simp [readAllG, readAll]
  | succ f ih =>
    unfold readAllG readAll
    rw [readPacketG_eager c s]
    show (match readPacketG false c s with
      | (.fail e, s') => (⟨[], e, s'.flat⟩ : Obs)
      | (.pkt t b, s') => ⟨(t, b) :: (readAllG true c f s').pkts, (readAllG true c f s').stop, (readAllG true c f s').leftover⟩) = _
    unfold readPacket
    cases h : readPacketG false c s with
    | mk o s' =>
      cases o with
      | fail e => rfl
      | pkt t b => simp only [ih s']

/-- As found, the error was looked at first: the type byte of a final heartbeat that arrives together
with the end of the stream was dropped. -/
theorem readPacketType_errFirst_witness :
    readPacketTypeErrFirst true ⟨[[0x03]], .eof⟩ = none ∧ readPacketTypeErrFirst false ⟨[[0x03]], .eof⟩ = some 3 ∧
    (readPacketG true ⟨id, some, some⟩ ⟨[[0x03]], .eof⟩).1 = .pkt 3 [] := by decide

/-- T2 tie: reading and writing on one `StreamProcessor` share nothing but the transport ends, the two
(independent) locks and the buffer pool — no scratch buffer of the processor is used by both
directions, which is what lets the model treat `ReadPacket` and `WritePacket` as functions of their own
stream only (the `dx` cases drive both on one processor, a write between any two inbound reads). -/
theorem struct_StreamProcessor :
    Packet.StreamProcessor_fields =
      [("*dispose.ManagerBase", "*dispose.ManagerBase", ""), ("reader", "io.Reader", ""), ("writer", "io.Writer", ""),
       ("readLock", "sync.Mutex", ""), ("writeLock", "sync.Mutex", ""), ("bufferMgr", "*utils.BufferManager", "")] := by
  decide

/-- **Chunk independence** for *every* byte stream (valid encoding or not): the
packets returned, the failure stage and the bytes left unread depend only on the
concatenation of the chunks, never on where the transport cut them. -/
theorem C01_chunk_indep (c : Codec) (f : Nat) (s₁ s₂ : Src)
    (h₁ : s₁.NonEmptyChunks) (h₂ : s₂.NonEmptyChunks) (hflat : s₁.flat = s₂.flat) :
    readAll c f s₁ = readAll c f s₂ := by
  rw [readAll_flat c f s₁ h₁, readAll_flat c f s₂ h₂, hflat]

/-- **Exact consumption**: one written packet followed by arbitrary bytes is
decoded to itself and the reader stops exactly at the packet boundary. -/
theorem C01_exact (c : Codec) (hrt : c.RT) (p : Pkt) (hwf : WF c p) (s : Src)
    (hne : s.NonEmptyChunks) (rest : Bytes) (hs : s.flat = encode c p ++ rest) :
    (readPacket c s).1 = .pkt (wireType p) p.body ∧ (readPacket c s).2.flat = rest := by
  have h := readPacket_flat c s hne
  rw [hs, parse_encode c hrt p hwf rest] at h
  exact ⟨h.1, h.2.1⟩

/-- **Round trip** (the main statement): every sequence of writer-accepted
packets, cut into read chunks in any way (1-byte reads, cuts inside the type,
the length and the body included) and ended by EOF or an error, is decoded to
the same sequence of types and bodies, after which the reader reports the end
of the stream with nothing left over. -/
theorem C01_main (c : Codec) (hrt : c.RT) (ps : List Pkt) (hwf : ∀ p ∈ ps, WF c p)
    (chunks : List Bytes) (tail : Tail) (hne : ∀ ch ∈ chunks, ch ≠ [])
    (hflat : chunks.flatten = encodeAll c ps) (k : Nat) :
    holds ps (readAll c (ps.length + 1 + k) ⟨chunks, tail⟩) = true := by
  have h := readAll_flat c (ps.length + 1 + k) ⟨chunks, tail⟩ hne
  simp only [Src.flat] at h
  rw [h, hflat, parseAll_encodeAll c hrt ps hwf k]
  simp [holds]

/-- The writer's individual `Write` calls concatenate to the encoding and none is empty. -/
theorem C01_writeCalls (c : Codec) (p : Pkt) :
    (writeCalls c p).flatten = encode c p ∧ ∀ ch ∈ writeCalls c p, ch ≠ [] := by
  unfold writeCalls encode
  by_cases hh : packet.Type.IsHeartbeat (wireType p)
  · simp [hh]
  · by_cases he : (wireBody c p).isEmpty
    · have : wireBody c p = [] := List.isEmpty_iff.mp he
      simp [hh, this, be32]
    · have hne : wireBody c p ≠ [] := fun h => he (List.isEmpty_iff.mpr h)
      simp [hh, he, be32, hne]

theorem pieces_spec (n : Nat) (hn : 0 < n) (f : Nat) (b : Bytes) (hf : b.length ≤ f) :
    (pieces n f b).flatten = b ∧ ∀ ch ∈ pieces n f b, ch ≠ [] ∧ ch.length ≤ n := by
  induction f generalizing b with
  | zero =>
    have : b = [] := List.eq_nil_of_length_eq_zero (Nat.le_zero.mp hf)
    subst this; simp [pieces]
  | succ f ih =>
    cases b with
    | nil => simp [pieces]
    | cons x xs =>
      have hlen : ((x :: xs).drop n).length ≤ f := by
        simp only [List.length_drop, List.length_cons] at *; omega
      obtain ⟨h1, h2⟩ := ih _ hlen
      refine ⟨?_, ?_⟩
      · simp only [pieces, List.flatten_cons, h1, List.take_append_drop]
      · intro ch hch
        simp only [pieces, List.mem_cons] at hch
        rcases hch with rfl | h
        · refine ⟨?_, ?_⟩
          · cases n with
            | zero => omega
            | succ m => simp
          · simp only [List.length_take]; omega
        · exact h2 ch h

/-- The rate-limited writer emits the same bytes, in non-empty `Write` calls whose body pieces are at
most `DefaultChunkSize` long — so `C01_main` applies to it on stream and on message transports alike. -/
theorem C01_writeCalls_limited (c : Codec) (p : Pkt) :
    (writeCallsLimited c p).flatten = encode c p ∧ ∀ ch ∈ writeCallsLimited c p, ch ≠ [] := by
  have hps := pieces_spec constants.DefaultChunkSize (by decide) (wireBody c p).length (wireBody c p) (Nat.le_refl _)
  unfold writeCallsLimited encode
  by_cases hh : packet.Type.IsHeartbeat (wireType p)
  · simp [hh]
  · simp only [hh, Bool.false_eq_true, if_false, List.flatten_append, List.flatten_cons, List.flatten_nil, hps.1]
    refine ⟨by simp, ?_⟩
    intro ch hch
    simp only [List.mem_append, List.mem_cons, List.not_mem_nil, or_false] at hch
    rcases hch with (rfl | rfl) | h
    · simp
    · simp [be32]
    · exact (hps.2 ch h).1

/-- **Message transports** (WebSocket: one message per `Write` call, handed to the
reader message by message): the round trip holds with the writer's own call
boundaries as the chunking. -/
theorem C01_message_transport (c : Codec) (hrt : c.RT) (ps : List Pkt) (hwf : ∀ p ∈ ps, WF c p)
    (tail : Tail) (k : Nat) :
    holds ps (readAll c (ps.length + 1 + k) ⟨(ps.map (writeCalls c)).flatten, tail⟩) = true := by
  apply C01_main c hrt ps hwf _ tail _ _ k
  · intro ch hch
    rw [List.mem_flatten] at hch
    obtain ⟨l, hl, hch⟩ := hch
    rw [List.mem_map] at hl
    obtain ⟨p, _, rfl⟩ := hl
    exact (C01_writeCalls c p).2 ch hch
  · unfold encodeAll
    induction ps with
    | nil => rfl
    | cons p ps ih =>
      simp only [List.map_cons, List.flatten_cons, List.flatten_append]
      rw [(C01_writeCalls c p).1, ih (fun q hq => hwf q (List.mem_cons_of_mem _ hq))]

/-- T2 tie: both locks are taken before the first transport call and released by `defer`, i.e. after the
last one — one packet is written / read atomically w.r.t. other callers. -/
theorem skel_WritePacket_lock : Skel.C01_WritePacket =
    ["acquireWriteLock", "defer writeLock.Unlock", "writer.Write", "json.Marshal", "compressData", "writer.Write",
     "writeRateLimitedData", "writer.Write"] := by decide
theorem skel_ReadPacket_lock : Skel.C01_ReadPacket =
    ["acquireReadLock", "defer readLock.Unlock", "readPacketType", "readPacketBodySize", "readPacketBody",
     "decompressData", "json.Unmarshal"] := by decide

theorem serialize_mem (threads : List (List Pkt)) (sched : List Nat) :
    ∀ p ∈ serialize threads sched, ∃ th ∈ threads, p ∈ th := by
  induction sched generalizing threads with
  | nil => intro p hp; simp [serialize] at hp
  | cons t sched ih =>
    intro p hp
    unfold serialize at hp
    cases hth : threads[t]? with
    | none => rw [hth] at hp; exact ih threads p hp
    | some th =>
      rw [hth] at hp
      cases th with
      | nil => exact ih threads p hp
      | cons q rest =>
        simp only [List.mem_cons] at hp
        have hmem : (q :: rest) ∈ threads := List.mem_of_getElem? hth
        rcases hp with hpq | hp
        · exact ⟨q :: rest, hmem, hpq ▸ List.mem_cons_self ..⟩
        · obtain ⟨th', hth', hp'⟩ := ih _ p hp
          rcases List.mem_or_eq_of_mem_set hth' with h | h
          · exact ⟨th', h, hp'⟩
          · exact ⟨q :: rest, hmem, List.mem_cons_of_mem _ (h ▸ hp')⟩

/-- **Concurrent writers**: any number of goroutines writing packets through one `StreamProcessor`, in
any lock-acquisition order, any chunking: the reader gets whole packets, in lock order (per-writer
order preserved by construction of `serialize`), then the end of the stream. -/
theorem C01_concurrent_writers (c : Codec) (hrt : c.RT) (threads : List (List Pkt)) (sched : List Nat)
    (hwf : ∀ th ∈ threads, ∀ p ∈ th, WF c p)
    (chunks : List Bytes) (tail : Tail) (hne : ∀ ch ∈ chunks, ch ≠ [])
    (hflat : chunks.flatten = encodeAll c (serialize threads sched)) (k : Nat) :
    holds (serialize threads sched)
      (readAll c ((serialize threads sched).length + 1 + k) ⟨chunks, tail⟩) = true := by
  apply C01_main c hrt _ _ chunks tail hne hflat k
  intro p hp
  obtain ⟨th, hth, hpth⟩ := serialize_mem threads sched p hp
  exact hwf th hth p hpth

/-- The `0x80` (encrypted) flag: the body is consumed exactly, then rejected. -/
theorem C01_encrypted (c : Codec) (t : Nat) (body : Bytes) (h : packet.Type.IsEncrypted t = true) :
    finish c t body = .fail .encrypted := by
  simp [finish, h]

/-! ### Non-vacuity: a concrete non-trivial sequence meets every hypothesis. -/

/-- A toy codec with a real round trip: "compression" prepends a marker byte. -/
def toyCodec : Codec where
  compress b := 0x1f :: b
  inflate b := match b with | 0x1f :: r => some r | _ => none
  jsonNorm b := some b

example : toyCodec.RT := fun _ => rfl

def samplePkts : List Pkt :=
  [⟨packet.Heartbeat, [], false⟩, ⟨packet.Handshake, [], false⟩,
   ⟨packet.JsonCommand, [0x7b, 0x7d], true⟩, ⟨packet.TunnelData, [1, 2, 3], false⟩]

example : ∀ p ∈ samplePkts, WF toyCodec p := by
  intro p hp
  simp [samplePkts] at hp
  rcases hp with rfl | rfl | rfl | rfl <;> simp [WF, wireBody, toyCodec, constants.MaxPacketBodySize, packet.Heartbeat,
    packet.Handshake, packet.JsonCommand, packet.CommandResp, packet.TunnelData]

/-- …and the model really decodes it under a 1-byte chunking (a test, not the theorem). -/
example :
    holds samplePkts (readAll toyCodec 10 ⟨(encodeAll toyCodec samplePkts).map (fun b => [b]), .eof⟩) = true := by
  decide

/-! ### A packet the reader rejects leaves the stream aligned -/

/-- **Alignment after a rejected packet** (wire level): after any well-formed packets, a frame whose type byte
carries the `0x80` flag (not a heartbeat) and whose declared length is within the cap is consumed EXACTLY —
type byte, length field and body — before the reader reports the rejection, whatever follows it and however
the transport cuts the stream: the packets before it are decoded and the bytes after it are all still unread. -/
theorem C01_rejected_aligned (c : Codec) (hrt : c.RT) (pre : List Pkt) (hwf : ∀ p ∈ pre, WF c p)
    (t : Nat) (ht : t < 256) (hr : rejected t = true) (body : Bytes)
    (hb : body.length ≤ constants.MaxPacketBodySize) (rest : Bytes)
    (chunks : List Bytes) (tail : Tail) (hne : ∀ ch ∈ chunks, ch ≠ [])
    (hflat : chunks.flatten = encodeAll c pre ++ (frame t body ++ rest)) (k : Nat) :
    readAll c (pre.length + (k + 1)) ⟨chunks, tail⟩ = ⟨pre.map norm, .encrypted, rest⟩ := by
  have h := readAll_flat c (pre.length + (k + 1)) ⟨chunks, tail⟩ hne
  simp only [Src.flat] at h
  rw [h, hflat, parseAll_encodeAll_append c hrt pre hwf (k + 1)]
  simp [parseAll, parse_rejected c t ht hr body hb rest]

/-- **The same for a written sequence**: the writer is handed well-formed packets, then one whose type carries
the flag, then ANY further packets; the observation of the reader satisfies `holdsSeq` — the predicate the
harness applies to such cases — for every chunking. -/
theorem C01_seq_main (c : Codec) (hrt : c.RT) (pre : List Pkt) (hwf : ∀ p ∈ pre, WF c p)
    (p : Pkt) (hty : p.ty < 256) (hr : rejected (wireType p) = true)
    (hb : (wireBody c p).length ≤ constants.MaxPacketBodySize) (post : List Pkt)
    (chunks : List Bytes) (tail : Tail) (hne : ∀ ch ∈ chunks, ch ≠ [])
    (hflat : chunks.flatten = encodeAll c (pre ++ p :: post)) (k : Nat) :
    holdsSeq c (pre ++ p :: post) (readAll c (pre.length + (k + 1)) ⟨chunks, tail⟩) = true := by
  have hh : packet.Type.IsHeartbeat (wireType p) = false := by
    simp only [rejected, Bool.and_eq_true, Bool.not_eq_true'] at hr; exact hr.2
  have hfl : chunks.flatten = encodeAll c pre ++ (frame (wireType p) (wireBody c p) ++ encodeAll c post) := by
    rw [hflat, ← encode_eq_frame c p hh]; simp [encodeAll]
  rw [C01_rejected_aligned c hrt pre hwf (wireType p) (wireType_lt_256 p hty) hr (wireBody c p) hb
    (encodeAll c post) chunks tail hne hfl k]
  obtain ⟨hd, htk⟩ := split_at_rejected c pre hwf p hr post
  simp [holdsSeq, hd, htk]

/-- Non-vacuity: a handshake, an encrypted-flag tunnel-data packet and a trailing heartbeat, cut into single
bytes: the handshake is decoded, the rejection is reported, and exactly the heartbeat's byte is left. -/
example :
    holdsSeq toyCodec [⟨1, [7], false⟩, ⟨0x80 ||| 0x22, [1, 2, 3], false⟩, ⟨3, [], false⟩]
      (readAll toyCodec 9 ⟨(encodeAll toyCodec [⟨1, [7], false⟩, ⟨0x80 ||| 0x22, [1, 2, 3], false⟩, ⟨3, [], false⟩]).map ([·]), .eof⟩)
      = true := by decide
/-- …and an observation in which the reader stopped after the type byte of the rejected packet does not. -/
example :
    holdsSeq toyCodec [⟨1, [7], false⟩, ⟨0x80 ||| 0x22, [1, 2, 3], false⟩, ⟨3, [], false⟩]
      ⟨[(1, [7])], .encrypted, List.replicate 8 0⟩ = false := by decide

/-! ### Empty reads -/

/-- **An empty read inside a length field or a body is skipped** (`io.ReadFull` and the body loop read on
after `(0, nil)`): one step of the induction — an empty chunk in front of the chunks a multi-byte read
consumes changes neither the bytes read, nor what is left, nor whether the read completes.
PARTIAL: the full statement — `C01_main` for chunk lists with empty chunks at every position except where a
type byte is read (there `readPacketType` reports `(0, nil)` as a short read, `RErr.shortType`) — is not
proved; the hypothesis `hne` of `C01_main` excludes empty chunks.  The `empty-read` cases of every run drive
the real reader through such streams, and the examples below evaluate the model on one. -/
theorem C01_empty_read_skipped_partial (cs : List Bytes) (n : Nat) :
    readFullChunks ([] :: cs) (n + 1) = readFullChunks cs (n + 1) := by
  simp [readFullChunks]

/-- A handshake with a 3-byte body whose length field and body are interrupted by empty reads, then a
heartbeat: both packets are decoded and nothing is left. -/
example :
    holds [⟨1, [7, 8, 9], false⟩, ⟨3, [], false⟩]
      (readAll toyCodec 4 ⟨[[1], [0, 0], [], [0, 3], [], [7], [], [], [8, 9], [3]], .eof⟩) = true := by decide
/-- …whereas an empty read where a type byte is expected ends the run with `shortType` (the documented
assumption "a transport never answers (0, nil) to the 1-byte type read"). -/
example : (readAll toyCodec 4 ⟨[[], [3]], .eof⟩).stop = .shortType := by decide

end Tunnox.C01
