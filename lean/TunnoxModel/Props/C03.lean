import TunnoxModel.Proofs.C03
/-!
# C03 — only a proven key holder is ever authenticated as a client

Property theorems only.  A *history* is any finite list of `Event`s: handshake messages of every shape
(first connection, phase 1 for any id, phase 2 with any response term — valid, stale, foreign key, foreign
connection, junk —, malformed, control/tunnel type) on any number of connections, interleaved with bans,
blacklistings, limiter refills, credential expiry/deletion.  All theorems quantify over ALL histories
(no bound on length, connections, clients or addresses).

Trusted base / scope: HMAC is symbolic (secrets pairwise distinct, nonces never repeat, no collisions);
the whitelist of `IPManager` and the failure time window of `BruteForceProtector` are not modelled.
-/
namespace Tunnox.C03
open Gen

/-! ## T1/T2 ties to the Go source (regenerated on every run) -/

/-- order of the gates and branches of `ServerAuthHandler.HandleHandshake` -/
theorem skel_HandleHandshake : Skel.HandleHandshake =
    ["ipManager.IsAllowed", "bruteForceProtector.IsBanned", "rateLimiter.AllowIP", "handleFirstConnection",
     "cloudControl.GetClientConfig", "bruteForceProtector.RecordFailure", "config.IsExpired",
     "handleChallengePhase1", "handleChallengePhase2"] := by decide

/-- phase 2 reads the pending challenge, clears it BEFORE verifying, and binds the identity only after -/
theorem skel_handleChallengePhase2 : Skel.handleChallengePhase2 =
    ["conn.GetPendingChallenge", "bruteForceProtector.RecordFailure", "conn.ClearPendingChallenge",
     "secretKeyMgr.VerifyResponse", "bruteForceProtector.RecordFailure", "bruteForceProtector.RecordSuccess",
     "conn.SetClientID", "conn.SetAuthenticated", "updateClientRuntimeState"] := by decide

/-- phase 1 only issues and stores a challenge (it never touches identity or failure counters) -/
theorem skel_handleChallengePhase1 : Skel.handleChallengePhase1 =
    ["secretKeyMgr.GenerateChallenge", "conn.SetPendingChallenge"] := by decide

theorem skel_handleFirstConnection : Skel.handleFirstConnection =
    ["cloudControl.GenerateAnonymousCredentials", "bruteForceProtector.RecordFailure",
     "bruteForceProtector.RecordSuccess", "conn.SetClientID", "conn.SetAuthenticated", "updateClientRuntimeState"] := by
  decide

theorem skel_VerifyResponse : Skel.VerifyResponse = ["Decrypt", "ComputeResponse", "hmac.Equal"] := by decide
theorem skel_ComputeResponse : Skel.ComputeResponse = ["hmac.New", "h.Write", "hex.EncodeToString", "h.Sum"] := by decide
theorem skel_GenerateChallenge : Skel.GenerateChallenge = ["rand.Read", "hex.EncodeToString"] := by decide

/-- session layer: parse, get-or-create, handler, respond, then (guarded) look up the old connection, remove it, `UpdateAuth` -/
theorem skel_handleHandshake : Skel.C03_handleHandshake =
    ["json.Unmarshal",
     "getControlConnectionByConnID",
     "getConnectionByConnID",
     "NewControlConnection",
     "RegisterControlConnection",
     "getControlConnectionByConnID",
     "getConnectionByConnID",
     "NewControlConnection",
     "RegisterControlConnection",
     "authHandler.HandleHandshake",
     "sendHandshakeResponse",
     "clientRegistry.DropStaleIndex",
     "sendHandshakeResponse",
     "clientRegistry.GetByClientID",
     "clientRegistry.Remove",
     "clientRegistry.UpdateAuth",
     "getConnectionByConnID",
     "getConnectionByConnID"] := by decide

/-- registry: removal closes the stream, drops every index entry of the connection object (`unindexLocked`), then the
connection; `UpdateAuth` unindexes before indexing under the new id; `DropStaleIndex` deletes under the lock -/
theorem skel_registry :
    Skel.C03_removeConnectionLocked = ["Stream.Close", "unindexLocked", "delete"] ∧
    Skel.C03_UpdateAuth = ["mu.Lock", "mu.Unlock", "unindexLocked"] ∧
    Skel.C03_unindexLocked = ["delete"] ∧ Skel.C03_DropStaleIndex = ["mu.Lock", "mu.Unlock", "delete"] := by decide
theorem skel_RecordFailure : Skel.RecordFailure = ["cleanupOldFailures", "banIP", "banIP"] := by decide

/-- the decision expressions of `HandleHandshake`, as written in the source -/
theorem cond_HandleHandshake : Cond.HandleHandshake =
    ["remoteAddr != nil", "h.ipManager != nil", "allowed, reason := h.ipManager.IsAllowed(ip); !allowed",
     "h.bruteForceProtector != nil", "banned, reason := h.bruteForceProtector.IsBanned(ip); banned",
     "req.ClientID == 0 && h.rateLimiter != nil", "!h.rateLimiter.AllowIP(ip)",
     "isFirstConnection := req.ClientID == 0 && (req.Token == \"new-client\" || strings.HasPrefix(req.Token, \"anonymous:\"))",
     "isFirstConnection", "err != nil || config == nil", "h.bruteForceProtector != nil", "config.IsExpired()",
     "req.ChallengeResponse == \"\""] := by decide

theorem cond_handleChallengePhase1 : Cond.handleChallengePhase1 =
    ["h.secretKeyMgr == nil", "config.SecretKeyEncrypted == \"\"", "err != nil"] := by decide

theorem cond_handleChallengePhase2 : Cond.handleChallengePhase2 =
    ["challenge == \"\"", "h.bruteForceProtector != nil",
     "!h.secretKeyMgr.VerifyResponse(config.SecretKeyEncrypted, challenge, req.ChallengeResponse)",
     "h.bruteForceProtector != nil", "h.bruteForceProtector != nil"] := by decide

/-- every decision expression of `SessionManager.handleHandshake`, as written in the source: in particular the
guard `isControlConnection && clientConn.IsAuthenticated() && clientConn.GetClientID() > 0` of the registry update,
the eviction condition, and the two early returns (handler error, response write error) -/
theorem cond_handleHandshake : Cond.handleHandshake =
    ["s.authHandler == nil",
     "len(connPacket.Packet.Payload) > 0",
     "err := json.Unmarshal(connPacket.Packet.Payload, req); err != nil",
     "isControlConnection := req.ConnectionType != \"tunnel\"",
     "req.ConnectionType == \"\"",
     "isControlConnection",
     "existingConn != nil",
     "conn == nil",
     "enforcedProtocol == \"\"",
     "conn.RawConn != nil",
     "existingConn != nil",
     "conn == nil",
     "enforcedProtocol == \"\"",
     "conn.RawConn != nil",
     "err != nil",
     "concreteConn, ok := clientConn.(*ControlConnection); ok",
     "err := s.sendHandshakeResponse(clientConn, resp); err != nil",
     "isControlConnection && clientConn.IsAuthenticated() && clientConn.GetClientID() > 0",
     "oldConn != nil && oldConn.GetConnID() != clientConn.GetConnID()",
     "s.connStateStore != nil",
     "err := s.connStateStore.UnregisterConnection(s.Ctx(), oldConn.GetConnID()); err != nil",
     "concreteConn, ok := clientConn.(*ControlConnection); ok",
     "err := s.clientRegistry.UpdateAuth(concreteConn.ConnID, clientConn.GetClientID(), concreteConn.UserID); err != nil",
     "s.connStateStore != nil",
     "conn != nil && conn.Protocol != \"\"",
     "err := s.connStateStore.RegisterConnection(s.Ctx(), stateInfo); err != nil",
     "conn != nil && conn.Stream != nil",
     "handshakeHandler, ok := reader.(interface{ OnHandshakeComplete(clientID int64) }); ok",
     "isControlConnection && clientConn.IsAuthenticated() && clientConn.GetClientID() > 0"] := by decide

theorem cond_registry : Cond.UpdateAuth = ["!exists"] ∧
    Cond.removeConnectionLocked = ["conn == nil", "conn.Stream != nil"] ∧
    Cond.unindexLocked = ["indexed == conn"] ∧
    Cond.DropStaleIndex = ["conn == nil", "indexed == conn && clientID != conn.ClientID"] := by decide

theorem cond_security :
    Cond.RecordFailure = ["!exists", "totalCount >= p.config.PermanentBanAt", "recentFailures >= p.config.MaxFailures"] ∧
    Cond.IsBanned = ["!exists", "record.isExpired()"] ∧
    Cond.IsAllowed = ["m.isInList(ip, m.whitelist)", "record := m.findInList(ip, m.blacklist); record != nil",
      "record.isExpired()"] ∧
    Cond.VerifyResponse = ["err != nil"] ∧
    Cond.banIP = ["duration > 0", "existing, exists := p.bannedIPs[ip]; exists && existing.ExpiresAt.IsZero() && duration > 0",
      "duration > 0"] := by decide

/-- side conditions on the regenerated constants used by `recordFailure` -/
theorem C03_consts : 0 < security.DefaultMaxFailures ∧ security.DefaultMaxFailures ≤ security.DefaultPermanentBanAt := by
  decide

/-- `ClientConfig.IsExpired` as translated from the source: no expiry time = never expired -/
theorem C03_isExpired (now : Nat) (c : ClientConfigT) :
    models.ClientConfig.IsExpired now c = (match c.ExpiresAt with | none => false | some t => decide (t < now)) := by
  rw [isExpired_eq]; rfl

/-! ## The property -/

/-- every state reached by a history satisfies the invariant -/
theorem reachable_inv (s : Srv) (I : Inv s) (es : List Event) : Inv (runState s es) := by
  induction es generalizing s with
  | nil => exact I
  | cons e es ih => exact ih _ (I.preserved e)

/-- **C03, main statement.**  For every initial configuration and EVERY history of events, the observations
of the model satisfy the property predicate `holds` — the same predicate the runner applies to what the real
server did: after each event, a connection that is (newly) authenticated as `X` is the one the message arrived
on and either just received `X` as a brand-new identity or presented an HMAC under `X`'s stored secret over the
latest challenge issued to it, never accepted before, with `X` known, unexpired, and the address neither banned
nor blacklisted (H1); a client's control channel is only ever pointed at the connection the message arrived on,
authenticated as that client, and never by a message answered "failed" (H3); `Success=true` is only written for
such a justified request (H5). -/
theorem C03_main (h : Hdr) (es : List Event) : holds h es (run h.init es) = true := by
  have I : Inv h.init := Inv.initial h.now h.ips h.nc h.burst h.secs
  exact holdsFrom_run I es

/-- the same from any state satisfying the invariant (e.g. any reachable state) -/
theorem C03_main_from (s : Srv) (I : Inv s) (es : List Event) :
    holdsFrom s.now s.ipOf (proj s) es (run s es) = true := holdsFrom_run I es

/-- **auth_sound, one step, in the model's own terms.**  In ANY state, after ANY event, each connection `c`
either keeps its (authenticated, client) pair, or lost its control connection, or is the connection the event
arrived on and is now authenticated as some `x` with justification `Jm`: address not banned/blacklisted and
(first connection, `x` brand new) or (phase 2 for known unexpired `x`, response = HMAC under `x`'s key over the
nonce pending on `c`). -/
theorem C03_auth_sound_step (s : Srv) (e : Event) (c : Nat) :
    pairOf ((step s e).1.ctl c) = pairOf (s.ctl c) ∨ (step s e).1.ctl c = none ∨
    (e.conn? = some c ∧ ∃ x, pairOf ((step s e).1.ctl c) = (true, some x) ∧
      Jm s e (step s e).2 (step s e).1.nClients c x) :=
  (stepCore_spec s e).auth c

/-- **fail_inert.**  If the response written is a failure or a challenge (`Success=false`), no connection becomes
authenticated or changes the client it is authenticated as; and after a failure response the client index is
unchanged except for removals. -/
theorem C03_fail_inert (s : Srv) (e : Event) (hf : (step s e).2 = .fail ∨ ∃ n, (step s e).2 = .ch n) :
    (∀ c, pairOf ((step s e).1.ctl c) = pairOf (s.ctl c) ∨ (step s e).1.ctl c = none) ∧
    ((step s e).2 = .fail → ∀ y c, (step s e).1.reg y = some c → s.reg y = some c) := by
  have sp := stepCore_spec s e
  have hr : (step s e).2 = (stepCore s e).2 := rfl
  rw [hr] at hf ⊢
  constructor
  · intro c
    rcases sp.auth c with a | a | ⟨_, x, _, _, _, j | j⟩
    · exact Or.inl a
    · exact Or.inr a
    · obtain ⟨_, _, _, _, j⟩ := j
      rcases hf with hf | ⟨n, hf⟩ <;> rcases j with j | j <;> rw [hf] at j <;> cases j
    · obtain ⟨_, _, _, _, _, _, _, _, _, _, j⟩ := j
      rcases hf with hf | ⟨n, hf⟩ <;> rcases j with j | j <;> rw [hf] at j <;> cases j
  · intro hfail y c hy
    rcases sp.reg y c hy with a | ⟨_, _, a, _⟩
    · exact a
    · exact absurd hfail a

/-- **banned / blacklisted addresses are never authenticated.**  A message from a connection whose address is
banned or blacklisted is never answered with success, and leaves every connection's authentication as it was. -/
theorem C03_banned_never (s : Srv) (e : Event) (c : Nat) (hc : e.conn? = some c)
    (hb : s.banned (s.ipOf c) = true ∨ s.env.blocked (s.ipOf c) = true) :
    (step s e).2 ≠ .ok ∧ (∀ x, (step s e).2 ≠ .new x) ∧
    (∀ c', pairOf ((step s e).1.ctl c') = pairOf (s.ctl c') ∨ (step s e).1.ctl c' = none) := by
  have sp := stepCore_spec s e
  have hr : (step s e).2 = (stepCore s e).2 := rfl
  have no : ∀ n' c' x, e.conn? = some c' → ¬ Jm s e (stepCore s e).2 n' c' x := by
    intro n' c' x hc' j
    rw [hc] at hc'
    have : c = c' := by simpa using hc'
    subst this
    obtain ⟨j1, j2, _⟩ := j
    rcases hb with hb | hb
    · rw [j2] at hb; cases hb
    · rw [j1] at hb; cases hb
  rw [hr]
  refine ⟨?_, ?_, ?_⟩
  · intro h
    obtain ⟨c0, ty, k, rr, he, _, _, _, j⟩ := sp.rok h
    exact no _ c0 k (by rw [he]; rfl) j
  · intro x h
    obtain ⟨c0, ty, he, _, _, j⟩ := sp.rnew x h
    exact no _ c0 x (by rw [he]; rfl) j
  · intro c'
    rcases sp.auth c' with a | a | ⟨a, x, _, j⟩
    · exact Or.inl a
    · exact Or.inr a
    · exact absurd j (no _ c' x a)

/-- **a permanent ban stays.**  Once an address has a permanent ban record (20 accumulated failures, or `BanIP(ip, 0)`),
then after ANY further history without an explicit `UnbanIP` of it — in particular any later temporary ban and the lapse
of that temporary ban (`bans`), failures, successes elsewhere — the address is still banned, so by `C03_banned_never` no
message from it is ever answered with success. -/
theorem C03_permanent_ban_persists (s : Srv) (es : List Event) (ip : Nat)
    (hp : s.perm ip = true) (hb : s.banned ip = true) (hno : Event.unban ip ∉ es) :
    (runState s es).perm ip = true ∧ (runState s es).banned ip = true := by
  induction es generalizing s with
  | nil => exact ⟨hp, hb⟩
  | cons e es ih =>
    simp only [List.mem_cons, not_or] at hno
    have sp := stepCore_spec s e
    have hne : e ≠ .unban ip := fun h => hno.1 h.symm
    apply ih _ _ _ hno.2
    · exact sp.perm ip hne hp
    · by_cases hbs : e = .bans ip
      · exact sp.bans ip hbs hp hb
      · exact sp.ban ip hne hbs hb

/-- what an event does to the three address lists of the observer/server environment -/
theorem track_lists (g : Env) (now nc : Nat) (e : Event) (r : RespObs) :
    (g.track now nc e r).wl = (match e with | .wl i => upd g.wl i true | .unwl i => upd g.wl i false | _ => g.wl) ∧
    (g.track now nc e r).bl = (match e with | .bl i => upd g.bl i true | .unbl i => upd g.bl i false | _ => g.bl) ∧
    (g.track now nc e r).blr = (match e with | .blr i => upd g.blr i true | .unblr i => upd g.blr i false | _ => g.blr) := by
  cases e with
  | hs c ty k rr =>
    cases r <;> try exact ⟨rfl, rfl, rfl⟩
    cases rr <;> try exact ⟨rfl, rfl, rfl⟩
    rename_i key nr
    cases hn : g.resolveN nr <;> simp [Env.track, Env.resolve, hn]
  | exp k => simp only [Env.track]; split <;> exact ⟨rfl, rfl, rfl⟩
  | unexp k => simp only [Env.track]; split <;> exact ⟨rfl, rfl, rfl⟩
  | claim k => simp only [Env.track]; split <;> exact ⟨rfl, rfl, rfl⟩
  | bind k => simp only [Env.track]; split <;> exact ⟨rfl, rfl, rfl⟩
  | ext k => simp only [Env.track]; split <;> exact ⟨rfl, rfl, rfl⟩
  | del k => simp only [Env.track]; split <;> exact ⟨rfl, rfl, rfl⟩
  | strip k st => simp only [Env.track]; split <;> exact ⟨rfl, rfl, rfl⟩
  | fc c ty => exact ⟨rfl, rfl, rfl⟩
  | mal c => exact ⟨rfl, rfl, rfl⟩
  | ban i => exact ⟨rfl, rfl, rfl⟩
  | unban i => exact ⟨rfl, rfl, rfl⟩
  | banp i => exact ⟨rfl, rfl, rfl⟩
  | bans i => simp only [Env.track]; split <;> exact ⟨rfl, rfl, rfl⟩
  | bl i => exact ⟨rfl, rfl, rfl⟩
  | unbl i => exact ⟨rfl, rfl, rfl⟩
  | blr i => exact ⟨rfl, rfl, rfl⟩
  | unblr i => exact ⟨rfl, rfl, rfl⟩
  | restart => exact ⟨rfl, rfl, rfl⟩
  | wl i => exact ⟨rfl, rfl, rfl⟩
  | unwl i => exact ⟨rfl, rfl, rfl⟩
  | refill i => exact ⟨rfl, rfl, rfl⟩
  | issue b => exact ⟨rfl, rfl, rfl⟩

/-- **a blacklisting — of one address or of a whole CIDR range — holds for every later IPManager instance.**
After ANY further history `es` that contains no removal of that entry and no whitelisting of the address (in
particular: any number of `restart`s, i.e. new IPManager instances loading the lists from storage), an address that
was blocked — blacklisted directly or through a range containing it, and not whitelisted — is still blocked, so by
`C03_banned_never` no message from it is answered with success or changes anybody's authentication. -/
theorem C03_blacklist_persists (s : Srv) (es : List Event) (ip : Nat) (hb : s.env.blocked ip = true)
    (hno : Event.unbl ip ∉ es ∧ Event.unblr (ip / 2) ∉ es ∧ Event.wl ip ∉ es) :
    (runState s es).env.blocked ip = true := by
  induction es generalizing s with
  | nil => exact hb
  | cons e es ih =>
    simp only [List.mem_cons, not_or] at hno
    apply ih _ _ ⟨hno.1.2, hno.2.1.2, hno.2.2.2⟩
    have he : (step s e).1.env = s.env.track s.now s.nClients e (stepCore s e).2 := rfl
    obtain ⟨t1, t2, t3⟩ := track_lists s.env s.now s.nClients e (stepCore s e).2
    simp only [Env.blocked, Bool.and_eq_true, Bool.or_eq_true, Bool.not_eq_true'] at hb ⊢
    rw [he, t1, t2, t3]
    refine ⟨?_, ?_⟩
    · cases e <;> try exact hb.1
      · rename_i i
        have : ip ≠ i := fun h => hno.2.2.1 (by rw [h])
        simp only [upd_other _ _ _ _ this]; exact hb.1
      · rename_i i
        simp only [upd_apply]; split
        · rfl
        · exact hb.1
    · rcases hb.2 with h | h
      · left
        cases e <;> try exact h
        · rename_i i; simp only [upd_apply]; split <;> simp_all
        · rename_i i
          have : ip ≠ i := fun h' => hno.1.1 (by rw [h'])
          simp only [upd_other _ _ _ _ this]; exact h
      · right
        cases e <;> try exact h
        · rename_i i; simp only [upd_apply]; split <;> simp_all
        · rename_i i
          have : ip / 2 ≠ i := fun h' => hno.2.1.1 (by rw [h'])
          simp only [upd_other _ _ _ _ this]; exact h

/-- … spelled out for the step right after a restart: a first-connection or handshake request from an address inside a
blacklisted range is refused by the new instance as well. -/
theorem C03_range_blocked_after_restart (s : Srv) (e : Event) (c : Nat) (hc : e.conn? = some c)
    (hb : s.env.blr (s.ipOf c / 2) = true) (hw : s.env.wl (s.ipOf c) = false) :
    (step (step s .restart).1 e).2 ≠ .ok ∧ (∀ x, (step (step s .restart).1 e).2 ≠ .new x) ∧
    (∀ c', pairOf ((step (step s .restart).1 e).1.ctl c') = pairOf ((step s .restart).1.ctl c') ∨
           (step (step s .restart).1 e).1.ctl c' = none) := by
  apply C03_banned_never _ e c hc
  right
  show (!s.env.wl (s.ipOf c) && (s.env.bl (s.ipOf c) || s.env.blr (s.ipOf c / 2))) = true
  simp [hb, hw]

/-- **unknown, deleted, expired or key-less clients are never authenticated**, and a success needs the right key
over the pending nonce: if a handshake request is answered `ok` then it named a client of the table whose
credentials are present and unexpired, and carried the HMAC under that client's key over the nonce pending on
that very connection. -/
theorem C03_ok_needs_proof (s : Srv) (c : Nat) (ty : Ty) (k : CRef) (rr : RespRef)
    (h : (step s (.hs c ty k rr)).2 = .ok) :
    ∃ x nr n, k = .idx x ∧ x < s.nClients ∧ flagsOK s.now (s.env.cl x) = true ∧ rr = .hmac (.client x) nr ∧
      s.env.resolveN nr = some n ∧ pend (s.ctl c) = some n ∧ pend ((step s (.hs c ty k rr)).1.ctl c) = none := by
  have sp := stepCore_spec s (.hs c ty k rr)
  obtain ⟨c0, ty0, k0, rr0, he, _, hp, _, j⟩ := sp.rok h
  simp only [Event.hs.injEq] at he
  obtain ⟨h1, _, h3, _⟩ := he
  subst h1 h3
  obtain ⟨_, _, j | j⟩ := j
  · obtain ⟨_, hh, _⟩ := j; cases hh
  · obtain ⟨ty1, key, nr, n, he, a, b, d, f, g, _⟩ := j
    simp only [Event.hs.injEq] at he
    obtain ⟨_, _, _, h4⟩ := he
    subst d
    exact ⟨k0, nr, n, rfl, a, b, h4, f, g, hp⟩

/-- **the identity bound is the identity proven.**  When a phase-2 request naming client `x` is answered with success,
the connection it arrived on is authenticated as `x` — the client whose stored secret the response was verified against —
whichever client the pending challenge had been requested for in phase 1 (phase 1 for B followed by phase 2 for A with
A's key makes the connection A, never B). -/
theorem C03_binds_proven_identity (s : Srv) (c : Nat) (ty : Ty) (x : Nat) (rr : RespRef)
    (h : (step s (.hs c ty (.idx x) rr)).2 = .ok) :
    pairOf ((step s (.hs c ty (.idx x) rr)).1.ctl c) = (true, some x) := by
  have sp := stepCore_spec s (.hs c ty (.idx x) rr)
  obtain ⟨c0, ty0, k0, rr0, he, _, _, hp, _⟩ := sp.rok h
  simp only [Event.hs.injEq, CRef.idx.injEq] at he
  obtain ⟨h1, _, h3, _⟩ := he
  subst h1 h3
  exact hp

/-- **no response term authenticates a client whose stored secret is unusable.**  If the stored secret of client
`x` is not a ciphertext that decrypts under the server's master key (sealed under another key, empty, or only the
deprecated plaintext field), then NO handshake request naming `x` — whatever its response term: the empty key, the
ciphertext bytes as key, the legacy plaintext, any client's key, junk — is answered with success, and it leaves every
connection's authentication as it was. -/
theorem C03_unusable_never (s : Srv) (c : Nat) (ty : Ty) (x : Nat) (rr : RespRef)
    (hu : (s.env.cl x).secret ≠ .usable) :
    (step s (.hs c ty (.idx x) rr)).2 ≠ .ok ∧
    (∀ c', pairOf ((step s (.hs c ty (.idx x) rr)).1.ctl c') = pairOf (s.ctl c') ∨
           (step s (.hs c ty (.idx x) rr)).1.ctl c' = none) := by
  have sp := stepCore_spec s (.hs c ty (.idx x) rr)
  have hr : (step s (.hs c ty (.idx x) rr)).2 = (stepCore s (.hs c ty (.idx x) rr)).2 := rfl
  have no : ∀ n' c' y, ¬ Jm s (.hs c ty (.idx x) rr) (stepCore s (.hs c ty (.idx x) rr)).2 n' c' y := by
    intro n' c' y j
    obtain ⟨_, _, j | j⟩ := j
    · obtain ⟨_, hh, _⟩ := j; cases hh
    · obtain ⟨_, _, _, _, he, _, hf, _⟩ := j
      simp only [Event.hs.injEq, CRef.idx.injEq] at he
      obtain ⟨_, _, hx, _⟩ := he
      subst hx
      simp only [flagsOK, Bool.and_eq_true, beq_iff_eq] at hf
      exact hu hf.2
  rw [hr]
  constructor
  · intro h
    obtain ⟨c0, _, k, _, _, _, _, _, j⟩ := sp.rok h
    exact no _ c0 k j
  · intro c'
    rcases sp.auth c' with a | a | ⟨_, y, _, j⟩
    · exact Or.inl a
    · exact Or.inr a
    · exact absurd j (no _ c' y)

/-- **expired credentials never authenticate, whatever else the config says.**  If client `x`'s `ExpiresAt` lies in the
past — whether or not the client has been claimed by / bound to a user (`UserID`), whatever its stored-secret state —
then no handshake request naming `x` is answered with success and nobody's authentication changes. -/
theorem C03_expired_never (s : Srv) (c : Nat) (ty : Ty) (x : Nat) (rr : RespRef) (t : Nat)
    (he : (s.env.cl x).ExpiresAt = some t) (ht : t < s.now) :
    (step s (.hs c ty (.idx x) rr)).2 ≠ .ok ∧
    (∀ c', pairOf ((step s (.hs c ty (.idx x) rr)).1.ctl c') = pairOf (s.ctl c') ∨
           (step s (.hs c ty (.idx x) rr)).1.ctl c' = none) := by
  have sp := stepCore_spec s (.hs c ty (.idx x) rr)
  have hr : (step s (.hs c ty (.idx x) rr)).2 = (stepCore s (.hs c ty (.idx x) rr)).2 := rfl
  have hexp : expiredAt s.now (s.env.cl x) = true := by
    simp only [expiredAt, he]; simpa using ht
  have no : ∀ n' c' y, ¬ Jm s (.hs c ty (.idx x) rr) (stepCore s (.hs c ty (.idx x) rr)).2 n' c' y := by
    intro n' c' y j
    obtain ⟨_, _, j | j⟩ := j
    · obtain ⟨_, hh, _⟩ := j; cases hh
    · obtain ⟨_, _, _, _, hev, _, hf, _⟩ := j
      simp only [Event.hs.injEq, CRef.idx.injEq] at hev
      obtain ⟨_, _, hx, _⟩ := hev
      subst hx
      simp only [flagsOK, Bool.and_eq_true, Bool.not_eq_true'] at hf
      rw [hexp] at hf
      exact absurd hf.1.1 (by simp)
  rw [hr]
  constructor
  · intro h
    obtain ⟨c0, _, k, _, _, _, _, _, j⟩ := sp.rok h
    exact no _ c0 k j
  · intro c'
    rcases sp.auth c' with a | a | ⟨_, y, _, j⟩
    · exact Or.inl a
    · exact Or.inr a
    · exact absurd j (no _ c' y)

/-- … in particular `VerifyResponse` itself is false for an unusable stored secret, whatever the response -/
theorem C03_verify_fails_closed (cfg : ClientConfigT) (k n : Nat) (resp : Resp) (hu : cfg.secret ≠ .usable) :
    verifyResponse cfg k n resp = false := by
  cases h : cfg.secret <;> simp_all [verifyResponse]

/-- **every challenge is accepted at most once (acknowledged acceptances).**  In every reachable state a pending
challenge was never accepted before, no nonce is pending on two connections, and a pending challenge that any
client ever received is the latest one received on its own connection. -/
theorem C03_pending_fresh (h : Hdr) (es : List Event) (c : Nat) (n : Nat)
    (hp : pend ((runState h.init es).ctl c) = some n) :
    n ∉ (runState h.init es).env.usedSeen ∧
    (∀ c', pend ((runState h.init es).ctl c') = some n → c = c') ∧
    (∀ d, (runState h.init es).env.lastCh d = some n → d = c) ∧
    (∀ d, (runState h.init es).env.prevCh d ≠ some n) := by
  have I := reachable_inv h.init (Inv.initial h.now h.ips h.nc h.burst h.secs) es
  exact ⟨I.i4 c n hp, fun c' h' => I.i5 c c' n hp h', (I.i3 c n hp).1, (I.i3 c n hp).2⟩

/-- **challenge_once.**  After EVERY history, the nonces of all phase-2 messages the handler ever accepted
(ghost list `accepted`, extended in `handleChallengePhase2` exactly when verification succeeds) are pairwise
distinct, and no challenge that is still pending has been accepted: every challenge is accepted at most once. -/
theorem C03_challenge_once (h : Hdr) (es : List Event) :
    (runState h.init es).accepted.Nodup ∧
    ∀ c n, pend ((runState h.init es).ctl c) = some n → n ∉ (runState h.init es).accepted := by
  have A := (reachable_invs h.init (Inv.initial h.now h.ips h.nc h.burst h.secs) (AccInv.initial h.now h.ips h.nc h.burst h.secs) es).2
  exact ⟨A.a2, A.a1⟩

/-- … and `accepted` really records acceptances: a step extends it only by the nonce that was pending on the
connection the event arrived on, and that nonce is cleared. -/
theorem C03_accepted_step (s : Srv) (e : Event) :
    (step s e).1.accepted = s.accepted ∨
    ∃ c n, e.conn? = some c ∧ pend (s.ctl c) = some n ∧ (step s e).1.accepted = n :: s.accepted ∧
      pend ((step s e).1.ctl c) = none :=
  (stepCore_spec s e).acc

/-- **registry_sound.**  After EVERY history, if the client index maps client `y` to connection `c`
(`GetControlConnectionByClientID(y) = c`) then `c` is authenticated as `y` right now.  (True of the current code
because index entries are dropped by identity: `DropStaleIndex` right after the handler returns, `unindexLocked` in
`UpdateAuth` and `removeConnectionLocked`; it was false before that repair — C07's finding.) -/
theorem C03_registry_sound (h : Hdr) (es : List Event) (y c : Nat)
    (hr : (runState h.init es).reg y = some c) : pairOf ((runState h.init es).ctl c) = (true, some y) :=
  reachable_sound h.init (by intro y c hh; simp [Hdr.init, Srv.init] at hh) es y c hr

/-- **challenge freshness.**  After EVERY history (of any length: hundreds of phase-1 requests on any connections
included), a challenge the server writes next is a value that no connection ever received before, that is pending on no
connection, and that was never accepted — so a response recorded for an earlier challenge can never match a later one. -/
theorem C03_challenges_fresh (h : Hdr) (es : List Event) (e : Event) (n : Nat)
    (hr : (step (runState h.init es) e).2 = .ch n) :
    n ∉ (runState h.init es).env.seen ∧ (∀ c, pend ((runState h.init es).ctl c) ≠ some n) ∧
    n ∉ (runState h.init es).accepted := by
  obtain ⟨I, A⟩ := reachable_invs h.init (Inv.initial h.now h.ips h.nc h.burst h.secs)
    (AccInv.initial h.now h.ips h.nc h.burst h.secs) es
  have sp := stepCore_spec (runState h.init es) e
  obtain ⟨hn, _⟩ := sp.rch n hr
  refine ⟨fun hm => ?_, fun c hc => ?_, fun hm => ?_⟩
  · have := I.i8s n hm; omega
  · have := I.i1 c n hc; omega
  · have := A.a3 n hm; omega

/-! ## Non-vacuity -/

def hdr2 : Hdr := ⟨1000, [0, 1], 2, 20, []⟩

/-- the happy path authenticates: phase 1, then the HMAC under A's key over the latest challenge -/
example : (run hdr2.init [.hs 0 .control (.idx 0) .none, .hs 0 .control (.idx 0) (.hmac 0 (.last 0))]).map (·.resp) =
    [.ch 0, .ok] := by decide

/-- … and installs the connection as A's control channel -/
example : ((run hdr2.init [.hs 0 .control (.idx 0) .none, .hs 0 .control (.idx 0) (.hmac 0 (.last 0))]).map
    (·.st.lookups)) = [[none, none], [some 0, none]] := by decide

/-- two handshakes are accepted with two different nonces -/
example : (runState hdr2.init [.hs 0 .control (.idx 0) .none, .hs 0 .control (.idx 0) (.hmac 0 (.last 0)),
    .hs 1 .control (.idx 1) .none, .hs 1 .control (.idx 1) (.hmac 1 (.last 1))]).accepted = [1, 0] := by decide

/-- a replayed response, a stale challenge, a foreign key and a foreign connection's challenge all fail -/
example : (run hdr2.init [.hs 0 .control (.idx 0) .none, .hs 0 .control (.idx 0) (.hmac 0 (.last 0)),
    .hs 0 .control (.idx 0) (.hmac 0 (.last 0)), .hs 1 .control (.idx 0) .none, .hs 1 .control (.idx 0) (.hmac 1 (.last 1)),
    .hs 1 .control (.idx 0) .none, .hs 1 .control (.idx 0) (.hmac 0 (.last 0)),
    .hs 1 .control (.idx 0) .none, .hs 1 .control (.idx 0) .none, .hs 1 .control (.idx 0) (.hmac 0 (.prev 1))]).map (·.resp) =
    [.ch 0, .ok, .fail, .ch 1, .fail, .ch 2, .fail, .ch 3, .ch 4, .fail] := by decide

/-- clients with unusable stored secrets: A usable, V sealed under another master key.  Phase 1 naming A yields a
challenge; phase 2 naming V fails under the empty key, V's ciphertext as key, V's legacy plaintext, A's key and
V's own original secret; V can even get a challenge of its own (its ciphertext is non-empty) and still fails. -/
example : (run (⟨1000, [0, 1], 2, 20, [.usable, .undec]⟩ : Hdr).init
    [.hs 0 .control (.idx 0) .none, .hs 0 .control (.idx 1) (.hmac .empty (.last 0)),
     .hs 0 .control (.idx 0) .none, .hs 0 .control (.idx 1) (.hmac (.cipher 1) (.last 0)),
     .hs 0 .control (.idx 0) .none, .hs 0 .control (.idx 1) (.hmac (.plain 1) (.last 0)),
     .hs 0 .control (.idx 0) .none, .hs 0 .control (.idx 1) (.hmac 0 (.last 0)),
     .hs 0 .control (.idx 1) .none, .hs 0 .control (.idx 1) (.hmac 1 (.last 0))]).map (·.resp) =
    [.ch 0, .fail, .ch 1, .fail, .ch 2, .fail, .ch 3, .fail, .ch 4, .fail] := by decide

/-- a legacy (plaintext-only) client is refused already in phase 1 -/
example : (run (⟨1000, [0], 1, 20, [.legacy]⟩ : Hdr).init [.hs 0 .control (.idx 0) .none]).map (·.resp) = [.fail] := by
  decide

/-- the predicate rejects an observation in which the empty key authenticates the client with the unusable secret -/
example : holds ⟨1000, [0, 1], 2, 20, [.usable, .undec]⟩
    [.hs 0 .control (.idx 0) .none, .hs 0 .control (.idx 1) (.hmac .empty (.last 0))]
    [⟨.ch 0, ⟨[some ⟨false, none, some 0⟩, none], [none, none], [false, false], [false, false]⟩⟩,
     ⟨.ok, ⟨[some ⟨true, some 1, none⟩, none], [none, some 0], [false, false], [false, false]⟩⟩] = false := by decide

/-- a blacklisted range blocks both addresses inside it (connections 0 and 1 on addresses 0 and 1 = range 0), also
after a restart, and no longer after the range is removed -/
example : (run hdr2.init [.blr 0, .fc 0 .control, .restart, .fc 1 .control, .hs 0 .control (.idx 0) .none,
    .unblr 0, .restart, .fc 1 .control]).map (·.resp) = [.na, .fail, .na, .fail, .fail, .na, .na, .new 2] := by decide

/-- the predicate rejects an observation in which an address inside a blacklisted range gets an identity after a restart -/
example : holds hdr2 [.blr 0, .restart, .fc 1 .control]
    [⟨.na, ⟨[none, none], [none, none], [false, false], [true, true]⟩⟩,
     ⟨.na, ⟨[none, none], [none, none], [false, false], [false, false]⟩⟩,
     ⟨.new 2, ⟨[none, some ⟨true, some 2, none⟩], [none, none, some 1], [false, false], [false, false]⟩⟩] = false := by decide

/-- whitelist before blacklist; a failing credential generator; credentials that expire and are made permanent -/
example : (run hdr2.init [.bl 0, .fc 0 .control, .wl 0, .fc 0 .control, .unwl 0, .fc 0 .control,
    .issue true, .fc 1 .control, .issue false, .fc 1 .control,
    .exp 1, .hs 1 .control (.idx 1) .none, .unexp 1, .hs 1 .control (.idx 1) .none]).map (·.resp) =
    [.na, .fail, .na, .new 2, .na, .fail, .na, .fail, .na, .new 3, .na, .fail, .na, .ch 0] := by decide

/-- a failed issuance counts as a failure of the address (five of them ban it) and never authenticates -/
example : ((run hdr2.init [.issue true, .fc 0 .control, .fc 0 .control, .fc 0 .control, .fc 0 .control, .fc 0 .control]).map
    (fun o => (o.st.conns, o.st.bans))).getLast? = some ([some ⟨false, none, none⟩, none], [true, false]) := by decide

/-- a permanent ban survives a later temporary ban and its lapse; a temporary ban does not -/
example : (run hdr2.init [.banp 0, .ban 0, .bans 0, .fc 0 .control, .ban 1, .bans 1, .fc 1 .control]).map (·.resp) =
    [.na, .na, .na, .fail, .na, .na, .new 2] := by decide

/-- the predicate rejects an observation in which a permanently banned address gets an identity after a short ban lapsed -/
example : holds hdr2 [.banp 0, .bans 0, .fc 0 .control]
    [⟨.na, ⟨[none, none], [none, none], [true, false], [false, false]⟩⟩,
     ⟨.na, ⟨[none, none], [none, none], [false, false], [false, false]⟩⟩,
     ⟨.new 2, ⟨[some ⟨true, some 2, none⟩, none], [none, none, some 0], [false, false], [false, false]⟩⟩] = false := by decide

/-- the predicate rejects an observation in which the server hands out a challenge value a second time -/
example : holds hdr2 [.hs 0 .control (.idx 0) .none, .hs 1 .control (.idx 0) .none]
    [⟨.ch 0, ⟨[some ⟨false, none, some 0⟩, none], [none, none], [false, false], [false, false]⟩⟩,
     ⟨.ch 0, ⟨[some ⟨false, none, some 0⟩, some ⟨false, none, some 0⟩], [none, none], [false, false], [false, false]⟩⟩] = false := by
  decide

/-- 40 phase-1 requests yield 40 different challenges -/
example : ((run hdr2.init (List.replicate 40 (.hs 1 .control (.idx 0) .none))).map (·.resp)) =
    (List.range 40).map .ch := by decide +kernel

/-- claiming a client keeps its expiry (an expired claimed client is refused), binding clears it, extending renews it -/
example : (run hdr2.init [.exp 0, .claim 0, .hs 0 .control (.idx 0) .none, .ext 0, .hs 0 .control (.idx 0) .none,
    .exp 0, .hs 0 .control (.idx 0) (.hmac 0 (.last 0)), .bind 0, .hs 0 .control (.idx 0) .none,
    .hs 0 .control (.idx 0) (.hmac 0 (.last 0))]).map (·.resp) =
    [.na, .na, .fail, .na, .ch 0, .na, .fail, .na, .ch 1, .ok] := by decide

/-- the predicate rejects an observation in which an expired, claimed client authenticates -/
example : holds hdr2 [.exp 0, .claim 0, .hs 0 .control (.idx 0) .none, .hs 0 .control (.idx 0) (.hmac 0 (.last 0))]
    [⟨.na, ⟨[none, none], [none, none], [false, false], [false, false]⟩⟩,
     ⟨.na, ⟨[none, none], [none, none], [false, false], [false, false]⟩⟩,
     ⟨.ch 0, ⟨[some ⟨false, none, some 0⟩, none], [none, none], [false, false], [false, false]⟩⟩,
     ⟨.ok, ⟨[some ⟨true, some 0, none⟩, none], [some 0, none], [false, false], [false, false]⟩⟩] = false := by decide

/-- phase 1 naming B, phase 2 naming A with A's key: the connection becomes A -/
example : ((run hdr2.init [.hs 0 .control (.idx 1) .none, .hs 0 .control (.idx 0) (.hmac 0 (.last 0))]).map
    (fun o => (o.resp, o.st.conns, o.st.lookups))).getLast? =
    some (.ok, [some ⟨true, some 0, none⟩, none], [some 0, none]) := by decide

/-- the predicate rejects an observation in which that connection ends up as B -/
example : holds hdr2 [.hs 0 .control (.idx 1) .none, .hs 0 .control (.idx 0) (.hmac 0 (.last 0))]
    [⟨.ch 0, ⟨[some ⟨false, none, some 0⟩, none], [none, none], [false, false], [false, false]⟩⟩,
     ⟨.ok, ⟨[some ⟨true, some 1, none⟩, none], [none, some 0], [false, false], [false, false]⟩⟩] = false := by decide

/-- the predicate is not trivially true: an observation in which the replayed response is accepted is rejected -/
example : holds hdr2 [.hs 0 .control (.idx 0) .none, .hs 0 .control (.idx 0) (.hmac 0 (.last 0)),
      .hs 0 .control (.idx 0) (.hmac 0 (.last 0))]
    [⟨.ch 0, ⟨[some ⟨false, none, some 0⟩, none], [none, none], [false, false], [false, false]⟩⟩,
     ⟨.ok, ⟨[some ⟨true, some 0, none⟩, none], [some 0, none], [false, false], [false, false]⟩⟩,
     ⟨.ok, ⟨[some ⟨true, some 0, none⟩, none], [some 0, none], [false, false], [false, false]⟩⟩] = false := by decide

/-- … nor one in which a failed message leaves the connection authenticated -/
example : holds hdr2 [.hs 0 .control (.idx 0) .none, .hs 0 .control (.idx 0) .junk]
    [⟨.ch 0, ⟨[some ⟨false, none, some 0⟩, none], [none, none], [false, false], [false, false]⟩⟩,
     ⟨.fail, ⟨[some ⟨true, some 0, none⟩, none], [none, none], [false, false], [false, false]⟩⟩] = false := by decide

/-- … nor one in which a banned address gets a new identity -/
example : holds hdr2 [.ban 0, .fc 0 .control]
    [⟨.na, ⟨[none, none], [none, none], [true, false], [false, false]⟩⟩,
     ⟨.new 2, ⟨[some ⟨true, some 2, none⟩, none], [none, none, some 0], [true, false], [false, false]⟩⟩] = false := by decide

/-- after a valid re-authentication under another id the old index entry is gone (C07's repair: `DropStaleIndex`
right after the handler returns, `unindexLocked` in `UpdateAuth`) -/
example : ((run hdr2.init [.hs 0 .control (.idx 0) .none, .hs 0 .control (.idx 0) (.hmac 0 (.last 0)),
    .hs 0 .control (.idx 1) .none, .hs 0 .control (.idx 1) (.hmac 1 (.last 0))]).map (·.st.lookups)).getLast? =
    some [none, some 0] := by decide

end Tunnox.C03
