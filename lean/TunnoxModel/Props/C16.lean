import TunnoxModel.Proofs.C16
import TunnoxModel.Proofs.C02
import TunnoxModel.Proofs.C16Start
import TunnoxModel.Proofs.C16Bg
import TunnoxModel.Proofs.C16Stats
/-!
# C16 — shutdown paths run exactly once and leave nothing running

Property (fixed text): closing any managed component, from any number of goroutines and in
any order relative to its own I/O finishing, runs each cleanup action and close callback
exactly once, reports traffic totals once, and makes later operations fail cleanly instead of
panicking; afterwards no goroutine or timer of the component remains.

Proved here, for EVERY number of callers and EVERY schedule (`s : Schedule` is universally
quantified; `…Final` = run `s`, then let every thread finish under a fair scheduler), about the
executable models the driver runs, with the `Spec.holds…` predicates the runner applies to the
implementation's observations:

* `C16_dispose`, `C16_dispose_safety`      the mutex-guarded close latch
* `C16_tunnel`, `C16_tunnel_safety`, `C16_tunnel_all_return`   `Tunnel.Close` (state CAS)
* `C16_report`                             `reportTrafficStats` (totals added exactly once)
* `C16_bridge`                             `Bridge.Close` + cleanup report vs periodic final report
* `C16_stream`                             `StreamProcessor.Close` vs in-flight I/O: no panic
* `…_asFound_witness`                      the code as found violates the same predicates
* `skel_*`, `consts_ok`                    the step decomposition is the one in today's source

Partial (observed by the harness only, not proved): "no goroutine or timer remains" (goroutine
dump diff, `leak` field) and absence of panics in code paths that are not modelled.
Model assumptions are listed in `checks/c16.py`.
-/
namespace Tunnox.C16
open Tunnox.Sched Gen

/-! ## Ties to the source (regenerated on every run) -/

theorem consts_ok :
    ctunnel.TunnelStateConnecting = 0 ∧ ctunnel.TunnelStateConnected = 1 ∧
    ctunnel.TunnelStateClosing = 2 ∧ ctunnel.TunnelStateClosed = 3 := by decide

/-- Lock, (deferred) unlock, cancel, handlers: the handlers run inside the latch. -/
theorem skel_dispose_close :
    Skel.Dispose_Close = ["currentLock.Lock", "currentLock.Unlock", "cancel", "runCleanHandlers"] := by decide

theorem skel_dispose_runCleanHandlers :
    Skel.Dispose_runCleanHandlers = ["linkLock.Lock", "copy", "linkLock.Unlock", "handler"] := by decide

/-- One load, one CAS, no unconditional store before the close sequence; `Store(Closed)` last. -/
theorem skel_tunnel_close :
    Skel.Tunnel_Close = ["state.Load", "state.CompareAndSwap", "Dispose.Close", "localConn.Close",
      "tunnelRWC.Close", "shouldNotifyPeer", "sendCloseNotification", "manager.UnregisterTunnel",
      "onClosed", "state.Store"] := by decide

/-- The whole report runs under `reportMu`. -/
theorem skel_report :
    Skel.Bridge_reportTrafficStats = ["reportMu.Lock", "reportMu.Unlock", "bytesSent.Load",
      "bytesReceived.Load", "lastReportedSent.Load", "lastReportedReceived.Load",
      "cloudControl.GetPortMapping", "cloudControl.UpdatePortMappingStats",
      "lastReportedSent.Store", "lastReportedReceived.Store"] := by decide

theorem skel_bridge_cleanup :
    Skel.Bridge_cleanup = ["reportTrafficStats", "quotaEnforcer.UnregisterMeter", "ReleaseCrossNodeConnection"] := by
  decide

/-- Every test-and-clear of `Bridge.Close` lies inside its mutex; the latch comes last. -/
theorem skel_bridge_close :
    Skel.C16_Bridge_Close = ["sourceConnMu.Lock", "sourceForwarder.Close", "sourceConnMu.Unlock",
      "tunnelConnMu.Lock", "targetForwarder.Close", "sourceTunnelConn.Close", "targetTunnelConn.Close",
      "sourceConn.Close", "targetConn.Close", "sourceStream.Close", "targetStream.Close",
      "tunnelConnMu.Unlock", "ManagerBase.Close"] := by decide

/-- `IsClosed` is consulted after the I/O lock is taken. -/
theorem skel_stream_locks :
    Skel.StreamProcessor_acquireReadLock = ["readLock.Lock", "Dispose.IsClosed", "readLock.Unlock", "readLock.Unlock"] ∧
    Skel.StreamProcessor_acquireWriteLock = ["writeLock.Lock", "Dispose.IsClosed", "writeLock.Unlock", "writeLock.Unlock"] := by
  decide

theorem skel_stream_onClose :
    Skel.StreamProcessor_onClose = ["bufferMgr.Close", "closer.Close", "closer.Close", "closer.Close", "closer.Close"] := by
  decide

/-! ## Dispose.Close -/

/-- **Exactly once, every schedule.** `n ≥ 1` callers of `Dispose.Close`, any interleaving:
every clean handler ran exactly once, `cancel` once, every caller received the complete error
list, the latch is closed. -/
theorem C16_dispose (errs : List Bool) (n : Nat) (hn : 1 ≤ n) (s : Schedule) :
    holdsD errs (dObs (dFinal errs n s)) = true :=
  holdsD_final errs n hn s

/-- Components that are "the latch plus background goroutines" (memory storage, SessionManager,
tunnel manager): for every schedule of `n ≥ 1` closers the component is closed and each of its
clean handlers (which stop the goroutines) ran exactly once. That the goroutines are really
gone is observed by the harness (`leak`). -/
theorem C16_manager (errs : List Bool) (n : Nat) (hn : 1 ≤ n) (s : Schedule) :
    holdsM (mObs (dFinal errs n s)) = true := by
  have h := C16_dispose errs n hn s
  simp only [holdsD, Bool.and_eq_true, beq_iff_eq] at h
  obtain ⟨⟨⟨h1, _⟩, h3⟩, _⟩ := h
  simp only [dObs] at h1 h3
  simp [holdsM, mObs, h1, h3]

/-- At every moment of every schedule no handler has run twice. -/
theorem C16_dispose_safety (errs : List Bool) (n : Nat) (s : Schedule) :
    ∀ x ∈ (run (dProg errs) s (dInit errs n)).sh.runs, x ≤ 1 := by
  have hinv : DInv errs (run (dProg errs) s (dInit errs n)) :=
    inv_run _ _ (dInv_step errs) _ _ (dInv_init errs n)
  intro x hx
  cases hcl : (run (dProg errs) s (dInit errs n)).sh.closed with
  | false => rw [(hinv.opn hcl).1] at hx; have := (List.mem_replicate.mp hx).2; omega
  | true => rw [(hinv.cls hcl).1] at hx; have := (List.mem_replicate.mp hx).2; omega

/-! ## Tunnel.Close -/

/-- **Exactly once, every schedule.** Any non-empty crowd of callers of the repaired
`Tunnel.Close` (explicit closers, peer notification, idle timeout, copy finished, context
cancellation — each is a call with its own reason), from `Connecting` or `Connected`, any
interleaving: `onClosed` ran once with the reason of one of the callers, the peer was
notified iff that reason requires it, the dispose handlers ran once, the tunnel was
unregistered once, the state is `Closed`. -/
theorem C16_tunnel (cfg : TCfg) (init : Nat) (hinit : init ≤ 1) (reasons : List Nat)
    (hne : reasons ≠ []) (s : Schedule) :
    holdsT cfg reasons (tObs (tFinal .repaired cfg init reasons s)) = true := by
  obtain ⟨⟨r, hr, hsh⟩, _⟩ := t_final cfg init hinit reasons hne s
  have := holdsT_after cfg reasons r hr (tFinal .repaired cfg init reasons s).ths
  rw [← hsh] at this
  exact this

/-- Every caller returns (no caller spins in the CAS retry loop). -/
theorem C16_tunnel_all_return (cfg : TCfg) (init : Nat) (hinit : init ≤ 1) (reasons : List Nat)
    (hne : reasons ≠ []) (s : Schedule) (i : Nat) (l : TLocal)
    (h : (tFinal .repaired cfg init reasons s).ths[i]? = some l) : l.pc = TPc.done :=
  (t_final cfg init hinit reasons hne s).2 i l h

/-- At every moment of every schedule (no drain): nothing has run twice. -/
theorem C16_tunnel_safety (cfg : TCfg) (init : Nat) (hinit : init ≤ 1) (reasons : List Nat) (s : Schedule) :
    ((run (tProg .repaired cfg) s (tInit init reasons)).sh.k.onClosed.length ≤ 1) ∧
    ((run (tProg .repaired cfg) s (tInit init reasons)).sh.k.disposeRuns ≤ 1) ∧
    ((run (tProg .repaired cfg) s (tInit init reasons)).sh.k.unregOk ≤ 1) ∧
    ((run (tProg .repaired cfg) s (tInit init reasons)).sh.k.notifies ≤ 1) := by
  have hinv := inv_run _ _ (tInv_step cfg init hinit reasons) s _ (tInv_init cfg init reasons)
  have := t_shapes cfg init reasons _ hinv
  rcases this with h | h | ⟨r, _, h | h⟩ <;> rw [h] <;>
    simp [tOpen, tClosing, tAfter, closeBody, zeroCounts] <;> split <;> omega

/-- The code as found: two callers that both load `Connected` both run the close sequence. -/
theorem C16_tunnel_asFound_witness :
    holdsT ⟨0, true⟩ [0, 3] (tObs (tFinal .asFound ⟨0, true⟩ 1 [0, 3] [0, 1, 0, 1])) = false := by
  decide

/-! ## Tunnel.Start ‖ Tunnel.Close -/

/-- `Start` binds the context (`SetCtx`, reading `manager.Ctx()`) BEFORE the state CAS; the log
call and the three spawns come after it. -/
theorem skel_tunnel_start :
    Skel.Tunnel_Start = ["SetCtx", "manager.Ctx", "state.CompareAndSwap", "corelog.Infof",
      "monitorPeerNotification", "monitorTimeout", "runDataCopy"] := by decide

/-- **Every interleaving of `Start`'s steps** (`manager.Ctx()`, `SetCtx`, state CAS, spawn — the
current order) **with any number `n ≥ 1` of `Close` calls**: after all calls returned the tunnel
is `Closed`, the close sequence ran exactly once, nothing that `Start` spawned is left with a
live context (monitors and timer end on cancellation, the copy ends on the closed connections),
and if `Start` reported success the tunnel's context is cancelled and its latch closed.
(With no closer the tunnel ends `Connected` with nothing closed: first disjunct of `holdsU`,
see the example below.) -/
theorem C16_start_close (n : Nat) (hn : 1 ≤ n) (s : Schedule) :
    holdsU (uObs (uFinal .setCtxFirst n s)) = true :=
  holdsU_final n hn s

/-- Every call returns. -/
theorem C16_start_close_all_return (n : Nat) (hn : 1 ≤ n) (s : Schedule) (i : Nat) (l : ULocal)
    (h : (uFinal .setCtxFirst n s).ths[i]? = some l) : l.pc = UPc.done :=
  (u_final n hn s).2.2.2.2 i l h

/-- The rejected order "CAS, then `manager.Ctx()`/`SetCtx`": a `Close` that completes between the
CAS and `SetCtx` leaves the monitors and the 5-minute timer of a closed tunnel running on a live
context (schedule: Start's CAS, the closer's four steps, the rest of Start). -/
theorem C16_start_casFirst_witness :
    holdsU (uObs (uFinal .casFirst 1 [0, 1, 1, 1, 1, 0, 0, 0])) = false := by decide

/-! ## Close against a background loop that is mid-tick -/

/-- **Every interleaving** of the storage cleaner's loop (`select`, tick body under the storage
lock, re-reading the stop channel; any number `k` of pending ticks, a ready tick always preferred)
with `n ≥ 1` `Close` calls (dispose latch, `StopCleanup` under the storage lock) while pending I/O
holds the storage lock until it is unblocked: when everything has returned the cleaner's
goroutine is gone and the storage is closed. -/
theorem C16_background (k n : Nat) (hn : 1 ≤ n) (s : Schedule) :
    holdsG (gObs (gFinal .keep k n s)) = true :=
  holdsG_final k n hn s

/-- The rejected `StopCleanup` that installs a fresh stop channel after closing the old one: a
cleaner that is inside its tick body while `StopCleanup` runs comes back to a `select` on the new,
never-closed channel (schedule: cleaner enters a tick, closer takes the latch, reader unblocks,
`StopCleanup`, cleaner finishes the tick). -/
theorem C16_background_replace_witness :
    holdsG (gObs (gFinal .replace 1 1 [1, 1, 2, 2, 0, 2, 1, 1, 1])) = false := by decide

/-! ## Bridge.Close and late attaches -/

/-- **Every history and every interleaving** of any number of `Bridge.Close` callers with any
number of `SetSourceConnection` / `SetTargetConnection` calls (`pcs` = which thread does what,
`s` = the schedule, not even required to let them finish), for the code before and after /repo
20329a5 (`refuse`): once one more `Close` — the last one, `runBridgeLifecycle`'s deferred `Close` —
has run, no connection is left attached, and every connection ever handed to the bridge was closed
exactly once (by a `Close`, or by the setter that turned it away) or had been overwritten by a
later attach while still attached (`lost`: source re-attach on a live bridge only). -/
theorem C16_bridge_attach (refuse : Bool) (pcs : List APc) (s : Schedule) :
    holdsA (aObs (closeSeq false (run (aProg false refuse) s (aInit pcs)).sh)) = true :=
  holdsA_closeSeq _ (aInv_run refuse pcs s)

/-- With the refusal in place a late or duplicate TARGET attachment never overwrites anything. -/
theorem C16_bridge_attach_no_lost_target (pcs : List APc) (s : Schedule) :
    (run (aProg false true) s (aInit pcs)).sh.lostT = 0 := by
  have : ∀ (s : Schedule) (c : Cfg AShared APc), c.sh.lostT = 0 → (run (aProg false true) s c).sh.lostT = 0 := by
    intro s
    induction s with
    | nil => intro c h; exact h
    | cons j s ih =>
      intro c h
      apply ih
      cases hl : c.ths[j]? with
      | none => rw [stepAt_none _ _ _ hl]; exact h
      | some l =>
        rw [stepAt_some _ c j l hl]
        cases l <;> simp only [aProg, aStep] <;> (try split) <;> (try exact h)
        rename_i hn
        simp only [Bool.true_and, Bool.or_eq_true, not_or, Bool.not_eq_true] at hn
        simp [hn.2, b2n, h]
  exact this s _ rfl

/-- The rejected "already closed → return" guard at the top of `Close`, on the code before the
setters refused late attachments: Close, then a target attaches, then the last Close — the target
connection is never closed.  (With the refusal of 20329a5 the late connection is closed by
`SetTargetConnection` itself, whatever `Close` does afterwards.) -/
theorem C16_bridge_attach_guard_witness :
    holdsA (aObs (closeSeq true (run (aProg true false) [0, 0, 0, 1] (aInit [.a1, .attT])).sh)) = false := by
  decide

/-! ## Client mapping handler: traffic totals of finished tunnels -/

/-- The pending totals are claimed (`Swap`) before `TrackTraffic` is called; the adds are the rollback. -/
theorem skel_mapping_reportStats :
    Skel.Mapping_reportStats = ["BytesSent.Swap", "BytesReceived.Swap", "client.TrackTraffic",
      "BytesSent.Add", "BytesReceived.Add"] := by decide

/-- **Every interleaving** of any number of `reportStats` callers — ticks of `reportStatsLoop`, the
final report of the handler's close cleanup — each with a succeeding or a failing `TrackTraffic`
(`fails`), on any accumulated totals `a`, `b`: when all have returned, what was handed to successful
`TrackTraffic` calls plus what is still pending equals `a` / `b` (each byte reported at most once,
none lost), the pending counters are not negative, and with no failing call and at least one
report nothing is pending (reported exactly once). -/
theorem C16_client_report (a b : Nat) (fails : List Bool) (s : Schedule) :
    holdsP a b fails (pObs (pFinal .swap a b fails s)) = true :=
  holdsP_final a b fails s

/-- The rejected "Load, TrackTraffic, subtract afterwards": the periodic report is inside
`TrackTraffic` when the final report reads the same totals. -/
theorem C16_client_report_loadSub_witness :
    holdsP 1000 500 [false, false] (pObs (pFinal .loadSub 1000 500 [false, false] [0, 0, 1, 1, 1, 1, 0, 0])) = false := by
  decide

/-! ## ResourceManager.DisposeAll -/

/-- **Any mix of `Register` and `DisposeAll` calls (on a manager that already holds `pre` resources),
every interleaving**, followed by the last `DisposeAll`: every resource ever registered has been
disposed — the totals show exactly once each — and the map is empty. -/
theorem C16_resource_manager (pre : Nat) (pcs : List MPc) (h : ∀ p ∈ pcs, p = MPc.reg ∨ p = MPc.d1)
    (s : Schedule) : holdsM2 (rmObs (mFinal pre pcs s)) = true :=
  holdsM2_final pre pcs h s

/-- **`DisposeWithTimeout`, every schedule** — the deadline fires before or after the disposal, the
slow resource's `Dispose` is unblocked at any moment: when everything has run, the resource was
disposed exactly once and the helper goroutine that ran `DisposeAll` is gone (its result goes into
a 1-slot buffered channel, so nobody has to be there to receive it). -/
theorem C16_dispose_with_timeout (s : Schedule) : holdsH (hObs (hFinal true s)) = true :=
  holdsH_final s

/-- The rejected unbuffered result channel: the deadline wins, the caller is gone, the resource is
unblocked, the helper disposes it and then waits forever for a receiver. -/
theorem C16_dispose_with_timeout_unbuffered_witness :
    holdsH (hObs (hFinal false [1, 2, 0, 3, 3])) = false := by decide

/-! ## Known finding: two bridges of one mapping -/

/-- KNOWN FINDING (`K:crossbridge-lost-update`): the read-modify-write of the mapping's statistics
spans two storage calls and `reportMu` is per bridge; when two bridges of the same mapping overlap
between `GetPortMapping` and `UpdatePortMappingStats`, one delta is lost (reported zero times).
`C16_report` covers one bridge; sequential reports of several bridges are fine (example below). -/
theorem C16_crossbridge_asFound_witness :
    holdsX [100, 7] (xFinal [100, 7] [0, 1, 0, 1]).sh = false := by decide

/-! ## Later operations fail cleanly -/

/-- **Any mix of closers, writers and readers of a table the cleanup does not take away, every
interleaving, at every moment**: no operation panics and the table is still there. (The harness
sweeps every plain-argument exported method of SessionManager, memory storage, StreamProcessor,
Bridge, Tunnel and TunnelManager after and during Close: `api`.) -/
theorem C16_later_ops_clean (pcs : List KPc) (s : Schedule) :
    holdsK (run (kProg false) s (kInit pcs)).sh.panics = true ∧
    (run (kProg false) s (kInit pcs)).sh.tableSet = true := by
  have : ∀ (s : Schedule) (c : Cfg KShared KPc), c.sh.panics = 0 ∧ c.sh.tableSet = true →
      (run (kProg false) s c).sh.panics = 0 ∧ (run (kProg false) s c).sh.tableSet = true := by
    intro s
    induction s with
    | nil => intro c h; exact h
    | cons j s ih =>
      intro c h
      apply ih
      cases hl : c.ths[j]? with
      | none => rw [stepAt_none _ _ _ hl]; exact h
      | some l =>
        rw [stepAt_some _ c j l hl]
        obtain ⟨h1, h2⟩ := h
        cases l <;> simp only [kProg, kStep, h2, if_true] <;> (try split) <;> simp_all
  have h := this s (kInit pcs) ⟨rfl, rfl⟩
  exact ⟨by simp [holdsK, h.1], h.2⟩

/-- The rejected cleanup that sets the table to nil while writers still assign into it
(`SessionManager.onClose` + `MarkTunnelClosed`; the memory storage before fix 7b22a64): Close, then
a write. -/
theorem C16_later_ops_nil_table_witness :
    holdsK (run (kProg true) [0, 1] (kInit [.close, .write])).sh.panics = false := by decide

/-! ## Traffic report -/

/-- **Totals reported exactly once, every schedule.** Any list of rounds (bytes counted, then any
number of concurrent `reportTrafficStats` calls under any interleaving): after each round the
mapping's totals equal the last-reported counters, never exceed the bytes counted, and equal
them whenever at least one report ran. -/
theorem C16_report (rs : List Round) :
    holdsR 0 0 rs ((rRounds .repaired rInit rs).map rObs) = true :=
  r_rounds rs rInit rGlobal_init rfl

/-- The code as found: two reporters compute the same delta, the second adds it again. -/
theorem C16_report_asFound_witness :
    holdsR 0 0 [mkRound 100 7 2 [0, 1, 0, 0]] ((rRounds .asFound rInit [mkRound 100 7 2 [0, 1, 0, 0]]).map rObs) = false := by
  decide

/-! ## Bridge.Close -/

/-- **Every schedule of `n ≥ 1` `Bridge.Close` callers** (explicit, or the copy goroutines'
`closeOnce`): each connection object was closed as often as a single `Close` closes it, cleanup
ran once; and under every interleaving `s₂` of cleanup's report with the periodic goroutine's
final report the bytes counted are in the mapping's totals exactly once. -/
theorem C16_bridge (bs br n : Nat) (hn : 1 ≤ n) (s s₂ : Schedule) :
    holdsB bs br (bObs (bFinal n s)
      (rRound .repaired rInit (mkRound bs br (2 * (bFinal n s).sh.cleanups) s₂))) = true := by
  have hinv := bInv_final n s
  have hlen : (bFinal n s).ths.length = n := by unfold bFinal; rw [run_length]; simp [bInit]
  have h0 : (bFinal n s).ths[0]? = some ((bFinal n s).ths[0]'(by omega)) := List.getElem?_eq_getElem (by omega)
  have hd := b_all_done n s 0 _ h0
  rw [hd] at h0
  obtain ⟨f1, f2, f3, f4, f5, f6, f7⟩ := hinv.done 0 h0
  have a1 := hinv.sc
  have a2 := hinv.tc
  have a3 := hinv.stc
  have a4 := hinv.ttc
  have a5 := hinv.cl
  rw [f1, f2] at a1
  rw [f3, f4] at a2
  rw [f5] at a3
  rw [f6] at a4
  rw [f7] at a5
  simp only [b2n, Bool.not_true, Bool.false_eq_true, if_false, Nat.add_zero] at a1 a2 a3 a4 a5
  obtain ⟨g, _, _, _, hl⟩ := r_round rInit (mkRound bs br (2 * (bFinal n s).sh.cleanups) s₂) rGlobal_init rfl
  obtain ⟨l1, l2⟩ := hl (by
    have h2 : 2 * (bFinal n s).sh.cleanups = 2 := by omega
    simp [mkRound, h2, Round.clean, List.range_succ])
  have e1 := g.statS
  have e2 := g.statR
  rw [show rInit.sent = 0 from rfl, Nat.zero_add] at l1
  rw [show rInit.recv = 0 from rfl, Nat.zero_add] at l2
  simp [holdsB, bObs, a1, a2, a3, a4, f7, e1, e2, l1, l2]

/-! ## Data in flight -/

/-- **Every read script, every write script, every exit of the copy loop** (EOF, endpoint read or
write error, short write, `Bridge.Close` closing the endpoints, parent-context cancellation
noticed by the periodic check with a non-empty pending batch) **and every interleaving `s₂`** of
cleanup's report with the periodic goroutine's final report: the bridge's byte counter equals the
bytes the destination accepted, and the mapping's totals equal that same number — each byte is
reported exactly once. Reuses C02's model of `CopyWithControl` (`copyFrom_spec`). -/
theorem C16_flow (i : FlowIn) (s₂ : Schedule) (lateFlush : Bool) :
    holdsF lateFlush (fObs i s₂) = true := by
  obtain ⟨p, hd, _, _, hc, _, _⟩ := C02.copyFrom_spec none 0 false i.reads i.writes {}
  have hcnt : (flowCopy i).counter = (flowCopy i).delivered.length := by
    simp only [flowCopy, C02.copy]
    rw [hc, hd]; simp
  obtain ⟨g, _, _, _, hl⟩ := r_round rInit (mkRound (flowCopy i).counter 0 2 s₂) rGlobal_init rfl
  obtain ⟨l1, l2⟩ := hl (by simp [mkRound, Round.clean, List.range_succ])
  have hdef : ∀ j : FlowIn, fObs j s₂ = fObsOf (flowCopy j) (flowReportOf (flowCopy j).counter s₂) := fun _ => rfl
  simp only [show rInit.sent = 0 from rfl, show rInit.recv = 0 from rfl, Nat.zero_add] at l1 l2
  have e1 := g.statS
  have e2 := g.statR
  rw [hcnt] at e1 e2 l1 l2
  rw [l1] at e1
  rw [l2] at e2
  cases lateFlush <;> simp [holdsF, fObs, fObsOf, flowReport, flowReportOf, e1, e2, hcnt]

/-! ## StreamProcessor.Close -/

/-- **Every schedule** of any in-flight reads/writes (each any number of transport calls) and
`n ≥ 1` callers of the repaired `StreamProcessor.Close`: no panic, reader and writer closed
exactly once, the processor is closed (so later operations are refused). -/
theorem C16_stream (ops : List (Bool × Nat)) (n : Nat) (hn : 1 ≤ n) (s : Schedule) :
    holdsS (sObs (sFinal .repaired ops n s)) = true :=
  holdsS_final ops n hn s

/-- The code as found: a read between two transport calls while `Close` nils the field panics. -/
theorem C16_stream_asFound_witness :
    holdsS (sObs (sFinal .asFound [(false, 4)] 1 [0, 0, 0, 1, 1, 1])) = false := by
  decide

/-! ## Non-vacuity: concrete runs of the models that the theorems speak about -/

example : (tFinal .repaired ⟨0, true⟩ 1 [0, 3] [0, 1, 0, 1]).sh.k.onClosed.length = 1 := by decide
example : (tFinal .asFound ⟨0, true⟩ 1 [0, 3] [0, 1, 0, 1]).sh.k.onClosed = [0, 3] := by decide
example : (dObs (dFinal [true, false, true] 3 [2, 0, 1, 1, 2])).runs = [1, 1, 1] := by decide
example : ((rRounds .repaired rInit [mkRound 100 7 2 [0, 1, 0, 0]]).map rObs) = [⟨100, 7, 1, 100, 7⟩] := by decide
example : ((rRounds .asFound rInit [mkRound 100 7 2 [0, 1, 0, 0]]).map rObs) = [⟨200, 14, 2, 100, 7⟩] := by decide
example : (sObs (sFinal .repaired [(false, 4)] 1 [0, 0, 0, 1, 1, 1])).op = 2 := by decide
example : (sObs (sFinal .asFound [(false, 4)] 1 [0, 0, 0, 1, 1, 1])).op = 3 := by decide
example : (fObs ⟨[{ data := [1, 2, 3], err := none }, { data := [4], err := none }], []⟩ [0, 1, 1]).statS = 4 := by decide
example : uObs (uFinal .setCtxFirst 0 []) = ⟨1, 0, true, 0, false, false⟩ := by decide
example : holdsU (uObs (uFinal .setCtxFirst 0 [])) = true := by decide
example : uObs (uFinal .setCtxFirst 1 [0, 0, 0, 1, 1, 1, 1, 0]) = ⟨3, 1, true, 0, true, true⟩ := by decide
example : uObs (uFinal .setCtxFirst 1 [1, 1, 1, 1]) = ⟨3, 1, false, 0, false, false⟩ := by decide
example : uObs (uFinal .casFirst 1 [0, 1, 1, 1, 1, 0, 0, 0]) = ⟨3, 1, true, 2, false, false⟩ := by decide
example : holdsG (gObs (gFinal .keep 1 1 [1, 1, 2, 2, 0, 2, 1, 1, 1])) = true := by decide
example : (gFinal .replace 1 1 [1, 1, 2, 2, 0, 2, 1, 1, 1]).ths[1]? = some ⟨GPc.wait, 0, 1⟩ := by decide
example : aObs (closeSeq false (run (aProg false true) [0, 0, 0, 1] (aInit [.a1, .attT])).sh) = ⟨1, 1, 1, 1, 0, 0, 0⟩ := by decide
example : aObs (closeSeq false (run (aProg false true) [0, 1] (aInit [.attT, .attT])).sh) = ⟨1, 1, 2, 2, 0, 0, 0⟩ := by decide
example : aObs (closeSeq true (run (aProg true false) [0, 0, 0, 1] (aInit [.a1, .attT])).sh) = ⟨1, 1, 1, 0, 0, 0, 1⟩ := by decide
example : pObs (pFinal .swap 1000 500 [false, false] [0, 0, 1, 1, 1, 1, 0, 0]) = ⟨1000, 500, 0, 0, 1, 0⟩ := by decide
example : pObs (pFinal .loadSub 1000 500 [false, false] [0, 0, 1, 1, 1, 1, 0, 0]) = ⟨2000, 1000, -1000, -500, 2, 0⟩ := by decide
example : pObs (pFinal .swap 7 0 [true, false] [0, 0, 0, 0, 1, 1, 1]) = ⟨7, 0, 0, 0, 2, 0⟩ := by decide
example : pObs (pFinal .swap 7 0 [true, false] [0, 0, 0, 1, 1]) = ⟨0, 0, 7, 0, 1, 0⟩ := by decide
example : holdsX [100, 7] (xFinal [100, 7] [0, 0, 1, 1]).sh = true := by decide
example : rmObs (mFinal 2 [.d1, .reg, .d1, .reg] [0, 1, 2, 0, 3, 0, 2]) = ⟨4, 4, 0, 0⟩ := by decide +kernel
example : ((rRounds .repaired rInit [⟨100, 7, 2, [0, 0, 0, 1], [0], []⟩, mkRound 1 1 1 []]).map rObs)
    = [⟨100, 7, 1, 100, 7⟩, ⟨101, 8, 2, 101, 8⟩] := by decide
example : (run (kProg false) [0, 1, 2] (kInit [.close, .write, .read])).sh = ⟨true, true, 1, 0⟩ := by decide
example : hObs (hFinal true [1, 2, 0, 3, 3]) = ⟨true, 1, 0⟩ := by decide
example : hObs (hFinal true [0, 3, 3, 2]) = ⟨false, 1, 0⟩ := by decide
example : hObs (hFinal false [1, 2, 0, 3, 3]) = ⟨true, 1, 1⟩ := by decide
example : (bFinal 3 [0, 1, 2, 2, 1, 0]).sh.sc = 2 ∧ (bFinal 3 [0, 1, 2, 2, 1, 0]).sh.cleanups = 1 := by decide

end Tunnox.C16
