import TunnoxModel.Spec.C16
namespace Tunnox.C16
theorem stub : True := trivial
end Tunnox.C16
