import TunnoxModel.Proofs.C08RS
import TunnoxModel.Gen.ConnState
/-!
# C08 — cross-node lookup finds a connected client at its current node

Property text (fixed): whenever a client holds a live authenticated control connection somewhere in the
cluster and keeps it alive with heartbeats, any node asking the shared store where that client is obtains
the node and connection of its most recent successful handshake, whichever storage backend is configured and
in whatever order older connections on other nodes are cleaned up.  Once the client's last connection is
closed, the lookup reports it as not connected.

All theorems are about the executable model the driver runs (`Model/C08.lean`, variant `repaired`), quantify
over every history of events (any number of nodes, clients and connections, any interleaving, any clock
advances), every backend value shape and every record lifetime, and are stated with the `holds` predicate of
`Spec/C08.lean` — the predicate the runner evaluates on the implementation's observations.

Built-in scope (no hypothesis needed, it is how events are written): a connection id `(node, client, serial)`
belongs to one node and is used by one client; one event = one handler call.
-/
namespace Tunnox.C08

/-! ## Main theorem -/

/-- **C08.**  For every backend shape, every configured lifetime (`0` = the 5 minute default), every number of
nodes, every set of watched clients and every history of open / handshake (accepted or refused, control or
tunnel type) / heartbeat / close / clock events, the observations of the model satisfy `holds`:
after every event, on every node, (A) a client whose latest successful handshake is on a connection that is
still open and was kept alive (handshake/heartbeats at most `ttl` apart) is found at exactly that node and
connection; (B) every other answer is "not connected" or an open connection of that client with its own
node — in particular "not connected" once all its connections are closed; (C)/(D) `SendCommandToClient`
routes accordingly. -/
theorem lookup_finds_current_node (shape : Shape) (ttl nn : Nat) (clients : List Nat) (evs : List Ev) :
    holds (effTTL ttl) nn clients evs (run ⟨repaired, shape, effTTL ttl, 90000⟩ nn clients evs) = true := by
  have httl : 0 < effTTL ttl := by unfold effTTL; split <;> omega
  exact holdsFrom_run (P := ⟨repaired, shape, effTTL ttl, 90000⟩) rfl httl nn clients evs _ _ Inv.init (RSInv.init _)

/-! ## The same facts, stated on the state reached by a history -/

/-- Reference bookkeeping and model state after a history, in lockstep. -/
def reachFrom (P : Params) : SpecSt → St → List Ev → SpecSt × St
  | S, M, [] => (S, M)
  | S, M, e :: es => reachFrom P (specStep P.ttl P.rsTtl S (stepOk M e) e) (step P M e) es

def reach (P : Params) (evs : List Ev) : SpecSt × St := reachFrom P SpecSt.init St.init evs

theorem reachFrom_inv {P : Params} (hv : P.v = repaired) (httl : 0 < P.ttl) :
    ∀ (evs : List Ev) (S : SpecSt) (M : St), Inv S M → Inv (reachFrom P S M evs).1 (reachFrom P S M evs).2 := by
  intro evs
  induction evs with
  | nil => intro S M h; exact h
  | cons e es ih => intro S M h; exact ih _ _ (h.step hv httl e)

theorem reach_inv {P : Params} (hv : P.v = repaired) (httl : 0 < P.ttl) (evs : List Ev) :
    Inv (reach P evs).1 (reach P evs).2 := reachFrom_inv hv httl evs _ _ Inv.init

theorem reachFrom_append (P : Params) (S : SpecSt) (M : St) (a b : List Ev) :
    reachFrom P S M (a ++ b) = reachFrom P (reachFrom P S M a).1 (reachFrom P S M a).2 b := by
  induction a generalizing S M with
  | nil => rfl
  | cons e es ih => exact ih _ _

/-- (A) After any history: if the latest successful handshake of `x` was on `c`, `c` is not closed and the
registration was kept alive (`now ≤ until`), the lookup answers `(c.node, c)` — for every backend shape. -/
theorem finds_latest_handshake {P : Params} (hv : P.v = repaired) (httl : 0 < P.ttl) (evs : List Ev)
    {x : Nat} {c : Conn} {u : Nat}
    (hl : LMap.lookup (reach P evs).1.latest x = some (c, u)) (hu : (reach P evs).1.now ≤ u) :
    findClientNode P (reach P evs).2.now (reach P evs).2.store x = .found c.node c :=
  find_live hv (reach_inv hv httl evs) hl hu

/-- (B) After any history: the lookup never names a closed connection, a connection of another client or a
wrong node. -/
theorem never_reports_closed {P : Params} (hv : P.v = repaired) (httl : 0 < P.ttl) (evs : List Ev)
    {x n : Nat} {c : Conn}
    (hf : findClientNode P (reach P evs).2.now (reach P evs).2.store x = .found n c) :
    c ∈ (reach P evs).1.opened ∧ c.client = x ∧ n = c.node := by
  have hx : x ≠ 0 := by
    intro e; subst e; simp [findClientNode] at hf
  rcases find_cases hv (reach_inv hv httl evs) hx with he | ⟨c', he, hcx, hco⟩
  · rw [he] at hf; cases hf
  · rw [he] at hf; injection hf with h1 h2; subst h2; exact ⟨hco, hcx, h1.symm⟩

/-- (B) Once every connection of client `x` is closed, the lookup reports "not connected". -/
theorem not_connected_after_last_close {P : Params} (hv : P.v = repaired) (httl : 0 < P.ttl) (evs : List Ev)
    {x : Nat} (hx : x ≠ 0) (hclosed : ∀ c, c ∈ (reach P evs).1.opened → c.client ≠ x) :
    findClientNode P (reach P evs).2.now (reach P evs).2.store x = .notFound := by
  rcases find_cases hv (reach_inv hv httl evs) hx with he | ⟨c, _, hcx, hco⟩
  · exact he
  · exact absurd hcx (hclosed c hco)

/-- The end of another connection — by any of the paths of `CloseKind`, whatever the entry point reports —
leaves the reference obligation of `x` untouched. -/
theorem latest_after_close {ttl rsTtl : Nat} {S : SpecSt} {x : Nat} {c c' : Conn} {u : Nat} (k : CloseKind) (r : Bool)
    (hl : LMap.lookup S.latest x = some (c, u)) (hne : c' ≠ c) :
    LMap.lookup (specStep ttl rsTtl S r (.close c' k)).latest x = some (c, u) := by
  simp only [specStep_latest, specStepCore]
  cases r with
  | false => exact hl
  | true =>
    simp only [if_true, specClose]
    cases hl' : LMap.lookup S.latest c'.client with
    | none => exact hl
    | some p =>
      simp only
      by_cases hp : p.1 = c'
      · simp only [hp, if_true]
        by_cases hx : c'.client = x
        · subst hx; rw [hl] at hl'; injection hl' with hl'; subst hl'; exact absurd hp.symm hne
        · rw [LMap.lookup_erase_ne _ hx]; exact hl
      · simp only [hp, if_false]; exact hl

/-- **Late cleanup in any order, by any path.**  After any history in which `x`'s registration on `c` is valid,
any sequence of connection endings for connections other than `c` — on any nodes, in any order, each by any of
the paths (direct `CloseConnection`, adapter read-loop end, Disconnect command, heartbeat-timeout sweep): old nodes
noticing late that the client moved — leaves the lookup at `(c.node, c)`. -/
theorem late_cleanups_any_order {P : Params} (hv : P.v = repaired) (httl : 0 < P.ttl) (evs : List Ev)
    {x : Nat} {c : Conn} {u : Nat}
    (hl : LMap.lookup (reach P evs).1.latest x = some (c, u)) (hu : (reach P evs).1.now ≤ u)
    (late : List (Conn × CloseKind)) (hlate : ∀ p, p ∈ late → p.1 ≠ c) :
    findClientNode P (reach P (evs ++ late.map (fun p => .close p.1 p.2))).2.now
      (reach P (evs ++ late.map (fun p => .close p.1 p.2))).2.store x = .found c.node c := by
  have key : ∀ (late : List (Conn × CloseKind)) (S : SpecSt) (M : St), (∀ p, p ∈ late → p.1 ≠ c) →
      LMap.lookup S.latest x = some (c, u) → S.now ≤ u →
      LMap.lookup (reachFrom P S M (late.map (fun p => .close p.1 p.2))).1.latest x = some (c, u) ∧
      (reachFrom P S M (late.map (fun p => .close p.1 p.2))).1.now ≤ u := by
    intro late
    induction late with
    | nil => intro S M _ h1 h2; exact ⟨h1, h2⟩
    | cons p r ih =>
      intro S M hne h1 h2
      simp only [List.map_cons, reachFrom]
      refine ih _ _ (fun d hd => hne d (List.mem_cons_of_mem _ hd)) ?_ ?_
      · exact latest_after_close _ _ h1 (hne p (List.mem_cons_self ..))
      · have : (specStep P.ttl P.rsTtl S (stepOk M (.close p.1 p.2)) (.close p.1 p.2)).now = S.now := by
          simp only [specStep_now, specStepCore]; split <;> rfl
        rw [this]; exact h2
  have hk := key late (reach P evs).1 (reach P evs).2 hlate hl hu
  have he : reach P (evs ++ late.map (fun p => .close p.1 p.2)) =
      reachFrom P (reach P evs).1 (reach P evs).2 (late.map (fun p => .close p.1 p.2)) := reachFrom_append P _ _ evs _
  rw [he]
  have hinv := reachFrom_inv hv httl (late.map (fun p => .close p.1 p.2)) _ _ (reach_inv hv httl evs)
  exact find_live hv hinv hk.1 hk.2

/-- **Every way a connection ends cleans up.**  Whatever the history, after the event `close c k` of ANY kind
that reports having closed the connection (direct call and read-loop end always do; the Disconnect command and
the sweep do when the registry still held the connection) the records of `c` are gone: the lookup of `c`'s
client does not answer `c` any more — and answers "not connected" if `c` was the client's last open connection. -/
theorem closed_connection_is_forgotten {P : Params} (hv : P.v = repaired) (httl : 0 < P.ttl) (evs : List Ev)
    (c : Conn) (k : CloseKind) (hr : stepOk (reach P evs).2 (.close c k) = true) :
    (∀ n, findClientNode P (reach P (evs ++ [.close c k])).2.now (reach P (evs ++ [.close c k])).2.store c.client
        ≠ .found n c) ∧
    ((∀ d, d ∈ (reach P evs).1.opened → d.client = c.client → d = c) → c.client ≠ 0 →
      findClientNode P (reach P (evs ++ [.close c k])).2.now (reach P (evs ++ [.close c k])).2.store c.client
        = .notFound) := by
  have hop : (reach P (evs ++ [.close c k])).1.opened = rm c (reach P evs).1.opened := by
    show (reachFrom P _ _ (evs ++ [.close c k])).1.opened = _
    rw [reachFrom_append]
    simp only [reachFrom, specStep]
    rw [show stepOk (reachFrom P SpecSt.init St.init evs).2 (.close c k) = true from hr]
    rfl
  constructor
  · intro n hf
    have := (never_reports_closed hv httl (evs ++ [.close c k]) hf).1
    rw [hop, mem_rm] at this
    exact this.2 rfl
  · intro hlast hx
    refine not_connected_after_last_close hv httl _ hx ?_
    intro d hd hdc
    rw [hop, mem_rm] at hd
    exact hd.2 (hlast d hd.1 hdc)

/-! ## Lookups are read-only, however their two storage round trips interleave with other events -/

/-- **A lookup has no effect.**  Neither round trip of `FindClientNode` (the index read `lookBegin`, the record
read `lookEnd`) changes the shared store or any node's registry — whatever happens between them. -/
theorem lookup_is_read_only (P : Params) (st : St) (j x : Nat) :
    (step P st (.lookBegin j x)).store = st.store ∧ (step P st (.lookBegin j x)).nodes = st.nodes ∧
    (step P st (.lookEnd j x)).store = st.store ∧ (step P st (.lookEnd j x)).nodes = st.nodes ∧
    (step P st (.lookBegin j x)).now = st.now ∧ (step P st (.lookEnd j x)).now = st.now :=
  ⟨rfl, rfl, rfl, rfl, rfl, rfl⟩

/-- A lookup whose two round trips are adjacent answers what `findClientNode` (the atomic lookup the
observations use) answers. -/
theorem unsplit_lookup {P : Params} (hv : P.v = repaired) (httl : 0 < P.ttl) (evs : List Ev) (j x : Nat)
    (hx : x ≠ 0) :
    lookupAnswer P (lookupBegin (reach P evs).2 j x) j x =
      findClientNode P (reach P evs).2.now (reach P evs).2.store x := by
  have h := reach_inv hv httl evs
  unfold lookupAnswer lookupBegin findClientNode indexRead
  simp only [FMap.lookup_insert_eq, hx, if_false]
  cases hf : find (reach P evs).2.now (reach P evs).2.store (.client x) with
  | none => rfl
  | some e =>
    obtain ⟨c, hval, _⟩ := h.store.client x e (find_some hf)
    simp only [hval]

/-- **A consumer of the lookup has no effect either.**  `SendHTTPProxyRequest` / `SendCommandToClient` / the DNS
forwarders read the node-local registry, then the shared store, and decide; neither step — whatever falls between them,
whatever they conclude ("state inconsistent" included) — changes the shared store, the runtime state or a registry. -/
theorem consumer_is_read_only (P : Params) (st : St) (k : ReqKind) (j x : Nat) :
    (step P st (.reqBegin k j x)).store = st.store ∧ (step P st (.reqBegin k j x)).nodes = st.nodes ∧
    (step P st (.reqBegin k j x)).rstore = st.rstore ∧
    (step P st (.reqEnd k j x)).store = st.store ∧ (step P st (.reqEnd k j x)).nodes = st.nodes ∧
    (step P st (.reqEnd k j x)).rstore = st.rstore :=
  ⟨rfl, rfl, rfl, rfl, rfl, rfl⟩

/-- A consumer whose two steps are adjacent decides what `route` (the atomic decision the observations use) decides
on a running node. -/
theorem unsplit_request (P : Params) (st : St) (k : ReqKind) (j x : Nat) :
    requestOutcome P (requestBegin st k j x) k j x = routeUp P st j x := by
  unfold requestOutcome requestBegin routeUp
  simp only [FMap.lookup_insert_eq]
  cases FMap.lookup (st.nodes j).byClient x <;> rfl

/-- Lookups and their consumers. -/
def isLookup : Ev → Bool
  | .lookBegin _ _ => true
  | .lookEnd _ _ => true
  | .reqBegin _ _ _ => true
  | .reqEnd _ _ _ => true
  | _ => false

/-- **Lookups and their consumers never make a client unfindable.**  After any history in which `x`'s registration on
`c` is valid, any number of lookups and of HTTP-proxy / command requests by any nodes for any clients — begun, ended,
left in flight, in any order — leaves the lookup at `(c.node, c)`.  (Together with `lookup_finds_current_node`, whose histories contain split lookups
interleaved with every other event.) -/
theorem lookups_keep_findable {P : Params} (hv : P.v = repaired) (httl : 0 < P.ttl) (evs : List Ev)
    {x : Nat} {c : Conn} {u : Nat}
    (hl : LMap.lookup (reach P evs).1.latest x = some (c, u)) (hu : (reach P evs).1.now ≤ u)
    (qs : List Ev) (hq : ∀ e, e ∈ qs → isLookup e = true) :
    findClientNode P (reach P (evs ++ qs)).2.now (reach P (evs ++ qs)).2.store x = .found c.node c := by
  have key : ∀ (qs : List Ev) (S : SpecSt) (M : St), (∀ e, e ∈ qs → isLookup e = true) →
      (reachFrom P S M qs).1 = S := by
    intro qs
    induction qs with
    | nil => intro S M _; rfl
    | cons e r ih =>
      intro S M hq
      have he := hq e (List.mem_cons_self ..)
      simp only [reachFrom]
      have hs : specStep P.ttl P.rsTtl S (stepOk M e) e = S := by
        cases e <;> simp [isLookup] at he <;> rfl
      rw [hs]
      exact ih _ _ (fun d hd => hq d (List.mem_cons_of_mem _ hd))
  have he : reach P (evs ++ qs) = reachFrom P (reach P evs).1 (reach P evs).2 qs := reachFrom_append P _ _ evs _
  have hinv := reachFrom_inv hv httl qs _ _ (reach_inv hv httl evs)
  rw [he]
  have hk := key qs (reach P evs).1 (reach P evs).2 hq
  rw [hk] at hinv
  exact find_live hv hinv hl hu

theorem spec_tick (ttl rsTtl : Nat) (S : SpecSt) (r : Bool) (d : Nat) :
    (specStep ttl rsTtl S r (.tick d)).latest = S.latest ∧ (specStep ttl rsTtl S r (.tick d)).now = S.now + d :=
  ⟨rfl, rfl⟩

theorem spec_hb_fresh {ttl rsTtl : Nat} {S : SpecSt} (r : Bool) {c : Conn} {u : Nat}
    (hl : LMap.lookup S.latest c.client = some (c, u)) (hu : S.now ≤ u) :
    (specStep ttl rsTtl S r (.hb c)).latest = LMap.insert S.latest c.client (c, S.now + ttl) ∧
    (specStep ttl rsTtl S r (.hb c)).now = S.now := by
  simp only [specStep_latest, specStep_now, specStepCore, hl, if_true, hu]
  trivial

/-- **Heartbeats keep the registration alive.**  After any history in which `x`'s registration on `c` is
valid, any number of rounds "clock advances by at most `ttl`, then `c` sends a heartbeat" and a final advance of
at most `ttl` leave the lookup at `(c.node, c)`. -/
theorem heartbeats_keep_alive {P : Params} (hv : P.v = repaired) (httl : 0 < P.ttl) (evs : List Ev)
    {x : Nat} {c : Conn} {u : Nat}
    (hl : LMap.lookup (reach P evs).1.latest x = some (c, u))
    (gaps : List Nat) (hg : ∀ d, d ∈ gaps → d ≤ P.ttl) (last : Nat) (hlast : last ≤ P.ttl)
    (hfirst : ∀ d, gaps.head? = some d → (reach P evs).1.now + d ≤ u)
    (hnone : gaps = [] → (reach P evs).1.now + last ≤ u) :
    let h := evs ++ (gaps.flatMap (fun d => [Ev.tick d, Ev.hb c])) ++ [Ev.tick last]
    findClientNode P (reach P h).2.now (reach P h).2.store x = .found c.node c := by
  intro h
  have hcx : c.client = x := ((reach_inv hv httl evs).live x c u hl).1
  -- one round keeps the obligation and makes `until = now + ttl`
  have key : ∀ (gaps : List Nat) (S : SpecSt) (M : St) (u : Nat), (∀ d, d ∈ gaps → d ≤ P.ttl) →
      LMap.lookup S.latest x = some (c, u) → (∀ d, gaps.head? = some d → S.now + d ≤ u) →
      (gaps = [] → S.now + last ≤ u) →
      ∃ u', LMap.lookup (reachFrom P S M (gaps.flatMap (fun d => [Ev.tick d, Ev.hb c]))).1.latest x = some (c, u') ∧
        (reachFrom P S M (gaps.flatMap (fun d => [Ev.tick d, Ev.hb c]))).1.now + last ≤ u' := by
    intro gaps
    induction gaps with
    | nil => intro S M u _ h1 _ h3; exact ⟨u, h1, h3 rfl⟩
    | cons d r ih =>
      intro S M u hd h1 h2 _
      have hdu : S.now + d ≤ u := h2 d rfl
      simp only [List.flatMap_cons, List.cons_append, List.nil_append, reachFrom]
      obtain ⟨t1, t2⟩ := spec_tick P.ttl P.rsTtl S (stepOk M (.tick d)) d
      have h1' : LMap.lookup (specStep P.ttl P.rsTtl S (stepOk M (.tick d)) (.tick d)).latest c.client = some (c, u) := by
        rw [t1, hcx]; exact h1
      have hu' : (specStep P.ttl P.rsTtl S (stepOk M (.tick d)) (.tick d)).now ≤ u := by rw [t2]; exact hdu
      obtain ⟨b1, b2⟩ := spec_hb_fresh (ttl := P.ttl) (rsTtl := P.rsTtl)
        (stepOk (step P M (.tick d)) (.hb c)) h1' hu'
      refine ih _ _ (S.now + d + P.ttl) (fun e he => hd e (List.mem_cons_of_mem _ he)) ?_ ?_ ?_
      · rw [b1, t2, ← hcx]; exact LMap.lookup_insert_eq _ _ _
      · intro e he
        have := hd e (List.mem_cons_of_mem _ (by
          cases r with
          | nil => cases he
          | cons a t => simp at he; subst he; exact List.mem_cons_self ..))
        rw [b2, t2]
        omega
      · intro _
        rw [b2, t2]
        omega
  obtain ⟨u', hk1, hk2⟩ := key gaps (reach P evs).1 (reach P evs).2 u hg hl hfirst hnone
  have he : reach P h = reachFrom P
      (reachFrom P (reach P evs).1 (reach P evs).2 (gaps.flatMap (fun d => [Ev.tick d, Ev.hb c]))).1
      (reachFrom P (reach P evs).1 (reach P evs).2 (gaps.flatMap (fun d => [Ev.tick d, Ev.hb c]))).2
      [Ev.tick last] := by
    show reachFrom P _ _ (evs ++ _ ++ [Ev.tick last]) = _
    rw [reachFrom_append, reachFrom_append]; rfl
  have hinv := reach_inv hv httl h
  rw [he] at hinv ⊢
  refine find_live hv hinv (u := u') ?_ ?_
  · simp only [reachFrom]; rw [(spec_tick _ _ _ _ _).1]; exact hk1
  · simp only [reachFrom]; rw [(spec_tick _ _ _ _ _).2]; exact hk2

/-! ## Ties to the Go source (T1/T2): a change of these functions breaks a proof here -/

/-- Both key families of `connstate` are routed to the shared cache by the hybrid storage. -/
theorem keys_are_shared :
    "tunnox:conn_state:" ∈ Gen.hybrid.DefaultConfig.SharedPrefixes ∧
    "tunnox:client_conn:" ∈ Gen.hybrid.DefaultConfig.SharedPrefixes ∧
    "tunnox:conn_state:" ∉ Gen.hybrid.DefaultConfig.SharedPersistentPrefixes ∧
    "tunnox:client_conn:" ∉ Gen.hybrid.DefaultConfig.SharedPersistentPrefixes := by decide

theorem key_formats :
    Gen.Flow.makeConnectionKey = ["return fmt.Sprintf(\"tunnox:conn_state:%s\", connectionID)"] ∧
    Gen.Flow.makeClientKey = ["return fmt.Sprintf(\"tunnox:client_conn:%d\", clientID)"] := by decide

/-- `NewStore`: lifetime 0 means 5 minutes (`effTTL`). -/
theorem flow_NewStore : Gen.Flow.NewStore =
    ["if ttl == 0", "ttl = 5 * time.Minute", "end", "return &Store{ storage: storage, nodeID: nodeID, ttl: ttl, }"] := by
  decide

/-- `RegisterConnection` = `registerConnection`: record first, then the index for control connections of a known client. -/
theorem flow_RegisterConnection : Gen.Flow.RegisterConnection =
    ["if state.ConnectionID == \"\"",
     "return coreerrors.New(coreerrors.CodeInvalidParam, \"connection_id is required\")",
     "end",
     "state.NodeID = s.nodeID",
     "now := time.Now()",
     "state.CreatedAt = now",
     "state.ExpiresAt = now.Add(s.ttl)",
     "key := s.makeConnectionKey(state.ConnectionID)",
     "if err := s.storage.Set(key, state, s.ttl); err != nil",
     "return coreerrors.Wrap(err, coreerrors.CodeStorageError, \"failed to store connection state\")",
     "end",
     "if state.ConnType == \"control\" && state.ClientID > 0",
     "clientKey := s.makeClientKey(state.ClientID)",
     "if err := s.storage.Set(clientKey, state.ConnectionID, s.ttl); err != nil",
     "end",
     "end",
     "return nil"] := by decide

/-- `UnregisterConnection` = `unregisterConnection`: the index is deleted only under `clientIndexPointsTo`. -/
theorem flow_UnregisterConnection : Gen.Flow.UnregisterConnection =
    ["if connectionID == \"\"",
     "return coreerrors.New(coreerrors.CodeInvalidParam, \"connection_id is required\")",
     "end",
     "state, err := s.GetConnectionState(ctx, connectionID)",
     "if err == nil && state != nil",
     "if state.ConnType == \"control\" && state.ClientID > 0",
     "clientKey := s.makeClientKey(state.ClientID)",
     "if s.clientIndexPointsTo(clientKey, connectionID)",
     "if delErr := s.storage.Delete(clientKey); delErr != nil",
     "end",
     "end",
     "end",
     "end",
     "key := s.makeConnectionKey(connectionID)",
     "if err := s.storage.Delete(key); err != nil",
     "return nil",
     "end",
     "return nil"] := by decide

/-- `RefreshConnection` = `refreshConnection`: record, then the index while it names the connection. -/
theorem flow_RefreshConnection : Gen.Flow.RefreshConnection =
    ["state, err := s.GetConnectionState(ctx, connectionID)",
     "if err != nil",
     "return err",
     "end",
     "state.ExpiresAt = time.Now().Add(s.ttl)",
     "key := s.makeConnectionKey(connectionID)",
     "if err := s.storage.Set(key, state, s.ttl); err != nil",
     "return coreerrors.Wrap(err, coreerrors.CodeStorageError, \"failed to refresh connection state\")",
     "end",
     "if state.ConnType == \"control\" && state.ClientID > 0",
     "clientKey := s.makeClientKey(state.ClientID)",
     "if s.clientIndexPointsTo(clientKey, connectionID)",
     "if err := s.storage.Set(clientKey, connectionID, s.ttl); err != nil",
     "end",
     "end",
     "end",
     "return nil"] := by decide

theorem flow_clientIndexPointsTo : Gen.Flow.clientIndexPointsTo =
    ["value, err := s.storage.Get(clientKey)",
     "if err != nil",
     "return false",
     "end",
     "typeswitch v := value.(type)",
     "case string",
     "return v == connectionID",
     "case []byte",
     "return string(v) == connectionID",
     "end",
     "return false"] := by decide

/-- `GetConnectionState` = `getConnectionState`: not found / decode by shape (the five `case`s = `Shape`, all
accepted: `decodable`) / expiry re-check. -/
theorem flow_GetConnectionState : Gen.Flow.GetConnectionState =
    ["if connectionID == \"\"",
     "return nil, coreerrors.New(coreerrors.CodeInvalidParam, \"connection_id is required\")",
     "end",
     "key := s.makeConnectionKey(connectionID)",
     "value, err := s.storage.Get(key)",
     "if err != nil",
     "if err == storage.ErrKeyNotFound",
     "return nil, ErrConnectionNotFound",
     "end",
     "return nil, coreerrors.Wrap(err, coreerrors.CodeStorageError, \"failed to get connection state\")",
     "end",
     "var state Info",
     "typeswitch v := value.(type)",
     "case map[string]interface{}",
     "data, err := json.Marshal(v)",
     "if err != nil",
     "return nil, coreerrors.Wrap(err, coreerrors.CodeInternal, \"failed to re-marshal connection state\")",
     "end",
     "if err := json.Unmarshal(data, &state); err != nil",
     "return nil, coreerrors.Wrap(err, coreerrors.CodeInternal, \"failed to unmarshal connection state\")",
     "end",
     "case []byte",
     "if err := json.Unmarshal(v, &state); err != nil",
     "return nil, coreerrors.Wrap(err, coreerrors.CodeInternal, \"failed to unmarshal connection state\")",
     "end",
     "case string",
     "if err := json.Unmarshal([]byte(v), &state); err != nil",
     "return nil, coreerrors.Wrap(err, coreerrors.CodeInternal, \"failed to unmarshal connection state\")",
     "end",
     "case *Info",
     "if v == nil",
     "return nil, coreerrors.New(coreerrors.CodeInternal, \"nil connection state\")",
     "end",
     "state = *v",
     "case Info",
     "state = v",
     "default",
     "return nil, coreerrors.Newf(coreerrors.CodeInternal, \"unexpected value type: %T\", value)",
     "end",
     "if time.Now().After(state.ExpiresAt)",
     "s.storage.Delete(key)",
     "return nil, ErrConnectionExpired",
     "end",
     "return &state, nil"] := by decide

theorem flow_FindClientNode : Gen.Flow.FindClientNode =
    ["if clientID <= 0",
     "return \"\", \"\", coreerrors.New(coreerrors.CodeInvalidParam, \"invalid client_id\")",
     "end",
     "clientKey := s.makeClientKey(clientID)",
     "value, err := s.storage.Get(clientKey)",
     "if err != nil",
     "if err == storage.ErrKeyNotFound",
     "return \"\", \"\", ErrConnectionNotFound",
     "end",
     "return \"\", \"\", coreerrors.Wrap(err, coreerrors.CodeStorageError, \"failed to get client index\")",
     "end",
     "var connectionID string",
     "typeswitch v := value.(type)",
     "case string",
     "connectionID = v",
     "case []byte",
     "connectionID = string(v)",
     "default",
     "return \"\", \"\", coreerrors.Newf(coreerrors.CodeInternal, \"unexpected value type: %T\", value)",
     "end",
     "state, err := s.GetConnectionState(ctx, connectionID)",
     "if err != nil",
     "return \"\", \"\", err",
     "end",
     "return state.NodeID, connectionID, nil"] := by decide

/-- `CloseConnection` = `closeConnection`: connMap (and, for a connMap entry, its stream: the id may come back), registry
(`RemoveControlConnection`), then `UnregisterConnection` —
and no registry query in between or before (the extractor lists `getControlConnectionByConnID`, `GetControlConnection`,
`clientRegistry.GetByConnID/GetByClientID` too; none occurs). -/
theorem skel_CloseConnection : Gen.Skel.CloseConnection =
    ["delete", "streamMgr.RemoveStream", "RemoveControlConnection", "RemoveTunnelConnection",
     "connStateStore.UnregisterConnection"] := by decide

/-- The consumers of the lookup reach the store through `FindClientNode` only (no `UnregisterConnection` /
`RegisterConnection` / `RefreshConnection`, no registry removal).  `FindClientNode` reads only: one `Get` of the index, then `GetConnectionState` (one `Get` of the record; its only
write is the removal of the very record it found expired — a key that names that connection id and nothing else). -/
theorem skel_lookup_reads :
    Gen.Skel.SendHTTPProxyRequest_writes = ["GetControlConnectionByClientID", "connStateStore.FindClientNode"] ∧
    Gen.Skel.sendCommandCrossNode_writes = ["connStateStore.FindClientNode"] ∧
    Gen.Skel.handleDNSQueryCrossNode_writes = ["connStateStore.FindClientNode"] ∧
    Gen.Skel.FindClientNode_storage = ["storage.Get", "GetConnectionState"] ∧
    Gen.Skel.GetConnectionState_storage = ["storage.Get", "storage.Delete"] ∧
    Gen.Skel.clientIndexPointsTo_storage = ["storage.Get"] := by decide

/-- **Every production path by which a connection ends reaches `CloseConnection`, and `CloseConnection` unregisters
without consulting the registry** (no `GetByConnID`/`getControlConnectionByConnID` before the unregister: the
sweep, the eviction and the shutdown have already emptied the registry when it runs):
* adapter read loop end (peer EOF, read error, failed initialisation): deferred `cleanupConnection` → `CloseConnection`;
* WebSocket module: deferred `CloseConnection`;
* Disconnect command: registry lookup, then `CloseConnection`;
* heartbeat-timeout sweep: `CleanupStale` unindexes and drops the connection FIRST, then the callback → `CloseConnection`,
  then the stream is closed (`sweepStale`);
* duplicate-login eviction `KickOldControlConnection`: registry only + stream close (`kickOld`); the read loop's
  `CloseConnection` follows;
* shutdown `onClose`: registries and connMap emptied, streams closed (`shutdownNode`), no store access; the adapters'
  `CloseConnection` calls follow. -/
theorem skel_closing_paths :
    Gen.Skel.BaseAdapter_handleConnection = ["b.cleanupConnection", "b.initializeConnection", "b.connectionReadLoop"] ∧
    Gen.Skel.BaseAdapter_cleanupConnection = ["session.CloseConnection", "closer.Close"] ∧
    Gen.Skel.WebSocketModule_handleConnection = ["session.CloseConnection", "wsConn.Close"] ∧
    Gen.Skel.handleDisconnectCommand = ["clientRegistry.GetByConnID", "CloseConnection"] ∧
    Gen.Skel.cleanupStaleConnections =
      ["clientRegistry.CleanupStale", "cloudControl.DisconnectClientIfMatch", "CloseConnection"] ∧
    Gen.Skel.ClientRegistry_CleanupStale =
      ["mu.Lock", "IsStale", "unindexLocked", "delete", "mu.Unlock", "closeFn", "stream.Close"] ∧
    Gen.Skel.KickOldControlConnection = ["clientRegistry.KickOldConnection"] ∧
    Gen.Skel.ClientRegistry_KickOldConnection =
      ["mu.Lock", "unindexLocked", "delete", "mu.Unlock", "sendKickFn", "stream.Close"] ∧
    Gen.Skel.SessionManager_onClose = ["clientRegistry.Close", "tunnelRegistry.Close", "connLock.Lock", "connLock.Unlock"] ∧
    Gen.Skel.ClientRegistry_Close = ["mu.Lock", "mu.Unlock", "Stream.Close"] := by decide

/-- `handleHandshake` = `handleHandshake`/`hsStore`/`hsNode`: register the control connection, authenticate,
answer, then for the node-local old connection unregister → remove, `UpdateAuth`, register. -/
theorem skel_handleHandshake : Gen.Skel.handleHandshake =
    ["RegisterControlConnection", "RegisterControlConnection", "authHandler.HandleHandshake",
     "sendHandshakeResponse", "clientRegistry.DropStaleIndex", "sendHandshakeResponse",
     "clientRegistry.GetByClientID", "connStateStore.UnregisterConnection", "clientRegistry.Remove",
     "clientRegistry.UpdateAuth", "connStateStore.RegisterConnection"] := by decide

/-- `handleHeartbeat` refreshes the records of the control connection. -/
theorem skel_handleHeartbeat : Gen.Skel.handleHeartbeat =
    ["clientRegistry.GetByConnID", "controlConn.UpdateActivity", "cloudControl.EnsureClientOnline",
     "connStateStore.RefreshConnection"] := by decide

theorem skel_registry :
    Gen.Skel.RemoveControlConnection =
      ["clientRegistry.GetByConnID", "clientRegistry.Remove", "cloudControl.DisconnectClientIfMatch"] ∧
    Gen.Skel.removeConnectionLocked = ["Stream.Close", "unindexLocked", "delete"] ∧
    Gen.Skel.unindexLocked = ["delete"] ∧
    Gen.Skel.UpdateAuth = ["mu.Lock", "mu.Unlock", "unindexLocked"] ∧
    Gen.Skel.CreateConnection = ["streamMgr.CreateStream", "connLock.Lock", "connLock.Unlock", "connLock.Unlock"] ∧
    Gen.Skel.StreamManager_CreateStream = ["mu.Lock", "mu.Unlock", "factory.NewStreamProcessor"] := by decide

/-- `SendCommandToClient` = `route`: local registry first, then `FindClientNode`; the HTTP-proxy and DNS
forwarders take the same decision from the same lookup. -/
theorem skel_routing :
    Gen.Skel.SendCommandToClient = ["GetControlConnectionByClientID", "sendCommandLocal", "sendCommandCrossNode"] ∧
    Gen.Skel.sendCommandCrossNode = ["connStateStore.FindClientNode", "crossNodePool.Get", "WriteFrame", "ReadFrame"] ∧
    Gen.Skel.SendHTTPProxyRequest = ["GetControlConnectionByClientID", "sendHTTPProxyRequestLocal",
      "connStateStore.FindClientNode", "sendHTTPProxyRequestCrossNode"] ∧
    Gen.Skel.handleDNSQueryCrossNode.take 2 = ["connStateStore.FindClientNode", "crossNodePool.Get"] := by decide

/-- The server wires one `connstate.Store` over the configured storage into the session manager. -/
theorem skel_wiring : Gen.Skel.HandlersComponent_Initialize =
    ["session.NewConnectionStateStore", "SessionMgr.SetConnectionStateStore", "session.NewCrossNodePool",
     "SessionMgr.SetCrossNodePool"] := by decide

/-- The hybrid storage sends shared keys to the shared cache for reads and writes alike. -/
theorem skel_hybrid :
    Gen.Skel.Hybrid_getCacheForKey = ["h.isShared"] ∧
    Gen.Skel.Hybrid_getCategory = ["h.isSharedPersistent", "h.isShared", "h.isPersistent"] ∧
    Gen.Skel.Hybrid_setShared = ["h.getCacheForKey", "cache.Set"] ∧
    Gen.Skel.Hybrid_Get = ["h.getCategory", "h.getCacheForKey", "cache.Get", "h.getSharedPersistent",
      "cache.Get", "h.persistent.Get"] := by decide

/-! ## Witnesses: each of the three defects of the unchanged tree violates `holds` (the model variants) -/

def c0 : Conn := ⟨0, 7, 0⟩
def c1 : Conn := ⟨1, 7, 0⟩

/-- Reconnect to node 1, node 0 cleans up late. -/
def reconnectLateCleanup : List Ev := [.open c0, .hs c0 true, .open c1, .hs c1 true, .close c0 .sweep]

/-- As found: `UnregisterConnection` deleted the index unconditionally — the late cleanup on node 0 erases
the location registered by node 1. -/
theorem unconditional_delete_witness :
    holds 1000 2 [7] reconnectLateCleanup (run ⟨⟨false, true, true⟩, .str, 1000, 90000⟩ 2 [7] reconnectLateCleanup) = false := by
  decide

/-- As found: heartbeats did not refresh the records — a client connected for longer than the lifetime vanishes. -/
theorem no_refresh_witness :
    holds 1000 2 [7] [.open c0, .hs c0 true, .tick 600, .hb c0, .tick 600]
      (run ⟨⟨true, false, true⟩, .str, 1000, 90000⟩ 2 [7] [.open c0, .hs c0 true, .tick 600, .hb c0, .tick 600]) = false := by
  decide

/-- As found: the in-memory backend hands back the `*Info`, which the decoder refused. -/
theorem pointer_shape_witness :
    holds 1000 2 [7] [.open c0, .hs c0 true] (run ⟨⟨true, true, false⟩, .ptr, 1000, 90000⟩ 2 [7] [.open c0, .hs c0 true]) = false := by
  decide

/-! ## Known finding `index-check-then-act` (storage-call granularity — finer than the events of the property)

The repaired `UnregisterConnection` / `RefreshConnection` read the index and then delete / rewrite it in a second
storage call.  When another node registers the client between the two calls, the decision is stale.  The
harness forces these schedules with gated store handles (`sched` cases); no storage backend offers an atomic
compare-and-delete (the hybrid storage does not even forward `CompareAndSwap`), so this is recorded, not repaired. -/

def P0 : Params := ⟨repaired, .str, 1000, 90000⟩

/-- Client 7 registered on `c0` (node 0). -/
def sA : Store := registerConnection P0 0 0 FMap.empty ⟨c0, 7, 0, true, 0⟩

/-- Node 1 registers the reconnected client on `c1`. -/
def sB : Store := registerConnection P0 1 0 sA ⟨c1, 7, 1, true, 0⟩

/-- Node 0 starts `UnregisterConnection(c0)` (or `RefreshConnection(c0)`) on `sA`: record found, index names `c0`. -/
theorem check_then_act_reads :
    getConnectionState P0 0 sA c0 = .ok (infoOf c0 1000) ∧ clientIndexPointsTo 0 sA 7 c0 = true := by decide

/-- … node 1 registers in between (`sB`, where the lookup is right) … and node 0 carries out the two deletes it
decided on: the location written by node 1 is erased, the connected client is reported as not connected. -/
theorem index_check_then_act_witness :
    findClientNode P0 0 sB 7 = .found 1 c1 ∧
    findClientNode P0 0 (del (del sB (.client 7)) (.conn c0)) 7 = .notFound := by decide

/-- The same window in `RefreshConnection`: the stale connection's heartbeat writes the index back to itself. -/
theorem refresh_check_then_act_witness :
    findClientNode P0 0 (set 0 1000 sB (.client 7) (.id c0)) 7 = .found 0 c0 := by decide

/-! ## The cloud runtime state (`client.Service`): the same question asked of `tunnox:runtime:client:state:<client>` -/

theorem reachFrom_rsinv {P : Params} (hv : P.v = repaired) (httl : 0 < P.ttl) :
    ∀ (evs : List Ev) (S : SpecSt) (M : St), Inv S M → RSInv P.rsTtl S M →
      RSInv P.rsTtl (reachFrom P S M evs).1 (reachFrom P S M evs).2 := by
  intro evs
  induction evs with
  | nil => intro S M _ hr; exact hr
  | cons e es ih => intro S M h hr; exact ih _ _ (h.step hv httl e) (hr.step h e)

theorem reach_rsinv {P : Params} (hv : P.v = repaired) (httl : 0 < P.ttl) (evs : List Ev) :
    RSInv P.rsTtl (reach P evs).1 (reach P evs).2 := reachFrom_rsinv hv httl evs _ _ Inv.init (RSInv.init _)

/-- (A') After any history: while the latest completed control handshake of `x` (on `c`) is kept alive — handshake
/ heartbeats at most the state's lifetime apart, `c` not closed, not ended by the server — every node reading
the runtime state gets `(c.node, c)`: the connection of THAT handshake, also after a reconnect to the same node. -/
theorem runtime_state_names_latest {P : Params} (hv : P.v = repaired) (httl : 0 < P.ttl) (evs : List Ev)
    {x : Nat} {c : Conn} {u : Nat}
    (hl : LMap.lookup (reach P evs).1.latestRS x = some (c, u)) (hu : (reach P evs).1.now ≤ u) :
    rsGet (reach P evs).2.now (reach P evs).2.rstore x = some (c.node, c) := by
  have h := reach_inv hv httl evs
  obtain ⟨_, _, _, _, _, hlive⟩ := (reach_rsinv hv httl evs).live x c u hl
  obtain ⟨u', hu', hlk⟩ := hlive hu
  exact rsGet_of_lookup hlk (by rw [← h.now_eq]; show (reach P evs).1.now ≤ u'; omega)

/-- (B') After any history: the runtime state of `x` is absent or names a connection of `x` with its own node that
is still open — unless the server ended a connection of `x` on its own since `x`'s last handshake (`loose`: duplicate-login
eviction, shutdown; see `runtime_state_survives_shutdown_witness`).  In particular: once the client's last
connection is closed by any `CloseKind`, the state is gone. -/
theorem runtime_state_never_names_closed {P : Params} (hv : P.v = repaired) (httl : 0 < P.ttl) (evs : List Ev)
    {x n : Nat} {d : Conn} (hg : rsGet (reach P evs).2.now (reach P evs).2.rstore x = some (n, d)) :
    d.client = x ∧ n = d.node ∧ (d ∈ (reach P evs).1.opened ∨ (reach P evs).1.loose x = true) := by
  have h := reach_inv hv httl evs
  obtain ⟨v, hlk, hvis, hw⟩ := rsGet_some hg
  obtain ⟨h1, h2, _, h4⟩ := (reach_rsinv hv httl evs).sound x v hlk hvis
  injection hw with e1 e2
  subst e1; subst e2
  refine ⟨h2, h1, ?_⟩
  rcases h4 with h4 | ⟨h4, _⟩
  · exact Or.inr h4
  · exact Or.inl (h.conns_opened _ _ ((h.nodeOk _).ctrl_conns _ h4))

/-- **A completed handshake makes the runtime state name THAT connection** — whatever it named before (another
connection on the same node included), for a full lifetime. -/
theorem handshake_updates_runtime_state {P : Params} (hv : P.v = repaired) (httl : 0 < P.ttl) (evs : List Ev)
    (c : Conn) (hok : stepOk (reach P evs).2 (.hs c true) = true) (hx : 0 < c.client) (dt : Nat) (hdt : dt ≤ P.rsTtl) :
    rsGet (reach P (evs ++ [.hs c true, .tick dt])).2.now (reach P (evs ++ [.hs c true, .tick dt])).2.rstore c.client
      = some (c.node, c) := by
  refine runtime_state_names_latest hv httl _ (u := (reach P evs).1.now + P.rsTtl) ?_ ?_
  · show LMap.lookup (reachFrom P _ _ (evs ++ [.hs c true, .tick dt])).1.latestRS c.client = _
    rw [reachFrom_append]
    have hok' : stepOk (reachFrom P SpecSt.init St.init evs).2 (.hs c true) = true := hok
    simp only [reachFrom, specStep_latestRS, specLatestRS, hok', Bool.true_and, gt_iff_lt, hx, decide_true, if_true,
      specStep_now]
    exact LMap.lookup_insert_eq _ _ _
  · show (reachFrom P _ _ (evs ++ [.hs c true, .tick dt])).1.now ≤ _
    rw [reachFrom_append]
    have hok' : stepOk (reachFrom P SpecSt.init St.init evs).2 (.hs c true) = true := hok
    simp only [reachFrom, specStep_now, specStepCore, hok', Bool.true_and, gt_iff_lt, hx, decide_true, if_true]
    show (reach P evs).1.now + dt ≤ (reach P evs).1.now + P.rsTtl
    omega

/-- Non-vacuity / the seeded scenario: registered on `c0`, reconnects to the SAME node on `⟨0,7,1⟩` before the node
noticed: the runtime state names the new connection; closing it takes the client offline; the old connection's
late cleanup changes nothing. -/
example :
    let P : Params := ⟨repaired, .str, 1000, 90000⟩
    let c2 : Conn := ⟨0, 7, 1⟩
    rsGet (reach P [.open c0, .hs c0 true, .open c2, .hs c2 true]).2.now
      (reach P [.open c0, .hs c0 true, .open c2, .hs c2 true]).2.rstore 7 = some (0, c2) ∧
    rsGet (reach P [.open c0, .hs c0 true, .open c2, .hs c2 true, .close c0 .eof]).2.now
      (reach P [.open c0, .hs c0 true, .open c2, .hs c2 true, .close c0 .eof]).2.rstore 7 = some (0, c2) ∧
    rsGet (reach P [.open c0, .hs c0 true, .open c2, .hs c2 true, .close c2 .eof]).2.now
      (reach P [.open c0, .hs c0 true, .open c2, .hs c2 true, .close c2 .eof]).2.rstore 7 = none := by decide

/-- Known finding `runtime-state-survives-server-side-end`: session manager shutdown (and the caller-less
`KickOldControlConnection`) empty the registry without `DisconnectClientIfMatch`; the adapters' `CloseConnection` calls
that follow find no registered connection, so the runtime state keeps naming the closed connection until its TTL.
(`connstate` is cleaned: `CloseConnection` unregisters unconditionally.) -/
theorem runtime_state_survives_shutdown_witness :
    let P : Params := ⟨repaired, .str, 1000, 90000⟩
    rsGet (reach P [.open c0, .hs c0 true, .shutdown 0, .close c0 .eof]).2.now
      (reach P [.open c0, .hs c0 true, .shutdown 0, .close c0 .eof]).2.rstore 7 = some (0, c0) ∧
    findClientNode P (reach P [.open c0, .hs c0 true, .shutdown 0, .close c0 .eof]).2.now
      (reach P [.open c0, .hs c0 true, .shutdown 0, .close c0 .eof]).2.store 7 = .notFound := by decide

/-- Source ties of the runtime-state path: lifetime and key family, who calls what, in which order. -/
theorem runtime_state_ties :
    Gen.constants.TTLClientState * 1000 = 90000 ∧
    Gen.constants.KeyPrefixRuntimeClientState ∈ Gen.hybrid.DefaultConfig.SharedPrefixes ∧
    Gen.Skel.updateClientRuntimeState = ["cloudControl.ConnectClient"] ∧
    Gen.Skel.Client_ConnectClient =
      ["stateRepo.GetState", "stateRepo.SetState", "stateRepo.AddToNodeClients", "publishClientOnlineEvent"] ∧
    Gen.Skel.Client_EnsureClientOnline =
      ["stateRepo.GetState", "state.Touch", "stateRepo.SetState", "stateRepo.SetState", "stateRepo.AddToNodeClients"] ∧
    Gen.Skel.Client_DisconnectClientIfMatch =
      ["stateRepo.GetState", "stateRepo.RemoveFromNodeClients", "stateRepo.DeleteState", "publishClientOfflineEvent"] ∧
    Gen.Skel.StateRepo_GetState = ["storage.Get"] ∧
    Gen.Skel.StateRepo_SetState = ["state.Validate", "storage.Set"] := by decide

/-! ## The application-level deadline `ExpiresAt` (re-checked by `GetConnectionState`) follows the last registration -/

/-- **Authenticating again on the same connection renews the registration.**  After any history — in particular
a session that has outlived several lifetimes on heartbeats — a successful handshake on the connection `c` that is
already the client's registered one makes `c` findable for a full lifetime from NOW (`ExpiresAt` and the storage
deadline are both `now + ttl`, not first registration `+ ttl`). -/
theorem rehandshake_renews {P : Params} (hv : P.v = repaired) (httl : 0 < P.ttl) (evs : List Ev) (c : Conn)
    (hok : stepOk (reach P evs).2 (.hs c true) = true) (hx : 0 < c.client) (dt : Nat) (hdt : dt ≤ P.ttl) :
    findClientNode P (reach P (evs ++ [.hs c true, .tick dt])).2.now
      (reach P (evs ++ [.hs c true, .tick dt])).2.store c.client = .found c.node c := by
  have he : reach P (evs ++ [.hs c true, .tick dt]) =
      reachFrom P (reach P evs).1 (reach P evs).2 [.hs c true, .tick dt] := reachFrom_append P _ _ evs _
  have hinv := reach_inv hv httl (evs ++ [.hs c true, .tick dt])
  rw [he] at hinv ⊢
  refine find_live hv hinv (u := (reach P evs).1.now + P.ttl) ?_ ?_
  · simp only [reachFrom]
    rw [(spec_tick _ _ _ _ _).1]
    simp only [specStep_latest, specStepCore, hok, Bool.true_and, gt_iff_lt, hx, decide_true, if_true]
    exact LMap.lookup_insert_eq _ _ _
  · simp only [reachFrom]
    rw [(spec_tick _ _ _ _ _).2]
    simp only [specStep_now, specStepCore, hok, Bool.true_and, gt_iff_lt, hx, decide_true, if_true]
    omega

/-- The re-check is live in the model: a record whose `ExpiresAt` has passed is treated as absent although the
store still holds it (what a registration that stamped an old `ExpiresAt` would produce). -/
example : getConnectionState P0 500
    (set 400 1000 FMap.empty (.conn c0) (.info ⟨c0, 7, 0, true, 300⟩)) c0 = .notFound ∧
    getConnectionState P0 500
    (set 400 1000 FMap.empty (.conn c0) (.info ⟨c0, 7, 0, true, 1400⟩)) c0 = .ok ⟨c0, 7, 0, true, 1400⟩ := by decide

/-- Non-vacuity of `rehandshake_renews`: registered, kept alive by heartbeats beyond one lifetime (1000 ms),
authenticates again on the same connection at 1200 ms, still found 900 ms later. -/
example : findClientNode ⟨repaired, .str, 1000, 90000⟩
    (reach ⟨repaired, .str, 1000, 90000⟩ ([.open c0, .hs c0 true, .tick 600, .hb c0, .tick 600, .hb c0] ++ [.hs c0 true, .tick 900])).2.now
    (reach ⟨repaired, .str, 1000, 90000⟩ ([.open c0, .hs c0 true, .tick 600, .hb c0, .tick 600, .hb c0] ++ [.hs c0 true, .tick 900])).2.store 7
      = .found 0 c0 := by decide

/-- The seeded interleaving is inside the quantifier: an HTTP-proxy request for client 7 reads node 0's registry (miss),
the client's handshake on node 0 completes, the request goes on to the store (finds node 0 itself: "inconsistent") —
and the client is still found by everybody afterwards. -/
example :
    let P : Params := ⟨repaired, .str, 1000, 90000⟩
    let h : List Ev := [.open c0, .reqBegin .http 0 7, .hs c0 true, .reqEnd .http 0 7, .hb c0]
    requestOutcome P (reach P [.open c0, .reqBegin .http 0 7, .hs c0 true]).2 .http 0 7 = .incons ∧
    findClientNode P (reach P h).2.now (reach P h).2.store 7 = .found 0 c0 := by decide

/-! ## Non-vacuity -/

/-- The history above ends with clause (A) active: the reference demands `(node 1, c1)` … -/
example : LMap.lookup (reach ⟨repaired, .ptr, 1000, 90000⟩ reconnectLateCleanup).1.latest 7 = some (c1, 1000) := by decide

/-- … and that is what the repaired model answers on every node, routing included. -/
example : (run ⟨repaired, .ptr, 1000, 90000⟩ 2 [7] reconnectLateCleanup).getLast? =
    some (true, [(7, [(.found 1 c1, .cross 1, some (1, c1)), (.found 1 c1, .loc, some (1, c1))])]) := by rfl

/-- `holds` is not trivially true: an observation that still names the old node fails. -/
example : holds 1000 2 [7] [.open c0, .hs c0 true, .close c0 .eof]
    [(true, [(7, [(.notFound, .none_, none), (.notFound, .none_, none)])]),
     (true, [(7, [(.found 0 c0, .loc, some (0, c0)), (.found 0 c0, .cross 0, some (0, c0))])]),
     (true, [(7, [(.found 0 c0, .none_, none), (.found 0 c0, .cross 0, none)])])] = false := by decide

/-- Hypotheses of `heartbeats_keep_alive` are inhabited: two heartbeat rounds 600 ms apart, lifetime 1000 ms. -/
example : findClientNode ⟨repaired, .str, 1000, 90000⟩
    (reach ⟨repaired, .str, 1000, 90000⟩ ([.open c0, .hs c0 true] ++ [.tick 600, .hb c0, .tick 600, .hb c0] ++ [.tick 900])).2.now
    (reach ⟨repaired, .str, 1000, 90000⟩ ([.open c0, .hs c0 true] ++ [.tick 600, .hb c0, .tick 600, .hb c0] ++ [.tick 900])).2.store 7
      = .found 0 c0 := by decide

end Tunnox.C08
