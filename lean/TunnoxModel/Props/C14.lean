import TunnoxModel.Proofs.C14Trace
import TunnoxModel.Proofs.C14List
import TunnoxModel.Proofs.C14Fresh
import TunnoxModel.Proofs.C14Nodes
import TunnoxModel.Proofs.C14Excl
/-!
# C14 — the tiered store never serves stale data or loses concurrent list updates

Statement (fixed): through the cache-plus-persistent storage facade, once a write or delete of a key has
returned, every later read of that key by any caller returns that value (or not-found) or a newer one,
never an older value brought back from another tier.  Entries appended to or removed from a stored list
by concurrent callers all take effect.  A key is always read from the tier class it was written to, so
shared cross-node keys are visible to every node and runtime-only keys never reach persistence.

All theorems are about the executable model `Tunnox.C14.model` that the driver runs
(`Model/C14.lean`, mirroring `hybrid.go` / `hybrid_ops.go` after the `fix:` commits) and use the
predicates of `Spec/C14.lean` that the runner applies to the implementation's observations.
Quantification: every key, every prefix table (routing); every number of concurrent calls, every
schedule at tier-operation granularity, every placement of persistent-tier failures (freshness, lists).
-/
namespace Tunnox.C14
open Gen.hybrid

/-! ## Tie T2: the call skeletons the step functions mirror -/

theorem skel_Set : Gen.Skel.Storage_Set = ["lockKey", "setLocked"] := by decide
theorem skel_setLocked : Gen.Skel.Storage_setLocked =
    ["getCategory", "setPersistent", "setShared", "setSharedPersistent", "setRuntime"] := by decide
theorem skel_setPersistent : Gen.Skel.Storage_setPersistent = ["persistent.Set", "cache.Set"] := by decide
theorem skel_setSharedPersistent : Gen.Skel.Storage_setSharedPersistent =
    ["persistent.Set", "sharedCache.Set", "cache.Set"] := by decide
theorem skel_setShared : Gen.Skel.Storage_setShared = ["getCacheForKey", "cache.Set"] := by decide
theorem skel_setRuntime : Gen.Skel.Storage_setRuntime = ["cache.Set"] := by decide
theorem skel_Get : Gen.Skel.Storage_Get = ["get"] := by decide
theorem skel_get : Gen.Skel.Storage_get =
    ["getCategory", "getCacheForKey", "cache.Get", "getSharedPersistent", "cache.Get", "lockKey",
     "persistent.Get", "cache.Set"] := by decide
theorem skel_getSharedPersistent : Gen.Skel.Storage_getSharedPersistent =
    ["cache.Get", "lockKey", "persistent.Get", "cache.Set"] := by decide
theorem skel_Delete : Gen.Skel.Storage_Delete =
    ["lockKey", "getCategory", "getCacheForKey", "cache.Delete", "cache.Delete", "persistent.Delete",
     "cache.Delete", "persistent.Delete"] := by decide
theorem skel_Exists : Gen.Skel.Storage_Exists =
    ["getCategory", "getCacheForKey", "cache.Exists", "cache.Exists", "persistent.Exists", "cache.Exists",
     "persistent.Exists"] := by decide
theorem skel_SetPersistent : Gen.Skel.Storage_SetPersistent = ["lockKey", "setPersistent"] := by decide
theorem skel_SetRuntime : Gen.Skel.Storage_SetRuntime = ["lockKey", "setRuntime"] := by decide
theorem skel_GetList : Gen.Skel.Storage_GetList = ["getList"] := by decide
theorem skel_getList : Gen.Skel.Storage_getList = ["get"] := by decide
theorem skel_AppendToList : Gen.Skel.Storage_AppendToList = ["lockKey", "getList", "getCategory", "setLocked"] := by
  decide
theorem skel_RemoveFromList : Gen.Skel.Storage_RemoveFromList = ["lockKey", "getList", "getCategory", "setLocked"] := by
  decide
theorem skel_Incr : Gen.Skel.Storage_Incr = ["IncrBy"] := by decide
theorem skel_IncrBy : Gen.Skel.Storage_IncrBy =
    ["cacheTierFor", "counter.IncrBy", "lockKey", "cache.Get", "cache.Set"] := by decide
theorem skel_SetExpiration : Gen.Skel.Storage_SetExpiration = ["lockKey", "cacheTierFor", "cache.Get", "cache.Set"] := by
  decide
theorem skel_SetNX : Gen.Skel.Storage_SetNX = ["cacheTierFor", "nxSetter.SetNX", "cache.Exists", "cache.Set"] := by
  decide
theorem skel_SetHash : Gen.Skel.Storage_SetHash = ["cacheTierFor().Set", "cacheTierFor"] := by decide
theorem skel_GetHash : Gen.Skel.Storage_GetHash = ["cacheTierFor().Get", "cacheTierFor"] := by decide
theorem skel_DeleteHash : Gen.Skel.Storage_DeleteHash = ["cacheTierFor().Delete", "cacheTierFor"] := by decide

/-! ## Routing: for EVERY key and EVERY prefix table (tie T1b: generated `getCategory`, `getCacheForKey`,
`cacheTierFor`) -/

/-- Every facade method — Get, Set, Delete, Exists, the list operations (all through `route.ck`), and the
counter / hash / expiration methods (through `cacheTierFor` = `route.aux`) — uses ONE cache tier per key:
a key is read from the tier class it was written to. -/
theorem C14_route_one_cache_tier (h : Storage) (key : String) (wf : WFStorage h) :
    (route h key).aux = (route h key).ck ∧ (route h key).ck ≠ .persistent :=
  ⟨route_aux_eq_ck h key wf, route_ck_ne_persistent h key wf⟩

/-- Shared and shared-persistent keys live in the shared cache whenever one is configured: every node
that shares that cache sees them. -/
theorem C14_route_shared_visible (h : Storage) (key : String) (wf : WFStorage h)
    (hs : h.sharedCache = some .shared)
    (hcat : Storage.getCategory h key = DataCategoryShared ∨
            Storage.getCategory h key = DataCategorySharedPersistent) :
    (route h key).ck = .shared :=
  route_shared_uses_shared_cache h key wf hs hcat

/-- Runtime keys and pure shared keys never reach the persistent tier; persisted categories reach it
exactly when persistence is enabled. -/
theorem C14_route_persistent_iff (h : Storage) (key : String) :
    (route h key).pe = true ↔
      (Storage.getCategory h key = DataCategoryPersistent ∨
       Storage.getCategory h key = DataCategorySharedPersistent) ∧ h.config.EnablePersistent = true :=
  route_pe_iff h key

/-- In EVERY run (either variant, any calls, any schedule, any failures) every tier call addresses the
cache tier of the key, or the persistent tier and then only if the key's category is persisted: the
trace predicate the runner applies to the implementation's tier-call trace. -/
theorem C14_route_trace (V : Variant) (h : Storage) (key : String) (wf : WFStorage h)
    (c s p : Option Val) (ops : List Op) (sch : List Entry) :
    holdsRoute (route h key) (model V (route h key) c s p ops sch).ths
      (model V (route h key) c s p ops sch).trace = true :=
  holdsRoute_of_inv _ _ (routeInv_run V _ (route_aux_eq_ck h key wf) sch _ (routeInv_init _ c s p ops))

/-! ### The default tables (tie T1): the key families keep their tier class -/

/-- `hybrid.DefaultConfig()` with the two deployment switches. -/
def defaultStorage (pe sh : Bool) : Storage :=
  { config :=
      { PersistentPrefixes := DefaultConfig.PersistentPrefixes
        SharedPrefixes := DefaultConfig.SharedPrefixes
        SharedPersistentPrefixes := DefaultConfig.SharedPersistentPrefixes
        DefaultCacheTTL := DefaultConfig.DefaultCacheTTL
        PersistentCacheTTL := DefaultConfig.PersistentCacheTTL
        SharedCacheTTL := DefaultConfig.SharedCacheTTL
        EnablePersistent := pe }
    cache := some .cache
    sharedCache := if sh then some .shared else none }

theorem defaultStorage_wf (pe sh : Bool) : WFStorage (defaultStorage pe sh) := by
  cases sh <;> simp [WFStorage, defaultStorage]

/-- Keys that other nodes must see (connection state, client index, tunnel waiting, node registry,
connection codes and their index, id generators, client runtime state, HTTP domain index and id counter). -/
def crossNodeKeys : List String :=
  ["tunnox:conn_state:c1", "tunnox:client_conn:7", "tunnox:tunnel_waiting:t1", "tunnox:node:n1",
   "tunnox:runtime:conncode:abc", "tunnox:index:conncode:target:7", "tunnox:id:used:client:7",
   "tunnox:runtime:client:state:7", "tunnox:http_domain:index:a.example", "tunnox:http_domain:next_id",
   "tunnox:http_domain:deleting:hdm_1", "lock:cleanup_task:cleanup_expired"]

/-- Keys that are shared AND persisted (mapping indexes, port mappings, HTTP domain mappings, webhooks). -/
def sharedPersistentKeys : List String :=
  ["tunnox:client_mappings:7", "tunnox:user_mappings:u1", "tunnox:port_mapping:pm1", "tunnox:mappings:list",
   "tunnox:http_domain:mapping:hdm_1", "tunnox:http_domain:mappings:list", "tunnox:http_domain:client:7", "webhook:w1", "webhooks:list",
   "webhook_log:l1", "webhook_logs:w1"]

/-- Node-local persisted keys. -/
def persistentKeys : List String :=
  ["tunnox:user:u1", "tunnox:client:7", "tunnox:config:client:7", "tunnox:persist:client:config:7",
   "tunnox:persist:clients:list", "tunnox:mapping:m1", "tunnox:persist:mapping:m1",
   "tunnox:persist:mappings:list", "tunnox:stats:persistent:day"]

/-- Runtime-only keys (config.go `RuntimePrefixes`). -/
def runtimeKeys : List String :=
  ["tunnox:runtime:key1", "tunnox:session:s1", "tunnox:jwt:t1", "tunnox:route:7", "tunnox:temp:x",
   "tunnox:stats:runtime:x", "tunnox:stats:cache:x", "other:key"]

/-- With the regenerated default tables every key family is in its category. -/
theorem C14_default_tables :
    (crossNodeKeys.all fun k => Storage.getCategory (defaultStorage true true) k == DataCategoryShared) = true ∧
    (sharedPersistentKeys.all fun k =>
        Storage.getCategory (defaultStorage true true) k == DataCategorySharedPersistent) = true ∧
    (persistentKeys.all fun k => Storage.getCategory (defaultStorage true true) k == DataCategoryPersistent) = true ∧
    (runtimeKeys.all fun k => Storage.getCategory (defaultStorage true true) k == DataCategoryRuntime) = true := by
  decide +kernel

/-- … hence, in a cluster (shared cache present, persistence on), cross-node keys are served by the shared
cache only, shared-persistent keys by shared cache + persistent tier, and runtime keys by the local
cache only — for every method of the facade (`C14_route_trace`). -/
theorem C14_default_routes :
    (crossNodeKeys.all fun k => (route (defaultStorage true true) k).ck == .shared &&
        !(route (defaultStorage true true) k).pe) = true ∧
    (sharedPersistentKeys.all fun k => (route (defaultStorage true true) k).ck == .shared &&
        (route (defaultStorage true true) k).pe) = true ∧
    (persistentKeys.all fun k => (route (defaultStorage true true) k).ck == .cache &&
        (route (defaultStorage true true) k).pe) = true ∧
    (runtimeKeys.all fun k => (route (defaultStorage true true) k).ck == .cache &&
        !(route (defaultStorage true true) k).pe) = true := by
  decide +kernel

/-! ## Freshness and list atomicity: every number of calls, every schedule, persistent-tier failures,
cache evictions -/

/-- WF: the route comes from a facade built by `NewWithSharedCache` (its cache tier is not the persistent
tier, `cacheTierFor` agrees with it, only pure shared data — never persisted — hands cache errors to the
caller: all three hold for every `route h key`, see `C14_main`), no call is the internal write-back
pseudo-call, injected failures hit the persistent tier only (cache-tier failures are the excluded points,
see the witnesses `C14_cache_set_fault_witness`, `C14_cache_read_fault_witness`), and cache entries are
evicted (TTL expiry, eviction, cache restart: at any point of the schedule, any number of times) only where a
persistent tier backs the cache — elsewhere the "cache" holds the only copy and expiry is deletion by TTL. -/
structure WF (R : Route) (ops : List Op) (sch : List Entry) : Prop where
  ck : R.ck ≠ .persistent
  aux : R.aux = R.ck
  pp : R.pe = true → R.passErr = false
  ops : ∀ o ∈ ops, o ≠ .wbk
  faults : ∀ e ∈ sch, e.fault = none ∨ e.fault = some .persistent
  evict : ∀ e ∈ sch, EvictOK R e

/-- **Freshness.** For every set of concurrent get/exists/set/delete calls on a key of any category, every
schedule, every placement of persistent-tier failures and of cache evictions: every read (and a final
sequential `Get`) returns the value of a write — or the initial content — that had started when the read
returned and is not older than any write that returned before the read started; the value of a `Set` that reported an
error is never returned (it was written nowhere).  No stale or uncommitted value is ever served, and an
expired cache entry loses nothing. -/
theorem C14_fresh (R : Route) (c s p : Option Val) (ops : List Op) (sch : List Entry)
    (wf : WF R ops sch) (hco : coherent R c s p = true) :
    holdsFresh (initVal R c s p) (model .repaired R c s p ops sch).ths
      (model .repaired R c s p ops sch).fget = true :=
  fresh_main R c s p ops sch wf.ck wf.pp wf.ops wf.faults wf.evict hco

/-- **List atomicity.** For every set of concurrent AppendToList/RemoveFromList calls on one list — with any
number of plain `GetList` readers running beside them, whatever form the tiers hold the list in (decoded,
or the JSON string remote storage and Redis answer) — every
schedule, every placement of persistent-tier failures and of cache evictions: after all calls have returned,
every element whose append succeeded (and whose removal did not) is in the list, every element whose
removal succeeded (and whose append did not) is not, nothing is in the list that was neither there
initially nor successfully appended, and every initial member that was not successfully removed is still
there — a call that returned an error (failed reload of the list, rejected persistent write) has changed
nothing in any tier. -/
theorem C14_list (R : Route) (c s p : Option Val) (ops : List Op) (sch : List Entry)
    (wf : WF R ops sch) (hco : coherent R c s p = true) :
    holdsList (initVal R c s p) (model .repaired R c s p ops sch).ths
      (model .repaired R c s p ops sch).fget = true :=
  list_main R c s p ops sch wf.ck wf.pp wf.ops wf.faults wf.evict hco

/-- **Declared cross-node keys.** With the regenerated default tables, EVERY key of a key family the code
base uses across nodes (`declaredCrossNode`: connection state, node registry, connection codes, id
generators, HTTP domain index / id counter / delete claim / mapping list, the mapping indexes, webhooks,
the `lock:` keys of the storage-based distributed lock) is served by the shared cache when one is
configured — never by a node-local cache. -/
theorem C14_declared_tables (pe : Bool) : TablesCover (defaultStorage pe true) := by
  unfold TablesCover
  cases pe <;> decide +kernel

theorem C14_declared_shared (pe : Bool) (key : String) (hd : isDeclaredCrossNode key = true) :
    (route (defaultStorage pe true) key).ck = .shared :=
  declared_ck_shared _ key (defaultStorage_wf pe true) rfl (C14_declared_tables pe) hd

/-- **C14.** The whole property, as the runner evaluates it on the implementation's observations of a
one-node case, holds for the model of the repaired code: every key, all calls, all schedules,
persistent-tier failures, cache evictions (where a persistent tier backs the cache). -/
theorem C14_main (h : Storage) (key : String) (hwf : WFStorage h)
    (htab : h.sharedCache = some .shared → TablesCover h)
    (c s p : Option Val) (ops : List Op)
    (sch : List Entry) (hops : ∀ o ∈ ops, o ≠ .wbk)
    (hf : ∀ e ∈ sch, e.fault = none ∨ e.fault = some .persistent)
    (hev : ∀ e ∈ sch, EvictOK (route h key) e) :
    holds (route h key)
      { key := key, sh := h.sharedCache.isSome, twoNode := false, evicts := sch.any (·.evict.isSome) } c s p
      (model .repaired (route h key) c s p ops sch) = true := by
  have wf : WF (route h key) ops sch :=
    ⟨route_ck_ne_persistent h key hwf, route_aux_eq_ck h key hwf, route_passErr h key, hops, hf, hev⟩
  have hroute := C14_route_trace .repaired h key hwf c s p ops sch
  have hdecl : holdsDeclared key h.sharedCache.isSome (model .repaired (route h key) c s p ops sch).trace = true := by
    unfold holdsDeclared
    cases hd : isDeclaredCrossNode key with
    | false => simp
    | true =>
      cases hs : h.sharedCache with
      | none => simp
      | some t =>
        have hs' : h.sharedCache = some .shared := by
          rcases hwf.2 with h1 | h1
          · rw [hs] at h1; cases h1
          · exact h1
        have hck := declared_ck_shared h key hwf hs' (htab hs') hd
        simp only [Option.isSome_some, Bool.and_self, Bool.not_true, Bool.false_or]
        exact no_local_of_holdsRoute _ _ _ hck hroute
  simp only [holds, Bool.and_eq_true, Bool.or_eq_true, Bool.not_eq_true', Bool.false_and, Bool.false_eq_true,
    or_false, Bool.not_false, Bool.true_or, or_true, and_true]
  refine ⟨⟨hroute, hdecl⟩, ?_⟩
  cases hco : coherent (route h key) c s p with
  | false => exact Or.inl (Or.inl rfl)
  | true => exact Or.inr ⟨C14_fresh _ c s p ops sch wf hco, C14_list _ c s p ops sch wf hco⟩

/-! ## Two nodes on one shared cache -/

/-- **Cross-node visibility of pure shared data.** For a key whose category is Shared, with a shared cache
configured: however the get/exists/set/delete calls are spread over two facade instances (nodes), in
every schedule, the run is observation for observation the run on one node; hence every read on ANY node
(and the final sequential `Get` of both nodes) returns a value that is not older than any write that had
returned — on whichever node — before the read started. -/
theorem C14_two_node_shared (h : Storage) (key : String) (hwf : WFStorage h) (hs : h.sharedCache = some .shared)
    (hcat : Storage.getCategory h key = DataCategoryShared)
    (c s p : Option Val) (ops : List Op) (nodes : List Nat) (sch : List Entry)
    (hops : ∀ o ∈ ops, isKVop o)
    (hf : ∀ e ∈ sch, e.fault = none ∨ e.fault = some .persistent) (hev : ∀ e ∈ sch, e.evict = none)
    (hco : coherent (route h key) c s p = true) :
    holdsFresh (initVal (route h key) c s p) (modelN .repaired (route h key) c s p ops nodes sch).ths
      (modelN .repaired (route h key) c s p ops nodes sch).fget = true ∧
    holdsFresh (initVal (route h key) c s p) (modelN .repaired (route h key) c s p ops nodes sch).ths
      (modelN .repaired (route h key) c s p ops nodes sch).fget1 = true := by
  have hck := route_shared_uses_shared_cache h key hwf hs (Or.inl hcat)
  have hpe : (route h key).pe = false := by
    cases hq : (route h key).pe with
    | false => rfl
    | true =>
      rcases ((route_pe_iff h key).1 hq).1 with h1 | h1 <;> rw [hcat] at h1 <;> exact absurd h1 (by decide)
  have hR : PureShared (route h key) := ⟨hck, by rw [route_aux_eq_ck h key hwf]; exact hck, hpe⟩
  obtain ⟨e1, e2, e3, _, _⟩ := modelN_pure_shared hR c s p ops nodes sch hops hev
  have hnw : ∀ o ∈ ops, o ≠ .wbk := by
    intro o ho hw
    rcases hops o ho with h1 | h1 | ⟨_, _, h1⟩ | h1 <;> rw [hw] at h1 <;> cases h1
  have wf : WF (route h key) ops sch :=
    ⟨route_ck_ne_persistent h key hwf, route_aux_eq_ck h key hwf, route_passErr h key, hnw, hf,
     fun e he t ht => by rw [hev e he] at ht; cases ht⟩
  have := C14_fresh _ c s p ops sch wf hco
  rw [e1, e2, e3]
  exact ⟨this, this⟩

/-! ## Read-modify-write calls are exclusive

Full statement (the predicate `holdsExclusive` is part of what the runner applies, `holdsAll`):

    theorem C14_exclusive : ∀ R c s p ops sch, WF R ops sch →
        holdsExclusive (model .repaired R c s p ops sch).ths (model .repaired R c s p ops sch).trace = true

i.e. in every run of one node, between the tier read and the last tier write of an AppendToList /
RemoveFromList / SetExpiration no Get/GetList/Set/SetList/Delete/Append/Remove/SetExpiration of another
caller performs a successful tier write.  Proved below: the local half (`_partial`) — every such write is
performed at a step that takes, or already holds, the per-key lock, for every program point, state, fault
and route — which together with `enabled` (a step that needs the lock runs only when nobody else holds it)
is what excludes the interleaving; the lifting to whole traces (the lock holder's span in the trace) is not
proved here and is covered by the correspondence runs (stream rmw-vs-write: every interleaving of a
read-modify-write call with a plain Set/SetList/Delete, every category and deployment). -/

/-- Local half of `C14_exclusive`: a tier write of a lock-guarded call needs the key lock free, or happens
inside the critical section. -/
theorem C14_exclusive_step_partial (R : Route) (tid : Nat) (ft : Option Tier) (σ : St) (th : Thread) :
    ∀ e ∈ (stepThread true R tid ft σ th).evs, isGuardedOp th.op = true → isWriteAct e.act = true →
      needsLock th.op th.pc = true ∨ inCSpc th.pc = true :=
  write_needs_lock R tid ft σ th

/-- … and such a step is not enabled while another caller holds the lock. -/
theorem C14_exclusive_blocked (σ : St) (tid other : Nat) (th : Thread)
    (hl : σ.lock = some other) (hne : other ≠ tid) (hn : needsLock th.op th.pc = true) :
    enabled true σ tid th = false := by
  unfold enabled
  simp [hn, hl, hne]

/-- The model of the repaired code on the seed's schedule shape (append reads, a Delete is scheduled, append
writes): the Delete is blocked until the append has written; the clause holds, the list ends deleted. -/
example :
    holdsExclusive
      (model .repaired (route (defaultStorage false false) "tunnox:session:k1") (some (.list [1, 2])) none none
        [.app 7, .del] [⟨0, none, none⟩, ⟨1, none, none⟩, ⟨0, none, none⟩, ⟨1, none, none⟩]).ths
      (model .repaired (route (defaultStorage false false) "tunnox:session:k1") (some (.list [1, 2])) none none
        [.app 7, .del] [⟨0, none, none⟩, ⟨1, none, none⟩, ⟨0, none, none⟩, ⟨1, none, none⟩]).trace = true ∧
    (model .repaired (route (defaultStorage false false) "tunnox:session:k1") (some (.list [1, 2])) none none
        [.app 7, .del] [⟨0, none, none⟩, ⟨1, none, none⟩, ⟨0, none, none⟩, ⟨1, none, none⟩]).fget = .nf := by
  decide +kernel

/-- Without the key lock (the as-found variant has none) the same schedule violates the clause: the
completed Delete is overwritten by the append's older snapshot. -/
theorem C14_exclusive_witness :
    holdsExclusive
      (model .asFound (route (defaultStorage false false) "tunnox:session:k1") (some (.list [1, 2])) none none
        [.app 7, .del] [⟨0, none, none⟩, ⟨1, none, none⟩, ⟨0, none, none⟩]).ths
      (model .asFound (route (defaultStorage false false) "tunnox:session:k1") (some (.list [1, 2])) none none
        [.app 7, .del] [⟨0, none, none⟩, ⟨1, none, none⟩, ⟨0, none, none⟩]).trace = false := by
  decide +kernel

/-- The clause rejects the observation of the seeded regression (a TTL touch that re-wrote `s1` over a
completed `Set(s5)`). -/
example : holdsExclusive
    [⟨.exp 7, 1, 3, some .ok⟩, ⟨.set (.str 5) 0, 2, 2, some .ok⟩]
    [⟨0, .cache, .get, .hit (.str 1)⟩, ⟨1, .cache, .set (.str 5) 9, .ok⟩, ⟨0, .cache, .set (.str 1) 7, .ok⟩] = false := by
  decide

/-! ## Witnesses: the code as found, and the recorded findings -/

/-- As found (async write-back, no key lock): a `Get` that missed the cache overlaps a `Delete`; the
write-back lands last and the deleted value is served again. -/
theorem C14_stale_witness :
    holds (route (defaultStorage true false) "tunnox:user:k1") ⟨"tunnox:user:k1", false, false, false⟩ none none (some (.str 1))
      (model .asFound (route (defaultStorage true false) "tunnox:user:k1") none none (some (.str 1))
        [.get, .del] [⟨0, none, none⟩, ⟨0, none, none⟩, ⟨1, none, none⟩, ⟨1, none, none⟩, ⟨2, none, none⟩]) = false := by
  decide +kernel

/-- As found: the same with an overwriting `Set` (shared-persistent key, shared cache). -/
theorem C14_stale_set_witness :
    holds (route (defaultStorage true true) "tunnox:port_mapping:k1") ⟨"tunnox:port_mapping:k1", true, false, false⟩ none none (some (.str 1))
      (model .asFound (route (defaultStorage true true) "tunnox:port_mapping:k1") none none (some (.str 1))
        [.get, .set (.str 5) 0] [⟨0, none, none⟩, ⟨0, none, none⟩, ⟨1, none, none⟩, ⟨1, none, none⟩, ⟨2, none, none⟩]) = false := by
  decide +kernel

/-- As found: two appends read the same list; one entry is lost. -/
theorem C14_lost_update_witness :
    holds (route (defaultStorage true true) "tunnox:client_mappings:k1") ⟨"tunnox:client_mappings:k1", true, false, false⟩ none (some (.list [1])) (some (.list [1]))
      (model .asFound (route (defaultStorage true true) "tunnox:client_mappings:k1")
        none (some (.list [1])) (some (.list [1]))
        [.app 7, .app 8] [⟨0, none, none⟩, ⟨1, none, none⟩, ⟨0, none, none⟩, ⟨1, none, none⟩, ⟨0, none, none⟩, ⟨1, none, none⟩]) = false := by
  decide +kernel

/-- The same schedules are harmless after the repair. -/
example :
    holds (route (defaultStorage true false) "tunnox:user:k1") ⟨"tunnox:user:k1", false, false, false⟩ none none (some (.str 1))
      (model .repaired (route (defaultStorage true false) "tunnox:user:k1") none none (some (.str 1))
        [.get, .del] [⟨0, none, none⟩, ⟨0, none, none⟩, ⟨1, none, none⟩, ⟨1, none, none⟩, ⟨0, none, none⟩, ⟨1, none, none⟩, ⟨1, none, none⟩]) = true := by
  decide +kernel

/-- Known finding `cache-set-fault-swallowed` (excluded by `WF.faults`): the persistent `Set` succeeds,
the cache `Set` fails and is only logged; `Set` returns nil and the cache keeps serving the old value. -/
theorem C14_cache_set_fault_witness :
    holds (route (defaultStorage true false) "tunnox:user:k1") ⟨"tunnox:user:k1", false, false, false⟩ (some (.str 1)) none (some (.str 1))
      (model .repaired (route (defaultStorage true false) "tunnox:user:k1") (some (.str 1)) none (some (.str 1))
        [.set (.str 5) 0] [⟨0, none, none⟩, ⟨0, some .cache, none⟩]) = false := by
  decide +kernel

/-- Known finding `cache-read-fault-masked` (excluded by `WF.faults`): a failing cache read of a runtime
key is reported as "not found". -/
theorem C14_cache_read_fault_witness :
    holds (route (defaultStorage false false) "tunnox:session:k1") ⟨"tunnox:session:k1", false, false, false⟩ (some (.str 1)) none none
      (model .repaired (route (defaultStorage false false) "tunnox:session:k1") (some (.str 1)) none none
        [.get] [⟨0, some .cache, none⟩]) = false := by
  decide +kernel

/-! ### Two nodes: recorded findings (the key lock and the local cache are per node) -/

/-- Known finding `cross-node-writeback`: a shared-and-persisted key, two nodes on one shared cache.  Node 1
misses the shared cache and reads the persistent tier; node 0 deletes the key (its own key lock does not
exclude node 1); node 1's write-back lands last: the shared cache serves the deleted value to every node. -/
theorem C14_two_node_writeback_witness :
    holds (route (defaultStorage true true) "tunnox:client_mappings:k1")
      ⟨"tunnox:client_mappings:k1", true, true, false⟩ none none (some (.str 1))
      (modelN .repaired (route (defaultStorage true true) "tunnox:client_mappings:k1") none none (some (.str 1))
        [.del, .get] [0, 1] [⟨1, none, none⟩, ⟨1, none, none⟩, ⟨0, none, none⟩, ⟨0, none, none⟩, ⟨1, none, none⟩])
      = false := by
  decide +kernel

/-- Known finding `cross-node-local-cache`: a persisted node-local-cache key (user, client configuration, …)
in a cluster.  Node 1 overwrites it; node 0 keeps serving its cached copy until the 24 h cache TTL. -/
theorem C14_two_node_local_cache_witness :
    holds (route (defaultStorage true true) "tunnox:user:k1")
      ⟨"tunnox:user:k1", true, true, false⟩ (some (.str 1)) none (some (.str 1))
      (modelN .repaired (route (defaultStorage true true) "tunnox:user:k1") (some (.str 1)) none (some (.str 1))
        [.get, .set (.str 5) 0] [0, 1] [⟨1, none, none⟩, ⟨1, none, none⟩, ⟨0, none, none⟩])
      = false := by
  decide +kernel

/-- Known finding `cross-node-list-update`: two nodes append to one shared index list; get-modify-set is
atomic per node only, one entry is lost. -/
theorem C14_two_node_list_witness :
    holds (route (defaultStorage false true) "tunnox:index:conncode:target:k1")
      ⟨"tunnox:index:conncode:target:k1", true, true, false⟩ none (some (.list [1])) none
      (modelN .repaired (route (defaultStorage false true) "tunnox:index:conncode:target:k1")
        none (some (.list [1])) none
        [.app 7, .app 8] [0, 1] [⟨0, none, none⟩, ⟨1, none, none⟩, ⟨0, none, none⟩, ⟨1, none, none⟩])
      = false := by
  decide +kernel

/-- … while sequential use across the two nodes is fine (visibility itself holds). -/
example :
    holds (route (defaultStorage true true) "tunnox:client_mappings:k1")
      ⟨"tunnox:client_mappings:k1", true, true, false⟩ none none (some (.list [1]))
      (modelN .repaired (route (defaultStorage true true) "tunnox:client_mappings:k1") none none (some (.list [1]))
        [.app 7, .app 8, .getl] [0, 1, 0]
        [⟨0, none, none⟩, ⟨0, none, none⟩, ⟨0, none, none⟩, ⟨0, none, none⟩, ⟨0, none, none⟩,
         ⟨1, none, none⟩, ⟨1, none, none⟩, ⟨1, none, none⟩, ⟨2, none, none⟩]) = true := by
  decide +kernel

/-! ## Non-vacuity -/

/-- The eviction hypothesis is inhabited: a persisted key whose cache entry expires between the two steps
of a `Set` and again before a `Get`. -/
example : WF (route (defaultStorage true false) "tunnox:user:k1") [.set (.str 5) 0, .get]
    [⟨0, none, none⟩, ⟨0, none, some .cache⟩, ⟨0, none, none⟩, ⟨0, none, some .cache⟩, ⟨1, none, none⟩, ⟨1, none, none⟩] :=
  ⟨route_ck_ne_persistent _ _ (defaultStorage_wf _ _), route_aux_eq_ck _ _ (defaultStorage_wf _ _),
   route_passErr _ _, by decide, by decide, by
    intro e he t ht
    have hpe : (route (defaultStorage true false) "tunnox:user:k1").pe = true := by decide +kernel
    simp only [List.mem_cons, List.mem_nil_iff, or_false] at he
    rcases he with rfl | rfl | rfl | rfl | rfl | rfl <;> simp at ht <;> (subst ht; exact ⟨rfl, by decide, hpe⟩)⟩

/-- The declared-key clause is not vacuous: it rejects a `lock:` key served by the local cache. -/
example : holdsDeclared "lock:cleanup_task:x" true [⟨0, .cache, .setnx (.str 1) 5, .b true⟩] = false := by
  decide +kernel


/-- `WF` is inhabited by a non-trivial case: three concurrent calls on a persisted key, a schedule with a
persistent-tier failure. -/
example : WF (route (defaultStorage true false) "tunnox:user:k1") [.get, .set (.str 5) 0, .del]
    [⟨0, none, none⟩, ⟨1, some .persistent, none⟩, ⟨2, none, none⟩, ⟨0, none, none⟩, ⟨2, none, none⟩, ⟨0, none, none⟩] :=
  ⟨route_ck_ne_persistent _ _ (defaultStorage_wf _ _), route_aux_eq_ck _ _ (defaultStorage_wf _ _),
   route_passErr _ _, by decide, by decide, by
    intro e he t ht
    simp only [List.mem_cons, List.mem_nil_iff, or_false] at he
    rcases he with rfl | rfl | rfl | rfl | rfl | rfl <;> simp at ht⟩

/-- `coherent` holds for the cache-miss situation the defect needs (cache empty, value persisted). -/
example : coherent (route (defaultStorage true false) "tunnox:user:k1") none none (some (.str 1)) = true := by
  decide +kernel

/-- The freshness predicate is not vacuously true: it rejects a stale read. -/
example : holdsFresh (some (.str 1))
    [⟨.del, 1, 2, some .ok⟩, ⟨.get, 3, 3, some (.val (.str 1))⟩] .nf = false := by decide

/-- The list predicate rejects a list whose initial members vanished although nobody removed them (an
append that took a failed reload for an empty list and wrote `[7]`). -/
example : holdsList (some (.list [1, 2])) [⟨.app 7, 1, 3, some .ok⟩] (.val (.list [7])) = false := by decide

/-- … the model of the repaired code fails that call instead (persistent `Get` of the reload fails), and
the members stay. -/
example :
    (model .repaired (route (defaultStorage true true) "tunnox:client_mappings:k1") none none (some (.list [1, 2]))
      [.app 7] [⟨0, none, none⟩, ⟨0, some .persistent, none⟩]).fget = .val (.list [1, 2]) ∧
    ((model .repaired (route (defaultStorage true true) "tunnox:client_mappings:k1") none none (some (.list [1, 2]))
      [.app 7] [⟨0, none, none⟩, ⟨0, some .persistent, none⟩]).ths.map (·.res)) = [some .err] := by
  decide +kernel

/-- The freshness predicate rejects a read that was served the value of a `Set` which reported failure
(an uncommitted value). -/
example : holdsFresh (some (.str 1))
    [⟨.set (.str 5) 0, 1, 2, some .err⟩, ⟨.get, 3, 3, some (.val (.str 5))⟩] (.val (.str 1)) = false := by decide

/-- The list predicate rejects a member that a failed append left behind, and a member that a failed
remove made disappear. -/
example : holdsList (some (.list [1])) [⟨.app 7, 1, 2, some .err⟩] (.val (.list [1, 7])) = false := by decide
example : holdsList (some (.list [1, 2])) [⟨.rem 1, 1, 2, some .err⟩] (.val (.list [2])) = false := by decide

/-- … the model of the repaired code writes nothing when the persistent tier rejects the write. -/
example :
    (model .repaired (route (defaultStorage true false) "tunnox:user:k1") (some (.str 1)) none (some (.str 1))
      [.set (.str 5) 0] [⟨0, some .persistent, none⟩]).fin = (some (.str 1), none, some (.str 1)) := by
  decide +kernel

/-- Readers and JSON-form lists are inside `C14_list`: a cold cache over a persistent tier that answers the
list as a JSON string, a `GetList` reader overlapping an append.  The reader's only cache write is the
write-back under the key lock; afterwards the appended member is in every tier that holds the list. -/
example :
    (model .repaired (route (defaultStorage true false) "tunnox:persist:clients:list") none none (some (.jl [1, 2]))
      [.getl, .app 7] [⟨0, none, none⟩, ⟨0, none, none⟩, ⟨0, none, none⟩, ⟨1, none, none⟩, ⟨1, none, none⟩,
        ⟨1, none, none⟩, ⟨0, none, none⟩]).fin = (some (.list [1, 2, 7]), none, some (.list [1, 2, 7])) := by
  decide +kernel

/-- … and the predicate rejects the observation of a reader that wrote its older snapshot into the cache
after the append had completed (the final `Get` misses the member). -/
example : holdsList (some (.jl [1, 2]))
    [⟨.getl, 1, 8, some (.val (.list [1, 2]))⟩, ⟨.app 7, 4, 7, some .ok⟩] (.val (.list [1, 2])) = false := by decide

/-- The list predicate rejects a lost append. -/
example : holdsList (some (.list [1]))
    [⟨.app 7, 1, 3, some .ok⟩, ⟨.app 8, 2, 4, some .ok⟩] (.val (.list [1, 8])) = false := by decide

end Tunnox.C14
