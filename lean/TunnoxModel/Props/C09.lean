import TunnoxModel.Spec.C09
namespace Tunnox.C09
open Gen
theorem skel_RegisterWaitingTunnel : Skel.RegisterWaitingTunnel = ["time.Now", "now.Add", "makeKey", "storage.Set"] := by decide
end Tunnox.C09
