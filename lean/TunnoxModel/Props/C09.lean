import TunnoxModel.Proofs.C09
/-!
# C09 — a waiting tunnel is routable from any node until served or expired

Property theorems only.  `run cfg evs` is the executable model the driver runs (routing table over
the storage backends, `Model/C09.lean`); `holds` is the predicate the runner applies to the
observations of the real code (`Spec/C09.lean`).  "All register/lookup/remove/expire orders over
several tunnels and nodes" is the universal quantifier over event lists (any number of nodes, ids,
any interleaving with the two clocks); "all field values" is the quantifier over `Rec` inside the
events; "the in-memory, Redis and tiered backends" is the quantifier over `cfg.backend` (plus two
doubles that cover the remaining arms of the lookup's type switch).
-/
namespace Tunnox.C09
open Gen

/-! ## Ties to the source (T1 / T1b / T2) -/

theorem skel_RegisterWaitingTunnel : Skel.RegisterWaitingTunnel = ["time.Now", "now.Add", "makeKey", "storage.Set"] := by decide

/-- get → decode (three `Unmarshal` arms, one re-`Marshal`) → explicit expiry check; a lookup never
writes (the expired record is left to its key TTL). -/
theorem skel_LookupWaitingTunnel : Skel.LookupWaitingTunnel =
    ["makeKey", "storage.Get", "json.Marshal", "json.Unmarshal", "json.Unmarshal", "json.Unmarshal", "After"] := by
  decide

theorem skel_RemoveWaitingTunnel : Skel.RemoveWaitingTunnel = ["makeKey", "storage.Delete"] := by decide
theorem skel_GetNodeAddress : Skel.GetNodeAddress = ["storage.Get"] := by decide
theorem skel_RegisterNodeAddress : Skel.RegisterNodeAddress = ["storage.Set"] := by decide

/-- The bridge is put into the map before the routing record is written. -/
theorem skel_startSourceBridge : Skel.startSourceBridge =
    ["cloudControl.GetPortMapping", "NewTunnelBridge", "bridgeLock.Lock", "bridgeLock.Unlock", "bridgeLock.Unlock",
     "tunnelRouting.RegisterWaitingTunnel", "bridgeManager.NotifyTunnelReady", "notifyTargetClientToOpenTunnel",
     "runBridgeLifecycle"] := by decide

/-- When the lifecycle ends the bridge leaves the map and the routing record is removed. -/
theorem skel_runBridgeLifecycle : Skel.runBridgeLifecycle_c09 =
    ["bridge.Close", "bridge.Start", "bridgeLock.Lock", "delete", "bridgeLock.Unlock", "tunnelRouting.RemoveWaitingTunnel"] := by
  decide

/-- The target node polls: context check, lookup, sleep. -/
theorem skel_lookupTunnelRouting : Skel.lookupTunnelRouting = ["ctx.Done", "tunnelRouting.LookupWaitingTunnel", "time.Sleep"] := by
  decide

/-- Forwarding: the address of the source node is asked from the routing table (`getNodeAddr`) on
every call, between the per-tunnel connection lookup and the dial; nothing else is consulted. -/
theorem skel_CreateDedicatedConnection : Skel.CreateDedicatedConnection =
    ["connections.Load", "connections.Delete", "getNodeAddr", "d.DialContext", "connections.Store"] := by decide

theorem skel_forwardToSourceNode : Skel.forwardToSourceNode =
    ["tunnelConnMgr.CreateDedicatedConnection", "crossNodePool.Get", "WriteFrame", "runCrossNodeDataForwardDedicated"] ∧
    Skel.processCrossNodeForward = ["handleLocalBridgeWait", "forwardToSourceNode"] := by decide

theorem skel_hybrid : Skel.hybrid_Set = ["getCategory", "setPersistent", "setShared", "setSharedPersistent", "setRuntime"] ∧
    Skel.hybrid_setShared = ["getCacheForKey", "cache.Set"] ∧
    Skel.hybrid_Get = ["getCategory", "getCacheForKey", "cache.Get", "getSharedPersistent", "cache.Get", "persistent.Get"] ∧
    Skel.hybrid_Delete = ["getCategory", "getCacheForKey", "cache.Delete", "cache.Delete", "persistent.Delete", "cache.Delete", "persistent.Delete"] ∧
    Skel.hybrid_getCacheForKey = ["isShared"] := by decide

/-- The struct that is serialised: ten exported fields, distinct plain tags, none skipped. -/
theorem C09_fields : C09.WaitingState_fields =
    [("TunnelID", "string", "tunnel_id"), ("MappingID", "string", "mapping_id"), ("SecretKey", "string", "secret_key"),
     ("SourceNodeID", "string", "source_node_id"), ("SourceClientID", "int64", "source_client_id"),
     ("TargetClientID", "int64", "target_client_id"), ("TargetHost", "string", "target_host"),
     ("TargetPort", "int", "target_port"), ("CreatedAt", "time.Time", "created_at"),
     ("ExpiresAt", "time.Time", "expires_at")] := fields_ok

/-- Every Go type a backend hands back for a record is an arm of the lookup's type switch. -/
theorem C09_shapes_handled :
    ["*WaitingState", "string", "[]byte", "map[string]interface{}"].all
      (fun s => C09.LookupWaitingTunnel_cases.contains s) = true := shapes_handled

/-- Constants: 30 s default waiting period, 24 h node-address TTL, polling 50 ms → 200 ms. -/
theorem C09_consts : C09.NewRoutingTable_defaultTTL = 30000000000 ∧ tunnel.NodeAddressTTL = 86400000000000 ∧
    session.pollInitialInterval ≤ session.pollMaxInterval ∧ 1 < session.pollBackoffFactor := by decide

/-! ## Keys: independence across ids and across the two key families -/

/-- Different tunnel ids never share a storage key (for all strings, incl. empty, unicode, ids of any
length, ids that look like keys).  `C09.makeKey` here is `Gen.C09.makeKey`, the definition the
extractor translates from the body of `RoutingTable.makeKey` on every run: the translation accepts
only a concatenation of literals and the id, so a key function that truncates, hashes, folds case or
normalises makes GEN fail loudly (and a changed concatenation re-checks this proof); the harness's
id families (shared prefixes up to 4096 bytes, differing at every position class) make the same
collision observable on the real code. -/
theorem C09_tunnel_keys_injective (a b : String) : C09.makeKey a = C09.makeKey b ↔ a = b :=
  ⟨makeKey_inj, fun h => by rw [h]⟩

theorem C09_node_keys_injective (a b : String) : C09.GetNodeAddress_key a = C09.GetNodeAddress_key b ↔ a = b :=
  ⟨nodeKey_inj, fun h => by rw [h]⟩

/-- Registration and lookup of a node address use the same key. -/
theorem C09_node_key_agree (nid : String) : C09.RegisterNodeAddress_key nid = C09.GetNodeAddress_key nid := nodeKey_same nid

/-- No tunnel id can collide with a node address record. -/
theorem C09_key_families_disjoint (tid nid : String) : C09.makeKey tid ≠ C09.GetNodeAddress_key nid :=
  makeKey_ne_nodeKey tid nid

/-- **Tiered store**: with the prefix tables of `DefaultConfig()` and the current text of
`getCategory`/`isShared`, every waiting-tunnel key and every node-address key is *shared* data: it
goes to the shared cache when there is one (index 0), otherwise to the node's own cache. -/
theorem C09_hybrid_routes_shared (hasShared : Bool) (n : Nat) (tid nid : String) :
    hybridIdx hasShared n (C09.makeKey tid) = some (if hasShared then 0 else n + 1) ∧
    hybridIdx hasShared n (C09.GetNodeAddress_key nid) = some (if hasShared then 0 else n + 1) :=
  ⟨hybridIdx_makeKey hasShared n tid, hybridIdx_nodeKey hasShared n nid⟩

/-! ## Record fidelity on every value shape -/

/-- **Exactly the registered data comes back**, whichever shape the backend returns (the pointer
itself, a JSON string, JSON bytes, a JSON-decoded map): for every record whose integers are `int64`
values (and, on the map shape, at most 2^53 in absolute value). -/
theorem C09_record_fidelity (b : Backend) (r : Rec) (h : wfRec b r = true) :
    decodeValue (onGet (homeKind b) (onSet (homeKind b) (.ptr r))) = some r := decode_roundtrip b r h

/-- The bound is sharp: through `map[string]interface{}` the id 2^53+1 comes back as 2^53. -/
theorem C09_float_bound_witness :
    decodeValue (onGet .dmap (onSet .dmap (.ptr ⟨"t", "", "", "", 9007199254740993, 0, "", 0, 0, 0⟩))) =
      some ⟨"t", "", "", "", 9007199254740992, 0, "", 0, 0, 0⟩ := by decide +kernel

/-! ## Main theorem -/

/-- **C09.**  For every configuration (backend, number of nodes, their ttl settings) and every
history of register / lookup / remove / bridge-open / bridge-end / clock / node-address events, the
results the routing table produces satisfy the property predicate:

* a lookup from *any* node of an id whose last registration has not been removed and whose waiting
  period has not lapsed (on the nodes' clock nor on the Redis clock) returns exactly the registered
  mapping, secret, clients, target address and source node, with a validity window of the
  registering table's ttl;
* a lookup of any other id — never registered, removed by `RemoveWaitingTunnel` or by the end of
  the bridge lifecycle, or lapsed — does not resolve, so a late or replayed id is never routed;
* node addresses resolve to the last registered address while their TTL runs.

Hypotheses (`wf`, decidable, checked by the driver on every case): integers are `int64` values,
on the map-returning double |n| ≤ 2^53; a tiered store without shared cache is used from one node. -/
theorem C09_main (cfg : Cfg) (evs : List Ev) (h : wf cfg evs = true) : holds cfg evs (run cfg evs) = true :=
  holdsFrom_run cfg evs World.init Ghost.init (Inv_init cfg.backend)
    (fun e he => (List.all_eq_true.mp h) e he)

/-- The form the runner evaluates (histories outside `wf` are not judged). -/
theorem C09_main_runner (cfg : Cfg) (evs : List Ev) : holdsWF cfg evs (run cfg evs) = true := by
  unfold holdsWF
  cases h : wf cfg evs
  · rfl
  · simpa using C09_main cfg evs h

/-- The same from any reachable state: whatever happened before, the rest of the history is judged
correct from the specification state that history led to. -/
theorem C09_main_from (cfg : Cfg) (w : World) (g : Ghost) (evs : List Ev) (hI : Inv cfg.backend w g)
    (h : wf cfg evs = true) : holdsFrom cfg g evs (runFrom cfg w evs) = true :=
  holdsFrom_run cfg evs w g hI (fun e he => (List.all_eq_true.mp h) e he)

/-- **Forwarding clause** (also part of `C09_main`, stated on its own): from any state that a history
can reach, a target connection arriving on any node for tunnel `tid` is forwarded to the address the
tunnel's source node has registered *last* — however many tunnels this node forwarded to that node
before, and whatever addresses the node had earlier; with no live non-empty address nothing is
dialled; an id that does not resolve is not forwarded; a tunnel whose source node is this very node
is attached to the local bridge instead (`processCrossNodeForward`). -/
theorem C09_forward_current_address (cfg : Cfg) (w : World) (g : Ghost) (n : Nat) (tid : String)
    (hI : Inv cfg.backend w g) (hn : wfNode cfg.backend n = true) :
    check cfg g (.fwd n tid) (forwardTarget cfg w n tid).2 = true := (fwd_ok cfg w g n tid hI.1.1 hI.1.2 hn).1

/-- **Polling clause** (also part of `C09_main`): from any reachable state, the first `k` polls of the
target node's polling lookup return the registered record iff the id is in its waiting period, and
otherwise leave the lookup polling; one more poll followed by the end of its context returns the
record or a timeout — never a stale or foreign record, whatever was registered, removed, lapsed or
restarted between the polls (the events between `pollStart` and `pollEnd` are arbitrary). -/
theorem C09_polling_lookup (cfg : Cfg) (w : World) (g : Ghost) (n : Nat) (tid : String) (k : Nat)
    (hI : Inv cfg.backend w g) (hn : wfNode cfg.backend n = true) :
    check cfg g (.pollStart n tid k) (pollLoop cfg n tid k w).2 = true ∧
    check cfg g (.pollEnd n tid) (pollEnd cfg w n tid).2 = true :=
  ⟨(poll_ok cfg g n tid hn k w hI.1.1).1, (pollEnd_ok cfg w g n tid hI.1.1 hn).1⟩

/-- **Restart clause**: a crash-restart of any node keeps the invariant — the records and addresses
other nodes resolve are untouched; only that node's bridges are gone. -/
theorem C09_restart_keeps_routing (cfg : Cfg) (w : World) (g : Ghost) (n : Nat) (hI : Inv cfg.backend w g)
    (hb : (cfg.backend != .hybridLocal) = true) :
    Inv cfg.backend (restartNode cfg w n) (gstep cfg g (.restart n)) :=
  ⟨restart_ok cfg w g n hI.1 hb, restart_inf cfg w g n hI.2⟩

/-- **Overlapping lookups** (also part of `C09_main`): a lookup whose storage reply is delayed
(`slowBegin` … `slowEnd`, with an arbitrary history in between: removals, lapses, re-registrations,
other lookups of the same id on the same node) answers with what was registered when the store served
it, checked against the clock at arrival; and — because `C09_main` judges every ordinary `look`
against the state at *its own* start — a lookup that starts after a removal or lapse completed never
resolves the id, and one that starts after a registration completed finds it, whatever older
lookups are still in flight. -/
theorem C09_overlapping_lookups (cfg : Cfg) (w : World) (g : Ghost) (n : Nat) (tid : String)
    (hI : Inv cfg.backend w g) :
    check cfg g (.slowEnd n tid) (slowEnd w n tid).2 = true ∧
    Inv cfg.backend (slowEnd w n tid).1 (gstep cfg g (.slowEnd n tid)) := slowEnd_ok cfg w g n tid hI

/-- **Removal is unconditional** (also part of `C09_main`): when a tunnel ends, `RemoveWaitingTunnel`
removes the record whatever state the caller's context is in — at shutdown `runBridgeLifecycle`
hands it the session manager's already cancelled context — so from any reachable state a lookup
from any node after such a removal does not resolve the id. -/
theorem C09_remove_with_dead_context (cfg : Cfg) (w : World) (g : Ghost) (n m : Nat) (tid : String)
    (hI : Inv cfg.backend w g) (hn : wfNode cfg.backend n = true) (hm : wfNode cfg.backend m = true) :
    holdsFrom cfg g [.remDead n tid, .look m tid] (runFrom cfg w [.remDead n tid, .look m tid]) = true :=
  holdsFrom_run cfg _ w g hI (by
    intro e he
    simp only [List.mem_cons, List.mem_nil_iff, or_false] at he
    rcases he with rfl | rfl <;> simpa [wfEv])

/-! ## Non-vacuity and excluded points -/

def rA : Rec := ⟨"tunnel-隧道", "m-1", "s3cr3t", "node-0", 12345678, -7, "10.0.0.8", 8080, 0, 0⟩

/-- A concrete three-node Redis history meets `wf`, contains a live cross-node lookup, a lapse on the
nodes' clock only, a re-registration and a removal — and the model answers as the property demands. -/
example : wf ⟨.redis, [0, 2000, 0]⟩
    [.reg 0 rA, .look 1 rA.tunnelID, .advWall 31000, .look 2 rA.tunnelID, .reg 1 rA, .look 0 rA.tunnelID,
     .rem 2 rA.tunnelID, .look 0 rA.tunnelID] = true := by decide

example : (run ⟨.redis, [0, 2000, 0]⟩
    [.reg 0 rA, .look 1 rA.tunnelID, .advWall 31000, .look 2 rA.tunnelID, .reg 1 rA, .look 0 rA.tunnelID,
     .rem 2 rA.tunnelID, .look 0 rA.tunnelID]) =
    [.ok, .found { rA with createdAt := wall0, expiresAt := wall0 + 30000 }, .skip, .expired, .ok,
     .found { rA with createdAt := wall0 + 31000, expiresAt := wall0 + 33000 }, .ok, .notFound] := by decide +kernel

/-- The predicate is not trivially true: answering *found* after the removal is rejected … -/
example : holds ⟨.memory, [0, 0]⟩ [.reg 0 rA, .rem 1 rA.tunnelID, .look 0 rA.tunnelID]
    [.ok, .ok, .found rA] = false := by decide +kernel

/-- … and so is answering *not found* (or another node / other data) while the tunnel is waiting. -/
example : holds ⟨.memory, [0, 0]⟩ [.reg 0 rA, .look 1 rA.tunnelID] [.ok, .notFound] = false := by decide +kernel
example : holds ⟨.memory, [0, 0]⟩ [.reg 0 rA, .look 1 rA.tunnelID]
    [.ok, .found { rA with sourceNodeID := "node-1", expiresAt := 30000 }] = false := by decide +kernel

def rT1 : Rec := { rA with tunnelID := "T1" }
def rT2 : Rec := { rA with tunnelID := "T2", mappingID := "m-2" }

/-- The history of the address-change scenario: node 2 forwards a tunnel to node-0 at `@0`; node-0
re-registers at `@2` and node-1 takes over `@0`; the next tunnel of node-0 must go to `@2`. -/
example : run ⟨.redis, [0, 0, 0]⟩
    [.regAddr 0 "node-0" "@0", .reg 0 rT1, .fwd 2 "T1", .regAddr 0 "node-0" "@2", .regAddr 1 "node-1" "@0",
     .reg 0 rT2, .fwd 2 "T2", .rem 0 "T2", .fwd 2 "T2"] =
    [.ok, .ok, .forwarded "node-0" "@0", .ok, .ok, .ok, .forwarded "node-0" "@2", .ok, .notFound] := by decide +kernel

/-- … and the predicate rejects forwarding the second tunnel to the address node-0 had before. -/
example : holds ⟨.redis, [0, 0, 0]⟩
    [.regAddr 0 "node-0" "@0", .reg 0 rT1, .fwd 2 "T1", .regAddr 0 "node-0" "@2", .reg 0 rT2, .fwd 2 "T2"]
    [.ok, .ok, .forwarded "node-0" "@0", .ok, .ok, .forwarded "node-0" "@0"] = false := by decide +kernel

/-- Polling across a registration, a removal and a restart: two polls miss, the tunnel is registered,
the next poll returns it; a poll after the removal times out; the record of a crashed node still
resolves (until removed or lapsed), its bridge does not block a new one. -/
example : run ⟨.hybridRedis, [0, 0, 0]⟩
    [.pollStart 2 "T1" 2, .reg 0 rT1, .pollEnd 2 "T1", .rem 1 "T1", .pollStart 2 "T1" 1, .pollEnd 2 "T1",
     .open_ 0 rT2, .restart 0, .pollStart 1 "T2" 3, .open_ 0 rT2] =
    [.pending, .ok, .found { rT1 with createdAt := wall0, expiresAt := wall0 + 30000 }, .ok, .pending, .timeout,
     .ok, .skip, .found { rT2 with createdAt := wall0, expiresAt := wall0 + 30000 }, .ok] := by decide +kernel

/-- The predicate rejects a polling lookup that gives up although the id is waiting, and one that
returns a record after the removal. -/
example : holds ⟨.memory, [0, 0]⟩ [.reg 0 rT1, .pollStart 1 "T1" 2] [.ok, .pending] = false := by decide +kernel
example : holds ⟨.memory, [0, 0]⟩ [.reg 0 rT1, .rem 0 "T1", .pollEnd 1 "T1"] [.ok, .ok, .found rT1] = false := by
  decide +kernel

/-- Lookup #1 of node 2 is served by the store and its reply is held back; the tunnel is removed; lookup
#2 of the same node starts afterwards and must not resolve the id; the late reply of lookup #1 still
carries the record (it was served before the removal).  Symmetrically for a miss in flight across a
registration. -/
example : run ⟨.redis, [0, 0, 0]⟩
    [.reg 0 rT1, .slowBegin 2 "T1", .rem 0 "T1", .look 2 "T1", .slowEnd 2 "T1",
     .slowBegin 1 "T2", .reg 0 rT2, .look 1 "T2", .slowEnd 1 "T2", .slowEnd 1 "T2"] =
    [.ok, .pending, .ok, .notFound, .found { rT1 with createdAt := wall0, expiresAt := wall0 + 30000 },
     .pending, .ok, .found { rT2 with createdAt := wall0, expiresAt := wall0 + 30000 }, .notFound, .skip] := by
  decide +kernel

/-- The predicate rejects lookup #2 sharing the answer of the lookup that is still in flight. -/
example : holds ⟨.redis, [0, 0, 0]⟩ [.reg 0 rT1, .slowBegin 2 "T1", .rem 0 "T1", .look 2 "T1"]
    [.ok, .pending, .ok, .found { rT1 with expiresAt := 30000 }] = false := by decide +kernel

/-- A removal under a dead context really removes: the lookup from another node misses; the predicate
rejects an implementation that keeps resolving the id. -/
example : run ⟨.redis, [0, 0, 0]⟩ [.reg 0 rT1, .look 1 "T1", .remDead 0 "T1", .look 2 "T1"] =
    [.ok, .found { rT1 with createdAt := wall0, expiresAt := wall0 + 30000 }, .ok, .notFound] := by decide +kernel
example : holds ⟨.redis, [0, 0, 0]⟩ [.reg 0 rT1, .remDead 0 "T1", .look 2 "T1"]
    [.ok, .ok, .found { rT1 with expiresAt := 30000 }] = false := by decide +kernel

/-- Excluded point 1 (why `wfNode`): a tiered store without shared cache keeps the record in the
registering node's memory, another node does not find it. -/
theorem C09_hybridLocal_witness :
    holds ⟨.hybridLocal, [0, 0]⟩ [.reg 0 rA, .look 1 rA.tunnelID] (run ⟨.hybridLocal, [0, 0]⟩ [.reg 0 rA, .look 1 rA.tunnelID]) = false := by
  decide +kernel

/-- Excluded point 2 (why `exactF64`): on the map shape an id above 2^53 comes back changed. -/
theorem C09_float_witness :
    holds ⟨.dblMap, [0]⟩ [.reg 0 { rA with sourceClientID := 9007199254740993 }, .look 0 rA.tunnelID]
      (run ⟨.dblMap, [0]⟩ [.reg 0 { rA with sourceClientID := 9007199254740993 }, .look 0 rA.tunnelID]) = false := by
  decide +kernel

end Tunnox.C09
