/- GENERATED from the Go source by /verif/extract on every run. Do not edit. -/
import TunnoxModel.Model.PredPrelude
open Tunnox.PredPrelude
namespace Gen

namespace hybrid.DefaultConfig
def SharedPrefixes : List String := ["tunnox:conn_state:", "tunnox:client_conn:", "tunnox:tunnel_waiting:", "tunnox:node:", "tunnox:runtime:conncode:", "tunnox:index:conncode:target:", "tunnox:id:", "tunnox:runtime:client:state:", "tunnox:http_domain:index:", "tunnox:http_domain:next_id", "tunnox:http_domain:deleting:", "lock:"]
def PersistentPrefixes : List String := ["tunnox:user:", "tunnox:client:", "tunnox:config:client:", "tunnox:persist:client:config:", "tunnox:persist:clients:list", "tunnox:mapping:", "tunnox:persist:mapping:", "tunnox:persist:mappings:list", "tunnox:stats:persistent:"]
def SharedPersistentPrefixes : List String := ["tunnox:client_mappings:", "tunnox:user_mappings:", "tunnox:port_mapping:", "tunnox:mappings:list", "tunnox:http_domain:mapping:", "tunnox:http_domain:client:", "tunnox:http_domain:mappings:list", "webhook:", "webhooks:", "webhook_log:", "webhook_logs:"]
end hybrid.DefaultConfig

namespace constants
def TTLClientState : Nat := 90
def KeyPrefixRuntimeClientState : String := "tunnox:runtime:client:state:"
end constants

namespace Skel
def BaseAdapter_cleanupConnection : List String := ["session.CloseConnection", "closer.Close"]
def BaseAdapter_handleConnection : List String := ["b.cleanupConnection", "b.initializeConnection", "b.connectionReadLoop"]
def ClientRegistry_CleanupStale : List String := ["mu.Lock", "IsStale", "unindexLocked", "delete", "mu.Unlock", "closeFn", "stream.Close"]
def ClientRegistry_Close : List String := ["mu.Lock", "mu.Unlock", "Stream.Close"]
def ClientRegistry_KickOldConnection : List String := ["mu.Lock", "unindexLocked", "delete", "mu.Unlock", "sendKickFn", "stream.Close"]
def Client_ConnectClient : List String := ["stateRepo.GetState", "stateRepo.SetState", "stateRepo.AddToNodeClients", "publishClientOnlineEvent"]
def Client_DisconnectClientIfMatch : List String := ["stateRepo.GetState", "stateRepo.RemoveFromNodeClients", "stateRepo.DeleteState", "publishClientOfflineEvent"]
def Client_EnsureClientOnline : List String := ["stateRepo.GetState", "state.Touch", "stateRepo.SetState", "stateRepo.SetState", "stateRepo.AddToNodeClients"]
def CloseConnection : List String := ["delete", "streamMgr.RemoveStream", "RemoveControlConnection", "RemoveTunnelConnection", "connStateStore.UnregisterConnection"]
def CreateConnection : List String := ["streamMgr.CreateStream", "connLock.Lock", "connLock.Unlock", "connLock.Unlock"]
def FindClientNode_storage : List String := ["storage.Get", "GetConnectionState"]
def GetConnectionState_storage : List String := ["storage.Get", "storage.Delete"]
def HandlersComponent_Initialize : List String := ["session.NewConnectionStateStore", "SessionMgr.SetConnectionStateStore", "session.NewCrossNodePool", "SessionMgr.SetCrossNodePool"]
def Hybrid_Get : List String := ["h.getCategory", "h.getCacheForKey", "cache.Get", "h.getSharedPersistent", "cache.Get", "h.persistent.Get"]
def Hybrid_getCacheForKey : List String := ["h.isShared"]
def Hybrid_getCategory : List String := ["h.isSharedPersistent", "h.isShared", "h.isPersistent"]
def Hybrid_setShared : List String := ["h.getCacheForKey", "cache.Set"]
def KickOldControlConnection : List String := ["clientRegistry.KickOldConnection"]
def RemoveControlConnection : List String := ["clientRegistry.GetByConnID", "clientRegistry.Remove", "cloudControl.DisconnectClientIfMatch"]
def SendCommandToClient : List String := ["GetControlConnectionByClientID", "sendCommandLocal", "sendCommandCrossNode"]
def SendHTTPProxyRequest : List String := ["GetControlConnectionByClientID", "sendHTTPProxyRequestLocal", "connStateStore.FindClientNode", "sendHTTPProxyRequestCrossNode"]
def SendHTTPProxyRequest_writes : List String := ["GetControlConnectionByClientID", "connStateStore.FindClientNode"]
def SessionManager_onClose : List String := ["clientRegistry.Close", "tunnelRegistry.Close", "connLock.Lock", "connLock.Unlock"]
def StateRepo_GetState : List String := ["storage.Get"]
def StateRepo_SetState : List String := ["state.Validate", "storage.Set"]
def StreamManager_CreateStream : List String := ["mu.Lock", "mu.Unlock", "factory.NewStreamProcessor"]
def UpdateAuth : List String := ["mu.Lock", "mu.Unlock", "unindexLocked"]
def WebSocketModule_handleConnection : List String := ["session.CloseConnection", "wsConn.Close"]
def cleanupStaleConnections : List String := ["clientRegistry.CleanupStale", "cloudControl.DisconnectClientIfMatch", "CloseConnection"]
def clientIndexPointsTo_storage : List String := ["storage.Get"]
def handleDNSQueryCrossNode : List String := ["connStateStore.FindClientNode", "crossNodePool.Get", "WriteFrame", "ReadFrame"]
def handleDNSQueryCrossNode_writes : List String := ["connStateStore.FindClientNode"]
def handleDisconnectCommand : List String := ["clientRegistry.GetByConnID", "CloseConnection"]
def handleHandshake : List String := ["RegisterControlConnection", "RegisterControlConnection", "authHandler.HandleHandshake", "sendHandshakeResponse", "clientRegistry.DropStaleIndex", "sendHandshakeResponse", "clientRegistry.GetByClientID", "connStateStore.UnregisterConnection", "clientRegistry.Remove", "clientRegistry.UpdateAuth", "connStateStore.RegisterConnection"]
def handleHeartbeat : List String := ["clientRegistry.GetByConnID", "controlConn.UpdateActivity", "cloudControl.EnsureClientOnline", "connStateStore.RefreshConnection"]
def removeConnectionLocked : List String := ["Stream.Close", "unindexLocked", "delete"]
def sendCommandCrossNode : List String := ["connStateStore.FindClientNode", "crossNodePool.Get", "WriteFrame", "ReadFrame"]
def sendCommandCrossNode_writes : List String := ["connStateStore.FindClientNode"]
def unindexLocked : List String := ["delete"]
def updateClientRuntimeState : List String := ["cloudControl.ConnectClient"]
end Skel

namespace Flow
def NewStore : List String := [
  "if ttl == 0",
  "ttl = 5 * time.Minute",
  "end",
  "return &Store{ storage: storage, nodeID: nodeID, ttl: ttl, }"
]
def RegisterConnection : List String := [
  "if state.ConnectionID == \"\"",
  "return coreerrors.New(coreerrors.CodeInvalidParam, \"connection_id is required\")",
  "end",
  "state.NodeID = s.nodeID",
  "now := time.Now()",
  "state.CreatedAt = now",
  "state.ExpiresAt = now.Add(s.ttl)",
  "key := s.makeConnectionKey(state.ConnectionID)",
  "if err := s.storage.Set(key, state, s.ttl); err != nil",
  "return coreerrors.Wrap(err, coreerrors.CodeStorageError, \"failed to store connection state\")",
  "end",
  "if state.ConnType == \"control\" && state.ClientID > 0",
  "clientKey := s.makeClientKey(state.ClientID)",
  "if err := s.storage.Set(clientKey, state.ConnectionID, s.ttl); err != nil",
  "end",
  "end",
  "return nil"
]
def UnregisterConnection : List String := [
  "if connectionID == \"\"",
  "return coreerrors.New(coreerrors.CodeInvalidParam, \"connection_id is required\")",
  "end",
  "state, err := s.GetConnectionState(ctx, connectionID)",
  "if err == nil && state != nil",
  "if state.ConnType == \"control\" && state.ClientID > 0",
  "clientKey := s.makeClientKey(state.ClientID)",
  "if s.clientIndexPointsTo(clientKey, connectionID)",
  "if delErr := s.storage.Delete(clientKey); delErr != nil",
  "end",
  "end",
  "end",
  "end",
  "key := s.makeConnectionKey(connectionID)",
  "if err := s.storage.Delete(key); err != nil",
  "return nil",
  "end",
  "return nil"
]
def GetConnectionState : List String := [
  "if connectionID == \"\"",
  "return nil, coreerrors.New(coreerrors.CodeInvalidParam, \"connection_id is required\")",
  "end",
  "key := s.makeConnectionKey(connectionID)",
  "value, err := s.storage.Get(key)",
  "if err != nil",
  "if err == storage.ErrKeyNotFound",
  "return nil, ErrConnectionNotFound",
  "end",
  "return nil, coreerrors.Wrap(err, coreerrors.CodeStorageError, \"failed to get connection state\")",
  "end",
  "var state Info",
  "typeswitch v := value.(type)",
  "case map[string]interface{}",
  "data, err := json.Marshal(v)",
  "if err != nil",
  "return nil, coreerrors.Wrap(err, coreerrors.CodeInternal, \"failed to re-marshal connection state\")",
  "end",
  "if err := json.Unmarshal(data, &state); err != nil",
  "return nil, coreerrors.Wrap(err, coreerrors.CodeInternal, \"failed to unmarshal connection state\")",
  "end",
  "case []byte",
  "if err := json.Unmarshal(v, &state); err != nil",
  "return nil, coreerrors.Wrap(err, coreerrors.CodeInternal, \"failed to unmarshal connection state\")",
  "end",
  "case string",
  "if err := json.Unmarshal([]byte(v), &state); err != nil",
  "return nil, coreerrors.Wrap(err, coreerrors.CodeInternal, \"failed to unmarshal connection state\")",
  "end",
  "case *Info",
  "if v == nil",
  "return nil, coreerrors.New(coreerrors.CodeInternal, \"nil connection state\")",
  "end",
  "state = *v",
  "case Info",
  "state = v",
  "default",
  "return nil, coreerrors.Newf(coreerrors.CodeInternal, \"unexpected value type: %T\", value)",
  "end",
  "if time.Now().After(state.ExpiresAt)",
  "s.storage.Delete(key)",
  "return nil, ErrConnectionExpired",
  "end",
  "return &state, nil"
]
def FindClientNode : List String := [
  "if clientID <= 0",
  "return \"\", \"\", coreerrors.New(coreerrors.CodeInvalidParam, \"invalid client_id\")",
  "end",
  "clientKey := s.makeClientKey(clientID)",
  "value, err := s.storage.Get(clientKey)",
  "if err != nil",
  "if err == storage.ErrKeyNotFound",
  "return \"\", \"\", ErrConnectionNotFound",
  "end",
  "return \"\", \"\", coreerrors.Wrap(err, coreerrors.CodeStorageError, \"failed to get client index\")",
  "end",
  "var connectionID string",
  "typeswitch v := value.(type)",
  "case string",
  "connectionID = v",
  "case []byte",
  "connectionID = string(v)",
  "default",
  "return \"\", \"\", coreerrors.Newf(coreerrors.CodeInternal, \"unexpected value type: %T\", value)",
  "end",
  "state, err := s.GetConnectionState(ctx, connectionID)",
  "if err != nil",
  "return \"\", \"\", err",
  "end",
  "return state.NodeID, connectionID, nil"
]
def RefreshConnection : List String := [
  "state, err := s.GetConnectionState(ctx, connectionID)",
  "if err != nil",
  "return err",
  "end",
  "state.ExpiresAt = time.Now().Add(s.ttl)",
  "key := s.makeConnectionKey(connectionID)",
  "if err := s.storage.Set(key, state, s.ttl); err != nil",
  "return coreerrors.Wrap(err, coreerrors.CodeStorageError, \"failed to refresh connection state\")",
  "end",
  "if state.ConnType == \"control\" && state.ClientID > 0",
  "clientKey := s.makeClientKey(state.ClientID)",
  "if s.clientIndexPointsTo(clientKey, connectionID)",
  "if err := s.storage.Set(clientKey, connectionID, s.ttl); err != nil",
  "end",
  "end",
  "end",
  "return nil"
]
def clientIndexPointsTo : List String := [
  "value, err := s.storage.Get(clientKey)",
  "if err != nil",
  "return false",
  "end",
  "typeswitch v := value.(type)",
  "case string",
  "return v == connectionID",
  "case []byte",
  "return string(v) == connectionID",
  "end",
  "return false"
]
def makeConnectionKey : List String := [
  "return fmt.Sprintf(\"tunnox:conn_state:%s\", connectionID)"
]
def makeClientKey : List String := [
  "return fmt.Sprintf(\"tunnox:client_conn:%d\", clientID)"
]
end Flow

end Gen
